"""C17 - Elliptic-curve arithmetic, ECDH and public-point validation are correct.

Tie: translator (tools/gen/ec.py -> Gen/EcFormulas.v, Gen/Curves.v).  The theorems of
Properties/C17.v are about the generated formula functions; scalar multiplication, mul_add,
scale/x(), validation and ECDH are hand models (Model/Ec.v) on top of them.

correspondence: cross-check of the translator (generated functions evaluated in Coq vs the
  real methods on random and edge inputs, incl. unreduced / negative coordinates, Z = 1 and
  Z != 1, infinity encodings), _naf, contains_point, the generated curve parameters vs the live
  curve objects, and the hand models (pj_mul with NAF / generator table, pj_mul_add, scale,
  x(), __eq__, double(), __add__, Public_key validation, key derivation, ECDH) vs the
  implementation, exact Jacobian coordinates.
search: the property predicate on the real implementation against an independent affine
  textbook implementation written here: whole small prime-order groups (every pair of points
  x projective scalings incl. INFINITY, equal and inverse operands; scalars 0..3n; mul_add),
  edge scalars on all 17 shipped curves, ECDH symmetry through ecdh.py, invalid points through
  Public_key / VerifyingKey.from_string / ECDH.load_received_public_key_bytes; optional OpenSSL
  differential on P-256 (thorough tier, only if an openssl binary exists).

The AFFINE class Point (second representation): tools/gen/ec.py: gen_ec_affine -> Gen/EcAffine.v (the
  arithmetic of Point.__add__ / double / __neg__), hand models in Model/EcAffine.v (constructor incl. the
  order assertion, __eq__, the __mul__ loop, PointJacobi ==/+ with an affine operand, from_affine,
  to_affine).  correspondence: aff_run / aff_model on small and shipped curves - exact integers of the
  returned objects and exact exception kinds (AssertionError, ValueError).  search: aff_impl_ok = the
  independent textbook arithmetic, complete enumeration of the small groups and edge scalars on the 17
  shipped curves.  A disagreement of the model is reported as a failing input (kind affine-wrong) when
  the implementation's result violates the group law, as a broken correspondence otherwise.
"""
import os
import shutil
import signal
import subprocess
import tempfile

from vlib import qZ, qlist, qbool, qbytes

GEN_DEPS = ("EcFormulas.v", "gen_ec_formulas", "Curves.v", "gen_curves", "EcAffine.v", "gen_ec_affine")
MODEL_TARGETS = ["Model/Ec.vo", "Model/P256Plugin.vo", "Model/EcAffine.vo"]
IMPORTS = ("From Bec2 Require Import Base.Modp Gen.EcFormulas Gen.Curves Gen.EcAffine Model.Ec Model.P256Plugin "
           "Model.EcAffine.")

PREAMBLE = """
Definition jeqb (A B : Z * Z * Z) : bool :=
  let '(a, b, c) := A in let '(d, e, f) := B in ((a =? d) && (b =? e) && (c =? f))%Z.
Definition ojeqb (A B : option (Z * Z * Z)) : bool :=
  match A, B with None, None => true | Some x, Some y => jeqb x y | _, _ => false end.
Definition rjeqb (r : result (option (Z * Z * Z))) (B : option (Z * Z * Z)) : bool :=
  match r with Ok x => ojeqb x B | Err _ => false end.
(* hand-modelled operations are judged by the point they return, not by its projective
   representation: both infinite, or both finite and equal in the sense of __eq__ *)
Definition oinf (o : option (Z * Z * Z)) : bool := match o with None => true | Some J => is_inf J end.
Definition jequiv (p : Z) (A B : option (Z * Z * Z)) : bool :=
  if oinf A || oinf B then oinf A && oinf B
  else match A, B with Some x, Some y => pj_eqb p x y | _, _ => false end.
Definition rjequiv (p : Z) (r : result (option (Z * Z * Z))) (B : option (Z * Z * Z)) : bool :=
  match r with Ok x => jequiv p x B | Err _ => false end.
Definition rj1 (p : Z) (r : result (Z * Z * Z)) (B : Z * Z * Z) : bool :=
  match r with Ok x => jequiv p (Some x) (Some B) && (snd x =? snd B)%Z | Err _ => false end.
Definition rzm (p : Z) (r : result Z) (b : Z) : bool := match r with Ok x => eqmb p x b | Err _ => false end.
Definition roam (p : Z) (r : result (option (Z * Z))) (b : option (Z * Z)) : bool :=
  match r with Ok x => option_eqb (fun u v => eqmb p (fst u) (fst v) && eqmb p (snd u) (snd v)) x b | Err _ => false end.
Definition rb (r : result bool) (b : bool) : bool := match r with Ok x => Bool.eqb x b | Err _ => false end.
Definition roz (r : result (option Z)) (b : option Z) : bool :=
  match r with Ok x => option_eqb Z.eqb x b | Err _ => false end.
Definition roa (r : result (option (Z * Z))) (b : option (Z * Z)) : bool :=
  match r with Ok x => option_eqb (fun u v => ((fst u =? fst v) && (snd u =? snd v))%Z) x b | Err _ => false end.
Definition outcome_eqb (r : result ecdh_outcome) (o : ecdh_outcome) : bool :=
  match r, o with
  | Ok (Secret a), Secret b => (a =? b)%Z
  | Ok NoKeyError, NoKeyError | Ok InvalidCurveError, InvalidCurveError
  | Ok InvalidSharedSecretError, InvalidSharedSecretError => true
  | _, _ => false
  end.
Definition iserr {A} (r : result A) : bool := match r with Err _ => true | Ok _ => false end.
(* the affine class: results are compared as the integers the objects hold, errors by kind *)
Definition xyeqb (u v : Z * Z) : bool := ((fst u =? fst v) && (snd u =? snd v))%Z.
Definition raeq (r e : result (option (Z * Z))) : bool := res_eqb (option_eqb xyeqb) r e.
Definition rqeq (r e : result (Z * Z)) : bool := res_eqb xyeqb r e.
(* PointJacobi.from_affine(P) * k == P * k as the library's own mixed __eq__ sees it (a function, so that the
   case files contain no `match` on a closed term: its elaboration would reduce the scrutinee without the VM) *)
Definition via_eq (p a b h ord : Z) (q : Z * Z) (k : Z) : bool :=
  match pj_mul p a ord false (pj_from_affine q) k, ap_mul p a b h ord (Some q) k with
  | Ok rJ, Ok rA => pj_opt_eq_aff p rJ rA
  | _, _ => false
  end.
Definition rl (r : result (list Z)) (b : list Z) : bool := res_eqb (list_eqb Z.eqb) r (Ok b).
Definition ceq (c : curve) (name : list N) (p a b gx gy n h : Z) : bool :=
  list_eqb N.eqb (c_name c) name &&
  ((c_p c =? p) && (c_a c =? a) && (c_b c =? b) && (c_Gx c =? gx) && (c_Gy c =? gy) &&
   (c_n c =? n) && (c_h c =? h))%Z.
"""

# small prime-order curves (p, a, b, n): complete groups are enumerated on these
SMALL = [(7, 1, 1, 5), (7, 0, 5, 7), (7, 4, 6, 11), (11, 1, 6, 13), (11, 8, 1, 17),
         (13, 10, 1, 19), (17, 14, 3, 23), (23, 1, 4, 29), (29, 4, 9, 37), (37, 0, 5, 37),
         (31, 28, 6, 41), (31, 0, 3, 43)]


class ImplTimeout(Exception):
    """a single call into the implementation ran for more than WATCHDOG seconds (a modified
    `while` loop may not terminate and would otherwise eat all memory)"""


WATCHDOG = 10.0     # seconds of CPU time of this process (not wall-clock: the machine may be loaded)


def _on_alarm(sig, frame):
    raise ImplTimeout("implementation call did not return within %.0f s of CPU time" % WATCHDOG)


def kick():
    """(re)arm the watchdog; called before every call into the implementation"""
    signal.setitimer(signal.ITIMER_VIRTUAL, WATCHDOG)


ARMED = [False]


def watchdog(on):
    ARMED[0] = bool(on)
    if on:
        signal.signal(signal.SIGVTALRM, _on_alarm)
        kick()
    else:
        signal.setitimer(signal.ITIMER_VIRTUAL, 0)


def lib():
    from register_crypto_plugin.ecdsa import ellipticcurve, curves, ecdsa, keys, ecdh, errors
    return ellipticcurve, curves, ecdsa, keys, ecdh, errors


def shipped():
    ec, curves, *_ = lib()
    return [c for c in curves.curves if isinstance(c.curve, ec.CurveFp)]


# ---------------------------------------------------------------------------
# independent affine textbook implementation (None = point at infinity)

def inv(x, p):
    return pow(x % p, -1, p)


def a_add(P, Q, p, a):
    if P is None:
        return Q
    if Q is None:
        return P
    x1, y1 = P
    x2, y2 = Q
    if (x1 - x2) % p == 0:
        if (y1 + y2) % p == 0:
            return None
        lam = (3 * x1 * x1 + a) * inv(2 * y1, p) % p
    else:
        lam = (y2 - y1) * inv(x2 - x1, p) % p
    x3 = (lam * lam - x1 - x2) % p
    return (x3, (lam * (x1 - x3) - y1) % p)


def a_neg(P, p):
    return None if P is None else (P[0], (-P[1]) % p)


def a_mul(k, P, p, a):
    if k < 0:
        return a_mul(-k, a_neg(P, p), p, a)
    R = None
    Q = P
    while k:
        if k & 1:
            R = a_add(R, Q, p, a)
        Q = a_add(Q, Q, p, a)
        k >>= 1
    return R


def points_of(p, a, b):
    return [(x, y) for x in range(p) for y in range(p) if (y * y - (x * x * x + a * x + b)) % p == 0]


def to_aff(R, p):
    """affine value of an implementation result (INFINITY / PointJacobi / Point), coordinates mod p"""
    ec = lib()[0]
    if R is ec.INFINITY or R == ec.INFINITY:
        return None
    A = R.to_affine() if hasattr(R, "to_affine") else R
    if A is ec.INFINITY or A == ec.INFINITY:
        return None
    return (A.x() % p, A.y() % p)


def mkpt(curve, P, z, order=None, generator=False, p=None):
    """PointJacobi for affine P (or an encoding of infinity when P is None) scaled by z.
    z may be a triple (z, dx, dy): X and Y are then shifted by dx*p, dy*p (unreduced / negative)."""
    ec = lib()[0]
    p = int(p or curve.p())
    dx = dy = 0
    if isinstance(z, tuple):
        z, dx, dy = z
    if P is None:
        enc = [(0, 0, 1), (5 % p, 0, 3), (1, 1, 0)][z % 3]
        return ec.PointJacobi(curve, enc[0], enc[1], enc[2], order, generator)
    x, y = P
    return ec.PointJacobi(curve, x * z * z % p + dx * p, y * z * z * z % p + dy * p, z, order, generator)


def coords(R):
    ec = lib()[0]
    if isinstance(R, ec.PointJacobi):
        return tuple(int(v) for v in R._PointJacobi__coords)
    return None


# ---------------------------------------------------------------------------
# Coq literals

def qj(t):
    return "(%s, %s, %s)" % (qZ(t[0]), qZ(t[1]), qZ(t[2]))


def qoj(t):
    return "None" if t is None else "(Some %s)" % qj(t)


def qzl(l):
    return qlist([qZ(x) for x in l], "Z")


# ---------------------------------------------------------------------------
# correspondence

def unred(r, v, p):
    """an unreduced / negative representative of v mod p (sometimes v itself)"""
    return v + r.choice([0, 0, 0, 0, p, -p, 2 * p, -3 * p])


def rep(r, P, p, zmode):
    """Jacobian representative of affine P with Z chosen by zmode"""
    if P is None:
        return r.choice([(0, 0, 1), (r.randrange(p), 0, r.randrange(1, p)), (r.randrange(p), r.randrange(1, p), 0),
                         (0, 0, 0)])
    x, y = P
    if zmode == "one":
        z = 1
    elif zmode == "small":
        z = r.choice([2, 3, p - 1])
    else:
        z = r.randrange(1, p)
    return (x * z * z % p, y * z * z * z % p, z)


def formula_cases(ctx, n_small, n_big):
    """(fname, args tuple incl. p, a, coqname) for the seven formula functions"""
    r = ctx.rng
    out = []
    big = [(c.curve.p(), c.curve.a(), c.curve.b(), (c.generator.x(), c.generator.y()), c.order) for c in shipped()]
    small = [(p, a, b, None, n) for (p, a, b, n) in SMALL]
    cache = {}

    def pts_for(cv, big_curve):
        p, a, b, G, n = cv
        if not big_curve:
            if cv not in cache:
                cache[cv] = points_of(p, a, b)
            return cache[cv]
        key = ("big", p)
        if key not in cache:
            cache[key] = [a_mul(k, G, p, a) for k in (1, 2, 3, 5, r.randrange(1, n), r.randrange(1, n))]
        return cache[key]

    for i in range(n_small + n_big):
        if ARMED[0]:
            kick()
        big_curve = i >= n_small
        cv = r.choice(big if big_curve else small)
        p, a, b, G, n = cv
        pts = pts_for(cv, big_curve)
        P = r.choice(pts)
        rel = r.choice(["rand", "rand", "equal", "inverse", "inf1", "inf2"])
        if rel == "equal":
            Q = P
        elif rel == "inverse":
            Q = a_neg(P, p)
        else:
            Q = r.choice(pts)
        fn = r.choice(["_double_with_z_1", "_double", "_add_with_z_1", "_add_with_z_eq", "_add_with_z2_1",
                       "_add_with_z_ne", "_add", "_add", "_add"])
        z1m = r.choice(["one", "small", "rand"])
        z2m = r.choice(["one", "small", "rand"])
        if fn == "_add":
            J1 = rep(r, None if rel == "inf1" else P, p, z1m)
            J2 = rep(r, None if rel == "inf2" else Q, p, z2m)
            if r.random() < 0.3 and J1[2] not in (0, 1):       # same Z, not 1
                z = J1[2]
                if Q is not None and rel != "inf2":
                    J2 = (Q[0] * z * z % p, Q[1] * z * z * z % p, z)
        elif fn in ("_add_with_z_1",):
            J1, J2 = rep(r, P, p, "one"), rep(r, Q, p, "one")
        elif fn == "_add_with_z_eq":
            J1 = rep(r, P, p, z1m)
            z = J1[2]
            J2 = (Q[0] * z * z % p, Q[1] * z * z * z % p, z)
        elif fn == "_add_with_z2_1":
            J1, J2 = rep(r, P, p, z1m), rep(r, Q, p, "one")
        elif fn == "_add_with_z_ne":
            J1, J2 = rep(r, P, p, z1m), rep(r, Q, p, z2m)
        else:
            J1 = rep(r, P, p, "one" if fn == "_double_with_z_1" else z1m)
            J2 = None
        style = r.random()
        if style < 0.35:        # unreduced / negative X, Y (Z kept: the dispatch compares Z with 1 and Z2)
            J1 = (unred(r, J1[0], p), unred(r, J1[1], p), J1[2])
            if J2:
                J2 = (unred(r, J2[0], p), unred(r, J2[1], p), J2[2])
        elif style < 0.45:      # negated Y as the multiplication loops pass it
            if J2:
                J2 = (J2[0], -J2[1], J2[2])
        elif style < 0.52:      # unreduced Z as well
            J1 = (J1[0], J1[1], J1[2] + p)
        elif style < 0.60:      # arbitrary integers (the functions are total)
            J1 = tuple(r.randrange(-2 * p, 2 * p) for _ in range(3))
            if J2:
                J2 = tuple(r.randrange(-2 * p, 2 * p) for _ in range(3))
        out.append((fn, p, a, b, J1, J2, rel, big_curve))
    return out


COQ_NAME = {"_double_with_z_1": "pj_double_with_z_1", "_double": "pj_double", "_add_with_z_1": "pj_add_with_z_1",
            "_add_with_z_eq": "pj_add_with_z_eq", "_add_with_z2_1": "pj_add_with_z2_1",
            "_add_with_z_ne": "pj_add_with_z_ne", "_add": "pj_add"}


def call_formula(fn, p, a, b, J1, J2):
    """returns (coq expression of the generated function applied, implementation result)"""
    ec = lib()[0]
    cv = ec.CurveFp(p, a, b, 1)
    o = ec.PointJacobi(cv, 0, 0, 1)
    Z = qZ
    if fn == "_double_with_z_1":
        res = o._double_with_z_1(J1[0], J1[1], p, a)
        e = "(pj_double_with_z_1 %s %s %s %s)" % (Z(J1[0]), Z(J1[1]), Z(p), Z(a))
    elif fn == "_double":
        res = o._double(J1[0], J1[1], J1[2], p, a)
        e = "(pj_double %s %s %s %s %s)" % (Z(J1[0]), Z(J1[1]), Z(J1[2]), Z(p), Z(a))
    elif fn == "_add_with_z_1":
        res = o._add_with_z_1(J1[0], J1[1], J2[0], J2[1], p)
        e = "(pj_add_with_z_1 %s %s %s %s %s %s)" % (Z(J1[0]), Z(J1[1]), Z(J2[0]), Z(J2[1]), Z(p), Z(a))
    elif fn == "_add_with_z_eq":
        res = o._add_with_z_eq(J1[0], J1[1], J1[2], J2[0], J2[1], p)
        e = "(pj_add_with_z_eq %s %s %s %s %s %s %s)" % (Z(J1[0]), Z(J1[1]), Z(J1[2]), Z(J2[0]), Z(J2[1]), Z(p), Z(a))
    elif fn == "_add_with_z2_1":
        res = o._add_with_z2_1(J1[0], J1[1], J1[2], J2[0], J2[1], p)
        e = "(pj_add_with_z2_1 %s %s %s %s %s %s %s)" % (Z(J1[0]), Z(J1[1]), Z(J1[2]), Z(J2[0]), Z(J2[1]), Z(p), Z(a))
    elif fn == "_add_with_z_ne":
        res = o._add_with_z_ne(J1[0], J1[1], J1[2], J2[0], J2[1], J2[2], p)
        e = "(pj_add_with_z_ne %s %s %s %s %s %s %s %s)" % (Z(J1[0]), Z(J1[1]), Z(J1[2]), Z(J2[0]), Z(J2[1]), Z(J2[2]),
                                                          Z(p), Z(a))
    else:
        res = o._add(J1[0], J1[1], J1[2], J2[0], J2[1], J2[2], p)
        e = "(pj_add %s %s %s %s %s %s %s %s)" % (Z(J1[0]), Z(J1[1]), Z(J1[2]), Z(J2[0]), Z(J2[1]), Z(J2[2]), Z(p), Z(a))
    return e, tuple(int(v) for v in res)


def spec_formula_ok(fn, p, a, J1, J2, res):
    """property predicate for one formula call, when the inputs are proper representations:
    the result must denote the affine sum (independent implementation).  Returns None when not
    applicable (improper inputs), else True/False."""
    def aff(J):
        X, Y, Zc = J
        if Y % p == 0 or Zc % p == 0:
            return None
        zi = inv(Zc, p)
        return (X * zi * zi % p, Y * zi * zi * zi % p)
    if fn in ("_double_with_z_1", "_double"):
        Jin = (J1[0], J1[1], 1) if fn == "_double_with_z_1" else J1
        want = a_add(aff(Jin), aff(Jin), p, a)
    else:
        if fn == "_add_with_z_1":
            A, B = (J1[0], J1[1], 1), (J2[0], J2[1], 1)
        elif fn == "_add_with_z_eq":
            A, B = J1, (J2[0], J2[1], J1[2])
        elif fn == "_add_with_z2_1":
            A, B = J1, (J2[0], J2[1], 1)
        else:
            A, B = J1, J2
        if fn != "_add" and (aff(A) is None or aff(B) is None):
            return None      # the specialised formulas are only called on finite operands
        if fn == "_add":
            # the dispatch tests Y, Z as integers: non-zero multiples of p are outside its contract
            for J in (A, B):
                if (J[1] != 0 and J[1] % p == 0) or (J[2] != 0 and J[2] % p == 0):
                    return None
        want = a_add(aff(A), aff(B), p, a)
    got = aff(res)
    if want is not None and want[1] == 0:
        return None          # a point of order 2: excluded by the property (prime order)
    return got == want


def correspondence(ctx):
    watchdog(True)
    try:
        exprs, meta, heavy = _correspondence_cases(ctx)
        aff_small, aff_ship, aff_heavy = affine_correspondence(ctx)
    finally:
        watchdog(False)
    n_heavy = len(heavy)
    heavy = heavy + aff_heavy
    bad = ctx.coq_eval("ec", IMPORTS, exprs, preamble=PREAMBLE, shard=120)
    bad_a = ctx.coq_eval("ecaff", IMPORTS, [e for e, _ in aff_small], preamble=PREAMBLE, shard=60)
    bad_s = ctx.coq_eval("ecaffship", IMPORTS, [e for e, _ in aff_ship], preamble=PREAMBLE, shard=3, timeout=1500)
    bad_h = ctx.coq_eval("ecbig", IMPORTS, [e for e, _ in heavy], preamble=PREAMBLE, shard=1, timeout=1500)
    if bad_a is not None:
        ctx.traces += len(aff_small)
        affine_report(ctx, bad_a, aff_small, "small curves")
    if bad_s is not None:
        ctx.traces += len(aff_ship)
        affine_report(ctx, bad_s, aff_ship, "shipped curves")
    if bad_h is not None:
        affine_report(ctx, [i - n_heavy for i in bad_h if i >= n_heavy], aff_heavy, "scalar multiplication on shipped curves")
        bad_h = [i for i in bad_h if i < n_heavy]
    if bad is None or bad_h is None:
        return
    ctx.traces += len(exprs) + len(heavy)
    for i in bad:
        m = meta[i]
        if m[0] == "formula":
            _, fn, p, a, b, J1, J2, res = m
            ok = spec_formula_ok(fn, p, a, J1, J2, res)
            if ok is False:
                ctx.fail("formula-wrong", {"fn": fn, "p": p, "a": a, "b": b, "J1": list(J1), "J2": list(J2) if J2 else None},
                         "implementation returns %r which does not denote the affine result" % (res,))
                continue
        ctx.broken("correspondence: %s differs from the implementation" % (
            "generated " + COQ_NAME.get(m[1], m[1]) if m[0] == "formula" else "model/generated " + m[0]), repr(m)[:1500])
    for i in bad_h:
        ctx.broken("correspondence: model %s differs from the implementation" % heavy[i][1][0], repr(heavy[i][1])[:1500])


def _correspondence_cases(ctx):
    ec, curves, ecdsa_mod, keys, ecdh, errors = lib()
    r = ctx.rng
    exprs, meta = [], []

    def add(expr, m):
        kick()
        exprs.append(expr)
        meta.append(m)

    # (0) generated curve parameters vs the live curve objects
    for c in shipped():
        add("(ceq %s %s %s %s %s %s %s %s %s)" % (
            c.name, qlist(["%d%%N" % ord(ch) for ch in c.name], "N"), qZ(int(c.curve.p())), qZ(int(c.curve.a())),
            qZ(int(c.curve.b())), qZ(int(c.generator.x())), qZ(int(c.generator.y())), qZ(int(c.order)),
            qZ(int(c.curve.cofactor()))), ("params", c.name))
        ctx.case(("params", c.name))
    # (1) the seven formula functions
    fcases = formula_cases(ctx, ctx.budget(900, 9000), ctx.budget(90, 900))
    for (fn, p, a, b, J1, J2, rel, bigc) in fcases:
        e, res = call_formula(fn, p, a, b, J1, J2)
        add("(jeqb %s %s)" % (e, qj(res)), ("formula", fn, p, a, b, J1, J2, res))
        ctx.case(("f", fn, p, a, J1, J2))
        ctx.dist["formula:%s" % fn] += 1
        ctx.dist["rel:%s" % rel] += 1
    ctx.sample({"formula": fcases[0][0], "p": fcases[0][1], "a": fcases[0][2], "J1": fcases[0][4], "J2": fcases[0][5]})
    # (2) _naf
    naf = ec.PointJacobi._naf
    ks = list(range(0, 70)) + [2 ** k + d for k in (7, 8, 16, 31, 32, 63, 64, 127, 255, 256, 520, 521) for d in (-1, 0, 1)]
    ks += [r.randrange(2 ** r.choice([8, 16, 64, 128, 256, 521])) for _ in range(ctx.budget(60, 600))]
    for k in ks:
        add("(rl (naf %s) %s)" % (qZ(k), qzl(naf(k))), ("naf", k))
        ctx.case(("naf", k), trivial=(k == 0))
    ctx.dist["naf"] += len(ks)
    # (3) contains_point
    for _ in range(ctx.budget(150, 1500)):
        if r.random() < 0.7:
            p, a, b, n = r.choice(SMALL)
            x, y = r.choice(points_of(p, a, b)) if r.random() < 0.5 else (r.randrange(p), r.randrange(p))
        else:
            c = r.choice(shipped())
            p, a, b = int(c.curve.p()), int(c.curve.a()), int(c.curve.b())
            x, y = (int(c.generator.x()), int(c.generator.y())) if r.random() < 0.5 else (r.randrange(p), r.randrange(p))
        x, y = unred(r, x, p), unred(r, y, p)
        got = bool(ec.CurveFp(p, a, b, 1).contains_point(x, y))
        add("(Bool.eqb (contains_point %s %s %s %s %s) %s)" % (qZ(x), qZ(y), qZ(p), qZ(a), qZ(b), qbool(got)),
            ("contains", p, a, b, x, y, got))
        ctx.case(("contains", p, a, b, x, y))
    # (4) hand models on small curves.  An exception of the implementation must be an Err of the model.
    heavy = []
    n_model = ctx.budget(500, 5000)

    def run(f):
        try:
            return ("ok", f())
        except ImplTimeout:
            raise
        except Exception as e:          # noqa
            return ("exc", repr(e))

    def qaff(t):
        return "None" if t is None else "(Some (%s, %s))" % (qZ(t[0]), qZ(t[1]))

    for i in range(n_model):
        p, a, b, n = r.choice(SMALL)
        cv = ec.CurveFp(p, a, b, 1)
        pts = points_of(p, a, b)
        P = r.choice(pts + [None])
        z = r.choice([1, 1, 2, 3, r.randrange(1, p)])
        op = r.choice(["mul", "mul", "mul", "mul_add", "mul_add", "scale", "eq", "double", "add", "valid", "ecdh", "pubkey"])
        model = None        # coq term of type result _ ; cmp: function value -> coq bool
        if op == "mul":
            gen = P is not None and r.random() < 0.5
            order = n if (gen or r.random() < 0.5) else None
            k = r.choice([0, 1, 2, n - 1, n, n + 1, 2 * n, 2 * n + 1, r.randrange(0, 3 * n + 1)])
            pt = mkpt(cv, P, z, order, gen)
            J = coords(pt)
            model = "(pj_mul %s %s %s %s %s %s)" % (qZ(p), qZ(a), qZ(order or 0), qbool(gen), qj(J), qZ(k))
            res = run(lambda: coords(pt * k))
            cmp = lambda v: "(rjequiv %s %s %s)" % (qZ(p), model, qoj(v))
            m = ("mul", p, a, b, order, gen, J, k)
            ctx.dist["model:mul:%s" % ("table" if gen else "naf")] += 1
        elif op == "mul_add":
            Q = r.choice(pts + [None])
            g1 = P is not None and r.random() < 0.35
            g2 = Q is not None and r.random() < 0.25
            o1 = n if (g1 or r.random() < 0.6) else None
            o2 = n if (g2 or r.random() < 0.6) else None
            k1, k2 = (r.choice([0, 1, 2, n - 1, n, n + 1, r.randrange(0, 2 * n)]) for _ in range(2))
            p1, p2 = mkpt(cv, P, z, o1, g1), mkpt(cv, Q, r.choice([1, 2, 3]), o2, g2)
            J1, J2 = coords(p1), coords(p2)
            model = "(pj_mul_add %s %s %s %s %s %s %s %s %s %s)" % (
                qZ(p), qZ(a), qZ(o1 or 0), qbool(g1), qj(J1), qZ(k1), qZ(o2 or 0), qbool(g2), qj(J2), qZ(k2))
            res = run(lambda: coords(p1.mul_add(k1, p2, k2)))
            cmp = lambda v: "(rjequiv %s %s %s)" % (qZ(p), model, qoj(v))
            m = ("mul_add", p, a, b, o1, g1, J1, k1, o2, g2, J2, k2)
            ctx.dist["model:mul_add"] += 1
        elif op == "scale":
            pt = mkpt(cv, P, z)
            J = coords(pt)

            def f():
                x, y = pt.x(), pt.y()
                S = coords(mkpt(cv, P, z).scale())
                A = pt.to_affine()
                return (int(x), int(y), S, None if A == ec.INFINITY else (int(A.x()), int(A.y())))
            model = "(pj_scale %s %s)" % (qZ(p), qj(J))
            res = run(f)
            cmp = lambda v: "(rzm %s (pj_x %s %s) %s && rzm %s (pj_y %s %s) %s && rj1 %s (pj_scale %s %s) %s && roam %s (pj_to_affine %s %s) %s)" % (
                qZ(p), qZ(p), qj(J), qZ(v[0]), qZ(p), qZ(p), qj(J), qZ(v[1]), qZ(p), qZ(p), qj(J), qj(v[2]), qZ(p), qZ(p), qj(J), qaff(v[3]))
            m = ("scale", p, J)
            ctx.dist["model:scale"] += 1
        elif op == "eq":
            if P is None:
                continue
            Q = r.choice([P, P, r.choice(pts)])
            p1, p2 = mkpt(cv, P, z), mkpt(cv, Q, r.choice([1, 2, 3]))
            res = run(lambda: bool(p1 == p2))
            cmp = lambda v: "(Bool.eqb (pj_eqb %s %s %s) %s)" % (qZ(p), qj(coords(p1)), qj(coords(p2)), qbool(v))
            m = ("eq", p, coords(p1), coords(p2))
            ctx.dist["model:eq"] += 1
        elif op == "double":
            pt = mkpt(cv, P, z)
            J = coords(pt)
            res = run(lambda: coords(pt.double()))
            cmp = lambda v: "(jequiv %s (pj_double_pt %s %s %s) %s)" % (qZ(p), qZ(p), qZ(a), qj(J), qoj(v))
            m = ("double", p, a, J)
            ctx.dist["model:double"] += 1
        elif op == "add":
            Q = r.choice([P, a_neg(P, p), r.choice(pts), None])
            p1, p2 = mkpt(cv, P, z), mkpt(cv, Q, r.choice([1, z, 2]))
            J1, J2 = coords(p1), coords(p2)
            res = run(lambda: coords(p1 + p2))
            cmp = lambda v: "(jequiv %s (pj_add_pt %s %s (Some %s) (Some %s)) %s)" % (qZ(p), qZ(p), qZ(a), qj(J1), qj(J2), qoj(v))
            m = ("add", p, a, J1, J2)
            ctx.dist["model:add"] += 1
        elif op == "valid":
            G = pts[0]
            h = r.choice([1, 1, 2])
            cvh = ec.CurveFp(p, a, b, h)
            gen = ec.PointJacobi(cvh, G[0], G[1], 1, n, generator=True)
            x, y = r.choice([r.choice(pts), (r.randrange(-2, p + 3), r.randrange(-2, p + 3)), (0, 0), (p, 1)])

            def f():
                try:
                    ecdsa_mod.Public_key(gen, ec.PointJacobi(cvh, x, y, 1), True)
                    return True
                except ecdsa_mod.InvalidPointError:
                    return False
            model = "(pubkey_valid %s %s %s %s %s true %s %s)" % (qZ(p), qZ(a), qZ(b), qZ(n), qZ(h), qZ(x), qZ(y))
            res = run(f)
            cmp = lambda v: "(rb %s %s)" % (model, qbool(v))
            m = ("valid", p, a, b, n, h, x, y)
            ctx.dist["model:valid:%s" % (res[1] if res[0] == "ok" else "exc")] += 1
        elif op == "pubkey":
            if P is None:
                continue
            d = r.randrange(1, n)

            def f():
                R = ec.PointJacobi(cv, P[0], P[1], 1, n, generator=True) * d
                R = R.scale() if hasattr(R, "scale") else R
                return None if R == ec.INFINITY else (int(R.x()), int(R.y()))
            model = "(pubkey_of %s %s %s %s %s)" % (qZ(p), qZ(a), qZ(n), qj((P[0], P[1], 1)), qZ(d))
            res = run(f)
            cmp = lambda v: "(roa %s %s)" % (model, qaff(v))
            m = ("pubkey", p, a, n, P, d)
            ctx.dist["model:pubkey"] += 1
        else:
            if P is None:
                continue
            d = r.randrange(1, n)

            def f():
                R = ec.PointJacobi(cv, P[0], P[1], 1) * d
                return None if R == ec.INFINITY else int(R.x())
            model = "(ecdh_shared %s %s %s %s)" % (qZ(p), qZ(a), qj((P[0], P[1], 1)), qZ(d))
            res = run(f)
            cmp = lambda v: "(roz %s %s)" % (model, "None" if v is None else "(Some %s)" % qZ(v))
            m = ("ecdh", p, a, P, d)
            ctx.dist["model:ecdh"] += 1
        if res[0] == "ok":
            add(cmp(res[1]), m)
        else:
            ctx.dist["model:impl-exception"] += 1
            add("(iserr %s)" % model if model else "false", m + ("implementation raised " + res[1],))
        ctx.case(("model", op, i))
    # (4b) the guards of ECDH._get_shared_secret: every combination of ECDH curve / private-key curve /
    # public-key curve (or none) over four shipped curves, attributes set directly
    gc = [curves.SECP112r1, curves.SECP112r2, curves.NIST256p, curves.SECP256k1]
    gkeys = {}
    for c in gc:
        d = r.choice([2, 3, 5, 6])
        gkeys[c.name] = (d, keys.SigningKey.from_secret_exponent(d, c),
                         keys.SigningKey.from_secret_exponent(r.randrange(2, 2 ** 40), c).get_verifying_key())
    combos = [(x, y, z) for x in [None] + gc for y in [None] + gc for z in [None] + gc]
    if ctx.quick():
        combos = [t for t in combos if t[0] is t[1] is t[2] or r.random() < 0.45]
    for (cx, cy, cz) in combos:
        e = ecdh.ECDH()
        e.curve = cx
        e.private_key = gkeys[cy.name][1] if cy else None
        e.public_key = gkeys[cz.name][2] if cz else None

        def f():
            try:
                return e.generate_sharedsecret()
            except (ecdh.NoKeyError, ecdh.InvalidCurveError, ecdh.InvalidSharedSecretError) as ex:
                return type(ex).__name__
        res = run(f)
        qpriv = "None" if cy is None else "(Some (%s, %s))" % (cy.name, qZ(gkeys[cy.name][0]))
        qpub = "None" if cz is None else "(Some (%s, %s))" % (cz.name, qj(coords(gkeys[cz.name][2].pubkey.point)))
        model = "(ecdh_get_shared %s %s %s)" % ("None" if cx is None else "(Some %s)" % cx.name, qpriv, qpub)
        m = ("ecdh-guard", cx and cx.name, cy and cy.name, cz and cz.name)
        if res[0] == "ok":
            v = res[1]
            add("(outcome_eqb %s %s)" % (model, v if isinstance(v, str) else "(Secret %s)" % qZ(int(v))), m)
        else:
            add("(iserr %s)" % model, m + ("implementation raised " + res[1],))
        ctx.case(m)
        ctx.dist["model:ecdh-guard"] += 1
    # (5) hand models on shipped curves: a few multiplications (slow inside Coq: one per shard)
    cs = shipped()
    by_bits = sorted(cs, key=lambda c: int(c.curve.p()).bit_length())
    # quick: both paths on the two smallest curves, the NAF path on NIST256p (the curve bec2format uses);
    # thorough: both paths on the three smallest and on NIST256p, one path on each of the others
    if ctx.quick():
        plan = [(c, (True, False)) for c in by_bits[:2]]     # NIST256p: through the plug-in model below
    else:
        plan = [(c, (True, False)) for c in by_bits[:3] + [curves.NIST256p]] + \
               [(c, (r.random() < 0.5,)) for c in cs if c not in by_bits[:3] and c is not curves.NIST256p]
    for c, gens in plan:
        p, a, n = int(c.curve.p()), int(c.curve.a()), int(c.order)
        gx, gy = int(c.generator.x()), int(c.generator.y())
        k = r.randrange(2, n)
        for gen in gens:
            pt = ec.PointJacobi(c.curve, gx, gy, 1, n, generator=gen)
            R = pt * k
            heavy.append(("(rjequiv %s (pj_mul %s %s %s %s %s %s) %s)" % (qZ(p), qZ(p), qZ(a), qZ(n), qbool(gen), qj((gx, gy, 1)),
                                                                        qZ(k), qoj(coords(R))), ("mul-big", c.name, gen, k)))
            ctx.case(("mul-big", c.name, gen, k))
            ctx.dist["model:mul:shipped"] += 1
    if int(by_bits[0].curve.p()).bit_length() <= 128:
        c = by_bits[0]
        p, a, n = int(c.curve.p()), int(c.curve.a()), int(c.order)
        gx, gy = int(c.generator.x()), int(c.generator.y())
        k1, k2 = r.randrange(2, n), r.randrange(2, n)
        Q = (ec.PointJacobi(c.curve, gx, gy, 1, n) * r.randrange(2, n))
        J2 = coords(Q)
        P1 = ec.PointJacobi(c.curve, gx, gy, 1, n)
        R = P1.mul_add(k1, ec.PointJacobi(c.curve, J2[0], J2[1], J2[2], n), k2)
        heavy.append(("(rjequiv %s (pj_mul_add %s %s %s false %s %s %s false %s %s) %s)" % (
            qZ(p), qZ(p), qZ(a), qZ(n), qj((gx, gy, 1)), qZ(k1), qZ(n), qj(J2), qZ(k2), qoj(coords(R))),
            ("mul_add-big", c.name, k1, k2)))
        ctx.case(("mul_add-big", c.name, k1, k2))

    # (6) the BEC2 ECC plug-in (register_crypto_plugin, NIST256p) vs Model/P256Plugin.v
    import register_crypto_plugin as rcp
    c = curves.NIST256p
    n, p = int(c.order), int(c.curve.p())

    def plug(d):
        return rcp.PrivateEccKeyProxy(keys.SigningKey.from_secret_exponent(d, c))
    for j in range(1 if ctx.quick() else 3):
        d, e2 = r.randrange(1, n), r.randrange(1, n)
        if j == 1:
            d = r.choice([1, 2, n - 1])
        raw_d = plug(d).public_key.to_raw_bin_fmt()
        raw_e = plug(e2).public_key.to_raw_bin_fmt()
        sec = plug(d).compute_dh_secret(rcp.PublicEccKeyProxy.create_from_raw_fmt(raw_e))
        db = d.to_bytes(32, "big")
        heavy.append(("(bytes_eqb (p256_pub_of %s) %s)" % (qbytes(db), qbytes(raw_d)), ("p256_pub_of", d)))
        heavy.append(("(bytes_eqb (p256_ecdh %s %s) %s)" % (qbytes(db), qbytes(raw_e), qbytes(sec)), ("p256_ecdh", d, e2)))
        ctx.case(("plugin", d, e2))
        ctx.dist["model:p256-plugin"] += 2
    G = (int(c.generator.x()), int(c.generator.y()))
    Q = a_mul(r.randrange(1, n), G, p, int(c.curve.a()))
    raws = [Q[0].to_bytes(32, "big") + Q[1].to_bytes(32, "big"),
            Q[0].to_bytes(32, "big") + ((Q[1] + 1) % p).to_bytes(32, "big"),
            ((Q[0] + 1) % p).to_bytes(32, "big") + Q[1].to_bytes(32, "big"),
            bytes(64), bytes(63), bytes(65),
            (p).to_bytes(32, "big") + G[1].to_bytes(32, "big"),
            bytes(r.randrange(256) for _ in range(64)),
            b"\xff" * 64]
    if Q[0] + p < 2 ** 256:
        raws.append((Q[0] + p).to_bytes(32, "big") + Q[1].to_bytes(32, "big"))
    og = curves.SECP256k1.generator
    raws.append(int(og.x()).to_bytes(32, "big") + int(og.y()).to_bytes(32, "big"))
    for raw in raws:
        try:
            kick()
            rcp.PublicEccKeyProxy.create_from_raw_fmt(raw)
            ok = True
        except ValueError:
            ok = False
        add("(Bool.eqb (p256_valid_pub %s) %s)" % (qbytes(raw), qbool(ok)), ("p256_valid_pub", raw.hex(), ok))
        ctx.case(("plugin-valid", raw))
        ctx.dist["model:p256-valid:%s" % ok] += 1
    return exprs, meta, heavy


# ---------------------------------------------------------------------------
# the affine class Point and the mixed Point / PointJacobi operations
# (Model/EcAffine.v over Gen/EcAffine.v).  One operation = one JSON-able data dict
#   {"op": "aff", "aop": <operation>, "p", "a", "b", "n" | "curve": <shipped name>, "h": cofactor given to the
#    CurveFp object (absent = 1 resp. the shipped curve's own object), "P", "Q": [x, y] | None (INFINITY),
#    "J": [X, Y, Z], "k", "order"}
# aff_run executes it on the implementation, aff_model builds the Coq comparison with the model,
# aff_impl_ok evaluates the property predicate (independent textbook arithmetic) on the implementation's result.

MODELLED_ERRS = ("EAssert", "EValue")
NA = "n/a"


def aff_curve(d):
    """(CurveFp object, p, a, b, n, cofactor as the model sees it)"""
    ec, curves = lib()[0], lib()[1]
    if "curve" in d:
        c = getattr(curves, d["curve"])
        p, a, b, n = int(c.curve.p()), int(c.curve.a()), int(c.curve.b()), int(c.order)
        if "h" not in d:
            return c.curve, p, a, b, n, int(c.curve.cofactor())
    else:
        p, a, b, n = d["p"], d["a"], d["b"], d["n"]
    h = d.get("h", 1)
    return ec.CurveFp(p, a, b, h), p, a, b, n, (0 if h is None else h)


def aff_obj(cv, P, order=None):
    ec = lib()[0]
    return ec.INFINITY if P is None else ec.Point(cv, P[0], P[1], order)


def aff_val(R):
    """the integers an affine result object holds (None = INFINITY)"""
    ec = lib()[0]
    if not isinstance(R, ec.Point):
        raise TypeError("result is not an affine Point: %r" % (type(R),))
    if R.x() is None and R.y() is None:
        return None
    return (int(R.x()), int(R.y()))


def _tp(v):
    return None if v is None else tuple(v)


def aff_run(d):
    """('ok', value) | ('err', canonical exception name) of one operation on the implementation"""
    from vlib import canon_exc
    ec = lib()[0]
    cv, p, a, b, n, h = aff_curve(d)
    op, P, Q, J, k, order = d["aop"], _tp(d.get("P")), _tp(d.get("Q")), _tp(d.get("J")), d.get("k"), d.get("order")

    def jac():
        return ec.PointJacobi(cv, J[0], J[1], J[2], order)
    try:
        if ARMED[0]:
            kick()
        if op == "add":
            v = aff_val(aff_obj(cv, P) + aff_obj(cv, Q))
        elif op == "double":
            v = aff_val(aff_obj(cv, P).double())
        elif op == "neg":
            v = aff_val(-aff_obj(cv, P))
        elif op == "mul":
            v = aff_val(aff_obj(cv, P, order) * k)
        elif op == "rmul":
            v = aff_val(k * aff_obj(cv, P, order))
        elif op == "init":
            v = aff_val(ec.Point(cv, P[0], P[1], order))
        elif op == "eq":
            A, B = aff_obj(cv, P), aff_obj(cv, Q)
            v = (bool(A == B), bool(A != B))
        elif op == "jeq":
            A = aff_obj(cv, Q)
            v = (bool(jac() == A), bool(A == jac()), bool(jac() != A))
        elif op == "jadd":
            A = aff_obj(cv, Q)
            v = (to_aff(jac() + A, p), to_aff(A + jac(), p))
        elif op == "via":
            A = aff_obj(cv, P, order)
            R = ec.PointJacobi.from_affine(A) * k
            S = A * k
            T = R if R is ec.INFINITY else R.to_affine()
            v = (to_aff(T, p), bool(R == S), bool(S == R))
        elif op == "conv":
            A = aff_obj(cv, P, order)
            Jc = ec.PointJacobi.from_affine(A)
            v = (coords(Jc), aff_val(Jc.to_affine()), Jc.order() == order and Jc.to_affine().order() == order)
        else:
            raise KeyError(op)
        return ("ok", v)
    except ImplTimeout:
        raise
    except Exception as e:          # noqa
        return ("err", canon_exc(e))


def _canonical(P, p):
    return P is None or (0 <= P[0] < p and 0 <= P[1] < p)


def _modp(P, p):
    return None if P is None else (P[0] % p, P[1] % p)


def _jaff(J, p):
    X, Y, Zc = J
    if Y % p == 0 or Zc % p == 0:
        return None
    zi = inv(Zc, p)
    return (X * zi * zi % p, Y * zi * zi * zi % p)


def aff_impl_ok(d, res):
    """the property predicate on the implementation's result: True / False, or NA when the inputs are outside the
    property's domain (unreduced affine coordinates, a wrong order attribute, off-curve constructor arguments)"""
    cv, p, a, b, n, h = aff_curve(d)
    op, P, Q, J, k, order = d["aop"], _tp(d.get("P")), _tp(d.get("Q")), _tp(d.get("J")), d.get("k"), d.get("order")
    on = lambda T: T is None or (T[1] * T[1] - (T[0] ** 3 + a * T[0] + b)) % p == 0
    if op == "init":
        if not on(P):
            return res == ("err", "EAssert")
        if order is not None and order % n != 0:
            return NA            # a wrong order attribute: the constructor's order assertion is vacuous (C17_affine_init)
        return res == ("ok", P)
    if not (_canonical(P, p) and _canonical(Q, p) and on(P) and on(Q)):
        return NA
    if order is not None and order % n != 0:
        return NA
    if J is not None and ((J[1] != 0 and J[1] % p == 0) or (J[2] != 0 and J[2] % p == 0)):
        return NA            # non-zero multiples of p as Y or Z: outside the contract of the integer tests
    if res[0] != "ok":
        return False
    v = res[1]
    if op == "add":
        return _modp(v, p) == a_add(P, Q, p, a)
    if op == "double":
        return _modp(v, p) == a_add(P, P, p, a)
    if op == "neg":
        return _modp(v, p) == a_neg(P, p)
    if op in ("mul", "rmul"):
        return _modp(v, p) == a_mul(k, P, p, a)
    if op == "eq":
        return v == (P == Q, P != Q)
    if op == "jeq":
        if J[0] % p == 0 and J[1] % p == 0 and J[2] % p == 0:
            return NA        # (0, 0, 0)-like triples satisfy the cross-multiplied test with everything
        e = _jaff(J, p) == Q
        return v == (e, e, not e)
    if op == "jadd":
        w = a_add(_jaff(J, p), Q, p, a)
        return v == (w, w)
    if op == "via":
        return v == (a_mul(k, P, p, a), True, True)
    if op == "conv":
        return v == ((P[0], P[1], 1), P, True)
    return NA


def qaff1(T):
    return "None" if T is None else "(Some (%s, %s))" % (qZ(T[0]), qZ(T[1]))


def aff_model(d, res):
    """Coq boolean: the model agrees with the implementation's outcome `res` (exact integers, exact error kind)"""
    cv, p, a, b, n, h = aff_curve(d)
    op, P, Q, J, k, order = d["aop"], _tp(d.get("P")), _tp(d.get("Q")), _tp(d.get("J")), d.get("k"), d.get("order")
    C = "%s %s %s" % (qZ(p), qZ(a), qZ(b))
    ordq, hq = qZ(order or 0), qZ(h)
    if res[0] == "err" and res[1] not in MODELLED_ERRS:
        return "false"                # an exception class the model never produces
    xy = lambda T: "(%s, %s)" % (qZ(T[0]), qZ(T[1]))
    exp_a = lambda: "(Ok %s)" % qaff1(res[1]) if res[0] == "ok" else "(Err %s)" % res[1]
    exp_q = lambda: "(Ok %s)" % xy(res[1]) if res[0] == "ok" else "(Err %s)" % res[1]
    if op == "add":
        return "(raeq (ap_add %s %s %s) %s)" % (C, qaff1(P), qaff1(Q), exp_a())
    if op == "double":
        return "(raeq (ap_double %s %s) %s)" % (C, qaff1(P), exp_a())
    if op == "neg":
        return "(rqeq (ap_neg %s %s) %s)" % (C, xy(P), exp_q())
    if op in ("mul", "rmul"):
        return "(raeq (ap_mul %s %s %s %s %s) %s)" % (C, hq, ordq, qaff1(P), qZ(k), exp_a())
    if op == "init":
        return "(rqeq (ap_init %s %s %s %s) %s)" % (C, hq, ordq, xy(P), exp_q())
    if res[0] != "ok":
        return "false"                # the remaining operations never raise in the model
    v = res[1]
    if op == "eq":
        m = "(ap_eqb %s %s)" % (qaff1(P), qaff1(Q))
        return "(Bool.eqb %s %s && Bool.eqb (negb %s) %s)" % (m, qbool(v[0]), m, qbool(v[1]))
    if op == "jeq":
        m = "(pj_eq_aff %s %s %s)" % (qZ(p), qj(J), qaff1(Q))
        return "(Bool.eqb %s %s && Bool.eqb %s %s && Bool.eqb (negb %s) %s)" % (m, qbool(v[0]), m, qbool(v[1]), m, qbool(v[2]))
    if op == "jadd":
        m = "(pj_opt_to_affine %s (pj_add_aff %s %s %s %s))" % (qZ(p), qZ(p), qZ(a), qj(J), qaff1(Q))
        return "(roam %s %s %s && roam %s %s %s)" % (qZ(p), m, qaff1(v[0]), qZ(p), m, qaff1(v[1]))
    if op == "via":
        m = "(ap_mul_via_jacobi %s %s %s %s %s)" % (qZ(p), qZ(a), ordq, xy(P), qZ(k))
        if v[1] != v[2]:
            return "false"            # R == S and S == R must agree (one reflected __eq__)
        e = "(via_eq %s %s %s %s %s)" % (C, hq, ordq, xy(P), qZ(k))
        return "(roam %s %s %s && Bool.eqb %s %s)" % (qZ(p), m, qaff1(v[0]), e, qbool(v[1]))
    if op == "conv":
        if not v[2]:
            return "false"            # from_affine / to_affine must hand the order over
        return "(jeqb (pj_from_affine %s) %s && raeq (pj_to_affine %s (pj_from_affine %s)) (Ok %s))" % (
            xy(P), qj(v[0]), qZ(p), xy(P), qaff1(v[1]))
    raise KeyError(op)


def unred_pt(r, P, p):
    """an unreduced / negative representative of an affine point (Point.__init__ accepts it)"""
    m = r.choice(["x", "y", "xy", "neg-y"])
    x, y = P
    if m in ("x", "xy"):
        x += p * r.choice([1, -1, 2])
    if m in ("y", "xy"):
        y += p * r.choice([1, -1, 3])
    if m == "neg-y":
        y -= p                          # what __mul__ builds as negative_self of (x, p - y)
    return (x, y)


def aff_scalars(r, n, bits):
    ks = [0, 1, 2, 3, 4, n - 2, n - 1, n, n + 1, 2 * n - 1, 2 * n, 2 * n + 1, 3 * n, 4 * n - 1]
    for j in sorted(set([2, 3, 4, 5, bits // 2, bits - 1, bits, bits + 1])):
        ks += [2 ** j, 2 ** j - 1, 2 ** j + 1]
    return ks


def affine_small_case(ctx):
    """one random operation on a small curve: data dict + distribution label"""
    r = ctx.rng
    p, a, b, n = r.choice(SMALL)
    pts = points_of(p, a, b)
    d = {"op": "aff", "p": p, "a": a, "b": b, "n": n}
    hh = r.choice([1, 1, 1, 2, 4, None])
    if hh != 1:
        d["h"] = hh
    P = r.choice(pts)
    aop = r.choice(["add"] * 5 + ["double", "double", "neg", "neg"] + ["mul"] * 7 + ["rmul", "init", "init", "eq", "eq",
                   "jeq", "jeq", "jeq", "jadd", "jadd", "via", "via", "conv"])
    d["aop"] = aop
    lab = aop
    un = r.random() < 0.18
    if aop == "add":
        rel = r.choice(["rand", "rand", "equal", "opposite", "inf-l", "inf-r", "inf-both", "same-x-unreduced"])
        Q = {"rand": r.choice(pts), "equal": P, "opposite": a_neg(P, p), "inf-r": None, "inf-l": r.choice(pts),
             "inf-both": None, "same-x-unreduced": (P[0] + p * r.choice([1, -1]), r.choice([P[1], p - P[1]]))}[rel]
        if rel in ("inf-l", "inf-both"):
            P = None
        if un and P is not None:
            P = unred_pt(r, P, p)
        if un and Q is not None and r.random() < 0.5:
            Q = unred_pt(r, Q, p)
        d["P"], d["Q"] = P and list(P), Q and list(Q)
        lab += ":" + rel
    elif aop in ("double", "neg"):
        if aop == "double" and r.random() < 0.12:
            P = None
        elif un:
            P = unred_pt(r, P, p)
        d["P"] = P and list(P)
    elif aop in ("mul", "rmul", "via"):
        ks = aff_scalars(r, n, n.bit_length())
        k = r.choice(ks + [r.randrange(0, 4 * n + 1) for _ in range(len(ks))])
        if aop != "via" and r.random() < 0.15:
            k = -k
        order = r.choice([None, None, n, n, 2 * n, 3])
        if aop != "via":
            if r.random() < 0.08:
                P = None
            elif un:
                P = unred_pt(r, P, p)
        if P is None:
            order = None                # the INFINITY singleton carries no order
        d["P"], d["k"], d["order"] = P and list(P), k, order
        lab += ":order=%s" % ("None" if order is None else "n" if order == n else "other")
    elif aop == "init":
        kind = r.choice(["on", "on", "on-unreduced", "off", "off"])
        if kind == "on-unreduced":
            P = unred_pt(r, P, p)
        elif kind == "off":
            P = r.choice([(P[0], (P[1] + 1) % p), ((P[0] + 1) % p, P[1]), (r.randrange(p), r.randrange(p)), (0, 0)])
        d["P"], d["order"] = list(P), r.choice([None, n, n, 3, 2 * n])
        lab += ":" + kind
    elif aop == "eq":
        rel = r.choice(["same", "same", "other", "same-unreduced", "opposite", "inf", "inf-inf"])
        Q = {"same": P, "other": r.choice(pts), "same-unreduced": unred_pt(r, P, p), "opposite": a_neg(P, p), "inf": None,
             "inf-inf": None}[rel]
        if rel == "inf-inf":
            P = None
        elif rel == "inf" and r.random() < 0.5:
            P, Q = Q, P
        d["P"], d["Q"] = P and list(P), Q and list(Q)
        lab += ":" + rel
    elif aop in ("jeq", "jadd"):
        rel = r.choice(["same", "same", "other", "opposite", "jinf", "ainf", "both-inf"])
        base = {"same": P, "other": r.choice(pts), "opposite": a_neg(P, p), "jinf": None, "ainf": P, "both-inf": None}[rel]
        J = rep(r, base, p, r.choice(["one", "small", "rand"]))
        if base is None:
            J = r.choice([(0, 0, 1), (r.randrange(p), 0, r.randrange(1, p)), (r.randrange(p), r.randrange(1, p), 0)])
        elif r.random() < 0.2:
            J = (unred(r, J[0], p), unred(r, J[1], p), J[2])
        Q = None if rel in ("ainf", "both-inf") else P
        d["J"], d["Q"] = list(J), Q and list(Q)
        lab += ":" + rel
    elif aop == "conv":
        if un:
            P = unred_pt(r, P, p)
        d["P"], d["order"] = list(P), r.choice([None, n])
    return d, lab


def affine_shipped_cases(ctx):
    """operations with at most one modular inversion on all 17 shipped curves (light), and scalar
    multiplications on the smallest shipped curves (heavy: a 112-bit multiplication takes the model 2 s inside Coq,
    a 256-bit one half a minute)"""
    r = ctx.rng
    light, heavy = [], []
    cs = shipped()
    per = ctx.budget(4, 12)
    for c in cs:
        p, a, n = int(c.curve.p()), int(c.curve.a()), int(c.order)
        G = (int(c.generator.x()), int(c.generator.y()))
        P1 = a_mul(r.randrange(2, n), G, p, a)
        P2 = a_mul(r.randrange(2, n), G, p, a)
        menu = [("add", dict(P=P1, Q=P2)), ("add", dict(P=P1, Q=P1)), ("add", dict(P=P1, Q=a_neg(P1, p))),
                ("add", dict(P=None, Q=P2)), ("add", dict(P=G, Q=None)), ("double", dict(P=P1)), ("double", dict(P=G)),
                ("neg", dict(P=P2)), ("eq", dict(P=P1, Q=P1)), ("eq", dict(P=P1, Q=a_neg(P1, p))),
                ("init", dict(P=P1, order=n)), ("init", dict(P=(P1[0], (P1[1] + 1) % p), order=n)),
                ("jeq", dict(J=rep(r, P1, p, "rand"), Q=P1)), ("jeq", dict(J=rep(r, P2, p, "rand"), Q=P1)),
                ("jadd", dict(J=rep(r, P2, p, "rand"), Q=P1)), ("jadd", dict(J=rep(r, P1, p, "small"), Q=P1)),
                ("conv", dict(P=P1, order=n)),
                ("mul", dict(P=G, k=n, order=n)), ("mul", dict(P=P1, k=0, order=None)), ("mul", dict(P=P1, k=1, order=n)),
                ("mul", dict(P=P1, k=3 * n, order=n)), ("mul", dict(P=P1, k=2, order=None)), ("mul", dict(P=P1, k=-3, order=n)),
                ("add", dict(P=P1, Q=(P1[0] + p, P1[1])))]
        for aop, kw in r.sample(menu, min(per, len(menu))):
            d = {"op": "aff", "curve": c.name, "aop": aop}
            d.update({k2: (list(v) if isinstance(v, tuple) else v) for k2, v in kw.items()})
            light.append((d, "ship:" + aop))
    by_bits = sorted(cs, key=lambda c: int(c.curve.p()).bit_length())
    plan = [(c, 5) for c in by_bits[:2]] if ctx.quick() else \
        [(c, 9) for c in by_bits[:2]] + [(c, 4) for c in by_bits[2:4]] + [(lib()[1].NIST256p, 2)]
    for c, cnt in plan:
        p, a, n = int(c.curve.p()), int(c.curve.a()), int(c.order)
        G = (int(c.generator.x()), int(c.generator.y()))
        bits = n.bit_length()
        ks = [2, 3, n - 1, n, n + 1, 2 * n + 1, 2 ** (bits - 1), 2 ** (bits - 1) - 1, 2 ** (bits // 2), 2 ** (bits // 2) - 1,
              r.randrange(2, n), r.randrange(n, 2 * n), -r.randrange(2, n)]
        for i, k in enumerate(r.sample(ks, min(cnt, len(ks)))):
            P = G if i % 2 == 0 else a_mul(r.randrange(2, n), G, p, a)
            order = r.choice([None, n])
            if k == n:
                order = None            # with the order attribute the loop is not reached
            aop = "via" if (i == cnt - 1 and k >= 0) else r.choice(["mul", "mul", "rmul"])
            heavy.append(({"op": "aff", "curve": c.name, "aop": aop, "P": list(P), "k": k, "order": order}, "ship-heavy:" + aop))
    return light, heavy


def affine_correspondence(ctx):
    """(light [(expr, meta)], shipped-light [(expr, meta)], heavy [(expr, meta)]); meta = ('affine', data, impl_ok, result)"""
    out = ([], [], [])
    small = [affine_small_case(ctx) for _ in range(ctx.budget(450, 4500))]
    s_light, s_heavy = affine_shipped_cases(ctx)
    for idx, cases in enumerate((small, s_light, s_heavy)):
        for d, lab in cases:
            res = aff_run(d)
            ok = aff_impl_ok(d, res)
            out[idx].append((aff_model(d, res), ("affine", d, ok, repr(res))))
            ctx.case(("aff", repr(sorted(d.items(), key=lambda t: t[0]))),
                     trivial=(d.get("k") == 0 or (d.get("P") is None and d.get("Q") is None and "J" not in d)))
            ctx.dist["affine:%s" % lab] += 1
            ctx.dist["affine-outcome:%s" % (res[1] if res[0] == "err" else "ok")] += 1
    if small:
        ctx.sample(small[0][0])
    return out


def affine_report(ctx, bad, cases, what):
    """a disagreement between the model and the implementation: a failing input when the implementation's result
    violates the group law, a broken correspondence otherwise"""
    for i in bad:
        _, d, ok, res = cases[i][1]
        if ok is False:
            ctx.fail("affine-wrong", d, "implementation: %s; it does not denote the textbook result (and the model disagrees)" % res)
        else:
            ctx.broken("correspondence: model of the affine Point class (%s, %s) differs from the implementation" % (what, d["aop"]),
                       "data=%r implementation=%s" % (d, res))


# --- search: the property predicate on the implementation -------------------------------------------

def _aff_check(ctx, d, trivial=False):
    res = aff_run(d)
    ok = aff_impl_ok(d, res)
    ctx.evaluations += 1
    if ok is False:
        _fail(ctx, "affine-wrong", d, "implementation: %r; independent affine arithmetic disagrees" % (res,))
    elif ok is True and res[0] == "ok" and d["aop"] in ("mul", "rmul") and res[1] is not None and \
            not _canonical(res[1], aff_curve(d)[1]):
        ctx.dist["affine:mul-returns-unreduced-y"] += 1      # right point, coordinate not reduced (see notes)
    return ok


def affine_small_search(ctx, cvp, full):
    """complete enumeration of the affine class on one small prime-order curve: every pair (incl. INFINITY) for +, ==,
    the mixed == and + against every scaling of the Jacobian operand; every point for double, neg, conversions and for
    all scalars -n-1 .. 3n+1 with and without the order attribute, __rmul__, and against PointJacobi.from_affine(P) * k"""
    r = ctx.rng
    p, a, b, n = cvp
    base = {"op": "aff", "p": p, "a": a, "b": b, "n": n}
    pts = [None] + points_of(p, a, b)
    zs = [1, 2, p - 1, r.randrange(2, p)]
    for P in pts:
        for Q in pts:
            _aff_check(ctx, dict(base, aop="add", P=P and list(P), Q=Q and list(Q)))
            _aff_check(ctx, dict(base, aop="eq", P=P and list(P), Q=Q and list(Q)))
            for z in zs:
                if P is None:
                    J = [(0, 0, 1), (3 % p, 0, 2), (1, 1, 0), (0, 0, 1)][zs.index(z)]
                else:
                    J = (P[0] * z * z % p, P[1] * z * z * z % p, z)
                _aff_check(ctx, dict(base, aop="jeq", J=list(J), Q=Q and list(Q)))
                _aff_check(ctx, dict(base, aop="jadd", J=list(J), Q=Q and list(Q)))
        _aff_check(ctx, dict(base, aop="double", P=P and list(P)))
        if P is None:
            for order in (None, n):
                for k in (0, 1, n, -2):
                    _aff_check(ctx, dict(base, aop="mul", P=None, k=k, order=order))
            continue
        _aff_check(ctx, dict(base, aop="neg", P=list(P)))
        for order in (None, n):
            _aff_check(ctx, dict(base, aop="conv", P=list(P), order=order))
            _aff_check(ctx, dict(base, aop="init", P=list(P), order=order, h=r.choice([1, 2, None])))
            for k in range(-n - 1, 3 * n + 2):
                _aff_check(ctx, dict(base, aop="mul", P=list(P), k=k, order=order))
                if k >= 0 and (full or k % 3 == 0):
                    _aff_check(ctx, dict(base, aop="via", P=list(P), k=k, order=order))
                if k % 5 == 0:
                    _aff_check(ctx, dict(base, aop="rmul", P=list(P), k=k, order=order, h=2))
    for x in range(p):
        for y in range(p):
            _aff_check(ctx, dict(base, aop="init", P=[x, y], order=r.choice([None, n])))
    ctx.nontrivial.add(("affine-group", p, a, b))


def affine_shipped_search(ctx, full):
    r = ctx.rng
    for c in shipped():
        p, a, n = int(c.curve.p()), int(c.curve.a()), int(c.order)
        G = (int(c.generator.x()), int(c.generator.y()))
        base = {"op": "aff", "curve": c.name}
        ks = aff_scalars(r, n, n.bit_length()) + [r.randrange(0, 2 * n + 1) for _ in range(10 if full else 3)]
        ks += [-r.randrange(1, n)]
        if not full:
            ks = r.sample(ks, 14)
        P1 = a_mul(r.randrange(2, n), G, p, a)
        for k in ks:
            for P in ((G, P1) if full else (r.choice([G, P1]),)):
                for order in (None, n):
                    d = dict(base, aop=r.choice(["mul", "mul", "rmul"]), P=list(P), k=k, order=order)
                    _aff_check(ctx, d)
                    ctx.case(("ship-aff", c.name, d["aop"], k, order, P == G), trivial=(k == 0))
            if k >= 0 and (full or k % 2 == 0):
                _aff_check(ctx, dict(base, aop="via", P=list(P1), k=k, order=r.choice([None, n])))
        for Q in (P1, a_neg(P1, p), a_mul(r.randrange(2, n), G, p, a), None):
            _aff_check(ctx, dict(base, aop="add", P=list(P1), Q=Q and list(Q)))
            _aff_check(ctx, dict(base, aop="add", P=Q and list(Q), Q=list(P1)))
            _aff_check(ctx, dict(base, aop="eq", P=list(P1), Q=Q and list(Q)))
            z = r.randrange(2, p)
            J = (0, 0, 1) if Q is None else (Q[0] * z * z % p, Q[1] * z * z * z % p, z)
            _aff_check(ctx, dict(base, aop="jeq", J=list(J), Q=list(P1)))
            _aff_check(ctx, dict(base, aop="jadd", J=list(J), Q=list(P1)))
        _aff_check(ctx, dict(base, aop="double", P=list(P1)))
        _aff_check(ctx, dict(base, aop="neg", P=list(P1)))
        _aff_check(ctx, dict(base, aop="conv", P=list(P1), order=n))
        _aff_check(ctx, dict(base, aop="init", P=list(P1), order=n))
        _aff_check(ctx, dict(base, aop="init", P=[P1[0], (P1[1] + 1) % p], order=n))


# ---------------------------------------------------------------------------
# search

class Stop(Exception):
    pass


def _fail(ctx, kind, data, detail=""):
    ctx.fail(kind, data, detail)
    if len(ctx.fails) >= 25:
        raise Stop()


def small_group_search(ctx, cvp, full):
    """complete enumeration on one small prime-order curve"""
    ec = lib()[0]
    r = ctx.rng
    p, a, b, n = cvp
    cv = ec.CurveFp(p, a, b, 1)
    pts = [None] + points_of(p, a, b)
    assert len(pts) == n, (cvp, len(pts))
    zs = [1, 2, r.randrange(3, p) if p > 4 else 3, (1, 1, -1), (2, -1, 2)]
    cur = {"p": p, "a": a, "b": b, "n": n}
    # every pair x scalings: +, ==; every point: double, neg
    for P in pts:
        for z1 in zs:
            for Q in pts:
                want = a_add(P, Q, p, a)
                for z2 in zs:
                    A, B = mkpt(cv, P, z1, n), mkpt(cv, Q, z2, n)
                    ja, jb = coords(A), coords(B)
                    try:
                        kick()
                        got = to_aff(A + B, p)
                    except Exception as e:
                        got = "exception %r" % (e,)
                    ctx.evaluations += 1
                    if got != want:
                        _fail(ctx, "add-wrong", dict(cur, op="add", J1=list(ja), J2=list(jb)),
                              "got %r want %r (P=%r Q=%r)" % (got, want, P, Q))
                    if P is not None and Q is not None:
                        try:
                            eq = bool(mkpt(cv, P, z1, n) == mkpt(cv, Q, z2, n))
                        except Exception as e:
                            eq = "exception %r" % (e,)
                        if eq != (P == Q):
                            _fail(ctx, "eq-wrong", dict(cur, op="eq", J1=list(ja), J2=list(jb)), "got %r" % eq)
            A = mkpt(cv, P, z1, n)
            ja = coords(A)
            try:
                kick()
                got = to_aff(A.double(), p)
            except Exception as e:
                got = "exception %r" % (e,)
            if got != a_add(P, P, p, a):
                _fail(ctx, "double-wrong", dict(cur, op="double", J1=list(ja)), "got %r want %r" % (got, a_add(P, P, p, a)))
            try:
                kick()
                got = to_aff(-mkpt(cv, P, z1, n), p)
            except Exception as e:
                got = "exception %r" % (e,)
            if got != a_neg(P, p):
                _fail(ctx, "neg-wrong", dict(cur, op="neg", J1=list(ja)), "got %r" % (got,))
            # affine Point class (used when a Point meets a PointJacobi)
            if P is not None:
                for Q in pts[1:]:
                    try:
                        kick()
                        pp, qq = ec.Point(cv, P[0], P[1], n), ec.Point(cv, Q[0], Q[1], n)
                        got = (to_aff(pp + qq, p), to_aff(mkpt(cv, P, z1, n) + qq, p))
                    except Exception as e:
                        got = "exception %r" % (e,)
                    want = a_add(P, Q, p, a)
                    if got != (want, want):
                        _fail(ctx, "point-add-wrong", dict(cur, op="padd", P=list(P), Q=list(Q), z=z1),
                              "got %r want %r" % (got, want))
    ctx.nontrivial.add(("group", p, a, b))
    # scalars 0..3n
    kmax = 3 * n
    for P in pts:
        for z in zs:
            gens = (False, True) if P is not None else (False,)
            for gen in gens:
                for order in ((n, None) if not gen else (n,)):
                    tab = mkpt(cv, P, z, order, gen) if gen else None
                    for k in range(kmax + 1):
                        A = tab if gen else mkpt(cv, P, z, order, gen)
                        ja = coords(A)
                        try:
                            kick()
                            got = to_aff(A * k, p)
                            got2 = to_aff(k * mkpt(cv, P, z, order, gen), p) if (k % 7 == 0) else got
                        except Exception as e:
                            got = got2 = "exception %r" % (e,)
                        want = a_mul(k, P, p, a)
                        ctx.evaluations += 1
                        if got != want or got2 != want:
                            _fail(ctx, "mul-wrong", dict(cur, op="mul", J1=list(ja), k=k, order=order, generator=gen),
                                  "got %r want %r (P=%r)" % (got, want, P))
    ctx.nontrivial.add(("scalars", p, a, b))
    # mul_add
    ks = list(range(n + 2))
    fin = pts[1:]
    pairs = [(P, Q) for P in fin for Q in pts] if (full or n <= 13) else \
        [(r.choice(fin), r.choice(pts)) for _ in range(60)] + [(P, P) for P in fin[:6]] + [(P, a_neg(P, p)) for P in fin[:6]]
    for (P, Q) in pairs:
        kk = [(k1, k2) for k1 in ks for k2 in ks] if (full or n <= 7) else \
            [(k1, k2) for k1 in ks for k2 in ks if k1 < 3 or k2 < 3 or k1 == k2 or k1 + k2 == n or k1 >= n or k2 >= n]
        for (k1, k2) in kk:
            for (g1, g2) in ((False, False), (True, False)) + (((True, True),) if (k1 + k2) % 5 == 0 and Q is not None else ()):
                z1 = 1 if g1 else r.choice(zs)
                z2 = r.choice(zs)
                A = mkpt(cv, P, z1, n, g1)
                B = mkpt(cv, Q, z2, n, g2 and Q is not None)
                ja, jb = coords(A), coords(B)
                try:
                    kick()
                    got = to_aff(A.mul_add(k1, B, k2), p)
                except Exception as e:
                    got = "exception %r" % (e,)
                want = a_add(a_mul(k1, P, p, a), a_mul(k2, Q, p, a), p, a)
                ctx.evaluations += 1
                if got != want:
                    _fail(ctx, "mul_add-wrong", dict(cur, op="mul_add", J1=list(ja), J2=list(jb), k1=k1, k2=k2,
                                                     g1=g1, g2=g2), "got %r want %r (P=%r Q=%r)" % (got, want, P, Q))
    ctx.nontrivial.add(("mul_add", p, a, b))


def edge_scalars(r, n, nrand):
    bl = n.bit_length()
    ks = [0, 1, 2, 3, n - 2, n - 1, n, n + 1, 2 * n - 1, 2 * n, 2 * n + 1]
    for k in sorted(set([1, 2, 7, 8, 31, 32, 63, 64, bl // 2, bl - 2, bl - 1, bl, bl + 1])):
        ks += [2 ** k, 2 ** k - 1, 2 ** k + 1]
    ks += [r.randrange(0, 2 * n + 1) for _ in range(nrand)]
    return ks


def shipped_search(ctx):
    ec, curves, ecdsa_mod, keys, ecdh, errors = lib()
    r = ctx.rng
    full = (not ctx.quick()) or bool(ctx.brokens)
    for c in shipped():
        p, a, b, n = int(c.curve.p()), int(c.curve.a()), int(c.curve.b()), int(c.order)
        G = (int(c.generator.x()), int(c.generator.y()))
        cur = {"curve": c.name}
        ks = edge_scalars(r, n, 12 if full else 4)
        if not full:
            ks = ks[:11] + r.sample(ks[11:-4], 10) + ks[-4:]
        Q = a_mul(r.randrange(2, n), G, p, a)
        z = r.randrange(2, p)
        for k in ks:
            want = a_mul(k, G, p, a)
            variants = [("table", c.generator),
                        ("naf", ec.PointJacobi(c.curve, G[0], G[1], 1, n)),
                        ("naf-noorder-z", ec.PointJacobi(c.curve, G[0] * z * z % p, G[1] * z * z * z % p, z))]
            for nm, pt in variants:
                try:
                    kick()
                    got = to_aff(pt * k, p)
                except Exception as e:
                    got = "exception %r" % (e,)
                ctx.case(("ship-mul", c.name, nm, k), trivial=(k == 0))
                if got != want:
                    _fail(ctx, "mul-wrong", dict(cur, op="mul-shipped", variant=nm, k=k, z=z), "got %r want %r" % (got, want))
            k2 = r.choice(ks)
            want2 = a_add(want, a_mul(k2, Q, p, a), p, a)
            for g2 in (False, True):
                try:
                    kick()
                    other = ec.PointJacobi(c.curve, Q[0], Q[1], 1, n, generator=g2)
                    got = to_aff(c.generator.mul_add(k, other, k2), p)
                    got_b = to_aff(ec.PointJacobi(c.curve, G[0], G[1], 1, n).mul_add(k, other, k2), p) if not g2 else got
                except Exception as e:
                    got = got_b = "exception %r" % (e,)
                ctx.case(("ship-mul_add", c.name, k, k2, g2))
                if got != want2 or got_b != want2:
                    _fail(ctx, "mul_add-wrong", dict(cur, op="mul_add-shipped", k1=k, k2=k2, Q=list(Q), g2=g2),
                          "got %r / %r want %r" % (got, got_b, want2))
        # n*G = INFINITY, (n-1)*G = -G
        try:
            kick()
            got = (to_aff(c.generator * n, p), to_aff(ec.PointJacobi(c.curve, G[0], G[1], 1) * n, p))
        except Exception as e:
            got = "exception %r" % (e,)
        if got != (None, None):
            _fail(ctx, "order-wrong", dict(cur, op="order"), "n*G is not INFINITY: %r" % (got,))
        # addition / doubling of random multiples in random scalings incl. equal and inverse operands
        for _ in range(8 if full else 3):
            k1 = r.randrange(1, n)
            P1 = a_mul(k1, G, p, a)
            for P2 in (a_mul(r.randrange(1, n), G, p, a), P1, a_neg(P1, p), None):
                for (z1, z2) in ((1, 1), (1, r.randrange(2, p)), (r.randrange(2, p), 1), (z, z), (r.randrange(2, p), r.randrange(2, p))):
                    A, B = mkpt(c.curve, P1, z1, n, p=p), mkpt(c.curve, P2, z2, n, p=p)
                    ja, jb = coords(A), coords(B)
                    try:
                        kick()
                        got = to_aff(A + B, p)
                    except Exception as e:
                        got = "exception %r" % (e,)
                    ctx.case(("ship-add", c.name, ja, jb))
                    if got != a_add(P1, P2, p, a):
                        _fail(ctx, "add-wrong", dict(cur, op="add-shipped", J1=list(ja), J2=list(jb)),
                              "got %r want %r" % (got, a_add(P1, P2, p, a)))
        # ECDH through ecdh.py
        for _ in range(6 if full else 2):
            d1, d2 = r.randrange(1, n), r.randrange(1, n)
            if r.random() < 0.2:
                d1 = r.choice([1, 2, n - 1])
            try:
                kick()
                sk1, sk2 = keys.SigningKey.from_secret_exponent(d1, c), keys.SigningKey.from_secret_exponent(d2, c)
                e1, e2 = ecdh.ECDH(c), ecdh.ECDH(c)
                pub1, pub2 = e1.load_private_key(sk1), e2.load_private_key(sk2)
                enc = r.choice(["raw", "uncompressed", "compressed", "hybrid"])
                e1.load_received_public_key_bytes(pub2.to_string(enc))
                e2.load_received_public_key_bytes(pub1.to_string(enc))
                s1, s2 = e1.generate_sharedsecret_bytes(), e2.generate_sharedsecret_bytes()
                res = (s1, s2)
            except Exception as e:
                res = "exception %r" % (e,)
            S = a_mul(d1 * d2 % n, G, p, a)
            want = S[0].to_bytes((p.bit_length() + 7) // 8, "big")
            ctx.case(("ecdh", c.name, d1, d2))
            if res != (want, want):
                _fail(ctx, "ecdh-wrong", dict(cur, op="ecdh", d1=d1, d2=d2), "got %r want %r" % (res, want.hex()))
        invalid_points(ctx, c, full)


def rejected(f, *a, **k):
    try:
        if ARMED[0]:
            kick()
        f(*a, **k)
        return False
    except Exception:
        return True


def invalid_points(ctx, c, full):
    ec, curves, ecdsa_mod, keys, ecdh, errors = lib()
    r = ctx.rng
    p, a, b, n = int(c.curve.p()), int(c.curve.a()), int(c.curve.b()), int(c.order)
    G = (int(c.generator.x()), int(c.generator.y()))
    L = (p.bit_length() + 7) // 8
    cur = {"curve": c.name}
    bad = []
    P = a_mul(r.randrange(1, n), G, p, a)
    bad.append(("off-curve-y+1", (P[0], (P[1] + 1) % p)))
    bad.append(("off-curve-x+1", ((P[0] + 1) % p, P[1])))
    for _ in range(6 if full else 2):
        x, y = r.randrange(p), r.randrange(p)
        if (y * y - (x * x * x + a * x + b)) % p != 0:
            bad.append(("off-curve-random", (x, y)))
    bad.append(("origin", (0, 0)))
    if P[0] + p < 256 ** L:
        bad.append(("x>=p", (P[0] + p, P[1])))
    if P[1] + p < 256 ** L:
        bad.append(("y>=p", (P[0], P[1] + p)))
    if p < 256 ** L - 1:
        bad.append(("x=p", (p, G[1])))
    for o in shipped():
        if o is not c and (int(o.curve.p()).bit_length() + 7) // 8 == L:
            og = (int(o.generator.x()), int(o.generator.y()))
            oq = a_mul(r.randrange(1, int(o.order)), og, int(o.curve.p()), int(o.curve.a()))
            for nm, q in (("other-curve-G:" + o.name, og), ("other-curve:" + o.name, oq)):
                if (q[1] * q[1] - (q[0] ** 3 + a * q[0] + b)) % p != 0 or not (0 <= q[0] < p and 0 <= q[1] < p):
                    bad.append((nm, q))
    for nm, (x, y) in bad:
        data = dict(cur, op="invalid", kind=nm, x=x, y=y)
        ctx.case(("invalid", c.name, nm, x, y))
        ctx.dist["invalid:%s" % nm.split(":")[0]] += 1
        raw = x.to_bytes(L, "big") + y.to_bytes(L, "big")
        acc = []
        if not rejected(ecdsa_mod.Public_key, c.generator, ec.PointJacobi(c.curve, x, y, 1)):
            acc.append("Public_key")
        if not rejected(ecdsa_mod.Public_key, c.generator, _raw_point(ec, c.curve, x, y)):
            acc.append("Public_key(Point)")
        if not rejected(keys.VerifyingKey.from_string, raw, curve=c):
            acc.append("VerifyingKey.from_string(raw)")
        if not rejected(keys.VerifyingKey.from_string, b"\x04" + raw, curve=c):
            acc.append("VerifyingKey.from_string(uncompressed)")
        if not rejected(keys.VerifyingKey.from_public_point, ec.PointJacobi(c.curve, x, y, 1), c):
            acc.append("VerifyingKey.from_public_point")
        e = ecdh.ECDH(c)
        e.load_private_key(keys.SigningKey.from_secret_exponent(r.randrange(1, n), c))
        if not rejected(e.load_received_public_key_bytes, raw):
            acc.append("ECDH.load_received_public_key_bytes")
        try:
            if ecdsa_mod.point_is_valid(c.generator, x, y) is not False:
                acc.append("ecdsa.point_is_valid")
        except Exception as ex:   # noqa  (the predicate must answer False, not raise)
            acc.append("ecdsa.point_is_valid raised %s" % type(ex).__name__)
        if acc:
            _fail(ctx, "invalid-point-accepted", data, "accepted by " + ", ".join(acc))
    # ... and the predicate accepts what is valid: multiples of G (on cofactor-1 curves every curve point)
    for _ in range(4 if full else 2):
        k = r.choice([1, 2, n - 1, r.randrange(1, n)])
        Pv = a_mul(k, G, p, a)
        ctx.case(("valid-point", c.name, k))
        try:
            ok = ecdsa_mod.point_is_valid(c.generator, Pv[0], Pv[1])
        except Exception as ex:   # noqa
            ok = "raised %s" % type(ex).__name__
        if ok is not True:
            _fail(ctx, "valid-point-rejected", dict(cur, op="valid", kind="k*G", x=Pv[0], y=Pv[1]),
                  "ecdsa.point_is_valid(%d*G) = %r" % (k, ok))
    # the INFINITY object and a point of another curve object
    if not rejected(keys.VerifyingKey.from_public_point, ec.INFINITY, c):
        _fail(ctx, "invalid-point-accepted", dict(cur, op="invalid", kind="INFINITY", x=None, y=None), "from_public_point(INFINITY)")
    for o in shipped():
        if o is not c and o.curve.p() != c.curve.p():
            e = ecdh.ECDH(c)
            e.load_private_key(keys.SigningKey.from_secret_exponent(r.randrange(1, n), c))
            vk = keys.SigningKey.from_secret_exponent(5, o).get_verifying_key()
            if not rejected(e.load_received_public_key, vk):
                _fail(ctx, "invalid-point-accepted", dict(cur, op="invalid", kind="other-curve-key:" + o.name, x=None, y=None),
                      "ECDH.load_received_public_key accepted a key of " + o.name)
            break
    # point OBJECTS that live on another curve object (a multiple of the other curve's generator, Jacobi and affine):
    # loaded as a public key for THIS curve they must be refused - the point is judged against the curve it is loaded
    # for, not the one it carries
    for o in shipped():
        if o is c or o.curve.p() == c.curve.p():
            continue
        oq = o.generator * r.randrange(2, int(o.order))
        ox, oy = int(oq.x()), int(oq.y())
        if (oy * oy - (ox ** 3 + a * ox + b)) % p == 0 and 0 <= ox < p and 0 <= oy < p:
            continue
        acc = []
        ctx.case(("invalid-object", c.name, o.name, ox))
        for nm, pt in (("PointJacobi", oq), ("Point", oq.to_affine())):
            if not rejected(ecdsa_mod.Public_key, c.generator, pt):
                acc.append("Public_key(%s of %s)" % (nm, o.name))
            if not rejected(keys.VerifyingKey.from_public_point, pt, c):
                acc.append("VerifyingKey.from_public_point(%s of %s)" % (nm, o.name))
        if acc:
            _fail(ctx, "invalid-point-accepted", dict(cur, op="invalid-object", kind="other-curve-object:" + o.name, x=ox, y=oy, other=o.name),
                  "accepted by " + ", ".join(acc))
        if not full:
            break
    # point_is_valid with coordinates outside 0..p-1 that are congruent to a real point (negative and >= p)
    Pv = a_mul(r.randrange(1, n), G, p, a)
    for nm, (x, y) in (("x-p", (Pv[0] - p, Pv[1])), ("y-p", (Pv[0], Pv[1] - p)), ("x+p", (Pv[0] + p, Pv[1])), ("y+p", (Pv[0], Pv[1] + p)),
                       ("-1", (-1, Pv[1])), ("both-p", (Pv[0] - p, Pv[1] - p))):
        ctx.case(("invalid-range", c.name, nm, x, y))
        try:
            ok = ecdsa_mod.point_is_valid(c.generator, x, y)
        except Exception as ex:   # noqa
            ok = "raised %s" % type(ex).__name__
        if ok is not False:
            _fail(ctx, "invalid-point-accepted", dict(cur, op="invalid-range", kind="out-of-range:" + nm, x=x, y=y),
                  "ecdsa.point_is_valid answered %r for a coordinate outside 0..p-1" % (ok,))


def _raw_point(ec, curve, x, y):
    """an affine Point object that bypasses the constructor's own on-curve assertion"""
    pt = ec.Point(None, None, None)
    pt._Point__curve, pt._Point__x, pt._Point__y, pt._Point__order = curve, x, y, None
    return pt


def small_ecdh_search(ctx, cvp):
    """ECDH through ecdh.py on a small curve: every pair of private keys, plus every invalid point"""
    ec, curves, ecdsa_mod, keys, ecdh, errors = lib()
    p, a, b, n = cvp
    cv = ec.CurveFp(p, a, b, 1)
    pts = points_of(p, a, b)
    G = pts[0]
    gen = ec.PointJacobi(cv, G[0], G[1], 1, n, generator=True)
    C = curves.Curve("T%d_%d_%d" % (p, a, b), cv, gen, None)
    cur = {"p": p, "a": a, "b": b, "n": n}
    L = (p.bit_length() + 7) // 8
    for d1 in range(1, n):
        for d2 in range(d1, n):
            try:
                kick()
                e1, e2 = ecdh.ECDH(C), ecdh.ECDH(C)
                pub1 = e1.load_private_key(keys.SigningKey.from_secret_exponent(d1, C))
                pub2 = e2.load_private_key(keys.SigningKey.from_secret_exponent(d2, C))
                e1.load_received_public_key_bytes(pub2.to_string())
                e2.load_received_public_key_bytes(pub1.to_string())
                res = []
                for e in (e1, e2):
                    try:
                        kick()
                        res.append(e.generate_sharedsecret_bytes())
                    except ecdh.InvalidSharedSecretError:
                        res.append(None)
            except Exception as ex:
                res = "exception %r" % (ex,)
            S = a_mul(d1 * d2, G, p, a)
            want = None if S is None else S[0].to_bytes(L, "big")
            ctx.evaluations += 1
            if res != [want, want]:
                _fail(ctx, "ecdh-wrong", dict(cur, op="ecdh-small", d1=d1, d2=d2), "got %r want %r" % (res, want))
    # every (x, y) in a box around [0,p): accepted iff in range and on the curve
    for x in range(0, min(256 ** L, p + 3)):
        for y in range(0, min(256 ** L, p + 3)):
            valid = x < p and y < p and (y * y - (x * x * x + a * x + b)) % p == 0
            acc = not rejected(keys.VerifyingKey.from_string, x.to_bytes(L, "big") + y.to_bytes(L, "big"), curve=C)
            acc2 = not rejected(ecdsa_mod.Public_key, gen, ec.PointJacobi(cv, x, y, 1))
            ctx.evaluations += 1
            if acc != valid or acc2 != valid:
                _fail(ctx, "validation-wrong", dict(cur, op="validate-small", x=x, y=y),
                      "from_string accepted=%r Public_key accepted=%r valid=%r" % (acc, acc2, valid))
    ctx.nontrivial.add(("ecdh-small", p, a, b))



# ---------------------------------------------------------------------------
# ECDH operation sequences: an independent reference of the documented behaviour of the ECDH
# object (state = curve, private key (curve, d), received public key (curve, point)) is run
# next to the implementation; after every sequence a shared secret is requested.

SAME_SIZE_PAIRS = [("NIST256p", "BRAINPOOLP256r1"), ("NIST256p", "SECP256k1"), ("SECP256k1", "BRAINPOOLP256r1"),
                   ("SECP112r1", "SECP112r2"), ("NIST192p", "BRAINPOOLP192r1"), ("NIST224p", "BRAINPOOLP224r1"),
                   ("NIST384p", "BRAINPOOLP384r1"), ("SECP160r1", "BRAINPOOLP160r1"), ("NIST256p", "NIST384p")]
SEQ_SYMS = ["setA", "setB", "privA", "privB", "gen", "pubA", "pubB"]
# the extended alphabet: a second key pair per curve, and "sec" = ask for the shared secret in the
# middle of the sequence (the object is long-lived and re-used for several peers)
SEQ_SYMS_X = SEQ_SYMS + ["privA2", "pubA2", "pubB2", "sec"]
FORMS = ["obj", "bytes", "der", "pem"]
FORMS_X = FORMS + ["attr"]        # attr: direct assignment of .private_key / .public_key


class SeqKeys(object):
    """per curve: a signing key with a known secret, and its encodings"""

    def __init__(self, c, d):
        keys = lib()[3]
        self.c, self.d = c, d
        self.p, self.a, self.b, self.n = int(c.curve.p()), int(c.curve.a()), int(c.curve.b()), int(c.order)
        self.G = (int(c.generator.x()), int(c.generator.y()))
        self.sk = keys.SigningKey.from_secret_exponent(d, c)
        self.vk = self.sk.get_verifying_key()
        self.Q = a_mul(d, self.G, self.p, self.a)
        self.sk_bytes, self.sk_der, self.sk_pem = self.sk.to_string(), self.sk.to_der(), self.sk.to_pem()
        self.vk_bytes, self.vk_der, self.vk_pem = self.vk.to_string(), self.vk.to_der(), self.vk.to_pem()


def _kname(sym):
    return sym[4:] if sym.startswith("priv") else sym[3:]


def _curve_keys(K, name):
    return K["A"] if K["A"].c.name == name else K["B"]


def ref_step(st, sym, form, K):
    """reference semantics of one operation.  st = dict(curve, priv, pub) with curve a name or
    None, priv = (curve name, d) or None, pub = (curve name, (x, y)) or None.
    Returns the expected outcome: 'ok' | exception class name | 'reject' (some exception)."""
    if sym in ("setA", "setB"):
        st["curve"] = K[sym[-1]].c.name
        return "ok"
    if sym == "gen":
        if st["curve"] is None:
            return "NoCurveError"
        st["priv"] = (st["curve"], None)          # secret read back from the object
        return "ok"
    k = K[_kname(sym)]
    if form == "attr":                       # plain attribute assignment: nothing is checked here
        if sym.startswith("priv"):
            st["priv"] = (k.c.name, k.d)
        else:
            st["pub"] = (k.c.name, k.Q)
        return "ok"
    if sym.startswith("priv"):
        if form == "bytes":
            if st["curve"] is None:
                return "NoCurveError"
            tgt = _curve_keys(K, st["curve"])
            if len(k.sk_bytes) != len(tgt.sk_bytes) or not (1 <= k.d < tgt.n):
                return "reject"
            st["priv"] = (st["curve"], k.d)
            return "ok"
        if st["curve"] is None:
            st["curve"] = k.c.name
        if st["curve"] != k.c.name:
            return "InvalidCurveError"
        st["priv"] = (k.c.name, k.d)
        return "ok"
    # received public key
    if form == "bytes":
        if st["curve"] is None:
            return "reject"
        tgt = _curve_keys(K, st["curve"])
        x, y = k.Q
        if len(k.vk_bytes) != len(tgt.vk_bytes) or not (x < tgt.p and y < tgt.p) or \
                (y * y - (x * x * x + tgt.a * x + tgt.b)) % tgt.p != 0:
            return "reject"
        st["pub"] = (st["curve"], k.Q)
        return "ok"
    if st["curve"] is None:
        st["curve"] = k.c.name
    if st["curve"] != k.c.name:
        return "InvalidCurveError"
    st["pub"] = (k.c.name, k.Q)
    return "ok"


def ref_secret(st, K):
    if st["priv"] is None or st["pub"] is None:
        return "NoKeyError"
    if not (st["priv"][0] == st["curve"] == st["pub"][0]):
        return "InvalidCurveError"
    k = _curve_keys(K, st["curve"])
    S = a_mul(st["priv"][1], st["pub"][1], k.p, k.a)
    if S is None:
        return "InvalidSharedSecretError"
    return S[0].to_bytes((k.p.bit_length() + 7) // 8, "big")


def impl_step(e, sym, form, K):
    if sym in ("setA", "setB"):
        e.set_curve(K[sym[-1]].c)
    elif sym == "gen":
        e.generate_private_key()
    elif sym.startswith("priv"):
        k = K[_kname(sym)]
        if form == "attr":
            e.private_key = k.sk
            return
        {"obj": lambda: e.load_private_key(k.sk), "bytes": lambda: e.load_private_key_bytes(k.sk_bytes),
         "der": lambda: e.load_private_key_der(k.sk_der), "pem": lambda: e.load_private_key_pem(k.sk_pem)}[form]()
    else:
        k = K[_kname(sym)]
        if form == "attr":
            e.public_key = k.vk
            return
        {"obj": lambda: e.load_received_public_key(k.vk), "bytes": lambda: e.load_received_public_key_bytes(k.vk_bytes),
         "der": lambda: e.load_received_public_key_der(k.vk_der), "pem": lambda: e.load_received_public_key_pem(k.vk_pem)}[form]()


def outcome_matches(want, got):
    """got = 'ok' or the exception class name"""
    if want == "reject":
        return got != "ok"
    return want == got


def run_ecdh_sequence(ctx, K, ctor, seq, data):
    """ctor in (None, 'A', 'B'); seq = [(symbol, form)].  Returns False when a failure was recorded."""
    ecdh = lib()[4]
    st = {"curve": None if ctor is None else K[ctor].c.name, "priv": None, "pub": None}
    kick()
    e = ecdh.ECDH(curve=None if ctor is None else K[ctor].c)
    trace = []
    for (sym, form) in seq:
        if sym == "sec":                     # the object is asked for a secret and then used further
            want = ref_secret(st, K)
            try:
                kick()
                got = e.generate_sharedsecret_bytes() if form != "int" else e.generate_sharedsecret()
            except Exception as ex:          # noqa
                got = type(ex).__name__
            if form == "int" and isinstance(got, int) and isinstance(want, bytes):
                got = int(got).to_bytes(len(want), "big")
            trace.append("sec:%s" % (got.hex()[:16] if isinstance(got, bytes) else got))
            ctx.evaluations += 1
            if got != want:
                _fail(ctx, "ecdh-sequence-secret", dict(data, step=len(trace) - 1),
                      "state curve=%s private=%s public=%s: expected %s, implementation: %s (trace %s)" % (
                          st["curve"], st["priv"] and st["priv"][0], st["pub"] and st["pub"][0],
                          want.hex() if isinstance(want, bytes) else want, got.hex() if isinstance(got, bytes) else got,
                          " ".join(trace)))
                return False
            continue
        want = ref_step(st, sym, form, K)
        try:
            kick()
            impl_step(e, sym, form, K)
            got = "ok"
        except Exception as ex:          # noqa
            got = type(ex).__name__
        trace.append("%s/%s:%s" % (sym, form, got))
        if sym == "gen" and got == "ok" and st["priv"] is not None and st["priv"][1] is None:
            st["priv"] = (st["priv"][0], int(e.private_key.privkey.secret_multiplier))
        if not outcome_matches(want, got):
            _fail(ctx, "ecdh-sequence-step", dict(data, step=len(trace) - 1),
                  "step %s: expected %s, implementation: %s (trace %s)" % (sym, want, got, " ".join(trace)))
            return False
    want = ref_secret(st, K)
    try:
        kick()
        got = e.generate_sharedsecret_bytes()
    except Exception as ex:              # noqa
        got = type(ex).__name__
    ctx.evaluations += 1
    if got != want:
        consistent = st["priv"] is not None and st["pub"] is not None and st["priv"][0] == st["curve"] == st["pub"][0]
        _fail(ctx, "ecdh-sequence-secret", dict(data, step=len(seq)),
              "state curve=%s private=%s public=%s (one curve: %s): expected %s, implementation: %s (trace %s)" % (
                  st["curve"], st["priv"] and st["priv"][0], st["pub"] and st["pub"][0], consistent,
                  want.hex() if isinstance(want, bytes) else want, got.hex() if isinstance(got, bytes) else got,
                  " ".join(trace)))
        return False
    return True



def ecdh_reuse_search(ctx, K, pair, full):
    """one long-lived ECDH object used for several peers: load peer 1, agree, load peer 2 in every way (also by plain
    attribute assignment), agree again, switch the private key in between, then offer a key of another curve and an
    invalid point.  Every secret must equal the independent computation AND what the peer computes with a fresh object."""
    ecdh, keys_mod = lib()[4], lib()[3]
    r = ctx.rng
    pubs = ["pubA", "pubA2"]
    scen = []
    for f1 in FORMS_X:
        for f2 in FORMS_X:
            for (p1, p2) in (("pubA", "pubA2"), ("pubA2", "pubA")):
                base = [("privA", "obj"), (p1, f1), ("sec", "obj"), (p2, f2), ("sec", "obj")]
                scen.append(base)
                scen.append(base + [("privA2", r.choice(FORMS_X)), ("sec", "int"), (p1, f1), ("sec", "obj")])
                scen.append(base + [("pubB", "attr"), ("sec", "obj"), (p1, r.choice(FORMS)), ("sec", "obj")])
                scen.append(base + [("pubB", r.choice(FORMS)), ("sec", "obj"), ("privB", "attr"), ("sec", "obj")])
                scen.append([("privA", f1 if f1 != "attr" else "obj"), (p1, "obj"), ("sec", "int"), ("sec", "obj"),
                             ("privA2", f2), ("sec", "obj"), (p2, "obj"), ("sec", "int")])
    if not full:
        scen = scen[:10] + r.sample(scen[10:], 30)
    for ctor in ((None, "A") if full else ("A",)):
        for seq in scen:
            data = {"op": "ecdh-seq", "pair": list(pair), "keys": {k: v.d for k, v in K.items()}, "ctor": ctor,
                    "seq": [list(x) for x in seq]}
            run_ecdh_sequence(ctx, K, ctor, seq, data)
            ctx.case(("ecdh-reuse", pair[0], ctor, tuple(seq)))
    # both parties, the peers use fresh objects; then an off-curve point is offered and must not change anything
    A, A2 = K["A"], K["A2"]
    L = (A.p.bit_length() + 7) // 8
    me = ecdh.ECDH(A.c)
    me.load_private_key(A.sk)
    for rnd in range(6 if full else 3):
        peer = SeqKeys(A.c, r.randrange(2, A.n))
        form = FORMS_X[rnd % len(FORMS_X)]
        try:
            kick()
            if form == "attr":
                me.public_key = peer.vk
            else:
                impl_step(me, "pubP", form, {"P": peer})
            mine = me.generate_sharedsecret_bytes()
            other = ecdh.ECDH(A.c, peer.sk, A.vk).generate_sharedsecret_bytes()
            got = (mine, other)
        except Exception as ex:          # noqa
            got = "exception %r" % (ex,)
        S = a_mul(A.d * peer.d % A.n, A.G, A.p, A.a)[0].to_bytes(L, "big")
        ctx.evaluations += 1
        if got != (S, S):
            _fail(ctx, "ecdh-reuse-parties", {"op": "ecdh-reuse", "curve": A.c.name, "d": A.d, "peer": peer.d, "round": rnd,
                                             "form": form},
                  "round %d (peer loaded as %s): re-used object %s, peer %s, independent %s" % (
                      rnd, form, got[0].hex() if isinstance(got, tuple) else got,
                      got[1].hex() if isinstance(got, tuple) else "", S.hex()))
            break
        # an invalid point: must be rejected, and the object keeps agreeing with the last peer
        bad = peer.Q[0].to_bytes(L, "big") + ((peer.Q[1] + 1) % A.p).to_bytes(L, "big")
        if not rejected(me.load_received_public_key_bytes, bad):
            _fail(ctx, "invalid-point-accepted", {"op": "ecdh-reuse", "curve": A.c.name, "d": A.d, "peer": peer.d,
                                                  "round": rnd, "form": "bad"}, "off-curve point accepted by a used ECDH object")
            break
        me.public_key = K["B"].vk          # a key of another curve put into the object
        try:
            kick()
            res = me.generate_sharedsecret_bytes()
            res = res.hex()
        except Exception as ex:          # noqa
            res = type(ex).__name__
        if res != "InvalidCurveError":
            _fail(ctx, "ecdh-reuse-parties", {"op": "ecdh-reuse", "curve": A.c.name, "d": A.d, "peer": peer.d, "round": rnd,
                                             "form": "other-curve"},
                  "after a successful agreement a public key of %s was assigned: expected InvalidCurveError, got %s" % (
                      K["B"].c.name, res))
            break


def seq_keys(ctx, pair):
    curves = lib()[1]
    A, B = getattr(curves, pair[0]), getattr(curves, pair[1])
    lim = min(int(A.order), int(B.order))
    return {"A": SeqKeys(A, ctx.rng.randrange(2, lim)), "B": SeqKeys(B, ctx.rng.randrange(2, lim)),
            "A2": SeqKeys(A, ctx.rng.randrange(2, lim)), "B2": SeqKeys(B, ctx.rng.randrange(2, lim))}


def ecdh_sequence_search(ctx, full):
    import itertools
    r = ctx.rng
    pairs = SAME_SIZE_PAIRS if full else SAME_SIZE_PAIRS[:1] + [r.choice(SAME_SIZE_PAIRS[1:3]), SAME_SIZE_PAIRS[3]]
    for pi, pair in enumerate(pairs):
        K = seq_keys(ctx, pair)
        da, db = K["A"].d, K["B"].d
        # every sequence up to length 3 (4 on the first pair when full) with key objects, every constructor curve
        maxlen = 4 if (full and pi == 0) else 3
        if not full and pi > 0:
            maxlen = 2
        for ctor in (None, "A", "B"):
            for ln in range(0, maxlen + 1):
                for syms in itertools.product(SEQ_SYMS, repeat=ln):
                    seq = [(s, "obj") for s in syms]
                    data = {"op": "ecdh-seq", "pair": list(pair), "keys": {k: v.d for k, v in K.items()}, "ctor": ctor,
                            "seq": [list(x) for x in seq]}
                    run_ecdh_sequence(ctx, K, ctor, seq, data)
        ctx.nontrivial.add(("ecdh-seq-enum", pair, maxlen))
        # every sequence up to length 2 over the extended alphabet (second key pair, attribute assignment, secret
        # in the middle), then the re-use scenarios, then random longer sequences with random encodings
        for ctor in ((None, "A") if full else (("A",) if pi == 0 else ())):
            for ln in (1, 2):
                for syms in itertools.product(SEQ_SYMS_X, repeat=ln):
                    for form in ("obj", "attr"):
                        seq = [(sy, "obj" if sy in ("setA", "setB", "gen", "sec") else form) for sy in syms]
                        data = {"op": "ecdh-seq", "pair": list(pair), "keys": {k: v.d for k, v in K.items()}, "ctor": ctor,
                                "seq": [list(x) for x in seq]}
                        run_ecdh_sequence(ctx, K, ctor, seq, data)
        ecdh_reuse_search(ctx, K, pair, full)
        for _ in range(ctx.budget(40, 400) if not ctx.brokens else 400):
            ctor = r.choice([None, "A", "B"])
            seq = []
            for _ in range(r.randrange(2, 9)):
                sy = r.choice(SEQ_SYMS_X)
                seq.append((sy, r.choice(["obj", "int"]) if sy == "sec" else r.choice(FORMS_X)))
            data = {"op": "ecdh-seq", "pair": list(pair), "keys": {k: v.d for k, v in K.items()}, "ctor": ctor,
                    "seq": [list(x) for x in seq]}
            run_ecdh_sequence(ctx, K, ctor, seq, data)
            ctx.case(("ecdh-seq", pair, ctor, tuple(seq)))
        ctx.dist["ecdh-seq-pair"] += 1
    # constructor with keys: ECDH(curve, private_key, public_key)
    ecdh = lib()[4]
    for pair in pairs:
        K = seq_keys(ctx, pair)
        for cc in (None, "A", "B"):
            for pk in (None, "A", "B"):
                for qk in (None, "A", "B"):
                    names = [x and K[x].c.name for x in (cc, pk, qk)]
                    eff = names[0] or names[1] or names[2]
                    bad = any(x is not None and x != eff for x in names[1:])
                    try:
                        kick()
                        e = ecdh.ECDH(cc and K[cc].c, pk and K[pk].sk, qk and K[qk].vk)
                        got = "ok"
                        try:
                            sec = e.generate_sharedsecret_bytes()
                        except Exception as ex:      # noqa
                            sec = type(ex).__name__
                    except Exception as ex:          # noqa
                        got, sec = type(ex).__name__, None
                    if bad:
                        want, wsec = "InvalidCurveError", None
                    else:
                        want = "ok"
                        if pk is None or qk is None:
                            wsec = "NoKeyError"
                        else:
                            k = K[pk]
                            wsec = a_mul(k.d, K[qk].Q, k.p, k.a)[0].to_bytes((k.p.bit_length() + 7) // 8, "big")
                    ctx.evaluations += 1
                    if (got, sec) != (want, wsec):
                        _fail(ctx, "ecdh-sequence-secret", {"op": "ecdh-ctor", "pair": list(pair), "dA": K["A"].d, "dB": K["B"].d,
                                                            "curve": cc, "priv": pk, "pub": qk},
                              "ECDH(curve=%s, private=%s, public=%s): expected %s/%s, implementation %s/%s" % (
                                  names[0], names[1], names[2], want, wsec.hex() if isinstance(wsec, bytes) else wsec,
                                  got, sec.hex() if isinstance(sec, bytes) else sec))


def find_openssl():
    for cand in ("/root/miniconda/bin/openssl", shutil.which("openssl")):
        if cand and os.path.exists(cand):
            return cand
    return None


def openssl_diff(ctx):
    """optional: k*G and ECDH on P-256 against an openssl binary.  Never fails because the
    binary is absent or refuses an input; only a successfully computed different value counts."""
    watchdog(False)          # subprocesses below; no implementation loop can hang here
    exe = find_openssl()
    if not exe:
        ctx.notes.append("openssl binary not found: differential skipped")
        return
    ec, curves, ecdsa_mod, keys, ecdh, errors = lib()
    c = curves.NIST256p
    n = int(c.order)
    r = ctx.rng
    oid = bytes.fromhex("a00a06082a8648ce3d030107")
    d = tempfile.mkdtemp(prefix="c17ossl")
    done = 0
    try:
        def priv_der(k):
            body = b"\x02\x01\x01\x04\x20" + k.to_bytes(32, "big") + oid
            return b"\x30" + bytes([len(body)]) + body

        def pub_of(k):
            f = os.path.join(d, "k.der")
            open(f, "wb").write(priv_der(k))
            q = subprocess.run([exe, "ec", "-inform", "DER", "-in", f, "-pubout", "-outform", "DER"],
                               stdout=subprocess.PIPE, stderr=subprocess.PIPE, timeout=30)
            if q.returncode != 0 or len(q.stdout) < 65 or q.stdout[-65] != 4:
                return None
            return q.stdout[-64:]
        ks = [1, 2, 3, n - 1, n - 2, 2 ** 128, 2 ** 128 - 1, 2 ** 255, 2 ** 255 - 1] + [r.randrange(1, n) for _ in range(6)]
        for k in ks:
            o = pub_of(k)
            if o is None:
                continue
            R = c.generator * k
            mine = int(R.x()).to_bytes(32, "big") + int(R.y()).to_bytes(32, "big")
            done += 1
            ctx.case(("openssl-mul", k))
            if mine != o:
                _fail(ctx, "openssl-differs", {"op": "openssl-mul", "curve": c.name, "k": k}, "openssl %s, library %s" % (o.hex(), mine.hex()))
        for _ in range(4):
            d1, d2 = r.randrange(1, n), r.randrange(1, n)
            f1, f2 = os.path.join(d, "a.der"), os.path.join(d, "b.pem")
            open(f1, "wb").write(priv_der(d1))
            sk2 = keys.SigningKey.from_secret_exponent(d2, c)
            open(f2, "wb").write(sk2.get_verifying_key().to_pem())
            q = subprocess.run([exe, "pkeyutl", "-derive", "-keyform", "DER", "-inkey", f1, "-peerkey", f2],
                               stdout=subprocess.PIPE, stderr=subprocess.PIPE, timeout=30)
            if q.returncode != 0 or len(q.stdout) != 32:
                continue
            e = ecdh.ECDH(c)
            e.load_private_key(sk2)
            e.load_received_public_key(keys.SigningKey.from_secret_exponent(d1, c).get_verifying_key())
            mine = e.generate_sharedsecret_bytes()
            done += 1
            ctx.case(("openssl-ecdh", d1, d2))
            if mine != q.stdout:
                _fail(ctx, "openssl-differs", {"op": "openssl-ecdh", "curve": c.name, "d1": d1, "d2": d2},
                      "openssl %s, library %s" % (q.stdout.hex(), mine.hex()))
    except (OSError, subprocess.SubprocessError) as e:
        ctx.notes.append("openssl differential aborted: %r" % (e,))
    finally:
        shutil.rmtree(d, ignore_errors=True)
    ctx.extra["openssl_cases"] = done


def search(ctx):
    full = (not ctx.quick()) or bool(ctx.brokens)
    watchdog(True)
    try:
        smalls = SMALL if full else SMALL[:7] + [ctx.rng.choice(SMALL[7:])]
        for cvp in smalls:
            small_group_search(ctx, cvp, full and cvp[3] <= 23)
        for cvp in (SMALL if full else SMALL[:4]):
            small_ecdh_search(ctx, cvp)
        for cvp in smalls:
            affine_small_search(ctx, cvp, full and cvp[3] <= 23)
        affine_shipped_search(ctx, full)
        if ctx.dist.get("affine:mul-returns-unreduced-y"):
            ctx.notes.append("affine Point.__mul__ returned the right point with an unreduced (negative) y in %d cases: when "
                             "the accumulator passes through INFINITY and the next step subtracts, the temporary "
                             "negative_self = (x, -y) is handed back, e.g. p=7 a=1 b=1 G=(0,1): G*19 = (0,-1) while G*4 = (0,6) "
                             "(Properties/C17.v: C17_affine_mul_canonical_partial/_refuted); judged modulo p here"
                             % ctx.dist["affine:mul-returns-unreduced-y"])
        shipped_search(ctx)
        ecdh_sequence_search(ctx, full)
        if not ctx.quick():
            openssl_diff(ctx)
    except Stop:
        pass
    finally:
        watchdog(False)
    ctx.extra["small_curves"] = [list(c) for c in SMALL]
    ctx.extra["rule"] = (
        "correspondence: the 7 generated formula functions, naf, contains_point evaluated in Coq vs the real methods on "
        "curve points of small (p<=37) and shipped curves in relations random/equal/inverse/infinity, Z in {1, small, random}, "
        "with reduced, unreduced, negative and arbitrary integer coordinates; generated curve parameters vs live objects; hand "
        "models (mul NAF/table, mul_add, scale, x, y, eq, double, add, validation, key derivation, ECDH and the guards of "
        "_get_shared_secret) vs implementation, judged by the point / value returned. search: complete groups of small prime-order curves (every pair x 3 scalings incl. 3 encodings of "
        "INFINITY, scalars 0..3n with/without order and generator table, mul_add grids, ECDH for all key pairs, validation of every "
        "(x,y) in [0,p+2]^2), edge/random scalars, additions, ECDH, invalid points on all 17 shipped curves, and ECDH operation "
        "SEQUENCES (constructor curve, set_curve, load_private_key[_bytes/_der/_pem], generate_private_key, "
        "load_received_public_key[_bytes/_der/_pem] in every order up to length 3-4 plus random longer ones over pairs of "
        "different curves of equal size, then generate_sharedsecret_bytes: a secret only when all three are on one curve, "
        "else the documented NoKeyError/NoCurveError/InvalidCurveError) against an "
        "independent affine implementation; distinct = by operation and inputs, trivial = scalar 0 / k = 0. "
        "AFFINE class Point (Gen/EcAffine.v + Model/EcAffine.v): correspondence = random operations (+, double, neg, *, "
        "rmul, constructor incl. the order assertion and off-curve arguments, ==, PointJacobi == / + with an affine operand in "
        "random scalings and encodings of INFINITY, from_affine/to_affine, from_affine(P)*k against P*k) on the small curves "
        "with cofactor flags 1/2/4/None, order attribute None/n/2n/wrong, scalars 0,1,2,n-1,n,n+1,2n+-1,3n,2^j,2^j+-1, random up "
        "to 4n and negative, INFINITY / equal / opposite / unreduced operands (exact integers and exact exception kind: "
        "AssertionError, ValueError of pow(x,-1,p)); the same operations on all 17 shipped curves and scalar multiplications on "
        "the smallest shipped curves inside Coq.  search = complete enumeration on the small curves (every pair for +, ==, "
        "mixed ==/+ in 4 scalings, every scalar -n-1..3n+1 with/without order, via PointJacobi) and edge/random scalars on all "
        "17 shipped curves against the independent textbook arithmetic (coordinates judged modulo p)")


# ---------------------------------------------------------------------------
# replay

def replay(ctx, data):
    ec, curves, ecdsa_mod, keys, ecdh, errors = lib()
    rc = 0
    for f in data.get("fails", []):
        d = f["data"]
        op = d.get("op")
        print("kind=%s op=%s data=%r" % (f["kind"], op, d))
        try:
            if "curve" in d:
                c = getattr(curves, d["curve"])
                cv, p, a, n = c.curve, int(c.curve.p()), int(c.curve.a()), int(c.order)
                G = (int(c.generator.x()), int(c.generator.y()))
            elif "p" in d:
                p, a, n = d["p"], d["a"], d.get("n")
                cv = ec.CurveFp(p, a, d["b"], 1)
            def aff(J):
                X, Y, Zc = J
                if Y % p == 0 or Zc % p == 0:
                    return None
                zi = inv(Zc, p)
                return (X * zi * zi % p, Y * zi ** 3 % p)
            if f["kind"] == "formula-wrong":
                e, res = call_formula(d["fn"], d["p"], d["a"], d["b"], tuple(d["J1"]), tuple(d["J2"]) if d["J2"] else None)
                ok = spec_formula_ok(d["fn"], d["p"], d["a"], tuple(d["J1"]), tuple(d["J2"]) if d["J2"] else None, res)
                print("  implementation:", res, "-> affine", aff(res), " denotes the affine result:", ok)
                rc |= ok is False
            elif op in ("add", "add-shipped"):
                A = ec.PointJacobi(cv, *d["J1"], n)
                B = ec.PointJacobi(cv, *d["J2"], n)
                got, want = to_aff(A + B, p), a_add(aff(d["J1"]), aff(d["J2"]), p, a)
                print("  implementation:", got, " independent affine:", want)
                rc |= got != want
            elif op == "double":
                got, want = to_aff(ec.PointJacobi(cv, *d["J1"], n).double(), p), a_add(aff(d["J1"]), aff(d["J1"]), p, a)
                print("  implementation:", got, " independent affine:", want)
                rc |= got != want
            elif op == "mul":
                A = ec.PointJacobi(cv, *d["J1"], d["order"], d["generator"])
                got, want = to_aff(A * d["k"], p), a_mul(d["k"], aff(d["J1"]), p, a)
                print("  implementation:", got, " independent affine:", want)
                rc |= got != want
            elif op == "mul-shipped":
                z = d["z"]
                pt = {"table": c.generator, "naf": ec.PointJacobi(cv, G[0], G[1], 1, n),
                      "naf-noorder-z": ec.PointJacobi(cv, G[0] * z * z % p, G[1] * z ** 3 % p, z)}[d["variant"]]
                got, want = to_aff(pt * d["k"], p), a_mul(d["k"], G, p, a)
                print("  implementation:", got, " independent affine:", want)
                rc |= got != want
            elif op == "mul_add":
                A = ec.PointJacobi(cv, *d["J1"], n, d["g1"])
                B = ec.PointJacobi(cv, *d["J2"], n, d["g2"])
                got = to_aff(A.mul_add(d["k1"], B, d["k2"]), p)
                want = a_add(a_mul(d["k1"], aff(d["J1"]), p, a), a_mul(d["k2"], aff(d["J2"]), p, a), p, a)
                print("  implementation:", got, " independent affine:", want)
                rc |= got != want
            elif op == "mul_add-shipped":
                Q = tuple(d["Q"])
                other = ec.PointJacobi(cv, Q[0], Q[1], 1, n, generator=d["g2"])
                got = to_aff(c.generator.mul_add(d["k1"], other, d["k2"]), p)
                want = a_add(a_mul(d["k1"], G, p, a), a_mul(d["k2"], Q, p, a), p, a)
                print("  implementation:", got, " independent affine:", want)
                rc |= got != want
            elif op == "invalid" and d.get("x") is not None:
                L = (p.bit_length() + 7) // 8
                raw = d["x"].to_bytes(L, "big") + d["y"].to_bytes(L, "big")
                acc = not rejected(keys.VerifyingKey.from_string, raw, curve=c)
                acc2 = not rejected(ecdsa_mod.Public_key, c.generator, ec.PointJacobi(cv, d["x"], d["y"], 1))
                try:
                    acc3 = ecdsa_mod.point_is_valid(c.generator, d["x"], d["y"]) is not False
                except Exception:   # noqa
                    acc3 = True
                print("  from_string accepted:", acc, " Public_key accepted:", acc2, " point_is_valid:", acc3, " (must all be False)")
                rc |= acc or acc2 or acc3
            elif op == "invalid-range":
                try:
                    ok = ecdsa_mod.point_is_valid(c.generator, d["x"], d["y"])
                except Exception as ex:   # noqa
                    ok = "raised %s" % type(ex).__name__
                print("  point_is_valid for coordinates outside 0..p-1:", ok, " (must be False)")
                rc |= ok is not False
            elif op == "invalid-object":
                o = [k for k in shipped() if k.name == d["other"]][0]
                got = []
                for k in range(2, 40):
                    oq = o.generator * k
                    got.append(not rejected(ecdsa_mod.Public_key, c.generator, oq) or
                               not rejected(keys.VerifyingKey.from_public_point, oq, c))
                print("  multiples 2..39 of the generator of %s accepted as public keys of %s: %d (must be 0)" % (o.name, c.name, sum(got)))
                rc |= any(got)
            elif op == "valid":
                try:
                    ok = ecdsa_mod.point_is_valid(c.generator, d["x"], d["y"])
                except Exception as ex:   # noqa
                    ok = "raised %s" % type(ex).__name__
                print("  point_is_valid of a multiple of G:", ok, " (must be True)")
                rc |= ok is not True
            elif op == "ecdh":
                e1, e2 = ecdh.ECDH(c), ecdh.ECDH(c)
                pub1 = e1.load_private_key(keys.SigningKey.from_secret_exponent(d["d1"], c))
                pub2 = e2.load_private_key(keys.SigningKey.from_secret_exponent(d["d2"], c))
                e1.load_received_public_key(pub2)
                e2.load_received_public_key(pub1)
                s1, s2 = e1.generate_sharedsecret_bytes(), e2.generate_sharedsecret_bytes()
                want = a_mul(d["d1"] * d["d2"] % n, G, p, a)[0].to_bytes((p.bit_length() + 7) // 8, "big")
                print("  party1:", s1.hex(), " party2:", s2.hex(), " independent:", want.hex())
                rc |= not (s1 == s2 == want)
            elif op == "padd":
                P, Q = tuple(d["P"]), tuple(d["Q"])
                g1 = to_aff(ec.Point(cv, P[0], P[1], n) + ec.Point(cv, Q[0], Q[1], n), p)
                z = d["z"]
                g2 = to_aff(mkpt(cv, P, tuple(z) if isinstance(z, list) else z, n) + ec.Point(cv, Q[0], Q[1], n), p)
                want = a_add(P, Q, p, a)
                print("  Point+Point:", g1, " PointJacobi+Point:", g2, " independent affine:", want)
                rc |= g1 != want or g2 != want
            elif op == "eq":
                got = bool(ec.PointJacobi(cv, *d["J1"], n) == ec.PointJacobi(cv, *d["J2"], n))
                print("  implementation ==:", got, " same affine point:", aff(d["J1"]) == aff(d["J2"]))
                rc |= got != (aff(d["J1"]) == aff(d["J2"]))
            elif op == "neg":
                got, want = to_aff(-ec.PointJacobi(cv, *d["J1"], n), p), a_neg(aff(d["J1"]), p)
                print("  implementation:", got, " independent affine:", want)
                rc |= got != want
            elif op == "validate-small":
                L = (p.bit_length() + 7) // 8
                G0 = points_of(p, a, d["b"])[0]
                gen = ec.PointJacobi(cv, G0[0], G0[1], 1, n, generator=True)
                C = curves.Curve("T", cv, gen, None)
                x, y = d["x"], d["y"]
                valid = x < p and y < p and (y * y - (x * x * x + a * x + d["b"])) % p == 0
                acc = not rejected(keys.VerifyingKey.from_string, x.to_bytes(L, "big") + y.to_bytes(L, "big"), curve=C)
                acc2 = not rejected(ecdsa_mod.Public_key, gen, ec.PointJacobi(cv, x, y, 1))
                print("  from_string accepted:", acc, " Public_key accepted:", acc2, " valid (in range and on the curve):", valid)
                rc |= acc != valid or acc2 != valid
            elif op == "ecdh-small":
                G0 = points_of(p, a, d["b"])[0]
                gen = ec.PointJacobi(cv, G0[0], G0[1], 1, n, generator=True)
                C = curves.Curve("T", cv, gen, None)
                e1, e2 = ecdh.ECDH(C), ecdh.ECDH(C)
                pub1 = e1.load_private_key(keys.SigningKey.from_secret_exponent(d["d1"], C))
                pub2 = e2.load_private_key(keys.SigningKey.from_secret_exponent(d["d2"], C))
                e1.load_received_public_key_bytes(pub2.to_string())
                e2.load_received_public_key_bytes(pub1.to_string())
                s1, s2 = e1.generate_sharedsecret_bytes(), e2.generate_sharedsecret_bytes()
                S = a_mul(d["d1"] * d["d2"], G0, p, a)
                print("  party1:", s1.hex(), " party2:", s2.hex(), " independent x:", None if S is None else S[0])
                rc |= not (S is not None and s1 == s2 == S[0].to_bytes((p.bit_length() + 7) // 8, "big"))
            elif op == "ecdh-seq":
                class _C(object):
                    evaluations = 0
                    fails = []

                    def fail(self, kind, data, detail=""):
                        self.fails.append(detail)
                cc = _C()
                curves_mod = lib()[1]
                K = {k: SeqKeys(getattr(curves_mod, d["pair"][0 if k.startswith("A") else 1]), v) for k, v in d["keys"].items()}
                signal.signal(signal.SIGVTALRM, _on_alarm)
                try:
                    ok = run_ecdh_sequence(cc, K, d["ctor"], [tuple(x) for x in d["seq"]], {})
                except Stop:
                    ok = False
                finally:
                    signal.setitimer(signal.ITIMER_VIRTUAL, 0)
                print("  ECDH(curve=%s); %s; generate_sharedsecret_bytes()" % (d["ctor"] and d["pair"]["AB".index(d["ctor"])],
                                                                             "; ".join("%s[%s]" % tuple(x) for x in d["seq"])))
                print("  " + ("agrees with the reference" if ok else cc.fails[0]))
                rc |= not ok
            elif op == "aff":
                res = aff_run(d)
                ok = aff_impl_ok(d, res)
                print("  implementation:", res, " agrees with the independent affine arithmetic:", ok)
                rc |= ok is False
            elif op == "order":
                got = to_aff(c.generator * n, p)
                print("  n*G:", got, " (must be None = INFINITY)")
                rc |= got is not None
            else:
                print("  (re-run `bin/check C17` for this kind)")
                rc |= 1
        except Exception as e:      # an exception where a value was expected reproduces the failure
            print("  implementation raised %r" % (e,))
            rc |= 1
    for b in data.get("broken", []):
        print("broken:", b["what"])
        print(b["detail"][:1500])
    return 1 if rc else 0
