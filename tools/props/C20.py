"""C20 - Shared curve objects and the reader-writer lock are safe under every schedule.

Part 1 (RWLock), tie: translator.  tools/gen/rwlock.py turns ecdsa/_rwlock.py into
instruction lists (Gen/RwLock.v); the theorems of Properties/C20.v are about them.
Correspondence: the REAL RWLock is run under a deterministic scheduler (every
logical thread advanced one traced source line at a time, threading.Lock replaced by
an instrumented lock that reports "blocked"), its complete state space is explored,
and for every transition the model (Model/Sched.v, evaluated in Coq along the same
schedule) must show the same lock bits, counters, program counters and blocked set.
Search: mutual exclusion, reader sharing, absence of deadlock, "every thread can
still reach its critical section" are evaluated on the explored graph of the real
lock, independently of the model.

Part 2 (shared PointJacobi objects), tie: translator (store-site / read-site pass,
Gen/JacobiStores.v) + model theorem.  Search: thread A's lazy table construction /
in-place rescaling is stopped at every traced line; complete operations of a second
thread run there on the same objects; all results are compared with sequential
results (P-256 and three small curves)."""
import time
import traceback

from vlib import qlist, qbool

GEN_DEPS = ("RwLock.v", "gen_rwlock", "JacobiStores.v", "gen_jacobi_stores")
MODEL_TARGETS = ["Model/Sched.vo"]
IMPORTS = "From Bec2 Require Import Gen.RwLock Model.Sched."

_GRAPHS = {}


def lock_configs(ctx):
    """(roles, loop) configurations explored completely on the real lock"""
    cfgs = [("RW", True), ("RW", False), ("RRW", True), ("RRW", False), ("RWW", True),
            ("RR", True), ("WW", True), ("R", True), ("W", False)]
    if not ctx.quick() or ctx.brokens:
        cfgs += [("RWW", False), ("RRWW", True), ("RRWW", False)]
    return cfgs


def graph(roles, loop, budget=120):
    from props import c20_lock
    key = (roles, loop)
    if key not in _GRAPHS:
        t0 = time.time()
        g = c20_lock.explore(list(roles), loop, deadline=time.time() + budget)
        g.wall = time.time() - t0
        _GRAPHS[key] = g
    return _GRAPHS[key]


# ---------------------------------------------------------------------------------
# correspondence: real lock vs. Model/Sched.v along the same schedules

def _model_maps(ana, g):
    """(lock permutation, counter permutation, per-role position->pc tables) or raises ValueError"""
    if any(k != "Lock" for k in g.lock_kinds):
        raise ValueError("the real object uses primitives other than threading.Lock: %s" % (g.lock_kinds,))
    lp = {tuple(p): i for i, p in enumerate(g.lock_paths)}
    cp = {tuple(p): i for i, p in enumerate(g.ctr_paths)}
    mlocks = [tuple(path) for _, path in ana["locks"]]
    mctrs = [tuple(path) for _, path, _ in ana["counters"]]
    if sorted(mlocks) != sorted(lp) or sorted(mctrs) != sorted(cp):
        raise ValueError("locks/counters of the real object %s / %s differ from the generated ones %s / %s" % (
            sorted(lp), sorted(cp), sorted(mlocks), sorted(mctrs)))
    pcs = {}
    for role, acq, rel in (("R", "reader_acquire", "reader_release"), ("W", "writer_acquire", "writer_release")):
        prog = ana["methods"][acq] + ana["methods"][rel]
        tab = {}
        for pc, (ins, pos) in enumerate(prog):
            tab.setdefault(tuple(pos), pc)
        tab["done"] = len(prog)
        pcs[role] = tab
    return [lp[m] for m in mlocks], [cp[m] for m in mctrs], pcs


def _obs(g, maps, s):
    lperm, cperm, pcs = maps
    locks, ctrs, pos, phase = g.keys[s]
    n = len(g.roles)
    pc = []
    for t in range(n):
        tab = pcs[g.roles[t]]
        if pos[t] not in tab:
            raise ValueError("thread %s%d is at %r, which is not a position of the generated program" % (
                g.roles[t], t, pos[t]))
        pc.append(tab[pos[t]])
    en = [isinstance(g.trans.get((s, t)), int) for t in range(n)]
    return "(%s, %s, %s, %s)" % (
        qlist([qbool(locks[i]) for i in lperm], "bool"), qlist([str(ctrs[i]) for i in cperm], "nat"),
        qlist([str(x) for x in pc], "nat"), qlist([qbool(e) for e in en], "bool"))


def correspondence(ctx):
    from props import c20_lock
    from py2v import TranslationError
    try:
        from gen import rwlock as genrw
        ana = genrw.analyse()
    except TranslationError as e:
        ctx.notes.append("lock correspondence skipped: translator rejected _rwlock.py (%s)" % e)
        return
    exprs, meta = [], []
    for roles, loop in lock_configs(ctx):
        try:
            g = graph(roles, loop, 120 if ctx.quick() else 900)
        except Exception as e:   # noqa  (never let one configuration stop the others)
            c20_lock.reset_pool()
            ctx.broken("correspondence: exploration of the real lock failed for %s loop=%s" % (roles, loop),
                       traceback.format_exc())
            continue
        if g.truncated:
            ctx.notes.append("lock correspondence skipped for %s loop=%s: %s" % (roles, loop, g.truncated))
            continue
        for nd in g.nondet[:3]:
            ctx.broken("correspondence: the real lock behaved nondeterministically under the scheduler", nd)
        try:
            maps = _model_maps(ana, g)
            best = g.shortest_paths()
            coq_roles = qlist(["Reader" if r == "R" else "Writer" for r in roles], "role")
            cases = [((), 0)]
            for (k, v) in sorted((k for k in g.trans.items() if len(k[0]) == 2 and isinstance(k[1], int)),
                                 key=lambda kv: kv[0]):
                s, tid = k
                cases.append((best[s] + (tid,), v))
            for sched, target in cases:
                exprs.append("(check_obs %s %s %s %s)" % (
                    qbool(loop), coq_roles, qlist([str(t) for t in sched], "nat"), _obs(g, maps, target)))
                meta.append((roles, loop, sched, target))
                ctx.case(("lock", roles, loop, sched), trivial=(len(sched) == 0))
            ctx.dist["lock:%s:%s" % (roles, "loop" if loop else "once")] += len(cases)
        except ValueError as e:
            viol, _ = c20_lock.analyse(g)
            if not viol:
                ctx.broken("correspondence: real lock cannot be mapped to the generated programs (%s loop=%s)" % (
                    roles, loop), e)
            else:
                ctx.notes.append("mapping failed for %s: %s" % (roles, e))
    if not exprs:
        return
    ctx.sample({"roles": meta[len(meta) // 2][0], "loop": meta[len(meta) // 2][1],
                "schedule": list(meta[len(meta) // 2][2]), "coq": exprs[len(meta) // 2]})
    bad = ctx.coq_eval("lock", IMPORTS, exprs, shard=400, preamble="Open Scope nat_scope.")
    if bad is None:
        return
    ctx.traces += len(exprs)
    reported = set()
    for i in bad:
        roles, loop, sched, target = meta[i]
        if (roles, loop) in reported:
            continue
        reported.add((roles, loop))
        g = graph(roles, loop)
        viol, _ = c20_lock.analyse(g)
        if viol:
            # the search stage reports the concrete failing schedule
            ctx.notes.append("model/real disagreement for %s loop=%s and the real lock violates the property" % (roles, loop))
            ctx.broken("correspondence: model and real lock disagree (the real lock also violates the property, see search)",
                       {"roles": roles, "loop": loop, "schedule": list(sched), "real": repr(g.keys[target])})
        else:
            ctx.broken("correspondence: Model/Sched.v on Gen/RwLock.v disagrees with the real RWLock",
                       {"roles": roles, "loop": loop, "schedule": list(sched), "real": repr(g.keys[target]),
                        "coq": exprs[i]})


# ---------------------------------------------------------------------------------
# search

def _search_lock(ctx):
    from props import c20_lock
    summ = {}
    for roles, loop in lock_configs(ctx):
        try:
            g = graph(roles, loop, 120 if ctx.quick() else 900)
        except Exception as e:   # noqa
            c20_lock.reset_pool()
            ctx.broken("search: exploration of the real lock failed for %s loop=%s" % (roles, loop),
                       traceback.format_exc())
            continue
        try:
            viol, s = c20_lock.analyse(g)
        except Exception:   # noqa
            ctx.broken("search: analysis of the explored graph failed for %s loop=%s" % (roles, loop),
                       traceback.format_exc())
            continue
        if g.truncated and not viol:
            ctx.broken("search: the state space of the real lock could not be explored completely (%s loop=%s)" % (
                roles, loop), g.truncated)
        s["wall_s"] = round(getattr(g, "wall", 0), 1)
        summ["%s:%s" % (roles, "loop" if loop else "once")] = s
        ctx.evaluations += s["states"]
        ctx.nontrivial.update(("lockstate", roles, loop, i) for i in range(s["states"]))
        best = None
        seen = set()
        for kind, st, detail in viol:
            if kind in seen:
                continue
            seen.add(kind)
            if best is None:
                best = g.shortest_paths()
            ctx.fail("lock-" + kind, {"roles": roles, "loop": loop, "schedule": list(best.get(st, g.path[st]))},
                     "%s; state %r" % (detail, g.keys[st]))
        for nd in g.nondet[:2]:
            ctx.broken("search: the real lock behaved nondeterministically under the scheduler", nd)
    ctx.extra["lock_state_spaces"] = summ


def _points(ctx, n, full):
    if full or n <= 200:
        return list(range(n))
    pts = set(range(16)) | set(range(n - 16, n)) | set(range(n // 2 - 4, n // 2 + 4))
    while len(pts) < min(n, ctx.budget(120, 400)):
        pts.add(ctx.rng.randrange(n))
    return sorted(pts)


def _search_curves(ctx):
    from props import c20_curve as CC
    full = (not ctx.quick()) or bool(ctx.brokens)
    summ = {}
    for cname in ("p23h4", "p211", "p2003", "P-256", "Ed25519", "Ed448"):
        edw = cname.startswith("Ed")
        nparams = ctx.budget(2, 4) if cname not in ("P-256", "Ed25519", "Ed448") else ctx.budget(1, 2)
        for j in range(nparams):
            params = CC.gen_params(ctx.rng, cname)
            for sc in (("ed-table", "ed-scale", "ed-mul") if edw else ("table", "scale", "to_affine", "verify")):
                deep = full and cname not in ("P-256", "Ed25519", "Ed448")
                try:
                    exp = CC.expected(cname, params, sc)
                except Exception as e:   # noqa
                    ctx.broken("search: sequential run failed (%s %s)" % (cname, sc), repr(e))
                    continue
                od = [k for k, v in exp[1].items() if isinstance(v, tuple) and v and v[0] == "ORDER-DEPENDENT"]
                if od:
                    ctx.fail("curve-order-dependent", {"curve": cname, "params": params, "scenario": sc, "ops": od},
                             "results of sequential operations depend on their order: %r" % {k: exp[1][k] for k in od})
                    continue
                n = CC.run_schedule(cname, params, sc, None, deep)[0]
                pts = _points(ctx, n, full and not edw and (cname != "P-256" or sc != "verify" or ctx.tier == "thorough"))
                nbad = 0
                for pt in pts:
                    bad = CC.check_point(cname, params, sc, pt, exp, deep, rotate=pt + j)
                    ctx.case(("curve", cname, sc, j, pt, deep))
                    ctx.traces += 1
                    for name, want, got, where in bad[:1]:
                        nbad += 1
                        ctx.fail("curve-schedule", {"curve": cname, "params": params, "scenario": sc, "point": pt,
                                                    "deep": deep, "rotate": pt + j, "op": name},
                                 "thread A preempted at %s; %s returned %r, sequential result %r" % (
                                     where, name, got, want))
                    if nbad >= 3:
                        break
                key = "%s:%s" % (cname, sc)
                summ[key] = {"points_total": n, "points_checked": summ.get(key, {}).get("points_checked", 0) + len(pts),
                             "deep": deep}
                ctx.dist["curve:" + key] += len(pts)
    ctx.extra["curve_preemption"] = summ
    ctx.sample({"curve": "P-256", "scenario": "table", "b_ops": [n for n, _ in CC.b_ops(CC.World("p211", CC.gen_params(ctx.rng, "p211")))]})


def search(ctx):
    for part in (_search_lock, _search_curves):
        try:
            part(ctx)
        except Exception:   # noqa
            ctx.broken("search: %s crashed" % part.__name__, traceback.format_exc())
    ctx.extra["rule"] = (
        "lock: complete state space of the real RWLock under a line-level scheduler for the listed reader/writer "
        "configurations (threads looping forever / one session each); every transition is one correspondence case "
        "(Model/Sched.v replays the schedule inside Coq and must show the same lock bits, counters, pcs and blocked set); "
        "search predicate on the real graph: a writer in its critical section is the only holder, two readers share, "
        "every state has an enabled thread, every thread can still reach its critical section. "
        "curves: thread A (k*G with lazy table / scale / to_affine / verify) stopped at every traced line of "
        "_maybe_precompute/scale/mul_add/__mul__ of the shared objects (all lines of nested frames too in the "
        "escalated mode on the small curves; sampled for P-256 in quick), 26 complete operations of thread B run there; "
        "distinct = (curve, scenario, key material, preemption point); non-trivial = schedule of length > 0")


# ---------------------------------------------------------------------------------

def replay(ctx, data):
    from props import c20_lock, c20_curve as CC
    rc = 0
    for f in data.get("fails", []):
        d = f["data"]
        if f["kind"].startswith("lock-"):
            run = c20_lock.Run(list(d["roles"]), d["loop"])
            graph_based = False
            try:
                for tid in d["schedule"]:
                    run.step(tid)
                holders = [t for t in range(run.n) if run.phase[t] == "cs"]
                st = [run.step(t) for t in range(run.n)]
                names = ["%s%d" % (run.roles[t], t) for t in holders]
                print("%s roles=%s loop=%s schedule=%s" % (f["kind"], d["roles"], d["loop"], d["schedule"]))
                print("  real lock after the schedule: holders=%s locks=%s counters=%s" % (
                    names, [l.held for _, l in run.locks], [getattr(o, a) for _, (o, a) in run.ctrs]))
                print("  status of each thread when stepped once more: %s" % ([s[0] for s in st],))
                if f["kind"] == "lock-mutual-exclusion":
                    bad = len(holders) > 1 and any(run.roles[t] == "W" for t in holders)
                elif f["kind"] == "lock-deadlock":
                    bad = all(s[0] in ("blocked", "done", "exc") for s in st) and any(s[0] == "blocked" for s in st)
                elif f["kind"] == "lock-lock-exception":
                    bad = any(s[0] == "exc" for s in run.status)
                else:
                    graph_based, bad = True, False
            finally:
                run.abort()
            if graph_based:
                # "thread can no longer reach its critical section" etc.: needs the whole graph
                g = c20_lock.explore(list(d["roles"]), d["loop"], deadline=time.time() + 300)
                kinds = set("lock-" + k for k, _, _ in c20_lock.analyse(g)[0])
                print("  violations in the explored graph of the real lock: %s" % sorted(kinds))
                bad = f["kind"] in kinds
            print("  expected: a writer in its critical section is the only holder; some thread can always move;")
            print("            every thread can still reach its critical section")
            print("  -> %s" % ("REPRODUCED" if bad else "not reproduced"))
            rc |= bool(bad)
        elif f["kind"] == "curve-schedule":
            exp = CC.expected(d["curve"], d["params"], d["scenario"])
            bad = CC.check_point(d["curve"], d["params"], d["scenario"], d["point"], exp, d["deep"], d["rotate"])
            for name, want, got, where in bad:
                print("curve=%s scenario=%s preempted at %s: %s -> %r, sequential %r" % (
                    d["curve"], d["scenario"], where, name, got, want))
            rc |= bool(bad)
        else:
            print(f["kind"], f["detail"])
            rc |= 1
    for b in data.get("broken", []):
        print("broken:", b["what"])
        print(str(b["detail"])[:1500])
    return 1 if rc else 0
