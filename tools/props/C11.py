"""C11 - Configuration updates are history-independent.
Tie: hand model coq/Model/History.v (state machine over components / comments /
auth blocks; tag constants from the translator) + correspondence on random
operation histories run on real Bf3File / Bec2File objects (real plug-in, real
write + read back) + exhaustive search over all short histories of a 9-operation
alphabet evaluating the property predicate directly on the implementation.

The ConfigId factories, str(ConfigId), .version and the TLV encoding are
parameters of the model (C12 / C10 own them): the correspondence instantiates
them with oracle tables computed by the implementation for exactly the
configurations used in the run."""
import copy
import io
import os
import tempfile

from vlib import qN, qZ, qbytes, qlist, qstr, qbool, canon_exc, coq_show

GEN_DEPS = ("Consts.v", "gen_consts", "Pad.v", "gen_pad")
MODEL_TARGETS = ["Model/History.vo"]
IMPORTS = "From Bec2 Require Import Gen.Consts Model.History."

DERIVED = ("Configuration", "DeviceSettings", "RequiresBusAddress")
T_TYPE, T_ENC, T_FMT, T_HWCID = 0xC3, 0xC2, 0xC1, 0xC4


# ---------------------------------------------------------------------------
# configurations.  Literal expectations (has_prj, has_dev, bus, code, ver) are
# read off the configuration by hand: they are the independent side of the
# search predicate.  `strict=False` configurations pin present behaviour of the
# code in the correspondence only (empty / zero bus-address value, errors).

def _cfg(name, cfg, has_prj, has_dev, bus, code, ver, strict=True, fails=None):
    return dict(name=name, cfg=cfg, has_prj=has_prj, has_dev=has_dev, bus=bus, code=code, ver=ver,
                marker=b"CFG-" + name.encode() + b"!", strict=strict, fails=fails)


def _mk(name, d):
    d = dict(d)
    d[(0x1111, 0x22)] = b"CFG-" + name.encode() + b"!"
    return d


CODE_A, CODE_C, CODE_D, CODE_E = bytes([0x45] * 8), bytes([0x11] * 8), bytes(range(0x20, 0x28)), bytes([0x33] * 8)
CODE_P, CODE_Q, CODE_R, CODE_S, CODE_T, CODE_V = (bytes([0x50 + i] * 8) for i in range(6))
CONFIGS = {c["name"]: c for c in [
    # full BALTECH naming scheme, security code, no bus-address flag
    _cfg("A", _mk("A", {(0x0202, 0x82): CODE_A, (0x0620, 0x01): (10234).to_bytes(4, "big"),
                        (0x0620, 0x05): (5678).to_bytes(2, "big"), (0x0620, 0x02): (6789).to_bytes(2, "big"),
                        (0x0620, 0x07): b"\x09", (0x0620, 0x06): b"Testname", (0x1111, 0x77): b"\x55\x66"}),
         True, False, False, CODE_A, 9),
    # device settings only, bus-address flag set, no security code
    _cfg("B", _mk("B", {(0x0620, 0x01): (77).to_bytes(4, "big"), (0x0620, 0x04): b"\x03",
                        (0x0620, 0x03): b"DevB", (0x0620, 0x20): b"\x01"}),
         False, True, True, None, 3),
    # no naming values at all, but a security code: no update block
    _cfg("C", _mk("C", {(0x0202, 0x82): CODE_C, (0x0305, 0x01): b"\x01\x02\x03"}),
         False, False, False, CODE_C, None),
    # name-only project and device settings, security code, flag set
    _cfg("D", _mk("D", {(0x0202, 0x82): CODE_D, (0x0620, 0x07): b"\x07", (0x0620, 0x06): b"Solo",
                        (0x0620, 0x04): b"\x05", (0x0620, 0x03): b"DevD", (0x0620, 0x20): b"\x01"}),
         True, True, True, CODE_D, 7),
    # project version without a name (-> missing), device id through the fallback
    _cfg("E", _mk("E", {(0x0202, 0x82): CODE_E, (0x0620, 0x07): b"\x02", (0x0620, 0x01): (4711).to_bytes(4, "big"),
                        (0x0620, 0x04): b"\x04", (0x0620, 0x20): b"\x01"}),
         False, True, True, CODE_E, 4),
    # delete entries (None), no names, no code
    _cfg("F", _mk("F", {(0x0404, None): None, (0x0405, 0x01): None, (0x0620, 0x20): None}),
         False, False, False, None, None),
    # --- identifier version boundaries: 0 is a legal version and must still give an update block ---
    # full numeric scheme with name, project version 0
    _cfg("P", _mk("P", {(0x0202, 0x82): CODE_P, (0x0620, 0x01): (20001).to_bytes(4, "big"),
                        (0x0620, 0x05): (12).to_bytes(2, "big"), (0x0620, 0x02): (34).to_bytes(2, "big"),
                        (0x0620, 0x07): b"\x00", (0x0620, 0x06): b"VerZero"}),
         True, False, False, CODE_P, 0),
    # name-only project, version 0, flag set
    _cfg("Q", _mk("Q", {(0x0202, 0x82): CODE_Q, (0x0620, 0x07): b"\x00", (0x0620, 0x06): b"Zero",
                        (0x0620, 0x20): b"\x01"}),
         True, False, True, CODE_Q, 0),
    # full numeric scheme WITHOUT a name, project version 0
    _cfg("R", _mk("R", {(0x0202, 0x82): CODE_R, (0x0620, 0x01): (31000).to_bytes(4, "big"),
                        (0x0620, 0x05): (7).to_bytes(2, "big"), (0x0620, 0x07): b"\x00"}),
         True, False, False, CODE_R, 0),
    # device-settings fallback with device version 0 (no project version at all)
    _cfg("S", _mk("S", {(0x0202, 0x82): CODE_S, (0x0620, 0x01): (555).to_bytes(4, "big"),
                        (0x0620, 0x04): b"\x00", (0x0620, 0x03): b"DevZero"}),
         False, True, False, CODE_S, 0),
    # highest legal version 99
    _cfg("T", _mk("T", {(0x0202, 0x82): CODE_T, (0x0620, 0x01): (42).to_bytes(4, "big"),
                        (0x0620, 0x05): (1).to_bytes(2, "big"), (0x0620, 0x07): b"\x63", (0x0620, 0x06): b"N99"}),
         True, False, False, CODE_T, 99),
    # two-byte version values: project 0x002a = 42, and a device version of two zero bytes
    _cfg("V", _mk("V", {(0x0202, 0x82): CODE_V, (0x0620, 0x07): b"\x00\x2a", (0x0620, 0x06): b"TwoByte",
                        (0x0620, 0x04): b"\x00\x00", (0x0620, 0x03): b"DevTwo"}),
         True, True, False, CODE_V, 42),
    # project version 0 but no security code: no update block; device version 0 with name only
    _cfg("W", _mk("W", {(0x0620, 0x07): b"\x00", (0x0620, 0x04): b"\x00\x00", (0x0620, 0x03): b"OnlyDev",
                        (0x0620, 0x20): b"\x01"}),
         False, True, True, None, 0),
    # --- twins: the same project settings (same Configuration comment) with other device settings / bus flag, so that
    #     a derivation after its twin must still replace or drop DeviceSettings and RequiresBusAddress; project and
    #     device versions differ, the update block carries the project one ---
    _cfg("A2", _mk("A2", {(0x0202, 0x82): CODE_A, (0x0620, 0x01): (10234).to_bytes(4, "big"),
                          (0x0620, 0x05): (5678).to_bytes(2, "big"), (0x0620, 0x02): (6789).to_bytes(2, "big"),
                          (0x0620, 0x07): b"\x09", (0x0620, 0x06): b"Testname", (0x0620, 0x04): b"\x03",
                          (0x0620, 0x03): b"DevA2", (0x0620, 0x20): b"\x01"}),
         True, True, True, CODE_A, 9),
    _cfg("D2", _mk("D2", {(0x0202, 0x82): CODE_D, (0x0620, 0x07): b"\x07", (0x0620, 0x06): b"Solo",
                          (0x0620, 0x04): b"\x06", (0x0620, 0x03): b"DevD2"}),
         True, True, False, CODE_D, 7),
    # naming values that are present but EMPTY: an empty name is a missing name (no identifier, no comment, no update
    # block), for the device settings as for the project settings
    _cfg("Y1", _mk("Y1", {(0x0202, 0x82): CODE_A, (0x0620, 0x04): b"\x03", (0x0620, 0x03): b""}),
         False, False, False, CODE_A, None),
    _cfg("Y2", _mk("Y2", {(0x0202, 0x82): CODE_C, (0x0620, 0x07): b"\x03", (0x0620, 0x06): b"", (0x0620, 0x20): b"\x01"}),
         False, False, True, CODE_C, None),
    # the empty configuration: a component holding only the terminator
    dict(_cfg("Z", {}, False, False, False, None, None), marker=b""),
    # --- correspondence only ---
    _cfg("G", _mk("G", {(0x0620, 0x20): b"\x00", (0x0620, 0x07): b"\x01", (0x0620, 0x06): b"Z"}),
         True, False, True, None, 1, strict=False),          # b"\x00" is a non-empty (truthy) value today
    _cfg("H", _mk("H", {(0x0620, 0x20): b"", (0x0202, 0x82): b""}),
         False, False, False, b"", None, strict=False),      # empty value: falsy; empty code is not None
    _cfg("X", _mk("X", {(0x0700, 0x01): bytes(300)}),
         False, False, False, None, None, strict=False, fails="encode"),   # content too long: ValueError
    _cfg("U", _mk("U", {(0x0620, 0x07): b"\x01", (0x0620, 0x06): b"\xff\xfe", (0x0620, 0x04): b"\x02",
                        (0x0620, 0x03): b"ok"}),
         False, False, False, None, None, strict=False, fails="ids"),      # name is not UTF-8
]}
STRICT = [n for n, c in CONFIGS.items() if c["strict"]]
EXTRAS = [(), (b"\x01\x02\x03",), (b"", b"\xaa" * 5), (b"x" * 256,)]   # last one: OverflowError

# firmware component palette (index 6: a configuration-typed component added by
# hand - outside the property's quantifier, used by the correspondence only)
PALETTE = [
    ({T_TYPE: b"\x02", T_FMT: b"\x00"}, b"MAIN-FW-1", None),
    ({}, b"\x00\x01\x02", None),
    ({T_TYPE: b"\x00"}, b"L", None),
    ({T_FMT: b"\x01", T_HWCID: b"\xbe"}, bytes(range(20)), None),
    ({T_TYPE: b"\x03\x00"}, b"xx", None),
    ({T_TYPE: b"\x01", T_ENC: b"\x00"}, bytes(range(16, 32)), 10),
    ({T_TYPE: b"\x03"}, b"\x00", None),
]
ALLOWED_COMPS = [0, 1, 2, 3, 4, 5]


def new_comp(i):
    from bec2format import Bf3Component
    d, blob, alen = PALETTE[i]
    return Bf3Component(dict(d), blob, alen)


def is_cfg_comp(c):
    return c.description.get(T_TYPE) == b"\x03"


# ---------------------------------------------------------------------------
# fixture: real objects, real plug-in

class Fixture:
    def __init__(self, rng):
        import register_crypto_plugin  # noqa: registers pyaes / ecdsa adapters
        from bec2format.bec2file import EccDecryptor, SoftwareCustKeyEncryptor
        from bec2format.crypto import generate_private_ecc_key
        self.rng = rng
        self.ecc = EccDecryptor(0, generate_private_ecc_key())
        self.cust = SoftwareCustKeyEncryptor(bytes(rng.randrange(256) for _ in range(16)))
        self.tmp = None

    def encs(self):
        return [self.ecc, self.cust]

    def new_file(self, init):
        from bec2format import Bec2File, Bf3File
        from bec2format.bec2file import InitCustKeyAuthBlock, InitEccAuthBlock, UnknownAuthBlock
        comments = dict(init.get("comments", ()))
        bf3 = Bf3File(comments, [])
        for item in init.get("comps", ()):
            if item[0] == "fw":
                bf3.components.append(new_comp(item[1]))
            else:
                bf3.set_config(CONFIGS[item[1]]["cfg"], EXTRAS[item[2]])
        blocks = []
        for b in init.get("auth", ()):
            blocks.append({"cust": InitCustKeyAuthBlock, "ecc": InitEccAuthBlock}[b]() if b in ("cust", "ecc")
                          else UnknownAuthBlock(b[1], bytes.fromhex(b[2])))
        key = bytes(self.rng.randrange(256) for _ in range(16))
        return Bec2File(bf3, blocks, key)

    def write_read(self, bec2, via_path=False):
        """write the file and return the object read back.  Without auth blocks a
        BEC2 file cannot be read (no session key): the BF3 container is used."""
        from bec2format import Bec2File, Bf3File
        from bec2format.bec2file import ConfigSecurityCodeEncryptor, UpdateAuthBlock
        if via_path:
            if self.tmp is None:
                self.tmp = tempfile.mkdtemp(prefix="c11_")
            path = os.path.join(self.tmp, "f.bec2")
            sink, src = path, (lambda: path)
        else:
            buf = io.StringIO()
            sink, src = buf, (lambda: (buf.seek(0), buf)[1])
        if not bec2.auth_blocks:
            bec2.bf3file.write_file(sink)
            return Bec2File(Bf3File.read_file(src()), [], bec2.session_key)
        bec2.write_file(sink, self.encs())
        dec = self.encs()
        for blk in bec2.auth_blocks.values():
            if isinstance(blk, UpdateAuthBlock):
                dec.append(ConfigSecurityCodeEncryptor(blk.config_security_code))
        return Bec2File.read_file(src(), dec)

    def close(self):
        if self.tmp:
            import shutil
            shutil.rmtree(self.tmp, ignore_errors=True)


def apply_op(fx, bec2, op, via_path=False):
    """-> (object to continue with, canonical error name or None)"""
    try:
        k = op[0]
        if k == "set":
            bec2.bf3file.set_config(CONFIGS[op[1]]["cfg"], EXTRAS[op[2]])
        elif k == "dc":
            bec2.bf3file.derive_comments_from_config(CONFIGS[op[1]]["cfg"])
        elif k == "da":
            bec2.derive_auth_blocks_from_config(CONFIGS[op[1]]["cfg"], op[2])
        elif k == "app":
            bec2.bf3file.components.append(new_comp(op[1]))
        elif k == "ins":
            bec2.bf3file.components.insert(op[1], new_comp(op[2]))
        elif k == "wr":
            bec2 = fx.write_read(bec2, via_path)
        else:
            raise AssertionError(op)
        return bec2, None
    except Exception as e:  # noqa
        return bec2, canon_exc(e)


def op_allowed(op):
    return not (op[0] in ("app", "ins") and op[-1] not in ALLOWED_COMPS)


# ---------------------------------------------------------------------------
# the property predicate, evaluated on the real objects after every operation.
# Independent bookkeeping: a shadow list of the firmware components the caller
# added, the comments that are not derived, and what the most recent
# configuration / derivation must have produced according to the literal
# expectations above and to a FRESH object (history independence).

def ref_blob(cname, xi):
    """tlvcfg_blob assembled independently from C10's conf_dict_to_tlv"""
    from bec2format.bf3file import conf_dict_to_tlv
    blocks = conf_dict_to_tlv(CONFIGS[cname]["cfg"]) + list(EXTRAS[xi])
    return b"".join(len(b).to_bytes(1, "big") + b for b in blocks) + b"\x00"


_fresh_cache = {}


def fresh(kind, cname, arg=None):
    """what the operation produces on a brand-new object"""
    from bec2format import Bec2File, Bf3File
    key = (kind, cname, arg)
    if key not in _fresh_cache:
        cfg = CONFIGS[cname]["cfg"]
        if kind == "set":
            f = Bf3File()
            f.set_config(cfg, EXTRAS[arg])
            c = f.components[-1]
            val = (len(f.components), dict(c.description), c.blob, c.actual_len, c.encrypt_by_session_key)
        elif kind == "dc":
            f = Bf3File()
            f.derive_comments_from_config(cfg)
            val = dict(f.comments)
        else:
            b = Bec2File(Bf3File(), [], bytes(16))
            b.derive_auth_blocks_from_config(cfg, arg)
            val = [ab_view(x) for x in b.auth_blocks.values()]
        _fresh_cache[key] = val
    return _fresh_cache[key]


def ab_view(b):
    from bec2format.bec2file import InitCustKeyAuthBlock, InitEccAuthBlock, UpdateAuthBlock
    if isinstance(b, InitCustKeyAuthBlock):
        return ("cust",)
    if isinstance(b, InitEccAuthBlock):
        return ("ecc", b.key_selector)
    if isinstance(b, UpdateAuthBlock):
        return ("update", bytes(b.config_security_code), b.version)
    return ("unknown", b.tag, bytes(getattr(b, "binary_value", b"")))


def comp_view(c):
    return (list(c.description.items()), bytes(c.blob), c.actual_len, bool(c.encrypt_by_session_key))


def padded(ref, blob):
    """blob == ref, or ref zero-padded to a whole number of blocks (after read back)"""
    return blob == ref or blob == ref + bytes(-len(ref) % 16)


class Tracker:
    def __init__(self, bec2):
        bf3 = bec2.bf3file
        self.fw = [comp_view(c) for c in bf3.components if not is_cfg_comp(c)]
        self.others = [(k, v) for k, v in bf3.comments.items() if k not in DERIVED]
        self.derived0 = {k: bf3.comments[k] for k in DERIVED if k in bf3.comments}
        self.cfg = None          # (cname, xi) of the most recent successful set_config
        self.had_cfg = any(is_cfg_comp(c) for c in bf3.components)
        self.cfg_unknown = self.had_cfg   # an initial configuration of unknown origin
        self.dc = None           # config of the most recent successful derive_comments ("?" after a raise)
        self.auth0 = bool(bec2.auth_blocks)
        self.kinds = set(ab_view(b)[0] for b in bec2.auth_blocks.values())
        # acceptable update blocks: None = no block.  A derivation whose configuration has both a
        # security code and an identifier version must leave exactly that one; a derivation without
        # may keep an older block (the property does not say) but cannot invent one
        self.upd_opts = [None]
        self.upd_known = not any(ab_view(b)[0] == "update" for b in bec2.auth_blocks.values())
        self.da_count = 0

    def before(self, bec2, op):
        """bookkeeping that needs the state before the operation"""
        if op[0] == "ins":
            comps = bec2.bf3file.components
            n = len(comps)
            i = op[1]
            j = max(0, i + n) if i < 0 else min(i, n)
            self.pos = sum(1 for c in comps[:j] if not is_cfg_comp(c))

    def after(self, bec2, op, err):
        """update expectations, then check.  Returns a list of violation strings."""
        k = op[0]
        out = []
        bf3 = bec2.bf3file
        comps = bf3.components
        if k == "app" and err is None:
            self.fw.append(comp_view(new_comp(op[1])))
        elif k == "ins" and err is None:
            self.fw.insert(self.pos, comp_view(new_comp(op[2])))
        elif k == "set":
            self.cfg_unknown = False
            if err is None:
                self.cfg, self.had_cfg = (op[1], op[2]), True
            else:
                self.cfg, self.had_cfg = None, False   # the old configuration is deleted before the encoding raises
        elif k == "dc":
            self.dc = op[1] if err is None else "?"
        elif k == "da":
            self.kinds.add("cust" if op[2] else "ecc")
            c = CONFIGS[op[1]]
            self.first = (self.da_count == 0)
            self.da_count += 1
            if err is None and c["code"] is not None and c["ver"] is not None:
                self.upd_opts, self.upd_known = [(c["code"], c["ver"])], True
            elif None not in self.upd_opts:
                self.upd_opts = self.upd_opts + [None]
        elif k == "wr" and err is not None:
            out.append("write/read back raised %s" % err)
        # ---- exactly one configuration component ...
        cfgs = [c for c in comps if is_cfg_comp(c)]
        if len(cfgs) > 1:
            out.append("%d configuration components" % len(cfgs))
        if self.had_cfg and len(cfgs) != 1:
            out.append("%d configuration components after a configuration update" % len(cfgs))
        # ---- ... placed last right after the update, encoding only the most recent configuration
        if k == "set" and err is None:
            if not comps or not is_cfg_comp(comps[-1]):
                out.append("configuration component is not last after set_config")
            else:
                n, d, blob, alen, flag = fresh("set", op[1], op[2])
                c = comps[-1]
                if (dict(c.description), c.blob, c.actual_len, c.encrypt_by_session_key) != (d, blob, alen, flag) \
                        or list(c.description.items()) != list(d.items()):
                    out.append("configuration component differs from the one a fresh file gets")
        if self.cfg is not None and len(cfgs) == 1:
            c = cfgs[0]
            ref = ref_blob(*self.cfg)
            if not padded(ref, bytes(c.blob)):
                out.append("configuration blob is not the encoding of the most recent configuration")
            for name, other in CONFIGS.items():
                if not other["marker"]:
                    continue
                if (other["marker"] in c.blob) != (name == self.cfg[0]):
                    out.append("configuration blob %s the value of configuration %s"
                               % ("lacks" if name == self.cfg[0] else "contains", name))
            if not c.encrypt_by_session_key or c.description.get(T_ENC) != b"\x02":
                out.append("configuration component is not marked for session-key encryption")
            if c.actual_len != len(ref):
                out.append("configuration component actual_len %r != %d" % (c.actual_len, len(ref)))
        # ---- every other component untouched, original order
        now = [comp_view(c) for c in comps if not is_cfg_comp(c)]
        if now != self.fw:
            out.append("firmware components changed: %r expected %r" % (now, self.fw))
        # ---- comments
        cm = bf3.comments
        others = [(a, b) for a, b in cm.items() if a not in DERIVED]
        if others != self.others:
            out.append("other comments changed: %r expected %r" % (others, self.others))
        have = {a: cm[a] for a in DERIVED if a in cm}
        if self.dc is None:
            if have != self.derived0:
                out.append("derived comments changed without a derivation: %r" % have)
        elif self.dc != "?":
            c = CONFIGS[self.dc]
            if have != fresh("dc", self.dc):
                out.append("derived comments %r differ from those of a fresh file %r" % (have, fresh("dc", self.dc)))
            if c["strict"]:
                want = (c["has_prj"], c["has_dev"], c["bus"])
                got = tuple(a in cm for a in DERIVED)
                if got != want:
                    out.append("derived keys present %r, the configuration says %r" % (got, want))
                if c["bus"] and cm.get("RequiresBusAddress") != "Yes":
                    out.append("RequiresBusAddress is %r" % cm.get("RequiresBusAddress"))
        # ---- auth blocks
        views = [ab_view(b) for b in bec2.auth_blocks.values()]
        for key, b in bec2.auth_blocks.items():
            if key != b.tag:
                out.append("auth block stored under key %r has tag %r" % (key, b.tag))
        kinds = [v[0] if v[0] != "unknown" else v[:2] for v in views]
        if len(kinds) != len(set(kinds)):
            out.append("more than one auth block of a kind: %r" % (views,))
        if not self.auth0:
            if set(kinds) - {"update"} != self.kinds:
                out.append("auth block kinds %r, expected %r (+ update)" % (kinds, sorted(self.kinds)))
            if k == "da" and err is None and self.first:
                c = CONFIGS[op[1]]
                want = [("cust",) if op[2] else ("ecc", 0)]
                if c["code"] is not None and c["ver"] is not None:
                    want.append(("update", c["code"], c["ver"]))
                if views != want:
                    out.append("auth blocks of a file that had none: %r expected %r" % (views, want))
                if views != fresh("da", op[1], op[2]):
                    out.append("auth blocks differ from a fresh file's")
        if self.upd_known:
            ups = [v[1:] for v in views if v[0] == "update"]
            if len(ups) > 1 or (ups[0] if ups else None) not in self.upd_opts:
                out.append("update block %r, expected code/version one of %r" % (ups, self.upd_opts))
        return out


def run_history(fx, init, ops, check=True, via_path=False):
    """run ops on a real object.  -> (list of (state view, err), violations)"""
    bec2 = fx.new_file(init)
    tr = Tracker(bec2) if check else None
    outs, viol = [], []
    for n, op in enumerate(ops):
        if tr:
            tr.before(bec2, op)
        bec2, err = apply_op(fx, bec2, op, via_path)
        outs.append((state_view(bec2), err))
        if tr:
            v = tr.after(bec2, op, err)
            if v:
                viol.append((n, v))
    return outs, viol


def state_view(bec2):
    return ([comp_view(c) for c in bec2.bf3file.components], list(bec2.bf3file.comments.items()),
            [(k, ab_view(b)) for k, b in bec2.auth_blocks.items()])


# ---------------------------------------------------------------------------
# Coq literals

def q_desc(items):
    return qlist(["(%s, %s)" % (qN(k), qbytes(v)) for k, v in items], "(N * bytes)")


def q_comp(v):
    d, blob, alen, flag = v
    return "(mkComp %s %s %s %s)" % (q_desc(d), qbytes(blob), qN(alen), qbool(flag))


def q_ab(v):
    if v[0] == "cust":
        return "ABCust"
    if v[0] == "ecc":
        return "(ABEcc %s)" % qN(v[1])
    if v[0] == "update":
        return "(ABUpdate %s %s)" % (qbytes(v[1]), qN(v[2]))
    return "(ABUnknown %s %s)" % (qN(v[1]), qbytes(v[2]))


def q_state(sv):
    comps, comments, auths = sv
    return "(mkState %s %s %s)" % (
        qlist([q_comp(c) for c in comps], "comp"),
        qlist(["(%s, %s)" % (qstr(k), qstr(v)) for k, v in comments], "(str * str)"),
        qlist(["(%s, %s)" % (qN(k), q_ab(b)) for k, b in auths], "(N * auth_block)"))


def q_cfg(cfg):
    items = []
    for (k, v), content in cfg.items():
        items.append("((%s, %s), %s)" % (qN(k), "None" if v is None else "(Some %s)" % qN(v),
                                         "None" if content is None else "(Some %s)" % qbytes(content)))
    return qlist(items, "((N * option N) * option bytes)")


def q_op(op):
    k = op[0]
    if k == "set":
        return "(SetConfig cfg_%s ex_%d)" % (op[1], op[2])
    if k == "dc":
        return "(DeriveComments cfg_%s)" % op[1]
    if k == "da":
        return "(DeriveAuth cfg_%s %s)" % (op[1], qbool(op[2]))
    if k == "app":
        return "(Append cp_%d)" % op[1]
    if k == "ins":
        return "(Insert %s cp_%d)" % (qZ(op[1]), op[2])
    return "WriteRead"


def q_out(o):
    sv, err = o
    return "(%s, %s)" % (q_state(sv), "None" if err is None else "(Some %s)" % err)


def oracle_preamble():
    """configurations, extras, palette and the oracle tables for the model's
    parameters, computed by the implementation"""
    from bec2format.configid import ConfigId
    lines = []
    for n, c in CONFIGS.items():
        lines.append("Definition cfg_%s : config := %s." % (n, q_cfg(c["cfg"])))
    for i, x in enumerate(EXTRAS):
        lines.append("Definition ex_%d : list bytes := %s." % (i, qlist([qbytes(b) for b in x], "bytes")))
    for i in range(len(PALETTE)):
        lines.append("Definition cp_%d : comp := %s." % (i, q_comp(comp_view(new_comp(i)))))

    def idres(f, cfg):
        try:
            i = f(cfg)
            return "(Ok (%s, %s))" % (qstr(str(i)), qN(i.version))
        except Exception as e:  # noqa
            return "(Err %s)" % canon_exc(e)
    for nm, f in (("prj", ConfigId.create_from_prj_settings), ("dev", ConfigId.create_from_dev_settings)):
        lines.append("Definition %s_tbl : list (config * result (str * N)) := %s." % (nm, qlist(
            ["(cfg_%s, %s)" % (n, idres(f, c["cfg"])) for n, c in CONFIGS.items()])))
        lines.append("Definition %s_o : config -> result (str * N) := oracle cfg_eqb %s_tbl (Err EFuel)." % (nm, nm))
    rows = []
    for n in CONFIGS:
        for i in range(len(EXTRAS)):
            try:
                r = "(Ok %s)" % qbytes(ref_blob(n, i))
            except Exception as e:  # noqa
                r = "(Err %s)" % canon_exc(e)
            rows.append("((cfg_%s, ex_%d), %s)" % (n, i, r))
    lines.append("Definition blob_tbl : list ((config * list bytes) * result bytes) := %s." % qlist(rows))
    lines.append("Definition blob_o (c : config) (x : list bytes) : result bytes := "
                 "oracle (prod_eqb cfg_eqb (list_eqb bytes_eqb)) blob_tbl (Err EFuel) (c, x).")
    lines.append("Definition idc (b : bytes) : result bytes := Ok b.")
    lines.append("Definition tr := trace (str * N)%type prj_o dev_o fst snd blob_o idc idc.")
    return "\n".join(lines) + "\n"


# ---------------------------------------------------------------------------
# correspondence

INITS = [
    {},
    {"comments": [("Foo", "bar")], "comps": [("fw", 0)]},
    {"comments": [("Zed", "1"), ("RequiresBusAddress", "Yes"), ("Foo", "bar baz"), ("Configuration", "stale"),
                  ("DeviceSettings", "old one")],
     "comps": [("fw", 0), ("cfg", "F", 0), ("fw", 1)]},
    {"comments": [("DeviceSettings", "x"), ("A", "")], "comps": [("cfg", "A", 1)], "auth": ["cust"]},
    {"comps": [("fw", 3), ("fw", 5)], "auth": ["cust", ("unk", 7, "0102")]},
    {"comments": [("Configuration", "10234-5678-6789-09 Testname")], "auth": ["ecc"]},
]


def random_op(r, wild):
    k = r.choice(["set", "set", "set", "dc", "dc", "da", "da", "app", "ins", "wr"])
    names = list(CONFIGS) if r.random() < 0.25 else STRICT
    if k == "set":
        xi = r.choice([0, 0, 1, 2]) if r.random() < 0.95 else 3
        return ("set", r.choice(names), xi)
    if k == "dc":
        return ("dc", r.choice(names))
    if k == "da":
        return ("da", r.choice(names), r.random() < 0.5)
    pal = ALLOWED_COMPS + ([6, 6] if wild else [])
    if k == "app":
        return ("app", r.choice(pal))
    if k == "ins":
        return ("ins", r.choice([-20, -2, -1, 0, 0, 1, 2, 5, 50]), r.choice(pal))
    return ("wr",)


def correspondence(ctx):
    r = ctx.rng
    fx = Fixture(r)
    try:
        cases = []
        n = ctx.budget(360, 3000)
        if ctx.brokens:
            n *= 3
        for i in range(n):
            wild = r.random() < 0.15          # with configuration-typed components added by hand
            init = r.choice(INITS)
            ln = r.choice([1, 2, 3, 4, 5, 6, 8, 10, 10])
            ops = [random_op(r, wild) for _ in range(ln)]
            cases.append((INITS.index(init), ops, wild))
        # a few fixed shapes: stale state shows only after particular orders
        fixed = [
            (0, [("app", 1), ("set", "A", 0), ("set", "B", 1)]),
            (0, [("set", "A", 0), ("app", 0), ("set", "B", 0), ("ins", 0, 1), ("wr",), ("set", "C", 2)]),
            (0, [("dc", "D"), ("dc", "C"), ("dc", "B"), ("dc", "A")]),
            (0, [("da", "A", True), ("da", "C", False), ("da", "D", True), ("wr",), ("da", "E", False)]),
            (2, [("wr",), ("set", "X", 0), ("set", "A", 3), ("dc", "U"), ("da", "U", True), ("wr",)]),
            (0, [("app", 6), ("app", 6), ("set", "A", 0), ("wr",), ("set", "B", 0)]),
            (0, [("da", "P", False), ("wr",), ("da", "S", True), ("da", "T", False), ("da", "W", True)]),
            (0, [("da", "Q", True)]), (0, [("da", "R", False)]), (0, [("da", "S", False)]), (0, [("da", "V", True)]),
            (0, [("da", "W", True), ("dc", "W"), ("dc", "P"), ("dc", "V"), ("da", "V", False), ("wr",)]),
        ]
        cases += [(i, ops, any(not op_allowed(o) for o in ops)) for i, ops in fixed]
        exprs, meta = [], []
        for ci, (ii, ops, wild) in enumerate(cases):
            allowed = all(op_allowed(o) for o in ops)
            via_path = (ci % 7 == 0)
            outs, viol = run_history(fx, INITS[ii], ops, check=allowed, via_path=via_path)
            s0 = state_view(fx.new_file(INITS[ii]))
            exprs.append("list_eqb outcome_eqb (tr %s %s) %s" % (
                qlist([q_op(o) for o in ops], "op"), q_state(s0),
                qlist([q_out(o) for o in outs], "(state * option err)")))
            meta.append((ii, ops, viol, outs))
            ctx.case(("corr", ii, tuple(ops)), trivial=False)
            ctx.dist["history length %d" % len(ops)] += 1
            ctx.dist["init %d" % ii] += 1
            for o, (_, err) in zip(ops, outs):
                ctx.dist["op:" + o[0] + ("!" + err if err else "")] += 1
            if not allowed:
                ctx.dist["with hand-made configuration components"] += 1
            if ci < 3:
                ctx.sample({"init": INITS[ii], "ops": ops, "final": repr(outs[-1])[:300]})
            # the predicate is also evaluated on these histories
            for n_op, v in viol[:1]:
                if len(ctx.fails) < 5:
                    ctx.fail("history-violates-C11", {"init": ii, "ops": ops, "at": n_op}, "; ".join(v))
        bad = ctx.coq_eval("c11", IMPORTS, exprs, preamble=oracle_preamble(), shard=40)
        if bad is None:
            return
        ctx.traces += len(exprs)
        for i in bad[:10]:
            ii, ops, viol, outs = meta[i]
            if viol:
                continue     # already reported as a failing input
            ctx.broken("correspondence: Model.History differs from the implementation",
                       {"init": INITS[ii], "ops": ops, "impl": repr(outs)[:1500]})
    finally:
        fx.close()


# ---------------------------------------------------------------------------
# search: every history up to a length bound over a 9-operation alphabet

def alphabet(triple):
    a, b, c = triple
    return [("set", a, 0), ("set", b, 1), ("set", c, 0), ("dc",), ("da", True), ("da", False),
            ("app", 0), ("ins", 0, 1), ("wr",)]


def concrete(sym, cur):
    """derive operations take the most recently set configuration"""
    if sym[0] == "dc":
        return ("dc", cur)
    if sym[0] == "da":
        return ("da", cur, sym[1])
    return sym


def dfs(ctx, fx, init_i, triple, depth):
    alpha = alphabet(triple)
    root = fx.new_file(INITS[init_i])
    stack = [(root, Tracker(root), triple[0], [])]
    nodes = 0
    while stack:
        bec2, tr, cur, hist = stack.pop()
        if len(hist) >= depth:
            continue
        for sym in alpha:
            op = concrete(sym, cur)
            b2, t2 = copy.deepcopy((bec2, tr))
            t2.before(b2, op)
            b2, err = apply_op(fx, b2, op)
            v = t2.after(b2, op, err)
            h2 = hist + [op]
            nodes += 1
            ctx.case(("search", init_i, triple, tuple(h2)))
            if err is not None and not v:
                v = ["operation raised %s" % err]
            if v:
                ctx.fail("history-violates-C11", {"init": init_i, "ops": h2, "at": len(h2) - 1}, "; ".join(v))
                if len(ctx.fails) >= 20:
                    return nodes
                continue      # do not explore below a violating state
            stack.append((b2, t2, op[1] if op[0] == "set" else cur, h2))
    return nodes


def search(ctx):
    fx = Fixture(ctx.rng)
    try:
        t1, t2 = ("A", "B", "C"), ("D", "E", "F")
        z1, z2 = ("P", "S", "W"), ("Q", "R", "V")     # identifier version 0 (project / device fallback), 2-byte versions
        if ctx.quick() and not ctx.brokens:
            plan = [(0, t1, 4), (2, t2, 4), (0, t2, 4), (2, t1, 4), (0, z1, 4), (2, z2, 4),
                    (5, ("E", "C", "B"), 3), (3, ("B", "D", "A"), 3), (5, ("S", "T", "R"), 3), (3, ("T", "Q", "P"), 3)]
        elif ctx.quick():
            # a proof or the correspondence broke: look harder for the concrete failing history
            plan = [(0, t1, 5), (2, t2, 4), (0, t2, 4), (2, t1, 4), (0, z1, 4), (2, z2, 4),
                    (5, ("E", "C", "B"), 4), (3, ("B", "D", "A"), 4), (5, ("S", "T", "R"), 3), (3, ("T", "Q", "P"), 3)]
        else:
            plan = [(0, t1, 5), (2, t2, 5), (0, t2, 5), (2, t1, 5), (0, z1, 5), (2, z2, 4),
                    (5, ("E", "C", "B"), 4), (3, ("B", "D", "A"), 4), (5, ("S", "T", "R"), 4), (3, ("T", "Q", "P"), 4)]
        for init_i, triple, depth in plan:
            n, before = 0, len(ctx.fails)
            for d in sorted(set([min(2, depth), min(3, depth), depth])):   # short histories first: minimal replays
                n = dfs(ctx, fx, init_i, triple, d)
                if len(ctx.fails) > before:
                    break
            ctx.dist["search init %d configs %s depth %d: histories" % (init_i, "".join(triple), depth)] += n
            if len(ctx.fails) >= 20:
                break
        # seeded random long histories over all strict configurations
        r = ctx.rng
        for _ in range(ctx.budget(150, 3000)):
            ii = r.randrange(len(INITS))
            ops = []
            while len(ops) < r.choice([6, 8, 10]):
                o = random_op(r, False)
                if o[0] in ("set", "dc", "da") and (o[1] not in STRICT or (o[0] == "set" and o[2] == 3)):
                    continue
                ops.append(o)
            outs, viol = run_history(fx, INITS[ii], ops)
            ctx.case(("search-rand", ii, tuple(ops)))
            for n_op, v in viol:
                ctx.fail("history-violates-C11", {"init": ii, "ops": ops, "at": n_op}, "; ".join(v))
            for n_op, (_, err) in enumerate(outs):
                if err is not None:
                    ctx.fail("history-violates-C11", {"init": ii, "ops": ops, "at": n_op}, "operation raised %s" % err)
    finally:
        fx.close()
    ctx.fails.sort(key=lambda f: len(f["data"].get("ops", [])))     # shortest failing history first
    ctx.extra["rule"] = (
        "correspondence: random operation histories of length 1..10 (set_config over 10 configurations x 4 extra-block "
        "variants incl. encodings that raise, derive_comments, derive_auth both modes, append/insert at indices -20..50 of "
        "6 firmware components with/without TYPE tag, 15% of the histories also add configuration-typed components by hand, "
        "write + read back through Bec2File/Bf3File with the real plug-in, every 7th through a real file path) from 6 initial "
        "files; the model's trace (state and exception after EVERY operation: component descriptions, blobs, actual_len, flag, "
        "ordered comments, ordered auth blocks with tag and fields) is compared inside Coq; ConfigId factories / str / version / "
        "TLV encoding are oracle tables computed by the implementation.  search: ALL histories up to the depth bound over the "
        "9-operation alphabet {set_config x3 (one with extra blocks), derive_comments, derive_auth custkey, derive_auth ecc "
        "(with the most recently set configuration), append typed firmware, insert untyped firmware at 0, write+read back} for "
        "several configuration triples and initial files (prefix-shared DFS on deep copies of the real objects), plus seeded "
        "random histories of length 6..10; after every operation the predicate checks: <=1 / exactly one configuration "
        "component, last after set_config, blob = independent assembly of conf_dict_to_tlv for the most recent configuration "
        "only, equal to a fresh file's, firmware components and other comments unchanged in order, derived comments equal to a "
        "fresh file's and present/absent as the configuration literally says, auth blocks of a file that had none exactly as "
        "expected, one block per kind, update block code/version of the latest configuration that has both.  "
        "non-trivial = every history (distinct by initial file and operation list)")


# ---------------------------------------------------------------------------

def replay(ctx, data):
    fx = Fixture(ctx.rng)
    rc = 0
    try:
        for f in data.get("fails", []):
            d = f["data"]
            ops = [tuple(o) for o in d["ops"]]
            init = INITS[d["init"]]
            print("history:", ops)
            print("initial file:", init)
            print("reported:", f["detail"])
            allowed = all(op_allowed(o) for o in ops)
            outs, viol = run_history(fx, init, ops, check=allowed)
            for n, (o, (sv, err)) in enumerate(zip(ops, outs)):
                print(" %d %-28s -> %s" % (n, o, "raised " + err if err else "ok"))
                print("     components:", [(dict(c[0]), c[1].hex(), c[2], c[3]) for c in sv[0]])
                print("     comments:  ", sv[1])
                print("     auth:      ", sv[2])
            for n, v in viol:
                print(" implementation violates the predicate after operation %d: %s" % (n, "; ".join(v)))
                rc = 1
            s0 = state_view(fx.new_file(init))
            print(" model:", coq_show("C11", IMPORTS, "tr %s %s" % (qlist([q_op(o) for o in ops], "op"), q_state(s0)),
                                      preamble=oracle_preamble())[-3000:])
        for b in data.get("broken", []):
            print("broken:", b["what"])
            print(str(b.get("detail"))[:1500])
    finally:
        fx.close()
    return rc
