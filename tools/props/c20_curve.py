"""C20 helper: shared PointJacobi objects under every line-level preemption point.

Thread A runs an operation that lazily builds the generator's multiplication
table (`_maybe_precompute`) or rescales a shared point in place (`scale`).  At one
chosen traced line event of those methods (sys.settrace) thread B's *complete*
operations are executed on the same objects, then A resumes.  Because B's
operations are complete, they can be run inside A's trace callback (tracing is off
inside the callback), which is exactly the schedule "A is preempted before this
line, B runs, A continues".  Every point gets fresh objects.

All results are compared with the results of the same operations on private,
never-shared objects run one after another."""
import sys


def ec():
    from register_crypto_plugin.ecdsa import ellipticcurve
    return ellipticcurve


def lowlevel():
    from register_crypto_plugin.ecdsa import ecdsa
    return ecdsa


CURVES = {
    # name: (p, a, b, Gx, Gy, n) ; P-256 is filled in from curves.NIST256p
    "p211": (211, 0, 207, 1, 29, 241),
    "p2003": (2003, 2000, 1, 0, 1, 2039),
    "p23h4": (23, 1, 1, 13, 7, 7),
}


def curve_params(name):
    if name == "P-256":
        from register_crypto_plugin.ecdsa import curves
        g = curves.NIST256p.generator
        c = g.curve()
        return (int(c.p()), int(c.a()), int(c.b()), int(g.x()), int(g.y()), int(g.order()))
    return CURVES[name]


def aff(pt):
    """canonical affine value of a PointJacobi / Point / INFINITY.  Coordinates are
    reduced mod p: `(-P).y()` returns the unreduced -y when P happens to have Z == 1
    and the reduced value otherwise, which already depends on the *sequential*
    history of the object and is not what this property is about."""
    E = ec()
    if pt is E.INFINITY or pt == E.INFINITY:
        return None
    p = int(pt.curve().p())
    return (int(pt.x()) % p, int(pt.y()) % p)


class World(object):
    """fresh objects for one schedule: generator G (table empty), public point Q in a
    Jacobian representation with Z != 1, a key pair and a signature"""

    def __init__(self, cname, params):
        E = ec()
        p, a, b, gx, gy, n = curve_params(cname)
        self.p, self.n = p, n
        self.curve = E.CurveFp(p, a, b)
        self.G = E.PointJacobi(self.curve, gx, gy, 1, n, generator=True)
        d, z, k, h = params["d"], params["z"], params["k"], params["h"]
        ref = E.PointJacobi(self.curve, gx, gy, 1, n, generator=False)
        qa = aff(ref * d)
        self.qa = qa
        self.Q = E.PointJacobi(self.curve, qa[0] * z * z % p, qa[1] * z * z * z % p, z, n)
        self.Qcopy = E.PointJacobi(self.curve, qa[0], qa[1], 1, n)
        self.Gcopy = E.PointJacobi(self.curve, gx * 4 % p, gy * 8 % p, 2, n)
        L = lowlevel()
        # the key object gets its OWN point object with the same coordinates (Z != 1): constructing a Public_key already
        # reads the point, and Q must reach the scenarios untouched (cold caches, never scaled) - wave-10 seed C20_15
        self.Qv = E.PointJacobi(self.curve, qa[0] * z * z % p, qa[1] * z * z * z % p, z, n)
        self.pub = L.Public_key(self.G, self.Qv, verify=False)
        self.h = h
        # signature computed with private arithmetic (no shared object touched)
        from register_crypto_plugin.ecdsa import numbertheory
        r = aff(ref * k)[0] % n
        s = numbertheory.inverse_mod(k, n) * (h + d * r) % n
        self.sig = L.Signature(r, s)
        self.sig_ok = (r != 0 and s != 0)
        self.ks = params["ks"]
        self.ab = params["ab"]



class EdWorld(object):
    """the same for a twisted Edwards generator (Ed25519 / Ed448): fresh generator G with an empty table, a point Q
    in extended coordinates with Z != 1"""
    kind = "edwards"

    def __init__(self, cname, params):
        E = ec()
        from register_crypto_plugin.ecdsa import eddsa
        g0 = {"Ed25519": eddsa.generator_ed25519, "Ed448": eddsa.generator_ed448}[cname]
        self.curve = g0.curve()
        p = int(self.curve.p())
        gx, gy, n = int(g0.x()), int(g0.y()), int(g0.order())
        self.p, self.n = p, n
        self.cls = E.PointEdwards
        self.G = E.PointEdwards(self.curve, gx, gy, 1, gx * gy % p, n, generator=True)
        ref = E.PointEdwards(self.curve, gx, gy, 1, gx * gy % p, n)
        d, z = params["d"], params["z"] % p or 2
        q = ref * d
        qx, qy = int(q.x()), int(q.y())
        self.Q = E.PointEdwards(self.curve, qx * z % p, qy * z % p, z, qx * qy * z % p, n)
        self.Qcopy = E.PointEdwards(self.curve, qx, qy, 1, qx * qy % p, n)
        self.Gcopy = E.PointEdwards(self.curve, gx * 2 % p, gy * 2 % p, 2, gx * gy * 2 % p, n)
        self.ks = params["ks"]
        self.ab = params["ab"]
        self.sig_ok = True


def make_world(cname, params):
    return EdWorld(cname, params) if cname in ("Ed25519", "Ed448") else World(cname, params)


def ed_order(cname):
    from register_crypto_plugin.ecdsa import eddsa
    return int({"Ed25519": eddsa.generator_ed25519, "Ed448": eddsa.generator_ed448}[cname].order())


def ed_b_ops(w):
    E = ec()
    ops = []
    for k in w.ks:
        ops.append(("%d*G" % k, lambda k=k: aff(w.G * k)))
    ops += [
        ("G.x()", lambda: int(w.G.x())),
        ("G.y()", lambda: int(w.G.y())),
        ("G==copy", lambda: w.G == w.Gcopy),
        ("G==INF", lambda: w.G == E.INFINITY),
        ("Q.x()", lambda: int(w.Q.x())),
        ("Q.y()", lambda: int(w.Q.y())),
        ("Q==copy", lambda: w.Q == w.Qcopy),
        ("Q!=G", lambda: w.Q != w.G),
        ("%d*Q" % w.ks[4], lambda: aff(w.Q * w.ks[4])),
        ("Q+G", lambda: aff(w.Q + w.G)),
        ("G+Q", lambda: aff(w.G + w.Q)),
        ("Q.double()", lambda: aff(w.Q.double())),
        ("G.double()", lambda: aff(w.G.double())),
        ("Q.scale()", lambda: aff(w.Q.scale())),
        ("Q.to_bytes()", lambda: bytes(w.Q.to_bytes())),
    ]
    return ops

def gen_params(rng, cname):
    if cname in ("Ed25519", "Ed448"):
        n = ed_order(cname)
        return {"d": rng.randrange(2, n), "z": rng.randrange(2, 1 << 200), "k": 0, "h": 0,
                "ks": [2, 3, n - 1, n + 1, rng.randrange(2, n), rng.randrange(n, 2 * n)],
                "ab": (rng.randrange(1, n), rng.randrange(1, n))}
    p, a, b, gx, gy, n = curve_params(cname)
    while True:
        d = rng.randrange(2, n)
        k = rng.randrange(2, n)
        h = rng.randrange(1, n)
        z = rng.randrange(2, p)
        ks = [2, 3, n - 1, n + 1, rng.randrange(2, n), rng.randrange(n, 2 * n)]
        ab = (rng.randrange(1, n), rng.randrange(1, n))
        params = {"d": d, "z": z, "k": k, "h": h, "ks": ks, "ab": ab}
        w = World(cname, params)
        if w.sig_ok:
            return params


def b_ops(w):
    """complete operations of the second thread, on the shared G and Q of world w"""
    if getattr(w, "kind", "") == "edwards":
        return ed_b_ops(w)
    E = ec()
    ops = []
    for k in w.ks:
        ops.append(("%d*G" % k, lambda k=k: aff(w.G * k)))
    ops += [
        ("G.x()", lambda: int(w.G.x())),
        ("G.y()", lambda: int(w.G.y())),
        ("G==copy", lambda: w.G == w.Gcopy),
        ("G==INF", lambda: w.G == E.INFINITY),
        ("G.to_affine()", lambda: aff(w.G.to_affine())),
        ("Q.x()", lambda: int(w.Q.x())),
        ("Q.y()", lambda: int(w.Q.y())),
        ("Q==copy", lambda: w.Q == w.Qcopy),
        ("Q!=G", lambda: w.Q != w.G),
        ("Q.to_affine()", lambda: aff(w.Q.to_affine())),
        ("%d*Q" % w.ks[4], lambda: aff(w.Q * w.ks[4])),
        ("G.mul_add(a,Q,b)", lambda: aff(w.G.mul_add(w.ab[0], w.Q, w.ab[1]))),
        ("Q.mul_add(a,G,b)", lambda: aff(w.Q.mul_add(w.ab[0], w.G, w.ab[1]))),
        ("verify", lambda: w.pub.verifies(w.h, w.sig)),
        ("verify-bad", lambda: w.pub.verifies((w.h + 1) % w.n, w.sig)),
        ("-Q", lambda: aff(-w.Q)),
        ("Q+G", lambda: aff(w.Q + w.G)),
        ("Q.double()", lambda: aff(w.Q.double())),
    ]
    return ops


SCENARIOS = {
    # name: (operation of thread A, methods whose lines are preemption points)
    "table": (lambda w: aff(w.G * w.ks[5]), ("_maybe_precompute",)),
    "scale": (lambda w: aff(w.Q.scale()), ("scale",)),
    "to_affine": (lambda w: aff(w.Q.to_affine()), ("scale", "to_affine")),
    "verify": (lambda w: w.pub.verifies(w.h, w.sig), ("_maybe_precompute", "scale", "mul_add", "__mul__")),
    # twisted Edwards generators (Ed25519 / Ed448)
    "ed-table": (lambda w: aff(w.G * w.ks[5]), ("_maybe_precompute",)),
    "ed-scale": (lambda w: aff(w.Q.scale()), ("scale",)),
    "ed-mul": (lambda w: aff(w.G * w.ks[4]), ("_maybe_precompute", "__mul__", "_mul_precompute", "scale")),
}


def _call(f):
    """result of one operation; an exception is a result too (e.g. the library's
    Public_key.verifies raises TypeError when u1*G + u2*Q is the point at infinity,
    which happens on the 7-element group also in a purely sequential run)"""
    try:
        return f()
    except Exception as e:   # noqa
        return "EXC %s: %s" % (type(e).__name__, e)


def run_schedule(cname, params, scenario, point, deep=False, rotate=0):
    """Runs thread A's operation with thread B's operations injected at line event
    number `point` (None: no injection, just count the points).
    Returns (npoints, a_result, b_results, where)"""
    E = ec()
    w = make_world(cname, params)
    op_a, methods = SCENARIOS[scenario]
    codes = set()
    for m in methods:
        codes.add(getattr(getattr(w, "cls", E.PointJacobi), m).__code__)
    shared = (w.G, w.Q) + ((w.Qv,) if getattr(w, "Qv", None) is not None else ())
    efile = E.__file__
    counter = [0]
    results = []
    where = [None]
    depth = [0]

    def inject(frame, label):
        if counter[0] == point:
            where[0] = "%s:%d%s" % (frame.f_code.co_name, frame.f_lineno, label)
            ops = b_ops(w)
            r = rotate % len(ops)
            for name, f in ops[r:] + ops[:r]:
                results.append((name, _call(f)))
        counter[0] += 1

    def local_target(frame, event, arg):
        if event == "line":
            inject(frame, "")
        elif event == "return":
            inject(frame, " (return)")
            depth[0] -= 1
        return local_target

    def local_nested(frame, event, arg):
        if event == "line":
            inject(frame, " (nested)")
        return local_nested

    def glob(frame, event, arg):
        if event != "call":
            return None
        if frame.f_code in codes and any(frame.f_locals.get("self") is s for s in shared):
            depth[0] += 1
            return local_target
        if deep and depth[0] > 0 and frame.f_code.co_filename == efile:
            return local_nested
        return None

    old = sys.gettrace()
    sys.settrace(glob)
    try:
        a_res = _call(lambda: op_a(w))
    finally:
        sys.settrace(old)
    if point is not None:
        # the state both threads leave behind: the same operations once more on the shared objects, after both are done
        for name, f in b_ops(w):
            results.append(("after:" + name, _call(f)))
    return counter[0], a_res, results, where[0]


def expected(cname, params, scenario):
    """the same operations on private objects, one after another"""
    w = make_world(cname, params)
    op_a, _ = SCENARIOS[scenario]
    exp_b = {}
    for name, f in b_ops(make_world(cname, params)):
        exp_b[name] = _call(f)
    # results must not depend on the order either: check once with a shared world, sequentially
    w2 = make_world(cname, params)
    for name, f in b_ops(w2):
        v = _call(f)
        if v != exp_b[name]:
            exp_b[name] = ("ORDER-DEPENDENT", exp_b[name], v)
    return _call(lambda: op_a(w)), exp_b


def check_point(cname, params, scenario, point, exp, deep=False, rotate=0):
    """-> list of (op name, expected, actual, where) mismatches"""
    n, a_res, b_res, where = run_schedule(cname, params, scenario, point, deep, rotate)
    exp_a, exp_b = exp
    bad = []
    if a_res != exp_a:
        bad.append(("A:" + scenario, exp_a, a_res, where))
    for name, v in b_res:
        want = exp_b[name[6:] if name.startswith("after:") else name]
        if v != want:
            bad.append((name, want, v, where))
    return bad
