"""C07 - One fresh session key per file, wrapped identically by every auth block.
Tie: Model/Bec2.v (same model as C02) + correspondence over operation histories and
spliced headers under the toy plug-ins; search on the real implementation with
RECORDING plug-ins registered through the library's own register_* API (no source
hook): draws of random_bytes / PrivateEccKey.generate are counted and collected."""
import io
import itertools

from vlib import qN, qbytes, qlist, qopt, qres, qbool, run_impl
from props import toycipher, toyecc
from props import bf3common as B
from props import bec2common as C
from props.C02 import parse_header

GEN_DEPS = ("Consts.v", "gen_consts", "Crc.v", "gen_crc", "AesFrame.v", "gen_aesframe")
MODEL_TARGETS = ["Model/Bec2.vo", "Model/Bec2Eq.vo", "Model/Bf3Eq.vo", "Model/Cbc.vo"]
IMPORTS = C.IMPORTS


def binary_of(text):
    lines = text.split("\n")
    return bytes.fromhex("".join(lines[lines.index("") + 1:]))


def ser_header(tlvs):
    out = b"BEC2\0"
    for t, v in tlvs:
        out += bytes([t, len(v)]) + v
    return out + b"\0\0"


def correspondence(ctx):
    from bec2format.bec2file import Bec2File
    r = ctx.rng
    exprs, descr = [], []
    C.SHA.clear()
    n = ctx.budget(60, 1200) * (4 if ctx.brokens else 1)
    with toycipher.registered(), C.sha_recording(), toyecc.registered() as (ToyPub, ToyPriv):
        for i in range(n):
            # history: create (with or without key) -> write -> read with a subset -> write again -> read
            cm, comps = B.gen_file(r, enc_prob=0.2, max_comps=2)
            blocks, encs, decs = C.gen_setup(r)
            key = r.choice([C.gen_key(r), None])
            sub = [d for d in decs if r.random() < 0.6] or decs[:1]
            toyecc.reset()

            key2 = C.gen_key(r)

            def history():
                # the SAME encryptor objects and the SAME block objects are used for every write
                eobjs = [C.mk_encryptor(e, ToyPub, ToyPriv) for e in encs]
                bobjs = [C.mk_block(x) for x in blocks]
                b = Bec2File(B.build(cm, comps), bobjs, key)
                s = io.StringIO()
                b.write_file(s, eobjs)
                t1 = s.getvalue()
                g = Bec2File.read_file(io.StringIO(t1), [C.mk_encryptor(e, ToyPub, ToyPriv) for e in sub], True)
                s2 = io.StringIO()
                g.write_file(s2, eobjs)
                s3 = io.StringIO()
                b.write_file(s3, eobjs)                       # same object written again
                s4 = io.StringIO()
                Bec2File(B.build(cm, comps), bobjs, key2).write_file(s4, eobjs)   # same blocks, other key
                b.session_key = key2                          # the SAME object, key changed between writes
                s5 = io.StringIO()
                b.write_file(s5, eobjs)
                return t1, s2.getvalue(), s3.getvalue(), s4.getvalue(), s5.getvalue()
            h = run_impl(history)
            nk, nr = toyecc.STATE["nk"], toyecc.STATE["nr"]
            qf = B.qfile_new(cm, comps)
            qb = qlist([C.q_block(b) for b in blocks], "authblock")
            qe = qlist([C.q_encryptor(e) for e in encs], "encryptor")
            qs = qlist([C.q_encryptor(e) for e in sub], "encryptor")
            qkey = "None" if key is None else "(Some %s)" % qbytes(key)
            model = ("(let (b, nr) := t_new %s %s %s 0 in "
                     "let* (t1, nk) := t_write b %s 0 in "
                     "let* (g, nr) := t_read t1 %s true nr in "
                     "let* (t2, nk) := t_write g %s nk in "
                     "let* (t3, nk) := t_write b %s nk in "
                     "let (b2, nr) := t_new %s %s (Some %s) nr in "
                     "let* (t4, nk) := t_write b2 %s nk in "
                     "let* (t5, nk) := t_write (mkBec2 (b_bf3 b) (b_blocks b) %s) %s nk in "
                     "Ok ([t1; t2; t3; t4; t5], nk, nr))" % (
                         qf, qb, qkey, qe, qs, qe, qe, qf, qb, qbytes(key2), qe, qbytes(key2), qe))
            want = qres(h, lambda v: "(%s, %s, %s)" % (qlist([B.qstr(x) for x in v], "str"), qN(nk), qN(nr)))
            exprs.append("res_eqb (prod_eqb (prod_eqb (list_eqb str_eqb) N.eqb) N.eqb) %s %s" % (model, want))
            descr.append(("history", cm, comps, blocks, key, encs, sub))
            ctx.case(("h", repr(cm), repr(comps), repr(blocks), key, repr(encs), repr(sub)))
            ctx.dist["history->" + ("ok" if h[0] == "ok" else h[1])] += 1
            if i == 1 and h[0] == "ok":
                ctx.sample({"history": "create;write;read(subset);write", "blocks": repr(blocks), "draws": [nk, nr]})
            # spliced header: block of kind X under key A + block of kind Y under key B
            if h[0] == "ok" and len(blocks) >= 1:
                toyecc.reset()
                keyB = C.gen_key(r)

                def other():
                    b = Bec2File(B.build(cm, comps), [C.mk_block(x) for x in blocks], keyB)
                    s = io.StringIO()
                    b.write_file(s, [C.mk_encryptor(e, ToyPub, ToyPriv) for e in encs])
                    return s.getvalue()
                o = run_impl(other)
                if o[0] == "ok":
                    binA, binB = binary_of(h[1][0]), binary_of(o[1])
                    hA, offA = parse_header(binA)
                    hB, _ = parse_header(binB)
                    j = r.randrange(len(hA))
                    spl = list(hA) + [hB[j]] if r.random() < 0.5 else [hB[j]] + list(hA)
                    # same total header length is not needed: addresses are absolute, so re-use is only
                    # meaningful for the rejection path; the reader must fail before or at the directory
                    newbin = ser_header(spl) + binA[offA:]
                    text = B.text_of_binary(cm, newbin)
                    toyecc.reset()
                    chk = r.random() < 0.6           # the key rule does not depend on the MAC option
                    rd = C.impl_bec2_read(text, decs, chk, ToyPub, ToyPriv)
                    nr2 = toyecc.STATE["nr"]
                    qd = qlist([C.q_encryptor(e) for e in decs], "encryptor")
                    exprs.append("res_eqb (prod_eqb bec2_eqb N.eqb) (t_read %s %s %s 0) %s" % (
                        B.qstr(text), qd, "true" if chk else "false",
                        qres(rd, lambda ob: "(%s, %s)" % (C.q_bec2_obj(ob), qN(nr2)))))
                    descr.append(("spliced", text, decs))
                    ctx.case(("sp", text, repr(decs)))
                    ctx.dist["spliced->" + ("ok" if rd[0] == "ok" else rd[1])] += 1
    bad = ctx.coq_eval("c07", IMPORTS, exprs, preamble=C.preamble(), shard=60)
    if bad is None:
        return
    ctx.traces += len(exprs)
    for i in bad[:10]:
        ctx.broken("correspondence: Model.Bec2 differs from the implementation on %s" % descr[i][0],
                   repr(descr[i])[:1800])


def search(ctx):
    import bec2format
    import register_crypto_plugin as plug
    from bec2format.bec2file import (Bec2File, SoftwareCustKeyEncryptor, EccEncryptor, EccDecryptor,
                                     ConfigSecurityCodeEncryptor, InitCustKeyAuthBlock, InitEccAuthBlock,
                                     UpdateAuthBlock)
    from bec2format.error import Bec2FileFormatError
    r = ctx.rng
    rec = {"rand": [], "gen": []}

    def rnd(n):
        v = plug.random_bytes(n)
        rec["rand"].append((n, v))
        return v

    class RecPriv(plug.PrivateEccKeyProxy):
        @classmethod
        def generate(cls):
            k = super().generate()
            rec["gen"].append(k.public_key.to_der_fmt())
            return k
    bec2format.register_random_bytes(rnd)
    bec2format.register_PrivateEccKey(RecPriv)
    try:
        rcp = RecPriv.generate()
        rec["gen"].clear()
        ckey = bytes(r.randrange(256) for _ in range(16))
        code = bytes(r.randrange(256) for _ in range(8))
        kinds_all = ["custkey", "ecc", "update"]

        # long-lived objects, as an application would keep them: the same auth-block objects and the
        # same encryptor objects serve many files and many writes
        shared_blocks = {"custkey": InitCustKeyAuthBlock(), "ecc": InitEccAuthBlock(1), "update": UpdateAuthBlock(code, 3)}
        shared_encs = {"custkey": SoftwareCustKeyEncryptor(ckey), "ecc": EccEncryptor(1, rcp.public_key)}

        def blocks_of(kinds, sel=1, ver=3):
            if sel == 1 and ver == 3 and r.random() < 0.7:
                return [shared_blocks[k] for k in kinds]
            return [{"custkey": InitCustKeyAuthBlock(), "ecc": InitEccAuthBlock(sel),
                     "update": UpdateAuthBlock(code, ver)}[k] for k in kinds]

        cust = bytes(r.randrange(1, 256) for _ in range(10))      # a customer key in the only legal slot (0) of the block payload
        other_rcp = RecPriv.generate()
        rec["gen"].clear()

        def encs_of(kinds, sel=1):
            out = []
            if "custkey" in kinds:
                x = r.random()
                out.append(shared_encs["custkey"] if x < 0.5 else SoftwareCustKeyEncryptor(ckey) if x < 0.7
                           else SoftwareCustKeyEncryptor(ckey, cust, 0))
            if "ecc" in kinds:
                if r.random() < 0.4:
                    # ECC recipients of OTHER selectors listed first (encryptors and decryptors): the block of selector
                    # `sel` must still be wrapped for its own recipient
                    for o in r.sample([x for x in range(4) if x != sel], r.randrange(1, 3)):
                        out.append(EccEncryptor(o, other_rcp.public_key) if r.random() < 0.5 else EccDecryptor(o, other_rcp))
                out.append(shared_encs["ecc"] if sel == 1 and r.random() < 0.7 else EccEncryptor(sel, rcp.public_key))
            return out

        def decs_of(kinds, sel=1):
            out = []
            if "custkey" in kinds:
                # with or without the customer key: a reader that does not know it sees the slot as written, the session
                # key behind it is the same
                out.append(SoftwareCustKeyEncryptor(ckey))
            if "ecc" in kinds:
                out.append(EccDecryptor(sel, rcp))
            if "update" in kinds:
                out.append(ConfigSecurityCodeEncryptor(code))
            return out
        # (1) histories of creations / repeated writes: draws and same key in every block
        seen_keys, seen_eph = set(), set()
        nhist = ctx.budget(10, 150) * (3 if ctx.brokens else 1)
        for _ in range(nhist):
            ops = [r.choice(["create", "create_key", "write", "write"]) for _ in range(r.randrange(1, 13))]
            cur = None
            for op in ops:
                ctx.case(("op", op, len(seen_keys), len(seen_eph)))
                if op in ("create", "create_key") or cur is None:
                    kinds = r.sample(kinds_all, r.randrange(1, 4))
                    cm, comps = B.gen_file(r, enc_prob=0.3, max_comps=1)
                    n0 = len(rec["rand"])
                    given = C.gen_key(r) if op == "create_key" else None
                    cur = (Bec2File(B.build(cm, comps), blocks_of(kinds), given), kinds)
                    drawn = rec["rand"][n0:]
                    if given is None:
                        if len(drawn) != 1 or drawn[0][0] != 16 or cur[0].session_key != drawn[0][1]:
                            ctx.fail("key-draw", {"op": op, "draws": len(drawn)}, "key-less creation must draw exactly one 16-byte key")
                        if cur[0].session_key in seen_keys:
                            ctx.fail("key-reused", {"op": op}, "a drawn session key was used for two files")
                        seen_keys.add(cur[0].session_key)
                    elif drawn or cur[0].session_key != given:
                        ctx.fail("key-draw", {"op": op, "draws": len(drawn)}, "creation with a key must not draw / must keep the key")
                else:
                    b, kinds = cur
                    g0, n0 = len(rec["gen"]), len(rec["rand"])
                    s = io.StringIO()
                    b.write_file(s, encs_of(kinds))
                    gens = rec["gen"][g0:]
                    want = 1 if "ecc" in kinds else 0
                    if len(gens) != want or len(rec["rand"]) != n0:
                        ctx.fail("ephemeral-draw", {"kinds": kinds, "generated": len(gens)},
                                 "every ECC pack must generate exactly one ephemeral key pair (and no session key)")
                    binary = binary_of(s.getvalue())
                    hdr, _ = parse_header(binary)
                    for t, raw in hdr:
                        if t == 3:
                            eph = raw[2:66]
                            if gens and plug.PublicEccKeyProxy.create_from_der_fmt(gens[0]).to_raw_bin_fmt() != eph:
                                ctx.fail("ephemeral-not-fresh", {"kinds": kinds}, "ephemeral point in the block is not the generated one")
                            if eph in seen_eph:
                                ctx.fail("ephemeral-reused", {"kinds": kinds}, "ephemeral key reused")
                            seen_eph.add(eph)
                        # every block unwraps (by itself) to the object's session key
                        cls = {1: InitCustKeyAuthBlock, 3: InitEccAuthBlock, 2: UpdateAuthBlock}[t]
                        u = run_impl(cls.unpack, raw, decs_of(kinds))
                        if u[0] != "ok" or u[1][1] != b.session_key:
                            ctx.fail("block-key-differs", {"tag": t, "kinds": kinds}, repr(u)[:200])
                    # ... and that key authenticates the directory
                    g = run_impl(Bec2File.read_file, io.StringIO(s.getvalue()), decs_of(kinds), True)
                    if g[0] != "ok" or g[1].session_key != b.session_key:
                        ctx.fail("directory-key-differs", {"kinds": kinds}, repr(g)[:200])
        # (2) spliced headers: all ordered pairs of kinds, differing keys
        for kx, ky in itertools.permutations(kinds_all, 2):
            for _ in range(ctx.budget(2, 20)):
                cm, comps = B.gen_file(r, enc_prob=0.0, max_comps=1)
                kA, kB = C.gen_key(r), C.gen_key(r)
                if kA == kB:
                    continue
                if r.random() < 0.5:
                    kB = kA[:15] + bytes([kA[15] ^ 1])        # differ in one bit only
                sA, sB = io.StringIO(), io.StringIO()
                Bec2File(B.build(cm, comps), blocks_of([kx]), kA).write_file(sA, encs_of([kx]))
                Bec2File(B.build(cm, comps), blocks_of([ky]), kB).write_file(sB, encs_of([ky]))
                binA, binB = binary_of(sA.getvalue()), binary_of(sB.getvalue())
                hA, offA = parse_header(binA)
                hB, _ = parse_header(binB)
                # rebuild file A's body at the new header length so that only the key rule is broken
                hdr = ser_header(hA + hB)
                body = B.build(cm, comps).to_binary(len(hdr), kA)
                text = B.text_of_binary(cm, hdr + body)
                ctx.case(("splice", kx, ky, kA, kB))
                for chk in (True, False):             # with and without the MAC option
                    g = run_impl(Bec2File.read_file, io.StringIO(text), decs_of([kx, ky]), chk)
                    if g != ("err", "EBec2"):
                        ctx.fail("mixed-keys-accepted", {"kinds": [kx, ky], "keyA": kA, "keyB": kB, "check_cmac": chk},
                                 repr(g)[:200])
                # control: with only the first decryptor the spliced file is fine (second block passes through)
                g2 = run_impl(Bec2File.read_file, io.StringIO(text), decs_of([kx]), True)
                if g2[0] != "ok":
                    ctx.fail("splice-control", {"kinds": [kx, ky]}, repr(g2)[:200])
        # (2b) a file none of whose blocks can be opened (no decryptors, or decryptors for other keys / selectors) has no
        #      session key to give: reading is an error, with MAC checking on and off - never a made-up key
        for _ in range(ctx.budget(6, 60)):
            kinds = r.sample(kinds_all, r.randrange(1, 4))
            cm, comps = B.gen_file(r, enc_prob=0.3, max_comps=1)
            fobj = Bec2File(B.build(cm, comps), blocks_of(kinds), C.gen_key(r))
            s = io.StringIO()
            fobj.write_file(s, encs_of(kinds))
            wrong = [[], [SoftwareCustKeyEncryptor(bytes(r.randrange(256) for _ in range(16)))],
                     [EccDecryptor(2, other_rcp)], [ConfigSecurityCodeEncryptor(b"87654321")]]
            for decs in wrong:
                for check in (True, False):
                    ctx.case(("no-block-opens", tuple(kinds), len(decs), check))
                    g = run_impl(Bec2File.read_file, io.StringIO(s.getvalue()), decs, check)
                    if g[0] == "ok":
                        ctx.fail("key-without-block", {"kinds": kinds, "decryptors": [type(x).__name__ for x in decs], "check_cmac": check},
                                 "read_file returned a file with session key %r although no block could be opened"
                                 % (getattr(g[1], "session_key", None),))
        # (3) pass-through over repeated read/write cycles
        for _ in range(ctx.budget(8, 100)):
            kinds = r.sample(kinds_all, r.randrange(2, 4))
            cm, comps = B.gen_file(r, enc_prob=0.2, max_comps=1)
            from bec2format.bec2file import UnknownAuthBlock
            blks = blocks_of(kinds)
            unknown = {}
            if r.random() < 0.6:
                # blocks with a tag the library does not know (no decryptor can exist for them): kept as they are
                for _u in range(r.choice([1, 1, 2])):
                    t = r.choice([4, 5, 7, 0x7F, 0xFE, 0xFF])
                    unknown[t] = bytes(r.randrange(256) for _ in range(r.choice([0, 1, 16, 82, 200])))
                for t, v in unknown.items():
                    blks.insert(r.randrange(len(blks) + 1), UnknownAuthBlock(t, v))
            b = Bec2File(B.build(cm, comps), blks, C.gen_key(r))
            s = io.StringIO()
            b.write_file(s, encs_of(kinds))
            text = s.getvalue()
            opened = r.sample(kinds, r.randrange(1, len(kinds)))
            orig = dict(parse_header(binary_of(text))[0])
            tagof = {"custkey": 1, "ecc": 3, "update": 2}
            ctx.case(("pass", tuple(kinds), tuple(opened), text))
            for t, v in unknown.items():
                if orig.get(t) != v:
                    ctx.fail("passthrough-changed", {"kinds": kinds, "unknown_tags": sorted(unknown), "cycle": -1},
                             "unknown block %d not written as given" % t)
            for cyc in range(3):
                gr = run_impl(Bec2File.read_file, io.StringIO(text), decs_of(opened), True)
                if gr[0] != "ok":
                    ctx.fail("passthrough-changed", {"kinds": kinds, "opened": opened, "unknown_tags": sorted(unknown), "cycle": cyc},
                             "a file with openable blocks %r (and unknown blocks %r) cannot be read: %r" % (opened, sorted(unknown), gr))
                    break
                g = gr[1]
                s = io.StringIO()
                g.write_file(s, encs_of(opened))
                text = s.getvalue()
                now = dict(parse_header(binary_of(text))[0])
                for t, v in unknown.items():
                    if now.get(t) != v:
                        ctx.fail("passthrough-changed", {"kinds": kinds, "opened": opened, "unknown_tags": sorted(unknown), "cycle": cyc},
                                 "unknown block %d not kept byte for byte" % t)
                for k in kinds:
                    if k not in opened and now.get(tagof[k]) != orig[tagof[k]]:
                        ctx.fail("passthrough-changed", {"kinds": kinds, "opened": opened, "cycle": cyc},
                                 "block %s not kept byte for byte" % k)
                if list(now) != list(orig):
                    ctx.fail("passthrough-order", {"kinds": kinds, "opened": opened, "cycle": cyc}, "%r vs %r" % (list(now), list(orig)))
    finally:
        bec2format.register_random_bytes(plug.random_bytes)
        bec2format.register_PrivateEccKey(plug.PrivateEccKeyProxy)
    ctx.extra["rule"] = ("correspondence (toy plug-ins): histories create(key?);write;read(decryptor subset);write with oracle draw "
                         "counters, spliced headers; search (real plug-ins behind recording wrappers registered via register_*): "
                         "histories of 1..12 creations/writes (one 16-byte draw per key-less creation, one key generation per ECC pack, "
                         "no reuse), each block unwrapped alone gives the object's key which also authenticates the directory, spliced "
                         "headers for all ordered pairs of kinds with differing keys are rejected, unopened blocks unchanged over 3 cycles")
    ctx.extra["partial"] = "quality of os.urandom / SigningKey.generate randomness is outside the model"


def replay(ctx, data):
    """the search is deterministic in the seed: it is run again on /repo as it is now (with the enlarged budget if a
    proof or correspondence had broken in the recorded run) and the kinds of failing input are compared"""
    import vlib
    for f in data.get("fails", []):
        print("recorded:", f["kind"], f["detail"][:300], f["data"])
    for b in data.get("broken", []):
        print("recorded broken:", b["what"])
    if not data.get("fails"):
        return 0
    c2 = vlib.Ctx("C07", ctx.tier, data.get("seed", 1))
    c2.brokens = list(data.get("broken", []))
    search(c2)
    want = sorted(set(f["kind"] for f in data["fails"]))
    again = sorted(set(f["kind"] for f in c2.fails))
    for f in c2.fails[:6]:
        print("now:", f["kind"], f["detail"][:300])
    print("recorded kinds of failing input:", want, " found again now:", again)
    return 1 if set(want) & set(again) else 0
