"""C02 - BEC2 write-then-read recovers key, auth blocks and content for every key.
Tie: hand model coq/Model/Bec2.v on top of Model/Bf3.v and Model/AesContainer.v;
correspondence with the cipher and the ECC plug-in factored out (toy cipher / toy
ECC registered through the library's register_* API); search: the round-trip
predicate on the real implementation with the real plug-ins (pyaes, ecdsa P-256)."""
import io

from vlib import qN, qbytes, qlist, qopt, qres, qbool, run_impl
from props import toycipher, toyecc
from props import bf3common as B
from props import bec2common as C

GEN_DEPS = ("Consts.v", "gen_consts", "Crc.v", "gen_crc", "Pad.v", "gen_pad", "AesFrame.v", "gen_aesframe")
MODEL_TARGETS = ["Model/Bec2.vo", "Model/Bec2Eq.vo", "Model/Bf3Eq.vo", "Model/Cbc.vo", "Model/Aes.vo"]
IMPORTS = C.IMPORTS


def correspondence(ctx):
    r = ctx.rng
    exprs, descr = [], []
    n = ctx.budget(120, 2500) * (4 if ctx.brokens else 1)
    C.SHA.clear()
    with toycipher.registered(), C.sha_recording(), toyecc.registered() as (ToyPub, ToyPriv):
        for i in range(n):
            cm, comps = B.gen_file(r, enc_prob=0.3, max_comps=3)
            blocks, encs, decs = C.gen_setup(r)
            key = r.choice([C.gen_key(r), C.gen_key(r), None, b""])
            toyecc.reset()
            w = C.impl_bec2_write(cm, comps, blocks, key, encs, ToyPub, ToyPriv)
            nk, nr = toyecc.STATE["nk"], toyecc.STATE["nr"]
            qf = B.qfile_new(cm, comps)
            qb = qlist([C.q_block(b) for b in blocks], "authblock")
            qe = qlist([C.q_encryptor(e) for e in encs], "encryptor")
            qkey = "None" if key is None else "(Some %s)" % qbytes(key)
            want = qres(w, lambda t: "(%s, %s)" % (B.qstr(t), qN(nk)))
            exprs.append("res_eqb (prod_eqb str_eqb N.eqb) (let (b, nr) := t_new %s %s %s 0 in "
                         "if nr =? %s then t_write b %s 0 else Err EFuel) %s" % (qf, qb, qkey, qN(nr), qe, want))
            descr.append(("write", cm, comps, blocks, key, encs))
            ctx.case(("w", repr(cm), repr(comps), repr(blocks), key, repr(encs)))
            ctx.dist["blocks=%s" % ",".join(sorted(b[0] for b in blocks))] += 1
            ctx.dist["write->" + ("ok" if w[0] == "ok" else w[1])] += 1
            if w[0] != "ok":
                continue
            text = w[1]
            # read with several decryptor subsets: all, each single one, none, wrong ones
            subsets = [decs] + [[d] for d in decs] + [[]]
            wrong = []
            for d in decs:
                if d[0] == "cust":
                    wrong.append(("cust", bytes(16), d[2], d[3]))
                elif d[0] == "csc":
                    wrong.append(("csc", bytes(8)))
                elif d[0] == "ecc":
                    wrong.append(("ecc", d[1], None, d[3]))        # public-only
                    wrong.append(("ecc", d[1], toyecc.keygen(7), toyecc.pub_of(toyecc.keygen(7))))
            if wrong:
                subsets.append([r.choice(wrong)] + decs)
                subsets.append([r.choice(wrong)])
            for ds in subsets[: (6 if ctx.quick() else 12)]:
                toyecc.reset()
                check = r.random() < 0.85
                rd = C.impl_bec2_read(text, ds, check, ToyPub, ToyPriv)
                nr2 = toyecc.STATE["nr"]
                qd = qlist([C.q_encryptor(e) for e in ds], "encryptor")
                want = qres(rd, lambda o: "(%s, %s)" % (C.q_bec2_obj(o), qN(nr2)))
                exprs.append("res_eqb (prod_eqb bec2_eqb N.eqb) (t_read %s %s %s 0) %s" % (
                    B.qstr(text), qd, qbool(check), want))
                descr.append(("read", text, ds, check))
                ctx.case(("r", text, repr(ds), check))
                ctx.dist["read->" + ("ok" if rd[0] == "ok" else rd[1])] += 1
            if i == 2:
                ctx.sample({"blocks": [list(map(lambda x: x.hex() if isinstance(x, bytes) else x, b)) for b in blocks],
                            "key": key, "text": text[:160]})
    bad = ctx.coq_eval("c02", IMPORTS, exprs, preamble=C.preamble(), shard=100)
    if bad is None:
        return
    ctx.traces += len(exprs)
    for i in bad[:10]:
        ctx.broken("correspondence: Model.Bec2 differs from the implementation on %s" % descr[i][0],
                   repr(descr[i])[:1800])
    correspondence_real_aes(ctx)


AES_COQ = """From Bec2 Require Import Model.Aes.
Definition aes_enc (k : bytes) (iv : option bytes) (d : bytes) := adapter_encrypt aes_E k iv d.
Definition aes_dec (k : bytes) (iv : option bytes) (d : bytes) := adapter_decrypt aes_D k iv d.
Definition aes_mac (k : bytes) (iv : option bytes) (d : bytes) := adapter_mac aes_E k iv d.
Definition a_write := bec2_write_file aes_enc aes_mac sha_oracle toy_pub_of toy_ecdh toy_keygen.
Definition a_read := bec2_read_file aes_dec aes_mac sha_oracle toy_valid_pub toy_ecdh toy_rand16.
"""


def correspondence_real_aes(ctx):
    """BEC2 write/read with the REAL AES plug-in (toy ECC only) against the model over the
    pyaes model of C16"""
    r = ctx.rng
    exprs, descr = [], []
    C.SHA.clear()
    with C.sha_recording(), toyecc.registered() as (ToyPub, ToyPriv):
        for i in range(ctx.budget(12, 200)):
            cm, comps = B.gen_file(r, enc_prob=0.3, max_comps=2)
            comps = [c for c in comps if len(c[1]) <= 200]
            blocks, encs, decs = C.gen_setup(r)
            key = C.gen_key(r)
            toyecc.reset()
            w = C.impl_bec2_write(cm, comps, blocks, key, encs, ToyPub, ToyPriv)
            nk = toyecc.STATE["nk"]
            qf = B.qfile_new(cm, comps)
            qb = qlist([C.q_block(b) for b in blocks], "authblock")
            qe = qlist([C.q_encryptor(e) for e in encs], "encryptor")
            exprs.append("res_eqb (prod_eqb str_eqb N.eqb) (a_write (fst (t_new %s %s (Some %s) 0)) %s 0) %s" % (
                qf, qb, qbytes(key), qe, qres(w, lambda t: "(%s, %s)" % (B.qstr(t), qN(nk)))))
            descr.append(("write[real AES]", cm, comps, blocks, key, encs))
            ctx.case(("aes-w", repr(cm), repr(comps), repr(blocks), key))
            if w[0] == "ok":
                toyecc.reset()
                rd = C.impl_bec2_read(w[1], decs, True, ToyPub, ToyPriv)
                nr = toyecc.STATE["nr"]
                qd = qlist([C.q_encryptor(e) for e in decs], "encryptor")
                exprs.append("res_eqb (prod_eqb bec2_eqb N.eqb) (a_read %s %s true 0) %s" % (
                    B.qstr(w[1]), qd, qres(rd, lambda o: "(%s, %s)" % (C.q_bec2_obj(o), qN(nr)))))
                descr.append(("read[real AES]", w[1], decs))
                ctx.case(("aes-r", w[1], repr(decs)))
    bad = ctx.coq_eval("c02aes", IMPORTS, exprs, preamble=C.preamble() + AES_COQ, shard=6)
    if bad is None:
        return
    ctx.traces += len(exprs)
    ctx.extra["real_aes_correspondence_cases"] = len(exprs)
    for i in bad[:10]:
        ctx.broken("correspondence: Model.Bec2 over the pyaes model differs from the implementation with the real AES plug-in on %s" % descr[i][0],
                   repr(descr[i])[:1500])


# ---- search on the real implementation (real plug-ins) -------------------------

def parse_header(binary):
    """independent TLV parse of the BEC2 header: [(tag, raw)], offset of the body"""
    assert binary[:5] == b"BEC2\0"
    pos, out = 5, []
    while True:
        t, l = binary[pos], binary[pos + 1]
        v = binary[pos + 2:pos + 2 + l]
        pos += 2 + l
        if t == 0 and l == 0:
            return out, pos
        out.append((t, v))


def real_roundtrip(r, cm, comps, blocks, key, mk_enc, mk_dec_sets):
    """returns None or a violation description"""
    from bec2format.bec2file import Bec2File
    from bec2format.bf3file import hex2bin
    f = B.build(cm, comps)
    b = Bec2File(f, [C.mk_block(x) for x in blocks], key)
    s = io.StringIO()
    try:
        b.write_file(s, mk_enc())
    except OverflowError:
        return None
    text = s.getvalue()
    lines = text.split("\n")
    binary = bytes.fromhex("".join(lines[lines.index("") + 1:]))
    hdr, _ = parse_header(binary)
    want_comps = B.file_view(f)[1]
    # the SAME object written again after its session key changed: the second file must carry the new key
    if len(key) == 16:
        key_b = bytes([key[0] ^ 0x5A]) + key[1:]
        b.session_key = key_b
        s2 = io.StringIO()
        b.write_file(s2, mk_enc())
        for decs, opens in mk_dec_sets():
            if not opens:
                continue
            try:
                g2 = Bec2File.read_file(io.StringIO(s2.getvalue()), decs, True)
            except Exception as e:   # noqa
                return "second write of the same object (session key changed in between) is not readable: %s: %s" % (type(e).__name__, e)
            if g2.session_key != key_b:
                return "second write of the same object carries the old session key"
            break
        b.session_key = key
    for decs, opens in mk_dec_sets():
        try:
            g = Bec2File.read_file(io.StringIO(text), decs, True)
        except Exception as e:   # noqa
            if opens:
                return "reader rejected the writer's output with %d usable decryptors: %s: %s" % (opens, type(e).__name__, e)
            continue
        if not opens:
            return "file was read without any matching decryptor"
        if g.session_key != key:
            return "session key differs: %s vs %s" % (g.session_key.hex(), key.hex())
        got = [C.block_view(a) for a in g.auth_blocks.values()]
        tags = [t for t, _ in hdr]
        want_tags = list(dict.fromkeys(C.mk_block(x).tag for x in blocks))
        if tags != want_tags:
            return "auth blocks written in another order than they were added: %r vs %r" % (tags, want_tags)
        if [t for t, _ in g.auth_blocks.items()] != tags:
            return "block tags differ: %r vs %r" % (list(g.auth_blocks), tags)
        for (t, raw), gv, wb in zip(hdr, got, [C.block_view(C.mk_block(x)) for x in sorted(blocks, key=lambda x: tags.index(C.mk_block(x).tag))]):
            if gv[0] == "unknown":
                if gv != ("unknown", t, raw):
                    return "unopened block not kept byte for byte"
            elif gv != wb:
                return "auth block differs: %r vs %r" % (gv, wb)
        gc = B.file_view(g.bf3file)
        if gc[0] != list(cm.items()):
            return "comments differ"
        if len(gc[1]) != len(want_comps):
            return "component count differs"
        for (d1, b1, a1, e1), (d2, b2, a2, e2) in zip(want_comps, gc[1]):
            if d1 != d2 or a1 != a2 or e1 != e2 or b1[:a1] != b2[:a2] or (not e1 and b1 != b2):
                return "component differs: %r vs %r" % ((d1, b1, a1, e1), (d2, b2, a2, e2))
    return None


def search(ctx):
    from bec2format.bec2file import (SoftwareCustKeyEncryptor, EccEncryptor, EccDecryptor,
                                     ConfigSecurityCodeEncryptor)
    from bec2format import generate_private_ecc_key
    from props.C08 import payload_with_crc, crc_fast
    r = ctx.rng
    n = ctx.budget(25, 600) * (3 if ctx.brokens else 1)
    recipients = [generate_private_ecc_key() for _ in range(2)]
    for i in range(n):
        cm, comps = B.gen_file(r, enc_prob=0.3, max_comps=2)
        kinds = r.sample(["custkey", "ecc", "update"], r.choice([1, 2, 3]))
        key = C.gen_key(r)
        cls = i % 6
        ver = r.choice([0, 1, 127, 255, r.randrange(256)])
        if cls in (1, 2, 3) and "update" in kinds or cls in (4, 5) and "custkey" in kinds:
            # keys/versions whose CRC-16 has 00 as low / high / both bytes
            lo, hi = {1: (0, None), 2: (None, 0), 3: (0, 0), 4: (0, None), 5: (0, 0)}[cls]
            if cls in (1, 2, 3):
                p = payload_with_crc(r, 17, lo, hi)
                key, ver = p[:16], p[16]
            else:
                p = payload_with_crc(r, 26, lo, hi)
                key = p[10:]
                # custkey payload is placeholder(10 zero bytes) + key: re-solve with the fixed prefix
                base = crc_fast(bytes(10) + key[:14])
                from props.C08 import TAB
                found = None
                for a in range(256):
                    c1 = (base >> 8) ^ TAB[(base ^ a) & 0xFF]
                    for b_ in range(256):
                        c = (c1 >> 8) ^ TAB[(c1 ^ b_) & 0xFF]
                        if (lo is None or c & 0xFF == lo) and (hi is None or c >> 8 == hi):
                            found = (a, b_)
                            break
                    if found:
                        break
                if found:
                    key = key[:14] + bytes(found)
        ckey = bytes(r.randrange(256) for _ in range(16))
        ck = r.choice([None, bytes(r.randrange(256) for _ in range(10))])
        ckpos = 0     # the only legal slot of an InitCustKeyAuthBlock payload: the 10-byte placeholder
        code = bytes(r.randrange(256) for _ in range(8))
        sel = r.randrange(4)
        rcp = r.choice(recipients)
        blocks = []
        for kd in kinds:
            blocks.append({"custkey": ("custkey",), "ecc": ("ecc", sel), "update": ("update", code, ver)}[kd])
        ctx.dist["search blocks=%s" % ",".join(sorted(kinds))] += 1
        ctx.dist["keyclass=%d" % cls] += 1
        multi = (i % 2 == 1)      # several ECC en/decryptors for other selectors listed first

        def mk_enc():
            out = []
            if "custkey" in kinds:
                out.append(SoftwareCustKeyEncryptor(ckey, ck, ckpos))
            if "ecc" in kinds:
                if multi:
                    out += [EccEncryptor(o, recipients[0].public_key) for o in range(4) if o != sel]
                out.append(EccEncryptor(sel, rcp.public_key))
            return out

        def mk_dec_sets():
            avail = []
            if "custkey" in kinds:
                avail.append(SoftwareCustKeyEncryptor(ckey, ck, ckpos))
            if "ecc" in kinds:
                avail.append(EccDecryptor(sel, rcp))
                if multi:
                    avail = [EccDecryptor(o, recipients[0]) for o in range(4) if o != sel] + avail
            if "update" in kinds:
                avail.append(ConfigSecurityCodeEncryptor(code))
            nd = len([a for a in avail if not (isinstance(a, EccDecryptor) and a.key_selector != sel)])
            sets = [(avail, nd)] + [([a], 1) for a in avail
                                    if not (isinstance(a, EccDecryptor) and a.key_selector != sel)] + [([], 0)]
            return sets
        ctx.case(("s", repr(cm), repr(comps), repr(blocks), key))
        why = real_roundtrip(r, cm, comps, blocks, key, mk_enc, mk_dec_sets)
        if why:
            ctx.fail("bec2-roundtrip", {"blocks": [list(b) for b in blocks], "key": key, "sel": sel, "ver": ver,
                                        "custkey": ck, "ckpos": ckpos, "ncomps": len(comps)}, why)
    ctx.extra["rule"] = ("setups: every non-empty ordered subset of {custkey, ecc, update} (+ unknown blocks), selectors 0..3, versions "
                         "{0,1,127,255,random}, customer key absent / at positions 0,6,16, session keys with zero tails and keys/versions whose "
                         "CRC-16 has 00 as low/high/both bytes, key omitted (random draw) or empty; decryptor subsets: all, each single, none, "
                         "wrong key, public-only; content as C01 plus encrypted components. Correspondence under toy cipher + toy ECC "
                         "(text, draw counters, read-back objects); search with the real plug-ins evaluates the round-trip predicate.")


def replay(ctx, data):
    for f in data.get("fails", []):
        print(f["kind"], f["detail"][:400], f["data"])
    for b in data.get("broken", []):
        print("broken:", b["what"])
    return 1 if data.get("fails") else 0
