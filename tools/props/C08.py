"""C08 - AES auth-block container: exact framing, exact inverse, errors on wrong key/CRC.
Tie: hand model coq/Model/AesContainer.v (padding expression, constants and CRC
from the translator) + correspondence with the cipher factored out (toy cipher
registered through register_AES128) + search on the real plug-in (pyaes)."""
import hashlib

from vlib import qN, qbytes, qlist, qopt, qres, run_impl
from props import toycipher
from props.C15 import oracle as crc_oracle

GEN_DEPS = ("Crc.v", "gen_crc", "Consts.v", "gen_consts", "AesFrame.v", "gen_aesframe")
IMPORTS = "From Bec2 Require Import Gen.Consts Model.Cbc Model.AesContainer."


def T():
    t = []
    for i in range(256):
        x = i
        for _ in range(8):
            x = (x >> 1) ^ 0x8408 if x & 1 else x >> 1
        t.append(x)
    return t


TAB = T()


def crc_fast(data, crc=0xFFFF):
    for b in data:
        crc = (crc >> 8) ^ TAB[(crc ^ b) & 0xFF]
    return crc


def payload_with_crc(r, n, want_lo=None, want_hi=None):
    """random payload of length n whose CRC has the wanted low/high byte (n >= 2)"""
    p = bytearray(r.randrange(256) for _ in range(n))
    if n < 2 or (want_lo is None and want_hi is None):
        return bytes(p)
    base = crc_fast(p[:-2])
    for a in range(256):
        c1 = (base >> 8) ^ TAB[(base ^ a) & 0xFF]
        for b in range(256):
            c = (c1 >> 8) ^ TAB[(c1 ^ b) & 0xFF]
            if (want_lo is None or c & 0xFF == want_lo) and (want_hi is None or c >> 8 == want_hi):
                p[-2], p[-1] = a, b
                return bytes(p)
    return bytes(p)


def qck(ck):
    return qopt(ck, lambda c: "(%s, %s)" % (qbytes(c[0]), qN(c[1])))


def gen_payloads(ctx, per_len):
    r = ctx.rng
    out = []
    for n in range(254):
        for j in range(per_len):
            kind = r.choice(["rand", "zeros_tail", "crc_lo0", "crc_hi0", "crc_00", "allzero"])
            if kind == "rand" or n < 2:
                p = bytes(r.randrange(256) for _ in range(n))
            elif kind == "zeros_tail":
                z = r.randrange(1, min(n, 18) + 1)
                p = bytes(r.randrange(256) for _ in range(n - z)) + bytes(z)
            elif kind == "crc_lo0":
                p = payload_with_crc(r, n, want_lo=0)
            elif kind == "crc_hi0":
                p = payload_with_crc(r, n, want_hi=0)
            elif kind == "crc_00":
                p = payload_with_crc(r, n, 0, 0)
            else:
                p = bytes(n)
            ctx.dist["payload:" + kind] += 1
            out.append(p)
    return out


def rkey(r):
    return r.choice([bytes(16), bytes(r.randrange(256) for _ in range(16)),
                     bytes(r.randrange(256) for _ in range(15)) + b"\0",
                     bytes(r.randrange(256) for _ in range(13)) + b"\0\0\0"])


def correspondence(ctx):
    from bec2format.bec2file import SoftwareCustKeyEncryptor, ConfigSecurityCodeEncryptor
    r = ctx.rng
    exprs, descr = [], []
    sha = {}
    with toycipher.registered():
        # wrap / unwrap, every length 0..253 (+ a few beyond the limit)
        pls = gen_payloads(ctx, 1) + [bytes(r.randrange(256) for _ in range(n)) for n in (254, 255, 256, 300)]
        for p in pls:
            k = rkey(r)
            e = SoftwareCustKeyEncryptor(k)
            w = run_impl(e.encrypt, p)
            exprs.append("res_eqb bytes_eqb (wrap toy_enc0 %s %s) %s" % (qbytes(k), qbytes(p), qres(w, qbytes)))
            descr.append(("wrap", k, p))
            ctx.case(("wrap", k, p))
            if w[0] == "ok":
                u = run_impl(e.decrypt, w[1])
                exprs.append("res_eqb bytes_eqb (unwrap toy_dec0 %s %s) %s" % (qbytes(k), qbytes(w[1]), qres(u, qbytes)))
                descr.append(("unwrap", k, w[1]))
                ctx.case(("unwrap", k, w[1]))
        ctx.sample({"op": "wrap", "key": pls and rkey(r), "payload": pls[7], "note": "toy cipher"})
        # crafted frames: every structural way of being wrong
        for _ in range(ctx.budget(250, 4000)):
            k = rkey(r)
            nblocks = r.choice([0, 1, 1, 2, 2, 3, 16])
            fr = bytearray(r.randrange(256) for _ in range(16 * nblocks))
            if fr and r.random() < 0.9:
                fr[0] = 0x42
            style = r.choice(["L=0", "L=1", "L=2", "L>len", "L=len", "valid", "badcrc", "rand", "odd"])
            if len(fr) >= 2:
                if style == "L=0":
                    fr[1] = 0
                elif style == "L=1":
                    fr[1] = 1
                elif style == "L=2":
                    fr[1] = 2
                elif style == "L>len":
                    fr[1] = min(255, len(fr) + r.randrange(1, 5))
                elif style == "L=len":
                    fr[1] = min(255, len(fr))
                elif style in ("valid", "badcrc"):
                    L = r.randrange(2, min(len(fr), 255) + 1)
                    fr[1] = L
                    pay = bytes(fr[len(fr) - L:len(fr) - 2])
                    c = crc_fast(pay) ^ (0 if style == "valid" else r.choice([1, 0x100, 0x8000, 0xFFFF]))
                    fr[-2:] = c.to_bytes(2, "big")
                    if L >= len(fr) - 1 and style == "valid":
                        # payload overlaps the header: recompute until stable is not needed; keep as is
                        pass
            ct = toycipher.toy_encrypt(k, None, bytes(fr)) if fr else b""
            if style == "odd":
                ct = ct + bytes(r.randrange(256) for _ in range(r.randrange(1, 16)))
            ctx.dist["frame:" + style] += 1
            e = SoftwareCustKeyEncryptor(k)
            u = run_impl(e.decrypt, ct)
            ctx.dist["unwrap->" + (u[1] if u[0] == "err" else "ok")] += 1
            exprs.append("res_eqb bytes_eqb (unwrap toy_dec0 %s %s) %s" % (qbytes(k), qbytes(ct), qres(u, qbytes)))
            descr.append(("unwrap-crafted", k, ct))
            ctx.case(("unwrap", k, ct))
        # customer key: positions 0..len-10 and beyond, None position excluded (TypeError is a usage error)
        for _ in range(ctx.budget(200, 3000)):
            k = rkey(r)
            n = r.choice([0, 5, 9, 10, 11, 26, 26, 26, 40, 253, r.randrange(0, 254)])
            p = bytes(r.randrange(256) for _ in range(n))
            ck = r.choice([b"", bytes(r.randrange(256) for _ in range(10)), bytes(10),
                           bytes(r.randrange(256) for _ in range(r.choice([1, 9, 11])))])
            pos = r.choice([0, 1, max(0, n - 10), max(0, n - 10), max(0, n - 9), n, n + 3, r.randrange(0, n + 1)])
            if len(ck) == 10 and n >= 10 and pos <= n - 10:
                p, ck = patterned(r, p, ck, pos)
            e = SoftwareCustKeyEncryptor(k, ck, pos)
            w = run_impl(e.encrypt, p)
            exprs.append("res_eqb bytes_eqb (ck_wrap toy_enc0 %s %s %s) %s" % (
                qbytes(k), qck((ck, pos)), qbytes(p), qres(w, qbytes)))
            descr.append(("ck_wrap", k, ck, pos, p))
            ctx.case(("ck_wrap", k, ck, pos, p))
            if w[0] == "ok":
                other = r.random() < 0.3
                ck2 = bytes(r.randrange(256) for _ in range(10)) if other else ck
                pos2 = pos if r.random() < 0.8 else r.randrange(0, n + 2)
                e2 = SoftwareCustKeyEncryptor(k, ck2, pos2)
                u = run_impl(e2.decrypt, w[1])
                ctx.dist["ck_unwrap->" + (u[1] if u[0] == "err" else "ok")] += 1
                exprs.append("res_eqb bytes_eqb (ck_unwrap toy_dec0 %s %s %s) %s" % (
                    qbytes(k), qck((ck2, pos2)), qbytes(w[1]), qres(u, qbytes)))
                descr.append(("ck_unwrap", k, ck2, pos2, w[1]))
                ctx.case(("ck_unwrap", k, ck2, pos2, w[1]))
        # security-code variant: key = first 16 bytes of sha256(code)
        for _ in range(ctx.budget(40, 400)):
            code = bytes(r.randrange(256) for _ in range(r.choice([8, 8, 8, 0, 1, 16, 33])))
            p = bytes(r.randrange(256) for _ in range(r.choice([17, 17, 0, 1, 253])))
            sha[code] = hashlib.sha256(code).digest()
            e = ConfigSecurityCodeEncryptor(code)
            w = run_impl(e.encrypt, p)
            exprs.append("res_eqb bytes_eqb (csc_wrap toy_enc0 sha_oracle %s %s) %s" % (qbytes(code), qbytes(p), qres(w, qbytes)))
            descr.append(("csc_wrap", code, p))
            ctx.case(("csc_wrap", code, p))
            if w[0] == "ok":
                u = run_impl(e.decrypt, w[1])
                exprs.append("res_eqb bytes_eqb (csc_unwrap toy_dec0 sha_oracle %s %s) %s" % (qbytes(code), qbytes(w[1]), qres(u, qbytes)))
                descr.append(("csc_unwrap", code, w[1]))
                ctx.case(("csc_unwrap", code, w[1]))
    pre = toycipher.TOY_COQ + "Definition sha_tbl : list (bytes * bytes) := %s.\n" % qlist(
        ["(%s, %s)" % (qbytes(c), qbytes(d)) for c, d in sha.items()], "(bytes * bytes)")
    pre += ("Definition sha_oracle (x : bytes) : bytes := match find (fun p => bytes_eqb (fst p) x) sha_tbl "
            "with Some p => snd p | None => [] end.\n")
    bad = ctx.coq_eval("c08", IMPORTS, exprs, preamble=pre)
    if bad is None:
        return
    ctx.traces += len(exprs)
    for i in bad[:10]:
        ctx.broken("correspondence: Model.AesContainer differs from the implementation on %s" % descr[i][0],
                   {"case": [x.hex() if isinstance(x, bytes) else x for x in descr[i]]})


# ---------------------------------------------------------------------------
# property predicate on the real implementation (real pyaes plug-in)

def indep_cbc_decrypt(key, ct):
    """AES-128-CBC zero IV, block by block through pyaes' raw block cipher
    (bypasses the adapter and the block feeder)."""
    from register_crypto_plugin.pyaes import aes
    a = aes.AES(key)
    prev = bytes(16)
    out = b""
    for i in range(0, len(ct), 16):
        c = ct[i:i + 16]
        out += bytes(x ^ y for x, y in zip(a.decrypt(c), prev))
        prev = c
    return out


def spec_frame_ok(fr, payload):
    """the property's description of the decrypted frame"""
    n = len(payload)
    if len(fr) % 16 or len(fr) < n + 5:
        return "length"
    if fr[0:1] != b"B":
        return "marker"
    if fr[1] != n + 2:
        return "length byte"
    z = len(fr) - n - 4
    if not (1 <= z <= 16) or fr[2:2 + z] != bytes(z):
        return "padding"
    if fr[2 + z:2 + z + n] != payload:
        return "payload"
    if fr[-2:] != crc_oracle(payload).to_bytes(2, "big"):
        return "crc"
    return None


def spec_valid_frame(fr):
    """does an arbitrary decrypted frame carry a right marker and a right CRC?"""
    if len(fr) < 2 or fr[0:1] != b"B":
        return False
    L = fr[1]
    if L < 2 or L > len(fr):
        return False
    pay = fr[len(fr) - L:len(fr) - 2]
    return crc_oracle(pay).to_bytes(2, "big") == fr[-2:]


def indep_cbc_encrypt(key, pt):
    """AES-128-CBC zero IV, block by block through pyaes' raw block cipher"""
    from register_crypto_plugin.pyaes import aes
    a = aes.AES(key)
    prev = bytes(16)
    out = b""
    for i in range(0, len(pt), 16):
        c = bytes(a.encrypt(bytes(x ^ y for x, y in zip(pt[i:i + 16], prev))))
        out += c
        prev = c
    return out


def crafted_frames(r, n):
    """(label, plaintext frame): frames built by hand - right and wrong CRC for every small length byte (0..4:
    empty and tiny payloads), wrong marker, length byte beyond the frame, payload overlapping the header"""
    for _ in range(n):
        nb = r.choice([1, 1, 2, 3])
        fr = bytearray(r.randrange(256) for _ in range(16 * nb))
        style = r.choice(["valid", "valid", "badcrc", "badcrc", "badcrc", "marker", "L>len", "L<2"])
        fr[0] = 0x42 if style != "marker" else r.choice([0x41, 0x43, 0x62, 0x00])
        if style == "L>len":
            fr[1] = min(255, len(fr) + r.randrange(1, 5))
        elif style == "L<2":
            fr[1] = r.choice([0, 1])
        else:
            L = r.choice([2, 2, 2, 3, 4, r.randrange(2, len(fr) + 1)])
            fr[1] = L
            pay = bytes(fr[len(fr) - L:len(fr) - 2])
            c = crc_oracle(pay)
            if style == "badcrc":
                c ^= r.choice([1, 0x100, 0x8000, 0xFFFF, 0x00FF])
            fr[-2:] = c.to_bytes(2, "big")
        yield style, bytes(fr)



def patterned(r, p, ck, pos):
    """sometimes: a customer key that is a repeating pattern and/or a payload that already holds copies of the key
    (before the slot, overlapping it, after it) - the slot is defined by its position, not by its content"""
    x = r.random()
    if x < 0.55:
        return p, ck
    if x < 0.7:
        ck = bytes([r.randrange(256)]) * 10
    elif x < 0.8:
        ck = (bytes([r.randrange(256), r.randrange(256)]) * 5)
    p = bytearray(p)
    for _ in range(r.choice([1, 1, 2, 3])):
        at = r.choice([0, max(0, pos - 10), max(0, pos - r.randrange(1, 10)), pos + r.randrange(1, 10), r.randrange(0, len(p) + 1)])
        p[at:at + 10] = ck[:max(0, len(p) - at)]
    return bytes(p), ck



def search(ctx):
    from bec2format.bec2file import SoftwareCustKeyEncryptor, ConfigSecurityCodeEncryptor
    from bec2format.error import Bec2FileFormatError
    r = ctx.rng
    per_len = 2 if ctx.quick() and not ctx.brokens else 8
    for p in gen_payloads(ctx, per_len):
        k = rkey(r)
        e = SoftwareCustKeyEncryptor(k)
        ctx.case(("search-wrap", k, p))
        w = run_impl(e.encrypt, p)
        if w[0] != "ok":
            ctx.fail("wrap-raises", {"key": k, "payload": p}, w[1])
            continue
        why = spec_frame_ok(indep_cbc_decrypt(k, w[1]), p)
        if why:
            ctx.fail("frame-shape", {"key": k, "payload": p, "ct": w[1]}, why)
            continue
        u = run_impl(e.decrypt, w[1])
        if u != ("ok", p):
            ctx.fail("unwrap-not-inverse", {"key": k, "payload": p}, repr(u)[:200])
        # wrong key / flipped bytes must be errors unless the frame is valid by the spec
        k2 = bytes([k[0] ^ 1]) + k[1:] if r.random() < 0.5 else rkey(r)
        if k2 != k:
            u2 = run_impl(SoftwareCustKeyEncryptor(k2).decrypt, w[1])
            if u2[0] == "ok" and not spec_valid_frame(indep_cbc_decrypt(k2, w[1])):
                ctx.fail("wrong-key-accepted", {"key": k, "key2": k2, "payload": p}, repr(u2)[:200])
            if u2[0] == "err" and u2[1] not in ("EBec2", "EValue"):
                ctx.fail("wrong-key-error-type", {"key": k, "key2": k2, "payload": p}, u2[1])
        ct = bytearray(w[1])
        i = r.randrange(len(ct))
        ct[i] ^= 1 << r.randrange(8)
        u3 = run_impl(e.decrypt, bytes(ct))
        if u3[0] == "ok" and not spec_valid_frame(indep_cbc_decrypt(k, bytes(ct))):
            ctx.fail("damaged-frame-accepted", {"key": k, "ct": bytes(ct)}, repr(u3)[:200])
    # hand-built frames (encrypted with the raw block cipher, not the library): accepted exactly when marker, length
    # byte and CRC are right by the independent spec, and then with exactly the payload the frame carries
    for style, fr in crafted_frames(r, ctx.budget(400, 6000) * (4 if ctx.brokens else 1)):
        k = rkey(r)
        ct = indep_cbc_encrypt(k, fr)
        ctx.case(("search-crafted", k, fr))
        ctx.dist["search-crafted:" + style] += 1
        u = run_impl(SoftwareCustKeyEncryptor(k).decrypt, ct)
        valid = spec_valid_frame(fr)
        if u[0] == "ok" and not valid:
            ctx.fail("damaged-frame-accepted", {"key": k, "ct": ct}, "hand-built frame %s (%s) unwraps to %r" % (fr.hex(), style, u[1]))
        elif u[0] == "ok" and u[1] != fr[len(fr) - fr[1]:len(fr) - 2]:
            ctx.fail("unwrap-not-inverse", {"key": k, "payload": fr[len(fr) - fr[1]:len(fr) - 2], "ct": ct},
                     "hand-built valid frame %s unwraps to %r" % (fr.hex(), u[1]))
        elif u[0] == "err" and u[1] not in ("EBec2", "EValue"):
            ctx.fail("wrong-key-error-type", {"key": k, "key2": k, "payload": b"", "ct": ct}, "hand-built frame %s: %s" % (fr.hex(), u[1]))
        elif u[0] == "err" and valid:
            ctx.fail("unwrap-not-inverse", {"key": k, "payload": fr[len(fr) - fr[1]:len(fr) - 2], "ct": ct},
                     "hand-built valid frame %s is rejected: %s" % (fr.hex(), u[1]))
    # one encryptor object reused for a sequence of wraps and unwraps (no state may carry over)
    for _ in range(ctx.budget(40, 600)):
        k = rkey(r)
        e = r.choice([SoftwareCustKeyEncryptor(k), ConfigSecurityCodeEncryptor(bytes(r.randrange(256) for _ in range(8)))])
        key_used = k if isinstance(e, SoftwareCustKeyEncryptor) else hashlib.sha256(e.config_security_code).digest()[:16]
        history = []
        for step in range(r.randrange(2, 6)):
            p = bytes(r.randrange(256) for _ in range(r.choice([0, 1, 17, 26, 27, 100, 253])))
            ctx.case(("reuse", key_used, step, p))
            w = run_impl(e.encrypt, p)
            history.append(len(p))
            why = None
            if w[0] != "ok":
                why = "wrap raised " + w[1]
            else:
                why = spec_frame_ok(indep_cbc_decrypt(key_used, w[1]), p)
                if not why and r.random() < 0.7:
                    u = run_impl(e.decrypt, w[1])
                    if u != ("ok", p):
                        why = "unwrap with the same object: %r" % (u,)
            if why:
                ctx.fail("encryptor-reuse", {"key": key_used, "payload_lengths": history, "payload": p}, "call #%d on one encryptor object: %s" % (step + 1, why))
                break
    # customer key slot
    for _ in range(ctx.budget(150, 3000)):
        k = rkey(r)
        n = r.randrange(10, 254)
        p = bytes(r.randrange(256) for _ in range(n))
        ck = bytes(r.randrange(256) for _ in range(10))
        pos = r.choice([0, n - 10, r.randrange(0, n - 9)])
        p, ck = patterned(r, p, ck, pos)
        ctx.case(("search-ck", k, p, ck, pos))
        e = SoftwareCustKeyEncryptor(k, ck, pos)
        w = run_impl(e.encrypt, p)
        expect_pt = p[:pos] + ck + p[pos + 10:]
        if w[0] != "ok" or spec_frame_ok(indep_cbc_decrypt(k, w[1]), expect_pt):
            ctx.fail("custkey-slot", {"key": k, "payload": p, "ck": ck, "pos": pos}, repr(w)[:100])
            continue
        u = run_impl(e.decrypt, w[1])
        if u != ("ok", p[:pos] + bytes(10) + p[pos + 10:]):
            ctx.fail("custkey-unwrap", {"key": k, "payload": p, "ck": ck, "pos": pos}, repr(u)[:200])
        ck2 = bytes([ck[0] ^ 0x80]) + ck[1:]
        u2 = run_impl(SoftwareCustKeyEncryptor(k, ck2, pos).decrypt, w[1])
        if u2 != ("err", "EBec2"):
            ctx.fail("custkey-mismatch-accepted", {"key": k, "payload": p, "ck": ck, "pos": pos}, repr(u2)[:200])
        # a frame made WITHOUT a customer key whose slot happens to be blank (zeros), or made with the all-zero key:
        # an encryptor configured with a non-zero customer key must refuse it like any other mismatch
        if any(ck):
            pz = p[:pos] + bytes(10) + p[pos + 10:]
            for maker in (SoftwareCustKeyEncryptor(k), SoftwareCustKeyEncryptor(k, bytes(10), pos)):
                wz = run_impl(maker.encrypt, pz)
                if wz[0] == "ok":
                    u3 = run_impl(SoftwareCustKeyEncryptor(k, ck, pos).decrypt, wz[1])
                    if u3 != ("err", "EBec2"):
                        ctx.fail("custkey-mismatch-accepted", {"key": k, "payload": pz, "ck": ck, "pos": pos, "ct": wz[1]},
                                 "frame with a blank slot accepted under customer key %s: %s" % (ck.hex(), repr(u3)[:160]))
    # security code variant
    for i in range(ctx.budget(60, 700)):
        # the key is SHA-256 of the WHOLE security code, whatever its length (8 bytes is only the usual size)
        code = bytes(r.randrange(256) for _ in range([8, 8, 8, 9, 16, 33, 7, 1, 0][i % 9]))
        p = bytes(r.randrange(256) for _ in range(17))
        ctx.case(("search-csc", code, p))
        e = ConfigSecurityCodeEncryptor(code)
        w = run_impl(e.encrypt, p)
        key = hashlib.sha256(code).digest()[:16]
        if w[0] != "ok" or spec_frame_ok(indep_cbc_decrypt(key, w[1]), p):
            ctx.fail("csc-key-derivation", {"code": code, "payload": p}, repr(w)[:100])
        elif run_impl(e.decrypt, w[1]) != ("ok", p):
            ctx.fail("csc-unwrap", {"code": code, "payload": p}, "")
    ctx.extra["rule"] = ("correspondence (toy cipher via register_AES128): wrap/unwrap for every payload length 0..253 (+254..300 overflow), "
                         "payload classes rand/zero-tail/CRC low=00/high=00/both/all-zero, crafted frames for every structural error class, "
                         "customer key positions incl. out of range, security-code keys with a hashlib oracle table; search (real pyaes): "
                         "frame shape by independent block-wise CBC decryption, inverse, wrong key, bit flips, customer key slot; "
                         "non-trivial = everything except the empty payload; distinct by (op,key,payload)")


def replay(ctx, data):
    from bec2format.bec2file import SoftwareCustKeyEncryptor
    rc = 0
    hx = lambda v: bytes.fromhex(v["hex"]) if isinstance(v, dict) else v
    for f in data.get("fails", []):
        d = f["data"]
        print(f["kind"], f["detail"])
        if "ck" in d and "key" in d:
            k, p, ck, pos = hx(d["key"]), hx(d["payload"]), hx(d["ck"]), d["pos"]
            e = SoftwareCustKeyEncryptor(k, ck, pos)
            w = run_impl(e.encrypt, p)
            print(" wrap with customer key %s at %d ->" % (ck.hex(), pos), w[0], (w[1].hex() if w[0] == "ok" else w[1]))
            if w[0] == "ok":
                fr = indep_cbc_decrypt(k, w[1])
                why = spec_frame_ok(fr, p[:pos] + ck + p[pos + 10:])
                u = run_impl(e.decrypt, w[1])
                want = ("ok", p[:pos] + bytes(10) + p[pos + 10:])
                print(" frame:", fr.hex(), "spec says:", why)
                print(" unwrap ->", u, "expected", want)
                rc |= bool(why) or u != want
            else:
                rc |= 1
        elif "code" in d:
            from bec2format.bec2file import ConfigSecurityCodeEncryptor
            code, p = hx(d["code"]), hx(d["payload"])
            w = run_impl(ConfigSecurityCodeEncryptor(code).encrypt, p)
            key = hashlib.sha256(code).digest()[:16]
            why = spec_frame_ok(indep_cbc_decrypt(key, w[1]), p) if w[0] == "ok" else w[1]
            print(" security code %s (%d bytes): frame under SHA-256(code)[:16] -> %s" % (code.hex(), len(code), why or "as specified"))
            rc |= bool(why)
        elif "ct" in d and "key" in d:
            k, ct = hx(d["key"]), hx(d["ct"])
            fr = indep_cbc_decrypt(k, ct)
            valid = spec_valid_frame(fr)
            u = run_impl(SoftwareCustKeyEncryptor(k).decrypt, ct)
            print(" frame:", fr.hex(), "valid by the spec:", valid)
            print(" unwrap ->", u)
            if u[0] == "ok":
                rc |= (not valid) or u[1] != fr[len(fr) - fr[1]:len(fr) - 2]
            else:
                rc |= valid or u[1] not in ("EBec2", "EValue")
        elif "payload" in d and "key" in d:
            k = hx(d["key"])
            p = hx(d["payload"])
            e = SoftwareCustKeyEncryptor(k)
            w = run_impl(e.encrypt, p)
            print(" wrap ->", w[0], (w[1].hex() if w[0] == "ok" else w[1]))
            if w[0] == "ok":
                fr = indep_cbc_decrypt(k, w[1])
                print(" frame:", fr.hex(), "spec says:", spec_frame_ok(fr, p))
                u = run_impl(e.decrypt, w[1])
                print(" unwrap ->", u)
                rc |= (u != ("ok", p)) or bool(spec_frame_ok(fr, p))
    for b in data.get("broken", []):
        print("broken:", b["what"])
    return 1 if rc else 0
