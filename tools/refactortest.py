#!/usr/bin/env python3
"""tools/refactortest.py <dir with patch.diff> [C01,C02,...] : apply a behaviour-preserving
refactoring to a scratch copy of /repo and run the given checks against it (default: the list
checks_expected_green of the directory's meta.json); every check must exit 0."""
import json, os, shutil, subprocess, sys, tempfile
V = os.path.dirname(os.path.dirname(os.path.abspath(__file__)))
d = os.path.abspath(sys.argv[1])
props = sys.argv[2].split(",") if len(sys.argv) > 2 else json.load(open(os.path.join(d, "meta.json")))["checks_expected_green"]
os.makedirs("/var/tmp/vscratch", exist_ok=True)
tmp = tempfile.mkdtemp(prefix="verif_ref_", dir="/var/tmp")
try:
    repo = os.path.join(tmp, "repo")
    subprocess.check_call(["rsync", "-a", "--exclude", ".git", "--exclude", "__pycache__", "/repo/", repo + "/"])
    p = subprocess.run(["patch", "-s", "-p1", "-d", repo, "-i", os.path.join(d, "patch.diff")], capture_output=True)
    if p.returncode:
        print("REFACTOR %s: patch does not apply" % d); sys.exit(2)
    env = dict(os.environ, VERIF_REPO=repo, VERIF_SANDBOX=os.path.join(tmp, "sb"), PYTHONHASHSEED="0"); env.pop("PYTHONPATH", None)
    out = []
    for q in props:
        c = subprocess.run([os.path.join(V, "bin/check"), q, "--tier", "quick"], cwd=V, env=env, capture_output=True, timeout=7200)
        o = c.stdout.decode()
        vio = [l for l in o.splitlines() if l.startswith("VIOLATION")]
        out.append("%s:%s" % (q, "ok" if c.returncode == 0 else "ALARM " + (vio[0][:160] if vio else "")))
        if c.returncode:
            rp = vio[0].split("replay=")[1].split()[0] if vio else None
            if rp and os.path.exists(rp):
                shutil.copy(rp, "/var/tmp/vscratch/alarm_%s_%s.json" % (os.path.basename(os.path.dirname(d)) + os.path.basename(d), q))
    print("REFACTOR %s/%s -> %s" % (os.path.basename(os.path.dirname(d)), os.path.basename(d), " ".join(out)))
finally:
    shutil.rmtree(tmp, ignore_errors=True)
