#!/usr/bin/env python3
"""tools/saveseed.py <srcdir> <caught_by> [history] : file a confirmed seeded change (patch.diff, demo.py,
meta.json written by the seeding sub-agent) under seeded/<Cxx>_<next n>/ in the format mkdesign.py reads."""
import glob, json, os, shutil, sys
V = os.path.dirname(os.path.dirname(os.path.abspath(__file__)))
src, caught = sys.argv[1], sys.argv[2]
hist = sys.argv[3] if len(sys.argv) > 3 else None
m = json.load(open(os.path.join(src, "meta.json")))
pid = os.environ.get("SEED_PROP") or m["property"]
n = 1 + max([int(os.path.basename(d).split("_")[1]) for d in glob.glob(os.path.join(V, "seeded", pid + "_*"))] or [0])
dst = os.path.join(V, "seeded", "%s_%d" % (pid, n))
os.makedirs(dst)
for f in ("patch.diff", "demo.py"):
    shutil.copy(os.path.join(src, f), os.path.join(dst, f))
out = {"property": pid, "summary": m["summary"], "needs": m["needs"],
       "seeded_by": "independent sub-agent given only the property text and a scratch worktree of /repo (wave %s)" % os.environ.get("SEED_WAVE", "6"),
       "ran_by_seeder": [m.get("ran")],
       "confirmed": "tools/seedtest.py: demo exits 0 on /repo and 1 on the patched copy; bin/check %s --tier quick exits 1 with a "
                    "VIOLATION line and a concrete failing input against the copy, exits 0 on /repo" % pid,
       "caught_by": caught}
if hist:
    out["history"] = hist
if pid != m["property"]:
    out["seeded_for"] = m["property"]
json.dump(out, open(os.path.join(dst, "meta.json"), "w"), indent=1)
print(dst)
