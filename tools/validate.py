#!/usr/bin/env python3
"""Validate MANIFEST.json and every evidence file against the schemas (needs jsonschema: run with python3-vt)."""
import json, glob, sys
import jsonschema
ms = json.load(open('/root/.vp/MANIFEST.schema.json')); es = json.load(open('/root/.vp/EVIDENCE.schema.json'))
m = json.load(open('/verif/MANIFEST.json')); jsonschema.validate(m, ms)
bad = 0
for c in m['checks']:
    f = '/verif/' + c['evidence_file']
    try:
        e = json.load(open(f)); jsonschema.validate(e, es)
        cov = e['coverage']
        print(c['property_id'], e['tier'], 'oblig', cov['obligations'], 'disch', cov['discharged'], 'evals', cov['evaluations'],
              'distinct', cov['distinct_nontrivial'], 'traces', cov.get('traces_validated_against_impl'), 'viol', e.get('violations'))
        if cov['obligations'] != cov['discharged'] or e.get('violations'):
            bad += 1
    except Exception as ex:
        print(c['property_id'], 'INVALID', str(ex)[:200]); bad += 1
sys.exit(1 if bad else 0)
