#!/usr/bin/env python3
"""tools/seedtest.py <seed-dir> [--tier quick] : apply a seeded change (patch.diff) to a scratch
copy of /repo, run its demonstration (must fail there and pass on /repo) and run the property's
check against the scratch copy in a private sandbox (must exit 1 with a VIOLATION line).
Prints one summary line; leaves /repo untouched; removes the scratch copy."""
import json
import os
import shutil
import subprocess
import sys
import tempfile

V = os.path.dirname(os.path.dirname(os.path.abspath(__file__)))


def main():
    d = os.path.abspath(sys.argv[1])
    tier = sys.argv[3] if len(sys.argv) > 3 and sys.argv[2] == "--tier" else "quick"
    meta = json.load(open(os.path.join(d, "meta.json")))
    pid = meta["property"]
    props = sys.argv[sys.argv.index("--props") + 1].split(",") if "--props" in sys.argv else [pid]
    tmp = tempfile.mkdtemp(prefix="verif_seed_", dir="/var/tmp")
    try:
        repo = os.path.join(tmp, "repo")
        subprocess.check_call(["rsync", "-a", "--exclude", ".git", "--exclude", "__pycache__", "/repo/", repo + "/"])
        env = dict(os.environ, PYTHONHASHSEED="0", PYTHONDONTWRITEBYTECODE="1")
        demo = os.path.join(d, "demo.py")

        def run_demo(root):
            e = dict(env, PYTHONPATH="%s:%s/appnotes" % (root, root))
            p = subprocess.run(["/venv/bin/python", demo], cwd=root, env=e, capture_output=True, timeout=900)
            return p.returncode
        base = run_demo("/repo")
        p = subprocess.run(["git", "apply", "--directory=" + os.path.relpath(repo, tmp), os.path.join(d, "patch.diff")],
                           cwd=tmp, capture_output=True)
        if p.returncode != 0:
            p = subprocess.run(["patch", "-p1", "-d", repo, "-i", os.path.join(d, "patch.diff")], capture_output=True)
            if p.returncode != 0:
                print("SEED %s: patch does not apply: %s" % (d, p.stderr.decode()[:300]))
                return 2
        mut = run_demo(repo)
        results = {}
        for q in props:
            e = dict(env, VERIF_REPO=repo, VERIF_SANDBOX=os.path.join(tmp, "sb"))
            e.pop("PYTHONPATH", None)
            c = subprocess.run([os.path.join(V, "bin/check"), q, "--tier", tier], cwd=V, env=e, capture_output=True, timeout=7200)
            out = c.stdout.decode()
            vio = [l for l in out.splitlines() if l.startswith("VIOLATION")]
            results[q] = (c.returncode, vio[0] if vio else "", out.strip().splitlines()[-1] if out.strip() else "")
            if vio:
                rp = vio[0].split("replay=")[1].split()[0]
                try:
                    rj = json.load(open(rp))
                    kinds = sorted(set(f["kind"] for f in rj.get("fails", [])))
                    br = [b["what"][:100] for b in rj.get("broken", [])][:3]
                    results[q] += (kinds, br)
                except Exception:
                    pass
        print("SEED %s property=%s demo(base)=%d demo(mutant)=%d" % (os.path.basename(d), pid, base, mut))
        for q, r in results.items():
            print("   check %s -> exit %d %s" % (q, r[0], " | ".join(str(x) for x in r[1:])[:600]))
        return 0
    finally:
        shutil.rmtree(tmp, ignore_errors=True)


if __name__ == "__main__":
    sys.exit(main())
