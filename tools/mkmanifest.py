#!/usr/bin/env python3
"""Regenerate /verif/MANIFEST.json.  A property is claimed when both its
property file coq/Properties/<id>.v and its harness tools/props/<id>.py exist."""
import json
import os

V = os.path.dirname(os.path.dirname(os.path.abspath(__file__)))

COMMON_NOTE = ("Trusted: Coq 8.16.1 kernel + VM (vm_compute; no native_compute); no axioms declared (Print Assumptions of every "
               "property theorem is captured into the evidence on every run); translator tools/py2v.py; the correspondence harness "
               "(differential testing bounded by its generators); Python built-in semantics as written in coq/Base. ")

P = {
 "C01": ("read(write f) = Ok f is a theorem about the hand-written reader/writer model for every file, offset and key; the model is tied to /repo by differential runs of writer and reader on generated files.",
         "Cipher is a Section variable at the container layer (hypotheses: block-length preservation and decrypt-after-encrypt), instantiated by the pyaes model in C16.",
         "Coq theorem (induction over components/tags) + model/implementation correspondence"),
 "C02": ("BEC2 round trip proved on the model for every key/block list/decryptor subset; correspondence + search on /repo over key classes (trailing zero bytes, zero CRC bytes).",
         "ECDH symmetry is a hypothesis discharged in C17 under the group-law hypothesis; sha256 and os.urandom are oracles.",
         "Coq theorem + correspondence"),
 "C03": ("Writer output satisfies a declarative layout predicate written from the property text, and the layout determines the bytes; an executable layout checker proved against the predicate is run on the implementation's bytes.",
         "Independent AES = FIPS-197 specification of C16.",
         "Coq theorem (layout predicate) + proved-correct checker run on implementation output"),
 "C04": ("Appended bytes, every proper prefix (binary and text, incl. cuts inside a hex pair) and every single-byte replacement are rejected or content-preserving: unconditional theorems on the model for every invertible block function; wrong session key / multi-byte damage: reduction to a MAC forgery or a payload-MAC collision; exhaustive single-byte/prefix/suffix/key-bit sweep on implementation and model.",
         "partial only for the different-session-key clause: that MACs under different keys differ is cryptographic and is not assumed; the reduction theorem is what is proved.",
         "Coq theorems + exhaustive damage sweep (model vs implementation)"),
 "C05": ("Reader accepts iff the declarative layout predicate of C03 holds (both directions, MAC checking on and off, for arbitrary dec/mac and for the adapter), content = fields, re-serialisation is canonical; structured-edit correspondence (37 edits, singly and in pairs) with recomputed MACs.",
         "One clause beyond the property's list is explicit: payloads tagged ENC=02 must be decryptable (multiples of 16 bytes for the adapter).",
         "Coq iff-theorem + correspondence on structured edits"),
 "C06": ("Stored payload = CBC ciphertext of the zero-padded blob; recovery up to declared length; fail-closed writer; every byte of the file is classified by origin; secret-substring scan on implementation output.",
         "'No secret appears in clear' is proved as a provenance statement (segments), the substring scan is search only.",
         "Coq theorems + correspondence + needle scan"),
 "C07": ("One session key reaches every block and the directory; mixed keys rejected; unknown blocks pass through byte-for-byte over any history; fresh oracle draws counted in a state-passing model and observed through the register_* API.",
         "partial: quality of os.urandom is outside any model.",
         "Coq theorems (history induction) + recording plug-ins"),
 "C08": ("Frame shape for all 254 lengths, exact inverse, exact accept set of the unframe function, customer-key slot, security-code key derivation; padding expression generated from the source.",
         "Cipher abstract with decrypt-after-encrypt hypothesis (C16); sha256 oracle.",
         "Coq theorems (lia + 254-length sweep) + correspondence"),
 "C09": ("ECC block layout, recovery by a spec-side ECIES decryptor over the affine spec arithmetic, default recipient per selector, off-curve rejection, 27-byte header equality.",
         "partial: agreement with OpenSSL is an external oracle run when the binary exists; group laws for P-256 and primality are hypotheses.",
         "Coq theorems + correspondence + optional OpenSSL differential"),
 "C10": ("decode(encode d) = sorted deletes ++ sorted sets, blocks non-empty and <= 117 bytes, blob framing; decoder specification written from the property text.",
         "",
         "Coq theorems (merge-loop invariant) + correspondence"),
 "C11": ("History induction over set_config/derive/append/insert/write/read: exactly one configuration, last, others untouched; comments and auth blocks depend only on the last configuration.",
         "",
         "Coq theorems (induction over operation lists) + exhaustive short histories on /repo"),
 "C12": ("Identifier from config denotes the 0x0620 values; print/parse round trips proved symbolically per digit field for the full ranges; error closure of the parser.",
         "Name-only form is ambiguous in the text format for names that look like numeric ids (known finding).",
         "Coq theorems (digit-field arithmetic) + exhaustive per-field sweeps on /repo"),
 "C13": ('Importer model at token level AND text level: payload = image of the data lines, no loss, tags from instruction state, rejections, filter expression equivalence; BF2 text grammar with whole-file round trip and one theorem from text to components.',
         'partial only for inputs outside what an image rendered to lines can produce (overlapping lines with one start address, unterminated last filter group), each with a _refuted witness.',
         'Coq theorems + grammar-generated BF2 correspondence (texts rendered inside Coq)'),
 "C14": ("Every model entry point returns Ok or a format/Value error and never runs out of fuel; call-graph pass shows parsers do not reach the register_* writers of module globals.",
         "partial: CPython's own termination and the global-state frame are observed, not proved.",
         "Coq theorems (error closure, fuel) + mutation fuzzing under an alarm"),
 "C15": ("The generated byte-wise step equals the bit-serial CRC-16/MCRF4XX for all 2^24 (crc, byte) pairs (65536-case and 256-case kernel sweeps lifted by bit lemmas), and by induction for all strings; result < 2^16.",
         "Tie is the translator: Gen/Crc.v is regenerated from bec2file.py on every run and additionally cross-checked against the running implementation.",
         "Coq theorem about the translated source (sweeps + induction)"),
 "C16": ("All 14 tables entry by entry against GF(2^8) definitions; feeder split independence; adapter = zero-padded CBC; cipher = FIPS-197 specification; inverse.",
         "Tables by translator; cipher code by hand model + correspondence incl. NIST vectors.",
         "Coq theorems (exhaustive table sweeps, inductions) + correspondence"),
 "C17": ('Every branch of the translated Jacobian formulas, NAF, multiplication drivers, mul_add, validation, ECDH and the affine Point class are theorems; the chord-and-tangent group law itself is proved for every prime field (associativity incl. all degenerate cases) and instantiated for shipped curves by a closed n*G computation; for P-256 no hypothesis is left (primes certified in C19).',
         'Group-law certificates computed offline are re-checked by ring on every build; for shipped curves other than SECP112r1/r2, SECP128r1 and NIST256p the n*G computation inside the cone is omitted for cost (a BigZ variant for all 17 exists outside the cone, relying on Uint63 primitives). OpenSSL agreement is an external oracle.',
         'Coq theorems about the translated source + offline certificates checked by ring + correspondence + exhaustive small-group search'),
 "C18": ("verify(sign) on the model under the group-law hypothesis; range rejection; digest truncation; signature codec round trips; RFC 6979 candidate loop against a spec written from the RFC.",
         "partial: hash-dependent tamper detection and OpenSSL agreement are not theorems.",
         "Coq theorems + correspondence + bit-flip sweeps on /repo"),
 "C19": ('DER primitives round trip and exactness, truncation/extension rejection, key codecs on the 17 generated curves, 27-byte header, error closure; numbertheory (jacobi, square roots, all branches) in the model with square-root theorems for p = 3 mod 4 and 5 mod 8 and soundness of every branch; Pocklington checker proved sound, certificates for all 17 field primes and orders.',
         'partial: completeness of the Jacobi symbol needs quadratic reciprocity (kept as an explicit hypothesis, closed by sweep for primes < 300); base64 opaque; OpenSSL byte compatibility is an external oracle; the big certificates (Properties/C19Big.v) are built on every run but not re-checked by coqchk.',
         'Coq theorems + proved-sound certificate checker + correspondence + structured mutation search'),
 "C20": ("Lock mutual exclusion as an inductive invariant for an unbounded number of threads over instruction lists translated from _rwlock.py; deadlock freedom for 2R+2W by verified exploration; schedule independence of lazy table/rescale from a store-site pass.",
         "partial: CPython's atomicity of a single attribute store is a runtime fact.",
         "Coq inductive invariant + verified state exploration + controlled-scheduler replay on the real lock"),
}


# properties whose check has been run green on the unchanged tree and reviewed
DONE = ["C01", "C02", "C03", "C04", "C05", "C06", "C07", "C08", "C09", "C10", "C11", "C12", "C13", "C14", "C15", "C16", "C17", "C18", "C19", "C20"]


def main():
    props = [json.loads(l) for l in open(os.path.join(V, "properties.jsonl"))]
    checks, na = [], []
    for p in props:
        pid = p["id"]
        have = pid in DONE and os.path.exists(os.path.join(V, "coq/Properties/%s.v" % pid)) and \
            os.path.exists(os.path.join(V, "tools/props/%s.py" % pid))
        text, note, tech = P[pid]
        if have:
            checks.append({
                "property_id": pid,
                "quick_cmd": "bin/check %s --tier quick" % pid,
                "thorough_cmd": "bin/check %s --tier thorough" % pid,
                "evidence_file": "evidence/%s.json" % pid,
                "replay_cmd_template": "bin/check %s --replay {path}" % pid,
                "engine": "coq-proof",
                "level_claimed": {"category": "proof", "text": text, "design_ref": "DESIGN.md section 5, %s" % pid},
                "level_note": COMMON_NOTE + note,
                "technique": tech,
            })
        else:
            na.append({"property_id": pid,
                       "reason": "not claimed yet: the Coq model/theorems and harness for this property are not built in this revision (design in DESIGN.md section 5); machine-checked proof applies in principle"})
    m = {
        "version": 1,
        "setup_cmd": "bin/setup",
        "hooks": {
            "guard": "BEC2FORMAT_VERIF",
            "enable": "no source hooks exist: checks import /repo's working tree directly (PYTHONPATH=/repo:/repo/appnotes, /venv/bin/python); bin/check sets the guard variable but nothing in /repo reads it",
            "baseline_off_cmd": "cd /repo && /venv/bin/python -m pytest -ra -q -p no:cacheprovider --timeout=900 --continue-on-collection-errors",
            "source_commits": [],
            "add_only": True,
        },
        "engines": [{"name": "coq-proof", "path": "coq/", "serves_properties": [c["property_id"] for c in checks],
                     "kind_free_text": "Coq 8.16.1 development (Base, Gen regenerated from /repo, Model, Proofs, Properties) + Python harness for translator, correspondence and search"}],
        "checks": checks,
        "not_applicable": na,
        "notes": "See DESIGN.md. known_findings.jsonl lists recorded findings and fixed defects.",
    }
    # fix commits recorded in hooks.source_commits are not hooks; keep that list for guarded hooks only
    with open(os.path.join(V, "MANIFEST.json"), "w") as f:
        json.dump(m, f, indent=1)
    print("claimed:", [c["property_id"] for c in checks])


if __name__ == "__main__":
    main()
