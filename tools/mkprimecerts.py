#!/usr/bin/env python3-vt
"""Offline generator of the Pocklington certificates in coq/Proofs/PrimeCerts*.v (C19).

Run once (python3-vt tools/mkprimecerts.py) when the shipped curves change; the generated files
are committed.  For every field prime p and group order n of the short-Weierstrass curves of
VERIF_REPO (default /repo) it factors N-1 (sympy: trial division, Pollard p-1 / rho, ECM; a time
limit per number; results cached in tools/primecerts.factors.json), picks the largest prime
factors q until F = prod q^e exceeds sqrt(N), certifies those q recursively (numbers below 10^6
by trial division inside Coq) and searches a witness a with
    a^(N-1) = 1 (mod N)   and   gcd(a^((N-1)/q) - 1, N) = 1 for every chosen q.
The certificates are checked inside Coq by Proofs/Pocklington.v: pock_check, proved sound; nothing
computed here is trusted.  Numbers whose N-1 could not be factored far enough are listed in the
header of PrimeCerts.v and left out.
"""
import importlib
import json
import math
import multiprocessing as mp
import os
import sys
import time

import sympy
from sympy import isprime
from sympy.ntheory import pollard_pm1, pollard_rho

HERE = os.path.dirname(os.path.abspath(__file__))
VERIF = os.path.dirname(HERE)
REPO = os.environ.get("VERIF_REPO", "/repo")
CACHE = os.path.join(HERE, "primecerts.factors.json")
SMALL = 10 ** 6            # trial division inside Coq (trial_prime: divisors up to 1100)
BIG_BITS = 256             # PrimeCerts.v: the field primes of at most this size; everything else: PrimeCertsBig*.v
E = importlib.import_module("sympy.ntheory.ecm")


def curve_numbers():
    sys.path[:0] = [REPO, os.path.join(REPO, "appnotes")]
    from register_crypto_plugin.ecdsa import curves
    out = []
    for c in curves.curves:
        if c.name in ("Ed25519", "Ed448"):
            continue
        out.append((c.name + ".p", int(c.curve.p())))
        out.append((c.name + ".n", int(c.order)))
    return out


# ---------------------------------------------------------------------------
# factoring with a time limit

def split(c, deadline):
    for B in (10 ** 4, 10 ** 5, 10 ** 6):
        if time.time() > deadline:
            return None
        try:
            d = pollard_pm1(c, B=B, retries=1)
        except Exception:      # noqa
            d = None
        if d and 1 < d < c:
            return int(d)
    if time.time() < deadline:
        d = pollard_rho(c, retries=2, max_steps=200000)
        if d and 1 < d < c:
            return int(d)
    B1, seed = 2000, 1
    while time.time() < deadline:
        try:
            d = E._ecm_one_factor(c, B1=B1, B2=B1 * 50, max_curve=20, seed=seed)
            if d and 1 < d < c:
                return int(d)
        except Exception:      # noqa  (sympy's ECM raises on some curves)
            pass
        seed += 1
        if seed % 3 == 0 and B1 < 10 ** 6:
            B1 = int(B1 * 1.7)
    return None


def factor_job(args):
    N, limit = args
    deadline = time.time() + limit
    fs, cof, todo = {}, 1, []
    for k, e in sympy.factorint(N - 1, limit=10 ** 6).items():
        k = int(k)
        if isprime(k):
            fs[k] = fs.get(k, 0) + e
        else:
            todo += [k] * e
    while todo:
        c = todo.pop()
        if isprime(c):
            fs[c] = fs.get(c, 0) + 1
            continue
        r = sympy.perfect_power(c)
        if r:
            todo += [int(r[0])] * int(r[1])
            continue
        d = split(c, deadline)
        if d is None:
            cof *= c
        else:
            todo += [d, c // d]
    return N, fs, cof


def load_cache():
    if os.path.exists(CACHE):
        raw = json.load(open(CACHE))
        return {int(k): ({int(q): e for q, e in v["factors"].items()}, int(v["cofactor"])) for k, v in raw.items()}
    return {}


def save_cache(cache):
    raw = {str(k): {"factors": {str(q): e for q, e in fs.items()}, "cofactor": str(cof)} for k, (fs, cof) in sorted(cache.items())}
    json.dump(raw, open(CACHE, "w"), indent=1)


def ensure_factored(cache, numbers, limit):
    need = [n for n in numbers if n not in cache]
    if not need:
        return
    with mp.Pool(min(len(need), max(1, (os.cpu_count() or 4) - 2))) as pool:
        for N, fs, cof in pool.imap_unordered(factor_job, [(n, limit) for n in need]):
            cache[N] = (fs, cof)
            save_cache(cache)


# ---------------------------------------------------------------------------
# certificates

def choose(N, fs, usable):
    """largest usable prime factors first, until F*F > N; None if that cannot be reached"""
    F, sel = 1, []
    for q in sorted(fs, reverse=True):
        if not usable(q):
            continue
        sel.append((q, fs[q]))
        F *= q ** fs[q]
        if F * F > N:
            return sel
    return None


def witness(N, sel):
    Q = 1
    for q, _ in sel:
        Q *= q
    for a in range(2, 2000):
        y = pow(a, (N - 1) // Q, N)
        if pow(y, Q, N) != 1:
            raise ValueError("%d is not prime" % N)
        if all(math.gcd(pow(y, Q // q, N) - 1, N) == 1 for q, _ in sel):
            return a
    raise ValueError("no witness for %d" % N)


def build(N, cache, limit, failed):
    """certificate tree ('trial',) | ('pock', a, [(q, e, tree)]) or None"""
    if N < SMALL:
        return ("trial",)
    if N in failed:
        return None
    ensure_factored(cache, [N], limit)
    fs, _ = cache[N]
    subs = {}

    def usable(q):
        if q not in subs:
            subs[q] = build(q, cache, limit, failed)
        return subs[q] is not None
    # factor the q-1 of all large prime factors of this level in one parallel wave
    ensure_factored(cache, [q for q in fs if q >= SMALL], limit)
    sel = choose(N, fs, usable)
    if sel is None:
        failed.add(N)
        return None
    a = witness(N, sel)
    return ("pock", a, [(q, e, subs[q]) for q, e in sel])


def check(N, t):
    """the Coq checker, in Python (sanity check of the generator)"""
    if t[0] == "trial":
        return N < SMALL and isprime(N)
    _, a, fl = t
    Q = F = 1
    for q, e, sub in fl:
        if not check(q, sub) or (N - 1) % q ** e:
            return False
        Q *= q
        F *= q ** e
    y = pow(a, (N - 1) // Q, N)
    return N < F * F and pow(y, Q, N) == 1 and all(math.gcd(pow(y, Q // q, N) - 1, N) == 1 for q, _, _ in fl)


def cost(N, t):
    """rough cost in units of (bits/100)^3"""
    if t[0] == "trial":
        return 0.0
    b = N.bit_length() / 100.0
    L = sum(q.bit_length() for q, _, _ in t[2]) / 100.0
    k = len(t[2])
    own = b * b * ((b - L) + k * L)
    return own + sum(cost(q, s) for q, _, s in t[2])


def qz(n):
    return "%d" % n if n < (1 << 32) else "0x%x" % n


def coq_cert(t, ind):
    if t[0] == "trial":
        return "CTrial"
    _, a, fl = t
    s = "FNil"
    for q, e, sub in reversed(fl):
        s = "(FCons %s %d %s\n%s %s)" % (qz(q), e, coq_cert(sub, ind + 2), " " * ind, s)
    return "(CPock %d\n%s %s)" % (a, " " * ind, s)


HEADER = """(* GENERATED OFFLINE by tools/mkprimecerts.py - committed, not regenerated by the checks.
   Pocklington certificates (Proofs/Pocklington.v) for the field primes p and the group orders n of
   the short-Weierstrass curves shipped in ecdsa/curves.py, keyed by the number.  The checker runs
   inside Coq (%(lemma)s: vm_compute); nothing the generator computed is trusted.
%(extra)s *)
From Coq Require Import List ZArith.
From Bec2 Require Import Proofs.Pocklington.
Import ListNotations.
Open Scope Z_scope.

"""


def emit(path, table_name, lemma, entries, extra):
    with open(path, "w") as f:
        f.write(HEADER % {"lemma": lemma, "extra": extra})
        names = []
        for i, (labels, N, t) in enumerate(entries):
            nm = "%s_%d" % (table_name, i)
            names.append(nm)
            f.write("(* %s  (%d bits) *)\n" % (", ".join(labels), N.bit_length()))
            f.write("Definition %s : Z * cert :=\n  (%s,\n   %s).\n\n" % (nm, qz(N), coq_cert(t, 4)))
        f.write("Definition %s : list (Z * cert) :=\n  [%s].\n\n" % (table_name, ";\n   ".join(names)))
        f.write("Lemma %s : certs_ok %s = true.\nProof. vm_compute. reflexivity. Qed.\n\n" % (lemma, table_name))
        f.write("Lemma %s_prime : forall N c, In (N, c) %s -> Znumtheory.prime N.\n"
                "Proof. exact (certs_ok_sound %s %s). Qed.\n" % (table_name, table_name, table_name, lemma))


def main():
    args = [a for a in sys.argv[1:] if not a.startswith("--")]
    limit = float(args[0]) if args else 420.0
    nums = curve_numbers()
    labels = {}
    for nm, v in nums:
        labels.setdefault(v, []).append(nm)
    cache = load_cache()
    if "--retry" in sys.argv:
        for k in [k for k, (_, cof) in cache.items() if cof > 1]:
            del cache[k]
    # breadth-first waves, each factored in parallel: the numbers, then the prime factors the
    # greedy choice would use, then theirs, ...
    frontier = sorted(labels)
    while frontier:
        ensure_factored(cache, frontier, limit)
        nxt = set()
        for N in frontier:
            sel = choose(N, cache[N][0], lambda q: True)
            if sel:
                nxt |= set(q for q, _ in sel if q >= SMALL and q not in cache)
        frontier = sorted(nxt)
    failed = set()
    small, big, missing = [], [], []
    for N in sorted(labels):
        t = build(N, cache, limit, failed)
        if t is None:
            missing.append((labels[N], N))
            continue
        assert check(N, t), N
        is_small = N.bit_length() <= BIG_BITS and any(l.endswith(".p") for l in labels[N])
        (small if is_small else big).append((labels[N], N, t))
        print("%-40s %4d bits  cost %.1f" % (",".join(labels[N]), N.bit_length(), cost(N, t)))
    save_cache(cache)
    miss_txt = "   NOT covered (N-1 not factored far enough within %.0f s): %s\n" % (
        limit, "; ".join("%s = %d" % (",".join(l), n) for l, n in missing) if missing else "none")
    out = os.path.join(VERIF, "coq", "Proofs")
    emit(os.path.join(out, "PrimeCerts.v"), "prime_certs", "prime_certs_ok", small,
         "   This file: the field primes p of at most %d bits (the part that Properties/C19.v depends on, so that\n   the thorough tier's coqchk run, which has no bytecode VM, stays affordable).\n%s" % (BIG_BITS, miss_txt))
    # the big numbers in three files of about equal cost, so that they build in parallel
    bins = [[], [], []]
    for ent in sorted(big, key=lambda e: -cost(e[1], e[2])):
        min(bins, key=lambda b: sum(cost(e[1], e[2]) for e in b)).append(ent)
    for i, b in enumerate(bins):
        suffix = "" if i == 0 else str(i + 1)
        emit(os.path.join(out, "PrimeCertsBig%s.v" % suffix), "prime_certs_big" + suffix, "prime_certs_big%s_ok" % suffix,
             sorted(b, key=lambda e: e[1]),
             "   This file: the field primes above %d bits and all group orders, part %d of 3 (expensive to re-check\n   without the bytecode VM; Properties/C19Big.v depends on them).\n%s"
             % (BIG_BITS, i + 1, miss_txt))
    # the two NIST P-256 numbers on their own (Model/P256Plugin.v, C17 capstones): a small cone
    p256 = [e for e in small + big if any(l.startswith("NIST256p.") for l in e[0])]
    emit(os.path.join(out, "PrimeCertsP256.v"), "prime_certs_p256", "prime_certs_p256_ok", sorted(p256, key=lambda e: e[1]),
         "   This file: only the field prime and the group order of NIST P-256 (also contained in the other files).\n" + miss_txt)
    print("small: %d, big: %d, missing: %s" % (len(small), len(big), [l for l, _ in missing]))


if __name__ == "__main__":
    main()
