"""Common machinery of /verif/bin/check: environment, translator run, Coq build
and property re-check, evaluation of the executable models inside Coq
(cases files + vm_compute), canonicalisation of implementation results,
known findings, evidence and verdict."""
import collections
import fcntl
import glob
import hashlib
import json
import os
import random
import re
import resource
import shutil
import subprocess
import sys
import time
import traceback

VERIF = os.path.dirname(os.path.dirname(os.path.abspath(__file__)))
REPO = os.environ.get("VERIF_REPO", "/repo")
# VERIF_SANDBOX=<dir>: run against a private copy of the Coq tree and write evidence/replays
# there (used for mutation experiments with VERIF_REPO=<copy of /repo>, so that the shared
# /verif/coq build and /verif/evidence are not disturbed).
SANDBOX = os.environ.get("VERIF_SANDBOX")
if SANDBOX:
    os.makedirs(SANDBOX, exist_ok=True)
    if not os.path.isdir(os.path.join(SANDBOX, "coq")):
        subprocess.check_call(["cp", "-a", os.path.join(VERIF, "coq"), os.path.join(SANDBOX, "coq")])
    else:
        # refresh sources (not build products) from /verif/coq
        subprocess.call(["rsync", "-a", "--exclude", "Gen/", "--include", "*/", "--include", "*.v",
                         "--include", "_CoqProject", "--exclude", "*",
                         os.path.join(VERIF, "coq") + "/", os.path.join(SANDBOX, "coq") + "/"])
    _ROOT = SANDBOX
else:
    _ROOT = VERIF
COQ = os.path.join(_ROOT, "coq")
SCRATCH = os.path.join(_ROOT, ".scratch")
REPLAYS = os.path.join(_ROOT, "replays")
EVIDENCE = os.path.join(_ROOT, "evidence")
GUARD = "BEC2FORMAT_VERIF"
NPROC = int(os.environ.get("VERIF_JOBS", str(os.cpu_count() or 4)))

FORBIDDEN = re.compile(
    r"\b(Admitted|admit|Axiom|Axioms|Parameter|Parameters|Conjecture|Conjectures|"
    r"Admit\s+Obligations|bypass_check)\b|Unset\s+Guard|Unset\s+Positivity|"
    r"Unset\s+Universe|type-in-type|impredicative-set|native_compute")

TRUSTED_BASE = [
    "Coq 8.16.1 kernel incl. its bytecode VM (vm_compute used for finite sweeps and witnesses); native_compute not used",
    "axioms: none declared by the development; Print Assumptions output of every property theorem is recorded below",
    "translator tools/py2v.py (Python ast -> Gallina, fail-closed) for every Gen/*.v definition",
    "correspondence harness tools/props/*.py + tools/vlib.py: differential runs of the hand-written Gallina models (evaluated by coqc with vm_compute) against /repo executed by /venv/bin/python",
    "semantics of Python built-ins as written in coq/Base/*.v",
    "no extraction is used by this check (models are evaluated inside Coq)",
]


def ensure_env():
    """Re-exec under the interpreter and environment the pinned suite uses."""
    want = {"PYTHONHASHSEED": "0", GUARD: "1"}
    pp = "%s:%s/appnotes" % (REPO, REPO)
    if any(os.environ.get(k) != v for k, v in want.items()) or os.environ.get("PYTHONPATH") != pp \
            or os.path.realpath(sys.executable) != os.path.realpath("/venv/bin/python"):
        env = dict(os.environ)
        env.update(want)
        env["PYTHONPATH"] = pp
        env["PYTHONDONTWRITEBYTECODE"] = "1"
        os.execve("/venv/bin/python", ["/venv/bin/python"] + sys.argv, env)
    sys.path.insert(0, os.path.join(VERIF, "tools"))


# ---------------------------------------------------------------------------
# canonical error names (must match coq/Base/Result.v)

def canon_exc(e):
    import bec2format.error as E
    name = type(e).__name__
    mro = [c.__name__ for c in type(e).__mro__]
    order = [
        (E.UnsupportedBf2InstrError, "EUnsupBf2Instr"),
        (E.UnsupportedTagTypeError, "EUnsupTagType"),
        (E.UnsupportedLegacyFirmwareError, "EUnsupLegacy"),
        (E.Bf3FileFormatError, "EBf3"),
        (E.Bec2FileFormatError, "EBec2"),
        (E.MissingProjectSettingsNameError, "EMissPrj"),
        (E.MissingDeviceSettingsNameError, "EMissDev"),
        (E.ConfigIdFormatError, "ECfgId"),
    ]
    for cls, nm in order:
        if isinstance(e, cls):
            return nm
    if "UnexpectedDER" in mro:
        return "EUnexpectedDER"
    if isinstance(e, UnicodeDecodeError):
        return "EUnicode"
    if isinstance(e, ValueError):
        return "EValue"
    for cls, nm in ((IndexError, "EIndex"), (KeyError, "EKey"), (TypeError, "EType"),
                    (OverflowError, "EOverflow"), (AssertionError, "EAssert"),
                    (NotImplementedError, "ENotImpl")):
        if isinstance(e, cls):
            return nm
    if type(e) is Exception:
        return "EBare"
    return "EOther_" + name


FORMAT_OR_VALUE = {"EBf3", "EBec2", "EUnsupBf2Instr", "EUnsupTagType", "EUnsupLegacy",
                   "ECfgId", "EMissPrj", "EMissDev", "EValue", "EUnicode"}


# ---------------------------------------------------------------------------
# Coq literals

def qN(n):
    return "%d%%N" % n


def qZ(n):
    return "(%d)%%Z" % n


def qbytes(b):
    b = bytes(b)
    if not b:
        return "(@nil byte)"
    return "(H %d 0x%s)" % (len(b), b.hex())


def qlist(items, ty=None):
    items = list(items)
    if not items:
        return "(@nil %s)" % ty if ty else "[]"
    return "[" + "; ".join(items) + "]"


def qbool(b):
    return "true" if b else "false"


def qopt(x, f):
    return "None" if x is None else "(Some %s)" % f(x)


def qstr(s):
    return qlist([qN(ord(c)) for c in s], "N")


def qres(r, f):
    """r = ('ok', value) | ('err', name)"""
    return "(Ok %s)" % f(r[1]) if r[0] == "ok" else "(Err %s)" % r[1]


def run_impl(f, *a, **k):
    try:
        return ("ok", f(*a, **k))
    except Exception as e:   # noqa
        return ("err", canon_exc(e))


# ---------------------------------------------------------------------------

class CoqError(Exception):
    pass


def _unlimit_stack():
    try:
        resource.setrlimit(resource.RLIMIT_STACK, (resource.RLIM_INFINITY, resource.RLIM_INFINITY))
    except Exception:
        pass


def sh(cmd, timeout, cwd=None):
    t0 = time.time()
    try:
        p = subprocess.run(cmd, cwd=cwd, stdout=subprocess.PIPE, stderr=subprocess.STDOUT,
                           timeout=timeout, preexec_fn=_unlimit_stack)
        return p.returncode, p.stdout.decode("utf-8", "replace"), time.time() - t0
    except subprocess.TimeoutExpired as e:
        out = (e.stdout or b"").decode("utf-8", "replace")
        return 124, out + "\n[timeout after %ss]" % timeout, time.time() - t0


def v_files():
    out = []
    for d in ("Base", "Gen", "Model", "Proofs", "Properties"):
        out += sorted(glob.glob(os.path.join(COQ, d, "*.v")))
    return [os.path.relpath(p, COQ) for p in out]


class BuildLock:
    def __enter__(self):
        os.makedirs(SCRATCH, exist_ok=True)
        self.f = open(os.path.join(SCRATCH, "build.lock"), "w")
        fcntl.flock(self.f, fcntl.LOCK_EX)
        return self

    def __exit__(self, *a):
        fcntl.flock(self.f, fcntl.LOCK_UN)
        self.f.close()


def regen():
    """Run the translator.  Returns list of (name, error or None)."""
    import importlib
    import py2v
    importlib.reload(py2v)
    with BuildLock():
        return py2v.generate(os.path.join(COQ, "Gen"))


def ensure_makefile():
    files = v_files()
    stamp = os.path.join(COQ, ".filelist")
    cur = "\n".join(files)
    old = open(stamp).read() if os.path.exists(stamp) else None
    if old != cur or not os.path.exists(os.path.join(COQ, "Makefile")):
        rc, out, _ = sh(["coq_makefile", "-f", "_CoqProject", "-o", "Makefile"] + files, 120, cwd=COQ)
        if rc != 0:
            raise CoqError("coq_makefile failed: " + out)
        with open(stamp, "w") as f:
            f.write(cur)


def coq_make(targets, timeout=3000):
    with BuildLock():
        ensure_makefile()
        return sh(["make", "-j%d" % NPROC] + list(targets), timeout, cwd=COQ)


def strip_comments(text):
    """remove (nested) Coq comments, keeping newlines so that line numbers survive"""
    out, depth, i = [], 0, 0
    while i < len(text):
        if text.startswith("(*", i):
            depth += 1
            i += 2
        elif depth and text.startswith("*)", i):
            depth -= 1
            i += 2
        else:
            if depth == 0 or text[i] == "\n":
                out.append(text[i])
            i += 1
    return "".join(out)


def gate():
    """No admits/axioms/kernel switches anywhere in the development."""
    bad = []
    for rel in v_files() + ["_CoqProject"]:
        with open(os.path.join(COQ, rel)) as f:
            code = strip_comments(f.read()) if rel.endswith(".v") else f.read()
        for i, line in enumerate(code.split("\n"), 1):
            if FORBIDDEN.search(line):
                bad.append("%s:%d: %s" % (rel, i, line.strip()))
    return bad


THM_RE = re.compile(r"^\s*(Theorem|Lemma|Corollary|Example|Fact|Proposition)\s+([A-Za-z0-9_']+)")


def property_theorems(pid):
    path = os.path.join(COQ, "Properties", pid + ".v")
    thms = []
    with open(path) as f:
        lines = f.read().split("\n")
    cur = None
    for i, line in enumerate(lines, 1):
        m = THM_RE.match(line)
        if m:
            cur = [m.group(2), i, None]
            thms.append(cur)
        if cur is not None and re.search(r"\b(Qed|Defined)\.", line) and cur[2] is None:
            cur[2] = i
    return thms


def check_property_file(pid):
    """Build the cone of Properties/<pid>.v, then re-run coqc on the property
    file itself, capturing Print Assumptions.  Returns a dict."""
    thms = property_theorems(pid)
    res = {"obligations": [t[0] for t in thms], "discharged": [], "assumptions": {},
           "ok": False, "log": "", "failed_at": None}
    target = "Properties/%s.vo" % pid
    try:
        os.remove(os.path.join(COQ, target))
    except OSError:
        pass
    rc, out, wall = coq_make([target])
    res["log"] = out[-6000:]
    res["build_s"] = round(wall, 1)
    if rc != 0:
        m = re.search(r'File "\./(\S+?)", line (\d+)', out)
        if m:
            res["failed_at"] = "%s:%s" % (m.group(1), m.group(2))
            if m.group(1) == "Properties/%s.v" % pid:
                ln = int(m.group(2))
                res["discharged"] = [t[0] for t in thms if t[2] is not None and t[2] < ln]
        else:
            res["failed_at"] = "build (rc=%d)" % rc
        return res
    res["ok"] = True
    res["discharged"] = [t[0] for t in thms]
    # Print Assumptions blocks, in order
    blocks = re.split(r"(?m)^(?=Closed under the global context|Axioms:)", out)
    blocks = [b for b in blocks if b.startswith("Closed under") or b.startswith("Axioms:")]
    names = print_assumption_names(pid)
    for nm, b in zip(names, blocks):
        txt = b.strip().split("\nCOQ")[0].strip()
        txt = re.split(r"\n(?=make|COQ|Finished)", txt)[0]
        res["assumptions"][nm] = txt
    return res


def print_assumption_names(pid):
    path = os.path.join(COQ, "Properties", pid + ".v")
    return re.findall(r"(?m)^\s*Print Assumptions\s+([A-Za-z0-9_']+)\s*\.", open(path).read())


CASE_HEADER = """From Coq Require Import List Bool NArith ZArith.
From Coq Require Import Init.Byte.
From Bec2 Require Import Base.Result Base.Bytes.
%s
Import ListNotations.
Open Scope N_scope.
"""


def _parse_Nlist(out):
    m = re.search(r"=\s*(\[.*?\]|nil)\s*:\s*list N", out, re.S)
    if not m:
        raise CoqError("cannot parse coqc output: " + out[-2000:])
    body = m.group(1)
    if body == "nil":
        return []
    body = body.strip("[]")
    return [int(x) for x in re.findall(r"\d+", body.replace("%N", ""))]


def coq_eval_bools(pid, tag, imports, exprs, shard=250, timeout=900, preamble=""):
    """Evaluate a list of Coq boolean expressions with vm_compute; returns the
    indices of those that are false.  Sharded over several coqc processes."""
    exprs = list(exprs)
    if not exprs:
        return []
    d = os.path.join(SCRATCH, "%s.%d" % (pid, os.getpid()))
    os.makedirs(d, exist_ok=True)
    jobs = []
    for k in range(0, len(exprs), shard):
        name = "%s_%d" % (tag, k // shard)
        path = os.path.join(d, name + ".v")
        with open(path, "w") as f:
            f.write(CASE_HEADER % imports)
            f.write(preamble + "\n")
            f.write("Definition results : list bool :=\n  [ ")
            f.write("\n  ; ".join(exprs[k:k + shard]))
            f.write(" ].\nEval vm_compute in (falses results).\n")
        jobs.append((k, path))
    procs = []
    failing = []
    pending = list(jobs)
    running = []
    errors = []

    def start(job):
        k, path = job
        p = subprocess.Popen(["timeout", str(timeout), "coqc", "-Q", COQ, "Bec2", "-w", "none", path],
                             stdout=subprocess.PIPE, stderr=subprocess.STDOUT, cwd=d,
                             preexec_fn=_unlimit_stack)
        return (k, path, p)
    while pending or running:
        while pending and len(running) < NPROC:
            running.append(start(pending.pop(0)))
        k, path, p = running.pop(0)
        out = p.communicate()[0].decode("utf-8", "replace")
        if p.returncode != 0:
            errors.append("%s: rc=%d\n%s" % (os.path.basename(path), p.returncode, out[-3000:]))
            continue
        try:
            failing += [k + i for i in _parse_Nlist(out)]
        except CoqError as e:
            errors.append(str(e))
    if errors:
        raise CoqError("\n".join(errors))
    for k, path in jobs:
        base = path[:-2]
        for ext in (".v", ".vo", ".vok", ".vos", ".glob"):
            try:
                os.remove(base + ext)
            except OSError:
                pass
        try:
            os.remove(os.path.join(d, "." + os.path.basename(base) + ".aux"))
        except OSError:
            pass
    return sorted(failing)


def coq_show(pid, imports, expr, timeout=300, preamble=""):
    """Evaluate one Coq expression and return coqc's printed value (for replays)."""
    d = os.path.join(SCRATCH, "%s.%d" % (pid, os.getpid()))
    os.makedirs(d, exist_ok=True)
    path = os.path.join(d, "show_%d.v" % os.getpid())
    with open(path, "w") as f:
        f.write(CASE_HEADER % imports)
        f.write(preamble + "\n")
        f.write("Eval vm_compute in (%s).\n" % expr)
    rc, out, _ = sh(["coqc", "-Q", COQ, "Bec2", "-w", "none", path], timeout, cwd=d)
    for ext in (".v", ".vo", ".vok", ".vos", ".glob"):
        try:
            os.remove(path[:-2] + ext)
        except OSError:
            pass
    return out.strip()[-4000:]


# ---------------------------------------------------------------------------

def load_known():
    path = os.path.join(VERIF, "known_findings.jsonl")
    out = []
    if os.path.exists(path):
        for line in open(path):
            line = line.strip()
            if line and not line.startswith("#") and not line.startswith("fixed:"):
                out.append(json.loads(line))
    return out


def jsonable(x):
    if isinstance(x, (bytes, bytearray)):
        return {"hex": bytes(x).hex()}
    if isinstance(x, dict):
        return {str(k): jsonable(v) for k, v in x.items()}
    if isinstance(x, (list, tuple)):
        return [jsonable(v) for v in x]
    if isinstance(x, (int, float, str, bool)) or x is None:
        return x
    return repr(x)


class Ctx:
    def __init__(self, pid, tier, seed):
        self.pid, self.tier, self.seed = pid, tier, seed
        self.rng = random.Random("%s/%d" % (pid, seed))
        self.t0 = time.time()
        self.fails = []        # concrete failing inputs: dict(kind, data, detail)
        self.brokens = []      # proof obligations / correspondences that no longer check
        self.known_hits = []
        self.evaluations = 0
        self.nontrivial = set()
        self.samples = []
        self.dist = collections.Counter()
        self.traces = 0
        self.notes = []
        self.proof = None
        self.translator = None
        self.known = [k for k in load_known() if k.get("property") == pid and k.get("kind") == "finding"]
        self.extra = {}

    def quick(self):
        return self.tier == "quick"

    def budget(self, q, t):
        scale = float(os.environ.get("VERIF_SCALE", "1"))
        return max(1, int((q if self.quick() else t) * scale))

    def case(self, key, trivial=False):
        """count one evaluated case; key identifies it for distinctness"""
        self.evaluations += 1
        if not trivial:
            self.nontrivial.add(hashlib.blake2b(repr(key).encode(), digest_size=8).digest())

    def sample(self, x, limit=6):
        if len(self.samples) < limit:
            self.samples.append(jsonable(x))

    def broken(self, what, detail):
        self.brokens.append({"what": what, "detail": str(detail)[-4000:]})

    def fail(self, kind, data, detail=""):
        rec = {"kind": kind, "data": jsonable(data), "detail": str(detail)[-2000:]}
        for k in self.known:
            m = k.get("match", {})
            if m.get("kind") == kind and all(rec["data"].get(f) == v for f, v in m.items() if f != "kind"):
                if k["id"] not in [h["id"] for h in self.known_hits]:
                    self.known_hits.append(k)
                return
        if len(self.fails) < 50:
            self.fails.append(rec)

    def coq_eval(self, tag, imports, exprs, **kw):
        try:
            return coq_eval_bools(self.pid, tag, imports, exprs, **kw)
        except CoqError as e:
            self.broken("correspondence:%s (model evaluation failed)" % tag, e)
            return None

    # -- verdict
    def finish(self):
        wall = time.time() - self.t0
        os.makedirs(EVIDENCE, exist_ok=True)
        os.makedirs(REPLAYS, exist_ok=True)
        violations = 0
        lines = []
        for k in self.known_hits:
            lines.append("KNOWN-FINDING: property=%s %s" % (self.pid, k["what"]))
        replay = None
        if self.fails:
            violations = len(self.fails)
            replay = os.path.join(REPLAYS, "%s_%s_%d.json" % (self.pid, self.tier, self.seed))
            with open(replay, "w") as f:
                json.dump({"property": self.pid, "kind": "failing-input", "fails": self.fails,
                           "broken": self.brokens, "seed": self.seed}, f, indent=1)
            lines.append("VIOLATION property=%s replay=%s" % (self.pid, replay))
        elif self.brokens:
            violations = len(self.brokens)
            replay = os.path.join(REPLAYS, "%s_%s_%d.json" % (self.pid, self.tier, self.seed))
            with open(replay, "w") as f:
                json.dump({"property": self.pid, "kind": "broken-obligation",
                           "broken": self.brokens, "seed": self.seed}, f, indent=1)
            lines.append("VIOLATION property=%s replay=%s no-failing-input-found" % (self.pid, replay))
        pr = self.proof or {"obligations": [], "discharged": [], "assumptions": {}}
        tb = list(TRUSTED_BASE)
        for nm, txt in pr.get("assumptions", {}).items():
            tb.append("Print Assumptions %s: %s" % (nm, " ".join(txt.split())[:600]))
        cov = {
            "obligations": len(pr["obligations"]),
            "discharged": len(pr["discharged"]),
            "obligation_names": pr["obligations"],
            "discharged_names": pr["discharged"],
            "checker_cmd": "cd /verif/coq && make Properties/%s.vo (coqc 8.16.1, full .vo build of the cone; Print Assumptions after every theorem)" % self.pid,
            "trusted_base": tb,
            "evaluations": self.evaluations,
            "distinct_nontrivial": len(self.nontrivial),
            "rule": self.extra.pop("rule", "see DESIGN.md section 5, %s" % self.pid),
            "samples": self.samples or ["(no sampled case: proof obligations only)"],
            "traces_validated_against_impl": self.traces,
            "input_distribution": dict(self.dist),
            "translator": self.translator,
            "known_findings_seen": [k["id"] for k in self.known_hits],
            "broken": self.brokens,
            "notes": self.notes,
        }
        cov.update(self.extra)
        ev = {"property_id": self.pid, "tier": self.tier, "seed": self.seed, "level": "proof",
              "coverage": cov, "assumptions": tb, "wall_s": round(wall, 2), "violations": violations}
        with open(os.path.join(EVIDENCE, self.pid + ".json"), "w") as f:
            json.dump(ev, f, indent=1)
        for l in lines:
            print(l)
        print("%s tier=%s seed=%d obligations=%d discharged=%d cases=%d distinct=%d traces=%d known=%d wall=%.1fs -> %s" % (
            self.pid, self.tier, self.seed, cov["obligations"], cov["discharged"], self.evaluations,
            len(self.nontrivial), self.traces, len(self.known_hits), wall,
            "VIOLATION" if violations else "ok"))
        return 1 if violations else 0


def _probe_diff(ctx, when, before, after):
    """records a failing input: a probe item whose result changed"""
    for k in sorted(before):
        if before[k] != after.get(k):
            ctx.fail("library-state-carried-over", {"probe": k, "when": when, "first": before[k][:1500], "later": after.get(k, "")[:1500]},
                     "the fixed probe %s (tools/props/stateprobe.py) gives another result %s than at its first evaluation: "
                     "something handed out earlier and modified by its owner, or done by the stage, shows up in an unrelated later call"
                     % (k, when))
    return None


def run_check(pid, tier, seed, replay=None):
    import importlib
    mod = importlib.import_module("props." + pid)
    ctx = Ctx(pid, tier, seed)
    if replay is not None:
        data = json.load(open(replay))
        rc = 0
        carried = [f for f in data.get("fails", []) if f.get("kind") == "library-state-carried-over"]
        if carried:
            # the state probes are replayed generically: evaluated three times on /repo as it is now
            from props import stateprobe
            a = stateprobe.run(pid)
            stateprobe.run(pid)
            c = stateprobe.run(pid)
            for f in carried:
                k = f["data"]["probe"]
                print("library-state-carried-over: probe %s, recorded %s" % (k, f["data"]["when"]))
                print("  first evaluation now :", a.get(k, "")[:300])
                print("  third evaluation now :", c.get(k, "")[:300])
                same = a.get(k) == c.get(k)
                print("  ->", "same result: the probe alone does not carry state over (the recorded difference needed the stage to run)"
                      if same else "DIFFERENT: state is carried over between unrelated calls")
                rc |= 0 if same else 1
            data = dict(data, fails=[f for f in data["fails"] if f.get("kind") != "library-state-carried-over"])
            if not data["fails"] and not data.get("broken"):
                return rc
        return rc | (mod.replay(ctx, data) or 0)
    # 1. translator
    tr = regen()
    ctx.translator = {n: ("ok" if e is None else e) for n, e in tr}
    for n, e in tr:
        if e is not None and (n in getattr(mod, "GEN_DEPS", ()) or getattr(mod, "GEN_DEPS", None) is None):
            ctx.broken("translator:%s" % n, e)
    # 2. proofs
    bad = gate()
    if bad:
        ctx.broken("gate: forbidden construct in the development", "\n".join(bad))
    try:
        pr = check_property_file(pid)
    except CoqError as e:
        pr = {"obligations": [t[0] for t in property_theorems(pid)], "discharged": [], "assumptions": {},
              "ok": False, "log": str(e), "failed_at": "coq_makefile"}
    ctx.proof = pr
    if not pr["ok"]:
        missing = [o for o in pr["obligations"] if o not in pr["discharged"]]
        ctx.broken("proof: %s no longer checks (failed at %s); undischarged: %s" % (
            "Properties/%s.v" % pid, pr["failed_at"], ", ".join(missing)), pr["log"])
    else:
        for nm, txt in pr["assumptions"].items():
            if not txt.startswith("Closed under"):
                allowed = getattr(mod, "ALLOWED_AXIOMS", ())
                names = re.findall(r"(?m)^\s*([A-Za-z0-9_.']+)\s*:", txt)
                extra = [a for a in names if a.split(".")[-1] not in allowed]
                if extra:
                    ctx.broken("axioms: %s depends on %s" % (nm, extra), txt)
    # thorough tier: independent re-check of the compiled cone with coqchk, axioms listed
    if tier == "thorough" and pr["ok"]:
        rc, out, wall = sh(["coqchk", "-o", "-silent", "-Q", ".", "Bec2", "Bec2.Properties.%s" % pid],
                           int(os.environ.get("VERIF_COQCHK_LIMIT", "7200")), cwd=COQ)
        summary = out[out.find("CONTEXT SUMMARY"):] if "CONTEXT SUMMARY" in out else out[-1500:]
        ctx.extra["coqchk"] = {"rc": rc, "wall_s": round(wall, 1), "summary": " ".join(summary.split())[:1500]}
        m = re.search(r"\* Axioms:(.*?)\* Constants/Inductives relying on type-in-type", summary, re.S)
        axioms = m.group(1).strip() if m else "?"
        if rc != 0:
            ctx.broken("coqchk: independent re-check of Properties/%s.vo failed" % pid, out[-2000:])
        elif axioms != "<none>":
            allowed = getattr(mod, "ALLOWED_AXIOMS", ())
            names = [a for a in re.findall(r"([A-Za-z0-9_.']+)", axioms)]
            extra = [a for a in names if a.split(".")[-1] not in allowed]
            if extra:
                ctx.broken("coqchk: cone of Properties/%s.vo relies on axioms %s" % (pid, extra), axioms)
    # 3./4. correspondence and search (run even when the proof is broken: they
    # look for the concrete failing input)
    model_ok = pr["ok"] or not str(pr.get("failed_at", "")).startswith(("Model/", "Base/", "Gen/"))
    if model_ok and getattr(mod, "MODEL_TARGETS", None):
        # the executable model files the case files import (they may lie outside the cone of the
        # property file, and must be built even when a proof broke)
        rc, out, _ = coq_make(["-k"] + list(mod.MODEL_TARGETS))
        if rc != 0:
            model_ok = False
            ctx.broken("model: %s do not build" % ", ".join(mod.MODEL_TARGETS), out[-3000:])
    import threading
    limit = float(os.environ.get("VERIF_STAGE_LIMIT", "1500" if tier == "quick" else "5400"))

    def watchdog(stage):
        # a stage that does not come back (the implementation hangs on some input, or the model
        # evaluation diverges) must not hang the check: report it and exit
        ctx.broken("%s did not finish within %.0f s (hang in the implementation or in the model evaluation)" % (stage, limit),
                   "stage watchdog fired")
        rc = ctx.finish()
        sys.stdout.flush()
        os._exit(rc or 1)
    # state probes (tools/props/stateprobe.py): fixed library calls before the stages and after each of them; their
    # results must not change - nothing a caller did with objects the library handed out may show up in later calls
    probe0 = None
    try:
        from props import stateprobe
        probe0 = stateprobe.run(pid)
        stateprobe.run(pid)              # the probes modify what they were handed: the baseline is the SECOND evaluation
        probe0 = probe0 if probe0 == stateprobe.run(pid) else _probe_diff(ctx, "before the stages", probe0, stateprobe.run(pid))
    except Exception:   # noqa
        ctx.notes.append("state probe could not run: " + traceback.format_exc()[-300:])
        probe0 = None
    for stage in ("correspondence", "search"):
        fn = getattr(mod, stage, None)
        if fn is None:
            continue
        timer = threading.Timer(limit, watchdog, args=(stage,))
        timer.daemon = True
        timer.start()
        try:
            if stage == "correspondence" and not model_ok:
                ctx.notes.append("model does not compile: correspondence skipped")
                continue
            fn(ctx)
        except Exception:
            ctx.broken("%s crashed" % stage, traceback.format_exc())
        finally:
            timer.cancel()
        if probe0 is not None:
            try:
                now = stateprobe.run(pid)
                ctx.evaluations += len(now)
                if now != probe0:
                    _probe_diff(ctx, "after the %s stage" % stage, probe0, now)
                    probe0 = None
            except Exception:   # noqa
                ctx.notes.append("state probe could not run: " + traceback.format_exc()[-300:])
    shutil.rmtree(os.path.join(SCRATCH, "%s.%d" % (pid, os.getpid())), ignore_errors=True)
    return ctx.finish()
