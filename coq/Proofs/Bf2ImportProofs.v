(* C13: the section state machine of bf2_import (token level): every data line
   ends up in exactly one closed section, every converted section is the
   conversion of exactly its lines under the format of its tag type, unknown
   tag types and a missing Bf3Update marker are errors, and the description
   tags are the ones the instructions state. *)
From Coq Require Import List Bool NArith ZArith Lia Permutation.
From Coq Require Import Init.Byte.
From Bec2 Require Import Base.Result Base.Bytes Base.Sweep Gen.Consts Model.Bf2Str Model.Bf2Import Proofs.Bf2FilterProofs Proofs.Bf2UnpackProofs.
Import ListNotations.
Open Scope N_scope.

(* ---------------------------------------------------------------------------- *)
(* dict facts                                                                    *)

Section DictFacts.
  Context {K V : Type} (eqb : K -> K -> bool).
  Hypothesis eqb_eq : forall a b, eqb a b = true <-> a = b.

  Lemma eqb_refl' a : eqb a a = true.
  Proof. apply eqb_eq. reflexivity. Qed.
  Lemma eqb_neq' a b : a <> b -> eqb a b = false.
  Proof. intro H. destruct (eqb a b) eqn:E; [apply eqb_eq in E; contradiction|reflexivity]. Qed.

  Lemma dget_dset_same k (v : V) d : dget eqb k (dset eqb k v d) = Some v.
  Proof.
    induction d as [|[k' v'] t IH]; cbn [dset dget].
    - rewrite eqb_refl'. reflexivity.
    - destruct (eqb k k') eqn:E; cbn [dget]; [rewrite eqb_refl'; reflexivity|].
      rewrite E. exact IH.
  Qed.

  Lemma dget_dset_other k k' (v : V) d : k <> k' -> dget eqb k (dset eqb k' v d) = dget eqb k d.
  Proof.
    intro H. induction d as [|[k2 v2] t IH]; cbn [dset dget].
    - rewrite (eqb_neq' _ _ H). reflexivity.
    - destruct (eqb k' k2) eqn:E; cbn [dget].
      + apply eqb_eq in E. subst k2. rewrite (eqb_neq' _ _ H). reflexivity.
      + destruct (eqb k k2); [reflexivity|exact IH].
  Qed.

  Lemma dget_ddel_other k k' (d : list (K * V)) : k <> k' -> dget eqb k (ddel eqb k' d) = dget eqb k d.
  Proof.
    intro H. induction d as [|[k2 v2] t IH]; cbn [ddel dget]; [reflexivity|].
    destruct (eqb k' k2) eqn:E.
    - apply eqb_eq in E. subst k2. rewrite (eqb_neq' _ _ H). reflexivity.
    - cbn [dget]. destruct (eqb k k2); [reflexivity|exact IH].
  Qed.

  Lemma ddel_absent k (d : list (K * V)) : dget eqb k d = None -> ddel eqb k d = d.
  Proof.
    induction d as [|[k2 v2] t IH]; cbn [ddel dget]; [reflexivity|].
    destruct (eqb k k2); [discriminate|]. intro H. rewrite (IH H). reflexivity.
  Qed.

  Lemma dmem_dset_other k k' (v : V) d : k <> k' -> dmem eqb k (dset eqb k' v d) = dmem eqb k d.
  Proof. intro H. unfold dmem. rewrite dget_dset_other by exact H. reflexivity. Qed.

  Lemma dmem_ddel_other k k' (d : list (K * V)) : k <> k' -> dmem eqb k (ddel eqb k' d) = dmem eqb k d.
  Proof. intro H. unfold dmem. rewrite dget_ddel_other by exact H. reflexivity. Qed.
End DictFacts.

Lemma str_eqb_eq a b : str_eqb a b = true <-> a = b.
Proof. apply list_eqb_eq. intros x y. apply N.eqb_eq. Qed.

(* ---------------------------------------------------------------------------- *)
(* no data line is lost or used twice                                            *)

Definition tok_lines (t : token) : list line :=
  match t with Load ls => ls | Instr _ _ => [] end.
Definition all_lines (toks : list token) : list line := flat_map tok_lines toks.
Definition log_lines (l : log) : list line := flat_map snd l.

(* lines seen so far = lines of the closed sections ++ pending data *)
Definition consumed (s : st) : list line := log_lines (s_log s) ++ s_data s.

Lemma log_lines_app a b : log_lines (a ++ b) = log_lines a ++ log_lines b.
Proof. unfold log_lines. apply flat_map_app. Qed.

Lemma emit_keep_consumed s s' : emit_keep s = Ok s' -> consumed s' = consumed s.
Proof.
  unfold emit_keep. destruct (emit (s_data s) (s_instrs s) (s_comments s)) as [[[i c] [cp|]]|e];
    cbn [bind]; intro H; inversion H; subst; unfold consumed; cbn [s_log s_data].
  - rewrite log_lines_app. unfold log_lines at 2. cbn [flat_map snd]. rewrite !app_nil_r. reflexivity.
  - reflexivity.
Qed.

Lemma emit_drop_consumed s s' : emit_drop s = Ok s' -> consumed s' = consumed s /\ s_data s' = [].
Proof.
  unfold emit_drop. destruct (emit (s_data s) (s_instrs s) (s_comments s)) as [[[i c] oc]|e];
    cbn [bind]; intro H; inversion H; subst; unfold consumed; cbn [s_log s_data].
  split; [|reflexivity].
  rewrite log_lines_app. unfold log_lines at 2. cbn [flat_map snd]. rewrite !app_nil_r. reflexivity.
Qed.

Lemma step_consumed s t s' : step s t = Ok s' -> consumed s' = consumed s ++ tok_lines t.
Proof.
  destruct t as [ls|name p]; cbn [step tok_lines].
  - destruct ls as [|l0 ls']; [discriminate|].
    destruct (negb (is_known_tagtype (l_type l0))); [discriminate|].
    destruct (dmem N.eqb (l_type l0) BF2_TAGTYPE_MAP && nonempty (s_data s)).
    + destruct (emit_drop s) as [s1|e] eqn:E; cbn [bind]; [|discriminate].
      intro H; inversion H; subst. destruct (emit_drop_consumed _ _ E) as [H1 H2].
      unfold consumed in *. cbn [s_log s_data]. rewrite H2, app_nil_r in H1. rewrite H1. reflexivity.
    + intro H; inversion H; subst. unfold consumed. cbn [s_log s_data]. rewrite app_assoc. reflexivity.
  - rewrite app_nil_r.
    destruct (str_eqb name s_load); [destruct p as [[|? ?]|?]; discriminate|].
    destruct (str_eqb name s_CHECK_FWVER && dmem str_eqb s_CHECK_FWVER (s_instrs s)).
    + destruct (emit_keep s) as [s1|e] eqn:E; cbn [bind]; [|discriminate].
      pose proof (emit_keep_consumed _ _ E) as H1.
      destruct (str_eqb name s_REBOOT).
      * intro H. apply emit_keep_consumed in H. rewrite H. exact H1.
      * intro H; inversion H; subst. exact H1.
    + cbn [bind]. destruct (str_eqb name s_REBOOT).
      * intro H. apply emit_keep_consumed in H. rewrite H. reflexivity.
      * intro H; inversion H; subst. reflexivity.
Qed.

Lemma foldM_step_consumed : forall toks s s',
  foldM step toks s = Ok s' -> consumed s' = consumed s ++ all_lines toks.
Proof.
  induction toks as [|t ts IH]; intros s s'; cbn [foldM all_lines flat_map].
  - intro H; inversion H; subst. rewrite app_nil_r. reflexivity.
  - destruct (step s t) as [s1|e] eqn:E; cbn [bind]; [|discriminate].
    intro H. rewrite (IH _ _ H), (step_consumed _ _ _ E), app_assoc. reflexivity.
Qed.

Theorem run_no_loss toks s : run toks = Ok s ->
  log_lines (s_log s) = all_lines toks /\ s_data s = [].
Proof.
  unfold run. destruct (foldM step toks (mkSt [] [] [] [])) as [s0|e] eqn:E; cbn [bind]; [|discriminate].
  pose proof (foldM_step_consumed _ _ _ E) as H0. unfold consumed in H0 at 2. cbn in H0.
  destruct (nonempty (s_data s0)) eqn:N.
  - intro H. destruct (emit_drop_consumed _ _ H) as [H1 H2].
    unfold consumed in H1 at 1. rewrite H2, app_nil_r in H1. rewrite H1, H0. split; [reflexivity|exact H2].
  - intro H; inversion H; subst. destruct (s_data s) eqn:D; [|discriminate].
    unfold consumed in H0. rewrite D, app_nil_r in H0. split; [exact H0|reflexivity].
Qed.

(* ---------------------------------------------------------------------------- *)
(* exec_bf2instrs: the description is the initial one with the tags the
   instructions state written over it, in a fixed order                          *)

Definition oset (t : N) (ov : option bytes) (d : desc) : desc :=
  match ov with Some v => dset N.eqb t v d | None => d end.
Definition ocset (k : str) (ov : option pval) (c : cdict) : cdict :=
  match ov with Some v => dset str_eqb k v c | None => c end.

Lemma dget_oset t t' ov d :
  dget N.eqb t (oset t' ov d) =
  if t =? t' then match ov with Some v => Some v | None => dget N.eqb t d end else dget N.eqb t d.
Proof.
  destruct ov as [v|]; cbn [oset].
  - destruct (t =? t') eqn:E.
    + apply N.eqb_eq in E. subst. apply dget_dset_same. exact N.eqb_eq.
    + apply N.eqb_neq in E. apply dget_dset_other; [exact N.eqb_eq|exact E].
  - destruct (t =? t'); reflexivity.
Qed.

(* #>REBOOT (consumed) *)
Definition st_reboot (i : idict) (v : option bytes) : Prop :=
  v = if dmem str_eqb s_REBOOT i then Some [x01] else None.

(* ##CRC: 0xHHHHHHHH (consumed): the number after the first two characters, base 16 *)
Definition st_crc (i : idict) (v : option bytes) : Prop :=
  match dget str_eqb s_CRC i with
  | None => v = None
  | Some p => exists s n, p = PStr s /\ py_int 16 (dropN 2 s) = Ok n /\
                          (0 <= n < 4294967296)%Z /\ v = Some (be 4 (Z.to_N n))
  end.

(* #>SELECT FILTER=<hex> (stays in force): PFID2 = the filter bytes; for a
   peripheral the hardware id is the filter's single entry (or BGM12X for the
   three special filters) *)
Definition st_select (i : idict) (ty : option bytes) (vp vh : option bytes) : Prop :=
  match dget str_eqb s_SELECT i with
  | None => vp = None /\ vh = None
  | Some p =>
    exists fs f, sub_key p s_FILTER = Ok fs /\ hex2bin fs = Ok f /\ vp = Some f /\
    exists tyb, ty = Some tyb /\
    if bytes_eqb tyb [n2b BF3TYPE_PERIPHERAL] then
      match dget str_eqb (hex_upper_sp f) PFID2FILTER_TO_HWCID_SPECIAL_CASES with
      | Some h => h < 65536 /\ vh = Some (be 2 h)
      | None => starts_with s_0101 (hex_upper_sp f) = true /\ vh = Some (lastN 2 f)
      end
    else vh = None
  end.

(* #>CHECK_FWVER VERSIONDESC=<hex>|* (consumed): FWVER = version[3 : 3 + version[2]] *)
Definition st_check (i : idict) (v : option bytes) : Prop :=
  match dget str_eqb s_CHECK_FWVER i with
  | None => v = None
  | Some p =>
    exists vd, sub_key p s_VERSIONDESC = Ok vd /\
    if str_eqb vd s_star then v = None
    else exists version n, hex2bin vd = Ok version /\ nth_error version 2 = Some n /\
                           v = Some (takeN (b2n n) (dropN 3 version))
  end.

(* ##Firmware: <id 4 chars>...<version at 15..21> (stays in force): for release
   versions of loader / main firmware FWVER = id (2 bytes) ++ version numbers *)
Definition st_firmware (i : idict) (ty : option bytes) (v : option bytes) (cid cver : option pval) : Prop :=
  match dget str_eqb s_Firmware i with
  | None => v = None /\ cid = None /\ cver = None
  | Some p =>
    exists s, p = PStr s /\ cid = Some (PStr (slice 0 4 s)) /\ cver = Some (PStr (slice 15 22 s)) /\
    if starts_with s_Dminus (slice 15 22 s) then v = None
    else exists idv vs vb tyb,
        py_int 10 (slice 0 4 s) = Ok idv /\ (0 <= idv < 65536)%Z /\
        mapM (py_int 10) (split_on 46 (slice 15 22 s)) = Ok vs /\ mapM byte_of_Z vs = Ok vb /\
        ty = Some tyb /\
        v = if bytes_eqb tyb [n2b BF3TYPE_LOADER] || bytes_eqb tyb [n2b BF3TYPE_MAIN]
            then Some (be 2 (Z.to_N idv) ++ vb) else None
  end.

Definition st_creator (i : idict) (v : option pval) : Prop :=
  match dget str_eqb s_Creator i with
  | None => v = None
  | Some p => exists s, p = PStr s /\ v = Some (PStr (s ++ s_converter))
  end.

(* #>SELECT_IF PROTOCOL=<name>|* (stays in force).  supported = false: the
   protocol is not one of BF2_INTERFACES (UnsupportedBf2InstrError) *)
Definition st_select_if (i : idict) (supported : bool) (v : option bytes) : Prop :=
  match dget str_eqb s_SELECT_IF i with
  | None => supported = true /\ v = None
  | Some p =>
    exists proto, sub_key p s_PROTOCOL = Ok proto /\
    if str_eqb proto s_star then supported = true /\ v = None
    else match dget str_eqb proto BF2_INTERFACES with
         | None => supported = false /\ v = None
         | Some n => supported = true /\ n < 256 /\ v = Some [n2b n]
         end
  end.

Lemma exec_reboot_nf i d : exists v, st_reboot i v /\
  exec_reboot i d = (ddel str_eqb s_REBOOT i, oset BF3TAG_REBOOT v d).
Proof.
  unfold exec_reboot, st_reboot. destruct (dmem str_eqb s_REBOOT i) eqn:E.
  - eexists. split; [reflexivity|reflexivity].
  - eexists. split; [reflexivity|]. cbn [oset]. rewrite ddel_absent; [reflexivity|].
    unfold dmem in E. destruct (dget str_eqb s_REBOOT i); [discriminate|reflexivity].
Qed.

Lemma to_bytes_Z_ok n v b : to_bytes_Z n v = Ok b ->
  (0 <= v < Z.of_N (256 ^ N.of_nat n))%Z /\ b = be n (Z.to_N v).
Proof.
  unfold to_bytes_Z. destruct (v <? 0)%Z eqn:E; [discriminate|]. apply Z.ltb_ge in E.
  intro H. apply to_bytes_ok in H as [H1 H2]. split; [lia|exact H1].
Qed.

Lemma exec_crc_nf i d i' d' : exec_crc i d = Ok (i', d') ->
  exists v, st_crc i v /\ i' = ddel str_eqb s_CRC i /\ d' = oset BF3TAG_CRC v d.
Proof.
  unfold exec_crc, st_crc. destruct (dget str_eqb s_CRC i) as [p|] eqn:E.
  - destruct p as [s|dd]; cbn [sliceable bind]; [|discriminate].
    destruct (py_int 16 (dropN 2 s)) as [n|] eqn:P; cbn [bind]; [|discriminate].
    destruct (to_bytes_Z 4 n) as [b|] eqn:T; cbn [bind]; [|discriminate].
    intro H; inversion H; subst. apply to_bytes_Z_ok in T as [T1 T2].
    exists (Some b). split; [|split; reflexivity].
    exists s, n. repeat split; try reflexivity; try exact P; try lia. rewrite T2. reflexivity.
  - intro H; inversion H; subst. exists None. split; [reflexivity|]. split; [|reflexivity].
    symmetry. apply ddel_absent. exact E.
Qed.

Lemma desc_get_ok t d b : desc_get t d = Ok b -> dget N.eqb t d = Some b.
Proof. unfold desc_get. destruct (dget N.eqb t d); intro H; inversion H; reflexivity. Qed.

Lemma exec_select_nf i d d' : exec_select i d = Ok d' ->
  exists vp vh, st_select i (dget N.eqb BF3TAG_TYPE d) vp vh /\
                d' = oset BF3TAG_HWCID vh (oset BF3TAG_PFID2 vp d).
Proof.
  unfold exec_select, st_select. destruct (dget str_eqb s_SELECT i) as [p|].
  - destruct (sub_key p s_FILTER) as [fs|] eqn:S; cbn [bind]; [|discriminate].
    destruct (hex2bin fs) as [f|] eqn:Hx; cbn [bind]; [|discriminate].
    destruct (desc_get BF3TAG_TYPE (dset N.eqb BF3TAG_PFID2 f d)) as [tyb|] eqn:T; cbn [bind]; [|discriminate].
    apply desc_get_ok in T.
    rewrite dget_dset_other in T by (try exact N.eqb_eq; discriminate).
    destruct (bytes_eqb tyb [n2b BF3TYPE_PERIPHERAL]) eqn:P.
    + destruct (dget str_eqb (hex_upper_sp f) PFID2FILTER_TO_HWCID_SPECIAL_CASES) as [h|] eqn:Sp.
      * destruct (to_bytes 2 h) as [hb|] eqn:TB; cbn [bind]; [|discriminate].
        intro H; inversion H; subst. apply to_bytes_ok in TB as [TB1 TB2].
        exists (Some f), (Some hb). split; [|reflexivity].
        exists fs, f. split; [reflexivity|]. split; [exact Hx|]. split; [reflexivity|]. exists tyb. split; [exact T|].
        rewrite P, Sp. split; [exact TB2|rewrite TB1; reflexivity].
      * destruct (starts_with s_0101 (hex_upper_sp f)) eqn:SW; cbn [bind]; [|discriminate].
        intro H; inversion H; subst.
        exists (Some f), (Some (lastN 2 f)). split; [|reflexivity].
        exists fs, f. split; [reflexivity|]. split; [exact Hx|]. split; [reflexivity|]. exists tyb. split; [exact T|].
        rewrite P, Sp. split; [exact SW|reflexivity].
    + intro H; inversion H; subst. exists (Some f), None. split; [|reflexivity].
      exists fs, f. split; [reflexivity|]. split; [exact Hx|]. split; [reflexivity|]. exists tyb. split; [exact T|]. rewrite P. reflexivity.
  - intro H; inversion H; subst. exists None, None. split; [split; reflexivity|reflexivity].
Qed.

Lemma exec_check_nf i d i' d' : exec_check_fwver i d = Ok (i', d') ->
  exists v, st_check i v /\ i' = ddel str_eqb s_CHECK_FWVER i /\ d' = oset BF3TAG_FWVER v d.
Proof.
  unfold exec_check_fwver, st_check. destruct (dget str_eqb s_CHECK_FWVER i) as [p|] eqn:E.
  - destruct (sub_key p s_VERSIONDESC) as [vd|] eqn:S; cbn [bind]; [|discriminate].
    destruct (str_eqb vd s_star) eqn:St.
    + intro H; inversion H; subst. exists None. split; [|split; reflexivity].
      exists vd. split; [reflexivity|]. rewrite St. reflexivity.
    + destruct (hex2bin vd) as [version|] eqn:Hx; cbn [bind]; [|discriminate].
      destruct (nth_error version 2) as [n|] eqn:Nt; [|discriminate].
      intro H; inversion H; subst. exists (Some (takeN (b2n n) (dropN 3 version))).
      split; [|split; reflexivity].
      exists vd. split; [reflexivity|]. rewrite St. exists version, n.
      split; [exact Hx|]. split; [exact Nt|reflexivity].
  - intro H; inversion H; subst. exists None. split; [reflexivity|]. split; [|reflexivity].
    symmetry. apply ddel_absent. exact E.
Qed.

Lemma exec_firmware_nf i d c d' c' : exec_firmware i d c = Ok (d', c') ->
  exists v cid cver, st_firmware i (dget N.eqb BF3TAG_TYPE d) v cid cver /\
    d' = oset BF3TAG_FWVER v d /\
    c' = ocset s_FirmwareVersion cver (ocset s_FirmwareId cid c).
Proof.
  unfold exec_firmware, st_firmware. destruct (dget str_eqb s_Firmware i) as [p|].
  - destruct p as [s|dd]; cbn [sliceable bind]; [|discriminate].
    destruct (starts_with s_Dminus (slice 15 22 s)) eqn:D.
    + intro H; inversion H; subst. exists None, (Some (PStr (slice 0 4 s))), (Some (PStr (slice 15 22 s))).
      split; [|split; reflexivity]. exists s. repeat split; try reflexivity. rewrite D. reflexivity.
    + destruct (py_int 10 (slice 0 4 s)) as [idv|] eqn:P; cbn [bind]; [|discriminate].
      destruct (to_bytes_Z 2 idv) as [idb|] eqn:T; cbn [bind]; [|discriminate].
      destruct (mapM (py_int 10) (split_on 46 (slice 15 22 s))) as [vs|] eqn:M1; cbn [bind]; [|discriminate].
      destruct (mapM byte_of_Z vs) as [vb|] eqn:M2; cbn [bind]; [|discriminate].
      destruct (desc_get BF3TAG_TYPE d) as [tyb|] eqn:Ty; cbn [bind]; [|discriminate].
      apply desc_get_ok in Ty. apply to_bytes_Z_ok in T as [T1 T2].
      destruct (bytes_eqb tyb [n2b BF3TYPE_LOADER] || bytes_eqb tyb [n2b BF3TYPE_MAIN]) eqn:B;
        intro H; inversion H; subst.
      * exists (Some (be 2 (Z.to_N idv) ++ vb)), (Some (PStr (slice 0 4 s))), (Some (PStr (slice 15 22 s))).
        split; [|split; reflexivity]. exists s. repeat split; try reflexivity. rewrite D.
        exists idv, vs, vb, tyb. rewrite B. repeat split; try assumption; try reflexivity; lia.
      * exists None, (Some (PStr (slice 0 4 s))), (Some (PStr (slice 15 22 s))).
        split; [|split; reflexivity]. exists s. repeat split; try reflexivity. rewrite D.
        exists idv, vs, vb, tyb. rewrite B. repeat split; try assumption; try reflexivity; lia.
  - intro H; inversion H; subst. exists None, None, None. repeat split; reflexivity.
Qed.

Lemma exec_creator_nf i c c' : exec_creator i c = Ok c' ->
  exists v, st_creator i v /\ c' = ocset s_Creator v c.
Proof.
  unfold exec_creator, st_creator. destruct (dget str_eqb s_Creator i) as [[s|dd]|].
  - intro H; inversion H; subst. eexists. split; [exists s; split; reflexivity|reflexivity].
  - discriminate.
  - intro H; inversion H; subst. exists None. split; reflexivity.
Qed.

Lemma exec_select_if_nf i d od : exec_select_if i d = Ok od ->
  exists sup v, st_select_if i sup v /\
    od = if sup then Some (oset BF3TAG_INTF v d) else None.
Proof.
  unfold exec_select_if, st_select_if. destruct (dget str_eqb s_SELECT_IF i) as [p|].
  - destruct (sub_key p s_PROTOCOL) as [proto|] eqn:S; cbn [bind]; [|discriminate].
    destruct (str_eqb proto s_star) eqn:St.
    + intro H; inversion H; subst. exists true, None. split; [|reflexivity].
      exists proto. split; [reflexivity|]. rewrite St. split; reflexivity.
    + destruct (dget str_eqb proto BF2_INTERFACES) as [n|] eqn:B.
      * destruct (to_bytes 1 n) as [ib|] eqn:T; cbn [bind]; [|discriminate].
        intro H; inversion H; subst. apply to_bytes_ok in T as [T1 T2].
        exists true, (Some ib). split; [|reflexivity].
        exists proto. split; [reflexivity|]. rewrite St, B. split; [reflexivity|].
        split; [exact T2|rewrite T1; reflexivity].
      * intro H; inversion H; subst. exists false, None. split; [|reflexivity].
        exists proto. split; [reflexivity|]. rewrite St, B. split; reflexivity.
  - intro H; inversion H; subst. exists true, None. split; [split; reflexivity|reflexivity].
Qed.

(* The normal form of exec_bf2instrs.  Consumed: REBOOT, CRC, CHECK_FWVER;
   everything else stays in the instruction dict. *)
Theorem exec_normal_form i d c i' c' od : exec i d c = Ok (i', c', od) ->
  exists vR vC vP vH vK vF cid cver vCr sup vI,
    st_reboot i vR /\ st_crc i vC /\ st_select i (dget N.eqb BF3TAG_TYPE d) vP vH /\
    st_check i vK /\ st_firmware i (dget N.eqb BF3TAG_TYPE d) vF cid cver /\
    st_creator i vCr /\ st_select_if i sup vI /\
    i' = ddel str_eqb s_CHECK_FWVER (ddel str_eqb s_CRC (ddel str_eqb s_REBOOT i)) /\
    c' = ocset s_Bf3Update (dget str_eqb s_Bf3Update i)
           (ocset s_Creator vCr (ocset s_FirmwareVersion cver (ocset s_FirmwareId cid c))) /\
    od = if sup then
           Some (oset BF3TAG_INTF vI (oset BF3TAG_FWVER vF (oset BF3TAG_FWVER vK
                 (oset BF3TAG_HWCID vH (oset BF3TAG_PFID2 vP (oset BF3TAG_CRC vC
                 (oset BF3TAG_REBOOT vR d)))))))
         else None.
Proof.
  unfold exec.
  destruct (exec_reboot_nf i d) as [vR [HR ER]]. rewrite ER.
  destruct (exec_crc _ _) as [[i2 d2]|] eqn:E2; cbn [bind]; [|discriminate].
  destruct (exec_select i2 d2) as [d3|] eqn:E3; cbn [bind]; [|discriminate].
  destruct (exec_check_fwver i2 d3) as [[i4 d4]|] eqn:E4; cbn [bind]; [|discriminate].
  destruct (exec_firmware i4 d4 c) as [[d5 c5]|] eqn:E5; cbn [bind]; [|discriminate].
  destruct (exec_creator i4 c5) as [c6|] eqn:E6; cbn [bind]; [|discriminate].
  destruct (exec_select_if i4 d5) as [od'|] eqn:E7; cbn [bind]; [|discriminate].
  intro H; inversion H; subst i' c' od. clear H.
  apply exec_crc_nf in E2 as [vC [HC [Ei2 Ed2]]].
  apply exec_select_nf in E3 as [vP [vH [HS Ed3]]].
  apply exec_check_nf in E4 as [vK [HK [Ei4 Ed4]]].
  apply exec_firmware_nf in E5 as [vF [cid [cver [HF [Ed5 Ec5]]]]].
  apply exec_creator_nf in E6 as [vCr [HCr Ec6]].
  apply exec_select_if_nf in E7 as [sup [vI [HI Eod]]].
  (* instruction lookups are unaffected by the deletion of other keys *)
  assert (G : forall k, k <> s_REBOOT -> k <> s_CRC -> k <> s_CHECK_FWVER ->
              dget str_eqb k i4 = dget str_eqb k i).
  { intros k K1 K2 K3. subst i4 i2.
    rewrite !dget_ddel_other by (try exact str_eqb_eq; assumption). reflexivity. }
  assert (G2 : forall k, k <> s_REBOOT -> k <> s_CRC -> dget str_eqb k i2 = dget str_eqb k i).
  { intros k K1 K2. subst i2. rewrite !dget_ddel_other by (try exact str_eqb_eq; assumption). reflexivity. }
  assert (GC : dget str_eqb s_CRC (ddel str_eqb s_REBOOT i) = dget str_eqb s_CRC i).
  { apply dget_ddel_other; [exact str_eqb_eq|discriminate]. }
  (* TYPE is never written *)
  assert (T2 : dget N.eqb BF3TAG_TYPE d2 = dget N.eqb BF3TAG_TYPE d).
  { subst d2. rewrite !dget_oset. reflexivity. }
  assert (T4 : dget N.eqb BF3TAG_TYPE d4 = dget N.eqb BF3TAG_TYPE d).
  { subst d4 d3. rewrite !dget_oset. cbn. exact T2. }
  exists vR, vC, vP, vH, vK, vF, cid, cver, vCr, sup, vI.
  split; [exact HR|].
  split; [unfold st_crc in *; rewrite GC in HC; exact HC|].
  split; [unfold st_select in *; rewrite G2 in HS by discriminate; rewrite T2 in HS; exact HS|].
  split; [unfold st_check in *; rewrite G2 in HK by discriminate; exact HK|].
  split; [unfold st_firmware in *; rewrite G in HF by discriminate; rewrite T4 in HF; exact HF|].
  split; [unfold st_creator in *; rewrite G in HCr by discriminate; exact HCr|].
  split; [unfold st_select_if in *; rewrite G in HI by discriminate; exact HI|].
  split; [subst; reflexivity|].
  split.
  - unfold exec_bf3update. rewrite G by discriminate. subst c6 c5.
    destruct (dget str_eqb s_Bf3Update i); reflexivity.
  - subst. reflexivity.
Qed.

(* ---------------------------------------------------------------------------- *)
(* emit_bf3comp                                                                  *)

(* the description a section starts with, from the BF2_TAGTYPE_MAP entry *)
Definition initial_desc (ty fmt : N) (hw intf : option N) : desc :=
  oset BF3TAG_INTF (option_map (fun x => [n2b x]) intf)
    (oset BF3TAG_HWCID (option_map (be 2) hw)
       [(BF3TAG_FMT, [n2b fmt]); (BF3TAG_TYPE, [n2b ty])]).

Definition emit_result (data : list line) (i : idict) (c : cdict)
           (i' : idict) (c' : cdict) (oc : option comp) : Prop :=
  exists l0 rest oty hw ofmt intf,
    data = l0 :: rest /\
    dget N.eqb (l_type l0) BF2_TAGTYPE_MAP = Some (oty, hw, ofmt, intf) /\
    match oty with
    | None => i' = i /\ c' = c /\ oc = None                       (* ignored tag type *)
    | Some ty =>
      exists fmt od, ofmt = Some fmt /\ ty < 256 /\ fmt < 256 /\
        exec i (initial_desc ty fmt hw intf) c = Ok (i', c', od) /\
        match od with
        | None => oc = None                                       (* unsupported interface *)
        | Some d => exists blob, convert data fmt = Ok blob /\ oc = Some (mkComp d blob)
        end
    end.

Lemma to_bytes1_ok v b : to_bytes 1 v = Ok b -> v < 256 /\ b = [n2b v].
Proof. intro H. apply to_bytes_ok in H as [H1 H2]. split; [exact H2|rewrite H1; reflexivity]. Qed.

Lemma emit_tail i c d0 data fmt i' c' oc :
  match exec i d0 c with
  | Ok (i2, c2, Some d) => let* content := convert data fmt in
                           Ok (i2, c2, Some (mkComp d content))
  | Ok (i2, c2, None) => Ok (i2, c2, None)
  | Err e => if caught_emit e then Err EBf3 else Err e
  end = Ok (i', c', oc) ->
  exists od, exec i d0 c = Ok (i', c', od) /\
    match od with
    | None => oc = None
    | Some d => exists blob, convert data fmt = Ok blob /\ oc = Some (mkComp d blob)
    end.
Proof.
  destruct (exec i d0 c) as [[[i2 c2] [d|]]|e].
  - destruct (convert data fmt) as [blob|]; cbn [bind]; [|discriminate].
    intro H; inversion H; subst. exists (Some d). split; [reflexivity|]. exists blob. split; reflexivity.
  - intro H; inversion H; subst. exists None. split; reflexivity.
  - destruct (caught_emit e); discriminate.
Qed.

Lemma emit_spec data i c i' c' oc : emit data i c = Ok (i', c', oc) -> emit_result data i c i' c' oc.
Proof.
  unfold emit, emit_result. destruct data as [|l0 rest]; [discriminate|].
  destruct (dget N.eqb (l_type l0) BF2_TAGTYPE_MAP) as [[[[oty hw] ofmt] intf]|] eqn:M; [|discriminate].
  destruct oty as [ty|].
  - destruct ofmt as [fmt|]; [|discriminate].
    destruct (to_bytes 1 fmt) as [fmtb|] eqn:F; cbn [bind]; [|discriminate].
    destruct (to_bytes 1 ty) as [tyb|] eqn:T; cbn [bind]; [|discriminate].
    apply to_bytes1_ok in F as [F1 F2]. apply to_bytes1_ok in T as [T1 T2]. subst fmtb tyb.
    intro H.
    exists l0, rest, (Some ty), hw, (Some fmt), intf. split; [reflexivity|]. split; [exact M|].
    exists fmt.
    assert (G : forall d0, d0 = initial_desc ty fmt hw intf ->
      match exec i d0 c with
      | Ok (i2, c2, Some d) => let* content := convert (l0 :: rest) fmt in
                               Ok (i2, c2, Some (mkComp d content))
      | Ok (i2, c2, None) => Ok (i2, c2, None)
      | Err e => if caught_emit e then Err EBf3 else Err e
      end = Ok (i', c', oc) ->
      exists od, Some fmt = Some fmt /\ ty < 256 /\ fmt < 256 /\
        exec i (initial_desc ty fmt hw intf) c = Ok (i', c', od) /\
        match od with
        | None => oc = None
        | Some d => exists blob, convert (l0 :: rest) fmt = Ok blob /\ oc = Some (mkComp d blob)
        end).
    { intros d0 -> X. apply emit_tail in X as [od [X Y]]. exists od.
      split; [reflexivity|]. split; [exact T1|]. split; [exact F1|]. split; [exact X|exact Y]. }
    revert H. unfold initial_desc in G.
    destruct hw as [h|].
    + destruct (to_bytes 2 h) as [hb|] eqn:TH; cbn [bind]; [|discriminate].
      apply to_bytes_ok in TH as [TH1 _]. subst hb.
      destruct intf as [x|].
      * destruct (to_bytes 1 x) as [xb|] eqn:TX; cbn [bind]; [|discriminate].
        apply to_bytes1_ok in TX as [_ TX]. subst xb. apply G. reflexivity.
      * cbn [bind]. apply G. reflexivity.
    + cbn [bind]. destruct intf as [x|].
      * destruct (to_bytes 1 x) as [xb|] eqn:TX; cbn [bind]; [|discriminate].
        apply to_bytes1_ok in TX as [_ TX]. subst xb. apply G. reflexivity.
      * apply G. reflexivity.
  - intro H; inversion H; subst.
    exists l0, rest, None, hw, ofmt, intf. split; [reflexivity|]. split; [exact M|]. repeat split; reflexivity.
Qed.

(* every closed section is the result of emit_bf3comp on exactly its lines *)
Definition section_ok (e : option comp * list line) : Prop :=
  exists i c i' c', emit_result (snd e) i c i' c' (fst e).

Lemma emit_keep_log s s' : emit_keep s = Ok s' -> Forall section_ok (s_log s) -> Forall section_ok (s_log s').
Proof.
  unfold emit_keep. destruct (emit (s_data s) (s_instrs s) (s_comments s)) as [[[i c] oc]|e] eqn:E;
    cbn [bind]; [|discriminate].
  apply emit_spec in E. destruct oc as [cp|]; intro H; inversion H; subst; cbn [s_log]; intro F.
  - apply Forall_app. split; [exact F|]. constructor; [|constructor].
    exists (s_instrs s), (s_comments s), i, c. exact E.
  - exact F.
Qed.

Lemma emit_drop_log s s' : emit_drop s = Ok s' -> Forall section_ok (s_log s) -> Forall section_ok (s_log s').
Proof.
  unfold emit_drop. destruct (emit (s_data s) (s_instrs s) (s_comments s)) as [[[i c] oc]|e] eqn:E;
    cbn [bind]; [|discriminate].
  apply emit_spec in E. intro H; inversion H; subst; cbn [s_log]; intro F.
  apply Forall_app. split; [exact F|]. constructor; [|constructor].
  exists (s_instrs s), (s_comments s), i, c. exact E.
Qed.

Definition load_known (t : token) : Prop :=
  match t with
  | Load (l0 :: _) => is_known_tagtype (l_type l0) = true
  | Load [] => False
  | Instr _ _ => True
  end.

Lemma step_log s t s' : step s t = Ok s' ->
  Forall section_ok (s_log s) -> Forall section_ok (s_log s') /\ load_known t.
Proof.
  destruct t as [ls|name p]; cbn [step load_known].
  - destruct ls as [|l0 ls']; [discriminate|].
    destruct (is_known_tagtype (l_type l0)) eqn:K; cbn [negb]; [|discriminate].
    destruct (dmem N.eqb (l_type l0) BF2_TAGTYPE_MAP && nonempty (s_data s)).
    + destruct (emit_drop s) as [s1|e] eqn:E; cbn [bind]; [|discriminate].
      intro H; inversion H; subst. cbn [s_log]. intro F. split; [|reflexivity].
      exact (emit_drop_log _ _ E F).
    + intro H; inversion H; subst. cbn [s_log]. intro F. split; [exact F|reflexivity].
  - destruct (str_eqb name s_load); [destruct p as [[|? ?]|?]; discriminate|].
    destruct (str_eqb name s_CHECK_FWVER && dmem str_eqb s_CHECK_FWVER (s_instrs s)).
    + destruct (emit_keep s) as [s1|e] eqn:E; cbn [bind]; [|discriminate].
      destruct (str_eqb name s_REBOOT).
      * intros H F. split; [|exact I]. apply (emit_keep_log _ _ H). cbn [s_log].
        exact (emit_keep_log _ _ E F).
      * intro H; inversion H; subst. cbn [s_log]. intro F. split; [|exact I]. exact (emit_keep_log _ _ E F).
    + cbn [bind]. destruct (str_eqb name s_REBOOT).
      * intros H F. split; [|exact I]. apply (emit_keep_log _ _ H). cbn [s_log]. exact F.
      * intro H; inversion H; subst. cbn [s_log]. intro F. split; [exact F|exact I].
Qed.

Lemma foldM_step_log : forall toks s s', foldM step toks s = Ok s' ->
  Forall section_ok (s_log s) -> Forall section_ok (s_log s') /\ Forall load_known toks.
Proof.
  induction toks as [|t ts IH]; intros s s'; cbn [foldM].
  - intro H; inversion H; subst. intro F. split; [exact F|constructor].
  - destruct (step s t) as [s1|e] eqn:E; cbn [bind]; [|discriminate].
    intros H F. destruct (step_log _ _ _ E F) as [F1 K]. destruct (IH _ _ H F1) as [F2 K2].
    split; [exact F2|constructor; assumption].
Qed.

Theorem run_sections toks s : run toks = Ok s ->
  Forall section_ok (s_log s) /\ Forall load_known toks.
Proof.
  unfold run. destruct (foldM step toks (mkSt [] [] [] [])) as [s0|e] eqn:E; cbn [bind]; [|discriminate].
  destruct (foldM_step_log _ _ _ E (Forall_nil _)) as [F K].
  destruct (nonempty (s_data s0)).
  - intro H. split; [exact (emit_drop_log _ _ H F)|exact K].
  - intro H; inversion H; subst. split; assumption.
Qed.

(* ---------------------------------------------------------------------------- *)
(* the Bf3Update marker                                                          *)

Definition has_marker (toks : list token) : Prop := exists p, In (Instr s_Bf3Update p) toks.

Definition no_marker_state (i : idict) (c : cdict) : Prop :=
  dmem str_eqb s_Bf3Update i = false /\ dmem str_eqb s_Bf3Update c = false.

Lemma dmem_ocset_other k k' ov (c : cdict) : k <> k' ->
  dmem str_eqb k (ocset k' ov c) = dmem str_eqb k c.
Proof.
  intro H. destruct ov; cbn [ocset]; [|reflexivity].
  apply dmem_dset_other; [exact str_eqb_eq|exact H].
Qed.

Lemma exec_no_marker i d c i' c' od : exec i d c = Ok (i', c', od) ->
  no_marker_state i c -> no_marker_state i' c'.
Proof.
  intros H [N1 N2]. apply exec_normal_form in H.
  destruct H as (vR & vC & vP & vH & vK & vF & cid & cver & vCr & sup & vI & _ & _ & _ & _ & _ & _ & _ & Hi & Hc & _).
  split.
  - subst i'. rewrite !dmem_ddel_other by (try exact str_eqb_eq; discriminate). exact N1.
  - subst c'. unfold dmem in N1. destruct (dget str_eqb s_Bf3Update i); [discriminate|]. cbn [ocset].
    rewrite !dmem_ocset_other by discriminate. exact N2.
Qed.

Lemma emit_no_marker data i c i' c' oc : emit data i c = Ok (i', c', oc) ->
  no_marker_state i c -> no_marker_state i' c'.
Proof.
  intros H N. apply emit_spec in H.
  destruct H as (l0 & rest & oty & hw & ofmt & intf & _ & _ & H).
  destruct oty as [ty|].
  - destruct H as (fmt & od & _ & _ & _ & X & _). exact (exec_no_marker _ _ _ _ _ _ X N).
  - destruct H as [-> [-> _]]. exact N.
Qed.

Lemma emit_keep_no_marker s s' : emit_keep s = Ok s' ->
  no_marker_state (s_instrs s) (s_comments s) -> no_marker_state (s_instrs s') (s_comments s').
Proof.
  unfold emit_keep. destruct (emit (s_data s) (s_instrs s) (s_comments s)) as [[[i c] oc]|e] eqn:E;
    cbn [bind]; [|discriminate].
  intros H N. pose proof (emit_no_marker _ _ _ _ _ _ E N).
  destruct oc; inversion H; subst; exact H0.
Qed.

Lemma emit_drop_no_marker s s' : emit_drop s = Ok s' ->
  no_marker_state (s_instrs s) (s_comments s) -> no_marker_state (s_instrs s') (s_comments s').
Proof.
  unfold emit_drop. destruct (emit (s_data s) (s_instrs s) (s_comments s)) as [[[i c] oc]|e] eqn:E;
    cbn [bind]; [|discriminate].
  intros H N. pose proof (emit_no_marker _ _ _ _ _ _ E N). inversion H; subst; exact H0.
Qed.

Lemma step_no_marker s t s' : step s t = Ok s' ->
  (forall p, t <> Instr s_Bf3Update p) ->
  no_marker_state (s_instrs s) (s_comments s) -> no_marker_state (s_instrs s') (s_comments s').
Proof.
  destruct t as [ls|name p]; cbn [step].
  - destruct ls as [|l0 ls']; [discriminate|].
    destruct (negb (is_known_tagtype (l_type l0))); [discriminate|].
    destruct (dmem N.eqb (l_type l0) BF2_TAGTYPE_MAP && nonempty (s_data s)).
    + destruct (emit_drop s) as [s1|e] eqn:E; cbn [bind]; [|discriminate].
      intro H; inversion H; subst. cbn [s_instrs s_comments]. intros _ N.
      exact (emit_drop_no_marker _ _ E N).
    + intro H; inversion H; subst. cbn [s_instrs s_comments]. intros _ N. exact N.
  - destruct (str_eqb name s_load); [destruct p as [[|? ?]|?]; discriminate|].
    intros H Hn.
    assert (Hname : name <> s_Bf3Update) by (intro E; subst; exact (Hn p eq_refl)).
    assert (K : forall s1, no_marker_state (s_instrs s1) (s_comments s1) ->
                no_marker_state (dset str_eqb name p (s_instrs s1)) (s_comments s1)).
    { intros s1 [N1 N2]. split; [|exact N2].
      rewrite dmem_dset_other; [exact N1|exact str_eqb_eq|]. intro E. apply Hname. symmetry. exact E. }
    revert H.
    destruct (str_eqb name s_CHECK_FWVER && dmem str_eqb s_CHECK_FWVER (s_instrs s)).
    + destruct (emit_keep s) as [s1|e] eqn:E; cbn [bind]; [|discriminate].
      destruct (str_eqb name s_REBOOT).
      * intros H N. apply (emit_keep_no_marker _ _ H). cbn [s_instrs s_comments].
        apply K. exact (emit_keep_no_marker _ _ E N).
      * intro H; inversion H; subst. cbn [s_instrs s_comments]. intro N.
        apply K. exact (emit_keep_no_marker _ _ E N).
    + cbn [bind]. destruct (str_eqb name s_REBOOT).
      * intros H N. apply (emit_keep_no_marker _ _ H). cbn [s_instrs s_comments]. apply K. exact N.
      * intro H; inversion H; subst. cbn [s_instrs s_comments]. intro N. apply K. exact N.
Qed.

Lemma foldM_no_marker : forall toks s s', foldM step toks s = Ok s' ->
  ~ has_marker toks ->
  no_marker_state (s_instrs s) (s_comments s) -> no_marker_state (s_instrs s') (s_comments s').
Proof.
  induction toks as [|t ts IH]; intros s s'; cbn [foldM].
  - intro H; inversion H; subst. intros _ N. exact N.
  - destruct (step s t) as [s1|e] eqn:E; cbn [bind]; [|discriminate].
    intros H Hm N. apply (IH _ _ H).
    + intros [p Hp]. apply Hm. exists p. right. exact Hp.
    + apply (step_no_marker _ _ _ E); [|exact N].
      intros p Ep. apply Hm. exists p. left. exact Ep.
Qed.

Theorem no_marker_rejected toks : ~ has_marker toks ->
  exists e, bf2_import toks true = Err e /\
            (forall s, run toks = Ok s -> e = EUnsupLegacy).
Proof.
  intro Hm. unfold bf2_import. destruct (run toks) as [s|e] eqn:R; cbn [bind].
  - exists EUnsupLegacy. split; [|reflexivity].
    assert (N : no_marker_state (s_instrs s) (s_comments s)).
    { unfold run in R. destruct (foldM step toks (mkSt [] [] [] [])) as [s0|e0] eqn:E; cbn [bind] in R; [|discriminate].
      pose proof (foldM_no_marker _ _ _ E Hm (conj eq_refl eq_refl)) as N0.
      destruct (nonempty (s_data s0)).
      - exact (emit_drop_no_marker _ _ R N0).
      - inversion R; subst. exact N0. }
    unfold finish. destruct N as [_ N2]. rewrite N2. reflexivity.
  - exists e. split; [reflexivity|]. intros s H. discriminate.
Qed.

(* accepted with enforcement => the comments carry the marker *)
Lemma dmem_dset_mono {V} k k' (v : V) d : dmem str_eqb k d = true -> dmem str_eqb k (dset str_eqb k' v d) = true.
Proof.
  unfold dmem. induction d as [|[k2 v2] t IH]; cbn [dget dset]; [discriminate|].
  destruct (str_eqb k' k2) eqn:E.
  - apply str_eqb_eq in E. subst k2. cbn [dget]. destruct (str_eqb k k'); intro H; [reflexivity|exact H].
  - cbn [dget]. destruct (str_eqb k k2); [reflexivity|exact IH].
Qed.

Lemma dmem_dupdate_mono {V} k (kv : list (str * V)) : forall d,
  dmem str_eqb k d = true -> dmem str_eqb k (dupdate str_eqb d kv) = true.
Proof.
  unfold dupdate. induction kv as [|[k' v] t IH]; intros d H; cbn [fold_left]; [exact H|].
  apply IH. cbn [fst snd]. apply dmem_dset_mono. exact H.
Qed.

(* ---------------------------------------------------------------------------- *)
(* the returned component list is a permutation of the converted sections        *)

Lemma insert_by_perm {A} (leb : A -> A -> bool) x l : Permutation (insert_by leb x l) (x :: l).
Proof.
  induction l as [|y t IH]; cbn [insert_by]; [apply Permutation_refl|].
  destruct (leb x y); [apply Permutation_refl|].
  eapply Permutation_trans; [apply perm_skip, IH|apply perm_swap].
Qed.

Lemma sort_by_perm {A} (leb : A -> A -> bool) l : Permutation (sort_by leb l) l.
Proof.
  induction l as [|x t IH]; [apply Permutation_refl|]. unfold sort_by in *. cbn [fold_right].
  eapply Permutation_trans; [apply insert_by_perm|apply perm_skip, IH].
Qed.

Lemma keyed_snd : forall cs keyed,
  mapM (fun c => let* k := desc_get BF3TAG_TYPE (c_desc c) in Ok (k, c)) cs = Ok keyed ->
  map snd keyed = cs.
Proof.
  induction cs as [|c t IH]; intros keyed; cbn [mapM].
  - intro H; inversion H; reflexivity.
  - destruct (desc_get BF3TAG_TYPE (c_desc c)) as [k|]; cbn [bind]; [|discriminate].
    destruct (mapM _ t) as [r|] eqn:M; cbn [bind]; [|discriminate].
    intro H; inversion H; subst. cbn [map snd]. rewrite (IH r eq_refl). reflexivity.
Qed.

Lemma sort_comps_perm cs sorted : sort_comps cs = Ok sorted -> Permutation sorted cs.
Proof.
  unfold sort_comps. destruct (mapM _ cs) as [keyed|] eqn:M; cbn [bind]; [|discriminate].
  intro H; inversion H; subst. rewrite <- (keyed_snd _ _ M).
  apply Permutation_map. apply sort_by_perm.
Qed.

Theorem import_sections toks enforce cm cs : bf2_import toks enforce = Ok (cm, cs) ->
  exists s, run toks = Ok s /\
    log_lines (s_log s) = all_lines toks /\
    Forall section_ok (s_log s) /\
    Forall load_known toks /\
    Permutation cs (comps_of (s_log s)) /\
    (enforce = true -> dmem str_eqb s_Bf3Update cm = true).
Proof.
  unfold bf2_import. destruct (run toks) as [s|e] eqn:R; cbn [bind]; [|discriminate].
  intro H. exists s. split; [reflexivity|].
  destruct (run_no_loss _ _ R) as [L _]. destruct (run_sections _ _ R) as [F K].
  split; [exact L|]. split; [exact F|]. split; [exact K|].
  unfold finish in H.
  destruct (enforce && negb (dmem str_eqb s_Bf3Update (s_comments s))) eqn:En; [discriminate|].
  destruct (sort_comps (comps_of (s_log s))) as [sorted|] eqn:S; cbn [bind] in H; [|discriminate].
  destruct (annotations sorted) as [ann|] eqn:A; cbn [bind] in H; [|discriminate].
  inversion H; subst. split; [exact (sort_comps_perm _ _ S)|].
  intros ->. cbn [andb] in En. apply negb_false_iff in En.
  apply dmem_dupdate_mono. exact En.
Qed.

(* ---------------------------------------------------------------------------- *)
(* the summary comment names the component kind and carries the printed filter   *)

Definition kind_text (d : desc) (base : str) : Prop :=
  exists tyb, dget N.eqb BF3TAG_TYPE d = Some tyb /\
  let ty := from_be tyb in
  (ty = BF3TYPE_MAIN /\ base = s_Main) \/
  (ty = BF3TYPE_LOADER /\ exists ib nm, dget N.eqb BF3TAG_INTF d = Some ib /\
      rev_lookup (from_be ib) BF3INTF_names = Some nm /\ base = nm ++ s_Loader) \/
  (ty = BF3TYPE_PERIPHERAL /\ exists hb vs, dget N.eqb BF3TAG_HWCID d = Some hb /\
      let name := match rev_lookup (from_be hb) HWCID_MAP with
                  | Some n => n | None => s_HWC ++ hex_str (from_be hb) end in
      version_str name (dget N.eqb BF3TAG_FWVER d) = Ok vs /\
      base = name ++ s_Firmware_sp ++ vs).

Theorem annotation_shape c s : annotation c = Ok s ->
  exists base, kind_text (c_desc c) base /\
    match dget N.eqb BF3TAG_PFID2 (c_desc c) with
    | None => s = base
    | Some f => filter_header_ok f = true /\
                s = base ++ s_pfid_open ++ print_expr (filter_expr f) ++ [93]
    end.
Proof.
  unfold annotation.
  destruct (desc_get BF3TAG_TYPE (c_desc c)) as [tyb|] eqn:T; cbn [bind]; [|discriminate].
  apply desc_get_ok in T.
  match goal with |- (let* base := ?B in _) = _ -> _ => destruct B as [base|] eqn:EB end; cbn [bind]; [|discriminate].
  intro H. exists base. split.
  - exists tyb. split; [exact T|]. cbv zeta.
    destruct (from_be tyb =? BF3TYPE_MAIN) eqn:E1.
    + left. apply N.eqb_eq in E1. inversion EB. split; [exact E1|reflexivity].
    + destruct (from_be tyb =? BF3TYPE_LOADER) eqn:E2.
      * right. left. apply N.eqb_eq in E2. split; [exact E2|].
        destruct (dget N.eqb BF3TAG_INTF (c_desc c)) as [ib|] eqn:I; cbn [bind] in EB; [|discriminate].
        destruct (rev_lookup (from_be ib) BF3INTF_names) as [nm|] eqn:R; [|discriminate].
        inversion EB. exists ib, nm. repeat split; assumption.
      * destruct (from_be tyb =? BF3TYPE_PERIPHERAL) eqn:E3; [|discriminate].
        right. right. apply N.eqb_eq in E3. split; [exact E3|].
        destruct (desc_get BF3TAG_HWCID (c_desc c)) as [hb|] eqn:Hh; cbn [bind] in EB; [|discriminate].
        apply desc_get_ok in Hh.
        match type of EB with (let* vs := ?V in _) = _ => destruct V as [vs|] eqn:EV end; cbn [bind] in EB; [|discriminate].
        inversion EB. exists hb, vs. split; [exact Hh|]. split; [exact EV|reflexivity].
  - destruct (dget N.eqb BF3TAG_PFID2 (c_desc c)) as [f|].
    + rewrite Bf2FilterProofs.filter_str_is_printed_expr in H.
      destruct (filter_header_ok f); cbn [bind] in H; [|discriminate].
      inversion H. split; reflexivity.
    + inversion H. reflexivity.
Qed.

(* ---------------------------------------------------------------------------- *)
(* the tables                                                                    *)

Lemma dget_In {V} k (v : V) d : dget N.eqb k d = Some v -> In (k, v) d.
Proof.
  induction d as [|[k' v'] t IH]; cbn [dget]; [discriminate|].
  destruct (k =? k') eqn:E.
  - apply N.eqb_eq in E. intro H; inversion H; subst. left. reflexivity.
  - intro H. right. exact (IH H).
Qed.

Lemma table_pinned :
  BF2_TAGTYPE_MAP =
  [(0x34, (None, None, None, None));
   (0x35, (Some BF3TYPE_PERIPHERAL, Some 0x9B, Some BF3FMT_BLOB, Some BF3INTF_NFC));
   (0x39, (Some BF3TYPE_PERIPHERAL, Some 0xBE, Some BF3FMT_BLOB, None));
   (0x3D, (Some BF3TYPE_PERIPHERAL, Some 0xAD, Some BF3FMT_BLOB, Some BF3INTF_NFC));
   (0x40, (Some BF3TYPE_PERIPHERAL, Some 0xC0, Some BF3FMT_BLOB, Some BF3INTF_NFC));
   (0x48, (None, None, None, None));
   (0x70, (Some BF3TYPE_LOADER, None, Some BF3FMT_BF2COMPATIBLE, None));
   (0x83, (Some BF3TYPE_LOADER, None, Some BF3FMT_BF2COMPATIBLE, None));
   (0x84, (Some BF3TYPE_MAIN, None, Some BF3FMT_BF2COMPATIBLE, None))]
  /\ (forall t, t < 256 -> is_known_tagtype t =
        ((0x34 <=? t) && (t <=? 0x3E) || (0x40 <=? t) && (t <=? 0x48)
         || (0x70 <=? t) && (t <=? 0x73) || (0x83 <=? t) && (t <=? 0xA3)))
  /\ (forall t v, dget N.eqb t BF2_TAGTYPE_MAP = Some v -> is_known_tagtype t = true).
Proof.
  split; [reflexivity|]. split.
  - intros t Ht.
    set (P := fun t => Bool.eqb (is_known_tagtype t)
        ((0x34 <=? t) && (t <=? 0x3E) || (0x40 <=? t) && (t <=? 0x48)
         || (0x70 <=? t) && (t <=? 0x73) || (0x83 <=? t) && (t <=? 0xA3))).
    assert (HP : P t = true) by (apply (Base.Sweep.sweep P 256); [vm_compute; reflexivity|exact Ht]).
    unfold P in HP. apply Bool.eqb_prop in HP. exact HP.
  - intros t v H. apply dget_In in H.
    assert (F : forallb (fun p => is_known_tagtype (fst p)) BF2_TAGTYPE_MAP = true) by (vm_compute; reflexivity).
    rewrite forallb_forall in F. exact (F _ H).
Qed.

(* ---------------------------------------------------------------------------- *)
(* sections of an accepted import, by format                                     *)

Lemma n2b_inj_small a b : a < 256 -> b < 256 -> n2b a = n2b b -> a = b.
Proof.
  intros Ha Hb H. rewrite <- (b2n_n2b_small a Ha), <- (b2n_n2b_small b Hb), H. reflexivity.
Qed.

Lemma section_fmt cp src : section_ok (Some cp, src) ->
  exists fmt, fmt < 256 /\ dget N.eqb BF3TAG_FMT (c_desc cp) = Some [n2b fmt] /\
              convert src fmt = Ok (c_blob cp).
Proof.
  intros (i & c & i' & c' & H). cbn [fst snd] in H.
  destruct H as (l0 & rest & oty & hw & ofmt & intf & Hs & HM & H).
  destruct oty as [ty|]; [|destruct H as [_ [_ H]]; discriminate].
  destruct H as (fmt & od & -> & Ht & Hf & X & H).
  destruct od as [d|]; [|discriminate].
  destruct H as (blob & Cv & Hc). inversion Hc; subst cp. cbn [c_desc c_blob].
  exists fmt. split; [exact Hf|]. split; [|exact Cv].
  apply exec_normal_form in X.
  destruct X as (vR & vC & vP & vH & vK & vF & cid & cver & vCr & sup & vI & _ & _ & _ & _ & _ & _ & _ & _ & _ & Hd).
  destruct sup; [|discriminate]. inversion Hd; subst d.
  rewrite !dget_oset. cbn.
  unfold initial_desc. rewrite !dget_oset. reflexivity.
Qed.

Theorem section_blob cp src :
  section_ok (Some cp, src) -> Forall Bf2UnpackProofs.wf_line src ->
  Bf2UnpackProofs.ascending (Bf2UnpackProofs.first_type src) src ->
  dget N.eqb BF3TAG_FMT (c_desc cp) = Some [n2b BF3FMT_BLOB] ->
  Bf2UnpackProofs.contig (Bf2UnpackProofs.first_type src) 0 src /\
  c_blob cp = concat (map Bf2UnpackProofs.line_data src) /\
  forall a, Bf2UnpackProofs.image_of (Bf2UnpackProofs.first_type src) src a =
            Bf2UnpackProofs.in_extent (0%Z, c_blob cp) a.
Proof.
  intros Hs Hwf Ha Hf.
  assert (Hne : src <> []).
  { destruct Hs as (i & c & i' & c' & (l0 & rest & ? & ? & ? & ? & E & _)). cbn [snd] in E. rewrite E. discriminate. }
  destruct (section_fmt cp src Hs) as (fmt & Hlt & Hg & Cv).
  rewrite Hg in Hf. inversion Hf as [Hn].
  apply n2b_inj_small in Hn; [|exact Hlt|reflexivity]. subst fmt.
  apply (Bf2UnpackProofs.blob_iff src Hne Hwf Ha) in Cv as [Hc Hb].
  split; [exact Hc|]. split; [exact Hb|].
  apply Bf2UnpackProofs.blob_image; assumption.
Qed.

Theorem section_compat cp src :
  section_ok (Some cp, src) ->
  dget N.eqb BF3TAG_FMT (c_desc cp) = Some [n2b BF3FMT_BF2COMPATIBLE] ->
  c_blob cp = concat (map l_raw src).
Proof.
  intros Hs Hf. destruct (section_fmt cp src Hs) as (fmt & Hlt & Hg & Cv).
  rewrite Hg in Hf. inversion Hf as [Hn].
  apply n2b_inj_small in Hn; [|exact Hlt|reflexivity]. subst fmt.
  rewrite Bf2UnpackProofs.compat_concat in Cv. inversion Cv. reflexivity.
Qed.

Theorem unknown_rejected toks enforce pre ls post l0 rest :
  toks = pre ++ Load ls :: post -> ls = l0 :: rest -> is_known_tagtype (l_type l0) = false ->
  exists e, bf2_import toks enforce = Err e.
Proof.
  intros -> -> K. destruct (bf2_import (pre ++ Load (l0 :: rest) :: post) enforce) as [[cm cs]|e] eqn:E.
  - apply import_sections in E as (s & _ & _ & _ & F & _).
    rewrite Forall_forall in F. specialize (F (Load (l0 :: rest))).
    cbn [load_known] in F. rewrite K in F. assert (false = true) by (apply F; apply in_or_app; right; left; reflexivity).
    discriminate.
  - exists e. reflexivity.
Qed.

(* ---------------------------------------------------------------------------- *)
(* rejections that used to be non-format exceptions                              *)

(* a loader component without an interface tag has no summary comment: format error *)
Theorem loader_without_interface c tyb :
  dget N.eqb BF3TAG_TYPE (c_desc c) = Some tyb -> from_be tyb = BF3TYPE_LOADER ->
  dget N.eqb BF3TAG_INTF (c_desc c) = None -> annotation c = Err EBf3.
Proof.
  intros T L I. unfold annotation, desc_get. rewrite T. cbn [bind]. rewrite L.
  change (BF3TYPE_LOADER =? BF3TYPE_MAIN) with false. change (BF3TYPE_LOADER =? BF3TYPE_LOADER) with true.
  cbv iota. rewrite I. reflexivity.
Qed.

(* the exception classes of exec_bf2instrs that emit_bf3comp turns into Bf3FileFormatError *)
Lemma emit_catches : caught_emit EOverflow = true /\ caught_emit EValue = true /\
  caught_emit EIndex = true /\ caught_emit EKey = true /\ caught_emit EType = true.
Proof. repeat split. Qed.

(* a header line named "load" is refused by the parser *)
Theorem load_header_rejected value : parse_meta_line (s_load ++ [58] ++ value) = Err EValue \/
  exists c, In c value /\ c = 58.
Proof.
  destruct (existsb (fun c => c =? 58) value) eqn:E.
  - right. apply existsb_exists in E as [c [Hc E]]. apply N.eqb_eq in E. exists c. split; assumption.
  - left. unfold parse_meta_line.
    assert (S : forall v acc, existsb (fun c => c =? 58) v = false -> split_on_acc 58 v acc = [rev acc ++ v]).
    { induction v as [|x t IH]; intros acc H.
      - cbn. rewrite app_nil_r. reflexivity.
      - cbn [existsb] in H. apply orb_false_iff in H as [H1 H2]. cbn [split_on_acc]. rewrite H1.
        rewrite IH by exact H2. cbn [rev]. rewrite <- app_assoc. reflexivity. }
    unfold split_on. change (s_load ++ [58] ++ value) with (108 :: 111 :: 97 :: 100 :: 58 :: value).
    cbn [split_on_acc]. change (108 =? 58) with false. change (111 =? 58) with false.
    change (97 =? 58) with false. change (100 =? 58) with false. change (58 =? 58) with true. cbv iota.
    rewrite (S value [] E). cbn [rev app]. change (str_eqb [108; 111; 97; 100] s_load) with true. reflexivity.
Qed.
