(* C19 - primality of ALL field primes and group orders of the shipped curves.

   As Proofs/CurvePrimes.v, with the certificates of the large numbers (Proofs/PrimeCertsBig*.v):
   every one of the 17 + 17 generated numbers is looked up in the committed certificate tables,
   both in Gen/KeyOids.v (the rows behind Model/KeyCodec.v) and in Gen/Curves.v (the records behind
   Model/Ec.v, C17).  Used by Properties/C19Big.v, which every `bin/check C19` run builds, but which
   is outside the cone that the thorough tier re-checks with coqchk (see Proofs/CurvePrimes.v). *)
From Coq Require Import List Bool ZArith NArith Lia Znumtheory.
From Bec2 Require Import Base.Result Gen.KeyOids Proofs.Pocklington Proofs.PrimeCerts Proofs.PrimeCertsBig
  Proofs.PrimeCertsBig2 Proofs.PrimeCertsBig3 Proofs.CurvePrimes.
From Bec2 Require Gen.Curves.
Import ListNotations.
Open Scope Z_scope.

Definition all_certs : list (Z * cert) :=
  prime_certs ++ prime_certs_big ++ prime_certs_big2 ++ prime_certs_big3.

Lemma all_certs_prime : forall N c, In (N, c) all_certs -> prime N.
Proof.
  intros N c H. unfold all_certs in H.
  apply in_app_or in H as [H|H]; [exact (prime_certs_prime N c H)|].
  apply in_app_or in H as [H|H]; [exact (prime_certs_big_prime N c H)|].
  apply in_app_or in H as [H|H]; [exact (prime_certs_big2_prime N c H) | exact (prime_certs_big3_prime N c H)].
Qed.

Definition certified (N : Z) : bool := has_cert all_certs N.

Lemma certified_prime N : certified N = true -> prime N.
Proof. apply has_cert_sound, all_certs_prime. Qed.

(* ---- Gen/KeyOids.v ---- *)
Lemma wrows_check :
  forallb (fun r => certified (Z.of_N (w_p r)) && certified (Z.of_N (w_n r))) wrows = true.
Proof. vm_compute. reflexivity. Qed.

Theorem wrows_p_prime : forall r, In r wrows -> prime (Z.of_N (w_p r)).
Proof.
  intros r Hin. pose proof wrows_check as H. rewrite forallb_forall in H.
  specialize (H r Hin). apply andb_true_iff in H as [H _]. apply certified_prime, H.
Qed.

Theorem wrows_n_prime : forall r, In r wrows -> prime (Z.of_N (w_n r)).
Proof.
  intros r Hin. pose proof wrows_check as H. rewrite forallb_forall in H.
  specialize (H r Hin). apply andb_true_iff in H as [_ H]. apply certified_prime, H.
Qed.

(* ---- Gen/Curves.v ---- *)
Lemma curves_check :
  forallb (fun c => certified (Gen.Curves.c_p c) && certified (Gen.Curves.c_n c)) Gen.Curves.curves = true.
Proof. vm_compute. reflexivity. Qed.

Theorem curves_p_prime : forall c, In c Gen.Curves.curves -> prime (Gen.Curves.c_p c).
Proof.
  intros c Hin. pose proof curves_check as H. rewrite forallb_forall in H.
  specialize (H c Hin). apply andb_true_iff in H as [H _]. apply certified_prime, H.
Qed.

Theorem curves_n_prime : forall c, In c Gen.Curves.curves -> prime (Gen.Curves.c_n c).
Proof.
  intros c Hin. pose proof curves_check as H. rewrite forallb_forall in H.
  specialize (H c Hin). apply andb_true_iff in H as [_ H]. apply certified_prime, H.
Qed.
