(* C07: one session key for all blocks and the directory; mixed keys rejected;
   unopened blocks pass through; fresh oracle draws. *)
From Coq Require Import List Bool NArith ZArith Lia.
From Coq Require Import Init.Byte.
From Bec2 Require Import Base.Result Base.Bytes Base.Reader Gen.Consts Model.Bf3 Model.AesContainer Model.Bec2
  Proofs.Bf3Proofs Proofs.Bec2Proofs.
Import ListNotations.
Open Scope N_scope.

Section S.
  Variable enc dec mac : bytes -> option bytes -> bytes -> result bytes.
  Variable sha256 : bytes -> bytes.
  Variable pub_of : privkey -> bytes.
  Variable valid_pub : bytes -> bool.
  Variable ecdh : privkey -> bytes -> bytes.
  Variable keygen : N -> privkey.
  Variable rand16 : N -> bytes.

  Notation pack' := (pack enc sha256 pub_of ecdh keygen).
  Notation unpack' := (unpack dec sha256 valid_pub ecdh).
  Notation pack_list' := (pack_list enc sha256 pub_of ecdh keygen).

  (* the writer hands the one session key of the object to every block and to the directory *)
  Theorem same_key_everywhere b encs nk bin nk' :
    bec2_to_binary enc mac sha256 pub_of ecdh keygen b encs nk = Ok (bin, nk') ->
    exists pl body,
      pack_list' (b_blocks b) (b_key b) encs nk = Ok (pl, nk') /\
      to_binary enc mac (f_comps (b_bf3 b)) (blen (BEC2_FILE_SIG ++ ser_packed pl ++ [x00; x00])) (b_key b) = Ok body /\
      bin = BEC2_FILE_SIG ++ (ser_packed pl ++ [x00; x00]) ++ body.
  Proof.
    unfold bec2_to_binary. intro H.
    destruct (pack_blocks enc sha256 pub_of ecdh keygen (b_blocks b) (b_key b) encs nk) as [[pb nk1]|] eqn:Ep;
      cbn [bind] in H; [|discriminate].
    destruct (to_binary enc mac (f_comps (b_bf3 b)) (blen (BEC2_FILE_SIG ++ pb)) (b_key b)) as [body|] eqn:Eb;
      cbn [bind] in H; [|discriminate].
    injection H as <- <-.
    destruct (pack_blocks_list enc sha256 pub_of ecdh keygen _ _ _ _ _ _ Ep) as [pl [Epl [-> _]]].
    exists pl, body. split; [exact Epl|]. split; [exact Eb|]. rewrite <- app_assoc. reflexivity.
  Qed.

  (* reader: if the header is accepted, every opened block carried the same key *)
  Definition unpack_key (decs : list encryptor) (x : N * authblock * bytes) : option bytes :=
    let '(t, _, raw) := x in
    match unpack' t raw decs with Ok (_, k) => Some k | Err _ => None end.

  Lemma unpack_blocks_same_key decs pl : forall fuel common acc tail p bl common' r,
    Forall (fun '(t, _, raw) => t <> 0 /\ t < 256 /\ blen raw < 256) pl ->
    unpack_blocks dec sha256 valid_pub ecdh fuel (mkR (ser_packed pl ++ [x00; x00] ++ tail) p) decs common acc =
      Ok (bl, common', r) ->
    (forall k, common = Some k -> common' = Some k \/ exists k', common' = Some k' /\ False) /\
    (forall x k, In x pl -> unpack_key decs x = Some k -> common' = Some k) /\
    (forall k, common = Some k -> common' = Some k).
  Proof.
    induction pl as [|[[t a] raw] pl IH]; intros fuel common acc tail p bl common' r Hf H.
    - destruct fuel as [|fuel]; [discriminate|].
      cbn [ser_packed flat_map unpack_blocks] in H. rewrite app_nil_l in H.
      replace ([x00; x00] ++ tail) with (be 1 0 ++ be 1 0 ++ tail) in H by reflexivity.
      rewrite (rd_read_int_be 1 0) in H by (vm_compute; reflexivity). cbn [bind] in H.
      rewrite (rd_read_int_be 1 0) in H by (vm_compute; reflexivity). cbn [bind] in H.
      rewrite rd_read_0 in H. cbn [bind N.eqb andb] in H. inversion H; subst.
      repeat split; auto. intros x k [].
    - destruct fuel as [|fuel]; [discriminate|].
      inversion Hf as [|? ? Hh Hf']; subst. cbv beta iota in Hh. destruct Hh as [Ht0 [Ht Hl]].
      cbn [ser_packed flat_map] in H. fold (ser_packed pl) in H. rewrite <- !app_assoc in H.
      cbn [unpack_blocks] in H.
      rewrite (rd_read_int_be 1 t) in H by exact Ht. cbn [bind] in H.
      rewrite (rd_read_int_be 1 (blen raw)) in H by exact Hl. cbn [bind] in H.
      rewrite rd_read_app in H. cbn [bind] in H.
      destruct (t =? 0) eqn:Et; [apply N.eqb_eq in Et; contradiction|]. cbn [andb] in H.
      destruct (unpack' t raw decs) as [[a' key]|e] eqn:Eu.
      + destruct common as [c|].
        * destruct (bytes_eqb c key) eqn:Ec; [|discriminate].
          apply bytes_eqb_eq in Ec. subst c.
          destruct (IH _ _ _ _ _ _ _ _ Hf' H) as [_ [I2 I3]].
          repeat split.
          -- intros k Hk. left. apply I3. exact Hk.
          -- intros x k [<-|Hin] Hx.
             ++ cbn [unpack_key] in Hx. rewrite Eu in Hx. inversion Hx; subst. apply I3. reflexivity.
             ++ exact (I2 x k Hin Hx).
          -- intros k Hk. apply I3. exact Hk.
        * destruct (IH _ _ _ _ _ _ _ _ Hf' H) as [_ [I2 I3]].
          repeat split.
          -- intros k Hk. discriminate.
          -- intros x k [<-|Hin] Hx.
             ++ cbn [unpack_key] in Hx. rewrite Eu in Hx. inversion Hx; subst. apply I3. reflexivity.
             ++ exact (I2 x k Hin Hx).
          -- intros k Hk. discriminate.
      + assert (Hs : unpack_blocks dec sha256 valid_pub ecdh fuel
                       {| rest := ser_packed pl ++ [x00; x00] ++ tail; pos := p + N.of_nat 1 + N.of_nat 1 + blen raw |}
                       decs common (ABUnknown t raw :: acc) = Ok (bl, common', r)).
        { destruct e; try discriminate; exact H. }
        destruct (IH _ _ _ _ _ _ _ _ Hf' Hs) as [_ [I2 I3]].
        repeat split.
        * intros k Hk. left. apply I3. exact Hk.
        * intros x k [<-|Hin] Hx.
          -- cbn [unpack_key] in Hx. rewrite Eu in Hx. discriminate.
          -- exact (I2 x k Hin Hx).
        * exact I3.
  Qed.

  (* hence: two opened blocks with different keys => the header is rejected *)
  Theorem reject_mixed_keys decs pl fuel tail p x y k1 k2 :
    Forall (fun '(t, _, raw) => t <> 0 /\ t < 256 /\ blen raw < 256) pl ->
    In x pl -> In y pl -> unpack_key decs x = Some k1 -> unpack_key decs y = Some k2 -> k1 <> k2 ->
    forall res, unpack_blocks dec sha256 valid_pub ecdh fuel (mkR (ser_packed pl ++ [x00; x00] ++ tail) p) decs None [] <> Ok res.
  Proof.
    intros Hf Hx Hy H1 H2 Hne [[bl common'] r] H.
    destruct (unpack_blocks_same_key decs pl _ _ _ _ _ _ _ _ Hf H) as [_ [I _]].
    pose proof (I x k1 Hx H1) as E1. pose proof (I y k2 Hy H2) as E2. congruence.
  Qed.

  (* pass-through: a block nobody can open comes back as an unknown block carrying the same
     tag and bytes, and packing that block again emits exactly those bytes, whatever the key,
     the encryptors and the draw counter *)
  Theorem passthrough_read decs t a raw :
    (unpack' t raw decs = Err EKey \/ unpack' t raw decs = Err ENotImpl) ->
    rview dec sha256 valid_pub ecdh decs (t, a, raw) = ABUnknown t raw.
  Proof. intros [H|H]; cbn [rview]; rewrite H; reflexivity. Qed.

  Theorem passthrough_write t raw key encs nk :
    pack' (ABUnknown t raw) key encs nk = Ok (raw, nk) /\ ab_tag (ABUnknown t raw) = t.
  Proof. split; reflexivity. Qed.

  (* any number of read/write cycles: an unknown block stays the same unknown block *)
  Fixpoint cycles (n : nat) (decs : list (list encryptor)) (t : N) (raw : bytes) (a : authblock) : authblock :=
    match n, decs with
    | S n', d :: ds => cycles n' ds t raw (rview dec sha256 valid_pub ecdh d (t, a, raw))
    | _, _ => a
    end.
  Theorem passthrough_history n : forall decs t raw,
    Forall (fun d => unpack' t raw d = Err EKey \/ unpack' t raw d = Err ENotImpl) decs ->
    cycles n decs t raw (ABUnknown t raw) = ABUnknown t raw.
  Proof.
    induction n as [|n IH]; intros decs t raw Hf; [reflexivity|].
    destruct decs as [|d ds]; [reflexivity|]. inversion Hf; subst.
    cbn [cycles]. rewrite passthrough_read by assumption. apply IH. assumption.
  Qed.

  (* fresh draws: a key-less creation consumes exactly the next rand16 index; creations with a
     non-empty key consume none *)
  Theorem fresh_key_draw f bl nr :
    new_bec2 rand16 f bl None nr = (mkBec2 f (blocks_dict bl) (rand16 nr), nr + 1).
  Proof. reflexivity. Qed.
  Theorem given_key_no_draw f bl x k nr :
    new_bec2 rand16 f bl (Some (x :: k)) nr = (mkBec2 f (blocks_dict bl) (x :: k), nr).
  Proof. reflexivity. Qed.

  (* a sequence of key-less creations uses pairwise distinct, consecutive oracle indices *)
  Fixpoint create_all (fs : list bf3) (nr : N) : list bec2 * N :=
    match fs with
    | [] => ([], nr)
    | f :: t => let (b, nr1) := new_bec2 rand16 f [] None nr in
                let (bs, nr2) := create_all t nr1 in (b :: bs, nr2)
    end.
  Theorem fresh_sequence fs : forall nr,
    snd (create_all fs nr) = nr + N.of_nat (length fs) /\
    map b_key (fst (create_all fs nr)) = map (fun i => rand16 (nr + N.of_nat i)) (seq 0 (length fs)).
  Proof.
    induction fs as [|f fs IH]; intro nr.
    - simpl. split; [lia|reflexivity].
    - cbn [create_all new_bec2]. destruct (create_all fs (nr + 1)) as [bs nr2] eqn:Ec.
      specialize (IH (nr + 1)). rewrite Ec in IH. cbn [fst snd] in *. destruct IH as [I1 I2].
      split.
      + rewrite I1. cbn [length]. lia.
      + cbn [map length seq b_key]. rewrite I2.
        replace (nr + N.of_nat 0) with nr by lia. f_equal.
        rewrite <- seq_shift, map_map. apply map_ext. intro i. f_equal. lia.
  Qed.

  (* ECC: every encryption draws exactly one fresh ephemeral key; other encryptors draw none *)
  Definition draws (e : encryptor) : N := match e with EEcc _ _ _ => 1 | _ => 0 end.
  Theorem encrypt_draws e pt nk c nk' :
    e_encrypt enc sha256 pub_of ecdh keygen e pt nk = Ok (c, nk') -> nk' = nk + draws e.
  Proof.
    destruct e as [k ck|s pub pr|code]; cbn [e_encrypt draws]; intro H.
    - destruct (ck_wrap (enc0 enc) k ck pt); cbn [bind] in H; [|discriminate]. inversion H. lia.
    - destruct (enc (ecdh_key sha256 ecdh (keygen nk) pub) None pt); cbn [bind] in H; [|discriminate].
      inversion H. reflexivity.
    - destruct (csc_wrap (enc0 enc) sha256 code pt); cbn [bind] in H; [|discriminate]. inversion H. lia.
  Qed.

  Theorem ecc_ephemeral_is_fresh s pub pr pt nk c nk' :
    e_encrypt enc sha256 pub_of ecdh keygen (EEcc s pub pr) pt nk = Ok (c, nk') ->
    nk' = nk + 1 /\ exists ct, c = [x04] ++ pub_of (keygen nk) ++ ct /\
                               enc (ecdh_key sha256 ecdh (keygen nk) pub) None pt = Ok ct.
  Proof.
    cbn [e_encrypt]. intro H.
    destruct (enc (ecdh_key sha256 ecdh (keygen nk) pub) None pt) as [ct|] eqn:E; cbn [bind] in H; [|discriminate].
    inversion H; subst. split; [reflexivity|]. exists ct. split; reflexivity.
  Qed.

  Theorem pack_draws_monotone a key encs nk raw nk' :
    pack' a key encs nk = Ok (raw, nk') -> nk <= nk' <= nk + 1.
  Proof.
    destruct a as [|sel|code ver|t r0]; cbn [pack]; intro H.
    - destruct (select_encryptor KCust encs None (fun _ => true)) as [e|]; cbn [bind] in H; [|discriminate].
      apply encrypt_draws in H. destruct e; cbn [draws] in H; lia.
    - destruct (select_encryptor KEcc encs _ (ecc_sel_is sel)) as [e|]; cbn [bind] in H; [|discriminate].
      destruct (to_bytes 1 sel); cbn [bind] in H; [|discriminate].
      destruct (e_encrypt enc sha256 pub_of ecdh keygen e key nk) as [[c n2]|] eqn:Ee; cbn [bind] in H; [|discriminate].
      inversion H; subst. apply encrypt_draws in Ee. destruct e; cbn [draws] in Ee; lia.
    - destruct (select_encryptor KCsc encs (Some (ECsc code)) (fun _ => true)) as [e|]; cbn [bind] in H; [|discriminate].
      destruct (to_bytes 1 ver); cbn [bind] in H; [|discriminate].
      apply encrypt_draws in H. destruct e; cbn [draws] in H; lia.
    - inversion H. lia.
  Qed.
End S.
