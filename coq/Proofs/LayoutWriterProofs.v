(* C03: the writer of Model/Bf3.v produces exactly the declarative layout of
   Model/Layout.v, for every header length, key and component list. *)
From Coq Require Import List Bool NArith ZArith Lia.
From Coq Require Import Init.Byte.
From Bec2 Require Import Base.Result Base.Bytes Base.Reader Gen.Consts Model.Bf3 Model.Layout
  Proofs.Bf3Proofs Proofs.LayoutProofs.
Import ListNotations.
Open Scope N_scope.

Lemma ser_tags_tag_bytes d : forall tb, ser_tags d = Ok tb <-> tag_bytes d tb.
Proof.
  induction d as [|[id v] d IH]; intro tb; cbn [ser_tags].
  - split; intro H; [inversion H; constructor|inversion H; reflexivity].
  - split; intro H.
    + bind_inv H as i Ei. bind_inv H as l El. bind_inv H as r Er. inversion H; subst. clear H.
      apply to_bytes_be in Ei as [-> Hid]. apply to_bytes_be in El as [-> Hl].
      constructor; [exact Hid|exact Hl|apply IH; reflexivity].
    + inversion H as [|? ? ? rest Hid Hl Ht]; subst.
      unfold to_bytes. rewrite p8.
      destruct (id <? 256) eqn:E1; [|apply N.ltb_ge in E1; lia].
      destruct (blen v <? 256) eqn:E2; [|apply N.ltb_ge in E2; lia]. cbn [bind].
      rewrite (proj2 (IH rest) Ht). reflexivity.
Qed.

Section Writer.
  Variable enc dec mac : bytes -> option bytes -> bytes -> result bytes.
  Hypothesis mac_len : forall k iv d m, d <> [] -> mac k iv d = Ok m -> blen m = 16.

  (* what a component object contributes to its field record; address, stored
     length and payload MAC are fixed by the layout itself *)
  Definition comp_fields (k : bytes) (c : comp) (f : field_record) : Prop :=
    raw_data enc c k = Ok (fr_payload f) /\
    ef_tags (fr_entry f) = c_desc c /\ ef_actual (fr_entry f) = c_alen c.

  Fixpoint fields_of (cs : list comp) (adr : N) (k : bytes) : result (list field_record) :=
    match cs with
    | [] => Ok []
    | c :: t =>
      let* raw := raw_data enc c k in
      let* pmac := mac k None raw in
      let* r := fields_of t (adr + blen raw) k in
      Ok (mkFR (mkEF adr (blen raw) (c_alen c) pmac (c_desc c)) raw :: r)
    end.

  Lemma fields_of_content cs : forall adr k fs,
    fields_of cs adr k = Ok fs -> Forall2 (comp_fields k) cs fs.
  Proof.
    induction cs as [|c cs IH]; intros adr k fs H; cbn [fields_of] in H.
    - inversion H. constructor.
    - bind_inv H as raw Er. bind_inv H as pmac Ep. bind_inv H as r Ef. inversion H; subst.
      constructor; [|eapply IH; eassumption].
      unfold comp_fields. cbn. auto.
  Qed.

  Lemma ser_entry_layout c ndx adr k entry raw :
    ser_entry enc mac c ndx adr k = Ok (entry, raw) ->
    NoDup (map fst (c_desc c)) -> raw <> [] ->
    exists pmac, raw_data enc c k = Ok raw /\ mac k None raw = Ok pmac /\
      is_dir_entry mac true k (1 + ndx) adr (blen raw) (c_alen c) pmac (c_desc c) entry.
  Proof.
    intros H ND Hraw. unfold ser_entry in H.
    bind_inv H as raw' Eraw. bind_inv H as pmac Epmac. bind_inv H as a Ea. bind_inv H as tl Etl.
    bind_inv H as al Eal. bind_inv H as tags Etags. bind_inv H as tgl Etgl.
    bind_inv H as iv Eiv. bind_inv H as emac Eemac.
    inversion H; subst entry raw'. clear H.
    apply to_bytes_be in Ea as [-> Ha]. apply to_bytes_be in Etl as [-> Htl].
    apply to_bytes_be in Eal as [-> Hal]. apply to_bytes_be in Etgl as [-> Htgl].
    apply to_bytes_be in Eiv as [-> Hiv].
    exists pmac. split; [reflexivity|]. split; [exact Epmac|].
    assert (Hbody : be 4 adr ++ be 4 (blen raw) ++ be 4 (c_alen c) ++ pmac ++ be 1 (blen tags) ++ tags <> []).
    { intro Hn. apply (f_equal (@length byte)) in Hn.
      rewrite !app_length, !be_length in Hn. simpl in Hn. lia. }
    constructor.
    - rewrite <- p32. exact Ha.
    - rewrite <- p32. exact Htl.
    - rewrite <- p32. exact Hal.
    - exact (mac_len _ _ _ _ Hraw Epmac).
    - split; [apply ser_tags_tag_bytes; exact Etags|exact ND].
    - exact Htgl.
    - rewrite <- p128. exact Hiv.
    - exact (mac_len _ _ _ _ Hbody Eemac).
    - exact Eemac.
  Qed.

  Lemma ser_dir_layout cs : forall ndx adr k db,
    ser_dir enc mac cs ndx adr k = Ok db -> Forall (okc enc k) cs ->
    exists fs, fields_of cs adr k = Ok fs /\
               is_entries mac true k (1 + ndx) (map fr_entry fs) db.
  Proof.
    induction cs as [|c cs IH]; intros ndx adr k db H Hok; cbn [ser_dir] in H.
    - inversion H. exists []. split; [reflexivity|constructor].
    - destruct (ser_entry enc mac c ndx adr k) as [[entry raw]|] eqn:Ee; cbn [bind] in H; [|discriminate].
      bind_inv H as el Eel. bind_inv H as rdb Erest. inversion H; subst db. clear H.
      apply to_bytes_be in Eel as [-> Hel].
      inversion Hok as [|? ? [ND Hc] Hok']; subst.
      assert (Hraw0 : raw_data enc c k = Ok raw).
      { unfold ser_entry in Ee. destruct (raw_data enc c k) eqn:Er; cbn [bind] in Ee; [|discriminate].
        repeat match type of Ee with
               | bind ?r _ = Ok _ => destruct r; cbn [bind] in Ee; [|discriminate]
               end. inversion Ee; subst. reflexivity. }
      destruct (Hc raw Hraw0) as [Hraw Hal].
      destruct (ser_entry_layout c ndx adr k entry raw Ee ND Hraw) as [pmac [_ [Epmac Hentry]]].
      destruct (IH (ndx + 1) (adr + blen raw) k rdb Erest Hok') as [fs [Efs Hents]].
      exists (mkFR (mkEF adr (blen raw) (c_alen c) pmac (c_desc c)) raw :: fs). split.
      + cbn [fields_of]. rewrite Hraw0. cbn [bind]. rewrite Epmac. cbn [bind]. rewrite Efs. reflexivity.
      + cbn [map fr_entry]. constructor; [exact Hentry|exact Hel|].
        replace (1 + ndx + 1) with (1 + (ndx + 1)) by lia. exact Hents.
  Qed.

  Lemma payloads_layout cs : forall adr k fs pb,
    fields_of cs adr k = Ok fs -> payloads enc cs k = Ok pb -> Forall (okc enc k) cs ->
    payloads_at mac true k adr fs pb.
  Proof.
    induction cs as [|c cs IH]; intros adr k fs pb Hf Hp Hok; cbn [fields_of payloads] in *.
    - inversion Hf; inversion Hp. constructor.
    - bind_inv Hf as raw Er. bind_inv Hf as pmac Ep. bind_inv Hf as r Ef. inversion Hf; subst fs. clear Hf.
      cbn [bind] in Hp. bind_inv Hp as pb' Epb. inversion Hp; subst pb. clear Hp.
      inversion Hok as [|? ? [ND Hc] Hok']; subst.
      destruct (Hc raw Er) as [Hraw Hal].
      apply (pl_cons mac true k adr (mkFR (mkEF adr (blen raw) (c_alen c) pmac (c_desc c)) raw) r pb');
        cbn [fr_entry fr_payload ef_adr ef_total ef_actual ef_pmac]; auto.
      all: try apply (IH _ _ _ _ Ef Epb Hok').
  Qed.

  Hypothesis enc_len : forall k d c, blen d mod 16 = 0 -> enc k None d = Ok c -> blen c = blen d.

  Theorem to_binary_layout cs off k b :
    Forall wf_comp cs -> to_binary enc mac cs off k = Ok b ->
    exists fs, is_bf3_body mac off k fs b /\ Forall2 (comp_fields k) cs fs.
  Proof.
    intros Hwf H. unfold to_binary in H.
    bind_inv H as d0 Ed0. bind_inv H as d Ed. bind_inv H as pb Epb. inversion H; subst b. clear H.
    unfold dir_to_binary in Ed0, Ed.
    bind_inv Ed0 as db0 Edb0. bind_inv Ed0 as sz0 Esz0. inversion Ed0; subst d0. clear Ed0.
    bind_inv Ed as db Edb. bind_inv Ed as sz Esz. inversion Ed; subst d. clear Ed.
    apply to_bytes_be in Esz0 as [-> _]. apply to_bytes_be in Esz as [-> Hsz].
    destruct (ser_dir_blen enc mac mac_len enc_len cs _ _ _ _ _ _ _ _ Edb0 Edb Hwf) as [Hl _].
    assert (Hok : Forall (okc enc k) cs).
    { apply Forall_forall. intros c Hc. apply (wf_okc enc enc_len). rewrite Forall_forall in Hwf. apply Hwf, Hc. }
    destruct (ser_dir_layout cs 0 _ k db Edb Hok) as [fs [Efs Hents]].
    exists fs. split; [|eapply fields_of_content; exact Efs].
    rewrite <- app_assoc. unfold is_bf3_body.
    constructor.
    - exact Hents.
    - rewrite <- p32. exact Hsz.
    - eapply payloads_layout; [|exact Epb|exact Hok].
      replace (off + 4 + blen (db ++ [x00]))
        with (off + blen (be 4 (blen (db0 ++ [x00])) ++ db0 ++ [x00])); [exact Efs|].
      rewrite !blen_app, blen_be, Hl. change (N.of_nat 4) with 4. lia.
  Qed.
End Writer.
