(* C17 - the 17 shipped short-Weierstrass curves (Gen/Curves.v, read from curves.py /
   ecdsa.py): closed checks of the parameters by vm_compute. *)
From Coq Require Import List Bool ZArith Lia.
From Bec2 Require Import Base.Result Base.Modp Gen.EcFormulas Gen.Curves Model.Ec Proofs.EcMulProofs.
Import ListNotations.
Open Scope Z_scope.

Definition params_ok (c : curve) : bool :=
  let p := c_p c in let a := c_a c in let b := c_b c in
  let gx := c_Gx c in let gy := c_Gy c in let n := c_n c in let h := c_h c in
  (3 <? p) && Z.odd p &&
  (0 <=? gx) && (gx <? p) && (0 <? gy) && (gy <? p) &&
  contains_point gx gy p a b &&
  negb ((4 * a * a * a + 27 * b * b) mod p =? 0) &&
  negb (b mod p =? 0) &&
  (1 <? n) && Z.odd n && (0 <? h) &&
  (* Hasse: (n*h - (p+1))^2 <= 4p *)
  ((n * h - (p + 1)) * (n * h - (p + 1)) <=? 4 * p).

Lemma params_all : forallb params_ok curves = true.
Proof. vm_cast_no_check (eq_refl true). Qed.

Lemma curves_count : length curves = 17%nat.
Proof. reflexivity. Qed.

Theorem params_spec c : In c curves ->
  3 < c_p c /\
  0 <= c_Gx c < c_p c /\ 0 < c_Gy c < c_p c /\
  on_curve (c_p c) (c_a c) (c_b c) (c_Gx c, c_Gy c) /\
  ~ eqm (c_p c) (4 * c_a c * c_a c * c_a c + 27 * c_b c * c_b c) 0 /\
  ~ eqm (c_p c) (c_b c) 0 /\
  1 < c_n c /\ Z.odd (c_n c) = true /\ 0 < c_h c /\
  (c_n c * c_h c - (c_p c + 1)) * (c_n c * c_h c - (c_p c + 1)) <= 4 * c_p c.
Proof.
  intro H. pose proof params_all as K. rewrite forallb_forall in K. specialize (K c H).
  unfold params_ok in K.
  do 12 (apply andb_true_iff in K; destruct K as [K ?]).
  rename K into K1, H0 into K13, H1 into K12, H2 into K11, H3 into K10, H4 into K9, H5 into K8,
         H6 into K7, H7 into K6, H8 into K5, H9 into K4, H10 into K3, H11 into K2.
  apply Z.ltb_lt in K1, K4, K5, K6, K10, K12. apply Z.leb_le in K3, K13.
  apply negb_true_iff, Z.eqb_neq in K8, K9. apply contains_point_spec in K7.
  repeat split; try lia; try assumption; intro E; apply eqm_0_iff in E; contradiction.
Qed.

(* the public point (0,0) - the all-zero encoding - is off every shipped curve,
   so it is rejected by the validation (pubkey_valid_rejects) *)
Theorem origin_rejected c n h : In c curves ->
  pubkey_valid (c_p c) (c_a c) (c_b c) n h true 0 0 = Ok false.
Proof.
  intro H. apply pubkey_valid_rejects. right. right.
  apply origin_off_curve. apply (params_spec c H).
Qed.

(* n * G = INFINITY computed by the model of PointJacobi.__mul__ (NAF path, generated
   formula functions) for SECP112r1.  More or larger
   curves are too slow for the VM-less re-check by coqchk; n*G is checked on the
   implementation for all 17 by the search, and the correspondence evaluates the model
   on NIST256p and other shipped curves with random scalars. *)
Definition order_check (c : curve) : bool :=
  match pj_mul (c_p c) (c_a c) 0 false (c_Gx c, c_Gy c, 1) (c_n c) with
  | Ok None => true
  | _ => false
  end.

Lemma order_SECP112r1 : order_check SECP112r1 = true.
Proof. vm_cast_no_check (eq_refl true). Qed.
