(* C18: proofs about Model/Ecdsa.v, Gen/Rfc6979.v and Gen/EcdsaFrag.v --
   modular inverse, sign/verify over an abstract group, range checks, digest
   truncation, RFC 6979 candidate stream.  (Codecs: EcdsaCodecProofs.v.) *)
From Coq Require Import List Bool NArith ZArith Lia Znumtheory Morphisms Setoid.
From Coq Require Import Init.Byte.
From Bec2 Require Import Base.Result Base.Bytes Gen.Rfc6979 Gen.EcdsaFrag Model.Ecdsa.
Import ListNotations.
Open Scope Z_scope.

(* ------------------------------------------------------------------------ *)
(* congruence modulo n as divisibility; a setoid with + * - as morphisms *)

Definition cong (n a b : Z) : Prop := (n | a - b).

Lemma cong_refl n a : cong n a a.
Proof. unfold cong. rewrite Z.sub_diag. apply Z.divide_0_r. Qed.
Lemma cong_sym n a b : cong n a b -> cong n b a.
Proof. unfold cong. intros [k H]. exists (- k). lia. Qed.
Lemma cong_trans n a b c : cong n a b -> cong n b c -> cong n a c.
Proof. unfold cong. intros [k H] [l H']. exists (k + l). lia. Qed.

#[global] Instance cong_equiv n : Equivalence (cong n).
Proof.
  split; [intro a; apply cong_refl | intros a b; apply cong_sym | intros a b c; apply cong_trans].
Qed.

#[global] Instance cong_add n : Proper (cong n ==> cong n ==> cong n) Z.add.
Proof. intros a a' [k H] b b' [l H']. exists (k + l). lia. Qed.
#[global] Instance cong_sub n : Proper (cong n ==> cong n ==> cong n) Z.sub.
Proof. intros a a' [k H] b b' [l H']. exists (k - l). lia. Qed.
#[global] Instance cong_opp n : Proper (cong n ==> cong n) Z.opp.
Proof. intros a a' [k H]. exists (- k). lia. Qed.
#[global] Instance cong_mul n : Proper (cong n ==> cong n ==> cong n) Z.mul.
Proof.
  intros a a' [k H] b b' [l H']. exists (k * b + a' * l).
  replace (a * b - a' * b') with ((a - a') * b + a' * (b - b')) by ring.
  rewrite H, H'. ring.
Qed.

Lemma cong_mod n a : cong n (a mod n) a.
Proof.
  unfold cong. destruct (Z.eq_dec n 0) as [->|Hn].
  - rewrite Zmod_0_r. rewrite Z.sub_diag. apply Z.divide_0_r.
  - exists (- (a / n)). rewrite (Z.mod_eq a n) by exact Hn. ring.
Qed.

Lemma cong_refl_eq n a b : a = b -> cong n a b.
Proof. intros ->. apply cong_refl. Qed.

Lemma cong_n_0 n : cong n n 0.
Proof. exists 1. ring. Qed.

Lemma cong_witness n a b : cong n a b -> exists m, a = b + m * n.
Proof. intros [k H]. exists k. lia. Qed.

Lemma cong_small n a b : 0 <= a < n -> 0 <= b < n -> cong n a b -> a = b.
Proof.
  intros Ha Hb [k H].
  assert (k = 0) by nia. subst k. lia.
Qed.

Lemma cong_mod_eq n a b : 0 < n -> cong n a b -> a mod n = b mod n.
Proof.
  intros Hn H. apply (cong_small n); try (apply Z.mod_pos_bound; exact Hn).
  rewrite !cong_mod. exact H.
Qed.

(* ------------------------------------------------------------------------ *)
(* numbertheory.inverse_mod *)

Lemma inv_loop_inv a m : forall fuel lm low hm high lm' low',
  cong m (lm * a) low -> cong m (hm * a) high ->
  inv_loop fuel lm low hm high = Some (lm', low') ->
  cong m (lm' * a) low' /\ low' <= 1.
Proof.
  induction fuel as [|f IH]; intros lm low hm high lm' low' H1 H2 E; [discriminate|].
  cbn [inv_loop] in E. destruct (1 <? low) eqn:C.
  - apply IH in E; [exact E | | exact H1].
    replace ((hm - lm * (high / low)) * a) with (hm * a - (lm * a) * (high / low)) by ring.
    rewrite H1, H2. reflexivity.
  - inversion E; subst. apply Z.ltb_ge in C. split; [exact H1 | exact C].
Qed.

(* while low > 1 the product low * high at least halves *)
Lemma inv_loop_terminates : forall fuel lm low hm high,
  0 <= low < high -> low * high < 2 ^ Z.of_nat fuel ->
  exists r, inv_loop (S fuel) lm low hm high = Some r.
Proof.
  induction fuel as [|f IH]; intros lm low hm high Hr Hp.
  - change (2 ^ Z.of_nat 0) with 1 in Hp. assert (low = 0) by nia. subst low.
    cbn. eexists; reflexivity.
  - cbn [inv_loop]. destruct (1 <? low) eqn:C; [|eexists; reflexivity].
    apply Z.ltb_lt in C. fold (inv_loop (S f)). apply IH.
    + pose proof (Z.mod_pos_bound high low ltac:(lia)) as Hm.
      rewrite (Z.mod_eq high low) in Hm by lia. lia.
    + rewrite Nat2Z.inj_succ, Z.pow_succ_r in Hp by lia.
      pose proof (Z.mod_pos_bound high low ltac:(lia)) as Hm.
      rewrite (Z.mod_eq high low) in Hm by lia.
      assert (Hq : 1 <= high / low) by (apply Z.div_le_lower_bound; lia).
      set (q := high / low) in *. set (r := high - low * q) in *.
      assert (high = low * q + r) by (unfold r; lia).
      nia.
Qed.

Lemma inv_fuel_enough m : 0 < m -> exists f, inv_fuel m = S f /\ m * m <= 2 ^ Z.of_nat f.
Proof.
  intro Hm. exists (2 * Z.to_nat (Z.log2 m) + 3)%nat. split; [unfold inv_fuel; lia|].
  pose proof (Z.log2_nonneg m) as Hl. pose proof (Z.log2_spec m Hm) as [_ Hu].
  replace (Z.of_nat (2 * Z.to_nat (Z.log2 m) + 3)) with (Z.succ (Z.log2 m) + Z.succ (Z.log2 m) + 1) by lia.
  rewrite !Z.pow_add_r by lia. change (2 ^ 1) with 2.
  set (P := 2 ^ Z.succ (Z.log2 m)) in *. nia.
Qed.

Lemma inverse_mod_spec a m c : 0 < m -> inverse_mod a m = Ok c ->
  0 <= c < m /\ (a = 0 \/ cong m (a * c) 1).
Proof.
  intros Hm. unfold inverse_mod. destruct (a =? 0) eqn:Ea.
  - intro H; inversion H; subst. apply Z.eqb_eq in Ea. split; [lia | left; exact Ea].
  - destruct (m <=? 0) eqn:Em; [discriminate|].
    destruct (inv_loop (inv_fuel m) 1 (a mod m) 0 m) as [[lm low]|] eqn:E; [|discriminate].
    apply (inv_loop_inv a m) in E as [Hc Hl].
    2:{ rewrite cong_mod. replace (1 * a) with a by ring. reflexivity. }
    2:{ replace (0 * a) with 0 by ring. symmetry. apply cong_n_0. }
    destruct (low =? 1) eqn:E1.
    + intro H; inversion H; subst c. apply Z.eqb_eq in E1. subst low.
      split; [apply Z.mod_pos_bound; exact Hm|]. right.
      rewrite cong_mod. rewrite Z.mul_comm. exact Hc.
    + destruct (m =? 1) eqn:E2; [|discriminate].
      intro H; inversion H; subst c. apply Z.eqb_eq in E2. subst m.
      split; [lia|]. right. exists (a * 0 - 1). ring.
Qed.

Lemma inverse_mod_prime a m : prime m -> ~ (m | a) -> exists c, inverse_mod a m = Ok c.
Proof.
  intros Hp Hnd. pose proof (prime_ge_2 m Hp) as Hm2.
  unfold inverse_mod. destruct (a =? 0) eqn:Ea; [eexists; reflexivity|].
  destruct (m <=? 0) eqn:Em; [apply Z.leb_le in Em; lia|].
  destruct (inv_fuel_enough m ltac:(lia)) as [f [Hf Hb]].
  assert (Hlow : 0 <= a mod m < m) by (apply Z.mod_pos_bound; lia).
  destruct (inv_loop_terminates f 1 (a mod m) 0 m Hlow ltac:(nia)) as [[lm low] E].
  rewrite Hf, E.
  (* gcd invariant: the loop ends with low = 1 *)
  assert (G : forall fuel lm low hm high lm' low',
             0 <= low < high -> Z.gcd low high = 1 -> 1 < high ->
             inv_loop fuel lm low hm high = Some (lm', low') -> low' = 1).
  { clear. induction fuel as [|f IH]; intros lm low hm high lm' low' Hr Hg Hh E; [discriminate|].
    cbn [inv_loop] in E. destruct (1 <? low) eqn:C.
    - apply Z.ltb_lt in C. apply IH in E; [exact E | | | exact C].
      + pose proof (Z.mod_pos_bound high low ltac:(lia)) as Hm.
        rewrite (Z.mod_eq high low) in Hm by lia. lia.
      + rewrite <- (Z.mod_eq high low) by lia. rewrite Z.gcd_mod by lia. exact Hg.
    - inversion E; subst. apply Z.ltb_ge in C.
      destruct (Z.eq_dec low' 1) as [|Hne]; [assumption|].
      assert (low' = 0) by lia. subst low'. rewrite Z.gcd_0_l in Hg. lia. }
  assert (Hg : Z.gcd (a mod m) m = 1).
  { rewrite Z.gcd_mod by lia. rewrite Z.gcd_comm.
    apply Zgcd_1_rel_prime. apply rel_prime_sym. apply prime_rel_prime; assumption. }
  rewrite (G _ _ _ _ _ _ _ Hlow Hg ltac:(lia) E). cbn. eexists; reflexivity.
Qed.

(* ------------------------------------------------------------------------ *)
(* the generated integer fragments, as inequalities *)

Lemma reject_r_iff r n : verifies_reject_r r n = false <-> 1 <= r <= n - 1.
Proof. unfold verifies_reject_r. rewrite orb_false_iff, !Z.ltb_ge. lia. Qed.
Lemma reject_s_iff s n : verifies_reject_s s n = false <-> 1 <= s <= n - 1.
Proof. unfold verifies_reject_s. rewrite orb_false_iff, !Z.ltb_ge. lia. Qed.

(* ------------------------------------------------------------------------ *)
(* ECDSA over an abstract group *)

Section Group.
  Variable point : Type.
  Variable padd : point -> point -> point.
  Variable smul : Z -> point -> point.
  Variable xcoord : point -> option Z.
  Variable G : point.
  Variable n : Z.
  Variable infinity : point.

  Hypothesis n_prime : prime n.
  Hypothesis smul_add : forall a b, smul (a + b) G = padd (smul a G) (smul b G).
  Hypothesis smul_mul : forall a b, smul a (smul b G) = smul (a * b) G.
  Hypothesis smul_n : smul n G = infinity.
  Hypothesis smul_inf : forall a, smul a infinity = infinity.
  Hypothesis padd_inf_r : forall a, padd (smul a G) infinity = smul a G.

  Lemma n_ge_2 : 2 <= n.
  Proof. apply prime_ge_2, n_prime. Qed.

  Lemma smul_period a m : smul (a + m * n) G = smul a G.
  Proof. rewrite smul_add, <- smul_mul, smul_n, smul_inf, padd_inf_r. reflexivity. Qed.

  Lemma smul_cong a b : cong n a b -> smul a G = smul b G.
  Proof. intro H. apply cong_witness in H as [m ->]. apply smul_period. Qed.

  (* the k + n / k + 2n blinding does not change k * G *)
  Lemma blinding k :
    smul (sign_ks k n) G = smul k G /\ smul (sign_kt (sign_ks k n) n) G = smul k G.
  Proof.
    unfold sign_ks, sign_kt. split.
    - replace (k + n) with (k + 1 * n) by ring. apply smul_period.
    - replace (k + n + n) with (k + 2 * n) by ring. apply smul_period.
  Qed.

  Lemma sign_point random_k :
    (if sign_use_kt bit_length (sign_ks (sign_k random_k n) n) n
     then smul (sign_kt (sign_ks (sign_k random_k n) n) n) G
     else smul (sign_ks (sign_k random_k n) n) G) = smul random_k G.
  Proof.
    destruct (blinding (sign_k random_k n)) as [B1 B2].
    destruct (sign_use_kt _ _ _); [rewrite B2 | rewrite B1];
      apply smul_cong; unfold sign_k; apply cong_mod.
  Qed.

  Lemma not_div_small a : 1 <= a <= n - 1 -> ~ (n | a).
  Proof. intros Ha [k Hk]. assert (0 < k) by nia. nia. Qed.

  (* what a successful sign computed *)
  Lemma sign_ok_inv d e random_k r s :
    sign point smul xcoord G n d e random_k = SOk (r, s) ->
    exists x ik, xcoord (smul random_k G) = Some x /\ r = x mod n /\ r <> 0 /\
      inverse_mod (random_k mod n) n = Ok ik /\
      s = (ik * (e + (d * r) mod n)) mod n /\ s <> 0.
  Proof.
    unfold sign. rewrite sign_point.
    destruct (xcoord (smul random_k G)) as [x|]; [|discriminate].
    unfold sign_r_zero, sign_s_zero, sign_r, sign_s, sign_k.
    destruct (x mod n =? 0) eqn:Er; [discriminate|].
    destruct (inverse_mod (random_k mod n) n) as [ik|] eqn:Ei; [|discriminate].
    cbn [lift sbind].
    destruct ((ik * (e + (d * (x mod n)) mod n)) mod n =? 0) eqn:Es; [discriminate|].
    intro H; inversion H; subst. exists x, ik.
    apply Z.eqb_neq in Er, Es. repeat split; assumption.
  Qed.

  (* COMPLETENESS: a signature made with nonce k for the key d verifies under Q = d * G *)
  Theorem verify_sign d e k r s :
    1 <= k <= n - 1 ->
    sign point smul xcoord G n d e k = SOk (r, s) ->
    verifies point padd smul xcoord G n (smul d G) e r s = Ok true.
  Proof.
    intros Hk Hs. pose proof n_ge_2 as Hn.
    apply sign_ok_inv in Hs as (x & ik & Hx & Hr & Hr0 & Hik & Hsd & Hs0).
    rewrite Z.mod_small in Hik by lia.
    assert (Hrr : 1 <= r <= n - 1).
    { pose proof (Z.mod_pos_bound x n ltac:(lia)). lia. }
    assert (Hss : 1 <= s <= n - 1).
    { pose proof (Z.mod_pos_bound (ik * (e + (d * r) mod n)) n ltac:(lia)). lia. }
    unfold verifies.
    rewrite (proj2 (reject_r_iff r n) Hrr), (proj2 (reject_s_iff s n) Hss).
    destruct (inverse_mod_prime s n n_prime (not_div_small s Hss)) as [c Hc].
    rewrite Hc. cbn [bind].
    apply inverse_mod_spec in Hik as [_ [Hk0|Hki]]; [lia | | lia].
    apply inverse_mod_spec in Hc as [_ [Hs00|Hsc]]; [lia | | lia].
    assert (Hpt : padd (smul (verifies_u1 e c n) G) (smul (verifies_u2 r c n) (smul d G)) = smul k G).
    { rewrite smul_mul, <- smul_add. apply smul_cong.
      unfold verifies_u1, verifies_u2. rewrite !cong_mod.
      assert (Hs' : cong n s (ik * (e + d * r))) by (rewrite Hsd, !cong_mod; reflexivity).
      transitivity ((k * ik) * (c * (e + d * r))).
      - rewrite Hki. apply cong_refl_eq. ring.
      - transitivity (k * (ik * (e + d * r) * c)); [apply cong_refl_eq; ring|].
        rewrite <- Hs', Hsc. apply cong_refl_eq. ring. }
    rewrite Hpt, Hx. unfold verifies_result, verifies_v. rewrite <- Hr, Z.eqb_refl. reflexivity.
  Qed.
  Lemma sign_ok_range d e k r s :
    sign point smul xcoord G n d e k = SOk (r, s) -> 1 <= r <= n - 1 /\ 1 <= s <= n - 1.
  Proof.
    intro Hs. pose proof n_ge_2 as Hn.
    apply sign_ok_inv in Hs as (x & ik & Hx & Hr & Hr0 & Hik & Hsd & Hs0).
    pose proof (Z.mod_pos_bound x n ltac:(lia)).
    pose proof (Z.mod_pos_bound (ik * (e + (d * r) mod n)) n ltac:(lia)). lia.
  Qed.

  (* digest level: whatever codec inverts its own encoder *)
  Theorem verify_sign_digest {S} (enc : Z -> Z -> Z -> result S) (dec : S -> Z -> sres (Z * Z))
      d digest k allow sig :
    (forall r s b, 1 <= r <= n - 1 -> 1 <= s <= n - 1 -> enc r s n = Ok b -> dec b n = SOk (r, s)) ->
    sign_digest point smul xcoord G n enc d digest k allow = SOk sig ->
    verify_digest point padd smul xcoord G n dec (smul d G) sig digest allow = SOk true.
  Proof.
    intros Hcodec. unfold sign_digest, verify_digest.
    destruct (truncate_and_convert_digest digest n allow) as [number|]; [|discriminate]. cbn [sbind].
    unfold sign_number. destruct ((1 <=? k) && (k <? n)) eqn:Ek; [|discriminate].
    apply andb_true_iff in Ek as [E1 E2]. apply Z.leb_le in E1. apply Z.ltb_lt in E2.
    destruct (sign point smul xcoord G n d number k) as [[r s]|] eqn:Es; [|discriminate]. cbn [sbind].
    destruct (enc r s n) as [b|] eqn:Ee; [|discriminate]. cbn [lift].
    intro H. assert (b = sig) by congruence. subst b. clear H.
    pose proof (sign_ok_range _ _ _ _ _ Es) as [Hr Hs].
    rewrite (Hcodec r s sig Hr Hs Ee). cbn [sbind].
    rewrite (verify_sign d number k r s ltac:(lia) Es). reflexivity.
  Qed.

  (* RANGE: r or s outside [1, n-1] is rejected (before any group operation) *)
  Theorem verifies_range Q e r s :
    ~ (1 <= r <= n - 1) \/ ~ (1 <= s <= n - 1) ->
    verifies point padd smul xcoord G n Q e r s = Ok false.
  Proof.
    intro H. unfold verifies.
    destruct (verifies_reject_r r n) eqn:Er; [reflexivity|].
    destruct (verifies_reject_s s n) eqn:Es; [reflexivity|].
    apply reject_r_iff in Er. apply reject_s_iff in Es. tauto.
  Qed.

  (* for in-range (r, s) and prime n, verifies never raises: in particular when
     u1*G + u2*Q is the point at infinity (no x-coordinate) the answer is False *)
  Theorem verifies_total Q e r s : exists b, verifies point padd smul xcoord G n Q e r s = Ok b.
  Proof.
    unfold verifies.
    destruct (verifies_reject_r r n) eqn:Er; [eexists; reflexivity|].
    destruct (verifies_reject_s s n) eqn:Es; [eexists; reflexivity|].
    apply reject_s_iff in Es.
    destruct (inverse_mod_prime s n n_prime (not_div_small s Es)) as [c ->]. cbn [bind].
    destruct (xcoord _); eexists; reflexivity.
  Qed.

  Theorem verifies_infinity Q e r s c :
    1 <= r <= n - 1 -> 1 <= s <= n - 1 -> inverse_mod s n = Ok c ->
    xcoord (padd (smul (verifies_u1 e c n) G) (smul (verifies_u2 r c n) Q)) = None ->
    verifies point padd smul xcoord G n Q e r s = Ok false.
  Proof.
    intros Hr Hs Hc Hx. unfold verifies.
    rewrite (proj2 (reject_r_iff r n) Hr), (proj2 (reject_s_iff s n) Hs), Hc. cbn [bind].
    rewrite Hx. reflexivity.
  Qed.

  Theorem verify_digest_range {S} (sigdecode : S -> Z -> sres (Z * Z)) Q sig digest allow r s :
    sigdecode sig n = SOk (r, s) ->
    ~ (1 <= r <= n - 1) \/ ~ (1 <= s <= n - 1) ->
    (exists e, verify_digest point padd smul xcoord G n sigdecode Q sig digest allow = SErr e /\
               (e = SBadSig \/ e = SBadDigest \/ e = SBase EValue)).
  Proof.
    intros Hd Hr. unfold verify_digest.
    destruct (truncate_and_convert_digest digest n allow) as [number|e] eqn:Et.
    - cbn [sbind]. rewrite Hd. cbn [sbind]. rewrite (verifies_range Q number r s Hr).
      cbn. eexists; split; [reflexivity | left; reflexivity].
    - cbn [sbind]. exists e. split; [reflexivity|].
      unfold truncate_and_convert_digest in Et. destruct allow.
      + destruct (string_to_number _) as [x|e'] eqn:E2; cbn in Et; [discriminate|].
        inversion Et; subst e. unfold string_to_number in E2.
        destruct (takeN _ _); inversion E2. right; right; reflexivity.
      + destruct (_ <? _); [inversion Et; right; left; reflexivity|].
        unfold string_to_number in Et. destruct digest; inversion Et. right; right; reflexivity.
  Qed.

  Lemma truncate_errors digest allow e :
    truncate_and_convert_digest digest n allow = SErr e -> e = SBadDigest \/ e = SBase EValue.
  Proof.
    unfold truncate_and_convert_digest. destruct allow.
    - destruct (string_to_number _) as [x|e'] eqn:E2; cbn [lift sbind]; [discriminate|].
      intro H. unfold string_to_number in E2. destruct (takeN _ _); inversion E2; subst e'.
      inversion H. right; reflexivity.
    - destruct (_ <? _); [intro H; inversion H; left; reflexivity|].
      unfold string_to_number. destruct digest; cbn [lift]; intro H; inversion H. right; reflexivity.
  Qed.

  (* VerifyingKey.verify_digest raises only BadSignatureError, or BadDigestError / ValueError
     for the digest itself, whenever the decoder raises only its documented errors *)
  Theorem verify_digest_errors {S} (sigdecode : S -> Z -> sres (Z * Z)) Q sig digest allow e :
    (forall e', sigdecode sig n = SErr e' -> e' = SMalformed \/ e' = SBase EUnexpectedDER) ->
    verify_digest point padd smul xcoord G n sigdecode Q sig digest allow = SErr e ->
    e = SBadSig \/ e = SBadDigest \/ e = SBase EValue.
  Proof.
    intros Hdec. unfold verify_digest.
    destruct (truncate_and_convert_digest digest n allow) as [number|e0] eqn:Et; cbn [sbind].
    2:{ intro H. assert (e0 = e) by congruence. subst e0. apply truncate_errors in Et. tauto. }
    destruct (sigdecode sig n) as [[r s]|e1] eqn:Ed.
    - cbn [sbind]. destruct (verifies_total Q number r s) as [b ->]. cbn [lift sbind].
      destruct b; [discriminate|]. intro H; inversion H. left; reflexivity.
    - destruct (Hdec e1 eq_refl) as [-> | ->]; cbn [sbind]; intro H; inversion H; left; reflexivity.
  Qed.

  (* a decoding error of the documented kinds becomes BadSignatureError *)
  Theorem verify_digest_malformed {S} (sigdecode : S -> Z -> sres (Z * Z)) Q sig digest allow number :
    truncate_and_convert_digest digest n allow = SOk number ->
    sigdecode sig n = SErr SMalformed \/ sigdecode sig n = SErr (SBase EUnexpectedDER) ->
    verify_digest point padd smul xcoord G n sigdecode Q sig digest allow = SErr SBadSig.
  Proof.
    intros Ht [Hd|Hd]; unfold verify_digest; rewrite Ht; cbn [sbind]; rewrite Hd; reflexivity.
  Qed.

  (* sign raises nothing but RSZeroError when k is in range and only multiples
     of n annihilate G *)
  Hypothesis xcoord_inf : forall k, xcoord (smul k G) = None -> smul k G = infinity.
  Hypothesis G_order : forall k, smul k G = infinity -> (n | k).

  Theorem sign_errors d e k err :
    1 <= k <= n - 1 ->
    sign point smul xcoord G n d e k = SErr err -> err = SRSZero.
  Proof.
    intros Hk. unfold sign. rewrite sign_point.
    destruct (xcoord (smul k G)) as [x|] eqn:Ex.
    - destruct (sign_r_zero _); [intro H; inversion H; reflexivity|].
      unfold sign_k. rewrite Z.mod_small by lia.
      destruct (inverse_mod_prime k n n_prime (not_div_small k Hk)) as [c ->]. cbn [lift sbind].
      destruct (sign_s_zero _); intro H; inversion H; reflexivity.
    - apply xcoord_inf, G_order in Ex. exfalso. exact (not_div_small k Hk Ex).
  Qed.

  (* CANONISATION: (r, n - s) verifies iff (r, s) does, because x(-P) = x(P) *)
  Hypothesis xcoord_neg : forall t, xcoord (smul (- t) G) = xcoord (smul t G).

  Theorem verifies_neg_s d e r s :
    1 <= s <= n - 1 ->
    verifies point padd smul xcoord G n (smul d G) e r (n - s) =
    verifies point padd smul xcoord G n (smul d G) e r s.
  Proof.
    intro Hs. pose proof n_ge_2 as Hn. unfold verifies.
    destruct (verifies_reject_r r n); [reflexivity|].
    rewrite (proj2 (reject_s_iff s n) Hs), (proj2 (reject_s_iff (n - s) n) ltac:(lia)).
    destruct (inverse_mod_prime s n n_prime (not_div_small s Hs)) as [c Hc].
    destruct (inverse_mod_prime (n - s) n n_prime (not_div_small (n - s) ltac:(lia))) as [c' Hc'].
    rewrite Hc, Hc'. cbn [bind].
    apply inverse_mod_spec in Hc as [_ [?|Hc]]; [lia | | lia].
    apply inverse_mod_spec in Hc' as [_ [?|Hc']]; [lia | | lia].
    assert (Hcc : cong n c' (- c)).
    { assert (Hsc' : cong n (s * c') (- (1))).
      { destruct Hc' as [b Hb]. exists (c' - b). lia. }
      transitivity (c' * (s * c)); [rewrite Hc; apply cong_refl_eq; ring|].
      transitivity ((s * c') * c); [apply cong_refl_eq; ring|].
      rewrite Hsc'. apply cong_refl_eq; ring. }
    rewrite !smul_mul, <- !smul_add.
    assert (E : smul (verifies_u1 e c' n + verifies_u2 r c' n * d) G =
                smul (- (verifies_u1 e c n + verifies_u2 r c n * d)) G).
    { apply smul_cong. unfold verifies_u1, verifies_u2. rewrite !cong_mod, Hcc.
      apply cong_refl_eq. ring. }
    rewrite E, xcoord_neg. reflexivity.
  Qed.

  (* digest level with a canonising encoder: the decoded s may be n - s *)
  Theorem verify_sign_digest_canon {S} (enc : Z -> Z -> Z -> result S) (dec : S -> Z -> sres (Z * Z))
      d digest k allow sig :
    (forall r s b, 1 <= r <= n - 1 -> 1 <= s <= n - 1 -> enc r s n = Ok b ->
       dec b n = SOk (r, s) \/ dec b n = SOk (r, n - s)) ->
    sign_digest point smul xcoord G n enc d digest k allow = SOk sig ->
    verify_digest point padd smul xcoord G n dec (smul d G) sig digest allow = SOk true.
  Proof.
    intros Hcodec. unfold sign_digest, verify_digest.
    destruct (truncate_and_convert_digest digest n allow) as [number|]; [|discriminate]. cbn [sbind].
    unfold sign_number. destruct ((1 <=? k) && (k <? n)) eqn:Ek; [|discriminate].
    apply andb_true_iff in Ek as [E1 E2]. apply Z.leb_le in E1. apply Z.ltb_lt in E2.
    destruct (sign point smul xcoord G n d number k) as [[r s]|] eqn:Es; [|discriminate]. cbn [sbind].
    destruct (enc r s n) as [b|] eqn:Ee; [|discriminate]. cbn [lift].
    intro H. assert (b = sig) by congruence. subst b. clear H.
    pose proof (sign_ok_range _ _ _ _ _ Es) as [Hr Hs].
    pose proof (verify_sign d number k r s ltac:(lia) Es) as Hv.
    destruct (Hcodec r s sig Hr Hs Ee) as [-> | ->]; cbn [sbind].
    - rewrite Hv. reflexivity.
    - rewrite (verifies_neg_s d number r s Hs), Hv. reflexivity.
  Qed.
End Group.

(* the group-law facts used above, bundled (all of them hold for the group
   generated by a point G of prime order n on an elliptic curve; they are proved
   below for the model group Z_n) *)
Record group_laws (point : Type) (padd : point -> point -> point) (smul : Z -> point -> point)
    (xcoord : point -> option Z) (G : point) (n : Z) (infinity : point) : Prop := {
  gl_prime : prime n;
  gl_smul_add : forall a b, smul (a + b) G = padd (smul a G) (smul b G);
  gl_smul_mul : forall a b, smul a (smul b G) = smul (a * b) G;
  gl_order : smul n G = infinity;
  gl_smul_inf : forall a, smul a infinity = infinity;
  gl_padd_inf : forall a, padd (smul a G) infinity = smul a G;
  gl_x_inf : forall k, xcoord (smul k G) = None -> smul k G = infinity;
  gl_only_multiples : forall k, smul k G = infinity -> (n | k);
  gl_x_neg : forall t, xcoord (smul (- t) G) = xcoord (smul t G)
}.

(* ------------------------------------------------------------------------ *)
(* The additive group Z_n (generator 1, neutral element 0, toy x-coordinate
   min(a, n-a)) satisfies every hypothesis of the Group section, for every
   n > 0: the theorems above are not vacuous, for any prime n. *)
Section Zn.
  Variable n : Z.
  Hypothesis n_pos : 0 < n.

  Lemma zn_smul_add a b : zn_smul n (a + b) 1 = zn_padd n (zn_smul n a 1) (zn_smul n b 1).
  Proof. unfold zn_smul, zn_padd. rewrite !Z.mul_1_r. apply Zplus_mod. Qed.
  Lemma zn_smul_mul a b : zn_smul n a (zn_smul n b 1) = zn_smul n (a * b) 1.
  Proof. unfold zn_smul. rewrite !Z.mul_1_r. apply Zmult_mod_idemp_r. Qed.
  Lemma zn_smul_n : zn_smul n n 1 = 0.
  Proof. unfold zn_smul. rewrite Z.mul_1_r. apply Z_mod_same_full. Qed.
  Lemma zn_smul_inf a : zn_smul n a 0 = 0.
  Proof. unfold zn_smul. rewrite Z.mul_0_r. apply Zmod_0_l. Qed.
  Lemma zn_padd_inf_r a : zn_padd n (zn_smul n a 1) 0 = zn_smul n a 1.
  Proof. unfold zn_padd, zn_smul. rewrite Z.add_0_r. apply Zmod_mod. Qed.
  Lemma zn_xcoord_inf k : zn_x n (zn_smul n k 1) = None -> zn_smul n k 1 = 0.
  Proof.
    unfold zn_x, zn_smul. rewrite Zmod_mod. destruct (_ =? 0) eqn:E; [|discriminate].
    intros _. apply Z.eqb_eq in E. exact E.
  Qed.
  Lemma zn_G_order k : zn_smul n k 1 = 0 -> (n | k).
  Proof. unfold zn_smul. rewrite Z.mul_1_r. apply Z.mod_divide. lia. Qed.
  Lemma zn_xcoord_neg t : zn_x n (zn_smul n (- t) 1) = zn_x n (zn_smul n t 1).
  Proof.
    unfold zn_x, zn_smul. rewrite !Z.mul_1_r, !Zmod_mod.
    destruct (Z.eq_dec (t mod n) 0) as [E|E].
    - rewrite (Z_mod_zero_opp_full _ _ E), E. reflexivity.
    - rewrite (Z_mod_nz_opp_full _ _ E).
      pose proof (Z.mod_pos_bound t n n_pos) as Hb.
      destruct (n - t mod n =? 0) eqn:E1; [apply Z.eqb_eq in E1; lia|].
      destruct (t mod n =? 0) eqn:E2; [apply Z.eqb_eq in E2; lia|].
      f_equal. lia.
  Qed.
End Zn.

(* completeness, closed: ECDSA over Z_n for every prime n *)
Theorem verify_sign_zn n d e k r s :
  prime n -> 1 <= k <= n - 1 ->
  sign Z (zn_smul n) (zn_x n) 1 n d e k = SOk (r, s) ->
  verifies Z (zn_padd n) (zn_smul n) (zn_x n) 1 n (zn_smul n d 1) e r s = Ok true.
Proof.
  intros Hp Hk. pose proof (prime_ge_2 n Hp) as Hn.
  apply (verify_sign Z (zn_padd n) (zn_smul n) (zn_x n) 1 n 0 Hp
           (zn_smul_add n) (zn_smul_mul n) (zn_smul_n n) (zn_smul_inf n) (zn_padd_inf_r n)); exact Hk.
Qed.

(* ------------------------------------------------------------------------ *)
(* integer helpers of util.py *)

Ltac zdiv := Z.div_mod_to_equations; lia.

Lemma bit_length_pos n : 0 < n -> bit_length n = Z.log2 n + 1.
Proof.
  intro H. unfold bit_length. destruct (n =? 0) eqn:E; [apply Z.eqb_eq in E; lia|].
  destruct (0 <? n) eqn:E2; [reflexivity | apply Z.ltb_ge in E2; lia].
Qed.

Lemma hexlen_pos n : 0 < n -> hexlen n = Z.log2 n / 4 + 1.
Proof.
  intro H. unfold hexlen. destruct (n =? 0) eqn:E; [apply Z.eqb_eq in E; lia|].
  destruct (0 <? n) eqn:E2; [reflexivity | apply Z.ltb_ge in E2; lia].
Qed.

Lemma hexlen_ge_1 n : 0 <= n -> 1 <= hexlen n.
Proof.
  intro H. unfold hexlen. destruct (n =? 0) eqn:E; [lia|].
  apply Z.eqb_neq in E. destruct (0 <? n) eqn:E2; [|apply Z.ltb_ge in E2; lia].
  pose proof (Z.log2_nonneg n). zdiv.
Qed.

Lemma orderlen_ge_1 n : 0 <= n -> 1 <= orderlen n.
Proof. intro H. unfold orderlen. pose proof (hexlen_ge_1 n H). zdiv. Qed.

(* orderlen(n) = ceil(bit_length(n) / 8): RFC 6979's rlen / 8 *)
Lemma orderlen_rolen n : 0 < n -> orderlen n = (bit_length n + 7) / 8.
Proof.
  intro H. unfold orderlen. rewrite hexlen_pos, bit_length_pos by exact H.
  pose proof (Z.log2_nonneg n). zdiv.
Qed.

Lemma bit_length_le_orderlen n : 0 < n -> bit_length n <= 8 * orderlen n.
Proof. intro H. rewrite orderlen_rolen by exact H. pose proof (Z.log2_nonneg n). zdiv. Qed.

(* ------------------------------------------------------------------------ *)
(* bit strings: FIPS 186-4 "leftmost bits" *)

Definition bit_step (acc : Z) (b : bool) : Z := 2 * acc + (if b then 1 else 0).

Lemma bits_value_fold bits : forall acc,
  fold_left bit_step bits acc = acc * 2 ^ Z.of_nat (length bits) + bits_value bits.
Proof.
  unfold bits_value. fold bit_step.
  induction bits as [|b t IH]; intro acc.
  - cbn. lia.
  - cbn [fold_left length]. rewrite (IH (bit_step acc b)), (IH (bit_step 0 b)).
    rewrite Nat2Z.inj_succ, Z.pow_succ_r by lia. unfold bit_step. ring.
Qed.

Lemma bits_value_app a b :
  bits_value (a ++ b) = bits_value a * 2 ^ Z.of_nat (length b) + bits_value b.
Proof.
  unfold bits_value at 1. fold bit_step. rewrite fold_left_app.
  rewrite bits_value_fold. reflexivity.
Qed.

Lemma bits_value_bound bits : 0 <= bits_value bits < 2 ^ Z.of_nat (length bits).
Proof.
  induction bits as [|b t IH] using rev_ind.
  - cbn. lia.
  - rewrite bits_value_app, app_length. cbn [length].
    replace (Z.of_nat (length t + 1)) with (Z.succ (Z.of_nat (length t))) by lia.
    rewrite Z.pow_succ_r by lia. change (2 ^ Z.of_nat 1) with 2.
    assert (0 <= bits_value [b] < 2) by (destruct b; cbn; lia). lia.
Qed.

Lemma byte_bits_value x : bits_value (byte_bits x) = Z.of_N (b2n x).
Proof. destruct x; reflexivity. Qed.

Lemma byte_bits_length x : length (byte_bits x) = 8%nat.
Proof. reflexivity. Qed.

Lemma bits_of_length data : length (bits_of data) = (8 * length data)%nat.
Proof.
  unfold bits_of. induction data as [|x t IH]; [reflexivity|].
  cbn [flat_map]. rewrite app_length, IH, byte_bits_length. cbn [length]. lia.
Qed.

Lemma bits_of_app a b : bits_of (a ++ b) = bits_of a ++ bits_of b.
Proof. unfold bits_of. apply flat_map_app. Qed.

Lemma from_be_bits data : Z.of_N (from_be data) = bits_value (bits_of data).
Proof.
  induction data as [|x t IH] using rev_ind; [reflexivity|].
  rewrite from_be_app, bits_of_app, bits_value_app.
  change (blen [x]) with 1%N. change (256 ^ 1)%N with 256%N.
  change (from_be [x]) with (0 * 256 + b2n x)%N.
  change (bits_of [x]) with (byte_bits x ++ []). rewrite app_nil_r, byte_bits_length, byte_bits_value.
  rewrite <- IH. change (2 ^ Z.of_nat 8) with 256. lia.
Qed.

Lemma blen_Z {A} (l : list A) : Z.of_N (blen l) = Z.of_nat (length l).
Proof. unfold blen. lia. Qed.

(* the first q bits of a bit string are its value shifted right *)
Lemma bits_value_firstn q bits : (q <= length bits)%nat ->
  bits_value (firstn q bits) = bits_value bits / 2 ^ Z.of_nat (length bits - q).
Proof.
  intro H. rewrite <- (firstn_skipn q bits) at 2.
  rewrite bits_value_app, skipn_length.
  pose proof (bits_value_bound (skipn q bits)) as Hb. rewrite skipn_length in Hb.
  rewrite Z.div_add_l by (apply Z.pow_nonzero; lia).
  rewrite (Z.div_small (bits_value (skipn q bits))) by exact Hb. lia.
Qed.

(* bits2int (generated from rfc6979.py) takes the leftmost qlen bits *)
Theorem bits2int_leftmost data qlen : data <> [] -> 0 <= qlen ->
  bits2int data qlen = Ok (leftmost_bits qlen data).
Proof.
  intros Hne Hq. unfold bits2int. destruct data as [|x t]; [congruence|].
  f_equal. unfold bits2int_core, leftmost_bits.
  set (data := x :: t). rewrite from_be_bits, blen_Z.
  assert (Hl : Z.of_nat (length data) * 8 = Z.of_nat (length (bits_of data))) by (rewrite bits_of_length; lia).
  rewrite Hl. destruct (qlen <? _) eqn:C.
  - apply Z.ltb_lt in C. rewrite Z.shiftr_div_pow2 by lia.
    rewrite bits_value_firstn by lia. do 2 f_equal. lia.
  - apply Z.ltb_ge in C. rewrite firstn_all2 by lia. reflexivity.
Qed.

(* _truncate_and_convert_digest with allow_truncate=True is bits2int with
   qlen = bit length of the order: for every digest length and every order *)
Theorem truncate_is_bits2int digest n : 0 < n ->
  truncate_and_convert_digest digest n true = lift (bits2int digest (bit_length n)).
Proof.
  intro Hn. unfold truncate_and_convert_digest, bits2int, string_to_number.
  pose proof (orderlen_ge_1 n ltac:(lia)) as Ho.
  pose proof (bit_length_le_orderlen n Hn) as Hq.
  pose proof (bit_length_pos n Hn) as Hbl. pose proof (Z.log2_nonneg n) as Hlog.
  set (B := orderlen n) in *. set (q := bit_length n) in *.
  destruct digest as [|x t]; [rewrite takeN_firstn, firstn_nil; reflexivity|].
  set (digest := x :: t).
  assert (Hd : takeN (Z.to_N B) digest <> []).
  { rewrite takeN_firstn. replace (N.to_nat (Z.to_N B)) with (S (Z.to_nat (B - 1))) by lia.
    unfold digest. cbn [firstn]. discriminate. }
  destruct (takeN (Z.to_N B) digest) as [|y u] eqn:Et; [congruence|]. clear Hd.
  cbn [lift sbind]. f_equal. unfold bits2int_core. rewrite <- Et.
  destruct (Z_le_gt_dec (Z.of_N (blen digest)) B) as [Hs|Hl].
  - (* the digest is not longer than the order: nothing is cut *)
    rewrite takeN_all by lia.
    destruct (q <? _) eqn:C.
    + apply Z.ltb_lt in C. f_equal. lia.
    + apply Z.ltb_ge in C. rewrite Z.max_l by lia. apply Z.shiftr_0_r.
  - (* longer: byte truncation, then the bit shift *)
    pose proof (takeN_dropN (Z.to_N B) digest) as Hsplit.
    set (d := takeN (Z.to_N B) digest) in *. set (rest := dropN (Z.to_N B) digest) in *.
    assert (Hbd : Z.of_N (blen d) = B) by (unfold d; rewrite takeN_blen; lia).
    assert (HL : Z.of_N (blen digest) = B + Z.of_N (blen rest)).
    { rewrite <- Hsplit, blen_app. lia. }
    rewrite Hbd.
    replace (q <? Z.of_N (blen digest) * 8) with true by (symmetry; apply Z.ltb_lt; lia).
    rewrite Z.max_r by lia. rewrite !Z.shiftr_div_pow2 by lia.
    rewrite <- Hsplit at 1. rewrite from_be_app.
    pose proof (from_be_lt rest) as Hr.
    replace (Z.of_N (blen digest) * 8 - q) with (8 * Z.of_N (blen rest) + (B * 8 - q)) by lia.
    rewrite Z.pow_add_r by lia. rewrite <- Z.div_div by (try apply Z.pow_nonzero; try apply Z.pow_pos_nonneg; lia).
    f_equal.
    rewrite N2Z.inj_add, N2Z.inj_mul, N2Z.inj_pow.
    replace (2 ^ (8 * Z.of_N (blen rest))) with (Z.of_N 256 ^ Z.of_N (blen rest)).
    2:{ rewrite Z.pow_mul_r by lia. reflexivity. }
    rewrite Z.div_add_l by (apply Z.pow_nonzero; lia).
    rewrite Z.div_small; [lia|]. split; [lia|].
    rewrite <- N2Z.inj_pow. lia.
Qed.

(* ------------------------------------------------------------------------ *)
(* number_to_string on values below the order: fixed width, big endian
   (= int2octets of RFC 6979 2.3.3, since orderlen = ceil(qlen / 8)) *)

Lemma hexlen_mono v n : 0 <= v <= n -> hexlen v <= hexlen n.
Proof.
  intros [H0 H1]. destruct (Z.eq_dec v 0) as [->|Hv].
  - change (hexlen 0) with 1. apply hexlen_ge_1. lia.
  - rewrite !hexlen_pos by lia. pose proof (Z.log2_le_mono v n H1). pose proof (Z.log2_nonneg v). zdiv.
Qed.

Lemma hex_bytes_small v n : 0 <= v < n ->
  hex_bytes v (orderlen n) = Ok (be (Z.to_nat (orderlen n)) (Z.to_N v)).
Proof.
  intros Hv. unfold hex_bytes. destruct (v <? 0) eqn:E; [apply Z.ltb_lt in E; lia|].
  pose proof (hexlen_mono v n ltac:(lia)) as Hm.
  assert (Hl : hexlen n <= 2 * orderlen n) by (unfold orderlen; zdiv).
  rewrite Z.max_l by lia. rewrite Z.odd_mul. cbn [Z.odd andb].
  rewrite Z.mul_comm, Z.div_mul by lia. reflexivity.
Qed.

Lemma number_to_string_small v n : 0 <= v < n ->
  number_to_string v n = Ok (be (Z.to_nat (orderlen n)) (Z.to_N v)).
Proof.
  intro Hv. unfold number_to_string. rewrite (hex_bytes_small v n Hv). cbn [bind].
  pose proof (orderlen_ge_1 n ltac:(lia)).
  rewrite be_blen, nat_N_Z, Z2Nat.id, Z.eqb_refl by lia. reflexivity.
Qed.

Lemma number_to_string_crop_small v n : 0 <= v < n ->
  number_to_string_crop v n = Ok (be (Z.to_nat (orderlen n)) (Z.to_N v)).
Proof.
  intro Hv. unfold number_to_string_crop. rewrite (hex_bytes_small v n Hv). cbn [bind].
  pose proof (orderlen_ge_1 n ltac:(lia)).
  rewrite takeN_all; [reflexivity|]. rewrite be_blen. lia.
Qed.

(* values below the order fit the fixed width *)
Lemma lt_order_fits v n : 0 <= v < n -> (Z.to_N v < 256 ^ N.of_nat (Z.to_nat (orderlen n)))%N.
Proof.
  intro Hv. pose proof (orderlen_ge_1 n ltac:(lia)) as Ho.
  assert (Hn : 0 < n) by lia.
  pose proof (bit_length_le_orderlen n Hn) as Hb. rewrite (bit_length_pos n Hn) in Hb.
  pose proof (Z.log2_spec n Hn) as [_ Hu].
  assert (Hz : v < 256 ^ orderlen n).
  { replace 256 with (2 ^ 8) by reflexivity. rewrite <- Z.pow_mul_r by lia.
    apply Z.lt_le_trans with (2 ^ Z.succ (Z.log2 n)); [lia|].
    apply Z.pow_le_mono_r; lia. }
  apply N2Z.inj_lt. rewrite N2Z.inj_pow, Z2N.id, nat_N_Z, Z2Nat.id by lia. exact Hz.
Qed.

(* ------------------------------------------------------------------------ *)
(* RFC 6979: bits2octets and the candidate loop *)

Lemma leftmost_bits_bound qlen data : 0 <= qlen -> 0 <= leftmost_bits qlen data < 2 ^ qlen.
Proof.
  intro Hq. unfold leftmost_bits.
  pose proof (bits_value_bound (firstn (Z.to_nat qlen) (bits_of data))) as [H0 H1].
  split; [exact H0|]. eapply Z.lt_le_trans; [exact H1|].
  apply Z.pow_le_mono_r; [lia|]. rewrite firstn_length. lia.
Qed.

(* bits2octets = int2octets(bits2int(b) mod q)   (RFC 6979 2.3.4) *)
Theorem bits2octets_rfc data q : 0 < q -> data <> [] ->
  bits2octets bit_length number_to_string_crop data q =
  Ok (be (Z.to_nat (orderlen q)) (Z.to_N (leftmost_bits (bit_length q) data mod q))).
Proof.
  intros Hq Hd. unfold bits2octets.
  pose proof (bit_length_pos q Hq) as Hbl. pose proof (Z.log2_nonneg q) as Hl.
  rewrite (bits2int_leftmost data (bit_length q) Hd ltac:(lia)). cbn [bind].
  pose proof (leftmost_bits_bound (bit_length q) data ltac:(lia)) as Hb.
  set (z1 := leftmost_bits (bit_length q) data) in *.
  assert (H2q : 2 ^ bit_length q <= 2 * q).
  { rewrite Hbl. pose proof (Z.log2_spec q Hq) as [Hlo _].
    replace (Z.log2 q + 1) with (Z.succ (Z.log2 q)) by lia. rewrite Z.pow_succ_r by lia. lia. }
  assert (Hm : bits2octets_mid z1 q = z1 mod q).
  { unfold bits2octets_mid. destruct (z1 - q <? 0) eqn:C.
    - apply Z.ltb_lt in C. symmetry. apply Z.mod_small. lia.
    - apply Z.ltb_ge in C. apply (Zmod_unique z1 q 1); lia. }
  rewrite Hm. apply number_to_string_crop_small. apply Z.mod_pos_bound. exact Hq.
Qed.

Lemma accept_good c q : generate_k_accept c q = (1 <=? c) && (c <=? q - 1).
Proof.
  unfold generate_k_accept. f_equal.
  destruct (c <? q) eqn:A, (c <=? q - 1) eqn:B; try reflexivity.
  - apply Z.ltb_lt in A. apply Z.leb_gt in B. lia.
  - apply Z.ltb_ge in A. apply Z.leb_le in B. lia.
Qed.

Section RfcLoop.
  Variable hname : Type.
  Variable hmac : hname -> bytes -> bytes -> bytes.
  Variable h : hname.
  Variable hlen : Z.
  Variable q : Z.
  Variable x_octets h_octets extra : bytes.

  Hypothesis hmac_len : forall key m, Z.of_N (blen (hmac h key m)) = hlen.
  Hypothesis hlen_pos : 1 <= hlen.
  Hypothesis q_pos : 0 < q.

  Let qlen := bit_length q.
  Let rolen := generate_k_rolen qlen.
  Let blocks := rfc_blocks hlen q.

  Lemma qlen_rfc : rfc_qlen q = qlen.
  Proof. unfold rfc_qlen, qlen. symmetry. apply bit_length_pos. exact q_pos. Qed.

  Lemma qlen_pos : 1 <= qlen.
  Proof. unfold qlen. rewrite bit_length_pos by exact q_pos. pose proof (Z.log2_nonneg q). lia. Qed.

  (* i * hlen < ceil(qlen/8)  <->  i < ceil(qlen / (8 hlen)) *)
  Lemma blocks_spec i : 0 <= i -> (i * hlen < rolen <-> i < Z.of_nat blocks).
  Proof.
    intro Hi. unfold rolen, generate_k_rolen, blocks, rfc_blocks. rewrite qlen_rfc.
    pose proof qlen_pos as Hq.
    set (m := 8 * hlen). assert (Hm : 0 < m) by (unfold m; lia).
    assert (Hc : 0 <= (qlen + m - 1) / m) by (apply Z.div_pos; lia).
    rewrite Z2Nat.id by exact Hc.
    (* both sides are equivalent to  i * m < qlen *)
    assert (A : i * hlen < (qlen + 7) / 8 <-> i * m < qlen).
    { unfold m. split; intro H.
      - assert (8 * (i * hlen + 1) <= qlen + 7); [|lia].
        assert (i * hlen + 1 <= (qlen + 7) / 8) by lia.
        pose proof (Z.mul_div_le (qlen + 7) 8 ltac:(lia)). lia.
      - assert (i * hlen + 1 <= (qlen + 7) / 8); [|lia].
        apply Z.div_le_lower_bound; lia. }
    assert (B : i < (qlen + m - 1) / m <-> i * m < qlen).
    { split; intro H.
      - assert (i + 1 <= (qlen + m - 1) / m) by lia.
        pose proof (Z.mul_div_le (qlen + m - 1) m Hm).
        assert (m * (i + 1) <= m * ((qlen + m - 1) / m)) by (apply Z.mul_le_mono_nonneg_l; lia).
        lia.
      - assert (i + 1 <= (qlen + m - 1) / m); [|lia].
        apply Z.div_le_lower_bound; lia. }
    tauto.
  Qed.

  Lemma blocks_le_rolen : Z.of_nat blocks <= rolen.
  Proof.
    destruct (Z.eq_dec (Z.of_nat blocks) 0) as [E|E].
    - rewrite E. unfold rolen, generate_k_rolen. pose proof qlen_pos. zdiv.
    - pose proof (proj2 (blocks_spec (Z.of_nat blocks - 1) ltac:(lia)) ltac:(lia)). nia.
  Qed.

  (* Step H2 of the code = "while tlen < qlen" of the RFC *)
  Lemma fill_spec k : forall m fuel v t,
    (m <= fuel)%nat -> (m <= blocks)%nat ->
    Z.of_N (blen t) = Z.of_nat (blocks - m) * hlen ->
    gk_fill hname hmac h rolen fuel k v t =
    Ok (snd (rfc_T hname hmac h m k v), t ++ fst (rfc_T hname hmac h m k v)).
  Proof.
    induction m as [|m IH]; intros fuel v t Hf Hm Ht.
    - cbn [rfc_T fst snd]. rewrite app_nil_r.
      assert (C : (Z.of_N (blen t) <? rolen) = false).
      { apply Z.ltb_ge. rewrite Ht. rewrite Nat.sub_0_r.
        destruct (Z_lt_le_dec (Z.of_nat blocks * hlen) rolen) as [H|H]; [|lia].
        apply blocks_spec in H; lia. }
      destruct fuel; cbn [gk_fill]; rewrite C; reflexivity.
    - destruct fuel as [|f]; [lia|]. cbn [gk_fill].
      assert (C : (Z.of_N (blen t) <? rolen) = true).
      { apply Z.ltb_lt. rewrite Ht. apply blocks_spec; lia. }
      rewrite C. rewrite IH; [| lia | lia |].
      + cbn [rfc_T]. destruct (rfc_T hname hmac h m k (hmac h k v)) as [T V'] eqn:E.
        cbn [fst snd]. rewrite app_assoc. reflexivity.
      + rewrite blen_app, N2Z.inj_add, Ht, hmac_len.
        replace (Z.of_nat (blocks - m)) with (Z.of_nat (blocks - S m) + 1) by lia. ring.
  Qed.

  Lemma fill_full k v :
    gk_fill hname hmac h rolen (S (Z.to_nat rolen)) k v [] =
    Ok (snd (rfc_T hname hmac h blocks k v), fst (rfc_T hname hmac h blocks k v)).
  Proof.
    pose proof blocks_le_rolen.
    rewrite (fill_spec k blocks); [reflexivity | lia | lia |].
    rewrite Nat.sub_diag. reflexivity.
  Qed.

  Lemma rfc_T_length k : forall m v,
    Z.of_N (blen (fst (rfc_T hname hmac h m k v))) = Z.of_nat m * hlen.
  Proof.
    induction m as [|m IH]; intro v; [reflexivity|].
    cbn [rfc_T]. specialize (IH (hmac h k v)).
    destruct (rfc_T hname hmac h m k (hmac h k v)) as [T V']. cbn [fst] in *.
    rewrite blen_app, N2Z.inj_add, IH, hmac_len. lia.
  Qed.

  Lemma blocks_pos : (1 <= blocks)%nat.
  Proof.
    pose proof qlen_pos. assert (0 < Z.of_nat blocks); [|lia].
    apply (blocks_spec 0 ltac:(lia)). unfold rolen, generate_k_rolen. zdiv.
  Qed.

  Lemma rfc_T_nonempty k v : fst (rfc_T hname hmac h blocks k v) <> [].
  Proof.
    intro E. pose proof (rfc_T_length k blocks v) as Hl. rewrite E in Hl.
    pose proof blocks_pos. change (Z.of_N (blen (@nil byte))) with 0 in Hl. nia.
  Qed.

  Notation state := (rfc_state hname hmac h hlen q x_octets h_octets extra).
  Notation cand := (rfc_candidate hname hmac h hlen q x_octets h_octets extra).
  Notation good := (rfc_good hname hmac h hlen q x_octets h_octets extra).
  Notation good_before := (rfc_good_before hname hmac h hlen q x_octets h_octets extra).
  Notation loop := (gk_loop hname hmac h q qlen rolen).

  (* one turn of the `while True` loop on the i-th state *)
  Lemma loop_step f i retry :
    loop (S f) (fst (state i)) (snd (state i)) retry =
    if good i then
      if generate_k_retry_done retry then Ok (cand i)
      else loop f (fst (state (S i))) (snd (state (S i))) (retry - 1)
    else loop f (fst (state (S i))) (snd (state (S i))) retry.
  Proof.
    cbn [gk_loop]. rewrite fill_full. cbn [bind].
    rewrite bits2int_leftmost; [|apply rfc_T_nonempty | pose proof qlen_pos; lia]. cbn [bind].
    unfold rfc_good, rfc_candidate. rewrite qlen_rfc. fold blocks.
    cbn [rfc_state]. fold blocks.
    destruct (state i) as [K V]. cbn [fst snd].
    destruct (rfc_T hname hmac h blocks K V) as [T V']. cbn [fst snd].
    rewrite accept_good. reflexivity.
  Qed.

  Lemma good_before_mono i j : (i <= j)%nat -> good_before i <= good_before j.
  Proof.
    induction 1 as [|j Hij IH]; [lia|]. cbn [rfc_good_before]. destruct (good j); lia.
  Qed.

  Lemma good_before_S i : good_before (S i) = good_before i + (if good i then 1 else 0).
  Proof. reflexivity. Qed.

  (* soundness: what the loop returns is a suitable candidate, preceded by
     exactly max(0, retry_gen) suitable ones from where the loop started *)
  Lemma loop_sound : forall fuel i retry k,
    loop fuel (fst (state i)) (snd (state i)) retry = Ok k ->
    exists j, (i <= j)%nat /\ k = cand j /\ good j = true /\
              good_before j - good_before i = Z.max 0 retry.
  Proof.
    induction fuel as [|f IH]; intros i retry k E; [discriminate|].
    rewrite loop_step in E. destruct (good i) eqn:Eg.
    - unfold generate_k_retry_done in E. destruct (retry <=? 0) eqn:Er.
      + inversion E; subst. exists i. apply Z.leb_le in Er. repeat split; try lia; assumption.
      + apply Z.leb_gt in Er. apply IH in E as (j & Hj & Hk & Hg & Hc).
        exists j. rewrite good_before_S, Eg in Hc. repeat split; try lia; assumption.
    - apply IH in E as (j & Hj & Hk & Hg & Hc).
      exists j. rewrite good_before_S, Eg in Hc. repeat split; try lia; assumption.
  Qed.

  (* completeness: with enough fuel the loop returns that candidate *)
  Lemma loop_complete : forall fuel i j retry,
    (i <= j)%nat -> good j = true -> good_before j - good_before i = Z.max 0 retry ->
    (j - i < fuel)%nat ->
    loop fuel (fst (state i)) (snd (state i)) retry = Ok (cand j).
  Proof.
    induction fuel as [|f IH]; intros i j retry Hij Hg Hc Hf; [lia|].
    rewrite loop_step. destruct (good i) eqn:Eg.
    - unfold generate_k_retry_done. destruct (retry <=? 0) eqn:Er.
      + apply Z.leb_le in Er. destruct (Nat.eq_dec i j) as [->|Hne]; [reflexivity|].
        pose proof (good_before_mono (S i) j ltac:(lia)) as Hm.
        rewrite good_before_S, Eg in Hm. lia.
      + apply Z.leb_gt in Er.
        assert (i <> j) by (intros ->; lia).
        apply IH; [lia | exact Hg | rewrite good_before_S, Eg; lia | lia].
    - assert (i <> j) by (intros ->; congruence).
      apply IH; [lia | exact Hg | rewrite good_before_S, Eg; lia | lia].
  Qed.

  Lemma good_before_0_first j : good_before j = 0 -> forall i, (i < j)%nat -> good i = false.
  Proof.
    intros H0 i Hi. destruct (good i) eqn:Eg; [|reflexivity].
    pose proof (good_before_mono (S i) j ltac:(lia)) as Hm.
    pose proof (good_before_mono 0 i ltac:(lia)) as Hm0. cbn [rfc_good_before] in Hm0.
    rewrite good_before_S, Eg in Hm. lia.
  Qed.

  Lemma good_range j : good j = true <-> 1 <= cand j <= q - 1.
  Proof. unfold rfc_good. rewrite andb_true_iff, !Z.leb_le. tauto. Qed.
End RfcLoop.

(* generate_k = the RFC 6979 stream started on int2octets(x) || bits2octets(h1) || k' *)
Section GenerateK.
  Variable hname : Type.
  Variable hmac : hname -> bytes -> bytes -> bytes.
  Variable digest_size : hname -> Z.
  Variable h : hname.
  Variable q x : Z.
  Variable data extra : bytes.

  Hypothesis hmac_len : forall key m, Z.of_N (blen (hmac h key m)) = digest_size h.
  Hypothesis hlen_pos : 1 <= digest_size h.
  Hypothesis q_pos : 0 < q.
  Hypothesis x_range : 0 <= x < q.
  Hypothesis data_nonempty : data <> [].

  (* RFC 6979 2.3.3 / 2.3.4 with rlen = 8 * ceil(qlen / 8) *)
  Definition rlen_octets : nat := Z.to_nat ((rfc_qlen q + 7) / 8).
  Definition int2octets_x : bytes := be rlen_octets (Z.to_N x).
  Definition bits2octets_h1 : bytes := be rlen_octets (Z.to_N (leftmost_bits (rfc_qlen q) data mod q)).

  Notation cand := (rfc_candidate hname hmac h (digest_size h) q int2octets_x bits2octets_h1 extra).
  Notation good := (rfc_good hname hmac h (digest_size h) q int2octets_x bits2octets_h1 extra).
  Notation good_before := (rfc_good_before hname hmac h (digest_size h) q int2octets_x bits2octets_h1 extra).

  Lemma generate_k_unfold fuel retry :
    generate_k hname hmac digest_size fuel q x h data retry extra =
    gk_loop hname hmac h q (bit_length q) (generate_k_rolen (bit_length q)) fuel
      (fst (rfc_state hname hmac h (digest_size h) q int2octets_x bits2octets_h1 extra 0))
      (snd (rfc_state hname hmac h (digest_size h) q int2octets_x bits2octets_h1 extra 0)) retry.
  Proof.
    unfold generate_k. rewrite (number_to_string_small x q x_range). cbn [bind].
    rewrite (bits2octets_rfc data q q_pos data_nonempty). cbn [bind].
    unfold int2octets_x, bits2octets_h1, rlen_octets, rfc_qlen.
    rewrite <- (bit_length_pos q q_pos), <- (orderlen_rolen q q_pos).
    cbn [rfc_state rfc_init fst snd]. reflexivity.
  Qed.

  Theorem generate_k_sound fuel retry k :
    generate_k hname hmac digest_size fuel q x h data retry extra = Ok k ->
    exists j, k = cand j /\ 1 <= k <= q - 1 /\ good_before j = Z.max 0 retry.
  Proof.
    rewrite generate_k_unfold. intro E.
    apply (loop_sound hname hmac h (digest_size h) q int2octets_x bits2octets_h1 extra hmac_len hlen_pos q_pos) in E
      as (j & _ & Hk & Hg & Hc).
    exists j. cbn [rfc_good_before] in Hc. split; [exact Hk|]. split; [|lia].
    rewrite Hk. apply good_range. exact Hg.
  Qed.

  (* retry_gen = 0 (the library's first attempt): the FIRST suitable candidate *)
  Theorem generate_k_first fuel k :
    generate_k hname hmac digest_size fuel q x h data 0 extra = Ok k ->
    exists j, k = cand j /\ 1 <= k <= q - 1 /\
      forall i, (i < j)%nat -> ~ (1 <= cand i <= q - 1).
  Proof.
    intro E. apply generate_k_sound in E as (j & Hk & Hr & Hc). exists j. repeat split; try assumption; try lia.
    intros i Hi Hgood. apply good_range in Hgood.
    rewrite (good_before_0_first hname hmac h (digest_size h) q int2octets_x bits2octets_h1 extra j Hc i Hi) in Hgood.
    discriminate.
  Qed.

  Theorem generate_k_complete fuel retry j :
    1 <= cand j <= q - 1 -> good_before j = Z.max 0 retry -> (j < fuel)%nat ->
    generate_k hname hmac digest_size fuel q x h data retry extra = Ok (cand j).
  Proof.
    intros Hg Hc Hf. rewrite generate_k_unfold.
    apply (loop_complete hname hmac h (digest_size h) q int2octets_x bits2octets_h1 extra hmac_len hlen_pos q_pos);
      [lia | apply good_range; exact Hg | cbn [rfc_good_before]; lia | lia].
  Qed.
End GenerateK.

Theorem zn_group_laws n : prime n -> group_laws Z (zn_padd n) (zn_smul n) (zn_x n) 1 n 0.
Proof.
  intro Hp. pose proof (prime_ge_2 n Hp) as Hn. assert (Hpos : 0 < n) by lia.
  constructor; [exact Hp | apply zn_smul_add | apply zn_smul_mul | apply zn_smul_n | apply zn_smul_inf
               | apply zn_padd_inf_r | apply zn_xcoord_inf | apply zn_G_order; exact Hpos
               | apply zn_xcoord_neg; exact Hpos].
Qed.
