(* C19 - primality of the field primes of the shipped curves (the part Properties/C19.v uses).

   The curve parameters are GENERATED from /repo on every run (Gen/KeyOids.v by
   tools/gen/keycodec.py); the certificates (Proofs/PrimeCerts.v) are committed data keyed by the
   number.  Each generated value is looked up in the certificate table: a constant changed in /repo
   finds no certificate and the lemmas below stop compiling.  The expensive part (running the
   checker) happened once, in PrimeCerts.v, which does not depend on the generated files.

   This file covers the field primes of at most 256 bits (12 of the 17 curves); the five larger
   field primes and all group orders are in Proofs/CurvePrimesBig.v.  The split exists only because
   the thorough tier re-checks the cone of Properties/C19.v with coqchk, which has no bytecode VM
   (PrimeCerts.v: 26 s with vm_compute, about 6 minutes in coqchk; the PrimeCertsBig*.v files: 100 s
   with vm_compute, about 50 minutes in coqchk). *)
From Coq Require Import List Bool ZArith NArith Lia Znumtheory.
From Bec2 Require Import Base.Result Gen.KeyOids Proofs.Pocklington Proofs.PrimeCerts.
Import ListNotations.
Open Scope Z_scope.

Definition name_eqb (a b : list N) : bool := list_eqb N.eqb a b.
Definition named (names : list (list N)) (n : list N) : bool := existsb (name_eqb n) names.

Definition certified_small (N : Z) : bool := has_cert prime_certs N.

Lemma certified_small_prime N : certified_small N = true -> prime N.
Proof. apply has_cert_sound, prime_certs_prime. Qed.

(* the curves whose field prime has more than 256 bits: certified in Proofs/CurvePrimesBig.v *)
Definition p_big : list (list N) :=
  [w_name w_BRAINPOOLP320r1; w_name w_BRAINPOOLP384r1; w_name w_BRAINPOOLP512r1;
   w_name w_NIST384p; w_name w_NIST521p].

Lemma wrows_p_small_check :
  forallb (fun r => named p_big (w_name r) || certified_small (Z.of_N (w_p r))) wrows = true.
Proof. vm_compute. reflexivity. Qed.

Theorem wrows_p_small_prime : forall r, In r wrows -> named p_big (w_name r) = false ->
  prime (Z.of_N (w_p r)).
Proof.
  intros r Hin Hn. pose proof wrows_p_small_check as H. rewrite forallb_forall in H.
  specialize (H r Hin). rewrite Hn in H. apply certified_small_prime, H.
Qed.

(* 12 of the 17 rows *)
Lemma wrows_p_small_count : length (filter (fun r => negb (named p_big (w_name r))) wrows) = 12%nat.
Proof. vm_compute. reflexivity. Qed.
