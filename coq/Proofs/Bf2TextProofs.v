(* C13, text level (partial): a rendered data line parses back to its fields. *)
From Coq Require Import List Bool NArith ZArith Lia.
From Coq Require Import Init.Byte.
From Bec2 Require Import Base.Result Base.Bytes Base.Reader Model.Bf2Str Model.Bf2Import.
Import ListNotations.
Open Scope N_scope.

Definition keep (c : N) : bool := negb (hex2bin_skip c).

(* both hex digits of a byte survive the cleaning of hex2bin and decode to the byte *)
Definition byte_hex_ok (x : byte) : bool :=
  match hex_byte x with
  | [h; l] =>
    keep h && keep l &&
    match hexval h, hexval l with
    | Some a, Some b => byte_eqb (n2b (a * 16 + b)) x
    | _, _ => false
    end
  | _ => false
  end.

Lemma all_bytes_hex_ok : forall x, byte_hex_ok x = true.
Proof. intro x. destruct x; vm_compute; reflexivity. Qed.

Lemma hex_byte_shape x : exists h l a b,
  hex_byte x = [h; l] /\ keep h = true /\ keep l = true /\
  hexval h = Some a /\ hexval l = Some b /\ n2b (a * 16 + b) = x.
Proof.
  pose proof (all_bytes_hex_ok x) as H. unfold byte_hex_ok in H.
  destruct (hex_byte x) as [|h [|l [|? ?]]] eqn:E; try discriminate.
  apply andb_true_iff in H as [H1 H2]. apply andb_true_iff in H1 as [Hh Hl].
  destruct (hexval h) as [a|] eqn:Ea; [|discriminate]. destruct (hexval l) as [b|] eqn:Eb; [|discriminate].
  apply byte_eqb_eq in H2. exists h, l, a, b. repeat split; try assumption; try reflexivity.
Qed.

Lemma filter_keep_hex b : filter keep (hex_upper b) = hex_upper b.
Proof.
  induction b as [|x t IH]; [reflexivity|].
  unfold hex_upper in *. cbn [flat_map]. rewrite filter_app, IH.
  destruct (hex_byte_shape x) as (h & l & a & c & E & Hh & Hl & _). rewrite E.
  cbn [filter]. rewrite Hh, Hl. reflexivity.
Qed.

Lemma unhexlify_hex b : unhexlify (hex_upper b) = Ok b.
Proof.
  induction b as [|x t IH]; [reflexivity|].
  unfold hex_upper in *. cbn [flat_map].
  destruct (hex_byte_shape x) as (h & l & a & c & E & _ & _ & Ha & Hc & Hx). rewrite E.
  cbn [app unhexlify]. rewrite Ha, Hc, IH. cbn [bind]. rewrite Hx. reflexivity.
Qed.

Lemma hex_upper_length b : length (hex_upper b) = (2 * length b)%nat.
Proof.
  induction b as [|x t IH]; [reflexivity|]. unfold hex_upper in *. cbn [flat_map].
  rewrite app_length, IH. destruct (hex_byte_shape x) as (h & l & a & c & E & _). rewrite E. cbn. lia.
Qed.

Lemma hex2bin_rendered b eol : (eol = [13; 10] \/ eol = [10]) ->
  hex2bin ([58] ++ hex_upper b ++ eol) = Ok b.
Proof.
  intro He. unfold hex2bin. fold keep.
  assert (C : filter keep ([58] ++ hex_upper b ++ eol) = hex_upper b).
  { rewrite !filter_app, filter_keep_hex.
    destruct He as [-> | ->]; cbn; apply app_nil_r. }
  change (fun c : N => negb (hex2bin_skip c)) with keep. rewrite C.
  replace (N.odd (blen (hex_upper b))) with false; [apply unhexlify_hex|].
  unfold blen. rewrite hex_upper_length. rewrite Nat2N.inj_mul. symmetry.
  change (N.of_nat 2) with 2. rewrite N.odd_mul. reflexivity.
Qed.

Theorem parse_rendered_line ndx ty tag extra eol :
  ndx < 65536 -> ty < 256 -> blen tag < 256 -> (eol = [13; 10] \/ eol = [10]) ->
  let raw := be 2 ndx ++ [n2b ty] ++ [n2b (blen tag)] ++ tag ++ extra in
  parse_data_line ([58] ++ hex_upper raw ++ eol) = Ok (mkLine ty ndx tag raw).
Proof.
  intros Hn Ht Hl He raw. unfold parse_data_line.
  rewrite (hex2bin_rendered raw eol He). cbn [bind]. unfold new_reader, raw.
  change 2 with (N.of_nat 2) at 1.
  rewrite rd_read_int_be by (change (256 ^ N.of_nat 2) with 65536; exact Hn). cbn [bind].
  change [n2b ty] with (be 1 ty). change 1 with (N.of_nat 1) at 1.
  rewrite rd_read_int_be by (change (256 ^ N.of_nat 1) with 256; exact Ht). cbn [bind].
  change [n2b (blen tag)] with (be 1 (blen tag)). change 1 with (N.of_nat 1) at 1.
  rewrite rd_read_int_be by (change (256 ^ N.of_nat 1) with 256; exact Hl). cbn [bind].
  rewrite rd_read_app. cbn [bind]. reflexivity.
Qed.

(* ---------------------------------------------------------------------------- *)
(* a rendered data group (start marker, data lines, end marker; CRLF) parses to
   one Load token holding exactly those lines                                    *)

Definition raw_of (ndx ty : N) (tag extra : bytes) : bytes :=
  be 2 ndx ++ [n2b ty] ++ [n2b (blen tag)] ++ tag ++ extra.
Definition render_line (raw : bytes) : str := [58] ++ hex_upper raw ++ [13; 10].
Definition text_ok (l : line) : Prop :=
  exists extra, l_raw l = raw_of (l_ndx l) (l_type l) (l_tag l) extra /\
                l_ndx l < 65536 /\ l_type l < 254 /\ blen (l_tag l) < 256.
Definition render_group (ls : list line) : str :=
  render_line (raw_of 0 254 [] []) ++ flat_map (fun l => render_line (l_raw l)) ls
  ++ render_line (raw_of 0 255 [] []).

Lemma keep_not_nl c : keep c = true -> (c =? 10) = false.
Proof.
  intro H. destruct (c =? 10) eqn:E; [|reflexivity]. apply N.eqb_eq in E. subst. discriminate.
Qed.

Lemma hex_upper_keep b : forallb keep (hex_upper b) = true.
Proof.
  rewrite <- (filter_keep_hex b) at 1. apply forallb_forall. intros x Hx.
  apply filter_In in Hx as [_ Hx]. exact Hx.
Qed.

Lemma lines_of_body : forall body acc rest,
  forallb (fun c => negb (c =? 10)) body = true ->
  lines_of (body ++ 10 :: rest) acc = (rev acc ++ body ++ [10]) :: lines_of rest [].
Proof.
  induction body as [|c t IH]; intros acc rest H.
  - cbn [app lines_of]. change (10 =? 10) with true. cbv iota. cbn [rev]. reflexivity.
  - cbn [forallb] in H. apply andb_true_iff in H as [H1 H2]. apply negb_true_iff in H1.
    cbn [app lines_of]. rewrite H1. rewrite IH by exact H2. cbn [rev]. rewrite <- app_assoc. reflexivity.
Qed.

Lemma lines_of_render raw rest :
  lines_of (render_line raw ++ rest) [] = render_line raw :: lines_of rest [].
Proof.
  unfold render_line.
  replace (([58] ++ hex_upper raw ++ [13; 10]) ++ rest)
    with (([58] ++ hex_upper raw ++ [13]) ++ 10 :: rest)
    by (rewrite <- !app_assoc; reflexivity).
  rewrite lines_of_body.
  - cbn [rev app]. rewrite <- !app_assoc. reflexivity.
  - rewrite !forallb_app. cbn [forallb]. change (negb (58 =? 10)) with true.
    change (negb (13 =? 10)) with true. cbn [andb]. rewrite andb_true_r.
    pose proof (hex_upper_keep raw) as K. rewrite forallb_forall in *. intros x Hx.
    rewrite (keep_not_nl x (K x Hx)). reflexivity.
Qed.

Lemma lines_of_group : forall ls rest,
  lines_of (flat_map (fun l => render_line (l_raw l)) ls ++ rest) [] =
  map (fun l => render_line (l_raw l)) ls ++ lines_of rest [].
Proof.
  induction ls as [|l t IH]; intro rest; [reflexivity|].
  cbn [flat_map map]. rewrite <- app_assoc, lines_of_render, IH. reflexivity.
Qed.

Lemma parse_render_line l : text_ok l ->
  parse_data_line (render_line (l_raw l)) = Ok l.
Proof.
  intros (extra & Hr & Hn & Ht & Hl). unfold render_line. rewrite Hr. unfold raw_of.
  rewrite parse_rendered_line; [|exact Hn|lia|exact Hl|left; reflexivity].
  fold (raw_of (l_ndx l) (l_type l) (l_tag l) extra). rewrite <- Hr. destruct l; reflexivity.
Qed.

Lemma parse_lines_data : forall ls acc tail,
  Forall text_ok ls ->
  parse_lines (map (fun l => render_line (l_raw l)) ls ++ tail) acc =
  parse_lines tail (rev ls ++ acc).
Proof.
  induction ls as [|l t IH]; intros acc tail H; [reflexivity|].
  inversion H as [|? ? Hl Ht]; subst. cbn [map app].
  unfold render_line at 1. cbn [app]. cbn [parse_lines]. change (58 =? 58) with true. cbv iota.
  change (58 :: hex_upper (l_raw l) ++ [13; 10]) with (render_line (l_raw l)).
  rewrite (parse_render_line l Hl). cbn [bind].
  destruct Hl as (_ & _ & _ & Hty & _).
  replace (l_type l =? 255) with false by (symmetry; apply N.eqb_neq; lia).
  replace (l_type l =? 254) with false by (symmetry; apply N.eqb_neq; lia).
  rewrite IH by exact Ht. cbn [rev]. rewrite <- app_assoc. reflexivity.
Qed.

Theorem parse_rendered_group ls : ls <> [] -> Forall text_ok ls ->
  parse_text (render_group ls) = Ok [Load ls].
Proof.
  intros Hne H. unfold parse_text, render_group.
  rewrite lines_of_render, lines_of_group.
  rewrite <- (app_nil_r (render_line (raw_of 0 255 [] []))) at 1.
  rewrite lines_of_render. cbn [lines_of].
  (* start marker *)
  unfold render_line at 1. cbn [app parse_lines]. change (58 =? 58) with true. cbv iota.
  change (58 :: hex_upper (raw_of 0 254 [] []) ++ [13; 10]) with (render_line (raw_of 0 254 [] [])).
  assert (S : parse_data_line (render_line (raw_of 0 254 [] [])) = Ok (mkLine 254 0 [] (raw_of 0 254 [] []))).
  { unfold render_line, raw_of. apply parse_rendered_line; try reflexivity. left. reflexivity. }
  rewrite S. cbn [bind l_type]. change (254 =? 255) with false. change (254 =? 254) with true. cbv iota.
  rewrite parse_lines_data by exact H. rewrite app_nil_r.
  (* end marker *)
  unfold render_line at 1. cbn [app parse_lines]. change (58 =? 58) with true. cbv iota.
  change (58 :: hex_upper (raw_of 0 255 [] []) ++ [13; 10]) with (render_line (raw_of 0 255 [] [])).
  assert (E : parse_data_line (render_line (raw_of 0 255 [] [])) = Ok (mkLine 255 0 [] (raw_of 0 255 [] []))).
  { unfold render_line, raw_of. apply parse_rendered_line; try reflexivity. left. reflexivity. }
  rewrite E. cbn [bind l_type]. change (255 =? 255) with true. cbv iota.
  destruct (rev ls) as [|x r] eqn:R.
  - exfalso. apply Hne. rewrite <- (rev_involutive ls), R. reflexivity.
  - cbn [bind]. rewrite <- R, rev_involutive. reflexivity.
Qed.
