(* C13, text level (partial): a rendered data line parses back to its fields. *)
From Coq Require Import List Bool NArith ZArith Lia.
From Coq Require Import Init.Byte.
From Bec2 Require Import Base.Result Base.Bytes Base.Reader Model.Bf2Str Model.Bf2Import.
Import ListNotations.
Open Scope N_scope.

Definition keep (c : N) : bool := negb (hex2bin_skip c).

(* both hex digits of a byte survive the cleaning of hex2bin and decode to the byte *)
Definition byte_hex_ok (x : byte) : bool :=
  match hex_byte x with
  | [h; l] =>
    keep h && keep l &&
    match hexval h, hexval l with
    | Some a, Some b => byte_eqb (n2b (a * 16 + b)) x
    | _, _ => false
    end
  | _ => false
  end.

Lemma all_bytes_hex_ok : forall x, byte_hex_ok x = true.
Proof. intro x. destruct x; vm_compute; reflexivity. Qed.

Lemma hex_byte_shape x : exists h l a b,
  hex_byte x = [h; l] /\ keep h = true /\ keep l = true /\
  hexval h = Some a /\ hexval l = Some b /\ n2b (a * 16 + b) = x.
Proof.
  pose proof (all_bytes_hex_ok x) as H. unfold byte_hex_ok in H.
  destruct (hex_byte x) as [|h [|l [|? ?]]] eqn:E; try discriminate.
  apply andb_true_iff in H as [H1 H2]. apply andb_true_iff in H1 as [Hh Hl].
  destruct (hexval h) as [a|] eqn:Ea; [|discriminate]. destruct (hexval l) as [b|] eqn:Eb; [|discriminate].
  apply byte_eqb_eq in H2. exists h, l, a, b. repeat split; try assumption; try reflexivity.
Qed.

Lemma filter_keep_hex b : filter keep (hex_upper b) = hex_upper b.
Proof.
  induction b as [|x t IH]; [reflexivity|].
  unfold hex_upper in *. cbn [flat_map]. rewrite filter_app, IH.
  destruct (hex_byte_shape x) as (h & l & a & c & E & Hh & Hl & _). rewrite E.
  cbn [filter]. rewrite Hh, Hl. reflexivity.
Qed.

Lemma unhexlify_hex b : unhexlify (hex_upper b) = Ok b.
Proof.
  induction b as [|x t IH]; [reflexivity|].
  unfold hex_upper in *. cbn [flat_map].
  destruct (hex_byte_shape x) as (h & l & a & c & E & _ & _ & Ha & Hc & Hx). rewrite E.
  cbn [app unhexlify]. rewrite Ha, Hc, IH. cbn [bind]. rewrite Hx. reflexivity.
Qed.

Lemma hex_upper_length b : length (hex_upper b) = (2 * length b)%nat.
Proof.
  induction b as [|x t IH]; [reflexivity|]. unfold hex_upper in *. cbn [flat_map].
  rewrite app_length, IH. destruct (hex_byte_shape x) as (h & l & a & c & E & _). rewrite E. cbn. lia.
Qed.

Lemma hex2bin_rendered b eol : (eol = [13; 10] \/ eol = [10]) ->
  hex2bin ([58] ++ hex_upper b ++ eol) = Ok b.
Proof.
  intro He. unfold hex2bin. fold keep.
  assert (C : filter keep ([58] ++ hex_upper b ++ eol) = hex_upper b).
  { rewrite !filter_app, filter_keep_hex.
    destruct He as [-> | ->]; cbn; apply app_nil_r. }
  change (fun c : N => negb (hex2bin_skip c)) with keep. rewrite C.
  replace (N.odd (blen (hex_upper b))) with false; [apply unhexlify_hex|].
  unfold blen. rewrite hex_upper_length. rewrite Nat2N.inj_mul. symmetry.
  change (N.of_nat 2) with 2. rewrite N.odd_mul. reflexivity.
Qed.

Theorem parse_rendered_line ndx ty tag extra eol :
  ndx < 65536 -> ty < 256 -> blen tag < 256 -> (eol = [13; 10] \/ eol = [10]) ->
  let raw := be 2 ndx ++ [n2b ty] ++ [n2b (blen tag)] ++ tag ++ extra in
  parse_data_line ([58] ++ hex_upper raw ++ eol) = Ok (mkLine ty ndx tag raw).
Proof.
  intros Hn Ht Hl He raw. unfold parse_data_line.
  rewrite (hex2bin_rendered raw eol He). cbn [bind]. unfold new_reader, raw.
  change 2 with (N.of_nat 2) at 1.
  rewrite rd_read_int_be by (change (256 ^ N.of_nat 2) with 65536; exact Hn). cbn [bind].
  change [n2b ty] with (be 1 ty). change 1 with (N.of_nat 1) at 1.
  rewrite rd_read_int_be by (change (256 ^ N.of_nat 1) with 256; exact Ht). cbn [bind].
  change [n2b (blen tag)] with (be 1 (blen tag)). change 1 with (N.of_nat 1) at 1.
  rewrite rd_read_int_be by (change (256 ^ N.of_nat 1) with 256; exact Hl). cbn [bind].
  rewrite rd_read_app. cbn [bind]. reflexivity.
Qed.
