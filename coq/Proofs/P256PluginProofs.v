(* The plug-in facts that Proofs/Bec2Proofs.v (C02, C09) assumes about the registered ECC
   plug-in - pub_len, pub_valid, ecdh_comm - derived from the C17 theory for NIST256p under
   the NAMED hypotheses of Section P256 (group law on P-256, G generates a group of order
   exactly n whose points lie on the curve), plus the rejection clause of C09 without any
   hypothesis. *)
From Coq Require Import List Bool NArith ZArith Lia Znumtheory Zpow_facts.
From Coq Require Import Init.Byte.
From Bec2 Require Import Base.Result Base.Bytes Base.Modp Gen.EcFormulas Gen.Curves Model.Ec Model.P256Plugin
  Proofs.EcFormulaProofs Proofs.EcMulProofs Proofs.EcTotalProofs Proofs.EcParams.
Import ListNotations.
Open Scope Z_scope.

(* ---- closed facts about the constants ---- *)

Lemma p256_in_curves : In NIST256p curves.
Proof. vm_compute. tauto. Qed.

Lemma p256_p_bound : 3 < p256_p < 2 ^ 256.
Proof. vm_compute. split; reflexivity. Qed.

Lemma p256_n_facts : 1 < p256_n /\ Z.odd p256_n = true.
Proof. vm_compute. split; reflexivity. Qed.

Lemma p256_b_nz : ~ eqm p256_p p256_b 0.
Proof. apply (params_spec NIST256p p256_in_curves). Qed.

(* every byte string denotes a scalar in [1, n-1]; admissible ones denote themselves *)
Lemma scalar_range d : 1 <= scalar_of d <= p256_n - 1.
Proof.
  destruct p256_n_facts as [Hn Ho]. assert (p256_n <> 2) by (intros E; rewrite E in Ho; discriminate Ho).
  unfold scalar_of. pose proof (Z.mod_pos_bound (scalar_raw d - 1) (p256_n - 1) ltac:(lia)). lia.
Qed.

Lemma scalar_of_ok d : scalar_ok d -> scalar_of d = scalar_raw d.
Proof. unfold scalar_ok, scalar_of. intro H. rewrite Z.mod_small by lia. lia. Qed.

(* ---- encoding ---- *)

Lemma raw_of_blen x y : blen (raw_of x y) = 64%N.
Proof. unfold raw_of. rewrite blen_app, !be_blen. reflexivity. Qed.

Lemma raw_of_decode x y : 0 <= x < p256_p -> 0 <= y < p256_p ->
  raw_x (raw_of x y) = x /\ raw_y (raw_of x y) = y.
Proof.
  intros Hx Hy. pose proof p256_p_bound as [_ B].
  assert (P : (256 ^ N.of_nat 32 = Z.to_N (2 ^ 256))%N) by reflexivity.
  unfold raw_x, raw_y, raw_of.
  rewrite (takeN_app_exact' 32%N) by apply be_blen. rewrite (dropN_app_exact' 32%N) by apply be_blen.
  rewrite !from_be_be_small by (rewrite P; apply Z2N.inj_lt; lia).
  rewrite !Z2N.id by lia. split; reflexivity.
Qed.

Lemma pub_len_all d : blen (p256_pub_of d) = 64%N.
Proof.
  unfold p256_pub_of.
  destruct (pubkey_of _ _ _ _ _) as [[[x y]|]|e]; try apply blen_zeros. apply raw_of_blen.
Qed.

(* ---- rejection (no hypothesis): the C09 clause ---- *)

Theorem valid_pub_sound raw : p256_valid_pub raw = true ->
  blen raw = 64%N /\ 0 <= raw_x raw < p256_p /\ 0 <= raw_y raw < p256_p /\
  on_curve p256_p p256_a p256_b (raw_x raw, raw_y raw).
Proof.
  unfold p256_valid_pub. intro H. apply andb_true_iff in H as [L V]. apply N.eqb_eq in L.
  destruct (pubkey_valid _ _ _ _ _ _ _ _) as [[|]|e] eqn:E; try discriminate V.
  destruct (pubkey_valid_sound _ _ _ _ _ _ _ E) as [A [B [C _]]]. tauto.
Qed.

Theorem valid_pub_rejects raw :
  (blen raw <> 64%N \/ p256_p <= raw_x raw \/ p256_p <= raw_y raw \/
   ~ on_curve p256_p p256_a p256_b (raw_x raw, raw_y raw)) ->
  p256_valid_pub raw = false.
Proof.
  intro H. destruct (p256_valid_pub raw) eqn:E; [|reflexivity].
  destruct (valid_pub_sound raw E) as [A [B [C D]]]. destruct H as [H|[H|[H|H]]]; [contradiction|lia|lia|contradiction].
Qed.

Theorem valid_pub_zero : p256_valid_pub (zeros 64) = false.
Proof. vm_compute. reflexivity. Qed.

(* ---- under the group-law hypothesis for P-256 ---- *)

Lemma pow2_mod_odd n j : 1 < n -> Z.odd n = true -> 0 <= j -> 2 ^ j mod n <> 0.
Proof.
  intros Hn Ho Hj K. apply Zmod_divide in K; [|lia].
  assert (R2 : rel_prime 2 n).
  { apply Zgcd_1_rel_prime. pose proof (Z.gcd_divide_l 2 n) as D1. pose proof (Z.gcd_divide_r 2 n) as D2.
    pose proof (Z.gcd_nonneg 2 n). assert (Z.gcd 2 n <= 2) by (apply Z.divide_pos_le; [lia|exact D1]).
    assert (Z.gcd 2 n <> 0) by (intro Z0; rewrite Z0 in D1; destruct D1; lia).
    assert (Z.gcd 2 n <> 2).
    { intro E. rewrite E in D2. destruct D2 as [q Hq]. rewrite Hq in Ho.
      rewrite Z.mul_comm, Z.odd_mul in Ho. cbn in Ho. discriminate Ho. }
    lia. }
  assert (RP : rel_prime (2 ^ j) n).
  { apply rel_prime_sym. apply rel_prime_Zpower_r; [exact Hj|]. apply rel_prime_sym. exact R2. }
  pose proof (Gauss n (2 ^ j) 1 ltac:(rewrite Z.mul_1_r; exact K) (rel_prime_sym _ _ RP)) as D.
  apply Z.divide_1_r_nonneg in D; lia.
Qed.

Section P256.
Variable inG : pt -> Prop.
Variable gadd : pt -> pt -> pt.
Variable gneg : pt -> pt.
Notation zmul := (zmul gadd gneg).
Definition p256_Gpt : pt := Some (c_Gx NIST256p, c_Gy NIST256p).

(* the hypotheses, named *)
Hypothesis P256_group : ec_group p256_p p256_a inG gadd gneg.
Hypothesis P256_G_in : inG p256_Gpt.
Hypothesis P256_G_order : zmul p256_n p256_Gpt = None.
Hypothesis P256_G_exact : forall k, 0 < k < p256_n -> zmul k p256_Gpt <> None.
Hypothesis P256_on_curve : forall q, inG (Some q) -> on_curve p256_p p256_a p256_b q.

Let GH := P256_group.

Lemma G_repr : jrepr p256_p p256_G p256_Gpt.
Proof.
  unfold p256_G, p256_Gpt. split; [apply eqm_small_nz; pose proof p256_p_bound; lia|].
  split; apply eqm_eq; ring.
Qed.

Lemma pow2_fin j : 0 <= j -> zmul (2 ^ j) p256_Gpt <> None.
Proof.
  intro Hj. destruct p256_n_facts as [Hn Ho].
  rewrite <- (zmul_mod _ _ _ _ _ GH (2 ^ j) p256_n p256_Gpt P256_G_in P256_G_order ltac:(lia)).
  apply P256_G_exact. pose proof (Z.mod_pos_bound (2 ^ j) p256_n ltac:(lia)).
  pose proof (pow2_mod_odd p256_n j Hn Ho Hj). lia.
Qed.

Lemma repr_mod x y P : jrepr p256_p (x, y, 1) P -> jrepr p256_p (x mod p256_p, y mod p256_p, 1) P.
Proof.
  destruct P as [[qx qy]|].
  - intros [HZ [HX HY]]. split; [exact HZ|]. split.
    + etransitivity; [apply mod_eqm | exact HX].
    + etransitivity; [apply mod_eqm | exact HY].
  - cbn. intros [H|H]; [|discriminate H]. subst. left. apply Zmod_0_l.
Qed.

(* d*G for an admissible scalar: the model returns a finite point representing it *)
Lemma pub_point d :
  exists x y q, pubkey_of p256_p p256_a p256_n p256_G (scalar_of d) = Ok (Some (x, y)) /\
                zmul (scalar_of d) p256_Gpt = Some q /\
                jrepr p256_p (x mod p256_p, y mod p256_p, 1) (Some q).
Proof.
  pose proof (scalar_range d) as Hd. destruct p256_n_facts as [Hn _].
  assert (Hn0 : 0 < p256_n) by lia. assert (Hd0 : 0 <= scalar_of d) by lia.
  destruct (pubkey_of_total _ _ _ _ _ GH p256_Gpt p256_G p256_n (scalar_of d) P256_G_in G_repr
              Hn0 P256_G_order Hd0 pow2_fin) as [r E].
  assert (Fin : zmul (scalar_of d) p256_Gpt <> None) by (apply P256_G_exact; lia).
  destruct r as [[x y]|].
  - assert (Gf : p256_Gpt <> None) by discriminate.
    pose proof (pubkey_of_correct _ _ _ _ _ GH p256_Gpt p256_G p256_n (scalar_of d) (x, y) P256_G_in
                  Gf G_repr Hn0 P256_G_order Hd0 E) as HR.
    cbn [fst snd] in HR. destruct (zmul (scalar_of d) p256_Gpt) as [q|] eqn:EQ; [|contradiction].
    exists x, y, q. split; [exact E|]. split; [reflexivity|]. apply repr_mod. exact HR.
  - exfalso. unfold pubkey_of in E.
    destruct (pj_mul p256_p p256_a p256_n true p256_G (scalar_of d)) as [r0|e] eqn:EM; [|discriminate E].
    cbn [bind] in E. destruct r0 as [J|].
    + destruct (pj_scale p256_p J) as [[[x y] z]|e]; discriminate E.
    + assert (Gf : true = true -> p256_Gpt <> None) by (intros _; discriminate).
      pose proof (mul_correct _ _ _ _ _ GH p256_G p256_Gpt p256_n true (scalar_of d) None P256_G_in G_repr
                    (or_intror (conj Hn0 P256_G_order)) Gf Hd0 EM) as HM.
      cbn in HM. contradiction.
Qed.

Lemma pub_of_eq d :
  exists x y q, p256_pub_of d = raw_of x y /\ 0 <= x < p256_p /\ 0 <= y < p256_p /\
                zmul (scalar_of d) p256_Gpt = Some q /\ jrepr p256_p (x, y, 1) (Some q).
Proof.
  destruct (pub_point d) as [x [y [q [E [Q R]]]]].
  pose proof p256_p_bound as [B _].
  exists (x mod p256_p), (y mod p256_p), q. unfold p256_pub_of.
  rewrite E.
  split; [reflexivity|]. split; [apply Z.mod_pos_bound; lia|]. split; [apply Z.mod_pos_bound; lia|].
  split; [exact Q | exact R].
Qed.

(* (1) *)
Theorem p256_pub_len : forall d, blen (p256_pub_of d) = 64%N.
Proof. exact pub_len_all. Qed.

(* (2) *)
Theorem p256_pub_valid : forall d, p256_valid_pub (p256_pub_of d) = true.
Proof.
  intros d. destruct (pub_of_eq d) as [x [y [q [E [Rx [Ry [Q R]]]]]]].
  destruct (raw_of_decode x y Rx Ry) as [Dx Dy].
  unfold p256_valid_pub. rewrite E, raw_of_blen, Dx, Dy. cbn [N.eqb Pos.eqb andb].
  destruct p256_n_facts as [Hn _].
  rewrite pubkey_valid_h1 by lia.
  assert (GQ : inG (Some q)).
  { rewrite <- Q. apply (zmul_closed _ _ _ _ _ GH). exact P256_G_in. }
  assert (OC : on_curve p256_p p256_a p256_b (x, y)).
  { pose proof (P256_on_curve q GQ) as OQ. destruct q as [qx qy]. destruct R as [_ [HX HY]].
    unfold on_curve in *.
    assert (Ex : eqm p256_p x qx) by (etransitivity; [exact HX | apply eqm_eq; ring]).
    assert (Ey : eqm p256_p y qy) by (etransitivity; [exact HY | apply eqm_eq; ring]).
    rewrite Ex, Ey. exact OQ. }
  apply contains_point_spec in OC. rewrite OC.
  replace ((0 <=? x) && (x <? p256_p)) with true by (symmetry; apply range_spec; exact Rx).
  replace ((0 <=? y) && (y <? p256_p)) with true by (symmetry; apply range_spec; exact Ry).
  reflexivity.
Qed.

(* (3) *)
Theorem p256_ecdh_comm : forall d e,
  p256_ecdh d (p256_pub_of e) = p256_ecdh e (p256_pub_of d).
Proof.
  intros d e. pose proof (scalar_range d) as Hd. pose proof (scalar_range e) as He. unfold p256_ecdh.
  rewrite (p256_pub_valid d), (p256_pub_valid e).
  destruct (pub_of_eq d) as [xd [yd [qd [Ed [Rxd [Ryd [Qd Rd]]]]]]].
  destruct (pub_of_eq e) as [xe [ye [qe [Ee [Rxe [Rye [Qe Re]]]]]]].
  destruct (raw_of_decode xd yd Rxd Ryd) as [Dxd Dyd]. destruct (raw_of_decode xe ye Rxe Rye) as [Dxe Dye].
  rewrite Ed, Ee, Dxd, Dyd, Dxe, Dye.
  assert (Gd : inG (Some qd)) by (rewrite <- Qd; apply (zmul_closed _ _ _ _ _ GH); exact P256_G_in).
  assert (Ge : inG (Some qe)) by (rewrite <- Qe; apply (zmul_closed _ _ _ _ _ GH); exact P256_G_in).
  assert (Xd : xred p256_p (xd, yd, 1)) by (unfold xred, jX; cbn [fst]; apply Z.mod_small; exact Rxd).
  assert (Xe : xred p256_p (xe, ye, 1)) by (unfold xred, jX; cbn [fst]; apply Z.mod_small; exact Rxe).
  assert (Hd0 : 0 <= scalar_of d) by lia. assert (He0 : 0 <= scalar_of e) by lia.
  destruct (ecdh_shared_total _ _ _ _ _ GH (Some qe) (xe, ye, 1) (scalar_of d) Ge Re Hd0) as [r1 E1].
  destruct (ecdh_shared_total _ _ _ _ _ GH (Some qd) (xd, yd, 1) (scalar_of e) Gd Rd He0) as [r2 E2].
  pose proof (ecdh_shared_correct _ _ _ _ _ GH (Some qe) (xe, ye, 1) (scalar_of d) r1 Ge Re Xe Hd0 E1) as A.
  pose proof (ecdh_shared_correct _ _ _ _ _ GH (Some qd) (xd, yd, 1) (scalar_of e) r2 Gd Rd Xd He0 E2) as B.
  rewrite <- Qe in A. rewrite <- Qd in B.
  rewrite (zmul_mul _ _ _ _ _ GH) in A, B by exact P256_G_in.
  rewrite (Z.mul_comm (scalar_of e)) in B.
  rewrite E1, E2.
  destruct (zmul (scalar_of d * scalar_of e) p256_Gpt) as [[sx sy]|].
  - destruct A as [v1 [-> [A1 A2]]]. destruct B as [v2 [-> [B1 B2]]].
    replace v2 with v1; [reflexivity|].
    rewrite <- A2, <- B2. apply eqm_def. rewrite A1, B1. reflexivity.
  - subst r1 r2. reflexivity.
Qed.

End P256.

(* what the functions compute on admissible keys, for the correspondence with the plug-in *)
Lemma p256_pub_of_ok d : scalar_ok d ->
  p256_pub_of d = match pubkey_of p256_p p256_a p256_n p256_G (scalar_raw d) with
                  | Ok (Some (x, y)) => raw_of (x mod p256_p) (y mod p256_p)
                  | _ => zeros 64
                  end.
Proof. intro H. unfold p256_pub_of. rewrite (scalar_of_ok d H). reflexivity. Qed.
