(* The model of the bundled block cipher (Model/Aes.v: T-table rounds over 32-bit
   words, Kd through U1..U4) equals the specification (Model/AesSpec.v) for every
   list of round keys, and decryption inverts encryption.  The model only ever
   looks at a word through (w >> s) & 0xFF, so a word is related to a column by
   its four extracted bytes; xor commutes with extraction (bitwise), and the
   tables are characterised byte position by byte position by 256-entry sweeps
   over the generated tables. *)
From Coq Require Import List Bool NArith Lia.
From Coq Require Import Init.Byte.
From Bec2 Require Import Base.Result Base.Bytes Base.Sweep Gen.AesTables Model.Cbc Model.AesSpec Model.Aes
  Proofs.CrcProofs Proofs.AesSpecProofs.
Import ListNotations.
Open Scope N_scope.

(* ---- byte extraction is linear ------------------------------------------------- *)

Definition byte_at (s w : N) : N := N.land (N.shiftr w s) 255.
Lemma byte_at_lxor s a b : byte_at s (a ^^ b) = byte_at s a ^^ byte_at s b.
Proof.
  unfold byte_at. rewrite N.shiftr_lxor. apply N.bits_inj; intro n.
  rewrite ?N.land_spec, ?N.lxor_spec, ?N.land_spec.
  destruct (N.testbit (N.shiftr a s) n), (N.testbit (N.shiftr b s) n), (N.testbit 255 n); reflexivity.
Qed.
Lemma byte_at_lor s a b : byte_at s (N.lor a b) = N.lor (byte_at s a) (byte_at s b).
Proof.
  unfold byte_at. rewrite N.shiftr_lor. apply N.bits_inj; intro n.
  rewrite ?N.land_spec, ?N.lor_spec, ?N.land_spec.
  destruct (N.testbit (N.shiftr a s) n), (N.testbit (N.shiftr b s) n), (N.testbit 255 n); reflexivity.
Qed.
Lemma byte_at_lt s w : byte_at s w < 256.
Proof.
  unfold byte_at. change 255 with (N.ones 8). rewrite N.land_ones.
  apply N.mod_lt. discriminate.
Qed.
Lemma byte0_at w : byte0 w = byte_at 0 w.
Proof. unfold byte0, byte_at. rewrite N.shiftr_0_r. reflexivity. Qed.

Lemma byte3_lxor a b : byte3 (a ^^ b) = byte3 a ^^ byte3 b. Proof. apply (byte_at_lxor 24). Qed.
Lemma byte2_lxor a b : byte2 (a ^^ b) = byte2 a ^^ byte2 b. Proof. apply (byte_at_lxor 16). Qed.
Lemma byte1_lxor a b : byte1 (a ^^ b) = byte1 a ^^ byte1 b. Proof. apply (byte_at_lxor 8). Qed.
Lemma byte0_lxor a b : byte0 (a ^^ b) = byte0 a ^^ byte0 b.
Proof. rewrite !byte0_at. apply byte_at_lxor. Qed.
Lemma byte3_lor a b : byte3 (N.lor a b) = N.lor (byte3 a) (byte3 b). Proof. apply (byte_at_lor 24). Qed.
Lemma byte2_lor a b : byte2 (N.lor a b) = N.lor (byte2 a) (byte2 b). Proof. apply (byte_at_lor 16). Qed.
Lemma byte1_lor a b : byte1 (N.lor a b) = N.lor (byte1 a) (byte1 b). Proof. apply (byte_at_lor 8). Qed.
Lemma byte0_lor a b : byte0 (N.lor a b) = N.lor (byte0 a) (byte0 b).
Proof. rewrite !byte0_at. apply byte_at_lor. Qed.
Lemma byte3_lt w : byte3 w < 256. Proof. apply (byte_at_lt 24). Qed.
Lemma byte2_lt w : byte2 w < 256. Proof. apply (byte_at_lt 16). Qed.
Lemma byte1_lt w : byte1 w < 256. Proof. apply (byte_at_lt 8). Qed.
Lemma byte0_lt w : byte0 w < 256. Proof. rewrite byte0_at. apply byte_at_lt. Qed.

(* a byte shifted into one of the four positions *)
Definition shift_ok (a : byte) : bool :=
  let x := b2n a in
  (byte3 (N.shiftl x 24) =? x) && (byte2 (N.shiftl x 24) =? 0) && (byte1 (N.shiftl x 24) =? 0) && (byte0 (N.shiftl x 24) =? 0) &&
  (byte3 (N.shiftl x 16) =? 0) && (byte2 (N.shiftl x 16) =? x) && (byte1 (N.shiftl x 16) =? 0) && (byte0 (N.shiftl x 16) =? 0) &&
  (byte3 (N.shiftl x 8) =? 0) && (byte2 (N.shiftl x 8) =? 0) && (byte1 (N.shiftl x 8) =? x) && (byte0 (N.shiftl x 8) =? 0) &&
  (byte3 x =? 0) && (byte2 x =? 0) && (byte1 x =? 0) && (byte0 x =? x).
Lemma shift_all a : shift_ok a = true.
Proof. revert a. apply byte_sweep. vm_cast_no_check (eq_refl true). Qed.

(* ---- the tables, byte position by byte position -------------------------------- *)

Lemma S_b0 a : byte0 (tget S_t (b2n a)) = b2n (sboxb a) /\ tget S_t (b2n a) = b2n (sboxb a).
Proof.
  revert a.
  assert (H : forall a, ((byte0 (tget S_t (b2n a)) =? b2n (sboxb a)) && (tget S_t (b2n a) =? b2n (sboxb a))) = true).
  { apply byte_sweep. vm_cast_no_check (eq_refl true). }
  intro a. specialize (H a). apply andb_true_iff in H as [H1 H2].
  split; apply N.eqb_eq; assumption.
Qed.
Lemma Si_b0 a : byte0 (tget Si_t (b2n a)) = b2n (inv_sboxb a) /\ tget Si_t (b2n a) = b2n (inv_sboxb a).
Proof.
  revert a.
  assert (H : forall a, ((byte0 (tget Si_t (b2n a)) =? b2n (inv_sboxb a)) && (tget Si_t (b2n a) =? b2n (inv_sboxb a))) = true).
  { apply byte_sweep. vm_cast_no_check (eq_refl true). }
  intro a. specialize (H a). apply andb_true_iff in H as [H1 H2].
  split; apply N.eqb_eq; assumption.
Qed.
Lemma S_byte0 a : byte0 (tget S_t (b2n a)) = b2n (sboxb a).
Proof. apply S_b0. Qed.
Lemma Si_byte0 a : byte0 (tget Si_t (b2n a)) = b2n (inv_sboxb a).
Proof. apply Si_b0. Qed.

Definition enc_tbl_ok (a : byte) : bool :=
  N.eqb (byte3 (tget T1_t (b2n a))) (b2n (gmulb 2 (sboxb a))) &&
  N.eqb (byte2 (tget T1_t (b2n a))) (b2n (sboxb a)) &&
  N.eqb (byte1 (tget T1_t (b2n a))) (b2n (sboxb a)) &&
  N.eqb (byte0 (tget T1_t (b2n a))) (b2n (gmulb 3 (sboxb a))) &&
  N.eqb (byte3 (tget T2_t (b2n a))) (b2n (gmulb 3 (sboxb a))) &&
  N.eqb (byte2 (tget T2_t (b2n a))) (b2n (gmulb 2 (sboxb a))) &&
  N.eqb (byte1 (tget T2_t (b2n a))) (b2n (sboxb a)) &&
  N.eqb (byte0 (tget T2_t (b2n a))) (b2n (sboxb a)) &&
  N.eqb (byte3 (tget T3_t (b2n a))) (b2n (sboxb a)) &&
  N.eqb (byte2 (tget T3_t (b2n a))) (b2n (gmulb 3 (sboxb a))) &&
  N.eqb (byte1 (tget T3_t (b2n a))) (b2n (gmulb 2 (sboxb a))) &&
  N.eqb (byte0 (tget T3_t (b2n a))) (b2n (sboxb a)) &&
  N.eqb (byte3 (tget T4_t (b2n a))) (b2n (sboxb a)) &&
  N.eqb (byte2 (tget T4_t (b2n a))) (b2n (sboxb a)) &&
  N.eqb (byte1 (tget T4_t (b2n a))) (b2n (gmulb 3 (sboxb a))) &&
  N.eqb (byte0 (tget T4_t (b2n a))) (b2n (gmulb 2 (sboxb a))).

Lemma enc_tbl_all a : enc_tbl_ok a = true.
Proof. revert a. apply byte_sweep. vm_cast_no_check (eq_refl true). Qed.

Lemma T1_b3 a : byte3 (tget T1_t (b2n a)) = b2n (gmulb 2 (sboxb a)).
Proof. pose proof (enc_tbl_all a) as H. unfold enc_tbl_ok in H. repeat (apply andb_true_iff in H as [H ?]). apply N.eqb_eq. assumption. Qed.

Lemma T1_b2 a : byte2 (tget T1_t (b2n a)) = b2n (sboxb a).
Proof. pose proof (enc_tbl_all a) as H. unfold enc_tbl_ok in H. repeat (apply andb_true_iff in H as [H ?]). apply N.eqb_eq. assumption. Qed.

Lemma T1_b1 a : byte1 (tget T1_t (b2n a)) = b2n (sboxb a).
Proof. pose proof (enc_tbl_all a) as H. unfold enc_tbl_ok in H. repeat (apply andb_true_iff in H as [H ?]). apply N.eqb_eq. assumption. Qed.

Lemma T1_b0 a : byte0 (tget T1_t (b2n a)) = b2n (gmulb 3 (sboxb a)).
Proof. pose proof (enc_tbl_all a) as H. unfold enc_tbl_ok in H. repeat (apply andb_true_iff in H as [H ?]). apply N.eqb_eq. assumption. Qed.

Lemma T2_b3 a : byte3 (tget T2_t (b2n a)) = b2n (gmulb 3 (sboxb a)).
Proof. pose proof (enc_tbl_all a) as H. unfold enc_tbl_ok in H. repeat (apply andb_true_iff in H as [H ?]). apply N.eqb_eq. assumption. Qed.

Lemma T2_b2 a : byte2 (tget T2_t (b2n a)) = b2n (gmulb 2 (sboxb a)).
Proof. pose proof (enc_tbl_all a) as H. unfold enc_tbl_ok in H. repeat (apply andb_true_iff in H as [H ?]). apply N.eqb_eq. assumption. Qed.

Lemma T2_b1 a : byte1 (tget T2_t (b2n a)) = b2n (sboxb a).
Proof. pose proof (enc_tbl_all a) as H. unfold enc_tbl_ok in H. repeat (apply andb_true_iff in H as [H ?]). apply N.eqb_eq. assumption. Qed.

Lemma T2_b0 a : byte0 (tget T2_t (b2n a)) = b2n (sboxb a).
Proof. pose proof (enc_tbl_all a) as H. unfold enc_tbl_ok in H. repeat (apply andb_true_iff in H as [H ?]). apply N.eqb_eq. assumption. Qed.

Lemma T3_b3 a : byte3 (tget T3_t (b2n a)) = b2n (sboxb a).
Proof. pose proof (enc_tbl_all a) as H. unfold enc_tbl_ok in H. repeat (apply andb_true_iff in H as [H ?]). apply N.eqb_eq. assumption. Qed.

Lemma T3_b2 a : byte2 (tget T3_t (b2n a)) = b2n (gmulb 3 (sboxb a)).
Proof. pose proof (enc_tbl_all a) as H. unfold enc_tbl_ok in H. repeat (apply andb_true_iff in H as [H ?]). apply N.eqb_eq. assumption. Qed.

Lemma T3_b1 a : byte1 (tget T3_t (b2n a)) = b2n (gmulb 2 (sboxb a)).
Proof. pose proof (enc_tbl_all a) as H. unfold enc_tbl_ok in H. repeat (apply andb_true_iff in H as [H ?]). apply N.eqb_eq. assumption. Qed.

Lemma T3_b0 a : byte0 (tget T3_t (b2n a)) = b2n (sboxb a).
Proof. pose proof (enc_tbl_all a) as H. unfold enc_tbl_ok in H. repeat (apply andb_true_iff in H as [H ?]). apply N.eqb_eq. assumption. Qed.

Lemma T4_b3 a : byte3 (tget T4_t (b2n a)) = b2n (sboxb a).
Proof. pose proof (enc_tbl_all a) as H. unfold enc_tbl_ok in H. repeat (apply andb_true_iff in H as [H ?]). apply N.eqb_eq. assumption. Qed.

Lemma T4_b2 a : byte2 (tget T4_t (b2n a)) = b2n (sboxb a).
Proof. pose proof (enc_tbl_all a) as H. unfold enc_tbl_ok in H. repeat (apply andb_true_iff in H as [H ?]). apply N.eqb_eq. assumption. Qed.

Lemma T4_b1 a : byte1 (tget T4_t (b2n a)) = b2n (gmulb 3 (sboxb a)).
Proof. pose proof (enc_tbl_all a) as H. unfold enc_tbl_ok in H. repeat (apply andb_true_iff in H as [H ?]). apply N.eqb_eq. assumption. Qed.

Lemma T4_b0 a : byte0 (tget T4_t (b2n a)) = b2n (gmulb 2 (sboxb a)).
Proof. pose proof (enc_tbl_all a) as H. unfold enc_tbl_ok in H. repeat (apply andb_true_iff in H as [H ?]). apply N.eqb_eq. assumption. Qed.

Definition dec_tbl_ok (a : byte) : bool :=
  N.eqb (byte3 (tget T5_t (b2n a))) (b2n (gmulb 14 (inv_sboxb a))) &&
  N.eqb (byte2 (tget T5_t (b2n a))) (b2n (gmulb 9 (inv_sboxb a))) &&
  N.eqb (byte1 (tget T5_t (b2n a))) (b2n (gmulb 13 (inv_sboxb a))) &&
  N.eqb (byte0 (tget T5_t (b2n a))) (b2n (gmulb 11 (inv_sboxb a))) &&
  N.eqb (byte3 (tget T6_t (b2n a))) (b2n (gmulb 11 (inv_sboxb a))) &&
  N.eqb (byte2 (tget T6_t (b2n a))) (b2n (gmulb 14 (inv_sboxb a))) &&
  N.eqb (byte1 (tget T6_t (b2n a))) (b2n (gmulb 9 (inv_sboxb a))) &&
  N.eqb (byte0 (tget T6_t (b2n a))) (b2n (gmulb 13 (inv_sboxb a))) &&
  N.eqb (byte3 (tget T7_t (b2n a))) (b2n (gmulb 13 (inv_sboxb a))) &&
  N.eqb (byte2 (tget T7_t (b2n a))) (b2n (gmulb 11 (inv_sboxb a))) &&
  N.eqb (byte1 (tget T7_t (b2n a))) (b2n (gmulb 14 (inv_sboxb a))) &&
  N.eqb (byte0 (tget T7_t (b2n a))) (b2n (gmulb 9 (inv_sboxb a))) &&
  N.eqb (byte3 (tget T8_t (b2n a))) (b2n (gmulb 9 (inv_sboxb a))) &&
  N.eqb (byte2 (tget T8_t (b2n a))) (b2n (gmulb 13 (inv_sboxb a))) &&
  N.eqb (byte1 (tget T8_t (b2n a))) (b2n (gmulb 11 (inv_sboxb a))) &&
  N.eqb (byte0 (tget T8_t (b2n a))) (b2n (gmulb 14 (inv_sboxb a))).

Lemma dec_tbl_all a : dec_tbl_ok a = true.
Proof. revert a. apply byte_sweep. vm_cast_no_check (eq_refl true). Qed.

Lemma T5_b3 a : byte3 (tget T5_t (b2n a)) = b2n (gmulb 14 (inv_sboxb a)).
Proof. pose proof (dec_tbl_all a) as H. unfold dec_tbl_ok in H. repeat (apply andb_true_iff in H as [H ?]). apply N.eqb_eq. assumption. Qed.

Lemma T5_b2 a : byte2 (tget T5_t (b2n a)) = b2n (gmulb 9 (inv_sboxb a)).
Proof. pose proof (dec_tbl_all a) as H. unfold dec_tbl_ok in H. repeat (apply andb_true_iff in H as [H ?]). apply N.eqb_eq. assumption. Qed.

Lemma T5_b1 a : byte1 (tget T5_t (b2n a)) = b2n (gmulb 13 (inv_sboxb a)).
Proof. pose proof (dec_tbl_all a) as H. unfold dec_tbl_ok in H. repeat (apply andb_true_iff in H as [H ?]). apply N.eqb_eq. assumption. Qed.

Lemma T5_b0 a : byte0 (tget T5_t (b2n a)) = b2n (gmulb 11 (inv_sboxb a)).
Proof. pose proof (dec_tbl_all a) as H. unfold dec_tbl_ok in H. repeat (apply andb_true_iff in H as [H ?]). apply N.eqb_eq. assumption. Qed.

Lemma T6_b3 a : byte3 (tget T6_t (b2n a)) = b2n (gmulb 11 (inv_sboxb a)).
Proof. pose proof (dec_tbl_all a) as H. unfold dec_tbl_ok in H. repeat (apply andb_true_iff in H as [H ?]). apply N.eqb_eq. assumption. Qed.

Lemma T6_b2 a : byte2 (tget T6_t (b2n a)) = b2n (gmulb 14 (inv_sboxb a)).
Proof. pose proof (dec_tbl_all a) as H. unfold dec_tbl_ok in H. repeat (apply andb_true_iff in H as [H ?]). apply N.eqb_eq. assumption. Qed.

Lemma T6_b1 a : byte1 (tget T6_t (b2n a)) = b2n (gmulb 9 (inv_sboxb a)).
Proof. pose proof (dec_tbl_all a) as H. unfold dec_tbl_ok in H. repeat (apply andb_true_iff in H as [H ?]). apply N.eqb_eq. assumption. Qed.

Lemma T6_b0 a : byte0 (tget T6_t (b2n a)) = b2n (gmulb 13 (inv_sboxb a)).
Proof. pose proof (dec_tbl_all a) as H. unfold dec_tbl_ok in H. repeat (apply andb_true_iff in H as [H ?]). apply N.eqb_eq. assumption. Qed.

Lemma T7_b3 a : byte3 (tget T7_t (b2n a)) = b2n (gmulb 13 (inv_sboxb a)).
Proof. pose proof (dec_tbl_all a) as H. unfold dec_tbl_ok in H. repeat (apply andb_true_iff in H as [H ?]). apply N.eqb_eq. assumption. Qed.

Lemma T7_b2 a : byte2 (tget T7_t (b2n a)) = b2n (gmulb 11 (inv_sboxb a)).
Proof. pose proof (dec_tbl_all a) as H. unfold dec_tbl_ok in H. repeat (apply andb_true_iff in H as [H ?]). apply N.eqb_eq. assumption. Qed.

Lemma T7_b1 a : byte1 (tget T7_t (b2n a)) = b2n (gmulb 14 (inv_sboxb a)).
Proof. pose proof (dec_tbl_all a) as H. unfold dec_tbl_ok in H. repeat (apply andb_true_iff in H as [H ?]). apply N.eqb_eq. assumption. Qed.

Lemma T7_b0 a : byte0 (tget T7_t (b2n a)) = b2n (gmulb 9 (inv_sboxb a)).
Proof. pose proof (dec_tbl_all a) as H. unfold dec_tbl_ok in H. repeat (apply andb_true_iff in H as [H ?]). apply N.eqb_eq. assumption. Qed.

Lemma T8_b3 a : byte3 (tget T8_t (b2n a)) = b2n (gmulb 9 (inv_sboxb a)).
Proof. pose proof (dec_tbl_all a) as H. unfold dec_tbl_ok in H. repeat (apply andb_true_iff in H as [H ?]). apply N.eqb_eq. assumption. Qed.

Lemma T8_b2 a : byte2 (tget T8_t (b2n a)) = b2n (gmulb 13 (inv_sboxb a)).
Proof. pose proof (dec_tbl_all a) as H. unfold dec_tbl_ok in H. repeat (apply andb_true_iff in H as [H ?]). apply N.eqb_eq. assumption. Qed.

Lemma T8_b1 a : byte1 (tget T8_t (b2n a)) = b2n (gmulb 11 (inv_sboxb a)).
Proof. pose proof (dec_tbl_all a) as H. unfold dec_tbl_ok in H. repeat (apply andb_true_iff in H as [H ?]). apply N.eqb_eq. assumption. Qed.

Lemma T8_b0 a : byte0 (tget T8_t (b2n a)) = b2n (gmulb 14 (inv_sboxb a)).
Proof. pose proof (dec_tbl_all a) as H. unfold dec_tbl_ok in H. repeat (apply andb_true_iff in H as [H ?]). apply N.eqb_eq. assumption. Qed.

Definition key_tbl_ok (a : byte) : bool :=
  N.eqb (byte3 (tget U1_t (b2n a))) (b2n (gmulb 14 a)) &&
  N.eqb (byte2 (tget U1_t (b2n a))) (b2n (gmulb 9 a)) &&
  N.eqb (byte1 (tget U1_t (b2n a))) (b2n (gmulb 13 a)) &&
  N.eqb (byte0 (tget U1_t (b2n a))) (b2n (gmulb 11 a)) &&
  N.eqb (byte3 (tget U2_t (b2n a))) (b2n (gmulb 11 a)) &&
  N.eqb (byte2 (tget U2_t (b2n a))) (b2n (gmulb 14 a)) &&
  N.eqb (byte1 (tget U2_t (b2n a))) (b2n (gmulb 9 a)) &&
  N.eqb (byte0 (tget U2_t (b2n a))) (b2n (gmulb 13 a)) &&
  N.eqb (byte3 (tget U3_t (b2n a))) (b2n (gmulb 13 a)) &&
  N.eqb (byte2 (tget U3_t (b2n a))) (b2n (gmulb 11 a)) &&
  N.eqb (byte1 (tget U3_t (b2n a))) (b2n (gmulb 14 a)) &&
  N.eqb (byte0 (tget U3_t (b2n a))) (b2n (gmulb 9 a)) &&
  N.eqb (byte3 (tget U4_t (b2n a))) (b2n (gmulb 9 a)) &&
  N.eqb (byte2 (tget U4_t (b2n a))) (b2n (gmulb 13 a)) &&
  N.eqb (byte1 (tget U4_t (b2n a))) (b2n (gmulb 11 a)) &&
  N.eqb (byte0 (tget U4_t (b2n a))) (b2n (gmulb 14 a)).

Lemma key_tbl_all a : key_tbl_ok a = true.
Proof. revert a. apply byte_sweep. vm_cast_no_check (eq_refl true). Qed.

Lemma U1_b3 a : byte3 (tget U1_t (b2n a)) = b2n (gmulb 14 a).
Proof. pose proof (key_tbl_all a) as H. unfold key_tbl_ok in H. repeat (apply andb_true_iff in H as [H ?]). apply N.eqb_eq. assumption. Qed.

Lemma U1_b2 a : byte2 (tget U1_t (b2n a)) = b2n (gmulb 9 a).
Proof. pose proof (key_tbl_all a) as H. unfold key_tbl_ok in H. repeat (apply andb_true_iff in H as [H ?]). apply N.eqb_eq. assumption. Qed.

Lemma U1_b1 a : byte1 (tget U1_t (b2n a)) = b2n (gmulb 13 a).
Proof. pose proof (key_tbl_all a) as H. unfold key_tbl_ok in H. repeat (apply andb_true_iff in H as [H ?]). apply N.eqb_eq. assumption. Qed.

Lemma U1_b0 a : byte0 (tget U1_t (b2n a)) = b2n (gmulb 11 a).
Proof. pose proof (key_tbl_all a) as H. unfold key_tbl_ok in H. repeat (apply andb_true_iff in H as [H ?]). apply N.eqb_eq. assumption. Qed.

Lemma U2_b3 a : byte3 (tget U2_t (b2n a)) = b2n (gmulb 11 a).
Proof. pose proof (key_tbl_all a) as H. unfold key_tbl_ok in H. repeat (apply andb_true_iff in H as [H ?]). apply N.eqb_eq. assumption. Qed.

Lemma U2_b2 a : byte2 (tget U2_t (b2n a)) = b2n (gmulb 14 a).
Proof. pose proof (key_tbl_all a) as H. unfold key_tbl_ok in H. repeat (apply andb_true_iff in H as [H ?]). apply N.eqb_eq. assumption. Qed.

Lemma U2_b1 a : byte1 (tget U2_t (b2n a)) = b2n (gmulb 9 a).
Proof. pose proof (key_tbl_all a) as H. unfold key_tbl_ok in H. repeat (apply andb_true_iff in H as [H ?]). apply N.eqb_eq. assumption. Qed.

Lemma U2_b0 a : byte0 (tget U2_t (b2n a)) = b2n (gmulb 13 a).
Proof. pose proof (key_tbl_all a) as H. unfold key_tbl_ok in H. repeat (apply andb_true_iff in H as [H ?]). apply N.eqb_eq. assumption. Qed.

Lemma U3_b3 a : byte3 (tget U3_t (b2n a)) = b2n (gmulb 13 a).
Proof. pose proof (key_tbl_all a) as H. unfold key_tbl_ok in H. repeat (apply andb_true_iff in H as [H ?]). apply N.eqb_eq. assumption. Qed.

Lemma U3_b2 a : byte2 (tget U3_t (b2n a)) = b2n (gmulb 11 a).
Proof. pose proof (key_tbl_all a) as H. unfold key_tbl_ok in H. repeat (apply andb_true_iff in H as [H ?]). apply N.eqb_eq. assumption. Qed.

Lemma U3_b1 a : byte1 (tget U3_t (b2n a)) = b2n (gmulb 14 a).
Proof. pose proof (key_tbl_all a) as H. unfold key_tbl_ok in H. repeat (apply andb_true_iff in H as [H ?]). apply N.eqb_eq. assumption. Qed.

Lemma U3_b0 a : byte0 (tget U3_t (b2n a)) = b2n (gmulb 9 a).
Proof. pose proof (key_tbl_all a) as H. unfold key_tbl_ok in H. repeat (apply andb_true_iff in H as [H ?]). apply N.eqb_eq. assumption. Qed.

Lemma U4_b3 a : byte3 (tget U4_t (b2n a)) = b2n (gmulb 9 a).
Proof. pose proof (key_tbl_all a) as H. unfold key_tbl_ok in H. repeat (apply andb_true_iff in H as [H ?]). apply N.eqb_eq. assumption. Qed.

Lemma U4_b2 a : byte2 (tget U4_t (b2n a)) = b2n (gmulb 13 a).
Proof. pose proof (key_tbl_all a) as H. unfold key_tbl_ok in H. repeat (apply andb_true_iff in H as [H ?]). apply N.eqb_eq. assumption. Qed.

Lemma U4_b1 a : byte1 (tget U4_t (b2n a)) = b2n (gmulb 11 a).
Proof. pose proof (key_tbl_all a) as H. unfold key_tbl_ok in H. repeat (apply andb_true_iff in H as [H ?]). apply N.eqb_eq. assumption. Qed.

Lemma U4_b0 a : byte0 (tget U4_t (b2n a)) = b2n (gmulb 14 a).
Proof. pose proof (key_tbl_all a) as H. unfold key_tbl_ok in H. repeat (apply andb_true_iff in H as [H ?]). apply N.eqb_eq. assumption. Qed.

(* ---- words and columns ------------------------------------------------------------ *)

(* the word w, seen through byte extraction, is the column c *)
Definition wcol (w : N) (c : col) : Prop :=
  match c with Col a b c d => byte3 w = b2n a /\ byte2 w = b2n b /\ byte1 w = b2n c /\ byte0 w = b2n d end.
Definition wst (t : w4) (s : state) : Prop :=
  match t, s with W4 t0 t1 t2 t3, St c0 c1 c2 c3 => wcol t0 c0 /\ wcol t1 c1 /\ wcol t2 c2 /\ wcol t3 c3 end.

Lemma wcol_xor w c w' c' : wcol w c -> wcol w' c' -> wcol (w ^^ w') (xor_col c c').
Proof.
  destruct c as [a0 a1 a2 a3], c' as [b0 b1 b2 b3]. cbn [wcol xor_col].
  intros (H3 & H2 & H1 & H0) (G3 & G2 & G1 & G0).
  rewrite byte3_lxor, byte2_lxor, byte1_lxor, byte0_lxor, !b2n_xor.
  rewrite H3, H2, H1, H0, G3, G2, G1, G0. repeat split.
Qed.
Lemma wst_xor t s k ks : wst t s -> wst k ks -> wst (xor_w4 t k) (AddRoundKey s ks).
Proof.
  destruct t, s, k, ks. cbn [wst xor_w4 AddRoundKey].
  intros (A & B & C & D) (A' & B' & C' & D'). repeat split; apply wcol_xor; assumption.
Qed.

Lemma compact_word_ok a b c d : wcol (compact_word a b c d) (Col a b c d).
Proof.
  pose proof (shift_all a) as Ha. pose proof (shift_all b) as Hb.
  pose proof (shift_all c) as Hc. pose proof (shift_all d) as Hd.
  unfold shift_ok in *. cbv zeta in *.
  repeat match goal with H : (_ && _) = true |- _ => apply andb_true_iff in H as [H ?] end.
  repeat match goal with H : (_ =? _) = true |- _ => apply N.eqb_eq in H end.
  unfold compact_word, wcol.
  rewrite !byte3_lor, !byte2_lor, !byte1_lor, !byte0_lor.
  repeat match goal with H : _ = _ |- _ => rewrite H; clear H end.
  rewrite ?N.lor_0_r, ?N.lor_0_l. repeat split.
Qed.

Definition col_of_word (w : N) : col := Col (n2b (byte3 w)) (n2b (byte2 w)) (n2b (byte1 w)) (n2b (byte0 w)).
Definition st_of_w4 (t : w4) : state :=
  match t with W4 a b c d => St (col_of_word a) (col_of_word b) (col_of_word c) (col_of_word d) end.
Lemma wcol_of_word w : wcol w (col_of_word w).
Proof.
  unfold col_of_word. cbn [wcol].
  split; [|split; [|split]]; symmetry; apply b2n_n2b_small.
  - exact (byte3_lt w).
  - exact (byte2_lt w).
  - exact (byte1_lt w).
  - exact (byte0_lt w).
Qed.
Lemma wst_of_w4 t : wst t (st_of_w4 t).
Proof. destruct t. cbn [wst st_of_w4]. repeat split; apply wcol_of_word. Qed.
Lemma Forall2_wst_map ke : Forall2 wst ke (map st_of_w4 ke).
Proof. induction ke; constructor; [apply wst_of_w4|assumption]. Qed.

(* ---- one output word of a round ----------------------------------------------------- *)

Lemma enc_word_ok t0 t1 t2 t3 k a b c d kc :
  byte3 t0 = b2n a -> byte2 t1 = b2n b -> byte1 t2 = b2n c -> byte0 t3 = b2n d -> wcol k kc ->
  wcol (tget T1_t (byte3 t0) ^^ tget T2_t (byte2 t1) ^^ tget T3_t (byte1 t2) ^^ tget T4_t (byte0 t3) ^^ k)
       (xor_col (MixColumn (Col (sboxb a) (sboxb b) (sboxb c) (sboxb d))) kc).
Proof.
  intros -> -> -> -> Hk. destruct kc as [k3 k2 k1 k0]. cbn [wcol] in Hk. destruct Hk as (K3 & K2 & K1 & K0).
  cbn [MixColumn xor_col wcol].
  rewrite !byte3_lxor, !byte2_lxor, !byte1_lxor, !byte0_lxor, !b2n_xor.
  rewrite T1_b3, T1_b2, T1_b1, T1_b0, T2_b3, T2_b2, T2_b1, T2_b0, T3_b3, T3_b2, T3_b1, T3_b0, T4_b3, T4_b2, T4_b1, T4_b0.
  rewrite K3, K2, K1, K0. repeat split.
Qed.

Lemma dec_word_ok t0 t1 t2 t3 k a b c d kc :
  byte3 t0 = b2n a -> byte2 t1 = b2n b -> byte1 t2 = b2n c -> byte0 t3 = b2n d -> wcol k kc ->
  wcol (tget T5_t (byte3 t0) ^^ tget T6_t (byte2 t1) ^^ tget T7_t (byte1 t2) ^^ tget T8_t (byte0 t3) ^^ k)
       (xor_col (InvMixColumn (Col (inv_sboxb a) (inv_sboxb b) (inv_sboxb c) (inv_sboxb d))) kc).
Proof.
  intros -> -> -> -> Hk. destruct kc as [k3 k2 k1 k0]. cbn [wcol] in Hk. destruct Hk as (K3 & K2 & K1 & K0).
  cbn [InvMixColumn xor_col wcol].
  rewrite !byte3_lxor, !byte2_lxor, !byte1_lxor, !byte0_lxor, !b2n_xor.
  rewrite T5_b3, T5_b2, T5_b1, T5_b0, T6_b3, T6_b2, T6_b1, T6_b0, T7_b3, T7_b2, T7_b1, T7_b0, T8_b3, T8_b2, T8_b1, T8_b0.
  rewrite K3, K2, K1, K0. repeat split.
Qed.

Lemma inv_mix_word_ok w c : wcol w c -> wcol (inv_mix_word w) (InvMixColumn c).
Proof.
  destruct c as [a b c d]. cbn [wcol]. intros (H3 & H2 & H1 & H0).
  unfold inv_mix_word. rewrite H3, H2, H1, H0. cbn [InvMixColumn wcol].
  rewrite !byte3_lxor, !byte2_lxor, !byte1_lxor, !byte0_lxor, !b2n_xor.
  rewrite U1_b3, U1_b2, U1_b1, U1_b0, U2_b3, U2_b2, U2_b1, U2_b0, U3_b3, U3_b2, U3_b1, U3_b0, U4_b3, U4_b2, U4_b1, U4_b0.
  repeat split.
Qed.
Lemma inv_mix_row_ok k ks : wst k ks -> wst (inv_mix_row k) (InvMixColumns ks).
Proof.
  destruct k, ks. cbn [wst inv_mix_row InvMixColumns map_state].
  intros (A & B & C & D). repeat split; apply inv_mix_word_ok; assumption.
Qed.

(* ---- rounds ---------------------------------------------------------------------------- *)

Lemma enc_round_ok t k s ks : wst t s -> wst k ks ->
  wst (enc_round t k) (AddRoundKey (MixColumns (ShiftRows (SubBytes s))) ks).
Proof.
  destruct t as [t0 t1 t2 t3], k as [k0 k1 k2 k3].
  destruct s as [[a0 a1 a2 a3] [b0 b1 b2 b3] [c0 c1 c2 c3] [d0 d1 d2 d3]], ks as [ka kb kc kd].
  cbn [wst wcol].
  intros ((A3 & A2 & A1 & A0) & (B3 & B2 & B1 & B0) & (C3 & C2 & C1 & C0) & (D3 & D2 & D1 & D0)) (KA & KB & KC & KD).
  cbn [enc_round SubBytes ShiftRows MixColumns AddRoundKey map_state map_col wst].
  repeat split; apply enc_word_ok; assumption.
Qed.

Lemma dec_round_ok t k s ks : wst t s -> wst k ks ->
  wst (dec_round t k) (AddRoundKey (InvMixColumns (InvShiftRows (InvSubBytes s))) ks).
Proof.
  destruct t as [t0 t1 t2 t3], k as [k0 k1 k2 k3].
  destruct s as [[a0 a1 a2 a3] [b0 b1 b2 b3] [c0 c1 c2 c3] [d0 d1 d2 d3]], ks as [ka kb kc kd].
  cbn [wst wcol].
  intros ((A3 & A2 & A1 & A0) & (B3 & B2 & B1 & B0) & (C3 & C2 & C1 & C0) & (D3 & D2 & D1 & D0)) (KA & KB & KC & KD).
  cbn [dec_round InvSubBytes InvShiftRows InvMixColumns AddRoundKey map_state map_col wst].
  repeat split; apply dec_word_ok; assumption.
Qed.

(* the last round: four output bytes per round-key word *)
Lemma land255_lxor a b : N.land (a ^^ b) 255 = N.land a 255 ^^ N.land b 255.
Proof. apply byte0_lxor. Qed.

Lemma out4_S_ok ta tb tc td tt a b c d kc :
  byte3 ta = b2n a -> byte2 tb = b2n b -> byte1 tc = b2n c -> byte0 td = b2n d -> wcol tt kc ->
  out4 S_t ta tb tc td tt = bytes_of_col (xor_col (Col (sboxb a) (sboxb b) (sboxb c) (sboxb d)) kc).
Proof.
  intros H3 H2 H1 H0 Hk. destruct kc as [k3 k2 k1 k0]. cbn [wcol] in Hk. destruct Hk as (K3 & K2 & K1 & K0).
  unfold out4. rewrite H3, H2, H1, H0. cbn [xor_col bytes_of_col]. rewrite !land255_lxor.
  change (N.land (N.shiftr tt 24) 255) with (byte3 tt). change (N.land (N.shiftr tt 16) 255) with (byte2 tt).
  change (N.land (N.shiftr tt 8) 255) with (byte1 tt). change (N.land tt 255) with (byte0 tt).
  change (N.land (tget S_t (b2n a)) 255) with (byte0 (tget S_t (b2n a))).
  change (N.land (tget S_t (b2n b)) 255) with (byte0 (tget S_t (b2n b))).
  change (N.land (tget S_t (b2n c)) 255) with (byte0 (tget S_t (b2n c))).
  change (N.land (tget S_t (b2n d)) 255) with (byte0 (tget S_t (b2n d))).
  rewrite !S_byte0, K3, K2, K1, K0. unfold xor_byte. reflexivity.
Qed.
Lemma out4_Si_ok ta tb tc td tt a b c d kc :
  byte3 ta = b2n a -> byte2 tb = b2n b -> byte1 tc = b2n c -> byte0 td = b2n d -> wcol tt kc ->
  out4 Si_t ta tb tc td tt = bytes_of_col (xor_col (Col (inv_sboxb a) (inv_sboxb b) (inv_sboxb c) (inv_sboxb d)) kc).
Proof.
  intros H3 H2 H1 H0 Hk. destruct kc as [k3 k2 k1 k0]. cbn [wcol] in Hk. destruct Hk as (K3 & K2 & K1 & K0).
  unfold out4. rewrite H3, H2, H1, H0. cbn [xor_col bytes_of_col]. rewrite !land255_lxor.
  change (N.land (N.shiftr tt 24) 255) with (byte3 tt). change (N.land (N.shiftr tt 16) 255) with (byte2 tt).
  change (N.land (N.shiftr tt 8) 255) with (byte1 tt). change (N.land tt 255) with (byte0 tt).
  change (N.land (tget Si_t (b2n a)) 255) with (byte0 (tget Si_t (b2n a))).
  change (N.land (tget Si_t (b2n b)) 255) with (byte0 (tget Si_t (b2n b))).
  change (N.land (tget Si_t (b2n c)) 255) with (byte0 (tget Si_t (b2n c))).
  change (N.land (tget Si_t (b2n d)) 255) with (byte0 (tget Si_t (b2n d))).
  rewrite !Si_byte0, K3, K2, K1, K0. unfold xor_byte. reflexivity.
Qed.

Lemma enc_final_ok t k s ks : wst t s -> wst k ks ->
  enc_final t k = bytes_of_state (AddRoundKey (ShiftRows (SubBytes s)) ks).
Proof.
  destruct t as [t0 t1 t2 t3], k as [k0 k1 k2 k3].
  destruct s as [[a0 a1 a2 a3] [b0 b1 b2 b3] [c0 c1 c2 c3] [d0 d1 d2 d3]], ks as [ka kb kc kd].
  cbn [wst wcol].
  intros ((A3 & A2 & A1 & A0) & (B3 & B2 & B1 & B0) & (C3 & C2 & C1 & C0) & (D3 & D2 & D1 & D0)) (KA & KB & KC & KD).
  cbn [enc_final SubBytes ShiftRows AddRoundKey map_state map_col bytes_of_state].
  rewrite (out4_S_ok t0 t1 t2 t3 k0 a0 b1 c2 d3 ka), (out4_S_ok t1 t2 t3 t0 k1 b0 c1 d2 a3 kb),
          (out4_S_ok t2 t3 t0 t1 k2 c0 d1 a2 b3 kc), (out4_S_ok t3 t0 t1 t2 k3 d0 a1 b2 c3 kd) by assumption.
  reflexivity.
Qed.
Lemma dec_final_ok t k s ks : wst t s -> wst k ks ->
  dec_final t k = bytes_of_state (AddRoundKey (InvShiftRows (InvSubBytes s)) ks).
Proof.
  destruct t as [t0 t1 t2 t3], k as [k0 k1 k2 k3].
  destruct s as [[a0 a1 a2 a3] [b0 b1 b2 b3] [c0 c1 c2 c3] [d0 d1 d2 d3]], ks as [ka kb kc kd].
  cbn [wst wcol].
  intros ((A3 & A2 & A1 & A0) & (B3 & B2 & B1 & B0) & (C3 & C2 & C1 & C0) & (D3 & D2 & D1 & D0)) (KA & KB & KC & KD).
  cbn [dec_final InvSubBytes InvShiftRows AddRoundKey map_state map_col bytes_of_state].
  rewrite (out4_Si_ok t0 t3 t2 t1 k0 a0 d1 c2 b3 ka), (out4_Si_ok t1 t0 t3 t2 k1 b0 a1 d2 c3 kb),
          (out4_Si_ok t2 t1 t0 t3 k2 c0 b1 a2 d3 kc), (out4_Si_ok t3 t2 t1 t0 k3 d0 c1 b2 a3 kd) by assumption.
  reflexivity.
Qed.

(* ---- the loops ------------------------------------------------------------------------------ *)

Lemma enc_loop_ok : forall ks kss t s, Forall2 wst ks kss -> wst t s -> ks <> [] ->
  rounds_loop enc_round enc_final t ks = bytes_of_state (cipher_rounds s kss).
Proof.
  induction ks as [|k ks IH]; intros kss t s HF Ht Hne; [contradiction|].
  inversion HF as [|? ksp ? kss' Hk HF']; subst.
  destruct ks as [|k' r].
  - inversion HF'; subst. cbn [rounds_loop cipher_rounds]. apply enc_final_ok; assumption.
  - inversion HF' as [|? kp' ? r' Hk' HF'']; subst.
    change (rounds_loop enc_round enc_final t (k :: k' :: r))
      with (rounds_loop enc_round enc_final (enc_round t k) (k' :: r)).
    change (cipher_rounds s (ksp :: kp' :: r'))
      with (cipher_rounds (AddRoundKey (MixColumns (ShiftRows (SubBytes s))) ksp) (kp' :: r')).
    apply IH; [assumption| apply enc_round_ok; assumption | discriminate].
Qed.

Lemma dec_loop_ok : forall ks kss t s, Forall2 wst ks kss -> wst t s -> ks <> [] ->
  rounds_loop dec_round dec_final t ks = bytes_of_state (eqinv_rounds s kss).
Proof.
  induction ks as [|k ks IH]; intros kss t s HF Ht Hne; [contradiction|].
  inversion HF as [|? ksp ? kss' Hk HF']; subst.
  destruct ks as [|k' r].
  - inversion HF'; subst. cbn [rounds_loop eqinv_rounds]. apply dec_final_ok; assumption.
  - inversion HF' as [|? kp' ? r' Hk' HF'']; subst.
    change (rounds_loop dec_round dec_final t (k :: k' :: r))
      with (rounds_loop dec_round dec_final (dec_round t k) (k' :: r)).
    change (eqinv_rounds s (ksp :: kp' :: r'))
      with (eqinv_rounds (AddRoundKey (InvMixColumns (InvShiftRows (InvSubBytes s))) ksp) (kp' :: r')).
    apply IH; [assumption| apply dec_round_ok; assumption | discriminate].
Qed.

(* ---- blocks ---------------------------------------------------------------------------------- *)

Lemma length16 {A} (l : list A) : length l = 16%nat ->
  exists x0 x1 x2 x3 x4 x5 x6 x7 x8 x9 x10 x11 x12 x13 x14 x15,
    l = [x0; x1; x2; x3; x4; x5; x6; x7; x8; x9; x10; x11; x12; x13; x14; x15].
Proof.
  intro H.
  do 16 (destruct l as [|? l]; [discriminate H|]).
  destruct l; [|discriminate H]. repeat eexists.
Qed.

Lemma block_words_ok b : length b = 16%nat -> wst (block_words b) (state_of_bytes b).
Proof.
  intro H. destruct (length16 b H) as (x0 & x1 & x2 & x3 & x4 & x5 & x6 & x7 & x8 & x9 & x10 & x11 & x12 & x13 & x14 & x15 & ->).
  cbn [block_words word_at bget nth state_of_bytes col_of_bytes bnth Nat.add wst].
  split; [|split; [|split]]; apply compact_word_ok.
Qed.

Lemma state_bytes_roundtrip s : state_of_bytes (bytes_of_state s) = s.
Proof. destruct s as [[? ? ? ?] [? ? ? ?] [? ? ? ?] [? ? ? ?]]. reflexivity. Qed.
Lemma bytes_state_roundtrip b : length b = 16%nat -> bytes_of_state (state_of_bytes b) = b.
Proof.
  intro H. destruct (length16 b H) as (x0 & x1 & x2 & x3 & x4 & x5 & x6 & x7 & x8 & x9 & x10 & x11 & x12 & x13 & x14 & x15 & ->).
  reflexivity.
Qed.
Lemma bytes_of_state_length s : length (bytes_of_state s) = 16%nat.
Proof. destruct s as [[? ? ? ?] [? ? ? ?] [? ? ? ?] [? ? ? ?]]. reflexivity. Qed.

(* AES.encrypt with round keys ke = the cipher of FIPS-197 5.1 with the same round keys *)
Theorem encrypt_rk_spec ke kss b :
  Forall2 wst ke kss -> (2 <= length ke)%nat -> length b = 16%nat ->
  encrypt_rk ke b = bytes_of_state (Cipher_rk kss (state_of_bytes b)).
Proof.
  intros HF Hl Hb. destruct ke as [|k0 ks]; [cbn in Hl; lia|].
  inversion HF as [|? k0s ? kss' Hk HF']; subst.
  unfold encrypt_rk, Cipher_rk.
  apply enc_loop_ok; [assumption| apply wst_xor; [apply block_words_ok; assumption|assumption] |].
  destruct ks; [cbn in Hl; lia|discriminate].
Qed.

(* the Kd rows are related to the dw round keys of 5.3.5 *)
Lemma kd_tail_ok : forall r rs, Forall2 wst r rs -> Forall2 wst (kd_tail r) (dw_tail rs).
Proof.
  induction r as [|k r IH]; intros rs HF; inversion HF as [|? ksp ? rs' Hk HF']; subst; [constructor|].
  destruct r as [|k' r'].
  - inversion HF'; subst. cbn. constructor; [assumption|constructor].
  - inversion HF' as [|? kp' ? r'' Hk' HF'']; subst.
    change (kd_tail (k :: k' :: r')) with (inv_mix_row k :: kd_tail (k' :: r')).
    change (dw_tail (ksp :: kp' :: r'')) with (InvMixColumns ksp :: dw_tail (kp' :: r'')).
    constructor; [apply inv_mix_row_ok; assumption | apply IH; assumption].
Qed.

Lemma Forall2_rev' {A B} (R : A -> B -> Prop) l l' : Forall2 R l l' -> Forall2 R (rev l) (rev l').
Proof.
  induction 1; [constructor|]. cbn [rev]. apply Forall2_app; [assumption|]. constructor; [assumption|constructor].
Qed.

(* AES.decrypt with the Kd derived from ke = the equivalent inverse cipher of 5.3.5 *)
Theorem decrypt_rk_spec ke kss b :
  Forall2 wst ke kss -> (2 <= length ke)%nat -> length b = 16%nat ->
  decrypt_rk (Kd_of_Ke ke) b = bytes_of_state (EqInvCipher_rk kss (state_of_bytes b)).
Proof.
  intros HF Hl Hb. apply Forall2_rev' in HF.
  unfold Kd_of_Ke, EqInvCipher_rk.
  assert (Hrl : (2 <= length (rev ke))%nat) by (rewrite rev_length; exact Hl).
  destruct (rev ke) as [|kn r]; [cbn in Hrl; lia|].
  inversion HF as [|? kns ? rs Hk HF']; subst.
  unfold decrypt_rk.
  apply dec_loop_ok; [apply kd_tail_ok; assumption | apply wst_xor; [apply block_words_ok; assumption|assumption] |].
  destruct r as [|k r']; [cbn in Hrl; lia|]. destruct r'; discriminate.
Qed.

(* decryption inverts encryption, for every list of at least two round-key rows *)
Theorem decrypt_encrypt_rk ke b : (2 <= length ke)%nat -> length b = 16%nat ->
  decrypt_rk (Kd_of_Ke ke) (encrypt_rk ke b) = b.
Proof.
  intros Hl Hb.
  pose proof (Forall2_wst_map ke) as HF.
  rewrite (encrypt_rk_spec ke _ b HF Hl Hb).
  rewrite (decrypt_rk_spec ke _ _ HF Hl (bytes_of_state_length _)).
  rewrite state_bytes_roundtrip, EqInvCipher_rk_eq, InvCipher_Cipher.
  apply bytes_state_roundtrip, Hb.
Qed.

Lemma encrypt_rk_length ke b : (2 <= length ke)%nat -> length b = 16%nat -> length (encrypt_rk ke b) = 16%nat.
Proof.
  intros Hl Hb. rewrite (encrypt_rk_spec ke _ b (Forall2_wst_map ke) Hl Hb). apply bytes_of_state_length.
Qed.
Lemma decrypt_rk_length ke b : (2 <= length ke)%nat -> length b = 16%nat -> length (decrypt_rk (Kd_of_Ke ke) b) = 16%nat.
Proof.
  intros Hl Hb. rewrite (decrypt_rk_spec ke _ b (Forall2_wst_map ke) Hl Hb). apply bytes_of_state_length.
Qed.

(* ---- the key schedule produces rounds+1 rows ---------------------------------------- *)

Lemma blen_eq_nat {A} (l : list A) n : blen l = N.of_nat n -> length l = n.
Proof. unfold blen. lia. Qed.

Lemma expand_Ke_length_16 k : length k = 16%nat -> length (expand_Ke k) = 11%nat.
Proof.
  intro H. do 16 (destruct k as [|? k]; [discriminate H|]). destruct k; [|discriminate H].
  vm_compute. reflexivity.
Qed.
Lemma expand_Ke_length_24 k : length k = 24%nat -> length (expand_Ke k) = 13%nat.
Proof.
  intro H. do 24 (destruct k as [|? k]; [discriminate H|]). destruct k; [|discriminate H].
  vm_compute. reflexivity.
Qed.
Lemma expand_Ke_length_32 k : length k = 32%nat -> length (expand_Ke k) = 15%nat.
Proof.
  intro H. do 32 (destruct k as [|? k]; [discriminate H|]). destruct k; [|discriminate H].
  vm_compute. reflexivity.
Qed.

Lemma aes_key_ok_cases k : aes_key_ok k = true ->
  length k = 16%nat \/ length k = 24%nat \/ length k = 32%nat.
Proof.
  unfold aes_key_ok. intro H.
  apply orb_true_iff in H as [H|H]; [apply orb_true_iff in H as [H|H]|]; apply N.eqb_eq in H.
  - left. apply blen_eq_nat. exact H.
  - right; left. apply blen_eq_nat. exact H.
  - right; right. apply blen_eq_nat. exact H.
Qed.

Lemma expand_Ke_rows k : aes_key_ok k = true -> (2 <= length (expand_Ke k))%nat.
Proof.
  intro H. destruct (aes_key_ok_cases k H) as [L|[L|L]].
  - rewrite (expand_Ke_length_16 k L). lia.
  - rewrite (expand_Ke_length_24 k L). lia.
  - rewrite (expand_Ke_length_32 k L). lia.
Qed.

Lemma aes_key_ok_eq k : aes_key_ok k = key_ok k.
Proof. reflexivity. Qed.

(* ---- the block functions handed to the rest of the development ---------------------- *)

Lemma blen16 (b : bytes) : (blen b =? 16) = true <-> length b = 16%nat.
Proof. rewrite N.eqb_eq. unfold blen. lia. Qed.

Theorem aes_E_length k b : length (aes_E k b) = length b.
Proof.
  unfold aes_E, aes_encrypt_block.
  destruct (aes_key_ok k) eqn:Ek; cbn [negb]; [|reflexivity].
  destruct (blen b =? 16) eqn:Eb; cbn [negb]; [|reflexivity].
  apply blen16 in Eb. rewrite Eb. apply encrypt_rk_length; [apply expand_Ke_rows, Ek | exact Eb].
Qed.
Theorem aes_D_length k b : length (aes_D k b) = length b.
Proof.
  unfold aes_D, aes_decrypt_block.
  destruct (aes_key_ok k) eqn:Ek; cbn [negb]; [|reflexivity].
  destruct (blen b =? 16) eqn:Eb; cbn [negb]; [|reflexivity].
  apply blen16 in Eb. rewrite Eb. apply decrypt_rk_length; [apply expand_Ke_rows, Ek | exact Eb].
Qed.

Theorem aes_E_len : forall k b, length b = 16%nat -> length (aes_E k b) = 16%nat.
Proof. intros k b H. rewrite aes_E_length. exact H. Qed.
Theorem aes_D_len : forall k b, length b = 16%nat -> length (aes_D k b) = 16%nat.
Proof. intros k b H. rewrite aes_D_length. exact H. Qed.

(* decryption inverts encryption: every key, every block (where Python raises, both
   functions are the identity) *)
Theorem aes_DE_total : forall k b, aes_D k (aes_E k b) = b.
Proof.
  intros k b. unfold aes_D, aes_E, aes_decrypt_block, aes_encrypt_block.
  destruct (aes_key_ok k) eqn:Ek; cbn [negb]; [|reflexivity].
  destruct (blen b =? 16) eqn:Eb; cbn [negb].
  - pose proof (proj1 (blen16 b) Eb) as Hb.
    pose proof (encrypt_rk_length (expand_Ke k) b (expand_Ke_rows k Ek) Hb) as Hl.
    rewrite (proj2 (blen16 _) Hl). cbn [negb].
    apply decrypt_encrypt_rk; [apply expand_Ke_rows, Ek | exact Hb].
  - rewrite Eb. reflexivity.
Qed.
Theorem aes_DE : forall k b, key_ok k = true -> length b = 16%nat -> aes_D k (aes_E k b) = b.
Proof. intros k b _ _. apply aes_DE_total. Qed.
(* in the shape of the hypotheses of Proofs/CbcProofs.v (Section Inv) *)
Theorem aes_DE16 : forall k b, length b = 16%nat -> aes_D k (aes_E k b) = b.
Proof. intros k b _. apply aes_DE_total. Qed.

(* with a usable key and block the total functions are what AES(key).encrypt/decrypt return *)
Lemma aes_E_block k b : key_ok k = true -> length b = 16%nat -> aes_encrypt_block k b = Ok (aes_E k b).
Proof.
  intros Hk Hb. unfold aes_E, aes_encrypt_block. rewrite aes_key_ok_eq, Hk, (proj2 (blen16 b) Hb). reflexivity.
Qed.
Lemma aes_D_block k b : key_ok k = true -> length b = 16%nat -> aes_decrypt_block k b = Ok (aes_D k b).
Proof.
  intros Hk Hb. unfold aes_D, aes_decrypt_block. rewrite aes_key_ok_eq, Hk, (proj2 (blen16 b) Hb). reflexivity.
Qed.
