(* The key schedule of the model (Model/Aes.v: expand_Ke, a sliding window of KC words
   as in pyaes) produces the round keys of FIPS-197 5.2 KeyExpansion (Model/AesSpec.v),
   for keys of 16, 24 and 32 bytes.  Hence AES(key).encrypt / decrypt of the model are
   Cipher / InvCipher of FIPS-197 for all such keys and all blocks. *)
From Coq Require Import List Bool Arith NArith Lia.
From Coq Require Import Init.Byte.
From Bec2 Require Import Base.Result Base.Bytes Base.Sweep Gen.AesTables Model.Cbc Model.AesSpec Model.Aes
  Proofs.CrcProofs Proofs.AesTablesProofs Proofs.AesSpecProofs Proofs.AesProofs.
Import ListNotations.
Open Scope N_scope.

Lemma sh24_b3 a : byte3 (N.shiftl (b2n a) 24) = b2n a.
Proof. pose proof (shift_all a) as H. unfold shift_ok in H. cbv zeta in H. repeat (apply andb_true_iff in H as [H ?]). apply N.eqb_eq. assumption. Qed.
Lemma sh24_b2 a : byte2 (N.shiftl (b2n a) 24) = 0.
Proof. pose proof (shift_all a) as H. unfold shift_ok in H. cbv zeta in H. repeat (apply andb_true_iff in H as [H ?]). apply N.eqb_eq. assumption. Qed.
Lemma sh24_b1 a : byte1 (N.shiftl (b2n a) 24) = 0.
Proof. pose proof (shift_all a) as H. unfold shift_ok in H. cbv zeta in H. repeat (apply andb_true_iff in H as [H ?]). apply N.eqb_eq. assumption. Qed.
Lemma sh24_b0 a : byte0 (N.shiftl (b2n a) 24) = 0.
Proof. pose proof (shift_all a) as H. unfold shift_ok in H. cbv zeta in H. repeat (apply andb_true_iff in H as [H ?]). apply N.eqb_eq. assumption. Qed.
Lemma sh16_b3 a : byte3 (N.shiftl (b2n a) 16) = 0.
Proof. pose proof (shift_all a) as H. unfold shift_ok in H. cbv zeta in H. repeat (apply andb_true_iff in H as [H ?]). apply N.eqb_eq. assumption. Qed.
Lemma sh16_b2 a : byte2 (N.shiftl (b2n a) 16) = b2n a.
Proof. pose proof (shift_all a) as H. unfold shift_ok in H. cbv zeta in H. repeat (apply andb_true_iff in H as [H ?]). apply N.eqb_eq. assumption. Qed.
Lemma sh16_b1 a : byte1 (N.shiftl (b2n a) 16) = 0.
Proof. pose proof (shift_all a) as H. unfold shift_ok in H. cbv zeta in H. repeat (apply andb_true_iff in H as [H ?]). apply N.eqb_eq. assumption. Qed.
Lemma sh16_b0 a : byte0 (N.shiftl (b2n a) 16) = 0.
Proof. pose proof (shift_all a) as H. unfold shift_ok in H. cbv zeta in H. repeat (apply andb_true_iff in H as [H ?]). apply N.eqb_eq. assumption. Qed.
Lemma sh8_b3 a : byte3 (N.shiftl (b2n a) 8) = 0.
Proof. pose proof (shift_all a) as H. unfold shift_ok in H. cbv zeta in H. repeat (apply andb_true_iff in H as [H ?]). apply N.eqb_eq. assumption. Qed.
Lemma sh8_b2 a : byte2 (N.shiftl (b2n a) 8) = 0.
Proof. pose proof (shift_all a) as H. unfold shift_ok in H. cbv zeta in H. repeat (apply andb_true_iff in H as [H ?]). apply N.eqb_eq. assumption. Qed.
Lemma sh8_b1 a : byte1 (N.shiftl (b2n a) 8) = b2n a.
Proof. pose proof (shift_all a) as H. unfold shift_ok in H. cbv zeta in H. repeat (apply andb_true_iff in H as [H ?]). apply N.eqb_eq. assumption. Qed.
Lemma sh8_b0 a : byte0 (N.shiftl (b2n a) 8) = 0.
Proof. pose proof (shift_all a) as H. unfold shift_ok in H. cbv zeta in H. repeat (apply andb_true_iff in H as [H ?]). apply N.eqb_eq. assumption. Qed.
Lemma sh0_b3 a : byte3 (b2n a) = 0.
Proof. pose proof (shift_all a) as H. unfold shift_ok in H. cbv zeta in H. repeat (apply andb_true_iff in H as [H ?]). apply N.eqb_eq. assumption. Qed.
Lemma sh0_b2 a : byte2 (b2n a) = 0.
Proof. pose proof (shift_all a) as H. unfold shift_ok in H. cbv zeta in H. repeat (apply andb_true_iff in H as [H ?]). apply N.eqb_eq. assumption. Qed.
Lemma sh0_b1 a : byte1 (b2n a) = 0.
Proof. pose proof (shift_all a) as H. unfold shift_ok in H. cbv zeta in H. repeat (apply andb_true_iff in H as [H ?]). apply N.eqb_eq. assumption. Qed.
Lemma sh0_b0 a : byte0 (b2n a) = b2n a.
Proof. pose proof (shift_all a) as H. unfold shift_ok in H. cbv zeta in H. repeat (apply andb_true_iff in H as [H ?]). apply N.eqb_eq. assumption. Qed.

(* ---- words ---------------------------------------------------------------------------------- *)

Lemma wcol_zero : wcol 0 zero_col.
Proof. cbn. repeat split. Qed.

Lemma Forall2_last (l : list N) : forall ls, Forall2 wcol l ls -> wcol (last l 0) (last ls zero_col).
Proof.
  induction l as [|x l IH]; intros ls H; inversion H as [|? y ? ls' Hxy Hl]; subst; [exact wcol_zero|].
  destruct l as [|x' l'].
  - inversion Hl; subst. exact Hxy.
  - inversion Hl as [|? y' ? ls'' ? ?]; subst.
    change (last (x :: x' :: l') 0) with (last (x' :: l') 0).
    change (last (y :: y' :: ls'') zero_col) with (last (y' :: ls'') zero_col).
    apply IH. exact Hl.
Qed.
Lemma Forall2_firstn {A B} (R : A -> B -> Prop) n : forall l l', Forall2 R l l' -> Forall2 R (firstn n l) (firstn n l').
Proof.
  induction n as [|n IH]; intros l l' H; [constructor|].
  inversion H; subst; cbn [firstn]; constructor; [assumption|apply IH; assumption].
Qed.
Lemma Forall2_skipn {A B} (R : A -> B -> Prop) n : forall l l', Forall2 R l l' -> Forall2 R (skipn n l) (skipn n l').
Proof.
  induction n as [|n IH]; intros l l' H; [exact H|].
  inversion H; subst; cbn [skipn]; [constructor|apply IH; assumption].
Qed.
Lemma Forall2_len {A B} (R : A -> B -> Prop) l l' : Forall2 R l l' -> length l = length l'.
Proof. induction 1; cbn; congruence. Qed.

(* the S-box applied to the four bytes of a word *)
Lemma S_val a : tget S_t (b2n a) = b2n (sboxb a).
Proof. apply S_b0. Qed.

Lemma xpow_lt n : xpow n < 256.
Proof. induction n as [|n IH]; [reflexivity|]. cbn [xpow]. apply xtime_lt, IH. Qed.

Lemma sub_word_ok tt w : wcol tt w -> wcol (sub_word tt) (SubWord w).
Proof.
  destruct w as [a b c d]. cbn [wcol]. intros (H3 & H2 & H1 & H0).
  unfold sub_word. rewrite H3, H2, H1, H0, !S_val. cbn [SubWord map_col wcol].
  rewrite !byte3_lxor, !byte2_lxor, !byte1_lxor, !byte0_lxor.
  rewrite !sh24_b3, !sh24_b2, !sh24_b1, !sh24_b0, !sh16_b3, !sh16_b2, !sh16_b1, !sh16_b0,
          !sh8_b3, !sh8_b2, !sh8_b1, !sh8_b0, !sh0_b3, !sh0_b2, !sh0_b1, !sh0_b0.
  rewrite ?N.lxor_0_r, ?N.lxor_0_l. repeat split.
Qed.

Lemma sub_rot_rcon_ok tt w rc : wcol tt w -> rc < 256 ->
  wcol (sub_rot_rcon tt rc) (xor_col (SubWord (RotWord w)) (Col (n2b rc) x00 x00 x00)).
Proof.
  destruct w as [a b c d]. cbn [wcol]. intros (H3 & H2 & H1 & H0) Hrc.
  unfold sub_rot_rcon. rewrite H3, H2, H1, H0, !S_val.
  rewrite <- (b2n_n2b_small rc Hrc) at 1.
  cbn [RotWord SubWord map_col xor_col wcol].
  rewrite !byte3_lxor, !byte2_lxor, !byte1_lxor, !byte0_lxor, !b2n_xor.
  rewrite !sh24_b3, !sh24_b2, !sh24_b1, !sh24_b0, !sh16_b3, !sh16_b2, !sh16_b1, !sh16_b0,
          !sh8_b3, !sh8_b2, !sh8_b1, !sh8_b0, !sh0_b3, !sh0_b2, !sh0_b1, !sh0_b0.
  change (b2n x00) with 0.
  rewrite ?N.lxor_0_r, ?N.lxor_0_l. repeat split.
Qed.

(* ---- the window step of the specification, shaped like next_tk ------------------------------- *)

Definition g_word (w : col) (m : nat) : col := xor_col (SubWord (RotWord w)) (Rcon m).
Fixpoint chain_cols (prev : col) (l : list col) : list col :=
  match l with
  | [] => []
  | x :: r => let y := xor_col x prev in y :: chain_cols y r
  end.
Definition spec_next (Nk m : nat) (win : list col) : list col :=
  match win with
  | [] => []
  | w0 :: rest =>
    let v0 := xor_col w0 (g_word (last win zero_col) m) in
    if Nat.eqb Nk 8 then
      let half := Nat.div Nk 2 in
      let lo := v0 :: chain_cols v0 (firstn (half - 1) rest) in
      match skipn (half - 1) rest with
      | [] => lo
      | wm :: hi => let vm := xor_col wm (SubWord (last lo zero_col)) in lo ++ vm :: chain_cols vm hi
      end
    else v0 :: chain_cols v0 rest
  end.

Lemma chain_ok : forall l ls prev pv, wcol prev pv -> Forall2 wcol l ls ->
  Forall2 wcol (xor_chain prev l) (chain_cols pv ls).
Proof.
  induction l as [|x l IH]; intros ls prev pv Hp H; inversion H; subst; [constructor|].
  cbn [xor_chain chain_cols]. constructor; [apply wcol_xor; assumption|].
  apply IH; [apply wcol_xor; assumption | assumption].
Qed.

Lemma next_tk_ok Nk m tk win : (1 <= m <= 10)%nat -> Forall2 wcol tk win ->
  Forall2 wcol (next_tk Nk (nth (m - 1) rcon_tbl 0) tk) (spec_next Nk m win).
Proof.
  intros Hm H. inversion H as [|t0 w0 rest wrest H0 Hr]; subst; [constructor|].
  unfold next_tk, spec_next.
  assert (Hrc : nth (m - 1) rcon_tbl 0 = xpow (m - 1)).
  { apply (proj2 rcon_table). pose proof (proj1 rcon_table). lia. }
  assert (V0 : wcol (t0 ^^ sub_rot_rcon (last (t0 :: rest) 0) (nth (m - 1) rcon_tbl 0))
                    (xor_col w0 (g_word (last (w0 :: wrest) zero_col) m))).
  { apply wcol_xor; [exact H0|]. unfold g_word, Rcon. rewrite Hrc.
    apply sub_rot_rcon_ok; [apply Forall2_last; exact H | apply xpow_lt]. }
  destruct (Nat.eqb Nk 8).
  - cbv zeta.
    set (t0' := t0 ^^ sub_rot_rcon (last (t0 :: rest) 0) (nth (m - 1) rcon_tbl 0)) in *.
    set (v0 := xor_col w0 (g_word (last (w0 :: wrest) zero_col) m)) in *.
    assert (Hlo : Forall2 wcol (t0' :: xor_chain t0' (firstn (Nat.div Nk 2 - 1) rest))
                               (v0 :: chain_cols v0 (firstn (Nat.div Nk 2 - 1) wrest))).
    { constructor; [exact V0|]. apply chain_ok; [exact V0|]. apply Forall2_firstn. exact Hr. }
    pose proof (Forall2_skipn wcol (Nat.div Nk 2 - 1) _ _ Hr) as Hs.
    set (sr := skipn (Nat.div Nk 2 - 1) rest) in *. set (sw := skipn (Nat.div Nk 2 - 1) wrest) in *.
    destruct Hs as [|tm wm hi whi Hm' Hhi]; [exact Hlo|].
    apply Forall2_app; [exact Hlo|].
    assert (Vm : wcol (tm ^^ sub_word (last (t0' :: xor_chain t0' (firstn (Nat.div Nk 2 - 1) rest)) 0))
                      (xor_col wm (SubWord (last (v0 :: chain_cols v0 (firstn (Nat.div Nk 2 - 1) wrest)) zero_col)))).
    { apply wcol_xor; [exact Hm'|]. apply sub_word_ok. apply Forall2_last. exact Hlo. }
    constructor; [exact Vm|]. apply chain_ok; [exact Vm | exact Hhi].
  - constructor; [exact V0|]. apply chain_ok; [exact V0 | exact Hr].
Qed.

(* ---- key bytes -> words ------------------------------------------------------------------------ *)

Lemma key_words_ok : forall n key, Forall2 wcol (key_to_words n key) (key_words n key).
Proof.
  induction n as [|n IH]; intro key; [constructor|].
  cbn [key_to_words key_words]. constructor; [|apply IH].
  unfold word_at, col_of_bytes, bget, bnth. apply compact_word_ok.
Qed.

(* ---- rows of four words -> round keys -------------------------------------------------------- *)

Lemma rows_ok : forall n flat ws, (length flat <= n)%nat -> Forall2 wcol flat ws ->
  Forall2 wst (rows flat) (round_keys ws).
Proof.
  induction n as [|n IH]; intros flat ws Hl H.
  - destruct flat; [|cbn in Hl; lia]. inversion H; subst. constructor.
  - inversion H as [|a a' f1 w1 Ha H1]; subst; [constructor|].
    inversion H1 as [|b b' f2 w2 Hb H2]; subst; [constructor|].
    inversion H2 as [|c c' f3 w3 Hc H3]; subst; [constructor|].
    inversion H3 as [|d d' f4 w4 Hd H4]; subst; [constructor|].
    cbn [rows round_keys]. constructor; [cbn [wst]; auto|].
    apply IH; [cbn [length] in Hl; lia | exact H4].
Qed.

(* ---- the loop of FIPS-197 figure 11, one window of Nk words at a time --------------------------- *)

Lemma kw_arith Nk m j : (j < Nk)%nat ->
  Nat.modulo (j + Nk * m) Nk = j /\ Nat.div (j + Nk * m) Nk = m.
Proof.
  intro H. rewrite (Nat.mul_comm Nk m). split.
  - rewrite Nat.mod_add by lia. apply Nat.mod_small, H.
  - rewrite Nat.div_add by lia. rewrite Nat.div_small by exact H. reflexivity.
Qed.

Definition temp_of (Nk m j : nat) (t : col) : col :=
  if Nat.eqb j 0 then g_word t m
  else if Nat.ltb 6 Nk && Nat.eqb j 4 then SubWord t
  else t.

Lemma kexp_word_at Nk m j i racc : (j < Nk)%nat -> i = (j + Nk * m)%nat ->
  kexp_word Nk i racc = xor_col (nth (Nk - 1) racc zero_col) (temp_of Nk m j (hd zero_col racc)).
Proof.
  intros Hj ->. unfold kexp_word, temp_of, g_word.
  destruct (kw_arith Nk m j Hj) as [-> ->]. reflexivity.
Qed.

Lemma kexp_loop_add Nk : forall a b i racc,
  kexp_loop (a + b) Nk i racc = kexp_loop b Nk (i + a) (kexp_loop a Nk i racc).
Proof.
  induction a as [|a IH]; intros b i racc.
  - rewrite Nat.add_0_r. reflexivity.
  - cbn [Nat.add kexp_loop]. rewrite IH. f_equal. lia.
Qed.

Ltac win_steps Nk m :=
  cbn [kexp_loop];
  rewrite ?(kexp_word_at Nk m 0 (Nk * m)), ?(kexp_word_at Nk m 1 (S (Nk * m))),
          ?(kexp_word_at Nk m 2 (S (S (Nk * m)))), ?(kexp_word_at Nk m 3 (S (S (S (Nk * m))))),
          ?(kexp_word_at Nk m 4 (S (S (S (S (Nk * m)))))), ?(kexp_word_at Nk m 5 (S (S (S (S (S (Nk * m))))))),
          ?(kexp_word_at Nk m 6 (S (S (S (S (S (S (Nk * m)))))))),
          ?(kexp_word_at Nk m 7 (S (S (S (S (S (S (S (Nk * m))))))))) by lia;
  reflexivity.

Lemma win4 m j win rest : length win = 4%nat -> (j <= 4)%nat ->
  kexp_loop j 4 (4 * m) (rev win ++ rest) = rev (firstn j (spec_next 4 m win)) ++ rev win ++ rest.
Proof.
  intros Hl Hj. do 4 (destruct win as [|? win]; [discriminate Hl|]). destruct win; [|discriminate Hl].
  cbn [rev app].
  destruct j as [|[|[|[|[|j]]]]]; [win_steps 4%nat m..|lia].
Qed.
Lemma win6 m j win rest : length win = 6%nat -> (j <= 6)%nat ->
  kexp_loop j 6 (6 * m) (rev win ++ rest) = rev (firstn j (spec_next 6 m win)) ++ rev win ++ rest.
Proof.
  intros Hl Hj. do 6 (destruct win as [|? win]; [discriminate Hl|]). destruct win; [|discriminate Hl].
  cbn [rev app].
  destruct j as [|[|[|[|[|[|[|j]]]]]]]; [win_steps 6%nat m..|lia].
Qed.
Lemma win8 m j win rest : length win = 8%nat -> (j <= 8)%nat ->
  kexp_loop j 8 (8 * m) (rev win ++ rest) = rev (firstn j (spec_next 8 m win)) ++ rev win ++ rest.
Proof.
  intros Hl Hj. do 8 (destruct win as [|? win]; [discriminate Hl|]). destruct win; [|discriminate Hl].
  cbn [rev app].
  destruct j as [|[|[|[|[|[|[|[|[|j]]]]]]]]]; [win_steps 8%nat m..|lia].
Qed.
Lemma winlen4 m win : length win = 4%nat -> length (spec_next 4 m win) = 4%nat.
Proof. intro Hl. do 4 (destruct win as [|? win]; [discriminate Hl|]). destruct win; [|discriminate Hl]. reflexivity. Qed.
Lemma winlen6 m win : length win = 6%nat -> length (spec_next 6 m win) = 6%nat.
Proof. intro Hl. do 6 (destruct win as [|? win]; [discriminate Hl|]). destruct win; [|discriminate Hl]. reflexivity. Qed.
Lemma winlen8 m win : length win = 8%nat -> length (spec_next 8 m win) = 8%nat.
Proof. intro Hl. do 8 (destruct win as [|? win]; [discriminate Hl|]). destruct win; [|discriminate Hl]. reflexivity. Qed.

(* ---- the model's loop against the specification's loop ------------------------------------------ *)

Section KeyLoop.
  Variable Nk : nat.
  Hypothesis Nk_pos : (0 < Nk)%nat.
  Hypothesis K4 : forall m j win rest, length win = Nk -> (j <= Nk)%nat ->
    kexp_loop j Nk (Nk * m) (rev win ++ rest) = rev (firstn j (spec_next Nk m win)) ++ rev win ++ rest.
  Hypothesis K4len : forall m win, length win = Nk -> length (spec_next Nk m win) = Nk.

  Lemma key_loop : forall fuel d m tk win flat rest,
    (d <= fuel)%nat -> (1 <= m)%nat -> (Nk * (m - 1) + d <= 10 * Nk)%nat ->
    length win = Nk -> Forall2 wcol tk win -> Forall2 wcol flat (rev (rev win ++ rest)) ->
    Forall2 wcol (expand_loop fuel Nk (Nk * m + d) (Nk * m) (m - 1) tk flat)
                 (rev (kexp_loop d Nk (Nk * m) (rev win ++ rest))).
  Proof.
    induction fuel as [|fuel IH]; intros d m tk win flat rest Hd Hm Hb Hl Htk Hflat.
    - replace d with 0%nat by lia. exact Hflat.
    - cbn [expand_loop].
      destruct d as [|d'].
      + rewrite Nat.add_0_r, Nat.ltb_irrefl. exact Hflat.
      + replace (Nat.ltb (Nk * m) (Nk * m + S d')) with true by (symmetry; apply Nat.ltb_lt; lia).
        cbv zeta.
        replace (Nk * m + S d' - Nk * m)%nat with (S d') by lia.
        assert (Hm10 : (1 <= m <= 10)%nat) by nia.
        pose proof (next_tk_ok Nk m tk win Hm10 Htk) as Hnext.
        set (tk' := next_tk Nk (nth (m - 1) rcon_tbl 0) tk) in *.
        set (win' := spec_next Nk m win) in *.
        assert (Hl' : length win' = Nk) by (apply K4len, Hl).
        assert (Hltk' : length tk' = Nk) by (rewrite (Forall2_len _ _ _ Hnext); exact Hl').
        destruct (Nat.le_gt_cases Nk (S d')) as [Hge|Hlt].
        * (* a whole window *)
          rewrite Nat.min_l by exact Hge.
          rewrite (firstn_all2 (n:=Nk) tk') by lia.
          replace (Nk * m + Nk)%nat with (Nk * S m)%nat by lia.
          replace (Nk * m + S d')%nat with (Nk * S m + (S d' - Nk))%nat by lia.
          replace (S (m - 1)) with (S m - 1)%nat by lia.
          replace (S d') with (Nk + (S d' - Nk))%nat at 2 by lia.
          rewrite kexp_loop_add, (K4 m Nk win rest Hl (le_n _)).
          fold win'. rewrite (firstn_all2 (n:=Nk) win') by lia.
          replace (Nk * m + Nk)%nat with (Nk * S m)%nat by lia.
          apply (IH (S d' - Nk)%nat (S m) tk' win' (flat ++ tk') (rev win ++ rest)); try lia.
          -- nia.
          -- exact Hnext.
          -- rewrite rev_app_distr, rev_involutive. apply Forall2_app; [exact Hflat|exact Hnext].
        * (* the last, partial window *)
          rewrite Nat.min_r by lia.
          rewrite (K4 m (S d') win rest Hl ltac:(lia)). fold win'.
          rewrite rev_app_distr, rev_involutive.
          assert (Hres : Forall2 wcol (flat ++ firstn (S d') tk') (rev (rev win ++ rest) ++ firstn (S d') win')).
          { apply Forall2_app; [exact Hflat|]. apply Forall2_firstn. exact Hnext. }
          destruct fuel as [|fuel']; [exact Hres|].
          cbn [expand_loop]. rewrite Nat.ltb_irrefl. exact Hres.
  Qed.
End KeyLoop.

(* ---- the three key sizes ---------------------------------------------------------------------- *)

Lemma rows_ok' flat ws : Forall2 wcol flat ws -> Forall2 wst (rows flat) (round_keys ws).
Proof. apply (rows_ok (length flat)). lia. Qed.

Lemma key_schedule_16 key : length key = 16%nat ->
  Forall2 wst (expand_Ke key) (round_keys (KeyExpansion key)).
Proof.
  intro Hl. unfold expand_Ke, KeyExpansion.
  replace (blen key) with 16 by (unfold blen; rewrite Hl; reflexivity). rewrite Hl.
  change (rounds_of 16) with (Some 10). cbv iota beta.
  change (N.to_nat 10) with 10%nat. change (Nat.div 16 4) with 4%nat.
  change ((10 + 1) * 4)%nat with 44%nat. change (4 * (4 + 6 + 1) - 4)%nat with 40%nat.
  cbv zeta.
  pose proof (key_words_ok 4 key) as Hk.
  assert (Hwl : length (key_words 4 key) = 4%nat) by reflexivity.
  assert (Htl : length (key_to_words 4 key) = 4%nat) by reflexivity.
  rewrite (firstn_all2 (n:=44) (key_to_words 4 key)) by (rewrite Htl; lia).
  apply rows_ok'.
  pose proof (key_loop 4 ltac:(lia) win4 winlen4 44 40 1 (key_to_words 4 key) (key_words 4 key)
                (key_to_words 4 key) [] ltac:(lia) ltac:(lia) ltac:(lia) Hwl Hk) as H.
  rewrite app_nil_r, rev_involutive in H. exact (H Hk).
Qed.

Lemma key_schedule_24 key : length key = 24%nat ->
  Forall2 wst (expand_Ke key) (round_keys (KeyExpansion key)).
Proof.
  intro Hl. unfold expand_Ke, KeyExpansion.
  replace (blen key) with 24 by (unfold blen; rewrite Hl; reflexivity). rewrite Hl.
  change (rounds_of 24) with (Some 12). cbv iota beta.
  change (N.to_nat 12) with 12%nat. change (Nat.div 24 4) with 6%nat.
  change ((12 + 1) * 4)%nat with 52%nat. change (4 * (6 + 6 + 1) - 6)%nat with 46%nat.
  cbv zeta.
  pose proof (key_words_ok 6 key) as Hk.
  assert (Hwl : length (key_words 6 key) = 6%nat) by reflexivity.
  assert (Htl : length (key_to_words 6 key) = 6%nat) by reflexivity.
  rewrite (firstn_all2 (n:=52) (key_to_words 6 key)) by (rewrite Htl; lia).
  apply rows_ok'.
  pose proof (key_loop 6 ltac:(lia) win6 winlen6 52 46 1 (key_to_words 6 key) (key_words 6 key)
                (key_to_words 6 key) [] ltac:(lia) ltac:(lia) ltac:(lia) Hwl Hk) as H.
  rewrite app_nil_r, rev_involutive in H. exact (H Hk).
Qed.

Lemma key_schedule_32 key : length key = 32%nat ->
  Forall2 wst (expand_Ke key) (round_keys (KeyExpansion key)).
Proof.
  intro Hl. unfold expand_Ke, KeyExpansion.
  replace (blen key) with 32 by (unfold blen; rewrite Hl; reflexivity). rewrite Hl.
  change (rounds_of 32) with (Some 14). cbv iota beta.
  change (N.to_nat 14) with 14%nat. change (Nat.div 32 4) with 8%nat.
  change ((14 + 1) * 4)%nat with 60%nat. change (4 * (8 + 6 + 1) - 8)%nat with 52%nat.
  cbv zeta.
  pose proof (key_words_ok 8 key) as Hk.
  assert (Hwl : length (key_words 8 key) = 8%nat) by reflexivity.
  assert (Htl : length (key_to_words 8 key) = 8%nat) by reflexivity.
  rewrite (firstn_all2 (n:=60) (key_to_words 8 key)) by (rewrite Htl; lia).
  apply rows_ok'.
  pose proof (key_loop 8 ltac:(lia) win8 winlen8 60 52 1 (key_to_words 8 key) (key_words 8 key)
                (key_to_words 8 key) [] ltac:(lia) ltac:(lia) ltac:(lia) Hwl Hk) as H.
  rewrite app_nil_r, rev_involutive in H. exact (H Hk).
Qed.

Theorem key_schedule_spec key : key_ok key = true ->
  Forall2 wst (expand_Ke key) (round_keys (KeyExpansion key)).
Proof.
  intro Hk. rewrite <- aes_key_ok_eq in Hk.
  destruct (aes_key_ok_cases key Hk) as [L|[L|L]];
    [apply key_schedule_16 | apply key_schedule_24 | apply key_schedule_32]; exact L.
Qed.

(* AES(key).encrypt / decrypt of the model = Cipher / InvCipher (= EqInvCipher) of FIPS-197,
   for every key of 16/24/32 bytes and every 16-byte block *)
Theorem aes_block_eq_spec key b : key_ok key = true -> length b = 16%nat ->
  aes_encrypt_block key b = Ok (Cipher key b) /\
  aes_decrypt_block key b = Ok (InvCipher key b) /\
  InvCipher key b = EqInvCipher key b.
Proof.
  intros Hk Hb. pose proof (key_schedule_spec key Hk) as HF.
  assert (Hk' : aes_key_ok key = true) by (rewrite aes_key_ok_eq; exact Hk).
  pose proof (expand_Ke_rows key Hk') as Hr.
  unfold aes_encrypt_block, aes_decrypt_block, Cipher, InvCipher, EqInvCipher.
  rewrite Hk', (proj2 (blen16 b) Hb). cbn [negb].
  split; [|split].
  - f_equal. apply encrypt_rk_spec; assumption.
  - f_equal. unfold expand_Kd. rewrite <- EqInvCipher_rk_eq. apply decrypt_rk_spec; assumption.
  - rewrite EqInvCipher_rk_eq. reflexivity.
Qed.

Corollary aes_E_spec key b : key_ok key = true -> length b = 16%nat ->
  aes_E key b = Cipher key b /\ aes_D key b = InvCipher key b.
Proof.
  intros Hk Hb. destruct (aes_block_eq_spec key b Hk Hb) as (H1 & H2 & _).
  unfold aes_E, aes_D. rewrite H1, H2. split; reflexivity.
Qed.
