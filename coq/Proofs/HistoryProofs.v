(* Lemmas about Model/History.v (property C11): invariants of the editing
   operations by induction over operation lists. *)
From Coq Require Import Strings.String Strings.Ascii.
From Coq Require Import List Bool NArith ZArith Lia.
From Coq Require Import Init.Byte.
From Bec2 Require Import Base.Result Base.Bytes Gen.Consts Model.History.
Import ListNotations.
Open Scope N_scope.

(* ------------------------------------------------------------------------- *)
(* lists *)

Lemma filter_nil_negb {A} (p : A -> bool) l :
  filter p l = [] -> filter (fun a => negb (p a)) l = l.
Proof.
  induction l as [|a t IH]; simpl; intro H; [reflexivity|].
  destruct (p a) eqn:E; [discriminate|]. simpl. f_equal. auto.
Qed.

Lemma filter_none {A} (p : A -> bool) l :
  (forall y, In y l -> p y = false) -> filter p l = [].
Proof.
  induction l as [|a t IH]; simpl; intro H; [reflexivity|].
  rewrite (H a) by auto. apply IH. intros y Hy. apply H. auto.
Qed.

Lemma filter_negb_none {A} (p : A -> bool) l :
  filter p (filter (fun a => negb (p a)) l) = [].
Proof.
  induction l as [|a t IH]; simpl; [reflexivity|].
  destruct (p a) eqn:E; simpl; [exact IH|]. rewrite E. exact IH.
Qed.

Lemma filter_idem_negb {A} (p : A -> bool) l :
  filter (fun a => negb (p a)) (filter (fun a => negb (p a)) l) = filter (fun a => negb (p a)) l.
Proof.
  induction l as [|a t IH]; simpl; [reflexivity|].
  destruct (p a) eqn:E; simpl; [exact IH|]. rewrite E. simpl. f_equal. exact IH.
Qed.

Lemma remove_first_filter {A} (p : A -> bool) l :
  (length (filter p l) <= 1)%nat -> remove_first p l = filter (fun a => negb (p a)) l.
Proof.
  induction l as [|a t IH]; simpl; intro H; [reflexivity|].
  destruct (p a) eqn:E; simpl in *.
  - symmetry. apply filter_nil_negb. destruct (filter p t); [reflexivity | simpl in H; lia].
  - f_equal. auto.
Qed.

Lemma remove_first_count {A} (p : A -> bool) l :
  length (filter p (remove_first p l)) = pred (length (filter p l)).
Proof.
  induction l as [|a t IH]; simpl; [reflexivity|].
  destruct (p a) eqn:E; simpl; [reflexivity|]. rewrite E. exact IH.
Qed.

Lemma remove_first_others {A} (p : A -> bool) l :
  filter (fun a => negb (p a)) (remove_first p l) = filter (fun a => negb (p a)) l.
Proof.
  induction l as [|a t IH]; simpl; [reflexivity|].
  destruct (p a) eqn:E; simpl; [reflexivity|]. rewrite E. simpl. f_equal. exact IH.
Qed.

Lemma py_insert_split {A} i (x : A) l :
  exists l1 l2, l = l1 ++ l2 /\ py_insert i x l = l1 ++ x :: l2.
Proof.
  unfold py_insert. eexists _, _. split; [|reflexivity]. symmetry. apply firstn_skipn.
Qed.

Lemma filter_unique_key {A B} (f : A -> B) (p : A -> bool) l :
  NoDup (map f l) ->
  (forall x y, In x l -> In y l -> p x = true -> p y = true -> f x = f y) ->
  (length (filter p l) <= 1)%nat.
Proof.
  induction l as [|a t IH]; simpl; intros ND H; [lia|].
  inversion ND as [|? ? Hn ND']; subst.
  destruct (p a) eqn:E.
  - rewrite (filter_none p t); [simpl; lia|].
    intros y Hy. destruct (p y) eqn:Ey; [|reflexivity].
    exfalso. apply Hn. rewrite (H a y) by auto. apply in_map. exact Hy.
  - apply IH; [exact ND'|]. intros x y Hx Hy. apply H; auto.
Qed.

(* ------------------------------------------------------------------------- *)
(* Python dicts as association lists *)

Section DictFacts.
  Context {K V : Type}.
  Variable keq : K -> K -> bool.
  Hypothesis keq_spec : forall a b, keq a b = true <-> a = b.

  Lemma keq_refl k : keq k k = true.
  Proof. apply keq_spec. reflexivity. Qed.

  Lemma keq_neq a b : a <> b -> keq a b = false.
  Proof. intro H. destruct (keq a b) eqn:E; [|reflexivity]. apply keq_spec in E. contradiction. Qed.

  Lemma dict_get_set_same k (v : V) d : dict_get keq k (dict_set keq k v d) = Some v.
  Proof.
    induction d as [|[k' v'] t IH]; simpl.
    - rewrite keq_refl. reflexivity.
    - destruct (keq k' k) eqn:E; simpl; rewrite E; auto.
  Qed.

  Lemma dict_get_set_other k k' (v : V) d :
    k' <> k -> dict_get keq k' (dict_set keq k v d) = dict_get keq k' d.
  Proof.
    intro Hn. induction d as [|[k0 v0] t IH]; simpl.
    - rewrite (keq_neq k k') by congruence. reflexivity.
    - destruct (keq k0 k) eqn:E; simpl.
      + apply keq_spec in E. subst k0. rewrite (keq_neq k k') by congruence. reflexivity.
      + destruct (keq k0 k'); auto.
  Qed.

  Lemma dict_get_notin k (d : list (K * V)) : ~ In k (map fst d) -> dict_get keq k d = None.
  Proof.
    induction d as [|[k0 v0] t IH]; simpl; intro H; [reflexivity|].
    destruct (keq k0 k) eqn:E.
    - apply keq_spec in E. exfalso. apply H. left. exact E.
    - apply IH. intro Hi. apply H. right. exact Hi.
  Qed.

  Lemma dict_pop_in k (d : list (K * V)) x : In x (map fst (dict_pop keq k d)) -> In x (map fst d).
  Proof.
    induction d as [|[k0 v0] t IH]; simpl; [auto|].
    destruct (keq k0 k); simpl; intuition.
  Qed.

  Lemma dict_get_pop_same k (d : list (K * V)) :
    NoDup (map fst d) -> dict_get keq k (dict_pop keq k d) = None.
  Proof.
    induction d as [|[k0 v0] t IH]; simpl; intro ND; [reflexivity|].
    inversion ND; subst. destruct (keq k0 k) eqn:E.
    - apply keq_spec in E. subst. apply dict_get_notin. assumption.
    - simpl. rewrite E. auto.
  Qed.

  Lemma dict_get_pop_other k k' (d : list (K * V)) :
    k' <> k -> dict_get keq k' (dict_pop keq k d) = dict_get keq k' d.
  Proof.
    intro Hn. induction d as [|[k0 v0] t IH]; simpl; [reflexivity|].
    destruct (keq k0 k) eqn:E; simpl.
    - apply keq_spec in E. subst k0. rewrite (keq_neq k k') by congruence. reflexivity.
    - destruct (keq k0 k'); auto.
  Qed.

  Lemma dict_set_in k (v : V) d x :
    In x (map fst (dict_set keq k v d)) -> x = k \/ In x (map fst d).
  Proof.
    induction d as [|[k0 v0] t IH]; simpl.
    - intros [H|[]]. left. congruence.
    - destruct (keq k0 k); simpl; intuition.
  Qed.

  Lemma dict_set_nodup k (v : V) d : NoDup (map fst d) -> NoDup (map fst (dict_set keq k v d)).
  Proof.
    induction d as [|[k0 v0] t IH]; simpl; intro ND.
    - constructor; [intros []|constructor].
    - inversion ND; subst. destruct (keq k0 k) eqn:E; simpl.
      + constructor; assumption.
      + constructor; [|auto]. intro Hi. apply dict_set_in in Hi as [->|Hi]; [|contradiction].
        rewrite keq_refl in E. discriminate.
  Qed.

  Lemma dict_pop_nodup k (d : list (K * V)) : NoDup (map fst d) -> NoDup (map fst (dict_pop keq k d)).
  Proof.
    induction d as [|[k0 v0] t IH]; simpl; intro ND; [constructor|].
    inversion ND; subst. destruct (keq k0 k); simpl; [assumption|].
    constructor; [|auto]. intro Hi. apply dict_pop_in in Hi. contradiction.
  Qed.

  Lemma filter_dict_set (q : K -> bool) k (v : V) d :
    q k = false ->
    filter (fun p => q (fst p)) (dict_set keq k v d) = filter (fun p => q (fst p)) d.
  Proof.
    intro Hq. induction d as [|[k0 v0] t IH]; simpl.
    - rewrite Hq. reflexivity.
    - destruct (keq k0 k) eqn:E; simpl.
      + apply keq_spec in E. subst k0. rewrite Hq. reflexivity.
      + rewrite IH. reflexivity.
  Qed.

  Lemma filter_dict_pop (q : K -> bool) k (d : list (K * V)) :
    q k = false ->
    filter (fun p => q (fst p)) (dict_pop keq k d) = filter (fun p => q (fst p)) d.
  Proof.
    intro Hq. induction d as [|[k0 v0] t IH]; simpl; [reflexivity|].
    destruct (keq k0 k) eqn:E; simpl.
    - apply keq_spec in E. subst k0. rewrite Hq. reflexivity.
    - rewrite IH. reflexivity.
  Qed.

  Lemma forall_dict_set (P : K * V -> Prop) k v d :
    Forall P d -> P (k, v) -> Forall P (dict_set keq k v d).
  Proof.
    intros HF HP. induction d as [|[k0 v0] t IH]; simpl.
    - constructor; [exact HP|constructor].
    - inversion HF; subst. destruct (keq k0 k) eqn:E.
      + apply keq_spec in E. subst k0. constructor; assumption.
      + constructor; auto.
  Qed.

  (* dict_upd = set or pop *)
  Lemma dict_get_upd_same k ov (d : list (K * V)) :
    NoDup (map fst d) -> dict_get keq k (dict_upd keq k ov d) = ov.
  Proof.
    intro ND. destruct ov; simpl; [apply dict_get_set_same | apply dict_get_pop_same; exact ND].
  Qed.

  Lemma dict_get_upd_other k k' ov (d : list (K * V)) :
    k' <> k -> dict_get keq k' (dict_upd keq k ov d) = dict_get keq k' d.
  Proof.
    intro Hn. destruct ov; simpl; [apply dict_get_set_other | apply dict_get_pop_other]; exact Hn.
  Qed.

  Lemma dict_upd_nodup k ov (d : list (K * V)) :
    NoDup (map fst d) -> NoDup (map fst (dict_upd keq k ov d)).
  Proof.
    intro ND. destruct ov; simpl; [apply dict_set_nodup | apply dict_pop_nodup]; exact ND.
  Qed.

  Lemma filter_dict_upd (q : K -> bool) k ov (d : list (K * V)) :
    q k = false ->
    filter (fun p => q (fst p)) (dict_upd keq k ov d) = filter (fun p => q (fst p)) d.
  Proof.
    intro Hq. destruct ov; simpl; [apply filter_dict_set | apply filter_dict_pop]; exact Hq.
  Qed.
End DictFacts.

Lemma str_eqb_spec a b : str_eqb a b = true <-> a = b.
Proof. apply list_eqb_eq. apply N.eqb_eq. Qed.

(* ------------------------------------------------------------------------- *)
(* components *)

Lemma cfg_comp_is_config b : is_config (cfg_comp b) = true.
Proof. reflexivity. Qed.

Lemma cfg_comp_enc_consistent b : enc_consistent (cfg_comp b).
Proof. reflexivity. Qed.

Lemma count_filter_desc l :
  length (filter is_config l) = length (filter desc_is_config (map c_desc l)).
Proof.
  induction l as [|a t IH]; simpl; [reflexivity|].
  unfold is_config at 1. destruct (desc_is_config (c_desc a)); simpl; auto.
Qed.

Lemma map_res_ok_map {A B C} (f : A -> result B) (g : A -> C) (g' : B -> C) l l' :
  (forall a b, f a = Ok b -> g' b = g a) -> map_res f l = Ok l' -> map g' l' = map g l.
Proof.
  intro Hf. revert l'. induction l as [|a t IH]; simpl; intros l' H.
  - inversion H. reflexivity.
  - destruct (f a) as [b|e] eqn:Ea; simpl in H; [|discriminate].
    destruct (map_res f t) as [r|e] eqn:Et; simpl in H; [|discriminate].
    inversion H; subst. simpl. f_equal; [apply Hf; exact Ea | apply IH; reflexivity].
Qed.

Lemma map_res_ok_pointwise {A B} (f : A -> result B) (g : A -> B) l :
  (forall a, In a l -> f a = Ok (g a)) -> map_res f l = Ok (map g l).
Proof.
  induction l as [|a t IH]; simpl; intro H; [reflexivity|].
  rewrite (H a) by auto. simpl. rewrite IH by auto. reflexivity.
Qed.

Section Hist.
  Variable id : Type.
  Variable prj_id dev_id : config -> result id.
  Variable id_str : id -> str.
  Variable id_version : id -> N.
  Variable conf_blob : config -> list bytes -> result bytes.
  Variable senc sdec : bytes -> result bytes.

  Notation step := (step id prj_id dev_id id_str id_version conf_blob senc sdec).
  Notation run := (run id prj_id dev_id id_str id_version conf_blob senc sdec).
  Notation derived_value := (derived_value id prj_id dev_id id_str).
  Notation derived_conf := (derived_conf id prj_id id_str).
  Notation derived_dev := (derived_dev id dev_id id_str).
  Notation update_block := (update_block id prj_id dev_id id_version).
  Notation config_id := (config_id id prj_id dev_id).
  Notation reread_comp := (reread_comp senc sdec).
  Notation write_read := (write_read senc sdec).

  (* a SetConfig whose encoding does not raise *)
  Definition set_ok (o : op) : Prop :=
    match o with SetConfig c x => exists b, conf_blob c x = Ok b | _ => True end.
  Definition not_derive_comments (o : op) : Prop :=
    match o with DeriveComments _ => False | _ => True end.

  Lemma run_app h1 h2 s : run (h1 ++ h2) s = run h2 (run h1 s).
  Proof. revert s. induction h1 as [|o t IH]; simpl; intro s; [reflexivity | apply IH]. Qed.

  (* --- write / read ------------------------------------------------------ *)
  Lemma reread_desc c c' : reread_comp c = Ok c' -> c_desc c' = c_desc c.
  Proof.
    unfold History.reread_comp. intro H.
    destruct (if c_enc c then senc (pad16 (c_blob c)) else Ok (c_blob c)) as [raw|e]; simpl in H; [|discriminate].
    destruct (desc_is_enc (c_desc c)).
    - destruct (sdec raw) as [b|e]; simpl in H; [|discriminate]. inversion H. reflexivity.
    - inversion H. reflexivity.
  Qed.

  Lemma write_read_frame s :
    let s' := fst (write_read s) in
    map c_desc (comps s') = map c_desc (comps s) /\ comments s' = comments s /\ auths s' = auths s.
  Proof.
    unfold History.write_read. destruct (map_res reread_comp (comps s)) as [cs|e] eqn:E; simpl.
    - split; [|split; reflexivity].
      apply (map_res_ok_map reread_comp c_desc c_desc _ _ reread_desc E).
    - repeat split; reflexivity.
  Qed.

  Lemma write_read_count s : count_config (fst (write_read s)) = count_config s.
  Proof.
    unfold count_config. rewrite !count_filter_desc.
    destruct (write_read_frame s) as [H _]. rewrite H. reflexivity.
  Qed.

  (* with a cipher that decrypts what it encrypted and components whose flag
     agrees with their ENC tag, write + read only zero-pads encrypted blobs *)
  Lemma write_read_transparent s :
    (forall d, exists e, senc d = Ok e /\ sdec e = Ok d) ->
    Forall enc_consistent (comps s) ->
    write_read s = (with_comps s (map pad_enc (comps s)), None).
  Proof.
    intros Hc Hall. unfold History.write_read.
    rewrite (map_res_ok_pointwise reread_comp pad_enc); [reflexivity|].
    intros c Hin. rewrite Forall_forall in Hall. specialize (Hall c Hin).
    unfold enc_consistent in Hall. unfold History.reread_comp, pad_enc. rewrite <- Hall.
    destruct (c_enc c).
    - destruct (Hc (pad16 (c_blob c))) as [e [He Hd]]. rewrite He. simpl. rewrite Hd. reflexivity.
    - reflexivity.
  Qed.

  (* --- configuration components ----------------------------------------- *)
  Lemma step_at_most_one o s : allowed o -> at_most_one_config s -> at_most_one_config (fst (step o s)).
  Proof.
    unfold at_most_one_config. intros Ha H. destruct o as [c x|c|c m|x|i x|]; simpl.
    - unfold set_config. pose proof (remove_first_count is_config (comps s)) as Hr.
      destruct (conf_blob c x) as [b|e]; unfold count_config in *; simpl.
      + rewrite filter_app, app_length, Hr. simpl. lia.
      + rewrite Hr. lia.
    - unfold derive_comments. destruct (derived_conf c); [destruct (derived_dev c)|]; exact H.
    - unfold derive_auth. destruct (update_block c) as [[u|]|e]; exact H.
    - simpl in Ha. unfold count_config in *. simpl. rewrite filter_app, app_length. simpl. rewrite Ha. simpl. lia.
    - simpl in Ha. unfold count_config in *. simpl.
      destruct (py_insert_split i x (comps s)) as [l1 [l2 [E1 E2]]]. rewrite E2. rewrite E1 in H.
      rewrite !filter_app, !app_length in *. simpl. rewrite Ha. exact H.
    - rewrite write_read_count. exact H.
  Qed.

  Lemma run_at_most_one h s : Forall allowed h -> at_most_one_config s -> at_most_one_config (run h s).
  Proof.
    revert s. induction h as [|o t IH]; simpl; intros s Ha H; [exact H|].
    inversion Ha; subst. apply IH; [assumption|]. apply step_at_most_one; assumption.
  Qed.

  Lemma set_config_spec s c x b : at_most_one_config s -> conf_blob c x = Ok b ->
    step (SetConfig c x) s = (with_comps s (filter non_config (comps s) ++ [cfg_comp b]), None).
  Proof.
    intros H Hb. simpl. unfold set_config. rewrite Hb.
    rewrite (remove_first_filter is_config (comps s) H). reflexivity.
  Qed.

  Lemma set_config_fail s c x e : at_most_one_config s -> conf_blob c x = Err e ->
    step (SetConfig c x) s = (with_comps s (filter non_config (comps s)), Some e).
  Proof.
    intros H Hb. simpl. unfold set_config. rewrite Hb.
    rewrite (remove_first_filter is_config (comps s) H). reflexivity.
  Qed.

  Theorem one_config_after_set h s0 c x b :
    at_most_one_config s0 -> Forall allowed h -> conf_blob c x = Ok b ->
    let s := run h s0 in
    let s' := run (h ++ [SetConfig c x]) s0 in
    comps s' = filter non_config (comps s) ++ [cfg_comp b] /\
    count_config s' = 1%nat /\
    filter is_config (comps s') = [cfg_comp b] /\
    last (comps s') (cfg_comp []) = cfg_comp b /\
    filter non_config (comps s') = filter non_config (comps s) /\
    comments s' = comments s /\ auths s' = auths s.
  Proof.
    intros H0 Ha Hb s s'.
    assert (Hs : at_most_one_config s) by (apply run_at_most_one; assumption).
    assert (E : s' = with_comps s (filter non_config (comps s) ++ [cfg_comp b])).
    { unfold s'. rewrite run_app.
      change (run [SetConfig c x] (run h s0)) with (fst (step (SetConfig c x) s)).
      rewrite (set_config_spec s c x b Hs Hb). reflexivity. }
    rewrite E. unfold count_config. simpl.
    rewrite !filter_app. unfold non_config.
    rewrite filter_negb_none, filter_idem_negb. simpl.
    repeat split; try reflexivity.
    - apply last_last.
    - apply app_nil_r.
  Qed.

  (* once a configuration is there, exactly one stays as long as no set_config raises *)
  Lemma step_exactly_one o s : allowed o -> set_ok o -> count_config s = 1%nat ->
    count_config (fst (step o s)) = 1%nat.
  Proof.
    intros Ha Hok H1. destruct o as [c x|c|c m|x|i x|]; simpl.
    - destruct Hok as [b Hb]. assert (Hs : at_most_one_config s) by (unfold at_most_one_config; lia).
      pose proof (set_config_spec s c x b Hs Hb) as E. simpl in E. rewrite E.
      unfold count_config. simpl. rewrite filter_app. unfold non_config. rewrite filter_negb_none. reflexivity.
    - unfold derive_comments. destruct (derived_conf c); [destruct (derived_dev c)|]; exact H1.
    - unfold derive_auth. destruct (update_block c) as [[u|]|e]; exact H1.
    - simpl in Ha. unfold count_config in *. simpl. rewrite filter_app, app_length. simpl. rewrite Ha. simpl. lia.
    - simpl in Ha. unfold count_config in *. simpl.
      destruct (py_insert_split i x (comps s)) as [l1 [l2 [E1 E2]]]. rewrite E2. rewrite E1 in H1.
      rewrite !filter_app, !app_length in *. simpl. rewrite Ha. exact H1.
    - rewrite write_read_count. exact H1.
  Qed.

  Theorem exactly_one_stays h s : Forall allowed h -> Forall set_ok h -> count_config s = 1%nat ->
    count_config (run h s) = 1%nat.
  Proof.
    revert s. induction h as [|o t IH]; simpl; intros s Ha Hok H; [exact H|].
    inversion Ha; inversion Hok; subst. apply IH; try assumption. apply step_exactly_one; assumption.
  Qed.

  (* --- comments ---------------------------------------------------------- *)
  Lemma step_comments_frame o s : not_derive_comments o -> comments (fst (step o s)) = comments s.
  Proof.
    intro Hn. destruct o as [c x|c|c m|x|i x|]; simpl; try reflexivity.
    - unfold set_config. destruct (conf_blob c x); reflexivity.
    - destruct Hn.
    - unfold derive_auth. destruct (update_block c) as [[u|]|e]; reflexivity.
    - apply write_read_frame.
  Qed.

  Lemma run_comments_frame h s : Forall not_derive_comments h -> comments (run h s) = comments s.
  Proof.
    revert s. induction h as [|o t IH]; simpl; intros s Hn; [reflexivity|].
    inversion Hn; subst. rewrite IH by assumption. apply step_comments_frame. assumption.
  Qed.

  Lemma derived_distinct :
    K_CONFIGURATION <> K_DEVICESETTINGS /\ K_CONFIGURATION <> K_BUSADDRESS /\ K_DEVICESETTINGS <> K_BUSADDRESS.
  Proof. repeat split; intro H; apply str_eqb_spec in H; vm_compute in H; discriminate. Qed.

  Lemma is_derived_keys :
    is_derived K_CONFIGURATION = true /\ is_derived K_DEVICESETTINGS = true /\ is_derived K_BUSADDRESS = true.
  Proof. repeat split; vm_compute; reflexivity. Qed.

  Lemma is_derived_cases k : is_derived k = true ->
    k = K_CONFIGURATION \/ k = K_DEVICESETTINGS \/ k = K_BUSADDRESS.
  Proof.
    unfold is_derived, derived_keys. simpl. rewrite !orb_true_iff.
    intros [H|[H|[H|H]]]; try discriminate; apply str_eqb_spec in H; auto.
  Qed.

  Lemma not_derived_neq k : is_derived k = false ->
    k <> K_CONFIGURATION /\ k <> K_DEVICESETTINGS /\ k <> K_BUSADDRESS.
  Proof.
    intro H. destruct is_derived_keys as [H1 [H2 H3]].
    repeat split; intro E; subst k; congruence.
  Qed.

  Lemma derived_value_conf c v : derived_conf c = Ok v -> derived_value c K_CONFIGURATION = v.
  Proof. intro H. unfold History.derived_value. rewrite H. reflexivity. Qed.
  Lemma derived_value_dev c v : derived_dev c = Ok v -> derived_value c K_DEVICESETTINGS = v.
  Proof. intro H. unfold History.derived_value. rewrite H. reflexivity. Qed.
  Lemma derived_value_bus c : derived_value c K_BUSADDRESS = derived_bus c.
  Proof. reflexivity. Qed.

  Definition negd (p : str * str) : bool := negb (is_derived (fst p)).

  (* whatever happens (normal return or exception): other keys keep value and
     order, the dict stays well-formed, nothing else is touched *)
  Theorem derive_comments_frame c s :
    dict_wf (comments s) ->
    let s' := fst (step (DeriveComments c) s) in
    (forall k, is_derived k = false ->
       dict_get str_eqb k (comments s') = dict_get str_eqb k (comments s)) /\
    other_comments (comments s') = other_comments (comments s) /\
    dict_wf (comments s') /\ comps s' = comps s /\ auths s' = auths s.
  Proof.
    intro W. simpl. unfold derive_comments, other_comments, dict_wf in *.
    destruct is_derived_keys as [D1 [D2 D3]].
    assert (Q : forall k ov (d : list (str * str)), is_derived k = true ->
              filter (fun p : str * str => negb (is_derived (fst p))) (dict_upd str_eqb k ov d) =
              filter (fun p : str * str => negb (is_derived (fst p))) d).
    { intros k ov d Hk.
      apply (filter_dict_upd str_eqb str_eqb_spec (fun k => negb (is_derived k))). rewrite Hk. reflexivity. }
    destruct (derived_conf c) as [v1|e1]; [|simpl; repeat split; auto].
    destruct (derived_dev c) as [v2|e2]; simpl.
    - split; [|split; [|split; [|split; reflexivity]]].
      + intros k Hk. destruct (not_derived_neq k Hk) as [N1 [N2 N3]].
        rewrite !(dict_get_upd_other str_eqb str_eqb_spec) by assumption. reflexivity.
      + rewrite !Q by assumption. reflexivity.
      + repeat apply (dict_upd_nodup str_eqb str_eqb_spec). exact W.
    - split; [|split; [|split; [|split; reflexivity]]].
      + intros k Hk. destruct (not_derived_neq k Hk) as [N1 [N2 N3]].
        rewrite !(dict_get_upd_other str_eqb str_eqb_spec) by assumption. reflexivity.
      + rewrite !Q by assumption. reflexivity.
      + apply (dict_upd_nodup str_eqb str_eqb_spec). exact W.
  Qed.

  (* normal return: the three derived keys are exactly what c alone determines *)
  Theorem derive_comments_values c s :
    dict_wf (comments s) ->
    snd (step (DeriveComments c) s) = None ->
    forall k, is_derived k = true ->
      dict_get str_eqb k (comments (fst (step (DeriveComments c) s))) = derived_value c k.
  Proof.
    intros W Hn k Hk. simpl in *. unfold derive_comments, dict_wf in *.
    destruct derived_distinct as [N12 [N13 N23]].
    destruct (derived_conf c) as [v1|e1] eqn:E1; [|discriminate].
    destruct (derived_dev c) as [v2|e2] eqn:E2; [|discriminate]. simpl.
    destruct (is_derived_cases k Hk) as [ -> | [ -> | -> ] ].
    - rewrite (derived_value_conf c v1 E1).
      rewrite !(dict_get_upd_other str_eqb str_eqb_spec) by congruence.
      apply (dict_get_upd_same str_eqb str_eqb_spec). exact W.
    - rewrite (derived_value_dev c v2 E2).
      rewrite (dict_get_upd_other str_eqb str_eqb_spec) by congruence.
      apply (dict_get_upd_same str_eqb str_eqb_spec).
      apply (dict_upd_nodup str_eqb str_eqb_spec). exact W.
    - rewrite derived_value_bus.
      apply (dict_get_upd_same str_eqb str_eqb_spec).
      repeat apply (dict_upd_nodup str_eqb str_eqb_spec). exact W.
  Qed.

  Lemma step_comments_wf o s : dict_wf (comments s) -> dict_wf (comments (fst (step o s))).
  Proof.
    intro W. destruct o as [c x|c|c m|x|i x|];
      try (rewrite step_comments_frame by exact I; exact W).
    apply derive_comments_frame. exact W.
  Qed.

  Lemma run_comments_wf h s : dict_wf (comments s) -> dict_wf (comments (run h s)).
  Proof.
    revert s. induction h as [|o t IH]; simpl; intros s W; [exact W|].
    apply IH. apply step_comments_wf. exact W.
  Qed.

  (* history independence: whatever happened before, and whatever other
     operations follow, the derived comments are those of the configuration
     of the most recent derivation *)
  Theorem comments_history h1 c h2 s0 :
    dict_wf (comments s0) -> Forall not_derive_comments h2 ->
    snd (step (DeriveComments c) (run h1 s0)) = None ->
    let s := run (h1 ++ DeriveComments c :: h2) s0 in
    (forall k, is_derived k = true -> dict_get str_eqb k (comments s) = derived_value c k) /\
    (forall k, is_derived k = false ->
       dict_get str_eqb k (comments s) = dict_get str_eqb k (comments (run h1 s0))) /\
    other_comments (comments s) = other_comments (comments (run h1 s0)).
  Proof.
    intros W Hn Hok. simpl. rewrite run_app.
    change (run (DeriveComments c :: h2) (run h1 s0))
      with (run h2 (fst (step (DeriveComments c) (run h1 s0)))).
    rewrite run_comments_frame by exact Hn.
    pose proof (run_comments_wf h1 s0 W) as W1.
    destruct (derive_comments_frame c (run h1 s0) W1) as [F1 [F2 _]].
    split; [|split]; [|exact F1|exact F2].
    apply derive_comments_values; assumption.
  Qed.

  (* --- authentication blocks --------------------------------------------- *)
  Lemma add_auth_wf b a : auth_wf a -> auth_wf (add_auth b a).
  Proof.
    intros [ND HF]. unfold add_auth. split.
    - apply (dict_set_nodup N.eqb N.eqb_eq). exact ND.
    - apply (forall_dict_set N.eqb N.eqb_eq); [exact HF | reflexivity].
  Qed.

  Lemma step_auths_wf o s : auth_wf (auths s) -> auth_wf (auths (fst (step o s))).
  Proof.
    intro W. destruct o as [c x|c|c m|x|i x|]; simpl; try exact W.
    - unfold set_config. destruct (conf_blob c x); exact W.
    - unfold derive_comments. destruct (derived_conf c); [destruct (derived_dev c)|]; exact W.
    - unfold derive_auth. destruct (update_block c) as [[u|]|e]; simpl; repeat apply add_auth_wf; exact W.
    - destruct (write_read_frame s) as [_ [_ H]]. simpl in H. rewrite H. exact W.
  Qed.

  Theorem run_auths_wf h s : auth_wf (auths s) -> auth_wf (auths (run h s)).
  Proof.
    revert s. induction h as [|o t IH]; simpl; intros s W; [exact W|].
    apply IH. apply step_auths_wf. exact W.
  Qed.

  Lemma same_kind_tag a b : same_kind a b = true -> ab_tag a = ab_tag b.
  Proof.
    destruct a, b; simpl; intro H; try discriminate; try reflexivity.
    apply N.eqb_eq in H. exact H.
  Qed.

  Theorem one_per_kind a b : auth_wf a -> (count_kind b a <= 1)%nat.
  Proof.
    intros [ND HF]. unfold count_kind.
    apply (filter_unique_key fst); [exact ND|].
    rewrite Forall_forall in HF.
    intros x y Hx Hy Px Py. rewrite (HF x Hx), (HF y Hy).
    rewrite <- (same_kind_tag _ _ Px), <- (same_kind_tag _ _ Py). reflexivity.
  Qed.

  Lemma auth_wf_nil : auth_wf [].
  Proof. split; constructor. Qed.

  (* the update block exists exactly when security code and identifier both exist *)
  Lemma update_block_spec c :
    update_block c =
      match config_id c with
      | Err e => Err e
      | Ok oi =>
        match cfg_get c 0x0202 0x82, oi with
        | Some code, Some i => Ok (Some (ABUpdate code (id_version i)))
        | _, _ => Ok None
        end
      end.
  Proof. unfold History.update_block. destruct (config_id c); reflexivity. Qed.

  Definition update_entry (ou : option auth_block) : list (N * auth_block) :=
    match ou with Some u => [(TAG_UPDATE, u)] | None => [] end.

  Lemma update_block_is_update c u : update_block c = Ok (Some u) -> exists code v, u = ABUpdate code v.
  Proof.
    rewrite update_block_spec. destruct (config_id c) as [[i|]|e]; destruct (cfg_get c 514 130);
      intro H; inversion H. eauto.
  Qed.

  (* a file without auth blocks: exactly the requested init block, plus the update block iff it exists *)
  Theorem derive_auth_fresh c m s :
    auths s = [] ->
    let r := step (DeriveAuth c m) s in
    match update_block c with
    | Ok ou => snd r = None /\
               auths (fst r) = (ab_tag (init_block m), init_block m) :: update_entry ou
    | Err e => snd r = Some e /\ auths (fst r) = [(ab_tag (init_block m), init_block m)]
    end /\ comps (fst r) = comps s /\ comments (fst r) = comments s.
  Proof.
    intro H. simpl. unfold derive_auth. rewrite H.
    destruct (update_block c) as [[u|]|e] eqn:E; simpl; repeat split; try reflexivity.
    destruct (update_block_is_update c u E) as [code [v ->]].
    destruct m; reflexivity.
  Qed.

  (* both modes one after the other on a file that had none: one block per
     kind; the customer-key block (tag 1) and the ECC block (tag 3) both stay;
     the update block keeps the position of its first insertion and carries
     the latest configuration that had one *)
  Theorem derive_auth_both_modes c1 c2 s u1 u2 :
    auths s = [] ->
    update_block c1 = Ok u1 -> update_block c2 = Ok u2 ->
    let s2 := run [DeriveAuth c1 true; DeriveAuth c2 false] s in
    auths s2 =
      match u1, u2 with
      | None, None => [(TAG_CUSTKEY, ABCust); (TAG_ECC, ABEcc 0)]
      | Some a, None => [(TAG_CUSTKEY, ABCust); (TAG_UPDATE, a); (TAG_ECC, ABEcc 0)]
      | Some _, Some b => [(TAG_CUSTKEY, ABCust); (TAG_UPDATE, b); (TAG_ECC, ABEcc 0)]
      | None, Some b => [(TAG_CUSTKEY, ABCust); (TAG_ECC, ABEcc 0); (TAG_UPDATE, b)]
      end.
  Proof.
    intros H E1 E2. simpl. unfold derive_auth. rewrite E1.
    destruct u1 as [a|]; simpl; rewrite E2, H; destruct u2 as [b|]; simpl;
      try (destruct (update_block_is_update c1 a E1) as [code1 [v1 ->]]);
      try (destruct (update_block_is_update c2 b E2) as [code2 [v2 ->]]); reflexivity.
  Qed.

  Lemma step_auths_frame o s : (forall c m, o <> DeriveAuth c m) -> auths (fst (step o s)) = auths s.
  Proof.
    intro Hn. destruct o as [c x|c|c m|x|i x|]; simpl; try reflexivity.
    - unfold set_config. destruct (conf_blob c x); reflexivity.
    - unfold derive_comments. destruct (derived_conf c); [destruct (derived_dev c)|]; reflexivity.
    - exfalso. apply (Hn c m). reflexivity.
    - apply write_read_frame.
  Qed.
End Hist.
