(* C17 - the group law (Proofs/EcLaw.v) for shipped curves of Gen/Curves.v: the hypothesis
   n * G = infinity  is discharged by the closed computation `fast_mul` (Proofs/EcLawFast.v)
   over the generated constants, together with: G reduced and on the curve, the curve
   non-singular, n odd.  `prime (c_p c)` (and `prime (c_n c)` where the exact order of G is
   needed) stay hypotheses.

   This file uses the standard library only (binary Z arithmetic): everything is closed
   under the global context.  The price is speed: NIST256p takes about 13 s in the VM and
   about 9 minutes in coqchk (no VM), so only NIST256p (the plug-in curve) and the three
   smallest curves are checked here.  Proofs/EcLawCurvesBig.v runs the same computation on
   Bignums' BigZ (primitive 63-bit integers) for all 17 curves; that is fast also for
   coqchk but rests on the axioms of Coq's primitive integers (Uint63). *)
From Coq Require Import List Bool ZArith Lia Znumtheory PeanoNat.
From Bec2 Require Import Base.Result Base.Modp Gen.Curves Model.Ec Model.P256Plugin
  Proofs.EcSmall Proofs.EcMulProofs Proofs.EcLaw Proofs.EcLawFast Proofs.P256PluginProofs.
Import ListNotations.
Open Scope Z_scope.

(* ---- NIST256p (the plug-in curve) and the three smallest curves ---- *)

Definition curves_checked : list curve := [SECP112r1; SECP112r2; SECP128r1; NIST256p].

Lemma curves_checked_all : forallb order_ok curves_checked = true.
Proof. vm_cast_no_check (eq_refl true). Qed.

Lemma curves_checked_incl : incl curves_checked curves.
Proof. intros c H. unfold curves_checked in H. unfold curves. cbn [In] in *. tauto. Qed.

Theorem EcLawCurves_group_full c : In c curves_checked -> prime (c_p c) ->
  let p := c_p c in let a := c_a c in let G := Some (c_Gx c, c_Gy c) in
  let inG := fun P : pt => exists k : nat, P = nmul (aff_add p a) k G in
  ec_group p a inG (aff_add p a) (aff_neg p) /\
  inG G /\
  zmul (aff_add p a) (aff_neg p) (c_n c) G = None /\
  (forall q, inG (Some q) -> on_curve p a (c_b c) q) /\
  (prime (c_n c) -> forall k, 0 < k < c_n c -> zmul (aff_add p a) (aff_neg p) k G <> None).
Proof.
  intros H Hp. pose proof curves_checked_all as K. rewrite forallb_forall in K.
  exact (order_ok_group c (K c H) Hp).
Qed.
Print Assumptions EcLawCurves_group_full.

Theorem EcLawCurves_group c : In c curves_checked -> prime (c_p c) ->
  ec_group (c_p c) (c_a c)
    (fun P => exists k : nat, P = nmul (aff_add (c_p c) (c_a c)) k (Some (c_Gx c, c_Gy c)))
    (aff_add (c_p c) (c_a c)) (aff_neg (c_p c)) /\
  (exists k : nat, Some (c_Gx c, c_Gy c) = nmul (aff_add (c_p c) (c_a c)) k (Some (c_Gx c, c_Gy c))).
Proof.
  intros H Hp. destruct (EcLawCurves_group_full c H Hp) as (GH & GI & _). split; assumption.
Qed.
Print Assumptions EcLawCurves_group.

(* ---- the plug-in curve, in the vocabulary of Model/P256Plugin.v ---- *)

Definition p256_inG (P : pt) : Prop :=
  exists k : nat, P = nmul (aff_add p256_p p256_a) k p256_Gpt.

Lemma p256_checked : In NIST256p curves_checked.
Proof. unfold curves_checked. cbn [In]. tauto. Qed.

Theorem EcLawCurves_p256 : prime p256_p ->
  ec_group p256_p p256_a
    (fun P => exists k : nat, P = nmul (aff_add p256_p p256_a) k p256_Gpt)
    (aff_add p256_p p256_a) (aff_neg p256_p) /\
  (exists k : nat, p256_Gpt = nmul (aff_add p256_p p256_a) k p256_Gpt).
Proof. exact (EcLawCurves_group NIST256p p256_checked). Qed.
Print Assumptions EcLawCurves_p256.

(* the other named hypotheses of section 3b of Properties/C17.v *)
Theorem EcLawCurves_p256_facts : prime p256_p ->
  zmul (aff_add p256_p p256_a) (aff_neg p256_p) p256_n p256_Gpt = None /\
  (forall q, p256_inG (Some q) -> on_curve p256_p p256_a p256_b q) /\
  (prime p256_n -> forall k, 0 < k < p256_n ->
     zmul (aff_add p256_p p256_a) (aff_neg p256_p) k p256_Gpt <> None).
Proof.
  intro Hp. destruct (EcLawCurves_group_full NIST256p p256_checked Hp) as (_ & _ & H3 & H4 & H5).
  split; [exact H3 | split; [exact H4 | exact H5]].
Qed.
Print Assumptions EcLawCurves_p256_facts.

(* the plug-in facts of C17 (3b) with primality of p and n as the only hypotheses *)
Theorem EcLawCurves_p256_pub_valid : prime p256_p -> prime p256_n ->
  forall d, p256_valid_pub (p256_pub_of d) = true.
Proof.
  intros Hp Hn. destruct (EcLawCurves_p256 Hp) as [GH GI].
  destruct (EcLawCurves_p256_facts Hp) as (H3 & H4 & H5).
  exact (p256_pub_valid _ _ _ GH GI H3 (H5 Hn) H4).
Qed.
Print Assumptions EcLawCurves_p256_pub_valid.

Theorem EcLawCurves_p256_ecdh_comm : prime p256_p -> prime p256_n ->
  forall d e, p256_ecdh d (p256_pub_of e) = p256_ecdh e (p256_pub_of d).
Proof.
  intros Hp Hn. destruct (EcLawCurves_p256 Hp) as [GH GI].
  destruct (EcLawCurves_p256_facts Hp) as (H3 & H4 & H5).
  exact (p256_ecdh_comm _ _ _ GH GI H3 (H5 Hn) H4).
Qed.
Print Assumptions EcLawCurves_p256_ecdh_comm.
