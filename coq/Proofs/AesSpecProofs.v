(* Facts about the specification alone (Model/AesSpec.v): the inverse cipher of
   FIPS-197 5.3 inverts the cipher of 5.1 for every sequence of round keys, and the
   equivalent inverse cipher of 5.3.5 equals the inverse cipher.  GF(2^8) facts are
   finite sweeps (256 values, or 65536 pairs for distributivity of a constant
   multiplication over xor), lifted with Base/Sweep.v. *)
From Coq Require Import List Bool NArith Lia Btauto.
From Coq Require Import Init.Byte.
From Bec2 Require Import Base.Result Base.Bytes Base.Sweep Model.Cbc Model.AesSpec Proofs.CrcProofs.
Import ListNotations.
Open Scope N_scope.

Lemma b2n_xor a b : b2n (a (+) b) = N.lxor (b2n a) (b2n b).
Proof.
  unfold xor_byte. apply b2n_n2b_small. apply (lxor_lt_pow2 _ _ 8); apply b2n_lt.
Qed.

(* equalities between xor-combinations, modulo associativity, commutativity, x+x = 0 *)
Ltac nxor_ac := apply N.bits_inj; intro; rewrite ?N.lxor_spec, ?N.bits_0; btauto.
Lemma b2n_x00 : b2n x00 = 0. Proof. reflexivity. Qed.
Ltac bxor_ac := apply b2n_inj; rewrite ?b2n_xor, ?b2n_x00; nxor_ac.
Lemma xor_byte_0_r a : a (+) x00 = a.
Proof. apply b2n_inj. rewrite b2n_xor, b2n_x00. apply N.lxor_0_r. Qed.
Lemma xor_byte_nilpotent a : a (+) a = x00.
Proof. apply b2n_inj. rewrite b2n_xor, b2n_x00. apply N.lxor_nilpotent. Qed.
Lemma xor_byte_cancel_r a k : a (+) k (+) k = a.
Proof. bxor_ac. Qed.

(* ---- sweeps ------------------------------------------------------------------- *)

Lemma byte_sweep (P : byte -> bool) :
  forallb (fun x => P (n2b x)) (Nrange 256) = true -> forall b, P b = true.
Proof.
  intros H b. pose proof (sweep _ _ H (b2n b) (b2n_lt b)) as H0. cbv beta in H0.
  rewrite n2b_b2n in H0. exact H0.
Qed.
Lemma byte_sweep2 (P : byte -> byte -> bool) :
  forallb (fun x => forallb (fun y => P (n2b x) (n2b y)) (Nrange 256)) (Nrange 256) = true ->
  forall a b, P a b = true.
Proof.
  intros H a b.
  pose proof (sweep2 (fun x y => P (n2b x) (n2b y)) 256 256 H (b2n a) (b2n b) (b2n_lt a) (b2n_lt b)) as H0.
  cbv beta in H0. rewrite !n2b_b2n in H0. exact H0.
Qed.

Lemma inv_sbox_sbox a : inv_sboxb (sboxb a) = a.
Proof.
  apply byte_eqb_eq. revert a. apply byte_sweep. vm_compute. reflexivity.
Qed.
Lemma sbox_inv_sbox a : sboxb (inv_sboxb a) = a.
Proof.
  apply byte_eqb_eq. revert a. apply byte_sweep. vm_compute. reflexivity.
Qed.

(* multiplication by a constant distributes over xor: xtime is additive on bytes (65536 pairs),
   hence so is every sum of xtime-multiples *)
Lemma xtime_lt x : x < 256 -> xtime x < 256.
Proof.
  intro H. assert (Hs : forallb (fun x => xtime x <? 256) (Nrange 256) = true) by (vm_cast_no_check (eq_refl true)).
  apply N.ltb_lt. exact (sweep _ _ Hs x H).
Qed.
Lemma xtime_xor a b : a < 256 -> b < 256 -> xtime (N.lxor a b) = N.lxor (xtime a) (xtime b).
Proof.
  intros Ha Hb.
  assert (Hs : forallb (fun x => forallb (fun y => xtime (N.lxor x y) =? N.lxor (xtime x) (xtime y)) (Nrange 256))
                       (Nrange 256) = true) by (vm_cast_no_check (eq_refl true)).
  apply N.eqb_eq. exact (sweep2 (fun x y => xtime (N.lxor x y) =? N.lxor (xtime x) (xtime y)) 256 256 Hs a b Ha Hb).
Qed.
Lemma lxor_lt_256 a b : a < 256 -> b < 256 -> N.lxor a b < 256.
Proof. intros. apply (lxor_lt_pow2 _ _ 8); assumption. Qed.
Lemma gmul_aux_lt n : forall c a, a < 256 -> gmul_aux n c a < 256.
Proof.
  induction n as [|n IH]; intros c a Ha; [reflexivity|].
  cbn [gmul_aux]. apply lxor_lt_256; [destruct (N.odd c); [exact Ha|reflexivity]|].
  apply IH, xtime_lt, Ha.
Qed.
Lemma gmul_aux_xor n : forall c a b, a < 256 -> b < 256 ->
  gmul_aux n c (N.lxor a b) = N.lxor (gmul_aux n c a) (gmul_aux n c b).
Proof.
  induction n as [|n IH]; intros c a b Ha Hb; [reflexivity|].
  cbn [gmul_aux]. rewrite xtime_xor by assumption.
  rewrite IH by (apply xtime_lt; assumption).
  destruct (N.odd c); nxor_ac.
Qed.
Lemma gmulb_xor c a b : gmulb c (a (+) b) = gmulb c a (+) gmulb c b.
Proof.
  unfold gmulb, gmul. rewrite b2n_xor, gmul_aux_xor by apply b2n_lt.
  unfold xor_byte. rewrite !b2n_n2b_small by (apply gmul_aux_lt, b2n_lt). reflexivity.
Qed.
Lemma gmulb_xor_2 a b : gmulb 2 (a (+) b) = gmulb 2 a (+) gmulb 2 b. Proof. apply gmulb_xor. Qed.
Lemma gmulb_xor_3 a b : gmulb 3 (a (+) b) = gmulb 3 a (+) gmulb 3 b. Proof. apply gmulb_xor. Qed.
Lemma gmulb_xor_9 a b : gmulb 9 (a (+) b) = gmulb 9 a (+) gmulb 9 b. Proof. apply gmulb_xor. Qed.
Lemma gmulb_xor_11 a b : gmulb 11 (a (+) b) = gmulb 11 a (+) gmulb 11 b. Proof. apply gmulb_xor. Qed.
Lemma gmulb_xor_13 a b : gmulb 13 (a (+) b) = gmulb 13 a (+) gmulb 13 b. Proof. apply gmulb_xor. Qed.
Lemma gmulb_xor_14 a b : gmulb 14 (a (+) b) = gmulb 14 a (+) gmulb 14 b. Proof. apply gmulb_xor. Qed.

(* ---- MixColumns / InvMixColumns -------------------------------------------------- *)

Lemma xor4_interchange a0 a1 a2 a3 b0 b1 b2 b3 :
  (a0 (+) b0) (+) (a1 (+) b1) (+) (a2 (+) b2) (+) (a3 (+) b3) =
  (a0 (+) a1 (+) a2 (+) a3) (+) (b0 (+) b1 (+) b2 (+) b3).
Proof. bxor_ac. Qed.

Lemma InvMixColumn_xor a b : InvMixColumn (xor_col a b) = xor_col (InvMixColumn a) (InvMixColumn b).
Proof.
  destruct a as [a0 a1 a2 a3], b as [b0 b1 b2 b3]. cbn [xor_col InvMixColumn].
  rewrite !gmulb_xor_14, !gmulb_xor_11, !gmulb_xor_13, !gmulb_xor_9.
  f_equal; apply xor4_interchange.
Qed.

Lemma MixColumn_xor a b : MixColumn (xor_col a b) = xor_col (MixColumn a) (MixColumn b).
Proof.
  destruct a as [a0 a1 a2 a3], b as [b0 b1 b2 b3]. cbn [xor_col MixColumn].
  rewrite !gmulb_xor_2, !gmulb_xor_3.
  f_equal; apply xor4_interchange.
Qed.

(* InvMixColumn o MixColumn is the identity on each of the four unit directions
   (256 values each), hence everywhere by additivity *)
Definition col_eqb (x y : col) : bool :=
  match x, y with Col a b c d, Col a' b' c' d' => byte_eqb a a' && byte_eqb b b' && byte_eqb c c' && byte_eqb d d' end.
Lemma col_eqb_eq x y : col_eqb x y = true -> x = y.
Proof.
  destruct x, y. cbn. intro H.
  repeat (apply andb_true_iff in H as [H ?]).
  repeat match goal with H : byte_eqb _ _ = true |- _ => apply byte_eqb_eq in H end. congruence.
Qed.
Lemma IMC_MC_unit0 a : InvMixColumn (MixColumn (Col a x00 x00 x00)) = Col a x00 x00 x00.
Proof.
  apply col_eqb_eq. revert a.
  apply (byte_sweep (fun a => col_eqb (InvMixColumn (MixColumn (Col a x00 x00 x00))) (Col a x00 x00 x00))).
  vm_cast_no_check (eq_refl true).
Qed.
Lemma IMC_MC_unit1 a : InvMixColumn (MixColumn (Col x00 a x00 x00)) = Col x00 a x00 x00.
Proof.
  apply col_eqb_eq. revert a.
  apply (byte_sweep (fun a => col_eqb (InvMixColumn (MixColumn (Col x00 a x00 x00))) (Col x00 a x00 x00))).
  vm_cast_no_check (eq_refl true).
Qed.
Lemma IMC_MC_unit2 a : InvMixColumn (MixColumn (Col x00 x00 a x00)) = Col x00 x00 a x00.
Proof.
  apply col_eqb_eq. revert a.
  apply (byte_sweep (fun a => col_eqb (InvMixColumn (MixColumn (Col x00 x00 a x00))) (Col x00 x00 a x00))).
  vm_cast_no_check (eq_refl true).
Qed.
Lemma IMC_MC_unit3 a : InvMixColumn (MixColumn (Col x00 x00 x00 a)) = Col x00 x00 x00 a.
Proof.
  apply col_eqb_eq. revert a.
  apply (byte_sweep (fun a => col_eqb (InvMixColumn (MixColumn (Col x00 x00 x00 a))) (Col x00 x00 x00 a))).
  vm_cast_no_check (eq_refl true).
Qed.

Lemma xor_byte_0_l a : x00 (+) a = a.
Proof. apply b2n_inj. rewrite b2n_xor, b2n_x00. apply N.lxor_0_l. Qed.

Definition col_units (a b c d : byte) : col :=
  xor_col (xor_col (xor_col (Col a x00 x00 x00) (Col x00 b x00 x00)) (Col x00 x00 c x00)) (Col x00 x00 x00 d).
Lemma col_decomp a b c d : Col a b c d = col_units a b c d.
Proof.
  unfold col_units. cbn [xor_col].
  rewrite ?xor_byte_0_r, ?xor_byte_0_l, ?xor_byte_0_r. reflexivity.
Qed.

Lemma InvMixColumn_MixColumn c : InvMixColumn (MixColumn c) = c.
Proof.
  destruct c as [a b c d]. rewrite (col_decomp a b c d). unfold col_units.
  rewrite !MixColumn_xor, !InvMixColumn_xor.
  rewrite IMC_MC_unit0, IMC_MC_unit1, IMC_MC_unit2, IMC_MC_unit3. reflexivity.
Qed.

(* ---- the other steps ---------------------------------------------------------------- *)

Lemma InvShiftRows_ShiftRows s : InvShiftRows (ShiftRows s) = s.
Proof. destruct s as [[? ? ? ?] [? ? ? ?] [? ? ? ?] [? ? ? ?]]. reflexivity. Qed.
Lemma InvSubBytes_SubBytes s : InvSubBytes (SubBytes s) = s.
Proof.
  destruct s as [[? ? ? ?] [? ? ? ?] [? ? ? ?] [? ? ? ?]].
  cbn [SubBytes InvSubBytes map_state map_col]. rewrite !inv_sbox_sbox. reflexivity.
Qed.
Lemma InvSub_InvShift_comm s : InvShiftRows (InvSubBytes s) = InvSubBytes (InvShiftRows s).
Proof. destruct s as [[? ? ? ?] [? ? ? ?] [? ? ? ?] [? ? ? ?]]. reflexivity. Qed.
Lemma xor_col_cancel c k : xor_col (xor_col c k) k = c.
Proof. destruct c, k. cbn [xor_col]. rewrite !xor_byte_cancel_r. reflexivity. Qed.
Lemma AddRoundKey_cancel s k : AddRoundKey (AddRoundKey s k) k = s.
Proof. destruct s, k. cbn [AddRoundKey]. rewrite !xor_col_cancel. reflexivity. Qed.
Lemma InvMixColumns_MixColumns s : InvMixColumns (MixColumns s) = s.
Proof. destruct s. cbn [MixColumns InvMixColumns map_state]. rewrite !InvMixColumn_MixColumn. reflexivity. Qed.
Lemma InvMixColumns_AddRoundKey s k :
  InvMixColumns (AddRoundKey s k) = AddRoundKey (InvMixColumns s) (InvMixColumns k).
Proof. destruct s, k. cbn [AddRoundKey InvMixColumns map_state]. rewrite !InvMixColumn_xor. reflexivity. Qed.

(* ---- 5.3.5: the equivalent inverse cipher is the inverse cipher --------------------- *)

Lemma eqinv_rounds_eq r : forall s, eqinv_rounds s (dw_tail r) = inv_rounds s r.
Proof.
  induction r as [|k r IH]; intro s; [reflexivity|].
  destruct r as [|k' r'].
  - cbn. rewrite InvSub_InvShift_comm. reflexivity.
  - change (dw_tail (k :: k' :: r')) with (InvMixColumns k :: dw_tail (k' :: r')).
    change (inv_rounds s (k :: k' :: r')) with
      (inv_rounds (InvMixColumns (AddRoundKey (InvSubBytes (InvShiftRows s)) k)) (k' :: r')).
    rewrite <- IH. rewrite InvMixColumns_AddRoundKey, <- InvSub_InvShift_comm.
    destruct (dw_tail (k' :: r')) eqn:E.
    + destruct r'; discriminate.
    + reflexivity.
Qed.

Theorem EqInvCipher_rk_eq ks s : EqInvCipher_rk ks s = InvCipher_rk ks s.
Proof.
  unfold EqInvCipher_rk, InvCipher_rk. destruct (rev ks); [reflexivity|]. apply eqinv_rounds_eq.
Qed.

(* ---- 5.3: InvCipher inverts Cipher, for every list of round keys -------------------- *)

Lemma cipher_rounds_cons s k l : l <> [] ->
  cipher_rounds s (k :: l) = cipher_rounds (AddRoundKey (MixColumns (ShiftRows (SubBytes s))) k) l.
Proof. destruct l; [contradiction|reflexivity]. Qed.
Lemma inv_rounds_cons s k l : l <> [] ->
  inv_rounds s (k :: l) = inv_rounds (InvMixColumns (AddRoundKey (InvSubBytes (InvShiftRows s)) k)) l.
Proof. destruct l; [contradiction|reflexivity]. Qed.

(* undoing rounds 1..Nr leaves the state as it was after ShiftRows o SubBytes of round 1 *)
Lemma inv_rounds_cipher_rounds kn : forall ks s tail, tail <> [] ->
  inv_rounds (AddRoundKey (cipher_rounds s (ks ++ [kn])) kn) (rev ks ++ tail) =
  inv_rounds (ShiftRows (SubBytes s)) tail.
Proof.
  induction ks as [|k ks IH]; intros s tail Ht.
  - cbn [app rev cipher_rounds]. rewrite AddRoundKey_cancel. reflexivity.
  - cbn [rev]. rewrite <- app_assoc. cbn [app].
    rewrite cipher_rounds_cons by (destruct ks; discriminate).
    rewrite IH by discriminate.
    rewrite inv_rounds_cons by exact Ht.
    rewrite InvShiftRows_ShiftRows, InvSubBytes_SubBytes, AddRoundKey_cancel, InvMixColumns_MixColumns.
    reflexivity.
Qed.

Theorem InvCipher_Cipher ks s : InvCipher_rk ks (Cipher_rk ks s) = s.
Proof.
  destruct ks as [|k0 ks]; [reflexivity|].
  destruct ks as [|k1 ks'].
  - unfold InvCipher_rk, Cipher_rk. cbn. apply AddRoundKey_cancel.
  - destruct (@exists_last _ (k1 :: ks') ltac:(discriminate)) as [mid [kn E]]. rewrite E.
    unfold InvCipher_rk, Cipher_rk.
    replace (rev (k0 :: mid ++ [kn])) with (kn :: rev mid ++ [k0])
      by (cbn [rev]; rewrite rev_app_distr; reflexivity).
    rewrite inv_rounds_cipher_rounds by discriminate.
    cbn [inv_rounds]. rewrite InvShiftRows_ShiftRows, InvSubBytes_SubBytes. apply AddRoundKey_cancel.
Qed.
