(* Lemmas about Model/Der.v (DER primitives of python-ecdsa's der.py). *)
From Coq Require Import List Bool NArith ZArith Lia.
From Coq Require Import Init.Byte.
From Bec2 Require Import Base.Result Base.Bytes Base.Sweep Model.Der.
Import ListNotations.
Open Scope N_scope.

Lemma ok_pair_inj {A B} (a a' : A) (b b' : B) : Ok (a, b) = Ok (a', b') -> a = a' /\ b = b'.
Proof. intro H. inversion H. split; reflexivity. Qed.

Lemma cons2_inj {A} (a b a' b' : A) l l' : a :: b :: l = a' :: b' :: l' -> a = a' /\ b = b' /\ l = l'.
Proof. intro H. inversion H. repeat split; reflexivity. Qed.

Lemma ok_pair_inj_pair {A B} (a a' : A) (b b' : B) : (a, b) = (a', b') -> a = a' /\ b = b'.
Proof. intro H. inversion H. split; reflexivity. Qed.

Lemma ok_inj {A} (a a' : A) : Ok a = Ok a' -> a = a'.
Proof. intro H. inversion H. reflexivity. Qed.

Lemma err_inj {A} (e e' : err) : @Err A e = Err e' -> e = e'.
Proof. intro H. inversion H. reflexivity. Qed.

(* ---- bit facts on byte values ------------------------------------------------ *)

Lemma land7f n : N.land n 0x7F = n mod 128.
Proof. change 0x7F with (N.ones 7). rewrite N.land_ones. reflexivity. Qed.

Lemma land80_small n : n < 256 -> (N.land n 0x80 =? 0) = (n <? 128).
Proof.
  intro H.
  assert (S : forall x, x < 256 -> Bool.eqb (N.land x 0x80 =? 0) (x <? 128) = true).
  { apply (sweep (fun x => Bool.eqb (N.land x 0x80 =? 0) (x <? 128))). vm_compute. reflexivity. }
  apply eqb_prop, S, H.
Qed.

Lemma lor80_small n : n < 128 -> N.lor 0x80 n = 128 + n.
Proof.
  intro H.
  assert (S : forall x, x < 128 -> (N.lor 0x80 x =? 128 + x) = true).
  { apply (sweep (fun x => N.lor 0x80 x =? 128 + x)). vm_compute. reflexivity. }
  apply N.eqb_eq, S, H.
Qed.

Lemma n2b_inj_small a b : a < 256 -> b < 256 -> n2b a = n2b b -> a = b.
Proof.
  intros Ha Hb E. rewrite <- (b2n_n2b_small a Ha), <- (b2n_n2b_small b Hb), E. reflexivity.
Qed.

Lemma byte_eqb_refl b : byte_eqb b b = true.
Proof. apply byte_eqb_eq. reflexivity. Qed.

Lemma byte_eqb_neq a b : byte_eqb a b = false <-> a <> b.
Proof.
  split.
  - intros E H. apply byte_eqb_eq in H. congruence.
  - intro H. destruct (byte_eqb a b) eqn:E; [apply byte_eqb_eq in E; contradiction | reflexivity].
Qed.

(* ---- powers of 256 --------------------------------------------------------------- *)

Lemma pow256 k : 256 ^ k = 2 ^ (8 * k).
Proof. rewrite N.pow_mul_r. reflexivity. Qed.

Lemma pow256_pos k : 0 < 256 ^ k.
Proof. apply N.neq_0_lt_0, N.pow_nonzero. discriminate. Qed.

Lemma pow256_mono a b : a <= b -> 256 ^ a <= 256 ^ b.
Proof. intro H. apply N.pow_le_mono_r; [discriminate | exact H]. Qed.

Lemma pow256_lt_inv a b : 256 ^ a < 256 ^ b -> a < b.
Proof. intro H. apply (N.pow_lt_mono_r_iff 256); [reflexivity | exact H]. Qed.

(* ---- bytelen / min_be --------------------------------------------------------------- *)

Lemma bytelen_pos n : 1 <= bytelen n.
Proof. unfold bytelen. generalize (N.log2 n / 8). intro q. lia. Qed.

Lemma bytelen_bound n : n < 256 ^ bytelen n.
Proof.
  unfold bytelen. rewrite pow256.
  destruct (N.eq_dec n 0) as [->|Hn]; [reflexivity|].
  assert (Hp : 0 < n) by lia.
  destruct (N.log2_spec n Hp) as [_ Hu].
  eapply N.lt_le_trans; [exact Hu|].
  apply N.pow_le_mono_r; [discriminate|].
  pose proof (N.div_mod (N.log2 n) 8 ltac:(discriminate)) as D.
  pose proof (N.mod_lt (N.log2 n) 8 ltac:(discriminate)) as M.
  set (q := N.log2 n / 8) in *. set (m := N.log2 n mod 8) in *. clearbody q m.
  set (L := N.log2 n) in *. clearbody L. lia.
Qed.

Lemma bytelen_lower n : 0 < n -> 256 ^ (bytelen n - 1) <= n.
Proof.
  intro Hp. unfold bytelen. rewrite pow256.
  destruct (N.log2_spec n Hp) as [Hl _].
  eapply N.le_trans; [|exact Hl].
  apply N.pow_le_mono_r; [discriminate|].
  pose proof (N.div_mod (N.log2 n) 8 ltac:(discriminate)) as D.
  pose proof (N.mod_lt (N.log2 n) 8 ltac:(discriminate)) as M.
  set (q := N.log2 n / 8) in *. set (m := N.log2 n mod 8) in *. clearbody q m.
  set (L := N.log2 n) in *. clearbody L. lia.
Qed.

Lemma bytelen_unique n k : 256 ^ k <= n -> n < 256 ^ (k + 1) -> bytelen n = k + 1.
Proof.
  intros Hl Hu.
  assert (Hp : 0 < n) by (pose proof (pow256_pos k); lia).
  rewrite pow256 in Hl, Hu.
  apply (N.log2_le_pow2 _ _ Hp) in Hl. apply (N.log2_lt_pow2 _ _ Hp) in Hu.
  unfold bytelen. f_equal.
  revert Hl Hu. generalize (N.log2 n). intros L Hl Hu.
  symmetry. apply (N.div_unique L 8 k (L - 8 * k)); lia.
Qed.

Lemma bytelen_small n : n < 256 -> bytelen n = 1.
Proof.
  intro H. destruct (N.eq_dec n 0) as [->|Hn]; [reflexivity|].
  apply (bytelen_unique n 0); [change (256 ^ 0) with 1; lia | exact H].
Qed.

Lemma bytelen_le n k : n < 256 ^ k -> 1 <= k -> bytelen n <= k.
Proof.
  intros H Hk. destruct (N.eq_dec n 0) as [->|Hn]; [exact Hk|].
  pose proof (bytelen_lower n ltac:(lia)) as L.
  assert (256 ^ (bytelen n - 1) < 256 ^ k) by lia.
  apply pow256_lt_inv in H0. lia.
Qed.

Lemma min_be_blen n : blen (min_be n) = bytelen n.
Proof. unfold min_be. rewrite be_blen, N2Nat.id. reflexivity. Qed.

Lemma min_be_length n : length (min_be n) = N.to_nat (bytelen n).
Proof. unfold min_be. apply be_length. Qed.

Lemma from_be_min_be n : from_be (min_be n) = n.
Proof.
  unfold min_be. apply from_be_be_small. rewrite N2Nat.id. apply bytelen_bound.
Qed.

Lemma be_head k v : be (S k) v = n2b (v / 256 ^ N.of_nat k) :: be k v.
Proof.
  revert v. induction k as [|k IH]; intro v.
  - change (256 ^ N.of_nat 0) with 1. rewrite N.div_1_r. reflexivity.
  - rewrite be_S, IH. cbn [app]. rewrite <- be_S. f_equal. f_equal.
    rewrite N.div_div by (try discriminate; apply N.pow_nonzero; discriminate).
    rewrite Nat2N.inj_succ, N.pow_succ_r'. reflexivity.
Qed.

(* the first byte of the minimal big-endian string *)
Definition msb_of (n : N) : N := n / 256 ^ (bytelen n - 1).

Lemma min_be_cons n : min_be n = n2b (msb_of n) :: be (N.to_nat (bytelen n - 1)) n.
Proof.
  unfold min_be, msb_of.
  pose proof (bytelen_pos n) as P.
  replace (N.to_nat (bytelen n)) with (S (N.to_nat (bytelen n - 1))) by lia.
  rewrite be_head, N2Nat.id. reflexivity.
Qed.

Lemma msb_of_lt n : msb_of n < 256.
Proof.
  unfold msb_of. apply N.div_lt_upper_bound; [apply N.pow_nonzero; discriminate|].
  pose proof (bytelen_bound n) as B. pose proof (bytelen_pos n) as P.
  assert (E : 256 ^ bytelen n = 256 ^ (bytelen n - 1) * 256).
  { rewrite <- (N.pow_1_r 256) at 3. rewrite <- N.pow_add_r. f_equal. lia. }
  rewrite E in B. lia.
Qed.

Lemma msb_of_pos n : 0 < n -> 1 <= msb_of n.
Proof.
  intro Hp. unfold msb_of.
  pose proof (bytelen_lower n Hp) as L.
  apply N.div_le_lower_bound; [apply N.pow_nonzero; discriminate | lia].
Qed.

Lemma msb_of_small n : n < 256 -> msb_of n = n.
Proof.
  intro H. unfold msb_of. rewrite (bytelen_small n H). change (256 ^ (1 - 1)) with 1.
  apply N.div_1_r.
Qed.

Lemma from_be_cons b t : from_be (b :: t) = b2n b * 256 ^ blen t + from_be t.
Proof. change (b :: t) with ([b] ++ t). rewrite from_be_app. reflexivity. Qed.

(* a byte string without superfluous leading zero is the minimal string of its value *)
Lemma min_be_from_be b t : (t = [] \/ b <> x00) -> min_be (from_be (b :: t)) = b :: t.
Proof.
  intro H.
  assert (BL : bytelen (from_be (b :: t)) = blen (b :: t)).
  { rewrite from_be_cons, blen_cons.
    pose proof (from_be_lt t) as Ht. pose proof (b2n_lt b) as Hb.
    destruct H as [->|Hb0].
    - change (blen (@nil byte)) with 0. change (from_be []) with 0. change (256 ^ 0) with 1.
      rewrite bytelen_small by lia. reflexivity.
    - assert (1 <= b2n b).
      { destruct (N.eq_dec (b2n b) 0) as [E|E]; [|lia].
        exfalso. apply Hb0. apply b2n_inj. exact E. }
      rewrite (N.add_comm 1). apply bytelen_unique; [nia|].
      rewrite N.pow_add_r. change (256 ^ 1) with 256. nia. }
  unfold min_be. rewrite BL. unfold blen. rewrite Nat2N.id. apply be_from_be.
Qed.

(* ---- slices of  tag :: L ++ body ++ rest -------------------------------------------- *)

Lemma dropN_1_cons {A} (a : A) l : dropN 1 (a :: l) = l.
Proof. rewrite dropN_skipn. reflexivity. Qed.

Lemma skipn_add {A} a b (l : list A) : skipn (a + b) l = skipn b (skipn a l).
Proof.
  revert l. induction a as [|a IH]; intro l; [reflexivity|].
  destruct l as [|x l]; [cbn [Nat.add skipn]; symmetry; apply skipn_nil|]. cbn [Nat.add skipn]. apply IH.
Qed.

Lemma dropN_add {A} a b (l : list A) : dropN (a + b) l = dropN b (dropN a l).
Proof. rewrite !dropN_skipn. rewrite N2Nat.inj_add. apply skipn_add. Qed.

Lemma dropN_succ_cons {A} n (a : A) l : dropN (1 + n) (a :: l) = dropN n l.
Proof. rewrite dropN_add, dropN_1_cons. reflexivity. Qed.

Lemma slice_tlv (t : byte) (L body r : bytes) ll len :
  blen L = ll -> blen body = len ->
  slice (1 + ll) (1 + ll + len) (t :: L ++ body ++ r) = body /\
  dropN (1 + ll + len) (t :: L ++ body ++ r) = r.
Proof.
  intros HL Hb. unfold slice.
  replace (1 + ll + len - (1 + ll)) with len by lia.
  rewrite <- N.add_assoc, !dropN_succ_cons.
  rewrite (dropN_add ll len), (dropN_app_exact' ll L _ HL).
  rewrite (dropN_app_exact' len body r Hb), (takeN_app_exact' len body r Hb). split; reflexivity.
Qed.

Lemma idx_0_cons b t : idx (b :: t) 0 = Ok (b2n b).
Proof. reflexivity. Qed.

Lemma idx_1_cons a b t : idx (a :: b :: t) 1 = Ok (b2n b).
Proof. reflexivity. Qed.

Lemma int_of_hex_cons b t : int_of_hex (b :: t) = Ok (from_be (b :: t)).
Proof. reflexivity. Qed.

(* ---- encode_length / read_length ------------------------------------------------------- *)

Definition LMAX : N := 256 ^ 127.

Lemma bytelen_le_127 l : l < LMAX -> bytelen l <= 127.
Proof. intro H. apply bytelen_le; [exact H | lia]. Qed.

Lemma encode_length_short l : l < 128 -> encode_length l = [n2b l].
Proof. intro H. unfold encode_length. apply N.ltb_lt in H. rewrite H. reflexivity. Qed.

Lemma encode_length_long l : 128 <= l ->
  encode_length l = n2b (N.lor 0x80 (bytelen l)) :: min_be l.
Proof.
  intro H. unfold encode_length. destruct (l <? 0x80) eqn:E; [apply N.ltb_lt in E; lia|].
  rewrite min_be_blen. reflexivity.
Qed.

Lemma encode_length_blen l : blen (encode_length l) = if l <? 128 then 1 else 1 + bytelen l.
Proof.
  unfold encode_length. change 0x80 with 128. destruct (l <? 128); [reflexivity|].
  rewrite blen_cons, min_be_blen. reflexivity.
Qed.

Lemma encode_length_blen_le l : l < LMAX -> 1 <= blen (encode_length l) <= 128.
Proof.
  intro H. rewrite encode_length_blen. pose proof (bytelen_le_127 l H). pose proof (bytelen_pos l).
  destruct (l <? 128); lia.
Qed.

Lemma read_length_long_form llen m tl r :
  blen (m :: tl) = llen -> llen < 128 -> b2n m <> 0 -> (llen = 1 -> 128 <= b2n m) ->
  read_length (n2b (128 + llen) :: (m :: tl) ++ r) = Ok (from_be (m :: tl), 1 + llen).
Proof.
  intros Hb Hl Hm H1. assert (1 <= llen) by (rewrite blen_cons in Hb; lia).
  unfold read_length.
  rewrite b2n_n2b_small by lia. rewrite land80_small by lia.
  destruct (128 + llen <? 128) eqn:E; [apply N.ltb_lt in E; lia|]. clear E.
  rewrite land7f. replace ((128 + llen) mod 128) with llen
    by (rewrite N.add_comm, <- (N.mul_1_l 128) at 1; rewrite N.mod_add by discriminate;
        symmetry; apply N.mod_small; lia).
  destruct (llen =? 0) eqn:E; [apply N.eqb_eq in E; lia|]. clear E.
  rewrite blen_app, Hb.
  destruct (llen + blen r <? llen) eqn:E; [apply N.ltb_lt in E; lia|]. clear E.
  cbn [app]. rewrite idx_1_cons. cbn [bind].
  destruct (b2n m =? 0) eqn:E; [apply N.eqb_eq in E; contradiction|]. clear E. cbn [orb].
  assert (C : ((llen =? 1) && (b2n m <? 128)) = false).
  { destruct (llen =? 1) eqn:E1; [|reflexivity]. cbn [andb]. apply N.eqb_eq in E1.
    apply N.ltb_ge. apply H1, E1. }
  rewrite C. unfold slice. replace (1 + llen - 1) with llen by lia. rewrite dropN_1_cons.
  change (m :: tl ++ r) with ((m :: tl) ++ r).
  rewrite (takeN_app_exact' llen (m :: tl) r Hb). rewrite int_of_hex_cons. reflexivity.
Qed.

Lemma read_length_encode l r : l < LMAX ->
  read_length (encode_length l ++ r) = Ok (l, blen (encode_length l)).
Proof.
  intro H. destruct (N.lt_ge_cases l 128) as [Hs|Hl].
  - rewrite encode_length_short by exact Hs. cbn [app read_length].
    rewrite b2n_n2b_small by lia. rewrite land80_small by lia.
    apply N.ltb_lt in Hs. rewrite Hs. rewrite land7f. apply N.ltb_lt in Hs.
    rewrite N.mod_small by exact Hs. reflexivity.
  - pose proof (bytelen_le_127 l H) as B127. pose proof (bytelen_pos l) as Bp.
    pose proof (msb_of_lt l) as ML. pose proof (msb_of_pos l ltac:(lia)) as MP.
    rewrite (encode_length_long l Hl). rewrite lor80_small by lia.
    rewrite blen_cons, min_be_blen.
    pose proof (min_be_blen l) as BL. pose proof (from_be_min_be l) as FB.
    rewrite (min_be_cons l) in BL, FB |- *.
    change ((n2b (128 + bytelen l) :: ?x) ++ r) with (n2b (128 + bytelen l) :: x ++ r).
    cbn [app]. 
    change (n2b (msb_of l) :: be (N.to_nat (bytelen l - 1)) l ++ r)
      with ((n2b (msb_of l) :: be (N.to_nat (bytelen l - 1)) l) ++ r).
    rewrite (read_length_long_form (bytelen l) _ _ r BL); [rewrite FB; reflexivity | lia | | ].
    + rewrite b2n_n2b_small by exact ML. lia.
    + intro E1. rewrite b2n_n2b_small by exact ML.
      assert (l < 256) by (pose proof (bytelen_bound l) as Bd; rewrite E1 in Bd; exact Bd).
      rewrite msb_of_small by assumption. exact Hl.
Qed.

(* the decoder is exact: what it accepts is the canonical encoding of what it returns *)
Lemma read_length_exact s l ll : read_length s = Ok (l, ll) ->
  l < LMAX /\ ll = blen (encode_length l) /\ exists r, s = encode_length l ++ r.
Proof.
  destruct s as [|b0 t]; [discriminate|]. unfold read_length.
  pose proof (b2n_lt b0) as Hb0.
  rewrite land80_small by exact Hb0. rewrite land7f.
  destruct (b2n b0 <? 128) eqn:E0.
  - apply N.ltb_lt in E0. intro H. inversion H; subst. rewrite N.mod_small by exact E0.
    split; [unfold LMAX; lia|]. rewrite encode_length_short by exact E0. rewrite n2b_b2n.
    split; [reflexivity|]. exists t. reflexivity.
  - apply N.ltb_ge in E0. set (llen := b2n b0 mod 128).
    assert (Hll : b2n b0 = 128 + llen).
    { unfold llen. pose proof (N.div_mod (b2n b0) 128 ltac:(discriminate)) as D.
      assert (b2n b0 / 128 = 1).
      { symmetry. apply (N.div_unique (b2n b0) 128 1 (b2n b0 - 128)); lia. }
      rewrite H in D. lia. }
    assert (Hl128 : llen < 128) by (apply N.mod_lt; discriminate).
    destruct (llen =? 0) eqn:E1; [discriminate|]. apply N.eqb_neq in E1.
    destruct (blen t <? llen) eqn:E2; [discriminate|]. apply N.ltb_ge in E2.
    destruct t as [|m t']; [change (blen (@nil byte)) with 0 in E2; lia|].
    rewrite idx_1_cons. cbn [bind].
    destruct (b2n m =? 0) eqn:E3; [discriminate|]. apply N.eqb_neq in E3. cbn [orb].
    destruct ((llen =? 1) && (b2n m <? 128)) eqn:E4; [discriminate|].
    unfold slice. replace (1 + llen - 1) with llen by lia. rewrite dropN_1_cons.
    set (u := takeN llen (m :: t')).
    assert (Hu : blen u = llen) by (unfold u; rewrite takeN_blen; lia).
    assert (Hsplit : m :: t' = u ++ dropN llen (m :: t')) by (unfold u; symmetry; apply takeN_dropN).
    assert (Hucons : exists u', u = m :: u').
    { unfold u. rewrite takeN_firstn. destruct (N.to_nat llen) eqn:En; [lia|]. cbn [firstn]. eexists; reflexivity. }
    destruct Hucons as [u' Hu'].
    rewrite Hu' at 1. rewrite int_of_hex_cons, <- Hu'. cbn [bind].
    intro H. inversion H; subst l ll. clear H.
    assert (Hm0 : m <> x00) by (intro Em; apply E3; rewrite Em; reflexivity).
    assert (Hmin : min_be (from_be u) = u) by (rewrite Hu'; apply min_be_from_be; right; exact Hm0).
    assert (Hbl : bytelen (from_be u) = llen) by (rewrite <- min_be_blen, Hmin; exact Hu).
    assert (Hlo : 128 <= from_be u).
    { rewrite Hu', from_be_cons. pose proof (b2n_lt m).
      destruct (N.eq_dec llen 1) as [L1|L1].
      - rewrite L1 in E4. cbn [N.eqb Pos.eqb andb] in E4. apply N.ltb_ge in E4.
        pose proof (pow256_pos (blen u')). nia.
      - assert (1 <= blen u') by (rewrite Hu', blen_cons in Hu; lia).
        assert (256 ^ 1 <= 256 ^ blen u') by (apply pow256_mono; assumption).
        change (256 ^ 1) with 256 in H1. nia. }
    split.
    { pose proof (from_be_lt u) as Lt. rewrite Hu in Lt.
      assert (256 ^ llen <= 256 ^ 127) by (apply pow256_mono; lia). unfold LMAX. lia. }
    rewrite (encode_length_long _ Hlo), Hbl, Hmin. rewrite blen_cons, Hu.
    split; [reflexivity|]. exists (dropN llen (m :: t')).
    rewrite lor80_small by exact Hl128. rewrite <- Hll, n2b_b2n. cbn [app]. f_equal. exact Hsplit.
Qed.

Lemma read_length_err s e : read_length s = Err e -> e = EUnexpectedDER.
Proof.
  destruct s as [|b0 t]; [intro H; inversion H; reflexivity|]. unfold read_length.
  destruct (N.land (b2n b0) 128 =? 0); [discriminate|].
  destruct (N.land (b2n b0) 127 =? 0) eqn:E1; [intro H; inversion H; reflexivity|].
  apply N.eqb_neq in E1.
  destruct (blen t <? N.land (b2n b0) 127) eqn:E2; [intro H; inversion H; reflexivity|].
  apply N.ltb_ge in E2.
  destruct t as [|m t']; [change (blen (@nil byte)) with 0 in E2; lia|].
  rewrite idx_1_cons. cbn [bind].
  destruct ((b2n m =? 0) || ((N.land (b2n b0) 127 =? 1) && (b2n m <? 128))); [intro H; inversion H; reflexivity|].
  unfold slice. replace (1 + N.land (b2n b0) 127 - 1) with (N.land (b2n b0) 127) by lia.
  rewrite dropN_1_cons.
  destruct (takeN (N.land (b2n b0) 127) (m :: t')) eqn:Et; [|discriminate].
  exfalso. assert (B : blen (takeN (N.land (b2n b0) 127) (m :: t')) = 0) by (rewrite Et; reflexivity).
  rewrite takeN_blen in B. lia.
Qed.

(* ---- tag-length-value ------------------------------------------------------------------ *)

Definition tlv (t : byte) (body : bytes) : bytes := t :: encode_length (blen body) ++ body.

Lemma tlv_app t body r : tlv t body ++ r = t :: encode_length (blen body) ++ body ++ r.
Proof. unfold tlv. cbn [app]. rewrite <- app_assoc. reflexivity. Qed.

Lemma tlv_blen t body : blen (tlv t body) = 1 + blen (encode_length (blen body)) + blen body.
Proof. unfold tlv. rewrite blen_cons, blen_app. lia. Qed.

(* what every remover sees on  tlv t body ++ r *)
Lemma tlv_parse t body r : blen body < LMAX ->
  let s := tlv t body ++ r in
  let ll := blen (encode_length (blen body)) in
  read_length (dropN 1 s) = Ok (blen body, ll) /\
  slice (1 + ll) (1 + ll + blen body) s = body /\
  dropN (1 + ll + blen body) s = r /\
  blen s = 1 + ll + blen body + blen r.
Proof.
  intro H. cbv zeta. rewrite tlv_app. rewrite dropN_1_cons.
  split; [apply read_length_encode; exact H|].
  destruct (slice_tlv t (encode_length (blen body)) body r _ _ eq_refl eq_refl) as [A B].
  split; [exact A|]. split; [exact B|].
  rewrite blen_cons, !blen_app. lia.
Qed.

(* inversion: a string whose header parses and whose announced length fits *)
Lemma tlv_invert t s' len ll : read_length s' = Ok (len, ll) -> len + 1 + ll <= blen (t :: s') ->
  let s := t :: s' in
  let body := slice (1 + ll) (1 + ll + len) s in
  blen body = len /\ len < LMAX /\ s = tlv t body ++ dropN (1 + ll + len) s.
Proof.
  intros HR HL. cbv zeta.
  destruct (read_length_exact _ _ _ HR) as [Hmax [Hll [r' Hs']]].
  subst s'. rewrite blen_cons, blen_app, <- Hll in HL.
  set (body := takeN len r'). set (rest := dropN len r').
  assert (Hb : blen body = len) by (unfold body; rewrite takeN_blen; lia).
  assert (Hr : r' = body ++ rest) by (symmetry; apply takeN_dropN).
  rewrite Hr.
  destruct (slice_tlv t (encode_length len) body rest ll len (eq_sym Hll) Hb) as [A B].
  rewrite A, B. split; [exact Hb|]. split; [exact Hmax|].
  rewrite tlv_app, Hb. reflexivity.
Qed.

(* without the length test (remove_octet_string, remove_constructed, remove_bitstring):
   the body is whatever is left, at most len bytes *)
Lemma tlv_invert_nocheck t s' len ll : read_length s' = Ok (len, ll) ->
  let s := t :: s' in
  exists r', s = t :: encode_length len ++ r' /\ len < LMAX /\ ll = blen (encode_length len) /\
    slice (1 + ll) (1 + ll + len) s = takeN len r' /\ dropN (1 + ll + len) s = dropN len r'.
Proof.
  intro HR. cbv zeta.
  destruct (read_length_exact _ _ _ HR) as [Hmax [Hll [r' Hs']]].
  exists r'. subst s'. split; [reflexivity|]. split; [exact Hmax|]. split; [exact Hll|].
  unfold slice. replace (1 + ll + len - (1 + ll)) with len by lia.
  rewrite <- N.add_assoc, !dropN_succ_cons, (dropN_add ll len).
  rewrite (dropN_app_exact' ll _ _ (eq_sym Hll)). split; reflexivity.
Qed.

Lemma firstn_blen_lt {A} k (l : list A) : (k < length l)%nat -> blen (firstn k l) = N.of_nat k.
Proof. intro H. unfold blen. rewrite firstn_length. lia. Qed.

(* a proper prefix of an encoded length never parses *)
Lemma read_length_prefix l j : l < LMAX -> (j < length (encode_length l))%nat ->
  read_length (firstn j (encode_length l)) = Err EUnexpectedDER.
Proof.
  intros H Hj. destruct j as [|j]; [reflexivity|].
  destruct (N.lt_ge_cases l 128) as [Hs|Hl].
  - rewrite encode_length_short in Hj by exact Hs. cbn [length] in Hj. lia.
  - pose proof (bytelen_le_127 l H) as B127. pose proof (bytelen_pos l) as Bp.
    rewrite (encode_length_long l Hl) in *. rewrite lor80_small by lia.
    cbn [length] in Hj. cbn [firstn]. unfold read_length.
    rewrite b2n_n2b_small by lia. rewrite land80_small by lia.
    destruct (128 + bytelen l <? 128) eqn:E; [apply N.ltb_lt in E; lia|]. clear E.
    rewrite land7f. replace ((128 + bytelen l) mod 128) with (bytelen l)
      by (rewrite N.add_comm, <- (N.mul_1_l 128) at 1; rewrite N.mod_add by discriminate;
          symmetry; apply N.mod_small; lia).
    destruct (bytelen l =? 0) eqn:E; [apply N.eqb_eq in E; lia|]. clear E.
    rewrite firstn_blen_lt by lia. rewrite min_be_length in Hj.
    destruct (N.of_nat j <? bytelen l) eqn:E; [reflexivity | apply N.ltb_ge in E; lia].
Qed.

(* every proper prefix of tlv t body: empty, or the header does not parse, or the
   announced length exceeds what is there *)
Lemma tlv_prefix t body k : blen body < LMAX -> (k < length (tlv t body))%nat ->
  firstn k (tlv t body) = [] \/
  exists q, firstn k (tlv t body) = t :: q /\
    (read_length q = Err EUnexpectedDER \/
     exists ll, read_length q = Ok (blen body, ll) /\ blen (t :: q) < blen body + 1 + ll).
Proof.
  intros H Hk. destruct k as [|k]; [left; reflexivity|]. right.
  unfold tlv in *. cbn [firstn length] in *.
  set (L := encode_length (blen body)) in *.
  exists (firstn k (L ++ body)). split; [reflexivity|].
  rewrite app_length in Hk.
  destruct (Nat.lt_ge_cases k (length L)) as [Hlt|Hge].
  - left. rewrite firstn_app. replace (k - length L)%nat with 0%nat by lia.
    cbn [firstn]. rewrite app_nil_r. apply read_length_prefix; assumption.
  - right. exists (blen L). rewrite firstn_app, firstn_all2 by lia.
    split; [apply read_length_encode; exact H|].
    rewrite blen_cons, blen_app. rewrite firstn_blen_lt by lia. unfold blen. lia.
Qed.

(* ---- sequences ----------------------------------------------------------------------------- *)

Lemma encode_sequence_tlv ps : encode_sequence ps = tlv x30 (concat ps).
Proof. reflexivity. Qed.

Lemma remove_sequence_tlv body r : blen body < LMAX ->
  remove_sequence (tlv x30 body ++ r) = Ok (body, r).
Proof.
  intro H. destruct (tlv_parse x30 body r H) as [A [B [C D]]].
  unfold remove_sequence. rewrite tlv_app. rewrite tlv_app in A, B, C, D.
  cbn [byte_eqb Byte.eqb negb]. change (negb (byte_eqb x30 x30)) with false. cbv iota.
  rewrite A. cbn [bind]. rewrite D.
  destruct (_ <? _) eqn:E; [apply N.ltb_lt in E; lia|]. rewrite B, C. reflexivity.
Qed.

Lemma remove_sequence_encode ps r : blen (concat ps) < LMAX ->
  remove_sequence (encode_sequence ps ++ r) = Ok (concat ps, r).
Proof. intro H. rewrite encode_sequence_tlv. apply remove_sequence_tlv, H. Qed.

Lemma remove_sequence_exact s body r : remove_sequence s = Ok (body, r) ->
  blen body < LMAX /\ s = encode_sequence [body] ++ r.
Proof.
  destruct s as [|b0 s']; [discriminate|]. unfold remove_sequence.
  destruct (byte_eqb b0 x30) eqn:E0; [|discriminate]. apply byte_eqb_eq in E0. subst b0.
  cbn [negb]. rewrite dropN_1_cons.
  destruct (read_length s') as [[len ll]|e] eqn:ER; [|discriminate]. cbn [bind].
  destruct (_ <? _) eqn:EL; [discriminate|]. apply N.ltb_ge in EL.
  intro H. apply ok_pair_inj in H. destruct H as [<- <-].
  destruct (tlv_invert x30 s' len ll ER EL) as [Hb [Hm Hs]].
  split; [rewrite Hb; exact Hm|].
  rewrite encode_sequence_tlv. cbn [concat]. rewrite app_nil_r. exact Hs.
Qed.

Lemma remove_sequence_err s e : remove_sequence s = Err e -> e = EUnexpectedDER.
Proof.
  destruct s as [|b0 s']; [intro H; inversion H; reflexivity|]. unfold remove_sequence.
  destruct (negb (byte_eqb b0 x30)); [intro H; inversion H; reflexivity|].
  destruct (read_length (dropN 1 (b0 :: s'))) as [[len ll]|e'] eqn:ER.
  - cbn [bind]. destruct (_ <? _); [intro H; inversion H; reflexivity | discriminate].
  - cbn [bind]. intro H. inversion H; subst. eapply read_length_err; eassumption.
Qed.

(* truncation: every proper prefix of an encoded sequence is rejected *)
Lemma remove_sequence_prefix body k : blen body < LMAX -> (k < length (tlv x30 body))%nat ->
  remove_sequence (firstn k (tlv x30 body)) = Err EUnexpectedDER.
Proof.
  intros H Hk. destruct (tlv_prefix x30 body k H Hk) as [E|[q [E [R|[ll [R B]]]]]]; rewrite E.
  - reflexivity.
  - unfold remove_sequence. change (negb (byte_eqb x30 x30)) with false. cbv iota.
    rewrite dropN_1_cons, R. reflexivity.
  - unfold remove_sequence. change (negb (byte_eqb x30 x30)) with false. cbv iota.
    rewrite dropN_1_cons, R. cbn [bind]. apply N.ltb_lt in B. rewrite B. reflexivity.
Qed.

(* ---- octet strings --------------------------------------------------------------------------- *)

Lemma encode_octet_string_tlv s : encode_octet_string s = tlv x04 s.
Proof. reflexivity. Qed.

Lemma remove_octet_string_tlv body r : blen body < LMAX ->
  remove_octet_string (tlv x04 body ++ r) = Ok (body, r).
Proof.
  intro H. destruct (tlv_parse x04 body r H) as [A [B [C D]]].
  unfold remove_octet_string. rewrite tlv_app. rewrite tlv_app in A, B, C, D.
  change (negb (byte_eqb x04 x04)) with false. cbv iota.
  rewrite A. cbn [bind]. rewrite D.
  destruct (_ <? _) eqn:E; [apply N.ltb_lt in E; lia|]. rewrite B, C. reflexivity.
Qed.

Lemma remove_octet_string_encode s r : blen s < LMAX ->
  remove_octet_string (encode_octet_string s ++ r) = Ok (s, r).
Proof. intro H. rewrite encode_octet_string_tlv. apply remove_octet_string_tlv, H. Qed.

Lemma remove_octet_string_exact s body r : remove_octet_string s = Ok (body, r) ->
  blen body < LMAX /\ s = encode_octet_string body ++ r.
Proof.
  destruct s as [|b0 s']; [discriminate|]. unfold remove_octet_string.
  destruct (byte_eqb b0 x04) eqn:E0; [|discriminate]. apply byte_eqb_eq in E0. subst b0.
  cbn [negb]. rewrite dropN_1_cons.
  destruct (read_length s') as [[len ll]|e] eqn:ER; [|discriminate]. cbn [bind].
  destruct (_ <? _) eqn:EL; [discriminate|]. apply N.ltb_ge in EL.
  intro H. apply ok_pair_inj in H. destruct H as [<- <-].
  destruct (tlv_invert x04 s' len ll ER EL) as [Hb [Hm Hs]].
  split; [rewrite Hb; exact Hm|]. rewrite encode_octet_string_tlv. exact Hs.
Qed.

Lemma remove_octet_string_err s e : remove_octet_string s = Err e -> e = EUnexpectedDER.
Proof.
  destruct s as [|b0 s']; [intro H; inversion H; reflexivity|]. unfold remove_octet_string.
  destruct (negb (byte_eqb b0 x04)); [intro H; inversion H; reflexivity|].
  destruct (read_length (dropN 1 (b0 :: s'))) as [[len ll]|e'] eqn:ER; cbn [bind].
  - destruct (_ <? _); [intro H; inversion H; reflexivity | discriminate].
  - intro H. apply err_inj in H. subst. eapply read_length_err; eassumption.
Qed.

Lemma remove_octet_string_prefix body k : blen body < LMAX -> (k < length (tlv x04 body))%nat ->
  remove_octet_string (firstn k (tlv x04 body)) = Err EUnexpectedDER.
Proof.
  intros H Hk. destruct (tlv_prefix x04 body k H Hk) as [E|[q [E [R|[ll [R B]]]]]]; rewrite E.
  - reflexivity.
  - unfold remove_octet_string. change (negb (byte_eqb x04 x04)) with false. cbv iota.
    rewrite dropN_1_cons, R. reflexivity.
  - unfold remove_octet_string. change (negb (byte_eqb x04 x04)) with false. cbv iota.
    rewrite dropN_1_cons, R. cbn [bind]. apply N.ltb_lt in B. rewrite B. reflexivity.
Qed.

(* ---- constructed ---------------------------------------------------------------------------- *)

Lemma encode_constructed_ok tag v : tag <= 31 ->
  encode_constructed tag v = Ok (tlv (n2b (0xA0 + tag)) v).
Proof.
  intro H. unfold encode_constructed, to_bytes.
  destruct (0xA0 + tag <? 256 ^ N.of_nat 1) eqn:E; [|apply N.ltb_ge in E; change (256 ^ N.of_nat 1) with 256 in E; lia].
  cbn [bind]. rewrite be_1. reflexivity.
Qed.

Lemma land_e0_tag tag : tag <= 31 -> N.land (0xA0 + tag) 0xE0 = 0xA0 /\ N.land (0xA0 + tag) 0x1F = tag.
Proof.
  intro H.
  assert (S : forall x, x < 32 -> ((N.land (0xA0 + x) 0xE0 =? 0xA0) && (N.land (0xA0 + x) 0x1F =? x)) = true).
  { apply (sweep (fun x => (N.land (0xA0 + x) 0xE0 =? 0xA0) && (N.land (0xA0 + x) 0x1F =? x))). vm_compute. reflexivity. }
  specialize (S tag ltac:(lia)). apply andb_true_iff in S. destruct S as [A B].
  apply N.eqb_eq in A, B. split; assumption.
Qed.

(* a byte whose top three bits are 101 is 0xA0 + its low five bits *)
Lemma land_e0_inv n : n < 256 -> N.land n 0xE0 = 0xA0 -> N.land n 0x1F <= 31 /\ n = 0xA0 + N.land n 0x1F.
Proof.
  intros H E.
  assert (S : forall x, x < 256 -> (negb (N.land x 0xE0 =? 0xA0) || ((N.land x 0x1F <=? 31) && (x =? 0xA0 + N.land x 0x1F))) = true).
  { apply (sweep (fun x => negb (N.land x 0xE0 =? 0xA0) || ((N.land x 0x1F <=? 31) && (x =? 0xA0 + N.land x 0x1F)))). vm_compute. reflexivity. }
  specialize (S n H). apply N.eqb_eq in E. rewrite E in S. cbn [negb orb] in S.
  apply andb_true_iff in S. destruct S as [A B]. apply N.leb_le in A. apply N.eqb_eq in B. split; assumption.
Qed.

Lemma remove_constructed_tlv tag body r : tag <= 31 -> blen body < LMAX ->
  remove_constructed (tlv (n2b (0xA0 + tag)) body ++ r) = Ok (tag, body, r).
Proof.
  intros Ht H. destruct (tlv_parse (n2b (0xA0 + tag)) body r H) as [A [B [C D]]].
  unfold remove_constructed. rewrite tlv_app. rewrite tlv_app in A, B, C, D.
  rewrite idx_0_cons. cbn [bind]. rewrite b2n_n2b_small by lia.
  destruct (land_e0_tag tag Ht) as [L1 L2]. rewrite L1, L2.
  change (negb (0xA0 =? 0xA0)) with false. cbv iota.
  rewrite A. cbn [bind]. rewrite D.
  destruct (_ <? _) eqn:E; [apply N.ltb_lt in E; lia|]. rewrite B, C. reflexivity.
Qed.

Lemma remove_constructed_exact s tag body r : remove_constructed s = Ok (tag, body, r) ->
  tag <= 31 /\ blen body < LMAX /\ s = tlv (n2b (0xA0 + tag)) body ++ r.
Proof.
  destruct s as [|b0 s']; [discriminate|]. unfold remove_constructed.
  rewrite idx_0_cons. cbn [bind].
  destruct (N.land (b2n b0) 224 =? 160) eqn:E0; [|discriminate]. apply N.eqb_eq in E0. cbn [negb].
  rewrite dropN_1_cons.
  destruct (read_length s') as [[len ll]|e] eqn:ER; [|discriminate]. cbn [bind].
  destruct (_ <? _) eqn:EL; [discriminate|]. apply N.ltb_ge in EL.
  intro H. apply ok_pair_inj in H. destruct H as [H <-]. apply ok_pair_inj_pair in H. destruct H as [<- <-].
  destruct (tlv_invert b0 s' len ll ER EL) as [Hb [Hm Hs]].
  destruct (land_e0_inv (b2n b0) (b2n_lt b0) E0) as [Ht Hv].
  split; [exact Ht|]. split; [rewrite Hb; exact Hm|].
  rewrite <- Hv, n2b_b2n. exact Hs.
Qed.

Lemma remove_constructed_err s e : remove_constructed s = Err e -> e = EUnexpectedDER.
Proof.
  destruct s as [|b0 s']; [intro H; inversion H; reflexivity|]. unfold remove_constructed.
  rewrite idx_0_cons. cbn [bind].
  destruct (negb (N.land (b2n b0) 224 =? 160)); [intro H; inversion H; reflexivity|].
  destruct (read_length (dropN 1 (b0 :: s'))) as [[len ll]|e'] eqn:ER; cbn [bind].
  - destruct (_ <? _); [intro H; inversion H; reflexivity | discriminate].
  - intro H. apply err_inj in H. subst. eapply read_length_err; eassumption.
Qed.

Lemma remove_constructed_prefix tag body k : tag <= 31 -> blen body < LMAX ->
  (k < length (tlv (n2b (0xA0 + tag)) body))%nat ->
  remove_constructed (firstn k (tlv (n2b (0xA0 + tag)) body)) = Err EUnexpectedDER.
Proof.
  intros Ht H Hk. destruct (land_e0_tag tag Ht) as [L1 _].
  destruct (tlv_prefix (n2b (0xA0 + tag)) body k H Hk) as [E|[q [E [R|[ll [R B]]]]]]; rewrite E.
  - reflexivity.
  - unfold remove_constructed. rewrite idx_0_cons. cbn [bind]. rewrite b2n_n2b_small by lia. rewrite L1.
    change (negb (0xA0 =? 0xA0)) with false. cbv iota. rewrite dropN_1_cons, R. reflexivity.
  - unfold remove_constructed. rewrite idx_0_cons. cbn [bind]. rewrite b2n_n2b_small by lia. rewrite L1.
    change (negb (0xA0 =? 0xA0)) with false. cbv iota. rewrite dropN_1_cons, R. cbn [bind].
    apply N.ltb_lt in B. rewrite B. reflexivity.
Qed.

(* ---- integers ---------------------------------------------------------------------------------- *)

Definition int_body (r : N) : bytes :=
  if msb_of r <=? 0x7F then min_be r else x00 :: min_be r.

Lemma encode_integer_tlv r : encode_integer r = tlv x02 (int_body r).
Proof.
  unfold encode_integer, int_body. rewrite (min_be_cons r) at 1.
  rewrite b2n_n2b_small by apply msb_of_lt.
  destruct (msb_of r <=? 127); unfold tlv; cbn [app].
  - reflexivity.
  - rewrite blen_cons, (N.add_comm 1). reflexivity.
Qed.

Lemma int_body_blen r : blen (int_body r) = if msb_of r <=? 0x7F then bytelen r else 1 + bytelen r.
Proof.
  unfold int_body. destruct (msb_of r <=? 127); [|rewrite blen_cons]; rewrite min_be_blen; reflexivity.
Qed.

Lemma int_body_blen_le r : blen (int_body r) <= 1 + bytelen r.
Proof. rewrite int_body_blen. destruct (msb_of r <=? 127); lia. Qed.

Lemma remove_integer_tlv r rest : blen (int_body r) < LMAX ->
  remove_integer (tlv x02 (int_body r) ++ rest) = Ok (r, rest).
Proof.
  intro H. destruct (tlv_parse x02 (int_body r) rest H) as [A [B [C D]]].
  unfold remove_integer. rewrite tlv_app. rewrite tlv_app in A, B, C, D.
  change (negb (byte_eqb x02 x02)) with false. cbv iota.
  rewrite A. cbn [bind]. rewrite D.
  destruct (_ <? _) eqn:E; [apply N.ltb_lt in E; lia|]. clear E.
  pose proof (bytelen_pos r) as Bp. pose proof (msb_of_lt r) as ML.
  assert (Hlen : 1 <= blen (int_body r)) by (rewrite int_body_blen; destruct (msb_of r <=? 127); lia).
  destruct (blen (int_body r) =? 0) eqn:E; [apply N.eqb_eq in E; lia|]. clear E.
  rewrite B, C. clear A B C D.
  pose proof (min_be_cons r) as MC. pose proof (from_be_min_be r) as FB. pose proof (min_be_blen r) as BL.
  unfold int_body in *. destruct (min_be r) as [|m tl]; [discriminate MC|].
  injection MC as Em _.
  assert (Hbm : b2n m = msb_of r) by (rewrite Em; apply b2n_n2b_small, ML).
  destruct (msb_of r <=? 127) eqn:EM.
  - apply N.leb_le in EM. rewrite idx_0_cons. cbn [bind]. rewrite Hbm.
    destruct (msb_of r <? 128) eqn:E; [|apply N.ltb_ge in E; lia]. clear E. cbn [negb].
    assert (C : ((1 <? blen (m :: tl)) && (msb_of r =? 0)) = false).
    { destruct (msb_of r =? 0) eqn:E0; [|apply andb_false_r]. apply N.eqb_eq in E0.
      assert (r = 0). { destruct (N.eq_dec r 0); [assumption|]. pose proof (msb_of_pos r ltac:(lia)). lia. }
      rewrite BL, H0. reflexivity. }
    rewrite C. cbn [bind]. rewrite int_of_hex_cons, FB. reflexivity.
  - apply N.leb_gt in EM. rewrite idx_0_cons. cbn [bind]. change (b2n x00) with 0.
    change (negb (0 <? 128)) with false. cbv iota.
    rewrite blen_cons, BL.
    destruct (1 <? 1 + bytelen r) eqn:E; [|apply N.ltb_ge in E; lia]. clear E.
    change ((true && (0 =? 0))) with true. cbv iota.
    rewrite idx_1_cons. cbn [bind]. rewrite Hbm.
    destruct (msb_of r <? 128) eqn:E; [apply N.ltb_lt in E; lia|]. clear E. cbn [bind].
    rewrite int_of_hex_cons, from_be_cons. change (b2n x00) with 0. rewrite N.mul_0_l, N.add_0_l.
    rewrite FB. reflexivity.
Qed.

Lemma remove_integer_encode r rest : 1 + bytelen r < LMAX ->
  remove_integer (encode_integer r ++ rest) = Ok (r, rest).
Proof.
  intro H. rewrite encode_integer_tlv. apply remove_integer_tlv.
  pose proof (int_body_blen_le r). lia.
Qed.

Lemma remove_integer_exact s v rest : remove_integer s = Ok (v, rest) ->
  1 + bytelen v < LMAX + 1 /\ s = encode_integer v ++ rest.
Proof.
  destruct s as [|b0 s']; [discriminate|]. unfold remove_integer.
  destruct (byte_eqb b0 x02) eqn:E0; [|discriminate]. apply byte_eqb_eq in E0. subst b0.
  cbn [negb]. rewrite dropN_1_cons.
  destruct (read_length s') as [[len ll]|e] eqn:ER; [|discriminate]. cbn [bind].
  destruct (_ <? _) eqn:EL; [discriminate|]. apply N.ltb_ge in EL.
  destruct (len =? 0) eqn:E0; [discriminate|]. apply N.eqb_neq in E0.
  destruct (tlv_invert x02 s' len ll ER EL) as [Hb [Hm Hs]].
  set (body := slice (1 + ll) (1 + ll + len) (x02 :: s')) in *.
  set (rst := dropN (1 + ll + len) (x02 :: s')) in *.
  destruct body as [|c0 t] eqn:Eb; [change (blen (@nil byte)) with 0 in Hb; lia|].
  rewrite idx_0_cons. cbn [bind].
  destruct (b2n c0 <? 128) eqn:E1; [|discriminate]. apply N.ltb_lt in E1. cbn [negb].
  assert (Goal : forall (Hv : int_body (from_be (c0 :: t)) = c0 :: t),
     1 + bytelen (from_be (c0 :: t)) < LMAX + 1 /\
     x02 :: s' = encode_integer (from_be (c0 :: t)) ++ rst).
  { intro Hv. split.
    - pose proof (int_body_blen (from_be (c0 :: t))) as IB. rewrite Hv, Hb in IB.
      destruct (msb_of (from_be (c0 :: t)) <=? 127); lia.
    - rewrite encode_integer_tlv, Hv. exact Hs. }
  destruct ((1 <? len) && (b2n c0 =? 0)) eqn:E2.
  - apply andb_true_iff in E2. destruct E2 as [E2 E3]. apply N.ltb_lt in E2. apply N.eqb_eq in E3.
    destruct t as [|m t']; [rewrite blen_cons in Hb; change (blen (@nil byte)) with 0 in Hb; lia|].
    rewrite idx_1_cons. cbn [bind].
    destruct (b2n m <? 128) eqn:E4; [discriminate|]. apply N.ltb_ge in E4. cbn [bind].
    rewrite int_of_hex_cons. intro H. apply ok_pair_inj in H. destruct H as [<- <-].
    apply Goal.
    assert (c0 = x00) by (apply b2n_inj; rewrite E3; reflexivity). subst c0.
    rewrite from_be_cons. change (b2n x00) with 0. rewrite N.mul_0_l, N.add_0_l.
    assert (Hm0 : m <> x00) by (intro Em; subst m; change (b2n x00) with 0 in E4; lia).
    pose proof (min_be_from_be m t' (or_intror Hm0)) as Hmin.
    assert (Hmsb : msb_of (from_be (m :: t')) = b2n m).
    { pose proof (min_be_cons (from_be (m :: t'))) as MC. rewrite Hmin in MC.
      injection MC as MC _. apply (f_equal b2n) in MC.
      rewrite b2n_n2b_small in MC by apply msb_of_lt. symmetry. exact MC. }
    unfold int_body. rewrite Hmsb.
    destruct (b2n m <=? 127) eqn:E5; [apply N.leb_le in E5; lia|]. rewrite Hmin. reflexivity.
  - cbn [bind]. rewrite int_of_hex_cons. intro H. apply ok_pair_inj in H. destruct H as [<- <-].
    apply Goal.
    assert (Hc : t = [] \/ c0 <> x00).
    { apply andb_false_iff in E2. destruct E2 as [E2|E2].
      - left. apply N.ltb_ge in E2. rewrite blen_cons in Hb. destruct t; [reflexivity|].
        rewrite blen_cons in Hb. lia.
      - right. apply N.eqb_neq in E2. intro Ec. subst c0. apply E2. reflexivity. }
    pose proof (min_be_from_be c0 t Hc) as Hmin.
    assert (Hmsb : msb_of (from_be (c0 :: t)) = b2n c0).
    { pose proof (min_be_cons (from_be (c0 :: t))) as MC. rewrite Hmin in MC.
      injection MC as MC _. apply (f_equal b2n) in MC.
      rewrite b2n_n2b_small in MC by apply msb_of_lt. symmetry. exact MC. }
    unfold int_body. rewrite Hmsb.
    destruct (b2n c0 <=? 127) eqn:E5; [|apply N.leb_gt in E5; lia]. exact Hmin.
Qed.

Lemma remove_integer_err s e : remove_integer s = Err e -> e = EUnexpectedDER.
Proof.
  destruct s as [|b0 s']; [intro H; inversion H; reflexivity|]. unfold remove_integer.
  destruct (negb (byte_eqb b0 x02)); [intro H; inversion H; reflexivity|].
  rewrite dropN_1_cons.
  destruct (read_length s') as [[len ll]|e'] eqn:ER; cbn [bind];
    [|intro H; apply err_inj in H; subst; eapply read_length_err; eassumption].
  destruct (_ <? _) eqn:EL; [intro H; inversion H; reflexivity|]. apply N.ltb_ge in EL.
  destruct (len =? 0) eqn:E0; [intro H; inversion H; reflexivity|]. apply N.eqb_neq in E0.
  destruct (tlv_invert b0 s' len ll ER EL) as [Hb [Hm Hs]].
  destruct (slice (1 + ll) (1 + ll + len) (b0 :: s')) as [|c0 t] eqn:Eb;
    [change (blen (@nil byte)) with 0 in Hb; lia|].
  rewrite idx_0_cons. cbn [bind].
  destruct (negb (b2n c0 <? 128)); [intro H; inversion H; reflexivity|].
  destruct ((1 <? len) && (b2n c0 =? 0)) eqn:E2.
  - apply andb_true_iff in E2. destruct E2 as [E2 _]. apply N.ltb_lt in E2.
    destruct t as [|m t']; [rewrite blen_cons in Hb; change (blen (@nil byte)) with 0 in Hb; lia|].
    rewrite idx_1_cons. cbn [bind].
    destruct (b2n m <? 128); [intro H; inversion H; reflexivity|]. cbn [bind]. discriminate.
  - cbn [bind]. discriminate.
Qed.

Lemma remove_integer_prefix r k : blen (int_body r) < LMAX -> (k < length (tlv x02 (int_body r)))%nat ->
  remove_integer (firstn k (tlv x02 (int_body r))) = Err EUnexpectedDER.
Proof.
  intros H Hk. destruct (tlv_prefix x02 _ k H Hk) as [E|[q [E [R|[ll [R B]]]]]]; rewrite E.
  - reflexivity.
  - unfold remove_integer. change (negb (byte_eqb x02 x02)) with false. cbv iota.
    rewrite dropN_1_cons, R. reflexivity.
  - unfold remove_integer. change (negb (byte_eqb x02 x02)) with false. cbv iota.
    rewrite dropN_1_cons, R. cbn [bind]. apply N.ltb_lt in B. rewrite B. reflexivity.
Qed.

(* ---- base-128 numbers (OID sub-identifiers) --------------------------------------------------- *)

Lemma pos_size_nat_bound p : N.pos p < 2 ^ N.of_nat (Pos.size_nat p).
Proof.
  induction p as [p IH|p IH|]; cbn [Pos.size_nat]; rewrite ?Nat2N.inj_succ, ?N.pow_succ_r'; lia.
Qed.

Lemma size_nat_bound m : m < 2 ^ N.of_nat (N.size_nat m).
Proof. destruct m as [|p]; [reflexivity | apply pos_size_nat_bound]. Qed.

Lemma b128_hi_0 f : b128_hi f 0 = [].
Proof. destruct f; reflexivity. Qed.

Lemma b128_hi_step f m : m <> 0 ->
  b128_hi (S f) m = b128_hi f (m / 128) ++ [n2b (128 + m mod 128)].
Proof. intro H. cbn [b128_hi]. apply N.eqb_neq in H. rewrite H. reflexivity. Qed.

Lemma div128_fuel f m : m < 2 ^ N.of_nat (S f) -> m / 128 < 2 ^ N.of_nat f.
Proof.
  intro H. rewrite Nat2N.inj_succ, N.pow_succ_r' in H.
  apply N.div_lt_upper_bound; [discriminate|]. lia.
Qed.

Definition hibit (b : byte) : Prop := 128 <= b2n b.

Lemma land80_hibit d : (N.land (b2n d) 0x80 =? 0) = (b2n d <? 128).
Proof. apply land80_small, b2n_lt. Qed.

Lemma read_number_loop_hi f : forall m tail k, m < 2 ^ N.of_nat f ->
  read_number_loop (b128_hi f m ++ tail) 0 k = read_number_loop tail m (k + blen (b128_hi f m)).
Proof.
  induction f as [|f IH]; intros m tail k H.
  - change (2 ^ N.of_nat 0) with 1 in H. assert (m = 0) by lia. subst m.
    rewrite b128_hi_0. cbn [app]. change (blen (@nil byte)) with 0. rewrite N.add_0_r. reflexivity.
  - destruct (N.eq_dec m 0) as [->|Hm].
    + rewrite b128_hi_0. cbn [app]. change (blen (@nil byte)) with 0. rewrite N.add_0_r. reflexivity.
    + rewrite (b128_hi_step f m Hm), <- app_assoc. cbn [app].
      rewrite IH by (apply div128_fuel; exact H).
      cbn [read_number_loop]. pose proof (N.mod_lt m 128 ltac:(discriminate)) as ML.
      pose proof (N.div_mod m 128 ltac:(discriminate)) as DM.
      rewrite blen_app. change (blen [n2b (128 + m mod 128)]) with 1.
      set (q := m / 128) in *. set (lo := m mod 128) in *. clearbody lo.
      rewrite b2n_n2b_small by lia. rewrite land80_small by lia.
      destruct (128 + lo <? 128) eqn:E; [apply N.ltb_lt in E; lia|]. clear E.
      rewrite land7f.
      replace ((128 + lo) mod 128) with lo
        by (rewrite N.add_comm, <- (N.mul_1_l 128) at 1; rewrite N.mod_add by discriminate;
            symmetry; apply N.mod_small; exact ML).
      f_equal; lia.
Qed.

Lemma b128_hi_head f : forall m, m <> 0 -> m < 2 ^ N.of_nat f ->
  exists d tl, b128_hi f m = n2b (128 + d) :: tl /\ 1 <= d < 128.
Proof.
  induction f as [|f IH]; intros m Hm H.
  - change (2 ^ N.of_nat 0) with 1 in H. lia.
  - rewrite (b128_hi_step f m Hm).
    destruct (N.eq_dec (m / 128) 0) as [E|E].
    + rewrite E, b128_hi_0. exists (m mod 128), []. split; [reflexivity|].
      pose proof (N.div_mod m 128 ltac:(discriminate)). pose proof (N.mod_lt m 128 ltac:(discriminate)). lia.
    + destruct (IH (m / 128) E (div128_fuel f m H)) as [d [tl [Hd Hr]]].
      exists d, (tl ++ [n2b (128 + m mod 128)]). rewrite Hd. split; [reflexivity | exact Hr].
Qed.

Lemma encode_number_fuel n : n / 128 < 2 ^ N.of_nat (N.size_nat n).
Proof.
  pose proof (size_nat_bound n). eapply N.le_lt_trans; [|eassumption].
  apply N.div_le_upper_bound; [discriminate|]. lia.
Qed.

Lemma encode_number_blen_pos n : 1 <= blen (encode_number n).
Proof. unfold encode_number. rewrite blen_app. change (blen [n2b (n mod 128)]) with 1. lia. Qed.

Lemma read_number_encode n r :
  read_number (encode_number n ++ r) = Ok (n, blen (encode_number n)).
Proof.
  pose proof (N.mod_lt n 128 ltac:(discriminate)) as ML.
  pose proof (N.div_mod n 128 ltac:(discriminate)) as DM.
  pose proof (encode_number_fuel n) as FU.
  unfold encode_number.
  set (q := n / 128) in *. set (lo := n mod 128) in *. clearbody lo.
  assert (Hloop : read_number_loop ((b128_hi (N.size_nat n) q ++ [n2b lo]) ++ r) 0 0
                  = Ok (n, blen (b128_hi (N.size_nat n) q ++ [n2b lo]))).
  { rewrite <- app_assoc. rewrite read_number_loop_hi by exact FU.
    cbn [app read_number_loop]. rewrite b2n_n2b_small by lia. rewrite land80_small by lia.
    destruct (lo <? 128) eqn:E; [|apply N.ltb_ge in E; lia]. clear E.
    rewrite land7f, N.mod_small by exact ML. rewrite blen_app.
    change (blen [n2b lo]) with 1. f_equal. f_equal; lia. }
  unfold read_number.
  assert (Hhead : exists b t, (b128_hi (N.size_nat n) q ++ [n2b lo]) ++ r = b :: t /\ b2n b <> 0x80).
  { destruct (N.eq_dec q 0) as [E|E].
    - rewrite E, b128_hi_0. cbn [app]. eexists _, _. split; [reflexivity|].
      rewrite b2n_n2b_small by lia. lia.
    - destruct (b128_hi_head _ _ E FU) as [d [tl [Hd Hr]]].
      rewrite Hd. cbn [app]. eexists _, _. split; [reflexivity|].
      rewrite b2n_n2b_small by lia. lia. }
  destruct Hhead as [b [t [Hs Hb]]]. rewrite Hs in *. rewrite idx_0_cons. cbn [bind].
  apply N.eqb_neq in Hb. rewrite Hb. exact Hloop.
Qed.

(* value of a run of continuation digits *)
Definition dec128 (pre : bytes) (acc : N) : N :=
  fold_left (fun a b => a * 128 + b2n b mod 128) pre acc.

Lemma dec128_app pre x acc : dec128 (pre ++ [x]) acc = dec128 pre acc * 128 + b2n x mod 128.
Proof. unfold dec128. rewrite fold_left_app. reflexivity. Qed.

Lemma dec128_pos pre : forall acc, 1 <= acc -> 1 <= dec128 pre acc.
Proof.
  induction pre as [|b t IH]; intros acc H; [exact H|].
  cbn [dec128 fold_left]. apply IH. generalize (b2n b mod 128). intro z. lia.
Qed.

Lemma read_number_loop_inv s : forall acc k v ll, read_number_loop s acc k = Ok (v, ll) ->
  exists pre d rest, s = pre ++ d :: rest /\ Forall hibit pre /\ b2n d < 128 /\
    ll = k + blen pre + 1 /\ v = dec128 pre acc * 128 + b2n d.
Proof.
  induction s as [|c t IH]; intros acc k v ll H; [discriminate|].
  cbn [read_number_loop] in H. rewrite land80_hibit, land7f in H.
  destruct (b2n c <? 128) eqn:E.
  - apply N.ltb_lt in E. apply ok_pair_inj in H. destruct H as [<- <-].
    exists [], c, t. rewrite N.mod_small by exact E. cbn [dec128 fold_left app]. change (blen (@nil byte)) with 0.
    repeat split; try constructor; try lia.
  - apply N.ltb_ge in E. apply IH in H. destruct H as [pre [d [rest [Hs [Hf [Hd [Hl Hv]]]]]]].
    exists (c :: pre), d, rest. subst t. split; [reflexivity|]. split; [constructor; assumption|].
    split; [exact Hd|]. rewrite blen_cons. split; [lia|]. exact Hv.
Qed.

(* continuation digits without a leading 0x80 are the canonical digits of their value *)
Lemma b128_hi_canonical pre : Forall hibit pre -> (forall b t, pre = b :: t -> b2n b <> 0x80) ->
  forall f, dec128 pre 0 < 2 ^ N.of_nat f -> b128_hi f (dec128 pre 0) = pre.
Proof.
  induction pre as [|x pre' IH] using rev_ind; intros Hf Hh f Hfuel.
  - apply b128_hi_0.
  - apply Forall_app in Hf. destruct Hf as [Hf' Hx]. inversion Hx as [|? ? Hx' _]; subst. unfold hibit in Hx'.
    pose proof (b2n_lt x) as Hxl.
    assert (Hxm : b2n x mod 128 = b2n x - 128).
    { symmetry. apply (N.mod_unique (b2n x) 128 1 (b2n x - 128)); lia. }
    rewrite dec128_app in *.
    set (hi := dec128 pre' 0) in *. set (lo := b2n x mod 128) in *.
    assert (Hlo : lo < 128) by (apply N.mod_lt; discriminate).
    assert (Hdiv : (hi * 128 + lo) / 128 = hi).
    { symmetry. apply (N.div_unique (hi * 128 + lo) 128 hi lo); lia. }
    assert (Hmod : (hi * 128 + lo) mod 128 = lo).
    { symmetry. apply (N.mod_unique (hi * 128 + lo) 128 hi lo); lia. }
    assert (Hnz : hi * 128 + lo <> 0).
    { destruct pre' as [|b t].
      - cbn [app] in Hh. specialize (Hh x [] eq_refl). unfold lo. lia.
      - assert (1 <= hi).
        { unfold hi. cbn [dec128 fold_left]. apply dec128_pos.
          inversion Hf' as [|? ? Hb _]; subst. unfold hibit in Hb.
          specialize (Hh b (t ++ [x]) eq_refl). pose proof (b2n_lt b).
          assert (b2n b mod 128 = b2n b - 128) by (symmetry; apply (N.mod_unique (b2n b) 128 1 (b2n b - 128)); lia).
          lia. }
        lia. }
    destruct f as [|f]; [change (2 ^ N.of_nat 0) with 1 in Hfuel; lia|].
    rewrite (b128_hi_step f _ Hnz), Hdiv, Hmod.
    rewrite IH.
    + f_equal. f_equal. rewrite Hxm. replace (128 + (b2n x - 128)) with (b2n x) by lia.
      apply n2b_b2n.
    + exact Hf'.
    + intros b t E. apply (Hh b (t ++ [x])). rewrite E. reflexivity.
    + rewrite <- Hdiv. apply div128_fuel. exact Hfuel.
Qed.

Lemma read_number_exact s n ll : read_number s = Ok (n, ll) ->
  ll = blen (encode_number n) /\ exists r, s = encode_number n ++ r.
Proof.
  unfold read_number. destruct s as [|c t]; [discriminate|]. rewrite idx_0_cons. cbn [bind].
  destruct (b2n c =? 128) eqn:E0; [discriminate|]. apply N.eqb_neq in E0.
  intro H. apply read_number_loop_inv in H.
  destruct H as [pre [d [rest [Hs [Hf [Hd [Hl Hv]]]]]]].
  rewrite N.add_0_l in Hl.
  assert (Hdiv : n / 128 = dec128 pre 0).
  { symmetry. apply (N.div_unique n 128 (dec128 pre 0) (b2n d)); lia. }
  assert (Hmod : n mod 128 = b2n d).
  { symmetry. apply (N.mod_unique n 128 (dec128 pre 0) (b2n d)); lia. }
  assert (Henc : encode_number n = pre ++ [d]).
  { unfold encode_number. rewrite Hmod, n2b_b2n, Hdiv. f_equal.
    apply b128_hi_canonical; [exact Hf | | rewrite <- Hdiv; apply encode_number_fuel].
    intros b t' E. rewrite E in Hs. cbn [app] in Hs. injection Hs as Hc _. subst c. exact E0. }
  rewrite Henc. split.
  - rewrite blen_app. change (blen [d]) with 1. exact Hl.
  - exists rest. rewrite <- app_assoc. exact Hs.
Qed.

Lemma read_number_err_cons b s e : read_number (b :: s) = Err e -> e = EUnexpectedDER.
Proof.
  unfold read_number. rewrite idx_0_cons. cbn [bind].
  destruct (b2n b =? 128); [intro H; inversion H; reflexivity|].
  generalize 0 at 1. generalize 0. generalize (b :: s). clear.
  intro l. induction l as [|c t IH]; intros a k H; [inversion H; reflexivity|].
  cbn [read_number_loop] in H. destruct (N.land (b2n c) 128 =? 0); [discriminate|]. eapply IH; eassumption.
Qed.

(* ---- object identifiers ---------------------------------------------------------------------------- *)

Lemma read_numbers_encode ns : forall f, (length ns <= f)%nat ->
  read_numbers f (concat (map encode_number ns)) = Ok ns.
Proof.
  induction ns as [|n ns IH]; intros f Hf; [destruct f; reflexivity|].
  cbn [map concat].
  destruct (encode_number n ++ concat (map encode_number ns)) as [|b t] eqn:E.
  - exfalso. pose proof (encode_number_blen_pos n) as P.
    assert (B : blen (encode_number n ++ concat (map encode_number ns)) = 0) by (rewrite E; reflexivity).
    rewrite blen_app in B. lia.
  - destruct f as [|f]; [cbn [length] in Hf; lia|].
    cbn [read_numbers]. rewrite <- E. rewrite read_number_encode. cbn [bind].
    rewrite dropN_app_exact. rewrite IH by (cbn [length] in Hf; lia). reflexivity.
Qed.

Lemma concat_encode_number_length ns : (length ns <= length (concat (map encode_number ns)))%nat.
Proof.
  induction ns as [|n ns IH]; [apply le_n|]. cbn [map concat length]. rewrite app_length.
  pose proof (encode_number_blen_pos n) as P. unfold blen in P. lia.
Qed.

Lemma read_numbers_exact f : forall body ns, read_numbers f body = Ok ns ->
  body = concat (map encode_number ns).
Proof.
  induction f as [|f IH]; intros body ns H.
  - destruct body; [inversion H; reflexivity | discriminate].
  - destruct body as [|b t]; [inversion H; reflexivity|].
    cbn [read_numbers] in H.
    destruct (read_number (b :: t)) as [[n ll]|e] eqn:ER; [|discriminate]. cbn [bind] in H.
    destruct (read_numbers f (dropN ll (b :: t))) as [rest|e] eqn:ERS; [|discriminate]. cbn [bind] in H.
    apply ok_inj in H. subst ns.
    destruct (read_number_exact _ _ _ ER) as [Hll [r Hs]].
    apply IH in ERS. rewrite Hs, Hll, dropN_app_exact in ERS. subst r.
    cbn [map concat]. exact Hs.
Qed.

Lemma read_numbers_err f : forall body e, (length body <= f)%nat ->
  read_numbers f body = Err e -> e = EUnexpectedDER.
Proof.
  induction f as [|f IH]; intros body e Hf H.
  - destruct body; [discriminate | cbn [length] in Hf; lia].
  - destruct body as [|b t]; [discriminate|]. cbn [read_numbers] in H.
    destruct (read_number (b :: t)) as [[n ll]|e'] eqn:ER.
    + cbn [bind] in H.
      destruct (read_numbers f (dropN ll (b :: t))) as [rest|e'] eqn:ERS; [discriminate|].
      cbn [bind] in H. apply err_inj in H. subst e'.
      apply (IH (dropN ll (b :: t))); [|exact ERS].
      destruct (read_number_exact _ _ _ ER) as [Hll _].
      pose proof (encode_number_blen_pos n) as P.
      assert (B : blen (dropN ll (b :: t)) = blen (b :: t) - N.min ll (blen (b :: t))) by apply dropN_blen.
      unfold blen in B at 1. unfold blen in B at 1. cbn [length] in *.
      rewrite blen_cons in B. unfold blen in B. lia.
    + cbn [bind] in H. apply err_inj in H. subst e'. eapply read_number_err_cons; eassumption.
Qed.

Lemma oid_first_second first second : oid_args_ok first second = true ->
  let n0 := 40 * first + second in
  (if n0 <? 80 then n0 / 40 else 2) = first /\
  n0 - 40 * (if n0 <? 80 then n0 / 40 else 2) = second.
Proof.
  unfold oid_args_ok. intro H. cbv zeta. apply orb_true_iff in H. destruct H as [H|H].
  - apply andb_true_iff in H. destruct H as [H1 H2]. apply N.ltb_lt in H1. apply N.leb_le in H2.
    destruct (40 * first + second <? 80) eqn:E; [|apply N.ltb_ge in E; lia].
    assert (D : (40 * first + second) / 40 = first).
    { symmetry. apply (N.div_unique _ 40 first second); lia. }
    rewrite D. split; [reflexivity | lia].
  - apply N.eqb_eq in H. subst first.
    destruct (40 * 2 + second <? 80) eqn:E; [apply N.ltb_lt in E; lia|]. split; [reflexivity | lia].
Qed.

Lemma remove_object_encode first second pieces r enc :
  encode_oid first second pieces = Ok enc -> blen (oid_body first second pieces) < LMAX ->
  remove_object (enc ++ r) = Ok (first :: second :: pieces, r).
Proof.
  unfold encode_oid. destruct (oid_args_ok first second) eqn:EA; [|discriminate].
  intros H HL. apply ok_inj in H. subst enc.
  set (body := oid_body first second pieces) in *.
  change ([x06] ++ encode_length (blen body) ++ body) with (tlv x06 body).
  destruct (tlv_parse x06 body r HL) as [A [B [C D]]].
  unfold remove_object. rewrite tlv_app. rewrite tlv_app in A, B, C.
  change (negb (byte_eqb x06 x06)) with false. cbv iota.
  rewrite A. cbn [bind]. rewrite B, C.
  assert (Hbody : body = concat (map encode_number ((40 * first + second) :: pieces))) by reflexivity.
  destruct body as [|b0 t] eqn:Eb.
  { exfalso. pose proof (encode_number_blen_pos (40 * first + second)) as P.
    assert (B0 : blen (concat (map encode_number ((40 * first + second) :: pieces))) = 0) by (rewrite <- Hbody; reflexivity).
    cbn [map concat] in B0. rewrite blen_app in B0. lia. }
  rewrite N.eqb_refl. cbn [negb]. rewrite Hbody at 2.
  rewrite read_numbers_encode.
  - cbn [bind]. destruct (oid_first_second first second EA) as [F S]. cbv zeta in F, S.
    rewrite S, F. reflexivity.
  - pose proof (concat_encode_number_length ((40 * first + second) :: pieces)). rewrite <- Hbody in H. lia.
Qed.

Lemma remove_object_exact s first second pieces r :
  remove_object s = Ok (first :: second :: pieces, r) ->
  exists enc, encode_oid first second pieces = Ok enc /\ s = enc ++ r.
Proof.
  destruct s as [|b0 s']; [discriminate|]. unfold remove_object.
  destruct (byte_eqb b0 x06) eqn:E0; [|discriminate]. apply byte_eqb_eq in E0. subst b0.
  cbn [negb]. rewrite dropN_1_cons.
  destruct (read_length s') as [[len ll]|e] eqn:ER; [|discriminate]. cbn [bind].
  destruct (tlv_invert_nocheck x06 s' len ll ER) as [r' [Hs [Hm [Hll [A B]]]]].
  rewrite A, B.
  destruct (takeN len r') as [|c t] eqn:Eb; [discriminate|].
  destruct (blen (c :: t) =? len) eqn:EL; [|discriminate]. apply N.eqb_eq in EL. cbn [negb].
  destruct (read_numbers (S (length (c :: t))) (c :: t)) as [nums|e] eqn:EN; [|discriminate].
  cbn [bind]. destruct nums as [|n0 tl]; [discriminate|].
  intro H. apply ok_pair_inj in H. destruct H as [H1 <-].
  apply cons2_inj in H1. destruct H1 as [Hf [Hsnd Htl]]. subst tl.
  apply read_numbers_exact in EN.
  assert (Hn0 : n0 = 40 * first + second /\ oid_args_ok first second = true).
  { subst first. unfold oid_args_ok. destruct (n0 <? 80) eqn:E.
    - apply N.ltb_lt in E. pose proof (N.div_mod n0 40 ltac:(discriminate)) as DM.
      pose proof (N.mod_lt n0 40 ltac:(discriminate)) as ML.
      assert (n0 / 40 < 2) by (apply N.div_lt_upper_bound; [discriminate | lia]).
      set (q := n0 / 40) in *. set (m := n0 mod 40) in *. clearbody q m.
      split; [lia|]. apply orb_true_iff. left. apply andb_true_iff. split; [apply N.ltb_lt | apply N.leb_le]; lia.
    - apply N.ltb_ge in E. split; [lia|]. apply orb_true_iff. right. reflexivity. }
  destruct Hn0 as [Hn0 Hok]. subst n0.
  unfold encode_oid. rewrite Hok. eexists. split; [reflexivity|].
  unfold oid_body. cbn [map concat] in EN. rewrite <- EN, EL.
  rewrite Hs. cbn [app]. rewrite <- app_assoc. f_equal. f_equal.
  rewrite <- Eb. symmetry. apply takeN_dropN.
Qed.

Lemma remove_object_err s e : remove_object s = Err e -> e = EUnexpectedDER.
Proof.
  destruct s as [|b0 s']; [intro H; inversion H; reflexivity|]. unfold remove_object.
  destruct (negb (byte_eqb b0 x06)); [intro H; inversion H; reflexivity|].
  destruct (read_length (dropN 1 (b0 :: s'))) as [[len ll]|e'] eqn:ER; cbn [bind];
    [|intro H; apply err_inj in H; subst; eapply read_length_err; eassumption].
  destruct (slice (1 + ll) (1 + ll + len) (b0 :: s')) as [|c t]; [intro H; inversion H; reflexivity|].
  destruct (negb (blen (c :: t) =? len)); [intro H; inversion H; reflexivity|].
  destruct (read_numbers (S (length (c :: t))) (c :: t)) as [nums|e'] eqn:EN; cbn [bind].
  - destruct nums as [|n0 tl]; [|discriminate].
    exfalso. apply read_numbers_exact in EN. discriminate.
  - intro H. apply err_inj in H. subst e'. eapply read_numbers_err; [|eassumption]. lia.
Qed.

Lemma remove_object_prefix first second pieces enc k :
  encode_oid first second pieces = Ok enc -> blen (oid_body first second pieces) < LMAX ->
  (k < length enc)%nat -> remove_object (firstn k enc) = Err EUnexpectedDER.
Proof.
  unfold encode_oid. destruct (oid_args_ok first second); [|discriminate].
  intros H HL Hk. apply ok_inj in H. subst enc.
  set (body := oid_body first second pieces) in *.
  change ([x06] ++ encode_length (blen body) ++ body) with (tlv x06 body) in *.
  destruct (tlv_prefix x06 body k HL Hk) as [E|[q [E [R|[ll [R B]]]]]]; rewrite E.
  - reflexivity.
  - unfold remove_object. change (negb (byte_eqb x06 x06)) with false. cbv iota.
    rewrite dropN_1_cons, R. reflexivity.
  - unfold remove_object. change (negb (byte_eqb x06 x06)) with false. cbv iota.
    rewrite dropN_1_cons, R. cbn [bind].
    set (bd := slice (1 + ll) (1 + ll + blen body) (x06 :: q)).
    assert (Hbd : blen bd < blen body).
    { assert (1 <= blen body).
      { unfold body, oid_body. rewrite blen_app.
        pose proof (encode_number_blen_pos (40 * first + second)). lia. }
      unfold bd, slice. rewrite takeN_blen, dropN_blen.
      set (bs := blen (x06 :: q)) in *. set (L := blen body) in *. clearbody bs L. lia. }
    destruct bd as [|c t] eqn:Ebd; [reflexivity|].
    destruct (blen (c :: t) =? blen body) eqn:EL; [apply N.eqb_eq in EL; lia|]. reflexivity.
Qed.

(* ---- bit strings --------------------------------------------------------------------------------- *)

Lemma encode_bitstring_int s u enc : encode_bitstring s (BsInt u) = Ok enc ->
  u <= 7 /\ enc = tlv x03 (n2b u :: s) /\
  (u = 0 \/ exists last, s <> [] /\ idx_last s = Ok last /\ N.land last (2 ^ u - 1) = 0).
Proof.
  unfold encode_bitstring. destruct (7 <? u) eqn:E7; [discriminate|]. apply N.ltb_ge in E7.
  assert (Shape : [x03] ++ encode_length (blen s + 1) ++ [n2b u] ++ s = tlv x03 (n2b u :: s)).
  { unfold tlv. cbn [app]. rewrite blen_cons, (N.add_comm 1). reflexivity. }
  destruct (u =? 0) eqn:E0.
  - apply N.eqb_eq in E0. cbn [bind]. intro H. apply ok_inj in H. subst enc.
    split; [exact E7|]. split; [exact Shape|]. left. exact E0.
  - destruct s as [|b t] eqn:Es; [discriminate|]. rewrite <- Es in *.
    destruct (idx_last s) as [last|e] eqn:EL; [|discriminate]. cbn [bind].
    destruct (N.land last (2 ^ u - 1) =? 0) eqn:EM; [|discriminate]. apply N.eqb_eq in EM.
    cbn [bind]. intro H. apply ok_inj in H. subst enc.
    split; [exact E7|]. split; [exact Shape|]. right. exists last.
    split; [rewrite Es; discriminate|]. split; [reflexivity | exact EM].
Qed.

Lemma encode_bitstring_0 s : encode_bitstring s (BsInt 0) = Ok (tlv x03 (x00 :: s)).
Proof.
  unfold encode_bitstring. cbn [N.ltb N.compare N.eqb bind]. unfold tlv. cbn [app].
  rewrite blen_cons, (N.add_comm 1). reflexivity.
Qed.

Lemma remove_bitstring_encode s u enc r : encode_bitstring s (BsInt u) = Ok enc ->
  1 + blen s < LMAX -> remove_bitstring (enc ++ r) (BsInt u) = Ok (s, None, r).
Proof.
  intros HE HL. destruct (encode_bitstring_int s u enc HE) as [Hu [-> Hpad]].
  assert (HB : blen (n2b u :: s) < LMAX) by (rewrite blen_cons; exact HL).
  destruct (tlv_parse x03 (n2b u :: s) r HB) as [A [B [C D]]].
  unfold remove_bitstring. rewrite tlv_app. rewrite tlv_app in A, B, C, D.
  change (negb (byte_eqb x03 x03)) with false. cbv iota.
  rewrite A. cbn [bind].
  destruct (blen (n2b u :: s) =? 0) eqn:E; [apply N.eqb_eq in E; rewrite blen_cons in E; lia|]. clear E.
  rewrite D. destruct (_ <? _) eqn:E; [apply N.ltb_lt in E; lia|]. clear E.
  rewrite B, C. rewrite idx_0_cons. cbn [bind]. rewrite b2n_n2b_small by lia.
  destruct (7 <? u) eqn:E; [apply N.ltb_lt in E; lia|]. clear E.
  rewrite N.eqb_refl. cbn [bind]. rewrite dropN_1_cons.
  destruct Hpad as [->|[last [Hne [HLst HM]]]].
  - reflexivity.
  - destruct (u =? 0); [reflexivity|].
    destruct s as [|b t]; [contradiction|]. rewrite HLst. cbn [bind]. rewrite HM. reflexivity.
Qed.

Lemma remove_bitstring_0 s r : 1 + blen s < LMAX ->
  remove_bitstring (tlv x03 (x00 :: s) ++ r) (BsInt 0) = Ok (s, None, r).
Proof. intro H. apply remove_bitstring_encode; [apply encode_bitstring_0 | exact H]. Qed.

Lemma idx_last_err s e : idx_last s = Err e -> s = [].
Proof.
  unfold idx_last. destruct (rev s) eqn:E; [|discriminate]. intros _.
  apply (f_equal (@rev byte)) in E. rewrite rev_involutive in E. exact E.
Qed.

(* the part of remove_bitstring after the header, on a body that is known to be non-empty *)
Definition bs_tail (body rest : bytes) (expect : bs_mode) : result (bytes * option N * bytes) :=
  match expect with
  | BsLegacy => Ok (body, None, rest)
  | _ =>
    let* unused := idx body 0 in
    if 7 <? unused then Err EUnexpectedDER else
    let* _ := match expect with
              | BsInt e => if e =? unused then Ok tt else Err EUnexpectedDER
              | _ => Ok tt
              end in
    let body := dropN 1 body in
    let* _ :=
      if unused =? 0 then Ok tt else
      match body with
      | [] => Err EUnexpectedDER
      | _ => let* last := idx_last body in
             if N.land last (2 ^ unused - 1) =? 0 then Ok tt else Err EUnexpectedDER
      end in
    Ok (body, match expect with BsNone => Some unused | _ => None end, rest)
  end.

Lemma bs_tail_err c t rest m e : bs_tail (c :: t) rest m = Err e -> e = EUnexpectedDER.
Proof.
  unfold bs_tail. destruct m as [| |ex]; [discriminate| |].
  - rewrite idx_0_cons. cbn [bind]. destruct (7 <? b2n c); [intro H; inversion H; reflexivity|].
    destruct (b2n c =? 0); cbn [bind]; [discriminate|].
    destruct (dropN 1 (c :: t)) as [|d t'] eqn:ED; [intro H; inversion H; reflexivity|].
    destruct (idx_last (d :: t')) as [last|e0] eqn:EL; cbn [bind].
    + destruct (N.land last (2 ^ b2n c - 1) =? 0); cbn [bind]; [discriminate | intro H; inversion H; reflexivity].
    + apply idx_last_err in EL. discriminate.
  - rewrite idx_0_cons. cbn [bind]. destruct (7 <? b2n c); [intro H; inversion H; reflexivity|].
    destruct (ex =? b2n c); cbn [bind]; [|intro H; inversion H; reflexivity].
    destruct (b2n c =? 0); cbn [bind]; [discriminate|].
    destruct (dropN 1 (c :: t)) as [|d t'] eqn:ED; [intro H; inversion H; reflexivity|].
    destruct (idx_last (d :: t')) as [last|e0] eqn:EL; cbn [bind].
    + destruct (N.land last (2 ^ b2n c - 1) =? 0); cbn [bind]; [discriminate | intro H; inversion H; reflexivity].
    + apply idx_last_err in EL. discriminate.
Qed.

Lemma remove_bitstring_unfold b0 s' m :
  remove_bitstring (b0 :: s') m =
  if negb (byte_eqb b0 x03) then Err EUnexpectedDER else
  let* (len, llen) := read_length (dropN 1 (b0 :: s')) in
  if len =? 0 then Err EUnexpectedDER else
  if blen (b0 :: s') <? len + 1 + llen then Err EUnexpectedDER else
  bs_tail (slice (1 + llen) (1 + llen + len) (b0 :: s')) (dropN (1 + llen + len) (b0 :: s')) m.
Proof.
  unfold remove_bitstring, bs_tail. destruct (negb (byte_eqb b0 x03)); [reflexivity|].
  destruct (read_length (dropN 1 (b0 :: s'))) as [[len ll]|e]; [|reflexivity]. cbn [bind].
  destruct (len =? 0); [reflexivity|]. destruct (_ <? _); [reflexivity|]. destruct m; reflexivity.
Qed.

Lemma remove_bitstring_err s m e : remove_bitstring s m = Err e -> e = EUnexpectedDER.
Proof.
  destruct s as [|b0 s']; [intro H; inversion H; reflexivity|]. rewrite remove_bitstring_unfold.
  destruct (negb (byte_eqb b0 x03)); [intro H; inversion H; reflexivity|].
  rewrite dropN_1_cons.
  destruct (read_length s') as [[len ll]|e'] eqn:ER; cbn [bind];
    [|intro H; apply err_inj in H; subst; eapply read_length_err; eassumption].
  destruct (len =? 0) eqn:E0; [intro H; inversion H; reflexivity|]. apply N.eqb_neq in E0.
  destruct (_ <? _) eqn:EL; [intro H; inversion H; reflexivity|]. apply N.ltb_ge in EL.
  destruct (tlv_invert b0 s' len ll ER EL) as [Hb [Hm Hs]].
  destruct (slice (1 + ll) (1 + ll + len) (b0 :: s')) as [|c t];
    [change (blen (@nil byte)) with 0 in Hb; lia|].
  apply bs_tail_err.
Qed.

(* exactness (as the key decoders call it: expect_unused = an integer) *)
Lemma remove_bitstring_exact s u body r : remove_bitstring s (BsInt u) = Ok (body, None, r) ->
  exists enc, encode_bitstring body (BsInt u) = Ok enc /\ s = enc ++ r.
Proof.
  destruct s as [|b0 s']; [discriminate|]. rewrite remove_bitstring_unfold.
  destruct (byte_eqb b0 x03) eqn:E0; [|discriminate]. apply byte_eqb_eq in E0. subst b0. cbn [negb].
  rewrite dropN_1_cons.
  destruct (read_length s') as [[len ll]|e'] eqn:ER; [|discriminate]. cbn [bind].
  destruct (len =? 0) eqn:E0; [discriminate|]. apply N.eqb_neq in E0.
  destruct (_ <? _) eqn:EL; [discriminate|]. apply N.ltb_ge in EL.
  destruct (tlv_invert x03 s' len ll ER EL) as [Hb [Hm Hs]].
  set (bd := slice (1 + ll) (1 + ll + len) (x03 :: s')) in *.
  set (rst := dropN (1 + ll + len) (x03 :: s')) in *.
  destruct bd as [|c t] eqn:Ebd; [change (blen (@nil byte)) with 0 in Hb; lia|].
  unfold bs_tail. rewrite idx_0_cons. cbn [bind].
  destruct (7 <? b2n c) eqn:E7; [discriminate|]. apply N.ltb_ge in E7.
  destruct (u =? b2n c) eqn:Eu; [|discriminate]. apply N.eqb_eq in Eu. cbn [bind].
  rewrite dropN_1_cons.
  assert (Hc : c = n2b u) by (rewrite Eu; symmetry; apply n2b_b2n).
  assert (Shape : x03 :: s' = tlv x03 (n2b u :: t) ++ rst) by (rewrite <- Hc; exact Hs).
  assert (Enc0 : [x03] ++ encode_length (blen t + 1) ++ [n2b u] ++ t = tlv x03 (n2b u :: t)).
  { unfold tlv. cbn [app]. rewrite blen_cons, (N.add_comm 1). reflexivity. }
  unfold encode_bitstring. rewrite <- Eu in E7.
  destruct (7 <? u) eqn:E7'; [apply N.ltb_lt in E7'; lia|].
  rewrite <- Eu. destruct (u =? 0) eqn:Ez; cbn [bind].
  - intro H. apply ok_pair_inj in H. destruct H as [H <-]. apply ok_pair_inj_pair in H. destruct H as [<- _].
    eexists. split; [reflexivity|]. rewrite Enc0. exact Shape.
  - destruct t as [|d t'] eqn:Et; [discriminate|]. rewrite <- Et in *.
    destruct (idx_last t) as [last|e0] eqn:EL2; [|discriminate]. cbn [bind].
    destruct (N.land last (2 ^ u - 1) =? 0) eqn:EM; [|discriminate]. cbn [bind].
    intro H. apply ok_pair_inj in H. destruct H as [H <-]. apply ok_pair_inj_pair in H. destruct H as [<- _].
    rewrite Et. rewrite <- Et. rewrite EL2. cbn [bind]. rewrite EM. cbn [bind].
    eexists. split; [reflexivity|]. rewrite Enc0. exact Shape.
Qed.

Lemma remove_bitstring_prefix body m k : blen body < LMAX -> (k < length (tlv x03 body))%nat ->
  remove_bitstring (firstn k (tlv x03 body)) m = Err EUnexpectedDER.
Proof.
  intros H Hk. destruct (tlv_prefix x03 body k H Hk) as [E|[q [E [R|[ll [R B]]]]]]; rewrite E.
  - reflexivity.
  - rewrite remove_bitstring_unfold. change (negb (byte_eqb x03 x03)) with false. cbv iota.
    rewrite dropN_1_cons, R. reflexivity.
  - rewrite remove_bitstring_unfold. change (negb (byte_eqb x03 x03)) with false. cbv iota.
    rewrite dropN_1_cons, R. cbn [bind]. destruct (blen body =? 0); [reflexivity|].
    apply N.ltb_lt in B. rewrite B. reflexivity.
Qed.

Lemma read_number_err s e : read_number s = Err e -> e = EUnexpectedDER.
Proof. destruct s as [|b t]; [intro H; inversion H; reflexivity | apply read_number_err_cons]. Qed.
