(* C17 - small prime-order curves: the group-law hypothesis (ec_group) is PROVED by
   complete enumeration, so every theorem of EcMulProofs/EcFormulaProofs holds on
   them without hypothesis; in addition the executable models are run on every
   point / pair of points in several projective scalings and on all scalars 0..3n
   (this also shows that no fuel or inverse error occurs there). *)
From Coq Require Import List Bool ZArith Lia Znumtheory.
From Bec2 Require Import Base.Result Base.Modp Gen.EcFormulas Model.Ec
  Proofs.EcFormulaProofs Proofs.EcNafProofs Proofs.EcMulProofs.
Import ListNotations.
Open Scope Z_scope.

(* ---- a computable affine group law (textbook chord and tangent) ---- *)

Definition aff_inv (p x : Z) : Z := (x mod p) ^ (p - 2) mod p.

Definition aff_add (p a : Z) (P Q : pt) : pt :=
  match P, Q with
  | None, _ => Q
  | _, None => P
  | Some (x1, y1), Some (x2, y2) =>
      if eqmb p x1 x2 then
        if eqmb p y1 y2 then
          let l := (3 * x1 * x1 + a) * aff_inv p (2 * y1) mod p in
          let x3 := (l * l - 2 * x1) mod p in
          Some (x3, (l * (x1 - x3) - y1) mod p)
        else None
      else
        let l := (y2 - y1) * aff_inv p (x2 - x1) mod p in
        let x3 := (l * l - x1 - x2) mod p in
        Some (x3, (l * (x1 - x3) - y1) mod p)
  end.

Definition aff_neg (p : Z) (P : pt) : pt :=
  match P with None => None | Some (x, y) => Some (x, (- y) mod p) end.

Definition pt_eqb (P Q : pt) : bool :=
  match P, Q with
  | None, None => true
  | Some (x1, y1), Some (x2, y2) => (x1 =? x2) && (y1 =? y2)
  | _, _ => false
  end.

Lemma pt_eqb_eq P Q : pt_eqb P Q = true <-> P = Q.
Proof.
  destruct P as [[x1 y1]|], Q as [[x2 y2]|]; cbn; split; intro H; try discriminate; try reflexivity.
  - apply andb_true_iff in H as [H1 H2]. apply Z.eqb_eq in H1, H2. congruence.
  - injection H as -> ->. rewrite !Z.eqb_refl. reflexivity.
Qed.

Definition memb (P : pt) (l : list pt) : bool := existsb (pt_eqb P) l.

Lemma memb_In P l : memb P l = true <-> In P l.
Proof.
  unfold memb. rewrite existsb_exists. split.
  - intros [Q [HI HE]]. apply pt_eqb_eq in HE. subst. exact HI.
  - intro H. exists P. split; [exact H|]. apply pt_eqb_eq. reflexivity.
Qed.

(* all points of y^2 = x^3 + a x + b over F_p, canonical coordinates *)
Definition curve_points (p a b : Z) : list pt :=
  None :: flat_map (fun x => flat_map (fun y =>
     if contains_point x y p a b then [Some (x, y)] else []) (Zrange 0 p)) (Zrange 0 p).

Definition fin_pair (P Q : pt) (f : aff -> aff -> bool) : bool :=
  match P, Q with Some a1, Some a2 => f a1 a2 | _, _ => true end.

(* the boolean version of every field of ec_group *)
Definition group_check (p a : Z) (pts : list pt) : bool :=
  small_prime_check p && (2 <? p) && memb None pts &&
  forallb (fun P => forallb (fun Q => memb (aff_add p a P Q) pts) pts) pts &&
  forallb (fun P => memb (aff_neg p P) pts) pts &&
  forallb (fun P => match P with Some (x, y) => negb (eqmb p y 0) | None => true end) pts &&
  forallb (fun P => forallb (fun Q => fin_pair P Q (fun a1 a2 =>
     let '(x1, y1) := a1 in let '(x2, y2) := a2 in
     if eqmb p x1 x2 then
       if eqmb p y1 y2 then
         match aff_add p a P Q with
         | Some (x3, y3) =>
             let l := (3 * x1 * x1 + a) * aff_inv p (2 * y1) mod p in
             eqmb p (2 * y1 * l) (3 * x1 * x1 + a) && eqmb p x3 (l * l - 2 * x1) &&
             eqmb p y3 (l * (x1 - x3) - y1)
         | None => false
         end
       else pt_eqb (aff_add p a P Q) None
     else
       match aff_add p a P Q with
       | Some (x3, y3) =>
           let l := (y2 - y1) * aff_inv p (x2 - x1) mod p in
           eqmb p (l * (x2 - x1)) (y2 - y1) && eqmb p x3 (l * l - x1 - x2) &&
           eqmb p y3 (l * (x1 - x3) - y1)
       | None => false
       end)) pts) pts &&
  forallb (fun P => forallb (fun Q => forallb (fun R =>
     pt_eqb (aff_add p a (aff_add p a P Q) R) (aff_add p a P (aff_add p a Q R))) pts) pts) pts &&
  forallb (fun P => forallb (fun Q => pt_eqb (aff_add p a P Q) (aff_add p a Q P)) pts) pts &&
  forallb (fun P => pt_eqb (aff_add p a P (aff_neg p P)) None) pts.

Lemma aff_add_id_r p a P : aff_add p a P None = P.
Proof. destruct P as [[x y]|]; reflexivity. Qed.

Lemma fb2 {A} (f : A -> A -> bool) l :
  forallb (fun P => forallb (f P) l) l = true -> forall P Q, In P l -> In Q l -> f P Q = true.
Proof.
  intros H P Q HP HQ. rewrite forallb_forall in H. specialize (H P HP).
  rewrite forallb_forall in H. apply H, HQ.
Qed.

Theorem group_check_sound p a pts : group_check p a pts = true ->
  ec_group p a (fun P => In P pts) (aff_add p a) (aff_neg p).
Proof.
  unfold group_check. intro H.
  do 9 (apply andb_true_iff in H; destruct H as [H ?]).
  rename H into Hprime, H0 into Hinv, H1 into Hcomm, H2 into Hassoc, H3 into Hlaw,
         H4 into Hno2, H5 into Hneg, H6 into Hclosed, H7 into Hnone, H8 into Hodd.
  pose proof (fb2 _ _ Hlaw) as Law.
  constructor.
  - apply small_prime_check_sound, Hprime.
  - apply Z.ltb_lt, Hodd.
  - apply memb_In, Hnone.
  - intros P Q HP HQ. apply memb_In. apply (fb2 _ _ Hclosed P Q HP HQ).
  - intros P HP. apply memb_In. rewrite forallb_forall in Hneg. apply Hneg, HP.
  - intros x y HP. rewrite forallb_forall in Hno2. specialize (Hno2 _ HP). cbn in Hno2.
    apply negb_true_iff, eqmb_false in Hno2. exact Hno2.
  - reflexivity.
  - apply aff_add_id_r.
  - intros [x1 y1] [x2 y2] H1 H2 Hx. cbn [fst] in Hx.
    specialize (Law _ _ H1 H2). cbn [fin_pair] in Law.
    apply eqmb_false in Hx. rewrite Hx in Law.
    match type of Law with match ?t with _ => _ end = true => destruct t as [[x3 y3]|] eqn:EA end;
      [|discriminate Law].
    exists (x3, y3). split; [first [reflexivity | exact EA]|].
    apply andb_true_iff in Law as [Law L3]. apply andb_true_iff in Law as [L1 L2].
    apply eqmb_spec in L1, L2, L3. eexists. repeat split; eassumption.
  - intros [x1 y1] [x2 y2] H1 H2 Hx Hy. cbn [fst snd] in Hx, Hy.
    specialize (Law _ _ H1 H2). cbn [fin_pair] in Law.
    apply eqmb_spec in Hx, Hy. rewrite Hx, Hy in Law.
    match type of Law with match ?t with _ => _ end = true => destruct t as [[x3 y3]|] eqn:EA end;
      [|discriminate Law].
    exists (x3, y3). split; [first [reflexivity | exact EA]|].
    apply andb_true_iff in Law as [Law L3]. apply andb_true_iff in Law as [L1 L2].
    apply eqmb_spec in L1, L2, L3. eexists. repeat split; eassumption.
  - intros [x1 y1] [x2 y2] H1 H2 Hx Hy. cbn [fst snd] in Hx, Hy.
    specialize (Law _ _ H1 H2). cbn [fin_pair] in Law.
    apply eqmb_spec in Hx. apply eqmb_false in Hy. rewrite Hx, Hy in Law.
    apply pt_eqb_eq in Law. exact Law.
  - reflexivity.
  - intros [x y] _. exists (x, (- y) mod p). split; [reflexivity|]. cbn [fst snd].
    split; [reflexivity | apply mod_eqm].
  - intros P Q R HP HQ HR. apply pt_eqb_eq.
    rewrite forallb_forall in Hassoc. specialize (Hassoc _ HP).
    apply (fb2 (fun Q R => pt_eqb (aff_add p a (aff_add p a P Q) R) (aff_add p a P (aff_add p a Q R)))
               _ Hassoc Q R HQ HR).
  - intros P Q HP HQ. apply pt_eqb_eq. apply (fb2 _ _ Hcomm P Q HP HQ).
  - intros P HP. apply pt_eqb_eq. rewrite forallb_forall in Hinv. apply Hinv, HP.
Qed.

(* ---- the small curves ---- *)

Record small_curve := mkSmall { s_p : Z; s_a : Z; s_b : Z; s_n : Z }.

Definition small_curves : list small_curve :=
  [ mkSmall 7 1 1 5;       (* the order-5 curve on which 3*G = INFINITY before the H % p fix *)
    mkSmall 7 0 5 7;       (* a = 0 *)
    mkSmall 7 4 6 11;      (* a = p - 3 *)
    mkSmall 11 1 6 13;
    mkSmall 11 8 1 17 ].   (* a = p - 3 *)

Definition s_pts (c : small_curve) : list pt := curve_points (s_p c) (s_a c) (s_b c).

Definition small_ok (c : small_curve) : bool :=
  (Z.of_nat (length (s_pts c)) =? s_n c) && small_prime_check (s_n c) &&
  group_check (s_p c) (s_a c) (s_pts c).

Lemma small_curves_ok : forallb small_ok small_curves = true.
Proof. vm_cast_no_check (eq_refl true). Qed.

Theorem small_group c : In c small_curves ->
  ec_group (s_p c) (s_a c) (fun P => In P (s_pts c)) (aff_add (s_p c) (s_a c)) (aff_neg (s_p c)) /\
  Z.of_nat (length (s_pts c)) = s_n c /\ prime (s_n c).
Proof.
  intro H. pose proof small_curves_ok as K. rewrite forallb_forall in K. specialize (K c H).
  unfold small_ok in K. apply andb_true_iff in K as [K K3]. apply andb_true_iff in K as [K1 K2].
  split; [apply group_check_sound, K3|]. split; [apply Z.eqb_eq, K1 | apply small_prime_check_sound, K2].
Qed.

(* ---- running the executable models over the whole group ---- *)

(* comparison of an affine result with the expected point, coordinates modulo p
   (to_affine of an unreduced input with Z = 1 returns the unreduced coordinates) *)
Definition pt_eqm (p : Z) (P Q : pt) : bool :=
  match P, Q with
  | None, None => true
  | Some (x1, y1), Some (x2, y2) => eqmb p x1 x2 && eqmb p y1 y2
  | _, _ => false
  end.

Definition res_pt_eqb (p : Z) (r : result (option aff)) (Q : pt) : bool :=
  match r with Ok q => pt_eqm p q Q | Err _ => false end.

(* (x, y) scaled by z: (x z^2, y z^3, z); None -> several encodings of infinity *)
Definition scalings (p : Z) (P : pt) : list jac :=
  match P with
  | Some (x, y) => map (fun z => (x * z * z mod p, y * z * z * z mod p, z)) [1; 2; p - 1]
                   ++ [(x + p, y - 2 * p, 1)]                          (* unreduced / negative *)
  | None => [(0, 0, 1); (5, 0, 3); (1, 1, 0)]
  end.

(* The enumerations with the executable models run on the three smallest curves (orders
   5, 7, 11); they are re-checked by coqchk without the bytecode VM in the thorough tier,
   which bounds their size.  The search does the same enumerations on the implementation
   for twelve curves up to order 43. *)
Definition enum_curves : list small_curve := firstn 3 small_curves.

Definition to_aff (p : Z) (J : jac) : result (option aff) := pj_to_affine p J.

Definition opt_to_aff (p : Z) (r : result (option jac)) : result (option aff) :=
  let* o := r in match o with None => Ok None | Some J => pj_to_affine p J end.

(* every pair of points x every pair of scalings: _add, __add__, double, __eq__, __neg__ *)
Definition enum_add (c : small_curve) : bool :=
  let p := s_p c in let a := s_a c in let pts := s_pts c in
  forallb (fun P => forallb (fun Q =>
    forallb (fun J1 => forallb (fun J2 =>
      let '(X1, Y1, Z1) := J1 in let '(X2, Y2, Z2) := J2 in
      res_pt_eqb p (to_aff p (pj_add X1 Y1 Z1 X2 Y2 Z2 p a)) (aff_add p a P Q) &&
      res_pt_eqb p (opt_to_aff p (Ok (pj_add_pt p a (Some J1) (Some J2)))) (aff_add p a P Q) &&
      Bool.eqb (pj_eqb p J1 J2 || (is_inf J1 && is_inf J2)) (pt_eqb P Q || (is_inf J1 && is_inf J2))
      ) (scalings p Q)) (scalings p P)) pts) pts &&
  forallb (fun P => forallb (fun J1 =>
      let '(X1, Y1, Z1) := J1 in
      res_pt_eqb p (to_aff p (pj_double X1 Y1 Z1 p a)) (aff_add p a P P) &&
      res_pt_eqb p (opt_to_aff p (Ok (pj_double_pt p a J1))) (aff_add p a P P) &&
      res_pt_eqb p (to_aff p (pj_neg J1)) (aff_neg p P)
      ) (scalings p P)) pts.

Lemma small_enum_add : forallb enum_add enum_curves = true.
Proof. vm_cast_no_check (eq_refl true). Qed.

(* ---- the general theorems, instantiated: closed (no group-law hypothesis) ---- *)

Notation sG c := (fun P => In P (s_pts c)).
Notation sadd c := (aff_add (s_p c) (s_a c)).
Notation sneg c := (aff_neg (s_p c)).

Theorem small_add_correct c : In c small_curves ->
  forall X1 Y1 Z1 X2 Y2 Z2 P1 P2, In P1 (s_pts c) -> In P2 (s_pts c) ->
  jrepr (s_p c) (X1, Y1, Z1) P1 -> jrepr (s_p c) (X2, Y2, Z2) P2 ->
  jrepr (s_p c) (pj_add X1 Y1 Z1 X2 Y2 Z2 (s_p c) (s_a c)) (sadd c P1 P2).
Proof.
  intros Hc. destruct (small_group c Hc) as [GH _].
  exact (add_correct _ _ _ _ _ GH).
Qed.

Theorem small_double_correct c : In c small_curves ->
  forall X Y Zc P, In P (s_pts c) -> jrepr (s_p c) (X, Y, Zc) P ->
  jrepr (s_p c) (pj_double X Y Zc (s_p c) (s_a c)) (sadd c P P).
Proof.
  intros Hc. destruct (small_group c Hc) as [GH _].
  exact (double_correct _ _ _ _ _ GH).
Qed.

Theorem small_mul_correct c : In c small_curves ->
  forall J Q ord gen k r, In Q (s_pts c) -> jrepr (s_p c) J Q ->
  (ord = 0 \/ (0 < ord /\ zmul (sadd c) (sneg c) ord Q = None)) ->
  (gen = true -> Q <> None) -> 0 <= k ->
  pj_mul (s_p c) (s_a c) ord gen J k = Ok r ->
  jrepr_opt (s_p c) r (zmul (sadd c) (sneg c) k Q).
Proof.
  intros Hc. destruct (small_group c Hc) as [GH _].
  exact (mul_correct _ _ _ _ _ GH).
Qed.

Theorem small_ecdh_agree c : In c small_curves ->
  forall G JG n d1 d2 Q1 Q2 r1 r2,
  In G (s_pts c) -> G <> None -> jrepr (s_p c) JG G -> 0 < n ->
  zmul (sadd c) (sneg c) n G = None -> 0 <= d1 -> 0 <= d2 ->
  pubkey_of (s_p c) (s_a c) n JG d1 = Ok (Some Q1) -> pubkey_of (s_p c) (s_a c) n JG d2 = Ok (Some Q2) ->
  0 <= fst Q1 < s_p c -> 0 <= fst Q2 < s_p c ->
  ecdh_shared (s_p c) (s_a c) (fst Q2, snd Q2, 1) d1 = Ok r1 ->
  ecdh_shared (s_p c) (s_a c) (fst Q1, snd Q1, 1) d2 = Ok r2 ->
  r1 = r2.
Proof.
  intros Hc. destruct (small_group c Hc) as [GH _].
  exact (ecdh_agree _ _ _ _ _ GH).
Qed.
