(* C17 - the affine class Point on the small prime-order curves of Proofs/EcSmall.v:
   the group-law hypothesis is proved there by enumeration and every point of the
   enumerated group lies on the curve with reduced coordinates, so the theorems of
   Proofs/EcAffineProofs.v hold without hypothesis, including "no exception". *)
From Coq Require Import List Bool ZArith Lia Znumtheory.
From Bec2 Require Import Base.Result Base.Modp Gen.EcFormulas Gen.EcAffine Model.Ec Model.EcAffine
  Proofs.EcFormulaProofs Proofs.EcNafProofs Proofs.EcMulProofs Proofs.EcSmall Proofs.EcFieldZp
  Proofs.EcAffineProofs.
Import ListNotations.
Open Scope Z_scope.

Lemma curve_points_spec p a b x y : In (Some (x, y)) (curve_points p a b) ->
  0 <= x < p /\ 0 <= y < p /\ contains_point x y p a b = true.
Proof.
  unfold curve_points. intros [H|H]; [discriminate H|].
  apply in_flat_map in H as [x0 [Hx H]]. apply in_flat_map in H as [y0 [Hy H]].
  destruct (contains_point x0 y0 p a b) eqn:E; [|destruct H].
  destruct H as [H|[]]. injection H as <- <-.
  apply Zrange_bound in Hx, Hy. repeat split; try lia. exact E.
Qed.

Lemma small_on_curve c q : In (Some q) (s_pts c) -> on_curve (s_p c) (s_a c) (s_b c) q.
Proof.
  destruct q as [x y]. intro H. apply curve_points_spec in H as [_ [_ H]].
  apply contains_point_spec. exact H.
Qed.

Lemma small_canon c P : In P (s_pts c) -> canon (s_p c) P.
Proof.
  destruct P as [[x y]|]; [|intros _; exact I]. intro H.
  apply curve_points_spec in H as [Hx [Hy _]]. split; cbn [fst snd]; apply Z.mod_small; assumption.
Qed.

Lemma arepr_refl p P : arepr p P P.
Proof. destruct P as [q|]; [split; reflexivity|exact I]. Qed.

(* a reduced object that denotes a point of the enumerated group IS that point *)
Lemma small_canon_eq c R Q : In Q (s_pts c) -> arepr (s_p c) R Q -> canon (s_p c) R -> R = Q.
Proof.
  intros HQ HR CR. apply small_canon in HQ.
  destruct R as [[x y]|], Q as [[x' y']|]; try destruct HR; [|reflexivity].
  cbn [fst snd] in *. destruct CR as [C1 C2], HQ as [D1 D2]. cbn [fst snd] in *.
  apply eqm_def in H, H0. f_equal. f_equal; congruence.
Qed.

Notation sG c := (fun P => In P (s_pts c)).
Notation sadd c := (aff_add (s_p c) (s_a c)).
Notation sneg c := (aff_neg (s_p c)).

Section Small.
Variable c : small_curve.
Hypothesis Hc : In c small_curves.
Let p := s_p c.
Let a := s_a c.
Let b := s_b c.
Let GH : ec_group p a (sG c) (sadd c) (sneg c) := proj1 (small_group c Hc).
Let HC : forall q, In (Some q) (s_pts c) -> on_curve p a b q := small_on_curve c.

(* __add__ computes exactly the textbook sum, for every pair of points incl. INFINITY,
   equal and opposite operands; no exception *)
Theorem small_affine_add P Q : In P (s_pts c) -> In Q (s_pts c) ->
  ap_add p a b P Q = Ok (sadd c P Q).
Proof.
  intros HP HQ.
  pose proof (small_canon c P HP) as CP. pose proof (small_canon c Q HQ) as CQ.
  destruct (add_total_aff p a b _ _ _ GH P Q P Q HC HP HQ (arepr_refl p P) (arepr_refl p Q)
              (canon_xcan p _ CP) (canon_xcan p _ CQ)) as [R E].
  rewrite E. f_equal.
  destruct (add_correct_aff p a b _ _ _ GH P Q P Q R HP HQ (arepr_refl p P) (arepr_refl p Q)
              (canon_xcan p _ CP) (canon_xcan p _ CQ) E) as [HR _].
  apply (small_canon_eq c); [apply (g_closed _ _ _ _ _ GH); assumption | exact HR |].
  destruct P as [q1|]; [destruct Q as [q2|]|].
  - apply (add_canon_fin p a b _ _ _ E).
  - cbn in E. injection E as <-. exact CP.
  - rewrite ap_add_inf_l in E. injection E as <-. exact CQ.
Qed.

Theorem small_affine_double P : In P (s_pts c) -> ap_double p a b P = Ok (sadd c P P).
Proof.
  intro HP.
  destruct (double_total_aff p a b _ _ _ GH P P HC HP (arepr_refl p P)) as [R E].
  rewrite E. f_equal.
  destruct (double_correct_aff p a b _ _ _ GH P P R HP (arepr_refl p P) E) as [HR CR].
  apply (small_canon_eq c); [apply (g_closed _ _ _ _ _ GH); assumption | exact HR | exact CR].
Qed.

Theorem small_affine_neg q : In (Some q) (s_pts c) ->
  exists q', ap_neg p a b q = Ok q' /\ Some q' = sneg c (Some q).
Proof.
  intro HP.
  destruct (neg_total_aff p a b _ _ _ GH q (Some q) HC HP (arepr_refl p _)) as [q' E].
  exists q'. split; [exact E|].
  destruct (neg_correct_aff p a b _ _ _ GH q q' (Some q) HP (arepr_refl p _) E) as [HR Fx].
  apply (small_canon_eq c); [apply (g_neg_closed _ _ _ _ _ GH); exact HP | exact HR |].
  apply ap_neg_spec in E as [_ [Fy _]].
  destruct q as [x y], q' as [x' y']. cbn [fst snd] in *. subst x' y'.
  pose proof (g_no2 _ _ _ _ _ GH x y HP) as Hy.
  apply curve_points_spec in HP as [Hx [Hy' _]].
  assert (y <> 0) by (intros ->; apply Hy; reflexivity).
  split; cbn [fst snd]; apply Z.mod_small; fold p; lia.
Qed.

(* __mul__: every integer k, with or without a (correct) order attribute, any cofactor flag:
   returns, and the result denotes k*P *)
Theorem small_affine_mul P h ord k : In P (s_pts c) ->
  (ord = 0 \/ zmul (sadd c) (sneg c) ord P = None) ->
  exists R, ap_mul p a b h ord P k = Ok R /\ arepr p R (zmul (sadd c) (sneg c) k P).
Proof.
  intros HP Ho. pose proof (small_canon c P HP) as CP.
  destruct (mul_total_aff p a b _ _ _ GH h ord P P k HC HP (arepr_refl p P) (canon_xcan p _ CP)) as [R E].
  exists R. split; [exact E|].
  apply (mul_correct_aff p a b _ _ _ GH h ord P P k R HP (arepr_refl p P) (canon_xcan p _ CP) Ho E).
Qed.

(* ... and is exactly that point unless k*P = -P *)
Theorem small_affine_mul_exact q h ord k R : In (Some q) (s_pts c) ->
  (ord = 0 \/ zmul (sadd c) (sneg c) ord (Some q) = None) -> 0 <= k ->
  zmul (sadd c) (sneg c) k (Some q) <> sneg c (Some q) ->
  ap_mul p a b h ord (Some q) k = Ok R -> R = zmul (sadd c) (sneg c) k (Some q).
Proof.
  intros HP Ho Hk Hne E. pose proof (small_canon c _ HP) as CP.
  apply (small_canon_eq c).
  - apply (zmul_closed _ _ _ _ _ GH). exact HP.
  - apply (mul_correct_aff p a b _ _ _ GH h ord (Some q) (Some q) k R HP (arepr_refl p _) (canon_xcan p _ CP) Ho E).
  - apply (mul_canonical_aff p a b _ _ _ GH h ord q (Some q) k R HP (arepr_refl p _) CP Ho Hk Hne E).
Qed.

(* the affine result and the PointJacobi result of the same multiplication *)
Theorem small_affine_jacobi_agree q h ord k rJ rA : In (Some q) (s_pts c) ->
  (ord = 0 \/ (0 < ord /\ zmul (sadd c) (sneg c) ord (Some q) = None)) -> 0 <= k ->
  pj_mul p a ord false (pj_from_affine q) k = Ok rJ ->
  ap_mul p a b h ord (Some q) k = Ok rA ->
  jrepr_opt p rJ (zmul (sadd c) (sneg c) k (Some q)) /\ arepr p rA (zmul (sadd c) (sneg c) k (Some q)) /\
  pj_opt_eq_aff p rJ rA = true /\
  (forall A1, pj_opt_to_affine p rJ = Ok A1 -> apt_eqm p A1 rA).
Proof.
  intros HP Ho Hk. pose proof (small_canon c _ HP) as CP.
  apply (affine_jacobi_agree p a b _ _ _ GH h ord q (Some q) k rJ rA HP (arepr_refl p _) (canon_xcan p _ CP) Ho Hk).
Qed.

End Small.
