(* C17 - small prime-order curves, continued (separate file so that the enumerations
   compile in parallel): mul_add *)
From Coq Require Import List Bool ZArith Lia.
From Bec2 Require Import Base.Result Base.Modp Gen.EcFormulas Model.Ec Proofs.EcSmall.
Import ListNotations.
Open Scope Z_scope.

(* mul_add on the order-5 curve: every pair of points, every pair of scalars 0..n+1, with the
   first operand as plain point and as generator (table), the second in two representations;
   on the order-7 curve: the same for the scalar pairs on the "cross"
   {k1<3 or k2<3 or k1=k2 or k1+k2=n or k1>=n or k2>=n}. *)
Definition enum_mul_add (c : small_curve) : bool :=
  let p := s_p c in let a := s_a c in let n := s_n c in let pts := s_pts c in
  let ks := Zrange 0 (n + 2) in
  let big := 5 <? n in
  forallb (fun P => forallb (fun Q =>
    forallb (fun k1 => forallb (fun k2 =>
      if big && negb ((k1 <? 3) || (k2 <? 3) || (k1 =? k2) || (k1 + k2 =? n) || (n <=? k1) || (n <=? k2)) then true
      else
      let want := aff_add p a (nmul (aff_add p a) (Z.to_nat k1) P) (nmul (aff_add p a) (Z.to_nat k2) Q) in
      match P, Q with
      | Some (x1, y1), Some (x2, y2) =>
          res_pt_eqb p (opt_to_aff p (pj_mul_add p a n false (x1, y1, 1) k1 n false (x2, y2, 1) k2)) want &&
          res_pt_eqb p (opt_to_aff p (pj_mul_add p a n true (x1, y1, 1) k1 n false
                                      (x2 * 4 mod p, y2 * 8 mod p, 2) k2)) want &&
          (big || res_pt_eqb p (opt_to_aff p (pj_mul_add p a n true (x1, y1, 1) k1 n true (x2, y2, 1) k2)) want)
      | Some (x1, y1), None =>
          res_pt_eqb p (opt_to_aff p (pj_mul_add p a n false (x1, y1, 1) k1 n false (0, 0, 1) k2)) want
      | None, Some (x2, y2) =>
          res_pt_eqb p (opt_to_aff p (pj_mul_add p a n false (0, 0, 1) k1 n false (x2, y2, 1) k2)) want
      | None, None => true
      end) ks) ks) pts) pts.

Lemma small_enum_mul_add : forallb enum_mul_add (firstn 2 small_curves) = true.
Proof. vm_cast_no_check (eq_refl true). Qed.
