(* C02/C07: proofs about the BEC2 layer of Model/Bec2.v *)
From Coq Require Import List Bool NArith ZArith Lia.
From Coq Require Import Init.Byte.
From Bec2 Require Import Base.Result Base.Bytes Base.Reader Gen.Consts Model.Bf3 Model.AesContainer Model.Bec2
  Proofs.AesContainerProofs Proofs.Bf3Proofs Proofs.Bf3TextProofs.
Import ListNotations.
Open Scope N_scope.

Lemma rd_read_0 r : rd_read 0 r = Ok ([], mkR (rest r) (pos r + 0)).
Proof.
  unfold rd_read. destruct (0 <=? blen (rest r)) eqn:E; [|apply N.leb_gt in E; lia].
  rewrite takeN_firstn, dropN_0. reflexivity.
Qed.

Section WithPlugins.
  Variable enc dec mac : bytes -> option bytes -> bytes -> result bytes.
  Variable sha256 : bytes -> bytes.
  Variable pub_of : privkey -> bytes.
  Variable valid_pub : bytes -> bool.
  Variable ecdh : privkey -> bytes -> bytes.
  Variable keygen : N -> privkey.
  Variable rand16 : N -> bytes.

  Hypothesis mac_len : forall k iv d m, d <> [] -> mac k iv d = Ok m -> blen m = 16.
  Hypothesis enc_len : forall k d c, blen d mod 16 = 0 -> enc k None d = Ok c -> blen c = blen d.
  Hypothesis dec_enc : forall k d c, blen d mod 16 = 0 -> enc k None d = Ok c -> dec k None c = Ok d.
  (* the registered ECC plug-in *)
  Hypothesis pub_len : forall d, blen (pub_of d) = 64.
  Hypothesis pub_valid : forall d, valid_pub (pub_of d) = true.
  Hypothesis ecdh_comm : forall d e, ecdh d (pub_of e) = ecdh e (pub_of d).

  Lemma cipher_inv : forall k d c,
    blen d mod 16 = 0 -> enc0 enc k d = Ok c -> dec0 dec k c = Ok d /\ blen c = blen d.
  Proof. intros k d c Hm He. split; [exact (dec_enc k d c Hm He)|exact (enc_len k d c Hm He)]. Qed.

  (* the decryptor [de] opens what the encryptor [we] wrapped *)
  Definition matches (we de : encryptor) : Prop :=
    match we, de with
    | ECustKey k ck, ECustKey k' ck' =>
        k = k' /\ ck = ck' /\
        match ck_active ck with
        | None => True
        | Some (c, p) => p = 0 /\ blen c = CUSTOMER_KEY_SIZE
        end
    | EEcc _ pub _, EEcc _ _ (Some d) => pub = pub_of d
    | ECsc c, ECsc c' => c = c'
    | _, _ => False
    end.

  (* the encryptor pack selects for block a *)
  Definition wsel (a : authblock) (exts : list encryptor) : result encryptor :=
    match a with
    | ABCustKey => select_encryptor KCust exts None (fun _ => true)
    | ABEcc sel =>
      select_encryptor KEcc exts
        (match default_pub sel with Some p => Some (EEcc sel p None) | None => None end) (ecc_sel_is sel)
    | ABUpdate code _ => select_encryptor KCsc exts (Some (ECsc code)) (fun _ => true)
    | ABUnknown _ _ => Err EKey
    end.
  (* the decryptor unpack selects for block a *)
  Definition rsel (a : authblock) (exts : list encryptor) : result encryptor :=
    match a with
    | ABCustKey => select_encryptor KCust exts None (fun _ => true)
    | ABEcc sel => select_encryptor KEcc exts None (ecc_sel_is sel)
    | ABUpdate _ _ => select_encryptor KCsc exts None (fun _ => true)
    | ABUnknown _ _ => Err EKey
    end.

  Definition known_block (a : authblock) : Prop :=
    match a with
    | ABUnknown _ _ => False
    | ABEcc sel => sel < 256
    | ABUpdate code _ => True
    | ABCustKey => True
    end.

  Lemma select_kind k exts fb filt e :
    select_encryptor k exts fb filt = Ok e -> fb = None -> enc_kind e = k.
  Proof.
    unfold select_encryptor. intros H ->.
    destruct (find _ exts) as [e'|] eqn:Ef; [|discriminate].
    inversion H; subst. apply find_some in Ef as [_ Ef].
    apply andb_true_iff in Ef as [Ek _]. destruct (enc_kind e), k; simpl in Ek; congruence.
  Qed.

  Lemma zeros_placeholder : CUSTOMER_KEY_PLACEHOLDER = zeros (N.to_nat CUSTOMER_KEY_SIZE).
  Proof. reflexivity. Qed.

  Theorem unpack_pack a key encs decs nk raw nk' we de :
    blen key = 16 -> known_block a ->
    wsel a encs = Ok we -> rsel a decs = Ok de -> matches we de ->
    (match a with ABUpdate code _ => we = ECsc code | _ => True end) ->
    pack enc sha256 pub_of ecdh keygen a key encs nk = Ok (raw, nk') ->
    unpack dec sha256 valid_pub ecdh (ab_tag a) raw decs = Ok (a, key).
  Proof.
    intros Hk Hkn Hw Hr Hm Hupd Hp.
    destruct a as [|sel|code ver|t r0]; cbn [known_block] in Hkn; [| | |contradiction].
    - (* customer key block *)
      cbn [pack wsel rsel ab_tag] in *. rewrite Hw in Hp. cbn [bind] in Hp.
      unfold unpack. change (TAG_CUSTKEY =? TAG_CUSTKEY) with true. cbv iota.
      rewrite Hr. cbn [bind].
      pose proof (select_kind _ _ _ _ _ Hw eq_refl) as Kw.
      pose proof (select_kind _ _ _ _ _ Hr eq_refl) as Kr.
      destruct we as [k ck| |]; try discriminate. destruct de as [k' ck'| |]; try discriminate.
      cbn [matches] in Hm. destruct Hm as [<- [<- Hck]].
      cbn [e_encrypt] in Hp.
      destruct (ck_wrap (enc0 enc) k ck (CUSTOMER_KEY_PLACEHOLDER ++ key)) as [c|] eqn:Ew; cbn [bind] in Hp; [|discriminate].
      inversion Hp; subst raw nk'. clear Hp.
      cbn [e_decrypt].
      assert (Hres : ck_unwrap (dec0 dec) k ck c = Ok (CUSTOMER_KEY_PLACEHOLDER ++ key)).
      { unfold ck_wrap, ck_unwrap in *. destruct (ck_active ck) as [[cc p]|] eqn:Ea.
        - destruct Hck as [-> Hcl].
          destruct (unwrap_wrap (enc0 enc) (dec0 dec) cipher_inv _ _ _ Ew) as [Hu _].
          rewrite Hu. cbn [bind].
          assert (Hp10 : 0 + CUSTOMER_KEY_SIZE <= blen (CUSTOMER_KEY_PLACEHOLDER ++ key)).
          { rewrite blen_app, Hk. vm_compute. discriminate. }
          destruct (slice_assign_spec (CUSTOMER_KEY_PLACEHOLDER ++ key) 0 CUSTOMER_KEY_SIZE cc Hp10 Hcl)
            as [_ [_ [H3 _]]].
          rewrite H3, bytes_eqb_refl.
          rewrite slice_assign_twice by assumption.
          unfold slice_assign. change (takeN 0 (CUSTOMER_KEY_PLACEHOLDER ++ key)) with (@nil byte).
          cbn [app]. f_equal. rewrite zeros_placeholder at 1. f_equal.
          change (0 + CUSTOMER_KEY_SIZE) with (blen CUSTOMER_KEY_PLACEHOLDER). apply dropN_app_exact.
        - destruct (unwrap_wrap (enc0 enc) (dec0 dec) cipher_inv _ _ _ Ew) as [Hu _].
          rewrite Hu. reflexivity. }
      rewrite Hres. cbn [bind]. f_equal. f_equal.
      change AES_BLOCK_SIZE with 16. rewrite <- Hk. apply lastN_app_exact.
    - (* ECC block *)
      cbn [pack wsel rsel ab_tag] in *. rewrite Hw in Hp. cbn [bind] in Hp.
      destruct (to_bytes 1 sel) as [s|] eqn:Es; cbn [bind] in Hp; [|discriminate].
      apply to_bytes_ok in Es as [-> _].
      destruct (e_encrypt enc sha256 pub_of ecdh keygen we key nk) as [[c nk2]|] eqn:Ee; cbn [bind] in Hp; [|discriminate].
      inversion Hp; subst raw nk'. clear Hp.
      unfold unpack. change (TAG_ECC =? TAG_CUSTKEY) with false. change (TAG_ECC =? TAG_ECC) with true. cbv iota.
      try rewrite be_1. cbn [app]. rewrite b2n_n2b_small by exact Hkn. rewrite Hr. cbn [bind].
      pose proof (select_kind _ _ _ _ _ Hr eq_refl) as Kr.
      destruct de as [| s' pub' [d|] |]; try discriminate; destruct we as [| s'' pub wp |]; cbn [matches] in Hm; try contradiction.
      subst pub. cbn [e_encrypt] in Ee.
      destruct (enc (ecdh_key sha256 ecdh (keygen nk) (pub_of d)) None key) as [ct|] eqn:Ec; cbn [bind] in Ee; [|discriminate].
      inversion Ee; subst c nk2. clear Ee.
      assert (Hkm : blen key mod 16 = 0) by (rewrite Hk; reflexivity).
      pose proof (enc_len _ _ _ Hkm Ec) as Lc.
      cbn [e_decrypt]. unfold new_reader.
      change (x04 :: pub_of (keygen nk) ++ ct) with ([x04] ++ (pub_of (keygen nk) ++ ct)).
      rewrite (rd_read_exact 1 [x04]) by reflexivity. cbn [bind]. rewrite bytes_eqb_refl. cbn [negb].
      rewrite (rd_read_exact 64 (pub_of (keygen nk))) by apply pub_len. cbn [bind].
      rewrite pub_valid. cbn [negb].
      change AES_BLOCK_SIZE with 16.
      rewrite (rd_read_exact_all 16 ct) by (rewrite Lc; exact Hk). cbn [bind].
      unfold ecdh_key in *. rewrite (ecdh_comm d (keygen nk)).
      rewrite (dec_enc _ _ _ Hkm Ec). reflexivity.
    - (* update block *)
      cbn [pack wsel rsel ab_tag] in *. rewrite Hw in Hp. cbn [bind] in Hp. subst we.
      destruct (to_bytes 1 ver) as [v|] eqn:Ev; cbn [bind] in Hp; [|discriminate].
      apply to_bytes_ok in Ev as [-> Hv]. change (256 ^ N.of_nat 1) with 256 in Hv.
      cbn [e_encrypt] in Hp.
      destruct (csc_wrap (enc0 enc) sha256 code (key ++ be 1 ver)) as [c|] eqn:Ew; cbn [bind] in Hp; [|discriminate].
      inversion Hp; subst raw nk'. clear Hp.
      unfold unpack. change (TAG_UPDATE =? TAG_CUSTKEY) with false. change (TAG_UPDATE =? TAG_ECC) with false.
      change (TAG_UPDATE =? TAG_UPDATE) with true. cbv iota.
      rewrite Hr. cbn [bind].
      destruct de as [| |code']; cbn [matches] in Hm; try contradiction. subst code'.
      cbn [e_decrypt]. unfold csc_wrap, csc_unwrap in *.
      destruct (unwrap_wrap (enc0 enc) (dec0 dec) cipher_inv _ _ _ Ew) as [Hu _].
      rewrite Hu. cbn [bind]. unfold new_reader. change AES_BLOCK_SIZE with 16.
      rewrite (rd_read_exact 16 key) by exact Hk. cbn [bind].
      assert (Hri : forall p, rd_read_int 1 (mkR (be 1 ver) p) = Ok (ver, mkR [] (p + 1))).
      { intro p. rewrite <- (app_nil_r (be 1 ver)). apply (rd_read_int_be 1 ver). exact Hv. }
      rewrite Hri. cbn [bind]. reflexivity.
  Qed.

  (* ---- header: pack_blocks / unpack_blocks ---------------------------------- *)
  Notation pack' := (pack enc sha256 pub_of ecdh keygen).
  Notation unpack' := (unpack dec sha256 valid_pub ecdh).

  (* the packed blocks as a list (tag, block, raw bytes) *)
  Fixpoint pack_list (bs : list (N * authblock)) (key : bytes) (exts : list encryptor) (nk : N)
                     : result (list (N * authblock * bytes) * N) :=
    match bs with
    | [] => Ok ([], nk)
    | (t, a) :: rest =>
      let* (raw, nk) := pack' a key exts nk in
      let* tb := to_bytes 1 t in
      let* lb := to_bytes 1 (blen raw) in
      let* (r, nk) := pack_list rest key exts nk in
      Ok ((t, a, raw) :: r, nk)
    end.

  Definition ser_packed (pl : list (N * authblock * bytes)) : bytes :=
    flat_map (fun '(t, _, raw) => be 1 t ++ be 1 (blen raw) ++ raw) pl.

  Lemma pack_blocks_list bs : forall key exts nk b nk',
    pack_blocks enc sha256 pub_of ecdh keygen bs key exts nk = Ok (b, nk') ->
    exists pl, pack_list bs key exts nk = Ok (pl, nk') /\ b = ser_packed pl ++ [x00; x00] /\
               Forall (fun '(t, _, raw) => t < 256 /\ blen raw < 256) pl /\
               map (fun '(t, a, _) => (t, a)) pl = bs.
  Proof.
    induction bs as [|[t a] bs IH]; intros key exts nk b nk' H.
    - cbn in H. inversion H; subst. exists []. repeat split. constructor.
    - cbn [pack_blocks] in H.
      destruct (pack' a key exts nk) as [[raw nk1]|] eqn:Ep; cbn [bind] in H; [|discriminate].
      destruct (to_bytes 1 t) as [tb|] eqn:Et; cbn [bind] in H; [|discriminate].
      destruct (to_bytes 1 (blen raw)) as [lb|] eqn:El; cbn [bind] in H; [|discriminate].
      destruct (pack_blocks enc sha256 pub_of ecdh keygen bs key exts nk1) as [[r nk2]|] eqn:Er;
        cbn [bind] in H; [|discriminate].
      inversion H; subst b nk'. clear H.
      destruct (IH _ _ _ _ _ Er) as [pl [Epl [-> [Hf Hm]]]].
      apply to_bytes_ok in Et as [-> Ht]. apply to_bytes_ok in El as [-> Hl].
      exists ((t, a, raw) :: pl). split.
      { cbn [pack_list]. rewrite Ep. cbn [bind].
        unfold to_bytes. 
        destruct (t <? 256 ^ N.of_nat 1) eqn:E1; [|apply N.ltb_ge in E1; lia].
        destruct (blen raw <? 256 ^ N.of_nat 1) eqn:E2; [|apply N.ltb_ge in E2; lia].
        cbn [bind]. rewrite Epl. reflexivity. }
      split; [cbn [ser_packed flat_map]; rewrite <- !app_assoc; reflexivity|].
      split; [constructor; [split; assumption|exact Hf]|].
      cbn [map]. rewrite Hm. reflexivity.
  Qed.

  (* what the reader makes of one packed block *)
  Definition rview (decs : list encryptor) (x : N * authblock * bytes) : authblock :=
    let '(t, _, raw) := x in
    match unpack' t raw decs with Ok (a', _) => a' | Err _ => ABUnknown t raw end.
  Definition ropened (decs : list encryptor) (x : N * authblock * bytes) : bool :=
    let '(t, _, raw) := x in
    match unpack' t raw decs with Ok _ => true | Err _ => false end.

  (* each block is either opened with the file's key or skipped (KeyError/NotImplementedError) *)
  Definition block_good (decs : list encryptor) (key : bytes) (x : N * authblock * bytes) : Prop :=
    let '(t, _, raw) := x in
    t <> 0 /\ t < 256 /\ blen raw < 256 /\
    ((exists a', unpack' t raw decs = Ok (a', key)) \/
     unpack' t raw decs = Err EKey \/ unpack' t raw decs = Err ENotImpl).

  Definition merge_common (common : option bytes) (key : bytes) (opened : bool) : option bytes :=
    if opened then Some key else common.

  Lemma unpack_blocks_packed decs key pl : forall fuel common acc tail p,
    Forall (block_good decs key) pl ->
    (common = None \/ common = Some key) ->
    (length pl < fuel)%nat ->
    unpack_blocks dec sha256 valid_pub ecdh fuel (mkR (ser_packed pl ++ [x00; x00] ++ tail) p) decs common acc =
      Ok (rev acc ++ map (rview decs) pl,
          fold_left (fun c x => merge_common c key (ropened decs x)) pl common,
          mkR tail (p + blen (ser_packed pl) + 2)).
  Proof.
    induction pl as [|[[t a] raw] pl IH]; intros fuel common acc tail p Hg Hc Hf.
    - destruct fuel as [|fuel]; [simpl in Hf; lia|].
      cbn [ser_packed flat_map unpack_blocks]. rewrite app_nil_l.
      replace ([x00; x00] ++ tail) with (be 1 0 ++ be 1 0 ++ tail) by reflexivity.
      rewrite (rd_read_int_be 1 0) by (vm_compute; reflexivity). cbn [bind].
      rewrite (rd_read_int_be 1 0) by (vm_compute; reflexivity). cbn [bind].
      rewrite rd_read_0. cbn [bind rest pos N.eqb andb fold_left map].
      rewrite app_nil_r. change (blen (@nil byte)) with 0.
      replace (p + N.of_nat 1 + N.of_nat 1 + 0) with (p + 0 + 2) by (change (N.of_nat 1) with 1; lia). reflexivity.
    - destruct fuel as [|fuel]; [simpl in Hf; lia|].
      inversion Hg as [|? ? Hb Hg']; subst. unfold block_good in Hb. destruct Hb as [Ht0 [Ht [Hl Hu]]].
      cbn [ser_packed flat_map]. fold (ser_packed pl). rewrite <- !app_assoc.
      cbn [unpack_blocks].
      rewrite (rd_read_int_be 1 t) by exact Ht. cbn [bind].
      rewrite (rd_read_int_be 1 (blen raw)) by exact Hl. cbn [bind].
      rewrite rd_read_app. cbn [bind].
      destruct (t =? 0) eqn:Et; [apply N.eqb_eq in Et; contradiction|]. cbn [andb].
      cbn [map fold_left rview ropened].
      assert (Hpos : p + N.of_nat 1 + N.of_nat 1 + blen raw + blen (ser_packed pl) + 2 =
                     p + blen (be 1 t ++ be 1 (blen raw) ++ raw ++ ser_packed pl) + 2).
      { rewrite !blen_app, !blen_be. lia. }
      destruct Hu as [[a' Hu]|[Hu|Hu]]; rewrite Hu.
      + destruct Hc as [->| ->].
        * rewrite (IH fuel (Some key) (a' :: acc) tail _ Hg' (or_intror eq_refl)) by (simpl in Hf; lia).
          cbn [rev merge_common]. rewrite <- app_assoc. cbn [app]. rewrite Hpos. reflexivity.
        * rewrite bytes_eqb_refl.
          rewrite (IH fuel (Some key) (a' :: acc) tail _ Hg' (or_intror eq_refl)) by (simpl in Hf; lia).
          cbn [rev merge_common]. rewrite <- app_assoc. cbn [app]. rewrite Hpos. reflexivity.
      + rewrite (IH fuel common (ABUnknown t raw :: acc) tail _ Hg' Hc) by (simpl in Hf; lia).
        cbn [rev merge_common]. rewrite <- app_assoc. cbn [app]. rewrite Hpos. reflexivity.
      + rewrite (IH fuel common (ABUnknown t raw :: acc) tail _ Hg' Hc) by (simpl in Hf; lia).
        cbn [rev merge_common]. rewrite <- app_assoc. cbn [app]. rewrite Hpos. reflexivity.
  Qed.

  Lemma ser_packed_len pl : (length pl <= length (ser_packed pl))%nat.
  Proof.
    induction pl as [|[[t a] raw] pl IH]; [simpl; lia|].
    cbn [ser_packed flat_map]. fold (ser_packed pl). rewrite !app_length, !be_length. simpl. lia.
  Qed.

  Lemma fold_merge_some decs key pl : forall common,
    (common = None \/ common = Some key) ->
    (common = Some key \/ existsb (ropened decs) pl = true) ->
    fold_left (fun c x => merge_common c key (ropened decs x)) pl common = Some key.
  Proof.
    induction pl as [|x pl IH]; intros common Hc Ho.
    - simpl in *. destruct Ho as [Ho|Ho]; [exact Ho|discriminate].
    - cbn [fold_left]. apply IH.
      + unfold merge_common. destruct (ropened decs x); [right; reflexivity|exact Hc].
      + unfold merge_common. destruct (ropened decs x) eqn:Eo; [left; reflexivity|].
        destruct Ho as [Ho|Ho]; [left; exact Ho|]. right. cbn [existsb] in Ho. rewrite Eo in Ho. exact Ho.
  Qed.

  Local Opaque BEC2_FILE_SIG.

  Theorem bec2_read_write f bs key encs decs nk t nk' check nr :
    blen key = 16 -> wf_file f ->
    bec2_write_file enc mac sha256 pub_of ecdh keygen (mkBec2 f bs key) encs nk = Ok (t, nk') ->
    exists pl, pack_list bs key encs nk = Ok (pl, nk') /\
      (Forall (block_good decs key) pl -> existsb (ropened decs) pl = true ->
       bec2_read_file dec mac sha256 valid_pub ecdh rand16 t decs check nr =
         Ok (mkBec2 (file_view f) (blocks_dict (map (rview decs) pl)) key, nr)).
  Proof.
    intros Hk [Hcm Hcs] Hw. unfold bec2_write_file, bec2_to_binary in Hw. cbn [b_blocks b_key b_bf3] in Hw.
    destruct (pack_blocks enc sha256 pub_of ecdh keygen bs key encs nk) as [[pb nk1]|] eqn:Ep; cbn [bind] in Hw; [|discriminate].
    destruct (to_binary enc mac (f_comps f) (blen (BEC2_FILE_SIG ++ pb)) key) as [body|] eqn:Eb; cbn [bind] in Hw; [|discriminate].
    injection Hw as <- <-.
    destruct (pack_blocks_list _ _ _ _ _ _ Ep) as [pl [Epl [-> [Hlens Hmap]]]].
    exists pl. split; [exact Epl|]. intros Hg Ho.
    unfold bec2_read_file. rewrite (parse_bf3_write _ _ Hcm). cbn [bind].
    unfold new_reader. rewrite <- !app_assoc. rewrite rd_read_app. cbn [bind].
    rewrite bytes_eqb_refl. cbn [negb].
    rewrite (unpack_blocks_packed decs key pl _ None [] body _ Hg (or_introl eq_refl)).
    2:{ pose proof (ser_packed_len pl). rewrite !app_length. simpl. lia. }
    cbn [bind rev app].
    rewrite (fold_merge_some decs key pl None (or_introl eq_refl) (or_intror Ho)).
    assert (Hoff : 0 + blen BEC2_FILE_SIG + blen (ser_packed pl) + 2 =
                   blen (BEC2_FILE_SIG ++ ser_packed pl ++ [x00; x00])).
    { rewrite !blen_app. change (blen [x00; x00]) with 2. lia. }
    rewrite Hoff.
    rewrite (from_binary_to_binary enc dec mac mac_len enc_len dec_enc _ _ _ _ check Hcs Eb). cbn [bind].
    unfold new_bec2. destruct key as [|x key']; [rewrite blen_nil in Hk; discriminate|]. reflexivity.
  Qed.
  Local Transparent BEC2_FILE_SIG.

  Lemma pack_list_each bs : forall key encs nk pl nk',
    pack_list bs key encs nk = Ok (pl, nk') ->
    Forall2 (fun '(t, a) '(t', a', raw) => t' = t /\ a' = a /\ t < 256 /\ blen raw < 256 /\
               exists n n', pack' a key encs n = Ok (raw, n')) bs pl.
  Proof.
    induction bs as [|[t a] bs IH]; intros key encs nk pl nk' H.
    - cbn in H. inversion H; subst. constructor.
    - cbn [pack_list] in H.
      destruct (pack' a key encs nk) as [[raw nk1]|] eqn:Ep; cbn [bind] in H; [|discriminate].
      destruct (to_bytes 1 t) as [tb|] eqn:Et; cbn [bind] in H; [|discriminate].
      destruct (to_bytes 1 (blen raw)) as [lb|] eqn:El; cbn [bind] in H; [|discriminate].
      destruct (pack_list bs key encs nk1) as [[r nk2]|] eqn:Er; cbn [bind] in H; [|discriminate].
      inversion H; subst pl nk'. clear H.
      apply to_bytes_ok in Et as [_ Ht]. apply to_bytes_ok in El as [_ Hl].
      constructor; [|exact (IH _ _ _ _ _ Er)].
      repeat split; try assumption. exists nk, nk1. exact Ep.
  Qed.

  (* every block is opened by a matching decryptor *)
  Definition all_match (bs : list (N * authblock)) (encs decs : list encryptor) : Prop :=
    Forall (fun '(t, a) => t = ab_tag a /\ t <> 0 /\ known_block a /\
              exists we de, wsel a encs = Ok we /\ rsel a decs = Ok de /\ matches we de /\
                match a with ABUpdate code _ => we = ECsc code | _ => True end) bs.

  Lemma all_match_good bs encs decs key pl :
    blen key = 16 -> all_match bs encs decs ->
    Forall2 (fun '(t, a) '(t', a', raw) => t' = t /\ a' = a /\ t < 256 /\ blen raw < 256 /\
               exists n n', pack' a key encs n = Ok (raw, n')) bs pl ->
    Forall (block_good decs key) pl /\ map (rview decs) pl = map snd bs /\
    (pl <> [] -> existsb (ropened decs) pl = true).
  Proof.
    intros Hk Hm H2. induction H2 as [|[t a] [[t' a'] raw] bs pl Hx H2 IH].
    - repeat split; [constructor|intro H; contradiction].
    - inversion Hm as [|? ? Ha Hm']; subst.
      destruct Hx as [-> [-> [Ht [Hl [n [n' Hp]]]]]].
      destruct Ha as [Etag [Ht0 [Hkn [we [de [Hw [Hr [Hma Hu]]]]]]]].
      pose proof (unpack_pack a key encs decs n raw n' we de Hk Hkn Hw Hr Hma Hu Hp) as Hun.
      rewrite <- Etag in Hun.
      destruct (IH Hm') as [IH1 [IH2 _]].
      split; [|split].
      + constructor; [|exact IH1]. unfold block_good. repeat split; try assumption.
        left. exists a. exact Hun.
      + cbn [map rview snd]. rewrite Hun, IH2. reflexivity.
      + intros _. cbn [existsb ropened]. rewrite Hun. reflexivity.
  Qed.

  Lemma blocks_dict_fold l : forall acc,
    NoDup (map fst acc ++ map ab_tag l) ->
    fold_left (fun d a => dict_set N.eqb d (ab_tag a) a) l acc = acc ++ map (fun a => (ab_tag a, a)) l.
  Proof.
    induction l as [|a l IH]; intros acc ND; cbn [fold_left map].
    - rewrite app_nil_r. reflexivity.
    - assert (Hfresh : dict_mem N.eqb acc (ab_tag a) = false).
      { destruct (dict_mem N.eqb acc (ab_tag a)) eqn:E; [|reflexivity].
        exfalso. cbn [map] in ND. apply NoDup_remove_2 in ND. apply ND.
        apply in_or_app. left.
        clear - E. induction acc as [|[k v] acc IHa]; simpl in *; [discriminate|].
        apply orb_true_iff in E as [E|E]; [left; apply N.eqb_eq in E; exact E|right; exact (IHa E)]. }
      assert (Hset : dict_set N.eqb acc (ab_tag a) a = acc ++ [(ab_tag a, a)]).
      { clear - Hfresh. induction acc as [|[k v] acc IHa]; simpl in *; [reflexivity|].
        apply orb_false_iff in Hfresh as [H1 H2]. rewrite H1, IHa by exact H2. reflexivity. }
      rewrite Hset, IH.
      + rewrite <- app_assoc. reflexivity.
      + rewrite map_app. cbn [map fst]. rewrite <- app_assoc. exact ND.
  Qed.

  Lemma map_tag_snd bs : Forall (fun '(t, a) => t = ab_tag a) bs ->
    map ab_tag (map snd bs) = map fst bs /\ map (fun a => (ab_tag a, a)) (map snd bs) = bs.
  Proof.
    induction bs as [|[t a] bs IH]; intro Ht; [split; reflexivity|].
    inversion Ht as [|? ? Hta Ht']; subst. destruct (IH Ht') as [I1 I2].
    cbn [map fst snd]. rewrite I1, I2. split; reflexivity.
  Qed.

  Lemma blocks_dict_id bs :
    NoDup (map fst bs) -> Forall (fun '(t, a) => t = ab_tag a) bs ->
    blocks_dict (map snd bs) = bs.
  Proof.
    intros ND Ht. unfold blocks_dict. destruct (map_tag_snd bs Ht) as [Hm Hi].
    rewrite blocks_dict_fold by (cbn [map app]; rewrite Hm; exact ND).
    cbn [app]. exact Hi.
  Qed.

  Theorem bec2_read_write_all f bs key encs decs nk t nk' check nr :
    blen key = 16 -> wf_file f -> bs <> [] ->
    NoDup (map fst bs) -> all_match bs encs decs ->
    bec2_write_file enc mac sha256 pub_of ecdh keygen (mkBec2 f bs key) encs nk = Ok (t, nk') ->
    bec2_read_file dec mac sha256 valid_pub ecdh rand16 t decs check nr =
      Ok (mkBec2 (file_view f) bs key, nr).
  Proof.
    intros Hk Hwf Hne ND Hm Hw.
    destruct (bec2_read_write f bs key encs decs nk t nk' check nr Hk Hwf Hw) as [pl [Epl Hrd]].
    pose proof (pack_list_each _ _ _ _ _ _ Epl) as H2.
    destruct (all_match_good bs encs decs key pl Hk Hm H2) as [Hg [Hv Ho]].
    assert (Hpl : pl <> []).
    { intro Hn. subst pl. inversion H2. subst. contradiction. }
    rewrite (Hrd Hg (Ho Hpl)), Hv.
    rewrite blocks_dict_id; [reflexivity|exact ND|].
    clear - Hm. unfold all_match in Hm. induction Hm as [|[t a] bs [Ht _] Hm IH]; constructor; assumption.
  Qed.
End WithPlugins.
