(* C03: the hex text printed by write_bf3_format has the documented layout;
   the adapter's MAC is the CBC-MAC (last chaining value) of the zero-padded data. *)
From Coq Require Import List Bool NArith ZArith Lia.
From Coq Require Import Init.Byte.
From Bec2 Require Import Base.Result Base.Bytes Gen.Consts Model.Bf3 Model.Cbc Model.Layout
  Proofs.LayoutProofs.
Import ListNotations.
Open Scope N_scope.

(* ---- text ---------------------------------------------------------------------- *)
Lemma hexdigit_hex_char d : d < 16 -> hex_char d (hexdigit d).
Proof.
  intro H. unfold hexdigit. destruct (d <? 10) eqn:E.
  - apply N.ltb_lt in E. constructor. exact E.
  - apply N.ltb_ge in E. constructor; assumption.
Qed.

Lemma hex_of_bytes_is b : is_hex_of b (hex_of_bytes b).
Proof.
  induction b as [|x b IH]; [constructor|].
  unfold hex_of_bytes in *. cbn [flat_map app]. pose proof (b2n_lt x) as Hx.
  constructor; [| |exact IH]; apply hexdigit_hex_char.
  - apply N.div_lt_upper_bound; lia.
  - apply N.mod_upper_bound. lia.
Qed.

Lemma is_hex_of_len b s : is_hex_of b s -> blen s = 2 * blen b.
Proof. induction 1; [reflexivity|]. rewrite !blen_cons, IHis_hex_of. lia. Qed.

Definition upper_hex_digit (c : N) : Prop := (48 <= c /\ c <= 57) \/ (65 <= c /\ c <= 70).

Lemma hex_char_upper d c : hex_char d c -> upper_hex_digit c.
Proof. destruct 1; unfold upper_hex_digit; lia. Qed.

Lemma is_hex_of_upper b s : is_hex_of b s -> Forall upper_hex_digit s.
Proof.
  induction 1; constructor; [eapply hex_char_upper; eassumption|].
  constructor; [eapply hex_char_upper; eassumption|assumption].
Qed.

Lemma print_comments_is (cm : comments) :
  is_comment_lines cm (flat_map (fun '(k, v) => k ++ [COLON; SPACE] ++ v ++ [NL]) cm).
Proof.
  induction cm as [|[k v] cm IH]; [constructor|].
  cbn [flat_map]. rewrite <- !app_assoc. apply (cl_cons k v cm _ IH).
Qed.

Lemma firstn_skipn_blen {A} (b : list A) :
  40 < blen b -> blen (firstn 40 b) = 40 /\ blen (skipn 40 b) = blen b - 40.
Proof.
  unfold blen. intro H. rewrite firstn_length, skipn_length. lia.
Qed.

Lemma hex_lines_is n : forall b,
  40 * N.of_nat n <= blen b + 78 -> blen b + 78 < 40 * N.of_nat n + 40 ->
  is_hex_lines b (hex_lines n b).
Proof.
  induction n as [|n IH]; intros b H1 H2; [simpl in H2; lia|].
  cbn [hex_lines].
  destruct (N.le_gt_cases (blen b) 40) as [Hle|Hgt].
  - assert (F : firstn 40 b = b) by (apply firstn_all2; unfold blen in Hle; lia).
    assert (S' : skipn 40 b = []) by (apply skipn_all2; unfold blen in Hle; lia).
    rewrite F, S'.
    assert (Hn : n = 0%nat \/ n = 1%nat) by lia.
    assert (Ht : is_hex_lines [] (hex_lines n [])).
    { destruct Hn as [-> | ->]; constructor; [left|right]; reflexivity. }
    destruct b as [|x b'] eqn:Eb.
    + (* no data: exactly one (empty) line *)
      assert (n = 0%nat) by (rewrite blen_nil in H1; lia). subst n.
      constructor. right. reflexivity.
    + rewrite <- Eb in *. rewrite <- (app_nil_r b) at 1.
      apply hl_line; [rewrite Eb; discriminate|exact Hle|intro Hc; contradiction|apply hex_of_bytes_is|exact Ht].
  - destruct (firstn_skipn_blen b Hgt) as [L1 L2].
    rewrite <- (firstn_skipn 40 b) at 1.
    apply hl_line.
    + intro Hn. rewrite Hn in L1. discriminate L1.
    + lia.
    + intros _. exact L1.
    + apply hex_of_bytes_is.
    + apply IH; lia.
Qed.

Theorem write_bf3_format_text cm raw : is_bf3_text cm raw (write_bf3_format cm raw).
Proof.
  unfold is_bf3_text, write_bf3_format.
  exists (flat_map (fun '(k, v) => k ++ [COLON; SPACE] ++ v ++ [NL]) cm),
         (hex_lines (N.to_nat (n_hex_lines (blen raw))) raw).
  split; [apply print_comments_is|]. split; [|reflexivity].
  apply hex_lines_is; rewrite N2Nat.id; unfold n_hex_lines;
    change (END_OF_LINE / 2 - 1) with 39; change (END_OF_LINE / 2) with 40.
  - replace (blen raw + 78) with (blen raw + 39 + 39) by lia.
    apply N.mul_div_le. lia.
  - pose proof (N.div_mod (blen raw + 39 + 39) 40 ltac:(lia)) as E.
    pose proof (N.mod_upper_bound (blen raw + 39 + 39) 40 ltac:(lia)) as U. lia.
Qed.

(* consequences spelled out: every line is at most 80 columns of upper-case hex,
   and a line followed by further data is exactly 80 columns *)
Lemma is_hex_lines_widths b t : is_hex_lines b t ->
  exists lines : list text, exists tail : text,
    t = flat_map (fun l => l ++ [T_NL]) lines ++ tail /\ (tail = [] \/ tail = [T_NL]) /\
    Forall (fun l => Forall upper_hex_digit l /\ 1 <= blen l /\ blen l <= 80) lines /\
    (forall l, In l (removelast lines) -> blen l = 80) /\
    blen (concat lines) = 2 * blen b.
Proof.
  induction 1 as [t Ht|l b s t Hne Hle Hfull Hs Ht IH].
  - exists [], t. cbn. repeat split; auto. intros ? [].
  - destruct IH as [lines [tail [-> [Htail [Hall [Hrl Hlen]]]]]].
    exists (s :: lines), tail. pose proof (is_hex_of_len _ _ Hs) as Ls.
    split; [cbn [flat_map]; rewrite <- !app_assoc; reflexivity|]. split; [exact Htail|].
    split; [|split].
    + constructor; [|exact Hall]. split; [eapply is_hex_of_upper; eassumption|].
      destruct l; [contradiction|]. rewrite blen_cons in *. lia.
    + intros l0 Hin. destruct lines as [|l1 lines']; [contradiction|].
      cbn [removelast] in Hin. destruct Hin as [<-|Hin].
      * rewrite Ls, Hfull; [reflexivity|].
        intro Hb. subst b. cbn [concat] in Hlen. rewrite blen_app in Hlen. change (blen (@nil byte)) with 0 in Hlen.
        inversion Hall as [|? ? [_ [Hl1 _]] _]; subst. lia.
      * apply Hrl. exact Hin.
    + cbn [concat]. rewrite !blen_app, Hlen, Ls. lia.
Qed.

(* ---- CBC-MAC --------------------------------------------------------------------- *)
Lemma zero_padded_eq d : zero_padded d = zero_pad d.
Proof. reflexivity. Qed.

Lemma lastN_app_ge {A} (a b : list A) n : n <= blen b -> lastN n (a ++ b) = lastN n b.
Proof.
  intro H. unfold lastN. rewrite !dropN_skipn, blen_app.
  replace (N.to_nat (blen a + blen b - n)) with (length a + N.to_nat (blen b - n))%nat
    by (unfold blen in *; lia).
  rewrite skipn_app. replace (length a + N.to_nat (blen b - n) - length a)%nat with (N.to_nat (blen b - n)) by lia.
  rewrite skipn_all2 by lia. reflexivity.
Qed.

Section CbcMacProof.
  Variable E : bytes -> bytes -> bytes.
  Hypothesis E_len : forall k b, length b = 16%nat -> length (E k b) = 16%nat.

  Lemma xor_len a b : length a = 16%nat -> length b = 16%nat -> length (xor_bytes a b) = 16%nat.
  Proof.
    revert b. induction a as [|x a IH]; intros [|y b] Ha Hb; simpl in *; try lia.
    destruct (Nat.eq_dec (length a) 0) as [Z|NZ].
    - destruct a; [|simpl in Z; lia]. simpl in Ha. lia.
    - clear IH. revert Ha Hb. generalize 15%nat. intros. 
      assert (G : forall (a b : bytes), length a = length b -> length (xor_bytes a b) = length a).
      { clear. induction a as [|x a IH]; intros [|y b] H; simpl in *; try lia. rewrite IH; lia. }
      rewrite G; lia.
  Qed.

  Lemma cbc_enc_chain k m : forall f d prev, (1 <= m)%nat ->
    length d = (16 * m)%nat -> (16 * m <= f)%nat -> length prev = 16%nat ->
    length (cbc_enc E f k prev d) = (16 * m)%nat /\
    lastN 16 (cbc_enc E f k prev d) = chain E xor_bytes f k prev d.
  Proof.
    induction m as [|m IH]; intros f d prev Hm Hd Hf Hp; [lia|].
    destruct f as [|f]; [lia|].
    destruct d as [|x0 d0] eqn:Ed; [simpl in Hd; lia|]. rewrite <- Ed in *.
    assert (Hb : length (firstn 16 d) = 16%nat) by (rewrite firstn_length; lia).
    assert (Hs : length (skipn 16 d) = (16 * m)%nat) by (rewrite skipn_length; lia).
    assert (Hc : length (E k (xor_bytes (firstn 16 d) prev)) = 16%nat) by (apply E_len, xor_len; assumption).
    assert (Ee : cbc_enc E (S f) k prev d =
                 E k (xor_bytes (firstn 16 d) prev) ++
                 cbc_enc E f k (E k (xor_bytes (firstn 16 d) prev)) (skipn 16 d)).
    { rewrite Ed. reflexivity. }
    assert (Ec : chain E xor_bytes (S f) k prev d =
                 chain E xor_bytes f k (E k (xor_bytes (firstn 16 d) prev)) (skipn 16 d)).
    { rewrite Ed. reflexivity. }
    rewrite Ee, Ec. set (c := E k (xor_bytes (firstn 16 d) prev)) in *.
    destruct m as [|m'].
    - (* last block *)
      destruct (skipn 16 d) as [|y t] eqn:Es; [|simpl in Hs; lia].
      assert (Z : cbc_enc E f k c [] = []) by (destruct f; reflexivity).
      assert (Z' : chain E xor_bytes f k c [] = c) by (destruct f; reflexivity).
      rewrite Z, Z', app_nil_r. split; [lia|].
      unfold lastN. replace (blen c - 16) with 0 by (unfold blen; lia). apply dropN_0.
    - destruct (IH f (skipn 16 d) c ltac:(lia) Hs ltac:(lia) Hc) as [IHl IHm].
      split; [rewrite app_length, IHl, Hc; lia|].
      rewrite lastN_app_ge by (unfold blen; lia). exact IHm.
  Qed.

  Theorem adapter_mac_is_cbc_mac k iv d m :
    d <> [] -> adapter_mac E k iv d = Ok m ->
    m = lastN 16 (cbc_enc E (length (zero_pad d)) k (the_iv iv) (zero_pad d)) /\
    m = cbc_mac_spec E xor_bytes k (the_iv iv) d.
  Proof.
    intros Hne H. unfold adapter_mac in H.
    destruct d as [|x0 d0] eqn:Ed; [contradiction|]. rewrite <- Ed in *.
    unfold adapter_encrypt in H. rewrite Ed in H at 1.
    destruct (key_ok k); cbn [negb] in H; [|discriminate H].
    destruct (blen (the_iv iv) =? 16) eqn:Ei; cbn [negb bind] in H; [|discriminate H].
    inversion H; subst m. clear H. split; [reflexivity|].
    unfold cbc_mac_spec. change (zero_padded d) with (zero_pad d).
    apply N.eqb_eq in Ei.
    assert (Hz : blen (zero_pad d) mod 16 = 0 /\ blen d <= blen (zero_pad d)).
    { unfold zero_pad. rewrite blen_app, blen_zeros, N2Nat.id.
      pose proof (N.mod_upper_bound (blen d) 16 ltac:(lia)) as Hm.
      pose proof (N.div_mod (blen d) 16 ltac:(lia)) as Hd.
      set (q := blen d / 16) in *. set (r := blen d mod 16) in *.
      split; [|apply N.le_add_r].
      destruct (N.eq_dec r 0) as [Hr|Hr].
      - rewrite Hr. change ((16 - 0) mod 16) with 0. rewrite Hd, Hr.
        replace (16 * q + 0 + 0) with (q * 16) by lia. apply N.mod_mul. lia.
      - rewrite (N.mod_small (16 - r)) by lia. rewrite Hd.
        replace (16 * q + r + (16 - r)) with ((q + 1) * 16) by lia. apply N.mod_mul. lia. }
    destruct Hz as [Hz Hle].
    pose proof (N.div_mod (blen (zero_pad d)) 16 ltac:(lia)) as Hdm. rewrite Hz in Hdm.
    set (m := N.to_nat (blen (zero_pad d) / 16)).
    assert (Hl : length (zero_pad d) = (16 * m)%nat) by (unfold m, blen in *; lia).
    assert (Hd1 : 1 <= blen d) by (rewrite Ed, blen_cons; lia).
    apply (cbc_enc_chain k m); [unfold blen in *; lia|exact Hl|lia|unfold blen in Ei; lia].
  Qed.
End CbcMacProof.
