(* C05: the reader of Model/Bf3.v accepts a binary exactly when it has the
   declarative layout of Model/Layout.v (and the payloads it is asked to
   decrypt can be decrypted), and returns what the fields say. *)
From Coq Require Import List Bool NArith ZArith Lia.
From Coq Require Import Init.Byte.
From Bec2 Require Import Base.Result Base.Bytes Base.Reader Gen.Consts Model.Bf3 Model.Layout
  Proofs.Bf3Proofs Proofs.LayoutProofs Proofs.LayoutWriterProofs.
Import ListNotations.
Open Scope N_scope.

(* ---- inversion of the reader primitives --------------------------------------- *)
Lemma rd_read_int_inv n r v r' :
  rd_read_int (N.of_nat n) r = Ok (v, r') ->
  rest r = be n v ++ rest r' /\ v < 256 ^ N.of_nat n /\ pos r' = pos r + N.of_nat n.
Proof.
  unfold rd_read_int. intro H. binv H as [b r1] E. inversion H; subst. clear H.
  apply rd_read_ok in E as [E1 [E2 E3]].
  rewrite (be_from_be_n n b E2). split; [exact E1|]. split; [apply from_be_lt_n, E2|exact E3].
Qed.

Lemma rd_ensure_eof_inv r u : rd_ensure_eof r = Ok u -> rest r = [].
Proof.
  unfold rd_ensure_eof, rd_eof. destruct (rest r); [reflexivity|discriminate].
Qed.

Lemma reader_eta r : r = mkR (rest r) (pos r).
Proof. destruct r; reflexivity. Qed.

Definition ef_of (e : dentry) : entry_fields :=
  mkEF (e_adr e) (e_total e) (e_alen e) (e_pmac e) (e_desc e).
Definition dentry_of (f : entry_fields) : dentry :=
  mkDentry (ef_adr f) (ef_total f) (ef_actual f) (ef_pmac f) (ef_tags f).
Lemma ef_of_dentry_of f : ef_of (dentry_of f) = f.
Proof. destruct f; reflexivity. Qed.
Lemma dentry_of_ef_of e : dentry_of (ef_of e) = e.
Proof. destruct e; reflexivity. Qed.

(* ---- tags ------------------------------------------------------------------------ *)
Lemma NoDup_app_one {A} (l : list A) a : NoDup l -> ~ In a l -> NoDup (l ++ [a]).
Proof.
  induction l as [|x l IH]; intros ND Hn; cbn [app].
  - constructor; [intros []|constructor].
  - inversion ND; subst. constructor.
    + intro Hin. apply in_app_or in Hin as [Hin|[Hin|[]]]; [contradiction|].
      apply Hn. left. symmetry. exact Hin.
    + apply IH; [assumption|]. intro Hin. apply Hn. right. exact Hin.
Qed.

Lemma parse_tags_sound fuel : forall r acc d,
  parse_tags fuel r acc = Ok d -> NoDup (map fst acc) ->
  exists tags, d = acc ++ tags /\ tag_bytes tags (rest r) /\ NoDup (map fst d).
Proof.
  induction fuel as [|fuel IH]; intros r acc d H ND; [discriminate H|].
  cbn [parse_tags] in H. unfold rd_eof in H.
  destruct (rest r) as [|x0 b0] eqn:Er.
  - inversion H; subst. exists []. rewrite app_nil_r. split; [reflexivity|]. split; [constructor|exact ND].
  - rewrite <- Er in *. clear x0 b0 Er.
    binv H as [id r1] E1. binv H as [tl r2] E2. binv H as [tv r3] E3.
    destruct (dict_mem N.eqb acc id) eqn:Em; [discriminate H|].
    apply (rd_read_int_inv 1) in E1 as [R1 [Hid _]].
    apply (rd_read_int_inv 1) in E2 as [R2 [Htl _]].
    apply rd_read_ok in E3 as [R3 [Ltv _]].
    rewrite (dict_set_fresh _ _ _ Em) in H.
    assert (ND' : NoDup (map fst (acc ++ [(id, tv)]))).
    { rewrite map_app. cbn [map fst]. apply NoDup_app_one; [exact ND|].
      intro Hin. apply dict_mem_in in Hin. congruence. }
    destruct (IH _ _ _ H ND') as [tags [-> [Ht NDd]]].
    exists ((id, tv) :: tags). rewrite <- app_assoc. split; [reflexivity|]. split; [|rewrite <- app_assoc in NDd; exact NDd].
    rewrite R1, R2, R3, <- Ltv. constructor; [exact Hid|rewrite Ltv; exact Htl|exact Ht].
Qed.

Lemma parse_tags_complete tags tb p :
  is_tag_list tags tb -> parse_tags (S (length tb)) (mkR tb p) [] = Ok tags.
Proof.
  intros [Ht ND]. apply (parse_tags_ser tags tb _ [] p).
  - apply ser_tags_tag_bytes, Ht.
  - exact ND.
  - pose proof (tag_bytes_len _ _ Ht) as L. unfold tag in *. lia.
Qed.

Section Reader.
  Variable mac : bytes -> option bytes -> bytes -> result bytes.
  Variable check : bool.

  (* the reader's MAC test is the layout's MAC clause *)
  Lemma reader_mac_check k iv d m :
    (if check then let* a := mac k iv d in if bytes_eqb m a then Ok tt else Err EBf3 else Ok tt) = Ok tt
    <-> mac_is mac check k iv d m.
  Proof.
    unfold mac_is. destruct check; [|tauto].
    destruct (mac k iv d) as [a|e]; cbn [bind]; [|split; discriminate].
    destruct (bytes_eqb m a) eqn:E.
    - apply bytes_eqb_eq in E. subst. tauto.
    - split; [discriminate|]. intro H. inversion H; subst. rewrite bytes_eqb_refl in E. discriminate.
  Qed.

  Lemma reader_mac_check' k iv d m :
    (if check then let* a := mac k iv d in if bytes_eqb a m then Ok tt else Err EBf3 else Ok tt) = Ok tt
    <-> mac_is mac check k iv d m.
  Proof.
    unfold mac_is. destruct check; [|tauto].
    destruct (mac k iv d) as [a|e]; cbn [bind]; [|split; discriminate].
    destruct (bytes_eqb a m) eqn:E.
    - apply bytes_eqb_eq in E. subst. tauto.
    - split; [discriminate|]. intro H. inversion H; subst. rewrite bytes_eqb_refl in E. discriminate.
  Qed.

  Lemma parse_entry_sound entry ndx k de er :
    parse_entry mac entry ndx check k = Ok (de, er) -> rest er = [] ->
    is_dir_entry mac check k ndx (e_adr de) (e_total de) (e_alen de) (e_pmac de) (e_desc de) entry /\
    e_alen de <= e_total de.
  Proof.
    unfold parse_entry, new_reader. change CMAC_SIZE with 16. intros H Her.
    binv H as [adr r1] E1. binv H as [total r2] E2. binv H as [alen r3] E3.
    destruct (total <? alen) eqn:Elt; [discriminate H|]. apply N.ltb_ge in Elt.
    binv H as [pmac r4] E4. binv H as iv E5. binv H as [dl r5] E6. binv H as [db r6] E7.
    binv H as d E8. binv H as [stored r7] E9. binv H as u E10. inversion H; subst de er. clear H.
    cbn [e_adr e_total e_alen e_pmac e_desc].
    apply (rd_read_int_inv 4) in E1 as [R1 [Hadr _]]. cbn [rest] in R1.
    apply (rd_read_int_inv 4) in E2 as [R2 [Htot _]].
    apply (rd_read_int_inv 4) in E3 as [R3 [Hal _]].
    apply rd_read_ok in E4 as [R4 [Lp _]].
    apply to_bytes_be in E5 as [-> Hidx].
    apply (rd_read_int_inv 1) in E6 as [R6 [Hdl _]].
    apply rd_read_ok in E7 as [R7 [Ldb _]].
    apply rd_read_ok in E9 as [R9 [Lst _]].
    apply parse_tags_sound in E8 as [tags [Ed [Ht ND]]]; [|constructor].
    cbn [app rest] in Ed, Ht. subst d.
    rewrite Her, app_nil_r in R9.
    assert (Ee : entry = (be 4 adr ++ be 4 total ++ be 4 alen ++ pmac ++ be 1 (blen db) ++ db) ++ stored).
    { rewrite R1, R2, R3, R4, R6, R7, R9, Ldb, <- !app_assoc. reflexivity. }
    split; [|exact Elt].
    destruct u. apply reader_mac_check in E10.
    rewrite Ee at 1. rewrite Ee in E10.
    rewrite takeN_app_exact' in E10.
    2:{ rewrite !blen_app, Lst. lia. }
    constructor.
    - rewrite <- p32; exact Hadr.
    - rewrite <- p32; exact Htot.
    - rewrite <- p32; exact Hal.
    - exact Lp.
    - split; assumption.
    - rewrite Ldb. exact Hdl.
    - rewrite <- p128. exact Hidx.
    - exact Lst.
    - exact E10.
  Qed.

  Lemma parse_entry_complete k idx adr total actual pmac tags e :
    is_dir_entry mac check k idx adr total actual pmac tags e -> actual <= total ->
    exists er, parse_entry mac e idx check k = Ok (mkDentry adr total actual pmac tags, er) /\ rest er = [].
  Proof.
    intros [tb emac Ha Ht Hc Lp Htl Ltb Hidx Le Hm] Hle.
    unfold parse_entry, new_reader. change CMAC_SIZE with 16.
    set (body := be 4 adr ++ be 4 total ++ be 4 actual ++ pmac ++ be 1 (blen tb) ++ tb) in *.
    assert (Et : takeN (blen (body ++ emac) - 16) (body ++ emac) = body).
    { apply takeN_app_exact'. rewrite blen_app, Le. lia. }
    rewrite Et. subst body.
    rewrite <- !app_assoc.
    rewrite (rd_read_int_be 4 adr) by (rewrite p32; exact Ha). cbn [bind].
    rewrite (rd_read_int_be 4 total) by (rewrite p32; exact Ht). cbn [bind].
    rewrite (rd_read_int_be 4 actual) by (rewrite p32; exact Hc). cbn [bind].
    destruct (total <? actual) eqn:Elt; [apply N.ltb_lt in Elt; lia|].
    rewrite (rd_read_exact 16 pmac) by exact Lp. cbn [bind].
    unfold to_bytes. rewrite p128. destruct (idx <? 2 ^ 128) eqn:Ei; [|apply N.ltb_ge in Ei; lia]. cbn [bind].
    rewrite (rd_read_int_be 1 (blen tb)) by exact Ltb. cbn [bind].
    rewrite rd_read_app. cbn [bind].
    rewrite (parse_tags_complete tags tb 0 Htl). cbn [bind].
    rewrite (rd_read_exact_all 16 emac) by exact Le. cbn [bind].
    rewrite (proj2 (reader_mac_check _ _ _ _) Hm). cbn [bind].
    eexists. split; reflexivity.
  Qed.
End Reader.

(* what the reader makes of one field record *)
Definition enc_tagged (tags : list tag) : bool :=
  match dict_get N.eqb tags BF3TAG_ENC with
  | Some v => bytes_eqb v enc_tag_value
  | None => false
  end.

(* Bf3Component.__init__: actual_len or len(blob) *)
Definition declared (actual : N) (blob : bytes) : N :=
  if actual =? 0 then blen blob else actual.

Section Reader2.
  Variable dec mac : bytes -> option bytes -> bytes -> result bytes.
  Variable check : bool.

  Definition field_comp (k : bytes) (f : field_record) (c : comp) : Prop :=
    c_desc c = ef_tags (fr_entry f) /\
    (if enc_tagged (ef_tags (fr_entry f))
     then dec k None (fr_payload f) = Ok (c_blob c) /\ c_enc c = true
     else c_blob c = fr_payload f /\ c_enc c = false) /\
    c_alen c = declared (ef_actual (fr_entry f)) (c_blob c).

  Definition decryptable (k : bytes) (fs : list field_record) : Prop :=
    Forall (fun f => enc_tagged (ef_tags (fr_entry f)) = true ->
                     exists p, dec k None (fr_payload f) = Ok p) fs.

  Definition len_ok (e : dentry) : Prop := e_alen e <= e_total e.

  Lemma parse_dir_sound fuel : forall dr len ndx k acc es dr',
    parse_dir mac fuel dr len ndx check k acc = Ok (es, dr') -> len < 256 ->
    exists es' ents, es = rev acc ++ es' /\
      be 1 len ++ rest dr = ents ++ [x00] ++ rest dr' /\
      is_entries mac check k ndx (map ef_of es') ents /\ Forall len_ok es'.
  Proof.
    induction fuel as [|fuel IH]; intros dr len ndx k acc es dr' H Hlen; [discriminate H|].
    cbn [parse_dir] in H. destruct (len =? 0) eqn:Ez.
    - apply N.eqb_eq in Ez. subst len. inversion H; subst. exists [], [].
      rewrite app_nil_r. split; [reflexivity|]. split; [reflexivity|]. split; constructor.
    - binv H as [entry dr1] E1. binv H as [e er] E2. binv H as [len' dr2] E3. binv H as u E4.
      apply rd_read_ok in E1 as [R1 [Le _]].
      apply (rd_read_int_inv 1) in E3 as [R3 [Hl' _]].
      apply rd_ensure_eof_inv in E4.
      destruct (parse_entry_sound mac check _ _ _ _ _ E2 E4) as [Hde Hlo].
      destruct (IH _ _ _ _ _ _ _ H Hl') as [es' [ents [-> [Eb [Hents Hall]]]]].
      exists (e :: es'), (be 1 (blen entry) ++ entry ++ ents).
      split; [cbn [rev]; rewrite <- app_assoc; reflexivity|].
      split; [rewrite R1, R3, Le, Eb, <- !app_assoc; reflexivity|].
      split; [|constructor; assumption].
      cbn [map]. constructor; [exact Hde|rewrite Le; exact Hlen|exact Hents].
  Qed.

  Lemma parse_dir_complete k idx efs ents : is_entries mac check k idx efs ents ->
    Forall (fun f => ef_actual f <= ef_total f) efs ->
    forall fuel acc tail p, (length efs < fuel)%nat ->
    parse_dir' mac fuel (mkR (ents ++ [x00] ++ tail) p) idx check k acc =
      Ok (rev acc ++ map dentry_of efs, mkR tail (p + blen ents + 1)).
  Proof.
    induction 1 as [idx|idx f fs e rest He Le Hr IH]; intros Hall fuel acc tail p Hf;
      (destruct fuel as [|fuel]; [simpl in Hf; lia|]); unfold parse_dir'.
    - cbn [app]. change (x00 :: tail) with (be 1 0 ++ tail).
      rewrite (rd_read_int_be 1 0) by (vm_compute; reflexivity). cbn [bind parse_dir N.eqb map].
      rewrite app_nil_r. f_equal. f_equal. f_equal. rewrite blen_nil. change (N.of_nat 1) with 1. lia.
    - inversion Hall as [|? ? Hf1 Hall']; subst.
      rewrite <- !app_assoc.
      rewrite (rd_read_int_be 1 (blen e)) by exact Le. cbn [bind parse_dir].
      pose proof (dir_entry_len _ _ _ _ _ _ _ _ _ _ He) as L45.
      destruct (blen e =? 0) eqn:Ez; [apply N.eqb_eq in Ez; lia|].
      rewrite rd_read_app. cbn [bind].
      destruct (parse_entry_complete mac check _ _ _ _ _ _ _ _ He Hf1) as [er [Epe Her]].
      rewrite Epe. cbn [bind].
      specialize (IH Hall' fuel (dentry_of f :: acc) tail (p + N.of_nat 1 + blen e) ltac:(simpl in Hf; lia)).
      unfold parse_dir' in IH.
      destruct (rd_read_int 1 {| rest := rest ++ [x00] ++ tail; pos := p + N.of_nat 1 + blen e |})
        as [[len' dr']|] eqn:Er; cbn [bind] in IH |- *; [|discriminate].
      unfold rd_ensure_eof, rd_eof. rewrite Her. cbn [bind].
      replace (mkDentry (ef_adr f) (ef_total f) (ef_actual f) (ef_pmac f) (ef_tags f)) with (dentry_of f) by reflexivity.
      rewrite IH. cbn [rev map]. rewrite <- app_assoc. cbn [app].
      f_equal. f_equal. f_equal. rewrite !blen_app, be_blen. change (N.of_nat 1) with 1. lia.
  Qed.

  Lemma dir_from_binary_sound r k es r' :
    dir_from_binary mac r check k = Ok (es, r') ->
    exists ents, rest r = be 4 (blen (ents ++ [x00])) ++ (ents ++ [x00]) ++ rest r' /\
      blen (ents ++ [x00]) < 2 ^ 32 /\ pos r' = pos r + 4 + blen (ents ++ [x00]) /\
      is_entries mac check k 1 (map ef_of es) ents /\ Forall len_ok es.
  Proof.
    unfold dir_from_binary. intro H.
    binv H as [total r1] E1. binv H as [db r2] E2. binv H as [len dr1] E3.
    binv H as [es' dr2] E4. binv H as u E5. inversion H; subst es' r2. clear H.
    apply (rd_read_int_inv 4) in E1 as [R1 [Htot P1]].
    apply rd_read_ok in E2 as [R2 [Ldb P2]].
    apply (rd_read_int_inv 1) in E3 as [R3 [Hlen _]]. cbn [new_reader rest] in R3.
    apply rd_ensure_eof_inv in E5.
    destruct (parse_dir_sound _ _ _ _ _ _ _ _ E4 Hlen) as [es' [ents [Ees [Eb [Hents Hall]]]]].
    cbn [rev app] in Ees. subst es'. rewrite E5 in Eb. rewrite <- R3 in Eb.
    change ([x00] ++ []) with [x00] in Eb.
    exists ents. rewrite <- Eb, Ldb, R1, R2.
    split; [reflexivity|]. split; [rewrite <- p32; exact Htot|]. split; [|split; assumption].
    rewrite P2, P1. change (N.of_nat 4) with 4. reflexivity.
  Qed.

  Lemma dir_from_binary_complete k efs ents tail p :
    is_entries mac check k 1 efs ents -> Forall (fun f => ef_actual f <= ef_total f) efs ->
    blen (ents ++ [x00]) < 2 ^ 32 ->
    dir_from_binary mac (mkR (be 4 (blen (ents ++ [x00])) ++ (ents ++ [x00]) ++ tail) p) check k =
      Ok (map dentry_of efs, mkR tail (p + 4 + blen (ents ++ [x00]))).
  Proof.
    intros He Hall Hs. unfold dir_from_binary.
    rewrite (rd_read_int_be 4 _) by (rewrite p32; exact Hs). cbn [bind].
    rewrite rd_read_app. cbn [bind].
    assert (Hn : (length efs < S (length (ents ++ [x00])))%nat).
    { clear - He. induction He; cbn [length]; [lia|].
      rewrite !app_length in *. rewrite be_length. cbn [length] in *. lia. }
    pose proof (parse_dir_complete k 1 efs ents He Hall (S (length (ents ++ [x00]))) [] [] 0 Hn) as Hp.
    unfold parse_dir' in Hp. change ([x00] ++ []) with [x00] in Hp. unfold new_reader.
    destruct (rd_read_int 1 {| rest := ents ++ [x00]; pos := 0 |}) as [[len dr]|] eqn:Er;
      cbn [bind] in Hp |- *; [|discriminate].
    rewrite Hp. cbn [bind rev app]. unfold rd_ensure_eof, rd_eof. cbn [rest bind].
    change (N.of_nat 4) with 4. reflexivity.
  Qed.

  Lemma read_comps_sound k : forall es r cs r',
    read_comps dec mac es r check k = Ok (cs, r') -> Forall len_ok es ->
    exists fs pl, map fr_entry fs = map ef_of es /\ rest r = pl ++ rest r' /\
      payloads_at mac check k (pos r) fs pl /\ Forall2 (field_comp k) fs cs.
  Proof.
    induction es as [|e es IH]; intros r cs r' H Hall; cbn [read_comps] in H.
    - inversion H; subst. exists [], []. repeat split; constructor.
    - destruct (e_adr e =? pos r) eqn:Ea; cbn [negb] in H; [|discriminate H]. apply N.eqb_eq in Ea.
      binv H as [payload r1] E1. binv H as u E2. binv H as c E3. binv H as [cs' r2] E4.
      inversion H; subst cs r2. clear H.
      inversion Hall as [|? ? Hlo Hall']; subst.
      apply rd_read_ok in E1 as [R1 [Lp P1]].
      destruct u. apply reader_mac_check' in E2.
      destruct (IH _ _ _ E4 Hall') as [fs [pl [Em [R2 [Hp Hc]]]]].
      exists (mkFR (ef_of e) payload :: fs), (payload ++ pl).
      split; [cbn [map fr_entry]; rewrite Em; reflexivity|].
      split; [rewrite R1, R2, app_assoc; reflexivity|]. split.
      + apply (pl_cons mac check k (pos r) (mkFR (ef_of e) payload) fs pl);
          cbn [fr_entry fr_payload ef_of ef_adr ef_total ef_actual ef_pmac]; auto.
        rewrite Lp, <- P1. exact Hp.
      + constructor; [|exact Hc]. unfold field_comp, enc_tagged.
        cbn [fr_entry fr_payload ef_of ef_tags ef_actual].
        assert (Hmk : forall b en, c_desc (mk_comp (e_desc e) b (Some (e_alen e)) en) = e_desc e /\
                  c_blob (mk_comp (e_desc e) b (Some (e_alen e)) en) = b /\
                  c_enc (mk_comp (e_desc e) b (Some (e_alen e)) en) = en /\
                  c_alen (mk_comp (e_desc e) b (Some (e_alen e)) en) = declared (e_alen e) b).
        { intros b en. unfold mk_comp, declared. cbn. destruct (e_alen e); auto. }
        destruct (dict_get N.eqb (e_desc e) BF3TAG_ENC) as [v|]; [destruct (bytes_eqb v enc_tag_value)|].
        * binv E3 as b Ed. inversion E3; subst c. destruct (Hmk b true) as [H1 [H2 [H3 H4]]].
          rewrite H1, H2, H3, H4. auto.
        * inversion E3; subst c. destruct (Hmk payload false) as [H1 [H2 [H3 H4]]].
          rewrite H1, H2, H3, H4. auto.
        * inversion E3; subst c. destruct (Hmk payload false) as [H1 [H2 [H3 H4]]].
          rewrite H1, H2, H3, H4. auto.
  Qed.

  Lemma read_comps_complete k a fs pl : payloads_at mac check k a fs pl -> decryptable k fs ->
    forall tail, exists cs,
      read_comps dec mac (map dentry_of (map fr_entry fs)) (mkR (pl ++ tail) a) check k =
        Ok (cs, mkR tail (a + blen pl)) /\ Forall2 (field_comp k) fs cs.
  Proof.
    induction 1 as [a|a f fs rest Ha Ht Hc Hm Hr IH]; intros Hd tail.
    - exists []. cbn. rewrite N.add_0_r. split; [reflexivity|constructor].
    - inversion Hd as [|? ? Hd1 Hd']; subst.
      destruct (IH Hd' tail) as [cs [Erc Hfc]].
      cbn [map read_comps dentry_of e_adr e_total e_pmac e_desc e_alen pos].
      rewrite N.eqb_refl. cbn [negb]. rewrite Ht, <- app_assoc, rd_read_app. cbn [bind].
      rewrite (proj2 (reader_mac_check' mac check _ _ _ _) Hm). cbn [bind].
      assert (Hmk : forall b en, c_desc (mk_comp (ef_tags (fr_entry f)) b (Some (ef_actual (fr_entry f))) en) = ef_tags (fr_entry f) /\
                c_blob (mk_comp (ef_tags (fr_entry f)) b (Some (ef_actual (fr_entry f))) en) = b /\
                c_enc (mk_comp (ef_tags (fr_entry f)) b (Some (ef_actual (fr_entry f))) en) = en /\
                c_alen (mk_comp (ef_tags (fr_entry f)) b (Some (ef_actual (fr_entry f))) en) = declared (ef_actual (fr_entry f)) b).
      { intros b en. unfold mk_comp, declared. cbn. destruct (ef_actual (fr_entry f)); auto. }
      unfold field_comp. unfold enc_tagged in *.
      destruct (dict_get N.eqb (ef_tags (fr_entry f)) BF3TAG_ENC) as [v|] eqn:Eg;
        [destruct (bytes_eqb v enc_tag_value) eqn:Ev|].
      + destruct (Hd1 eq_refl) as [p Ep]. rewrite Ep. cbn [bind]. rewrite Erc. cbn [bind].
        eexists. split; [f_equal; f_equal; f_equal; rewrite blen_app; lia|].
        constructor; [|exact Hfc]. rewrite Eg, Ev. destruct (Hmk p true) as [H1 [H2 [H3 H4]]].
        rewrite H1, H2, H3, H4. auto.
      + cbn [bind]. rewrite Erc. cbn [bind].
        eexists. split; [f_equal; f_equal; f_equal; rewrite blen_app; lia|].
        constructor; [|exact Hfc]. rewrite Eg, Ev. destruct (Hmk (fr_payload f) false) as [H1 [H2 [H3 H4]]].
        rewrite H1, H2, H3, H4. auto.
      + cbn [bind]. rewrite Erc. cbn [bind].
        eexists. split; [f_equal; f_equal; f_equal; rewrite blen_app; lia|].
        constructor; [|exact Hfc]. rewrite Eg. destruct (Hmk (fr_payload f) false) as [H1 [H2 [H3 H4]]].
        rewrite H1, H2, H3, H4. auto.
  Qed.

  Lemma field_comp_decryptable k fs cs : Forall2 (field_comp k) fs cs -> decryptable k fs.
  Proof.
    induction 1 as [|f c fs cs [_ [H _]] _ IH]; constructor; [|exact IH].
    intro Ht. rewrite Ht in H. destruct H as [H _]. eexists. exact H.
  Qed.

  Theorem from_binary_sound b off k cs :
    from_binary dec mac (mkR b off) check k = Ok cs ->
    exists fs, is_bf3_body_gen mac check off k fs b /\ Forall2 (field_comp k) fs cs.
  Proof.
    unfold from_binary. intro H.
    binv H as [es r1] E1. binv H as [cs' r2] E2. binv H as u E3. inversion H; subst cs'. clear H.
    apply dir_from_binary_sound in E1 as [ents [R1 [Hs [P1 [Hents Hall]]]]]. cbn [rest pos] in R1, P1.
    apply rd_ensure_eof_inv in E3.
    destruct (read_comps_sound _ _ _ _ _ E2 Hall) as [fs [pl [Em [R2 [Hp Hc]]]]].
    rewrite E3, app_nil_r in R2. exists fs. split; [|exact Hc].
    rewrite R1, R2. constructor; [rewrite Em; exact Hents|exact Hs|rewrite <- P1; exact Hp].
  Qed.

  Lemma payloads_at_len_ok k a fs pl : payloads_at mac check k a fs pl ->
    Forall (fun f => ef_actual f <= ef_total f) (map fr_entry fs).
  Proof. induction 1; constructor; assumption. Qed.

  Theorem from_binary_complete b off k fs :
    is_bf3_body_gen mac check off k fs b -> decryptable k fs ->
    exists cs, from_binary dec mac (mkR b off) check k = Ok cs /\ Forall2 (field_comp k) fs cs.
  Proof.
    intros [ents pl He Hs Hp] Hd. unfold from_binary.
    rewrite (dir_from_binary_complete k _ ents pl off He (payloads_at_len_ok _ _ _ _ Hp) Hs). cbn [bind].
    destruct (read_comps_complete k _ fs pl Hp Hd []) as [cs [Erc Hfc]].
    rewrite app_nil_r in Erc. rewrite Erc. cbn [bind]. exists cs. split; [reflexivity|exact Hfc].
  Qed.

  Theorem from_binary_accept_iff b off k :
    (exists cs, from_binary dec mac (mkR b off) check k = Ok cs) <->
    (exists fs, is_bf3_body_gen mac check off k fs b /\ decryptable k fs).
  Proof.
    split.
    - intros [cs H]. destruct (from_binary_sound _ _ _ _ H) as [fs [Hb Hc]].
      exists fs. split; [exact Hb|eapply field_comp_decryptable; exact Hc].
    - intros [fs [Hb Hd]]. destruct (from_binary_complete _ _ _ _ Hb Hd) as [cs [H _]]. exists cs. exact H.
  Qed.
End Reader2.

(* ---- consequences used by Properties/C05.v ---------------------------------------- *)
Theorem content_is_fields dec mac check b off k cs :
  from_binary dec mac (mkR b off) check k = Ok cs ->
  forall fs, is_bf3_body_gen mac check off k fs b -> Forall2 (field_comp dec k) fs cs.
Proof.
  intros H fs Hfs.
  destruct (from_binary_sound dec mac check b off k cs H) as [fs' [Hb Hc]].
  rewrite (fields_unique mac check off k b fs fs' Hfs Hb). exact Hc.
Qed.

Theorem content_declared dec mac check b off k cs fs :
  from_binary dec mac (mkR b off) check k = Ok cs -> is_bf3_body_gen mac check off k fs b ->
  Forall (fun f => 1 <= ef_actual (fr_entry f)) fs ->
  Forall2 (fun f c => c_desc c = ef_tags (fr_entry f) /\ c_alen c = ef_actual (fr_entry f) /\
                      c_enc c = enc_tagged (ef_tags (fr_entry f)) /\
                      (if c_enc c then dec k None (fr_payload f) = Ok (c_blob c)
                       else c_blob c = fr_payload f)) fs cs.
Proof.
  intros H Hfs Hd.
  pose proof (content_is_fields dec mac check b off k cs H fs Hfs) as Hc.
  clear H Hfs. induction Hc as [|f c fs cs [H1 [H2 H3]] _ IH]; [constructor|].
  inversion Hd as [|? ? Hd1 Hd']; subst. constructor; [|apply IH, Hd'].
  split; [exact H1|]. split.
  - rewrite H3. unfold declared. destruct (ef_actual (fr_entry f) =? 0) eqn:Ez; [|reflexivity].
    apply N.eqb_eq in Ez. lia.
  - destruct (enc_tagged (ef_tags (fr_entry f))); destruct H2 as [H2 H2']; rewrite H2'; auto.
Qed.

(* file level: what read_file does with the binary once the text is decoded *)
Definition read_bf3_binary dec mac (bin : bytes) (check : bool) (k : bytes) : result (list comp) :=
  let r := new_reader bin in
  let* (hd, r) := rd_read (blen BF3_FILE_SIG) r in
  if negb (bytes_eqb hd BF3_FILE_SIG) then Err EBf3 else from_binary dec mac r check k.

Theorem read_file_is dec mac t check k :
  read_file dec mac t check k =
  (let* (bin, cm) := parse_bf3_file t in
   let* cs := read_bf3_binary dec mac bin check k in Ok (mkBf3 cm cs)).
Proof.
  unfold read_file, read_bf3_binary. destruct (parse_bf3_file t) as [[bin cm]|]; [|reflexivity].
  cbn [bind]. destruct (rd_read (blen BF3_FILE_SIG) (new_reader bin)) as [[hd r]|]; [|reflexivity].
  cbn [bind]. destruct (negb (bytes_eqb hd BF3_FILE_SIG)); reflexivity.
Qed.

Theorem file_accept_iff dec mac bin k :
  (exists cs, read_bf3_binary dec mac bin true k = Ok cs) <->
  (exists fs, is_bf3_file mac k fs bin /\ decryptable dec k fs).
Proof.
  unfold read_bf3_binary, is_bf3_file, new_reader.
  assert (Hs : BF3_SIGNATURE = BF3_FILE_SIG) by reflexivity.
  split.
  - intros [cs H].
    destruct (rd_read (blen BF3_FILE_SIG) {| rest := bin; pos := 0 |}) as [[hd r]|] eqn:Er; cbn [bind] in H; [|discriminate].
    destruct (bytes_eqb hd BF3_FILE_SIG) eqn:Eh; cbn [negb] in H; [|discriminate].
    apply bytes_eqb_eq in Eh. subst hd. apply rd_read_ok in Er as [R [_ P]]. cbn [rest pos] in R, P.
    rewrite (reader_eta r), P in H. change (0 + blen BF3_FILE_SIG) with (blen BF3_SIGNATURE) in H.
    destruct (proj1 (from_binary_accept_iff dec mac true _ _ k) (ex_intro _ cs H)) as [fs [Hb Hd]].
    exists fs. split; [|exact Hd]. exists (rest r). split; [rewrite Hs; exact R|exact Hb].
  - intros [fs [[body [-> Hb]] Hd]]. rewrite Hs, rd_read_app. cbn [bind]. rewrite bytes_eqb_refl. cbn [negb].
    rewrite <- Hs. change (0 + blen BF3_SIGNATURE) with (blen BF3_SIGNATURE).
    apply (from_binary_accept_iff dec mac true). exists fs. split; assumption.
Qed.
