(* C05: the reader of Model/Bf3.v accepts a binary exactly when it has the
   declarative layout of Model/Layout.v (and the payloads it is asked to
   decrypt can be decrypted), and returns what the fields say. *)
From Coq Require Import List Bool NArith ZArith Lia.
From Coq Require Import Init.Byte.
From Bec2 Require Import Base.Result Base.Bytes Base.Reader Gen.Consts Model.Bf3 Model.Layout
  Proofs.Bf3Proofs Proofs.LayoutProofs Proofs.LayoutWriterProofs.
Import ListNotations.
Open Scope N_scope.

(* ---- inversion of the reader primitives --------------------------------------- *)
Lemma rd_read_int_inv n r v r' :
  rd_read_int (N.of_nat n) r = Ok (v, r') ->
  rest r = be n v ++ rest r' /\ v < 256 ^ N.of_nat n /\ pos r' = pos r + N.of_nat n.
Proof.
  unfold rd_read_int. intro H. binv H as [b r1] E. inversion H; subst. clear H.
  apply rd_read_ok in E as [E1 [E2 E3]].
  rewrite (be_from_be_n n b E2). split; [exact E1|]. split; [apply from_be_lt_n, E2|exact E3].
Qed.

Lemma rd_ensure_eof_inv r u : rd_ensure_eof r = Ok u -> rest r = [].
Proof.
  unfold rd_ensure_eof, rd_eof. destruct (rest r); [reflexivity|discriminate].
Qed.

Lemma reader_eta r : r = mkR (rest r) (pos r).
Proof. destruct r; reflexivity. Qed.

Definition ef_of (e : dentry) : entry_fields :=
  mkEF (e_adr e) (e_total e) (e_alen e) (e_pmac e) (e_desc e).
Definition dentry_of (f : entry_fields) : dentry :=
  mkDentry (ef_adr f) (ef_total f) (ef_actual f) (ef_pmac f) (ef_tags f).
Lemma ef_of_dentry_of f : ef_of (dentry_of f) = f.
Proof. destruct f; reflexivity. Qed.
Lemma dentry_of_ef_of e : dentry_of (ef_of e) = e.
Proof. destruct e; reflexivity. Qed.

(* ---- tags ------------------------------------------------------------------------ *)
Lemma NoDup_app_one {A} (l : list A) a : NoDup l -> ~ In a l -> NoDup (l ++ [a]).
Proof.
  induction l as [|x l IH]; intros ND Hn; cbn [app].
  - constructor; [intros []|constructor].
  - inversion ND; subst. constructor.
    + intro Hin. apply in_app_or in Hin as [Hin|[Hin|[]]]; [contradiction|].
      apply Hn. left. symmetry. exact Hin.
    + apply IH; [assumption|]. intro Hin. apply Hn. right. exact Hin.
Qed.

Lemma parse_tags_sound fuel : forall r acc d,
  parse_tags fuel r acc = Ok d -> NoDup (map fst acc) ->
  exists tags, d = acc ++ tags /\ tag_bytes tags (rest r) /\ NoDup (map fst d).
Proof.
  induction fuel as [|fuel IH]; intros r acc d H ND; [discriminate H|].
  cbn [parse_tags] in H. unfold rd_eof in H.
  destruct (rest r) as [|x0 b0] eqn:Er.
  - inversion H; subst. exists []. rewrite app_nil_r. split; [reflexivity|]. split; [constructor|exact ND].
  - rewrite <- Er in *. clear x0 b0 Er.
    binv H as [id r1] E1. binv H as [tl r2] E2. binv H as [tv r3] E3.
    destruct (dict_mem N.eqb acc id) eqn:Em; [discriminate H|].
    apply (rd_read_int_inv 1) in E1 as [R1 [Hid _]].
    apply (rd_read_int_inv 1) in E2 as [R2 [Htl _]].
    apply rd_read_ok in E3 as [R3 [Ltv _]].
    rewrite (dict_set_fresh _ _ _ Em) in H.
    assert (ND' : NoDup (map fst (acc ++ [(id, tv)]))).
    { rewrite map_app. cbn [map fst]. apply NoDup_app_one; [exact ND|].
      intro Hin. apply dict_mem_in in Hin. congruence. }
    destruct (IH _ _ _ H ND') as [tags [-> [Ht NDd]]].
    exists ((id, tv) :: tags). rewrite <- app_assoc. split; [reflexivity|]. split; [|rewrite <- app_assoc in NDd; exact NDd].
    rewrite R1, R2, R3, <- Ltv. constructor; [exact Hid|rewrite Ltv; exact Htl|exact Ht].
Qed.

Lemma parse_tags_complete tags tb p :
  is_tag_list tags tb -> parse_tags (S (length tb)) (mkR tb p) [] = Ok tags.
Proof.
  intros [Ht ND]. apply (parse_tags_ser tags tb _ [] p).
  - apply ser_tags_tag_bytes, Ht.
  - exact ND.
  - pose proof (tag_bytes_len _ _ Ht) as L. unfold tag in *. lia.
Qed.

Section Reader.
  Variable dec mac : bytes -> option bytes -> bytes -> result bytes.
  Variable check : bool.

  (* the reader's MAC test is the layout's MAC clause *)
  Lemma reader_mac_check k iv d m :
    (if check then let* a := mac k iv d in if bytes_eqb m a then Ok tt else Err EBf3 else Ok tt) = Ok tt
    <-> mac_is mac check k iv d m.
  Proof.
    unfold mac_is. destruct check; [|tauto].
    destruct (mac k iv d) as [a|e]; cbn [bind]; [|split; discriminate].
    destruct (bytes_eqb m a) eqn:E.
    - apply bytes_eqb_eq in E. subst. tauto.
    - split; [discriminate|]. intro H. inversion H; subst. rewrite bytes_eqb_refl in E. discriminate.
  Qed.

  Lemma reader_mac_check' k iv d m :
    (if check then let* a := mac k iv d in if bytes_eqb a m then Ok tt else Err EBf3 else Ok tt) = Ok tt
    <-> mac_is mac check k iv d m.
  Proof.
    unfold mac_is. destruct check; [|tauto].
    destruct (mac k iv d) as [a|e]; cbn [bind]; [|split; discriminate].
    destruct (bytes_eqb a m) eqn:E.
    - apply bytes_eqb_eq in E. subst. tauto.
    - split; [discriminate|]. intro H. inversion H; subst. rewrite bytes_eqb_refl in E. discriminate.
  Qed.

  Lemma parse_entry_sound entry ndx k de er :
    parse_entry mac entry ndx check k = Ok (de, er) -> rest er = [] ->
    is_dir_entry mac check k ndx (e_adr de) (e_total de) (e_alen de) (e_pmac de) (e_desc de) entry /\
    e_alen de <= e_total de.
  Proof.
    unfold parse_entry, new_reader. change CMAC_SIZE with 16. intros H Her.
    binv H as [adr r1] E1. binv H as [total r2] E2. binv H as [alen r3] E3.
    destruct (total <? alen) eqn:Elt; [discriminate H|]. apply N.ltb_ge in Elt.
    binv H as [pmac r4] E4. binv H as iv E5. binv H as [dl r5] E6. binv H as [db r6] E7.
    binv H as d E8. binv H as [stored r7] E9. binv H as u E10. inversion H; subst de er. clear H.
    cbn [e_adr e_total e_alen e_pmac e_desc].
    apply (rd_read_int_inv 4) in E1 as [R1 [Hadr _]]. cbn [rest] in R1.
    apply (rd_read_int_inv 4) in E2 as [R2 [Htot _]].
    apply (rd_read_int_inv 4) in E3 as [R3 [Hal _]].
    apply rd_read_ok in E4 as [R4 [Lp _]].
    apply to_bytes_be in E5 as [-> Hidx].
    apply (rd_read_int_inv 1) in E6 as [R6 [Hdl _]].
    apply rd_read_ok in E7 as [R7 [Ldb _]].
    apply rd_read_ok in E9 as [R9 [Lst _]].
    apply parse_tags_sound in E8 as [tags [Ed [Ht ND]]]; [|constructor].
    cbn [app rest] in Ed, Ht. subst d.
    rewrite Her, app_nil_r in R9.
    assert (Ee : entry = (be 4 adr ++ be 4 total ++ be 4 alen ++ pmac ++ be 1 (blen db) ++ db) ++ stored).
    { rewrite R1, R2, R3, R4, R6, R7, R9, Ldb, <- !app_assoc. reflexivity. }
    split; [|exact Elt].
    destruct u. apply reader_mac_check in E10.
    rewrite Ee at 1. rewrite Ee in E10.
    rewrite takeN_app_exact' in E10.
    2:{ rewrite !blen_app, Lst. lia. }
    constructor.
    - rewrite <- p32; exact Hadr.
    - rewrite <- p32; exact Htot.
    - rewrite <- p32; exact Hal.
    - exact Lp.
    - split; assumption.
    - rewrite Ldb. exact Hdl.
    - rewrite <- p128. exact Hidx.
    - exact Lst.
    - exact E10.
  Qed.

  Lemma parse_entry_complete k idx adr total actual pmac tags e :
    is_dir_entry mac check k idx adr total actual pmac tags e -> actual <= total ->
    exists er, parse_entry mac e idx check k = Ok (mkDentry adr total actual pmac tags, er) /\ rest er = [].
  Proof.
    intros [tb emac Ha Ht Hc Lp Htl Ltb Hidx Le Hm] Hle.
    unfold parse_entry, new_reader. change CMAC_SIZE with 16.
    set (body := be 4 adr ++ be 4 total ++ be 4 actual ++ pmac ++ be 1 (blen tb) ++ tb) in *.
    assert (Et : takeN (blen (body ++ emac) - 16) (body ++ emac) = body).
    { apply takeN_app_exact'. rewrite blen_app, Le. lia. }
    rewrite Et. subst body.
    rewrite <- !app_assoc.
    rewrite (rd_read_int_be 4 adr) by (rewrite p32; exact Ha). cbn [bind].
    rewrite (rd_read_int_be 4 total) by (rewrite p32; exact Ht). cbn [bind].
    rewrite (rd_read_int_be 4 actual) by (rewrite p32; exact Hc). cbn [bind].
    destruct (total <? actual) eqn:Elt; [apply N.ltb_lt in Elt; lia|].
    rewrite (rd_read_exact 16 pmac) by exact Lp. cbn [bind].
    unfold to_bytes. rewrite p128. destruct (idx <? 2 ^ 128) eqn:Ei; [|apply N.ltb_ge in Ei; lia]. cbn [bind].
    rewrite (rd_read_int_be 1 (blen tb)) by exact Ltb. cbn [bind].
    rewrite rd_read_app. cbn [bind].
    rewrite (parse_tags_complete tags tb 0 Htl). cbn [bind].
    rewrite (rd_read_exact_all 16 emac) by exact Le. cbn [bind].
    rewrite (proj2 (reader_mac_check _ _ _ _) Hm). cbn [bind].
    eexists. split; reflexivity.
  Qed.
End Reader.
