(* C04: a single replaced byte inside the MAC-protected part of a directory entry or inside
   a payload is ALWAYS rejected, for every MAC in which one replaced byte changes the tag
   (proved for the adapter's CBC-MAC over any invertible block function in DamageCbcProofs.v).
   No cryptographic assumption.  What remains for the forgery reduction after this: the 4-byte
   directory size, the entry length bytes, and a different session key. *)
From Coq Require Import List Bool NArith ZArith Lia.
From Coq Require Import Init.Byte.
From Bec2 Require Import Base.Result Base.Bytes Base.Reader Gen.Consts Model.Bf3 Model.Damage
  Proofs.Bf3Proofs Proofs.DamageProofs Proofs.DamageStructProofs Proofs.DamageReductionProofs.
Import ListNotations.
Open Scope N_scope.

Section Byte.
  Variable enc dec mac : bytes -> option bytes -> bytes -> result bytes.
  Hypothesis mac_len : forall k iv d m, d <> [] -> mac k iv d = Ok m -> blen m = 16.
  Hypothesis enc_len : forall k d c, blen d mod 16 = 0 -> enc k None d = Ok c -> blen c = blen d.
  Hypothesis dec_enc : forall k d c, blen d mod 16 = 0 -> enc k None d = Ok c -> dec k None c = Ok d.
  Hypothesis mac_byte : forall k iv u x y v t,
    mac k iv (u ++ x :: v) = Ok t -> mac k iv (u ++ y :: v) = Ok t -> x = y.

  (* any byte of the entry body (address, lengths, payload MAC, description length, tags) *)
  Theorem entry_body_byte_rejected cs1 c cs2 off k d1 d2 p1 p2 raw pmac tags emac adr0 u x v y :
    comp_layout enc mac cs1 c cs2 off k d1 d2 p1 p2 raw pmac tags emac adr0 ->
    entry_body (adr0 + blen p1) (blen raw) (c_alen c) pmac tags = u ++ x :: v -> y <> x ->
    exists e,
    from_binary dec mac (mkR (file_of (dir_of d1 ((u ++ y :: v) ++ emac) d2 [x00]) (p1 ++ raw ++ p2)) off) true k = Err e.
  Proof.
    intros L Hbody Hy.
    assert (Hlen : blen (u ++ y :: v) = blen (u ++ x :: v)) by (rewrite !blen_app, !blen_cons; reflexivity).
    destruct (from_binary_with_entry enc dec mac mac_len enc_len dec_enc _ _ _ _ _ _ _ _ _ _ _ _ _ _
                ((u ++ y :: v) ++ emac) true L) as [es2 [_ ->]].
    { rewrite blen_app, Hlen, <- Hbody, entry_body_blen, (cl_lp _ _ _ _ _ _ _ _ _ _ _ _ _ _ _ _ L),
        (cl_le _ _ _ _ _ _ _ _ _ _ _ _ _ _ _ _ L). lia. }
    destruct (parse_entry mac ((u ++ y :: v) ++ emac) (1 + blen cs1) true k) as [[e' er]|e0] eqn:Ep;
      cbn [bind]; [|exists e0; reflexivity].
    destruct (rd_ensure_eof er) eqn:Ee; cbn [bind]; [|eexists; reflexivity].
    exfalso.
    assert (Her : rest er = []) by (unfold rd_ensure_eof, rd_eof in Ee; destruct (rest er); [reflexivity|discriminate]).
    destruct (parse_entry_inv mac _ _ _ _ _ Ep Her) as [_ [_ Hv]].
    unfold verified, entry_check in Hv. change CMAC_SIZE with 16 in Hv.
    pose proof (cl_le _ _ _ _ _ _ _ _ _ _ _ _ _ _ _ _ L) as Le.
    rewrite (takeN_app_exact' _ (u ++ y :: v) emac) in Hv by (rewrite (blen_app (u ++ y :: v) emac), Le; lia).
    rewrite <- Le, lastN_app_exact in Hv.
    pose proof (cl_emac _ _ _ _ _ _ _ _ _ _ _ _ _ _ _ _ L) as Hem. rewrite Hbody in Hem.
    apply Hy. symmetry. exact (mac_byte _ _ _ _ _ _ _ Hem Hv).
  Qed.

  (* any byte of the payload (as stored: plain, or ciphertext of an encrypted component) *)
  Theorem payload_byte_rejected cs1 c cs2 off k d1 d2 p1 p2 raw pmac tags emac adr0 u x v y :
    comp_layout enc mac cs1 c cs2 off k d1 d2 p1 p2 raw pmac tags emac adr0 ->
    raw = u ++ x :: v -> y <> x ->
    exists e,
    from_binary dec mac (mkR (file_of (dir_of d1 (entry_body (adr0 + blen p1) (blen raw) (c_alen c) pmac tags ++ emac) d2 [x00])
                                      (p1 ++ (u ++ y :: v) ++ p2)) off) true k = Err e.
  Proof.
    intros L Hraw Hy.
    assert (Hlen : blen (u ++ y :: v) = blen raw) by (rewrite Hraw, !blen_app, !blen_cons; reflexivity).
    destruct (from_binary_with_entry_gen enc dec mac mac_len enc_len dec_enc _ _ _ _ _ _ _ _ _ _ _ _ _ _
                (entry_body (adr0 + blen p1) (blen raw) (c_alen c) pmac tags ++ emac) ((u ++ y :: v) ++ p2) true L)
      as [es2 [_ ->]].
    { rewrite blen_app, entry_body_blen, (cl_lp _ _ _ _ _ _ _ _ _ _ _ _ _ _ _ _ L), (cl_le _ _ _ _ _ _ _ _ _ _ _ _ _ _ _ _ L). lia. }
    destruct (cl_wfc _ _ _ _ _ _ _ _ _ _ _ _ _ _ _ _ L) as [ND _].
    destruct (parse_entry_fields mac (adr0 + blen p1) (blen raw) (c_alen c) pmac (c_desc c) tags emac (1 + blen cs1) true k
                (cl_tags _ _ _ _ _ _ _ _ _ _ _ _ _ _ _ _ L) ND (cl_badr _ _ _ _ _ _ _ _ _ _ _ _ _ _ _ _ L)
                (cl_braw _ _ _ _ _ _ _ _ _ _ _ _ _ _ _ _ L) (cl_bal _ _ _ _ _ _ _ _ _ _ _ _ _ _ _ _ L)
                (cl_btags _ _ _ _ _ _ _ _ _ _ _ _ _ _ _ _ L) (cl_lp _ _ _ _ _ _ _ _ _ _ _ _ _ _ _ _ L)
                (cl_le _ _ _ _ _ _ _ _ _ _ _ _ _ _ _ _ L) (cl_bndx _ _ _ _ _ _ _ _ _ _ _ _ _ _ _ _ L)) as [q ->].
    pose proof (cl_alen _ _ _ _ _ _ _ _ _ _ _ _ _ _ _ _ L) as Hal.
    destruct (blen raw <? c_alen c) eqn:Elt; [apply N.ltb_lt in Elt; lia|].
    rewrite (cl_emac _ _ _ _ _ _ _ _ _ _ _ _ _ _ _ _ L). cbn [bind]. rewrite bytes_eqb_refl. cbn [bind].
    unfold rd_ensure_eof at 1, rd_eof. cbn [rest bind].
    cbn [read_comps e_adr e_total e_pmac pos]. rewrite N.eqb_refl. cbn [negb].
    rewrite <- Hlen, rd_read_app. cbn [bind].
    destruct (mac k None (u ++ y :: v)) as [m|e0] eqn:Em; cbn [bind]; [|exists e0; reflexivity].
    destruct (bytes_eqb m pmac) eqn:Eq; cbn [bind]; [|exists EBf3; reflexivity].
    exfalso. apply bytes_eqb_eq in Eq. subst m.
    pose proof (cl_pmac _ _ _ _ _ _ _ _ _ _ _ _ _ _ _ _ L) as Hpm. rewrite Hraw in Hpm.
    apply Hy. symmetry. exact (mac_byte _ _ _ _ _ _ _ Hpm Em).
  Qed.
End Byte.
