(* Capstone: the BEC2 theorems with every plug-in instantiated by the models of the bundled
   code - the pyaes block cipher (C16) and the P-256 plug-in built on the translated Jacobian
   formulas (C17).  What remains abstract: sha256, the random sources, and - as named
   hypotheses - the group laws of P-256 (primality of p, chord-and-tangent addition is an
   abelian group on the curve, G generates a group of order n). *)
From Coq Require Import List NArith ZArith.
From Coq Require Import Init.Byte.
From Bec2 Require Import Base.Result Base.Bytes Base.Reader Gen.Consts Model.Cbc Model.Bf3 Model.AesContainer
  Model.Bec2 Model.Aes Model.Ec Model.P256Plugin
  Proofs.CbcProofs Proofs.Bf3Proofs Proofs.Bf3TextProofs Proofs.Bec2Proofs Proofs.EccBlockProofs
  Proofs.AesProofs Proofs.P256PluginProofs Proofs.AesContainerProofs.
Import ListNotations.
Open Scope N_scope.

Section Capstone.
  Variable inG : pt -> Prop.
  Variable gadd : pt -> pt -> pt.
  Variable gneg : pt -> pt.
  Hypothesis p256_group : ec_group p256_p p256_a inG gadd gneg.
  Hypothesis p256_G_in : inG p256_Gpt.
  Hypothesis p256_order : zmul gadd gneg p256_n p256_Gpt = None.
  Hypothesis p256_order_min : (forall k, (0 < k < p256_n)%Z -> zmul gadd gneg k p256_Gpt <> None).
  Hypothesis p256_on_curve : forall q, inG (Some q) -> on_curve p256_p p256_a p256_b q.

  Variable sha256 : bytes -> bytes.
  Variable keygen : N -> privkey.
  Variable rand16 : N -> bytes.

  Let enc := adapter_encrypt aes_E.
  Let dec := adapter_decrypt aes_D.
  Let mac := adapter_mac aes_E.

  Lemma cap_mac_len : forall k iv d m, d <> [] -> mac k iv d = Ok m -> blen m = 16.
  Proof. exact (adapter_mac_len aes_E aes_D aes_E_len aes_DE16). Qed.
  Lemma cap_enc_len : forall k d c, blen d mod 16 = 0 -> enc k None d = Ok c -> blen c = blen d.
  Proof. intros k d c Hm He. exact (proj2 (adapter_inverse aes_E aes_D aes_E_len aes_DE16 k None d c Hm He)). Qed.
  Lemma cap_dec_enc : forall k d c, blen d mod 16 = 0 -> enc k None d = Ok c -> dec k None c = Ok d.
  Proof. intros k d c Hm He. exact (proj1 (adapter_inverse aes_E aes_D aes_E_len aes_DE16 k None d c Hm He)). Qed.

  Lemma cap_pub_valid : forall d, p256_valid_pub (p256_pub_of d) = true.
  Proof. exact (p256_pub_valid inG gadd gneg p256_group p256_G_in p256_order p256_order_min p256_on_curve). Qed.
  Lemma cap_ecdh_comm : forall d e, p256_ecdh d (p256_pub_of e) = p256_ecdh e (p256_pub_of d).
  Proof. exact (p256_ecdh_comm inG gadd gneg p256_group p256_G_in p256_order p256_order_min p256_on_curve). Qed.

  (* C02: whole-file round trip with bundled AES and the P-256 plug-in *)
  Theorem bec2_roundtrip_bundled : forall f bs key encs decs nk t nk' check nr,
    blen key = 16 -> wf_file f -> bs <> [] ->
    NoDup (map fst bs) -> all_match p256_pub_of bs encs decs ->
    bec2_write_file enc mac sha256 p256_pub_of p256_ecdh keygen (mkBec2 f bs key) encs nk = Ok (t, nk') ->
    bec2_read_file dec mac sha256 p256_valid_pub p256_ecdh rand16 t decs check nr =
      Ok (mkBec2 (file_view f) bs key, nr).
  Proof.
    exact (bec2_read_write_all enc dec mac sha256 p256_pub_of p256_valid_pub p256_ecdh keygen rand16
             cap_mac_len cap_enc_len cap_dec_enc pub_len_all cap_pub_valid cap_ecdh_comm).
  Qed.

  (* C09: the spec-side ECIES recipient recovers the session key from a block packed for its
     P-256 public key *)
  Theorem ecies_recovers_bundled : forall sel key exts nk raw nk' s d pr,
    blen key = 16 ->
    select_encryptor KEcc exts
      (match default_pub sel with Some p => Some (EEcc sel p None) | None => None end) (ecc_sel_is sel)
      = Ok (EEcc s (p256_pub_of d) pr) ->
    pack enc sha256 p256_pub_of p256_ecdh keygen (ABEcc sel) key exts nk = Ok (raw, nk') ->
    ecies_recipient dec sha256 p256_ecdh d raw = Ok (sel, key).
  Proof.
    exact (ecies_recovers enc dec sha256 p256_pub_of p256_ecdh keygen cap_enc_len cap_dec_enc
             pub_len_all cap_ecdh_comm).
  Qed.
End Capstone.

(* ---- bundled AES only (no ECC involved): BF3 layer and the AES auth-block container ---- *)
Section BundledAes.
  Let benc := adapter_encrypt aes_E.
  Let bdec := adapter_decrypt aes_D.
  Let bmac := adapter_mac aes_E.

  Lemma ba_mac_len : forall k iv d m, d <> [] -> bmac k iv d = Ok m -> blen m = 16.
  Proof. exact (adapter_mac_len aes_E aes_D aes_E_len aes_DE16). Qed.
  Lemma ba_enc_len : forall k d c, blen d mod 16 = 0 -> benc k None d = Ok c -> blen c = blen d.
  Proof. intros k d c Hm He. exact (proj2 (adapter_inverse aes_E aes_D aes_E_len aes_DE16 k None d c Hm He)). Qed.
  Lemma ba_dec_enc : forall k d c, blen d mod 16 = 0 -> benc k None d = Ok c -> bdec k None c = Ok d.
  Proof. intros k d c Hm He. exact (proj1 (adapter_inverse aes_E aes_D aes_E_len aes_DE16 k None d c Hm He)). Qed.

  Theorem bf3_binary_bundled_aes : forall cs off k b check,
    Forall (wf_comp) cs -> to_binary benc bmac cs off k = Ok b ->
    from_binary bdec bmac (mkR b off) check k = Ok (map view cs).
  Proof. intros. eapply (from_binary_to_binary benc bdec bmac ba_mac_len ba_enc_len ba_dec_enc); eassumption. Qed.

  Theorem bf3_text_bundled_aes : forall f k t check,
    wf_file f -> write_file benc bmac f k = Ok t -> read_file bdec bmac t check k = Ok (file_view f).
  Proof. intros. eapply (read_write_file benc bdec bmac ba_mac_len ba_enc_len ba_dec_enc); eassumption. Qed.

  Theorem container_inverse_bundled_aes : forall k pt ct,
    Model.AesContainer.wrap (fun k d => benc k None d) k pt = Ok ct ->
    Model.AesContainer.unwrap (fun k d => bdec k None d) k ct = Ok pt /\ blen ct mod 16 = 0.
  Proof.
    intros k pt ct.
    apply (Proofs.AesContainerProofs.unwrap_wrap (fun k d => benc k None d) (fun k d => bdec k None d)).
    intros k0 d c Hm He. split; [exact (ba_dec_enc k0 d c Hm He)|exact (ba_enc_len k0 d c Hm He)].
  Qed.
End BundledAes.
