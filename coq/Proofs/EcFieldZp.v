(* C17 - (Z, eqm p) is a field for prime p.

   Fermat's little theorem (by the permutation argument), so that the executable
   inverse `aff_inv p x = (x mod p)^(p-2) mod p` of Proofs/EcSmall.v is a field inverse;
   the field_theory record for `Add Field` and the type-class instances
   (Ring_ops / Ring / Cring / Integral_domain) that `nsatz` needs on goals `eqm p a b`.

   `Add Field` is local to a section; a file that wants `field` on congruences does,
   inside `Section ... Variable p : Z. Hypothesis Hp : prime p.`:

     Add Field eqm_field : (eqm_ft p Hp)
       (setoid (eqm_equiv p) (eqm_ext p), morphism (eqm_morph p), constants [Zcst]).  *)
From Coq Require Import List Bool ZArith Lia Znumtheory Permutation Ring Field Setoid Morphisms.
From Coq Require Import Ncring Cring Integral_domain.
From Bec2 Require Import Base.Modp Model.Ec Proofs.EcSmall.
Import ListNotations.
Open Scope Z_scope.

(* ---- Fermat's little theorem ---- *)

Fixpoint prodl (l : list Z) : Z := match l with [] => 1 | x :: t => x * prodl t end.

Lemma prodl_perm l l' : Permutation l l' -> prodl l = prodl l'.
Proof.
  induction 1; cbn [prodl]; try congruence; ring.
Qed.

Lemma prodl_map_mul p a l :
  eqm p (prodl (map (fun i => a * i mod p) l)) (a ^ Z.of_nat (length l) * prodl l).
Proof.
  induction l as [|x t IH].
  - cbn. reflexivity.
  - cbn [map prodl length]. rewrite Nat2Z.inj_succ, Z.pow_succ_r by lia.
    rewrite IH, mod_eqm. apply eqm_eq. ring.
Qed.

Lemma prodl_nz p l : prime p -> (forall x, In x l -> ~ eqm p x 0) -> ~ eqm p (prodl l) 0.
Proof.
  intros Hp. induction l as [|x t IH]; intros H.
  - cbn. pose proof (prime_ge_2 _ Hp). apply eqm_small_nz. lia.
  - cbn [prodl]. apply eqm_mul_nz; [exact Hp | apply H; left; reflexivity |].
    apply IH. intros y Hy. apply H. right. exact Hy.
Qed.

Lemma zrange_from_NoDup k : forall start, NoDup (zrange_from k start).
Proof.
  induction k as [|k IH]; intro start; cbn [zrange_from]; constructor.
  - intro H. apply zrange_from_bound in H. lia.
  - apply IH.
Qed.

Lemma zrange_from_length k : forall start, length (zrange_from k start) = k.
Proof. induction k as [|k IH]; intro start; cbn [zrange_from length]; [reflexivity | now rewrite IH]. Qed.

Lemma Zrange_bound lo hi x : In x (Zrange lo hi) -> lo <= x < hi.
Proof.
  unfold Zrange. intro H. apply zrange_from_bound in H.
  destruct (Z_le_gt_dec lo hi).
  - rewrite Z2Nat.id in H; lia.
  - replace (Z.to_nat (hi - lo)) with 0%nat in H by lia. lia.
Qed.

Lemma NoDup_map_inj {A B} (f : A -> B) l :
  (forall x y, In x l -> In y l -> f x = f y -> x = y) -> NoDup l -> NoDup (map f l).
Proof.
  induction l as [|x t IH]; intros Hinj Hnd; cbn [map]; constructor.
  - inversion Hnd as [|? ? Hx Ht]; subst. intro Hin. apply in_map_iff in Hin as [y [Hy Hyin]].
    apply Hx. rewrite (Hinj x y); [exact Hyin | left; reflexivity | right; exact Hyin | now symmetry].
  - inversion Hnd; subst. apply IH; [|assumption].
    intros x' y' Hx' Hy'. apply Hinj; right; assumption.
Qed.

Lemma eqm_small_eq p x y : 0 <= x < p -> 0 <= y < p -> eqm p x y -> x = y.
Proof. intros Hx Hy H. apply eqm_def in H. rewrite !Z.mod_small in H by lia. exact H. Qed.

Theorem fermat_little p a : prime p -> ~ eqm p a 0 -> eqm p (a ^ (p - 1)) 1.
Proof.
  intros Hp Ha. pose proof (prime_ge_2 _ Hp) as H2.
  set (L := Zrange 1 p). set (f := fun i => a * i mod p).
  assert (HL : forall x, In x L <-> 1 <= x < p).
  { intro x. split; [apply Zrange_bound | apply Zrange_In]. }
  assert (Hnz : forall x, In x L -> ~ eqm p x 0).
  { intros x Hx. apply HL in Hx. apply eqm_small_nz. lia. }
  assert (Hperm : Permutation (map f L) L).
  { apply NoDup_Permutation_bis.
    - apply NoDup_map_inj; [|apply zrange_from_NoDup].
      intros x y Hx Hy E. unfold f in E.
      assert (E' : eqm p (a * x) (a * y)) by (apply eqm_def; exact E).
      apply eqm_cancel_l in E'; [|exact Hp|exact Ha].
      apply HL in Hx, Hy. apply (eqm_small_eq p); [lia|lia|exact E'].
    - rewrite map_length. lia.
    - intros y Hy. apply in_map_iff in Hy as [x [<- Hx]]. apply HL.
      pose proof (Z.mod_pos_bound (a * x) p ltac:(lia)) as Hb.
      assert (Hn : ~ eqm p (a * x) 0) by (apply eqm_mul_nz; [exact Hp|exact Ha|apply Hnz, Hx]).
      unfold f. assert (a * x mod p <> 0) by (intro E; apply Hn, eqm_0_iff, E). lia. }
  apply prodl_perm in Hperm.
  pose proof (prodl_map_mul p a L) as E. fold f in E. rewrite Hperm in E.
  assert (Hlen : Z.of_nat (length L) = p - 1).
  { unfold L, Zrange. rewrite zrange_from_length, Z2Nat.id; lia. }
  rewrite Hlen in E.
  apply (eqm_cancel_l p (prodl L)); [exact Hp | apply prodl_nz; assumption |].
  rewrite Z.mul_1_r, (Z.mul_comm (prodl L)). symmetry. exact E.
Qed.

(* ---- the executable inverse is a field inverse ---- *)

Lemma aff_inv_l p x : prime p -> ~ eqm p x 0 -> eqm p (aff_inv p x * x) 1.
Proof.
  intros Hp Hx. pose proof (prime_ge_2 _ Hp) as H2. unfold aff_inv.
  rewrite mod_eqm. rewrite <- (mod_eqm p x) at 2.
  assert (E : (x mod p) ^ (p - 2) * (x mod p) = (x mod p) ^ (p - 1)).
  { replace (p - 1) with (Z.succ (p - 2)) by lia. rewrite Z.pow_succ_r by lia. ring. }
  rewrite E. apply fermat_little; [exact Hp|]. rewrite mod_eqm. exact Hx.
Qed.

Lemma aff_inv_r p x : prime p -> ~ eqm p x 0 -> eqm p (x * aff_inv p x) 1.
Proof. intros Hp Hx. rewrite Z.mul_comm. now apply aff_inv_l. Qed.

Global Instance aff_inv_eqm p : Proper (eqm p ==> eqm p) (aff_inv p).
Proof. intros x y H. unfold aff_inv. apply eqm_def in H. rewrite H. reflexivity. Qed.

Lemma aff_inv_range p x : 1 < p -> 0 <= aff_inv p x < p.
Proof. intro H. unfold aff_inv. apply Z.mod_pos_bound. lia. Qed.

Definition eqm_div (p x y : Z) : Z := x * aff_inv p y.

Global Instance eqm_div_eqm p : Proper (eqm p ==> eqm p ==> eqm p) (eqm_div p).
Proof. intros a b H c d H'. unfold eqm_div. now rewrite H, H'. Qed.

Lemma eqm_1_neq_0 p : prime p -> ~ eqm p 1 0.
Proof. intro Hp. pose proof (prime_ge_2 _ Hp). apply eqm_small_nz. lia. Qed.

Lemma eqm_ft p : prime p ->
  field_theory 0 1 Z.add Z.mul Z.sub Z.opp (eqm_div p) (aff_inv p) (eqm p).
Proof.
  intro Hp. constructor.
  - apply eqm_rt.
  - apply eqm_1_neq_0, Hp.
  - intros. reflexivity.
  - intros x Hx. apply aff_inv_l; assumption.
Qed.

(* ---- type-class instances for nsatz ---- *)

Definition eqm_ops (p : Z) : @Ring_ops Z 0 1 Z.add Z.mul Z.sub Z.opp (eqm p).
Proof. constructor. Defined.

Lemma eqm_Ring (p : Z) : @Ring Z 0 1 Z.add Z.mul Z.sub Z.opp (eqm p) (eqm_ops p).
Proof.
  constructor; try exact _;
    unfold equality, eq_notation, addition, add_notation, multiplication, mul_notation,
           subtraction, sub_notation, opposite, opp_notation, zero, zero_notation, one, one_notation;
    intros; try (apply eqm_eq; ring).
Qed.

Lemma eqm_Cring (p : Z) : @Cring Z 0 1 Z.add Z.mul Z.sub Z.opp (eqm p) (eqm_ops p) (eqm_Ring p).
Proof. intros x y. apply eqm_eq. cbv [multiplication mul_notation]. ring. Qed.

Lemma eqm_Domain (p : Z) : prime p ->
  @Integral_domain Z 0 1 Z.add Z.mul Z.sub Z.opp (eqm p) (eqm_ops p) (eqm_Ring p) (eqm_Cring p).
Proof.
  intro Hp. constructor.
  - intros x y H. apply (eqm_integral p x y Hp H).
  - apply eqm_1_neq_0, Hp.
Qed.

(* small constants are invertible when p > 3 *)
Lemma eqm_2_nz p : 2 < p -> ~ eqm p 2 0.
Proof. intro H. apply eqm_small_nz. lia. Qed.
Lemma eqm_3_nz p : 3 < p -> ~ eqm p 3 0.
Proof. intro H. apply eqm_small_nz. lia. Qed.
