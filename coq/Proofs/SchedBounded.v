(* C20 (part 1) - complete exploration of the lock programs for up to 2 readers
   and 2 writers (verified closure check, see SchedExploreProofs.v), and the
   reader-sharing witness. *)
From Coq Require Import List Bool Arith Lia.
From Bec2 Require Import Gen.RwLock Model.Sched Proofs.SchedExploreProofs.
Import ListNotations.

Definition small : list nat := [0; 1; 2].

Lemma check_loop_small :
  forallb (fun nr => forallb (fun nw => (nr + nw =? 0) || check_loop 14 7 (roles_of nr nw)) small) small = true.
Proof. vm_compute. reflexivity. Qed.

Lemma check_once_small :
  forallb (fun nr => forallb (fun nw => (nr + nw =? 0) || check_once 14 7 (roles_of nr nw)) small) small = true.
Proof. vm_compute. reflexivity. Qed.

Lemma in_small n : n <= 2 -> In n small.
Proof. intro H. unfold small. destruct n as [|[|[|]]]; simpl; auto. lia. Qed.

Lemma roles_of_length nr nw : length (roles_of nr nw) = nr + nw.
Proof. unfold roles_of. rewrite app_length, !repeat_length. reflexivity. Qed.

(* threads loop forever: no deadlock, no fault, exclusion, and every thread can
   still reach its critical section *)
Lemma no_deadlock_2r2w nr nw : nr <= 2 -> nw <= 2 -> 1 <= nr + nw ->
  forall s, reach_exec true (init (roles_of nr nw)) s ->
    (exists i s', step_thread true s i = Some s') /\
    no_fault true s = true /\ mutex_ok s = true /\
    (forall i, i < nr + nw -> EF true (thread_in_cs i) s).
Proof.
  intros Hr Hw H1 s Hs.
  pose proof check_loop_small as C. rewrite forallb_forall in C.
  specialize (C nr (in_small _ Hr)). rewrite forallb_forall in C.
  specialize (C nw (in_small _ Hw)).
  apply orb_true_iff in C as [C|C]; [apply Nat.eqb_eq in C; lia|].
  destruct (check_loop_sound _ _ _ C s Hs) as [A [B [D E]]].
  repeat split; auto. intros i Hi. apply E. rewrite roles_of_length. exact Hi.
Qed.

(* one session per thread: every non-final state has an enabled step and the
   state in which every thread has finished stays reachable *)
Lemma no_deadlock_2r2w_once nr nw : nr <= 2 -> nw <= 2 -> 1 <= nr + nw ->
  forall s, reach_exec false (init (roles_of nr nw)) s ->
    (all_finished s = true \/ exists i s', step_thread false s i = Some s') /\
    no_fault false s = true /\ mutex_ok s = true /\
    EF false all_finished s.
Proof.
  intros Hr Hw H1 s Hs.
  pose proof check_once_small as C. rewrite forallb_forall in C.
  specialize (C nr (in_small _ Hr)). rewrite forallb_forall in C.
  specialize (C nw (in_small _ Hw)).
  apply orb_true_iff in C as [C|C]; [apply Nat.eqb_eq in C; lia|].
  exact (check_once_sound _ _ _ C s Hs).
Qed.

Lemma run_sched_reach loop sched : forall s s', run_sched loop s sched = Some s' -> reach_exec loop s s'.
Proof.
  induction sched as [|i rest IH]; intros s s' H; simpl in H.
  - inversion H. apply rx_refl.
  - destruct (step_thread loop s i) as [s1|] eqn:E; [|discriminate].
    eapply reach_exec_trans; [eapply rx_step; [apply rx_refl|exact E]|]. apply IH. exact H.
Qed.

(* witness: reader 0 runs reader_acquire to the end, then reader 1 does; a
   writer is waiting in the third example *)
Definition share_sched2 : list nat := repeat 0 11 ++ repeat 1 10.
Definition share_sched3w : list nat := repeat 3 6 ++ repeat 0 11 ++ repeat 1 10 ++ repeat 2 10.

Lemma readers_share_2 :
  exists s, reach_exec true (init [Reader; Reader]) s /\
            thread_in_cs 0 s = true /\ thread_in_cs 1 s = true.
Proof.
  destruct (run_sched true (init [Reader; Reader]) share_sched2) as [s|] eqn:E; [|vm_compute in E; discriminate].
  exists s. split; [eapply run_sched_reach; exact E|].
  vm_compute in E. inversion E. split; reflexivity.
Qed.

Lemma readers_share_3 :
  exists s, reach_exec true (init [Reader; Reader; Reader]) s /\
            thread_in_cs 0 s = true /\ thread_in_cs 1 s = true /\ thread_in_cs 2 s = true.
Proof.
  destruct (run_sched true (init [Reader; Reader; Reader]) (repeat 0 11 ++ repeat 1 10 ++ repeat 2 10)) as [s|] eqn:E;
    [|vm_compute in E; discriminate].
  exists s. split; [eapply run_sched_reach; exact E|].
  vm_compute in E. inversion E. repeat split; reflexivity.
Qed.
