(* C06: proofs about session-key encryption of BF3 components
   (Model/Bf3.v writer and reader, Model/Cbc.v adapter, Model/ConfTlv.v set_config,
   Model/Segments.v provenance segments / BEC2 framing / output trace). *)
From Coq Require Import List Bool NArith ZArith Lia.
From Coq Require Import Init.Byte.
From Bec2 Require Import Base.Result Base.Bytes Base.Reader Gen.Consts Model.Cbc
  Model.ConfTlv Model.AesContainer Model.Bf3 Model.Segments
  Proofs.CbcProofs Proofs.Bf3Proofs Proofs.Bf3TextProofs Proofs.AesContainerProofs.
Import ListNotations.
Open Scope N_scope.

(* ---- crypto.pad (translated from the source) is zero padding to 16 ---------- *)
Lemma pad_count n : Z.to_nat (pad_length (Z.of_N n)) = N.to_nat ((16 - n mod 16) mod 16).
Proof.
  unfold pad_length.
  pose proof (N.mod_upper_bound n 16 ltac:(lia)) as Hr.
  pose proof (N.div_mod n 16 ltac:(lia)) as Hd.
  set (q := n / 16) in *. set (r := n mod 16) in *. clearbody q r.
  assert (E : ((- Z.of_N n) mod 16 = Z.of_N ((16 - r) mod 16))%Z).
  { destruct (N.eq_dec r 0) as [H0|H0].
    - rewrite H0. change ((16 - 0) mod 16) with 0.
      replace (- Z.of_N n)%Z with ((- Z.of_N q) * 16)%Z by lia. rewrite Z.mod_mul by lia. reflexivity.
    - rewrite (N.mod_small (16 - r)) by lia.
      symmetry. apply (Z.mod_unique_pos _ _ (- Z.of_N q - 1)); lia. }
  rewrite E. generalize ((16 - r) mod 16). intro x. lia.
Qed.

Theorem pad_zero_pad d : pad d = zero_pad d.
Proof. unfold pad, zero_pad. rewrite pad_count. reflexivity. Qed.

Lemma pad_nonempty d : d <> [] -> pad d <> [].
Proof. destruct d; [contradiction|discriminate]. Qed.

Lemma takeN_app_le {A} n (a b : list A) : n <= blen a -> takeN n (a ++ b) = takeN n a.
Proof.
  intro H. rewrite !takeN_firstn, firstn_app.
  replace (N.to_nat n - length a)%nat with 0%nat by (unfold blen in H; lia).
  cbn [firstn]. apply app_nil_r.
Qed.

Lemma dropN_app_ge {A} n (a b : list A) : dropN (blen a + n) (a ++ b) = dropN n b.
Proof.
  rewrite !dropN_skipn, skipn_app.
  rewrite skipn_all2 by (unfold blen; lia). cbn [app]. f_equal. unfold blen. lia.
Qed.

(* the declared length never reaches into the padding *)
Lemma takeN_pad n d : n <= blen d -> takeN n (pad d) = takeN n d.
Proof. intro H. unfold pad. apply takeN_app_le, H. Qed.

(* ---- the adapter on a padded blob is plain CBC of the zero-padded blob -------- *)
Section Adapter.
  Variable E D : bytes -> bytes -> bytes.

  Lemma adapter_encrypt_pad k d raw : d <> [] ->
    adapter_encrypt E k None (pad d) = Ok raw ->
    raw = cbc_enc E (length (zero_pad d)) k (zeros 16) (zero_pad d).
  Proof.
    intros Hne H. rewrite pad_zero_pad in H.
    assert (Hne2 : zero_pad d <> []) by (rewrite <- pad_zero_pad; apply pad_nonempty, Hne).
    rewrite (adapter_encrypt_ne E k None _ Hne2) in H.
    destruct (key_ok k); cbn [negb] in H; [|discriminate].
    cbn [the_iv] in H. change (blen (zeros 16) =? 16) with true in H. cbn [negb] in H.
    destruct (zero_pad_len d) as [Hm _].
    rewrite (zero_pad_aligned _ Hm) in H. inversion H. reflexivity.
  Qed.
End Adapter.

(* ---- where the payloads are: directory of the written binary ---------------- *)
Section Stored.
  Variable enc dec mac : bytes -> option bytes -> bytes -> result bytes.
  Hypothesis mac_len : forall k iv d m, d <> [] -> mac k iv d = Ok m -> blen m = 16.
  Hypothesis enc_len : forall k d c, blen d mod 16 = 0 -> enc k None d = Ok c -> blen c = blen d.

  (* the reader's directory parser, run on the writer's output, returns the entries
     computed by entries_of, and leaves the reader at the first payload *)
  Lemma dir_from_binary_to_binary cs off k b check :
    Forall wf_comp cs -> to_binary enc mac cs off k = Ok b ->
    exists d p es,
      b = d ++ p /\
      dir_from_binary mac (mkR b off) check k = Ok (es, mkR p (off + blen d)) /\
      entries_of enc mac cs (off + blen d) k = Ok es /\
      payloads enc cs k = Ok p.
  Proof.
    intros Hwf H. unfold to_binary in H.
    bind_inv H as d0 Ed0. bind_inv H as d Ed. bind_inv H as pb Epb. inversion H; subst b. clear H.
    unfold dir_to_binary in Ed0, Ed.
    bind_inv Ed0 as db0 Edb0. bind_inv Ed0 as sz0 Esz0. inversion Ed0; subst d0. clear Ed0.
    bind_inv Ed as db Edb. bind_inv Ed as sz Esz. inversion Ed; subst d. clear Ed.
    apply to_bytes_be in Esz0 as [-> _]. apply to_bytes_be in Esz as [-> Hsz].
    destruct (ser_dir_blen enc mac mac_len enc_len cs _ _ _ _ _ _ _ _ Edb0 Edb Hwf) as [Hl _].
    exists (be 4 (blen (db ++ [x00])) ++ db ++ [x00]), pb.
    assert (Hok : Forall (okc enc k) cs).
    { apply Forall_forall. intros c Hc. apply (wf_okc enc enc_len). rewrite Forall_forall in Hwf. apply Hwf, Hc. }
    destruct (parse_dir_ser enc mac mac_len cs 0 (off + blen (be 4 (blen (db0 ++ [x00])) ++ db0 ++ [x00])) db
                (S (length (db ++ [x00]))) [] [] 0 check k Edb Hok) as [es [Ees Epd]].
    { destruct (ser_dir_blen enc mac mac_len enc_len cs _ _ _ _ _ _ _ _ Edb Edb Hwf) as [_ Hn].
      rewrite app_length. simpl. lia. }
    assert (Hadr : off + blen (be 4 (blen (db0 ++ [x00])) ++ db0 ++ [x00]) =
                   off + blen (be 4 (blen (db ++ [x00])) ++ db ++ [x00])).
    { rewrite !blen_app, !blen_be, Hl. reflexivity. }
    exists es. split; [reflexivity|]. rewrite <- Hadr. split; [|split; [exact Ees|reflexivity]].
    unfold dir_from_binary.
    rewrite <- app_assoc.
    rewrite (rd_read_int_be 4 (blen (db ++ [x00]))) by exact Hsz. cbn [bind].
    rewrite rd_read_app. cbn [bind].
    unfold parse_dir' in Epd. unfold new_reader. cbn [app] in Epd.
    change (1 + 0) with 1 in Epd.
    destruct (rd_read_int 1 {| rest := db ++ [x00]; pos := 0 |}) as [[len dr]|] eqn:Er;
      cbn [bind] in Epd |- *; [|discriminate].
    rewrite Epd. cbn [bind rev app]. unfold rd_ensure_eof, rd_eof. cbn [rest bind].
    f_equal. f_equal. f_equal. rewrite Hadr, !blen_app, !blen_be. lia.
  Qed.

  (* entry i of the directory points at the raw data of component i inside the
     payload area *)
  Lemma entries_locate cs : forall adr k es p i c,
    entries_of enc mac cs adr k = Ok es -> payloads enc cs k = Ok p ->
    nth_error cs i = Some c ->
    exists e raw, nth_error es i = Some e /\ raw_data enc c k = Ok raw /\
      e_total e = blen raw /\ e_alen e = c_alen c /\ e_desc e = c_desc c /\
      adr <= e_adr e /\ takeN (e_total e) (dropN (e_adr e - adr) p) = raw.
  Proof.
    induction cs as [|c0 cs IH]; intros adr k es p i c He Hp Hi.
    - destruct i; discriminate.
    - cbn [entries_of payloads] in He, Hp.
      bind_inv He as raw0 Eraw. bind_inv He as pmac Epmac. bind_inv He as es' Ees. inversion He; subst es. clear He.
      cbn [bind] in Hp. bind_inv Hp as p' Ep. inversion Hp; subst p. clear Hp.
      destruct i as [|i]; cbn [nth_error] in Hi |- *.
      + inversion Hi; subst c0. exists (entry_of c adr raw0 pmac), raw0.
        cbn [entry_of e_total e_alen e_desc e_adr].
        repeat split; try reflexivity; try assumption.
        rewrite N.sub_diag, dropN_0. apply takeN_app_exact.
      + destruct (IH _ _ _ _ _ _ Ees Ep Hi) as [e [raw [H1 [H2 [H3 [H4 [H5 [H6 H7]]]]]]]].
        exists e, raw. repeat split; try assumption; [lia|].
        replace (e_adr e - adr) with (blen raw0 + (e_adr e - (adr + blen raw0))) by lia.
        rewrite dropN_app_ge. exact H7.
  Qed.

  Theorem stored_payload cs off k b check i c :
    Forall wf_comp cs -> to_binary enc mac cs off k = Ok b ->
    nth_error cs i = Some c ->
    exists es r' e raw,
      dir_from_binary mac (mkR b off) check k = Ok (es, r') /\
      nth_error es i = Some e /\
      raw_data enc c k = Ok raw /\
      e_total e = blen raw /\ e_alen e = c_alen c /\ e_desc e = c_desc c /\
      off <= e_adr e /\
      takeN (e_total e) (dropN (e_adr e - off) b) = raw.
  Proof.
    intros Hwf Hb Hi.
    destruct (dir_from_binary_to_binary cs off k b check Hwf Hb) as [d [p [es [-> [Hd [He Hp]]]]]].
    destruct (entries_locate cs _ _ _ _ _ _ He Hp Hi) as [e [raw [H1 [H2 [H3 [H4 [H5 [H6 H7]]]]]]]].
    exists es, (mkR p (off + blen d)), e, raw.
    repeat split; try assumption; [lia|].
    replace (e_adr e - off) with (blen d + (e_adr e - (off + blen d))) by lia.
    rewrite dropN_app_ge. exact H7.
  Qed.
End Stored.

(* ---- recovery ---------------------------------------------------------------- *)
(* what reading gives back for one component, relative to what was written *)
Definition recovered (c c' : comp) : Prop :=
  c_desc c' = c_desc c /\ c_alen c' = c_alen c /\ c_enc c' = c_enc c /\
  takeN (c_alen c) (Bf3.c_blob c') = takeN (c_alen c) (Bf3.c_blob c) /\
  (c_enc c = false -> c' = c) /\
  (c_enc c = true -> Bf3.c_blob c' = zero_pad (Bf3.c_blob c)).

Lemma view_recovered c : wf_comp c -> recovered c (view c).
Proof.
  intros [_ [_ [[_ Hal] _]]]. unfold recovered, view.
  destruct (c_enc c) eqn:Ee; cbn [c_desc c_alen c_enc Bf3.c_blob].
  - repeat split; try reflexivity.
    + apply takeN_pad, Hal.
    + discriminate.
    + intros _. apply pad_zero_pad.
  - rewrite Ee. repeat split; try reflexivity. discriminate.
Qed.

Lemma map_view_recovered cs : Forall wf_comp cs -> Forall2 recovered cs (map view cs).
Proof.
  induction 1 as [|c cs Hc _ IH]; cbn [map]; constructor; [apply view_recovered, Hc|exact IH].
Qed.

(* ---- set_config creates an encrypted, well-formed component ------------------ *)
Definition cfg_desc : desc := [(0xC3, [x03]); (0xC2, [x02]); (0xC1, [x03]); (0xC5, [x01])].

Lemma set_config_shape comps d extra r :
  set_config comps d extra = Ok r ->
  exists blob, r = remove_first_config comps ++ [ConfTlv.mkComp cfg_desc blob (blen blob) true] /\
               blob <> [].
Proof.
  unfold set_config. intro H.
  destruct (conf_dict_to_tlv d) as [tlv|]; cbn [bind] in H; [|discriminate].
  destruct (config_blob (tlv ++ extra)) as [blob|] eqn:Eb; cbn [bind] in H; [|discriminate].
  change config_descr with (Ok cfg_desc) in H. cbn [bind] in H. inversion H; subst r.
  exists blob. split; [reflexivity|].
  unfold config_blob in Eb. destruct (mapM frame_block (tlv ++ extra)); cbn [bind] in Eb; [|discriminate].
  inversion Eb. intro Hn. apply (f_equal (@length byte)) in Hn. rewrite app_length in Hn. simpl in Hn. lia.
Qed.

Lemma of_to_cfg c : of_cfg (to_cfg c) = c.
Proof. destruct c; reflexivity. Qed.

Lemma remove_first_config_incl cs c : In c (remove_first_config cs) -> In c cs.
Proof.
  induction cs as [|x cs IH]; cbn [remove_first_config]; [tauto|].
  destruct (is_config x); cbn [In]; tauto.
Qed.

Lemma cfg_comp_wf blob : blob <> [] -> wf_comp (Bf3.mkComp cfg_desc blob (blen blob) true).
Proof.
  intro Hb. unfold wf_comp. cbn [c_desc Bf3.c_blob c_alen c_enc].
  split; [|split; [exact Hb|split]].
  - cbn [cfg_desc map fst].
    repeat (constructor; [cbn [In]; intuition discriminate|]). constructor.
  - destruct blob; [contradiction|]. rewrite blen_cons. lia.
  - split; reflexivity.
Qed.

Theorem bf3_set_config_spec cs d extra r :
  bf3_set_config cs d extra = Ok r ->
  exists blob front,
    r = front ++ [Bf3.mkComp cfg_desc blob (blen blob) true] /\
    blob <> [] /\ (forall c, In c front -> In c cs) /\
    (Forall wf_comp cs -> Forall wf_comp r).
Proof.
  unfold bf3_set_config. intro H.
  destruct (set_config (map to_cfg cs) d extra) as [r0|] eqn:E; cbn [rmap] in H; [|discriminate].
  inversion H; subst r. clear H.
  destruct (set_config_shape _ _ _ _ E) as [blob [-> Hb]].
  exists blob, (map of_cfg (remove_first_config (map to_cfg cs))).
  rewrite map_app. cbn [map of_cfg c_descr ConfTlv.c_blob c_actual_len c_sess].
  assert (Hin : forall c, In c (map of_cfg (remove_first_config (map to_cfg cs))) -> In c cs).
  { intros c Hc. apply in_map_iff in Hc as [x [<- Hx]].
    apply remove_first_config_incl in Hx. apply in_map_iff in Hx as [y [<- Hy]].
    rewrite of_to_cfg. exact Hy. }
  split; [reflexivity|]. split; [exact Hb|]. split; [exact Hin|].
  intro Hwf. apply Forall_app. split.
  - apply Forall_forall. intros c Hc. rewrite Forall_forall in Hwf. apply Hwf, Hin, Hc.
  - constructor; [apply cfg_comp_wf, Hb|constructor].
Qed.

(* ---- segments: concatenation equals the writer's output ---------------------- *)
Section SegEq.
  Variable enc mac : bytes -> option bytes -> bytes -> result bytes.

  Lemma flatten_app a b : flatten (a ++ b) = flatten a ++ flatten b.
  Proof. apply flat_map_app. Qed.

  Lemma raw_data_seg c k : raw_data enc c k = rmap seg_bytes (seg_raw enc c k).
  Proof.
    unfold raw_data, seg_raw. destruct (c_enc c); [|reflexivity].
    destruct (enc k None (pad (Bf3.c_blob c))); reflexivity.
  Qed.

  Lemma ser_entry_seg c ndx adr k :
    ser_entry enc mac c ndx adr k =
    rmap (fun p => (flatten (fst p), seg_bytes (snd p))) (seg_entry enc mac c ndx adr k).
  Proof.
    unfold ser_entry, seg_entry. rewrite raw_data_seg.
    destruct (seg_raw enc c k) as [rs|]; cbn [rmap bind]; [|reflexivity].
    destruct (mac k None (seg_bytes rs)) as [pmac|]; cbn [bind rmap]; [|reflexivity].
    destruct (to_bytes 4 adr) as [a|]; cbn [bind rmap]; [|reflexivity].
    destruct (to_bytes 4 (blen (seg_bytes rs))) as [tl|]; cbn [bind rmap]; [|reflexivity].
    destruct (to_bytes 4 (c_alen c)) as [al|]; cbn [bind rmap]; [|reflexivity].
    destruct (ser_tags (c_desc c)) as [tags|]; cbn [bind rmap]; [|reflexivity].
    destruct (to_bytes 1 (blen tags)) as [tgl|]; cbn [bind rmap]; [|reflexivity].
    destruct (to_bytes 16 (1 + ndx)) as [iv|]; cbn [bind rmap]; [|reflexivity].
    assert (Ef : flatten [Public (a ++ tl ++ al); MacOut pmac; Public (tgl ++ tags)] =
                 a ++ tl ++ al ++ pmac ++ tgl ++ tags).
    { cbn [flatten flat_map seg_bytes]. rewrite app_nil_r, <- !app_assoc. reflexivity. }
    rewrite Ef.
    destruct (mac k (Some iv) (a ++ tl ++ al ++ pmac ++ tgl ++ tags)) as [emac|]; cbn [bind rmap]; [|reflexivity].
    cbn [fst snd]. rewrite flatten_app, Ef. cbn [flatten flat_map seg_bytes]. rewrite app_nil_r. reflexivity.
  Qed.

  Lemma ser_dir_seg cs : forall ndx adr k,
    ser_dir enc mac cs ndx adr k = rmap flatten (seg_dir enc mac cs ndx adr k).
  Proof.
    induction cs as [|c cs IH]; intros ndx adr k; [reflexivity|].
    cbn [ser_dir seg_dir]. rewrite ser_entry_seg.
    destruct (seg_entry enc mac c ndx adr k) as [[entry rs]|]; cbn [rmap bind fst snd]; [|reflexivity].
    destruct (to_bytes 1 (blen (flatten entry))) as [el|]; cbn [bind rmap]; [|reflexivity].
    rewrite IH.
    destruct (seg_dir enc mac cs (ndx + 1) (adr + blen (seg_bytes rs)) k) as [rest|]; cbn [bind rmap]; [|reflexivity].
    cbn [flatten flat_map seg_bytes]. fold (flatten (entry ++ rest)). rewrite flatten_app. reflexivity.
  Qed.

  Lemma dir_to_binary_seg cs adr k :
    dir_to_binary enc mac cs adr k = rmap flatten (seg_dir_to_binary enc mac cs adr k).
  Proof.
    unfold dir_to_binary, seg_dir_to_binary. rewrite ser_dir_seg.
    destruct (seg_dir enc mac cs 0 adr k) as [d|]; cbn [rmap bind]; [|reflexivity].
    destruct (to_bytes 4 (blen (flatten d ++ [x00]))) as [sz|]; cbn [bind rmap]; [|reflexivity].
    cbn [flatten flat_map seg_bytes]. fold (flatten (d ++ [Public [x00]])). rewrite flatten_app. reflexivity.
  Qed.

  Lemma payloads_seg cs k : payloads enc cs k = rmap flatten (seg_payloads enc cs k).
  Proof.
    induction cs as [|c cs IH]; [reflexivity|].
    cbn [payloads seg_payloads]. rewrite raw_data_seg.
    destruct (seg_raw enc c k) as [r|]; cbn [rmap bind]; [|reflexivity].
    rewrite IH. destruct (seg_payloads enc cs k); reflexivity.
  Qed.

  Theorem to_binary_seg cs off k :
    to_binary enc mac cs off k = rmap flatten (seg_to_binary enc mac cs off k).
  Proof.
    unfold to_binary, seg_to_binary. rewrite dir_to_binary_seg.
    destruct (seg_dir_to_binary enc mac cs 0 DEFAULT_SESSION_KEY) as [d0|]; cbn [rmap bind]; [|reflexivity].
    rewrite dir_to_binary_seg.
    destruct (seg_dir_to_binary enc mac cs (off + blen (flatten d0)) k) as [d|]; cbn [rmap bind]; [|reflexivity].
    rewrite payloads_seg.
    destruct (seg_payloads enc cs k) as [p|]; cbn [rmap bind]; [|reflexivity].
    rewrite flatten_app. reflexivity.
  Qed.

  (* ---- every non-public segment is an output of enc / mac under the key ------ *)
  Definition seg_ok0 (cs : list comp) (k : bytes) (s : seg) : Prop :=
    match s with
    | Public _ => True
    | CipherOut b => exists c, In c cs /\ c_enc c = true /\ enc k None (pad (Bf3.c_blob c)) = Ok b
    | MacOut b => exists iv d, mac k iv d = Ok b
    | WrapOut _ => False
    end.
  (* ... and what is MACed consists itself only of public bytes and such outputs *)
  Definition seg_ok (cs : list comp) (k : bytes) (s : seg) : Prop :=
    match s with
    | MacOut b => exists iv src, Forall (seg_ok0 cs k) src /\ mac k iv (flatten src) = Ok b
    | _ => seg_ok0 cs k s
    end.

  Lemma seg_raw_ok cs c k r : In c cs -> seg_raw enc c k = Ok r -> seg_ok0 cs k r /\ seg_ok cs k r.
  Proof.
    intros Hin H. unfold seg_raw in H. destruct (c_enc c) eqn:Ee.
    - bind_inv H as x Ex. inversion H; subst r. cbn [seg_ok seg_ok0].
      split; exists c; auto.
    - inversion H; subst r. cbn. auto.
  Qed.

  Lemma seg_entry_ok cs c ndx adr k entry rs : In c cs ->
    seg_entry enc mac c ndx adr k = Ok (entry, rs) -> Forall (seg_ok cs k) entry.
  Proof.
    intros Hin H. unfold seg_entry in H.
    bind_inv H as rs' Ers. bind_inv H as pmac Epmac. bind_inv H as a Ea. bind_inv H as tl Etl.
    bind_inv H as al Eal. bind_inv H as tags Etags. bind_inv H as tgl Etgl.
    bind_inv H as iv Eiv. bind_inv H as emac Eemac. inversion H; subst entry rs'. clear H.
    destruct (seg_raw_ok cs c k rs Hin Ers) as [Hr0 _].
    cbn [app]. repeat constructor.
    - cbn [seg_ok]. exists None, [rs]. split; [constructor; [exact Hr0|constructor]|].
      cbn [flatten flat_map]. rewrite app_nil_r. exact Epmac.
    - cbn [seg_ok]. exists (Some iv), [Public (a ++ tl ++ al); MacOut pmac; Public (tgl ++ tags)].
      split; [|exact Eemac].
      repeat constructor. cbn [seg_ok0]. exists None, (seg_bytes rs). exact Epmac.
  Qed.

  Lemma seg_dir_ok all cs : forall ndx adr k d, incl cs all ->
    seg_dir enc mac cs ndx adr k = Ok d -> Forall (seg_ok all k) d.
  Proof.
    induction cs as [|c cs IH]; intros ndx adr k d Hinc H.
    - inversion H. constructor.
    - cbn [seg_dir] in H.
      destruct (seg_entry enc mac c ndx adr k) as [[entry rs]|] eqn:Ee; cbn [bind] in H; [|discriminate].
      bind_inv H as el Eel. bind_inv H as rest Er. inversion H; subst d. clear H.
      constructor; [exact I|]. apply Forall_app. split.
      + apply (seg_entry_ok all c ndx adr k entry rs); [apply Hinc; left; reflexivity|exact Ee].
      + apply (IH _ _ _ _ (fun x Hx => Hinc x (or_intror Hx)) Er).
  Qed.

  Lemma seg_payloads_ok all cs : forall k p, incl cs all ->
    seg_payloads enc cs k = Ok p -> Forall (seg_ok all k) p.
  Proof.
    induction cs as [|c cs IH]; intros k p Hinc H.
    - inversion H. constructor.
    - cbn [seg_payloads] in H. bind_inv H as r Er. bind_inv H as rest Erest. inversion H; subst p.
      constructor.
      + apply (seg_raw_ok all c k r); [apply Hinc; left; reflexivity|exact Er].
      + apply IH; [intros x Hx; apply Hinc; right; exact Hx|exact Erest].
  Qed.

  Theorem seg_to_binary_ok cs off k segs :
    seg_to_binary enc mac cs off k = Ok segs -> Forall (seg_ok cs k) segs.
  Proof.
    unfold seg_to_binary. intro H.
    bind_inv H as d0 Ed0. bind_inv H as d Ed. bind_inv H as p Ep. inversion H; subst segs. clear H.
    apply Forall_app. split; [|apply (seg_payloads_ok cs cs k p (incl_refl _) Ep)].
    unfold seg_dir_to_binary in Ed. bind_inv Ed as dd Edd. bind_inv Ed as sz Esz. inversion Ed; subst d.
    constructor; [exact I|]. apply Forall_app. split.
    - apply (seg_dir_ok cs cs 0 _ k dd (incl_refl _) Edd).
    - repeat constructor.
  Qed.
End SegEq.

(* ---- non-interference: the public part of the output --------------------------- *)
Lemma shape_app a b : shape (a ++ b) = shape a ++ shape b.
Proof. apply map_app. Qed.

Lemma shape_of_blen s1 s2 : shape_of s1 = shape_of s2 -> blen (seg_bytes s1) = blen (seg_bytes s2).
Proof. destruct s1, s2; cbn; intro H; inversion H; congruence. Qed.

Lemma shape_blen s1 : forall s2, shape s1 = shape s2 -> blen (flatten s1) = blen (flatten s2).
Proof.
  induction s1 as [|x s1 IH]; intros [|y s2] H; try discriminate; [reflexivity|].
  cbn [shape map] in H. inversion H.
  cbn [flatten flat_map]. rewrite !blen_app. fold (flatten s1) (flatten s2).
  rewrite (shape_of_blen _ _ H1), (IH s2 H2). reflexivity.
Qed.

Section NonInterference.
  Variable enc1 mac1 enc2 mac2 : bytes -> option bytes -> bytes -> result bytes.
  Hypothesis mac_len1 : forall k iv d m, d <> [] -> mac1 k iv d = Ok m -> blen m = 16.
  Hypothesis mac_len2 : forall k iv d m, d <> [] -> mac2 k iv d = Ok m -> blen m = 16.
  Hypothesis enc_len1 : forall k d c, blen d mod 16 = 0 -> enc1 k None d = Ok c -> blen c = blen d.
  Hypothesis enc_len2 : forall k d c, blen d mod 16 = 0 -> enc2 k None d = Ok c -> blen c = blen d.

  Definition nonempty_blob (c : comp) : Prop := Bf3.c_blob c <> [].

  Lemma blen_nonempty {A} (l : list A) : 1 <= blen l -> l <> [].
  Proof. destruct l; [rewrite blen_nil; lia|discriminate]. Qed.

  Lemma seg_raw_nonempty enc (Hel : forall k d c, blen d mod 16 = 0 -> enc k None d = Ok c -> blen c = blen d)
    c k r : nonempty_blob c -> seg_raw enc c k = Ok r -> seg_bytes r <> [].
  Proof.
    intros Hb H. unfold seg_raw in H. destruct (c_enc c).
    - bind_inv H as x Ex. inversion H; subst r. cbn [seg_bytes].
      destruct (pad_aligned (Bf3.c_blob c)) as [Hm Hle].
      apply (Hel _ _ _ Hm) in Ex. apply blen_nonempty. rewrite Ex.
      unfold nonempty_blob in Hb. destruct (Bf3.c_blob c); [contradiction|]. rewrite blen_cons in Hle. lia.
    - inversion H; subst r. exact Hb.
  Qed.

  Lemma seg_raw_shape c1 c2 k1 k2 r1 r2 : pub_eq c1 c2 ->
    seg_raw enc1 c1 k1 = Ok r1 -> seg_raw enc2 c2 k2 = Ok r2 -> shape_of r1 = shape_of r2.
  Proof.
    intros [_ [_ [He Hb]]] H1 H2. unfold seg_raw in H1, H2. rewrite <- He in H2.
    destruct (c_enc c1).
    - bind_inv H1 as x1 E1. bind_inv H2 as x2 E2. inversion H1; inversion H2; subst. cbn [shape_of].
      destruct (pad_aligned (Bf3.c_blob c1)) as [M1 _]. destruct (pad_aligned (Bf3.c_blob c2)) as [M2 _].
      rewrite (enc_len1 _ _ _ M1 E1), (enc_len2 _ _ _ M2 E2), Hb. reflexivity.
    - inversion H1; inversion H2; subst. cbn [shape_of]. rewrite Hb. reflexivity.
  Qed.

  Lemma seg_entry_shape c1 c2 ndx adr ndx' adr' k1 k2 e1 r1 e2 r2 :
    pub_eq c1 c2 -> nonempty_blob c1 -> nonempty_blob c2 -> ndx = ndx' -> adr = adr' ->
    seg_entry enc1 mac1 c1 ndx adr k1 = Ok (e1, r1) ->
    seg_entry enc2 mac2 c2 ndx' adr' k2 = Ok (e2, r2) ->
    shape e1 = shape e2 /\ shape_of r1 = shape_of r2.
  Proof.
    intros Hpe Hb1 Hb2 Hndx Hadr H1 H2. unfold seg_entry in H1, H2.
    bind_inv H1 as rs1 Ers1. bind_inv H1 as pmac1 Epmac1. bind_inv H1 as a1 Ea1. bind_inv H1 as tl1 Etl1.
    bind_inv H1 as al1 Eal1. bind_inv H1 as tags1 Etags1. bind_inv H1 as tgl1 Etgl1.
    bind_inv H1 as iv1 Eiv1. bind_inv H1 as emac1 Eemac1. inversion H1; subst e1 rs1. clear H1.
    bind_inv H2 as rs2 Ers2. bind_inv H2 as pmac2 Epmac2. bind_inv H2 as a2 Ea2. bind_inv H2 as tl2 Etl2.
    bind_inv H2 as al2 Eal2. bind_inv H2 as tags2 Etags2. bind_inv H2 as tgl2 Etgl2.
    bind_inv H2 as iv2 Eiv2. bind_inv H2 as emac2 Eemac2. inversion H2; subst e2 rs2. clear H2.
    pose proof (seg_raw_shape _ _ _ _ _ _ Hpe Ers1 Ers2) as Hsr.
    pose proof (shape_of_blen _ _ Hsr) as Hrl.
    destruct Hpe as [Hd [Ha _]]. subst ndx' adr'.
    rewrite Ea1 in Ea2. inversion Ea2; subst a2.
    rewrite <- Hrl, Etl1 in Etl2. inversion Etl2; subst tl2.
    rewrite <- Ha, Eal1 in Eal2. inversion Eal2; subst al2.
    rewrite <- Hd, Etags1 in Etags2. inversion Etags2; subst tags2.
    rewrite Etgl1 in Etgl2. inversion Etgl2; subst tgl2.
    pose proof (mac_len1 _ _ _ _ (seg_raw_nonempty enc1 enc_len1 _ _ _ Hb1 Ers1) Epmac1) as L1.
    pose proof (mac_len2 _ _ _ _ (seg_raw_nonempty enc2 enc_len2 _ _ _ Hb2 Ers2) Epmac2) as L2.
    assert (Hne : forall pm, flatten [Public (a1 ++ tl1 ++ al1); MacOut pm; Public (tgl1 ++ tags1)] <> []).
    { intros pm Hn. apply (f_equal (@length byte)) in Hn. cbn [flatten flat_map seg_bytes] in Hn.
      apply to_bytes_be in Ea1 as [-> _]. rewrite !app_length, be_length in Hn. simpl in Hn. lia. }
    pose proof (mac_len1 _ _ _ _ (Hne pmac1) Eemac1) as L3.
    pose proof (mac_len2 _ _ _ _ (Hne pmac2) Eemac2) as L4.
    split; [|exact Hsr].
    cbn [shape map app shape_of]. rewrite L1, L2, L3, L4. reflexivity.
  Qed.

  Lemma seg_dir_shape cs1 : forall cs2 ndx adr k1 k2 d1 d2,
    Forall2 pub_eq cs1 cs2 -> Forall nonempty_blob cs1 -> Forall nonempty_blob cs2 ->
    seg_dir enc1 mac1 cs1 ndx adr k1 = Ok d1 -> seg_dir enc2 mac2 cs2 ndx adr k2 = Ok d2 ->
    shape d1 = shape d2.
  Proof.
    induction cs1 as [|c1 cs1 IH]; intros cs2 ndx adr k1 k2 d1 d2 HF Hn1 Hn2 H1 H2.
    - inversion HF; subst. inversion H1; inversion H2; subst. reflexivity.
    - inversion HF as [|? c2 ? cs2' Hpe HF']; subst.
      inversion Hn1 as [|? ? Hb1 Hn1']; subst. inversion Hn2 as [|? ? Hb2 Hn2']; subst.
      cbn [seg_dir] in H1, H2.
      destruct (seg_entry enc1 mac1 c1 ndx adr k1) as [[e1 r1]|] eqn:E1; cbn [bind] in H1; [|discriminate].
      destruct (seg_entry enc2 mac2 c2 ndx adr k2) as [[e2 r2]|] eqn:E2; cbn [bind] in H2; [|discriminate].
      bind_inv H1 as el1 Eel1. bind_inv H1 as t1 Et1. inversion H1; subst d1. clear H1.
      bind_inv H2 as el2 Eel2. bind_inv H2 as t2 Et2. inversion H2; subst d2. clear H2.
      destruct (seg_entry_shape _ _ _ _ _ _ _ _ _ _ _ _ Hpe Hb1 Hb2 eq_refl eq_refl E1 E2) as [Hse Hsr].
      rewrite <- (shape_blen _ _ Hse), Eel1 in Eel2. inversion Eel2; subst el2.
      rewrite (shape_of_blen _ _ Hsr) in Et1.
      pose proof (IH _ _ _ _ _ _ _ HF' Hn1' Hn2' Et1 Et2) as Hst.
      cbn [shape map shape_of]. fold (shape (e1 ++ t1)) (shape (e2 ++ t2)).
      rewrite !shape_app, Hse, Hst. reflexivity.
  Qed.

  Lemma seg_dir_to_binary_shape cs1 cs2 adr k1 k2 d1 d2 :
    Forall2 pub_eq cs1 cs2 -> Forall nonempty_blob cs1 -> Forall nonempty_blob cs2 ->
    seg_dir_to_binary enc1 mac1 cs1 adr k1 = Ok d1 -> seg_dir_to_binary enc2 mac2 cs2 adr k2 = Ok d2 ->
    shape d1 = shape d2.
  Proof.
    intros HF Hn1 Hn2 H1 H2. unfold seg_dir_to_binary in H1, H2.
    bind_inv H1 as dd1 E1. bind_inv H1 as sz1 Es1. inversion H1; subst d1. clear H1.
    bind_inv H2 as dd2 E2. bind_inv H2 as sz2 Es2. inversion H2; subst d2. clear H2.
    pose proof (seg_dir_shape _ _ _ _ _ _ _ _ HF Hn1 Hn2 E1 E2) as Hs.
    assert (Hl : blen (flatten dd2 ++ [x00]) = blen (flatten dd1 ++ [x00])).
    { rewrite !blen_app, (shape_blen _ _ Hs). reflexivity. }
    rewrite Hl, Es1 in Es2. inversion Es2; subst sz2.
    cbn [shape map shape_of]. fold (shape (dd1 ++ [Public [x00]])) (shape (dd2 ++ [Public [x00]])).
    rewrite !shape_app, Hs. reflexivity.
  Qed.

  Lemma seg_payloads_shape cs1 : forall cs2 k1 k2 p1 p2,
    Forall2 pub_eq cs1 cs2 ->
    seg_payloads enc1 cs1 k1 = Ok p1 -> seg_payloads enc2 cs2 k2 = Ok p2 -> shape p1 = shape p2.
  Proof.
    induction cs1 as [|c1 cs1 IH]; intros cs2 k1 k2 p1 p2 HF H1 H2.
    - inversion HF; subst. inversion H1; inversion H2; subst. reflexivity.
    - inversion HF as [|? c2 ? cs2' Hpe HF']; subst.
      cbn [seg_payloads] in H1, H2.
      bind_inv H1 as r1 E1. bind_inv H1 as t1 Et1. inversion H1; subst p1.
      bind_inv H2 as r2 E2. bind_inv H2 as t2 Et2. inversion H2; subst p2.
      cbn [shape map]. rewrite (seg_raw_shape _ _ _ _ _ _ Hpe E1 E2).
      fold (shape t1) (shape t2). rewrite (IH _ _ _ _ _ HF' Et1 Et2). reflexivity.
  Qed.

  Theorem seg_to_binary_shape cs1 cs2 off k1 k2 s1 s2 :
    Forall2 pub_eq cs1 cs2 -> Forall nonempty_blob cs1 -> Forall nonempty_blob cs2 ->
    seg_to_binary enc1 mac1 cs1 off k1 = Ok s1 -> seg_to_binary enc2 mac2 cs2 off k2 = Ok s2 ->
    shape s1 = shape s2.
  Proof.
    intros HF Hn1 Hn2 H1 H2. unfold seg_to_binary in H1, H2.
    bind_inv H1 as d01 E01. bind_inv H1 as d1 E1. bind_inv H1 as p1 Ep1. inversion H1; subst s1. clear H1.
    bind_inv H2 as d02 E02. bind_inv H2 as d2 E2. bind_inv H2 as p2 Ep2. inversion H2; subst s2. clear H2.
    pose proof (seg_dir_to_binary_shape _ _ _ _ _ _ _ HF Hn1 Hn2 E01 E02) as Hs0.
    rewrite (shape_blen _ _ Hs0) in E1.
    rewrite !shape_app, (seg_dir_to_binary_shape _ _ _ _ _ _ _ HF Hn1 Hn2 E1 E2),
      (seg_payloads_shape _ _ _ _ _ _ HF Ep1 Ep2). reflexivity.
  Qed.
End NonInterference.

(* ---- BEC2 framing: AES auth blocks ---------------------------------------------- *)
Section Bec2Seg.
  Variable enc mac : bytes -> option bytes -> bytes -> result bytes.
  Variable sha256 : bytes -> bytes.

  Lemma pack_auth_blocks_seg l k :
    pack_auth_blocks enc sha256 l k = rmap flatten (seg_auth_blocks enc sha256 l k).
  Proof.
    induction l as [|a l IH]; [reflexivity|].
    cbn [pack_auth_blocks seg_auth_blocks]. unfold seg_ab.
    destruct (ab_pack enc sha256 a k) as [raw|]; cbn [bind rmap]; [|reflexivity].
    destruct (to_bytes 1 (ab_tag a)) as [tg|]; cbn [bind rmap]; [|reflexivity].
    destruct (to_bytes 1 (blen raw)) as [ln|]; cbn [bind rmap]; [|reflexivity].
    rewrite IH. destruct (seg_auth_blocks enc sha256 l k) as [r|]; cbn [bind rmap]; [|reflexivity].
    rewrite flatten_app. cbn [flatten flat_map seg_bytes].
    destruct (ab_wrapped a); cbn [seg_bytes]; rewrite app_nil_r, <- !app_assoc; reflexivity.
  Qed.

  Theorem bec2_to_binary_seg l cs k :
    bec2_to_binary enc mac sha256 l cs k = rmap flatten (seg_bec2_to_binary enc mac sha256 l cs k).
  Proof.
    unfold bec2_to_binary, seg_bec2_to_binary. rewrite pack_auth_blocks_seg.
    destruct (seg_auth_blocks enc sha256 l k) as [h|]; cbn [rmap bind]; [|reflexivity].
    change (flatten (Public BEC2_FILE_SIG :: h)) with (BEC2_FILE_SIG ++ flatten h).
    rewrite to_binary_seg.
    destruct (seg_to_binary enc mac cs (blen (BEC2_FILE_SIG ++ flatten h)) k) as [b|]; cbn [rmap bind]; [|reflexivity].
    change (Public BEC2_FILE_SIG :: h) with ([Public BEC2_FILE_SIG] ++ h).
    rewrite <- app_assoc, !flatten_app. cbn [flatten flat_map seg_bytes]. rewrite app_nil_r, <- app_assoc. reflexivity.
  Qed.

  (* a wrapped auth block is the cipher's output on a container frame *)
  Lemma wrap_is_enc wk pt b : wrap (enc0 enc) wk pt = Ok b ->
    exists f, frame pt = Ok f /\ enc wk None f = Ok b.
  Proof.
    unfold wrap. intro H. bind_inv H as f Ef. exists f. split; [reflexivity|exact H].
  Qed.

  Lemma ab_pack_is_enc a k b : ab_wrapped a = true -> ab_pack enc sha256 a k = Ok b ->
    exists wk pt f, frame pt = Ok f /\ enc wk None f = Ok b.
  Proof.
    intros Hw H. destruct a as [wkey ck|code v|t raw]; [| |discriminate].
    - cbn [ab_pack] in H. unfold ck_wrap in H.
      destruct (ck_active ck) as [[c p]|].
      + destruct (wrap_is_enc _ _ _ H) as [f [Hf He]]. eauto.
      + destruct (wrap_is_enc _ _ _ H) as [f [Hf He]]. eauto.
    - cbn [ab_pack] in H. bind_inv H as vb Ev. unfold csc_wrap in H.
      destruct (wrap_is_enc _ _ _ H) as [f [Hf He]]. eauto.
  Qed.

  Definition bseg_ok (l : list ablock) (cs : list comp) (k : bytes) (s : seg) : Prop :=
    match s with
    | WrapOut b => exists a, In a l /\ ab_wrapped a = true /\ ab_pack enc sha256 a k = Ok b
    | _ => seg_ok enc mac cs k s
    end.

  Lemma seg_auth_blocks_ok all cs l : forall k h, incl l all ->
    seg_auth_blocks enc sha256 l k = Ok h -> Forall (bseg_ok all cs k) h.
  Proof.
    induction l as [|a l IH]; intros k h Hinc H.
    - inversion H. repeat constructor.
    - cbn [seg_auth_blocks] in H. bind_inv H as s Es. bind_inv H as r Er. inversion H; subst h. clear H.
      apply Forall_app. split; [|apply IH; [intros x Hx; apply Hinc; right; exact Hx|exact Er]].
      unfold seg_ab in Es. bind_inv Es as raw Eraw. bind_inv Es as tg Etg. bind_inv Es as ln Eln.
      inversion Es; subst s. constructor; [exact I|]. constructor; [|constructor].
      destruct (ab_wrapped a) eqn:Ew; [|exact I].
      exists a. split; [apply Hinc; left; reflexivity|]. split; [exact Ew|exact Eraw].
  Qed.

  Theorem seg_bec2_ok l cs k segs :
    seg_bec2_to_binary enc mac sha256 l cs k = Ok segs -> Forall (bseg_ok l cs k) segs.
  Proof.
    unfold seg_bec2_to_binary. intro H. bind_inv H as h Eh. bind_inv H as b Eb. inversion H; subst segs.
    constructor; [exact I|]. apply Forall_app. split.
    - apply (seg_auth_blocks_ok l cs l k h (incl_refl _) Eh).
    - pose proof (seg_to_binary_ok enc mac cs _ k b Eb) as Hb.
      eapply Forall_impl; [|exact Hb]. intros s Hs. destruct s; try exact Hs. destruct Hs.
  Qed.
End Bec2Seg.

Lemma frame_blen pt f : frame pt = Ok f ->
  blen f mod 16 = 0 /\ blen f = 4 + Z.to_N (padding_len (Z.of_N (blen pt))) + blen pt.
Proof.
  intro H.
  assert (Hn : blen pt <= 253).
  { destruct (N.le_gt_cases (blen pt) 253) as [Hle|Hgt]; [exact Hle|].
    rewrite frame_overflow in H by exact Hgt. discriminate. }
  unfold frame in H. bind_inv H as crc Ec. bind_inv H as lenb El. inversion H; subst f. clear H.
  apply to_bytes_be in Ec as [-> _]. apply to_bytes_be in El as [-> _].
  destruct (padding_len_spec _ Hn) as [_ Hmod]. cbv zeta in Hmod.
  set (pl := Z.to_N (padding_len (Z.of_N (blen pt)))) in *.
  assert (L : blen ([marker_B] ++ be 1 (blen pt + blen (be 2 (crc_of pt))) ++ zeros (N.to_nat pl) ++ pt ++ be 2 (crc_of pt))
              = 4 + pl + blen pt).
  { rewrite !blen_app, blen_zeros, !blen_be, N2Nat.id.
    change (blen [marker_B]) with 1. change (N.of_nat 1) with 1. change (N.of_nat 2) with 2. lia. }
  split; [|exact L].
  change (marker_B :: ?x) with ([marker_B] ++ x).
  rewrite L. replace (4 + pl + blen pt) with (2 + pl + blen pt + 2) by lia. exact Hmod.
Qed.

Section Bec2NonInterference.
  Variable enc1 mac1 enc2 mac2 : bytes -> option bytes -> bytes -> result bytes.
  Variable sha1 sha2 : bytes -> bytes.
  Hypothesis mac_len1 : forall k iv d m, d <> [] -> mac1 k iv d = Ok m -> blen m = 16.
  Hypothesis mac_len2 : forall k iv d m, d <> [] -> mac2 k iv d = Ok m -> blen m = 16.
  Hypothesis enc_len1 : forall k d c, blen d mod 16 = 0 -> enc1 k None d = Ok c -> blen c = blen d.
  Hypothesis enc_len2 : forall k d c, blen d mod 16 = 0 -> enc2 k None d = Ok c -> blen c = blen d.

  Lemma wrap_blen enc (Hel : forall k d c, blen d mod 16 = 0 -> enc k None d = Ok c -> blen c = blen d)
    wk pt ct : wrap (enc0 enc) wk pt = Ok ct ->
    blen ct = 4 + Z.to_N (padding_len (Z.of_N (blen pt))) + blen pt.
  Proof.
    unfold wrap. intro H. bind_inv H as f Ef. destruct (frame_blen _ _ Ef) as [Hm Hl].
    unfold enc0 in H. rewrite (Hel _ _ _ Hm H). exact Hl.
  Qed.

  Lemma wrap_blen_eq wk1 wk2 pt1 pt2 c1 c2 : blen pt1 = blen pt2 ->
    wrap (enc0 enc1) wk1 pt1 = Ok c1 -> wrap (enc0 enc2) wk2 pt2 = Ok c2 -> blen c1 = blen c2.
  Proof.
    intros Hl H1 H2. rewrite (wrap_blen enc1 enc_len1 _ _ _ H1), (wrap_blen enc2 enc_len2 _ _ _ H2), Hl.
    reflexivity.
  Qed.

  Lemma slice_assign_blen pt1 pt2 p n c1 c2 : blen pt1 = blen pt2 -> blen c1 = blen c2 ->
    blen (slice_assign pt1 p n c1) = blen (slice_assign pt2 p n c2).
  Proof.
    intros Hp Hc. unfold slice_assign. rewrite !blen_app, !takeN_blen, !dropN_blen, Hp, Hc. reflexivity.
  Qed.

  Lemma ab_pack_shape a1 a2 k1 k2 r1 r2 : ab_pub_eq a1 a2 -> blen k1 = blen k2 ->
    ab_pack enc1 sha1 a1 k1 = Ok r1 -> ab_pack enc2 sha2 a2 k2 = Ok r2 ->
    blen r1 = blen r2 /\ ab_tag a1 = ab_tag a2 /\ ab_wrapped a1 = ab_wrapped a2 /\
    (ab_wrapped a1 = false -> r1 = r2).
  Proof.
    intros Hpe Hk H1 H2.
    destruct a1 as [wk1 ck1|code1 v1|t1 raw1], a2 as [wk2 ck2|code2 v2|t2 raw2]; cbn [ab_pub_eq] in Hpe;
      try contradiction.
    - cbn [ab_pack ab_tag ab_wrapped] in *. split; [|repeat split; discriminate].
      assert (Hpt : blen (CUSTOMER_KEY_PLACEHOLDER ++ k1) = blen (CUSTOMER_KEY_PLACEHOLDER ++ k2)).
      { rewrite !blen_app, Hk. reflexivity. }
      unfold ck_wrap in H1, H2.
      destruct ck1 as [[c1 p1]|], ck2 as [[c2 p2]|]; cbn [ck_pub_eq] in Hpe; try contradiction.
      + destruct Hpe as [-> Hc].
        destruct c1 as [|x1 c1], c2 as [|x2 c2]; try (rewrite ?blen_nil, ?blen_cons in Hc; lia);
          cbn [ck_active] in H1, H2.
        * exact (wrap_blen_eq _ _ _ _ _ _ Hpt H1 H2).
        * refine (wrap_blen_eq _ _ _ _ _ _ _ H1 H2). apply slice_assign_blen; assumption.
      + cbn [ck_active] in H1, H2. exact (wrap_blen_eq _ _ _ _ _ _ Hpt H1 H2).
    - cbn [ab_pack ab_tag ab_wrapped] in *. split; [|repeat split; discriminate].
      bind_inv H1 as vb1 E1. bind_inv H2 as vb2 E2. subst v2. rewrite E1 in E2. inversion E2; subst vb2.
      unfold csc_wrap in H1, H2. refine (wrap_blen_eq _ _ _ _ _ _ _ H1 H2).
      rewrite !blen_app, Hk. reflexivity.
    - destruct Hpe as [-> ->]. cbn [ab_pack ab_tag ab_wrapped] in *.
      inversion H1; inversion H2; subst. repeat split; reflexivity.
  Qed.

  Lemma seg_auth_blocks_shape l1 : forall l2 k1 k2 h1 h2,
    Forall2 ab_pub_eq l1 l2 -> blen k1 = blen k2 ->
    seg_auth_blocks enc1 sha1 l1 k1 = Ok h1 -> seg_auth_blocks enc2 sha2 l2 k2 = Ok h2 ->
    shape h1 = shape h2.
  Proof.
    induction l1 as [|a1 l1 IH]; intros l2 k1 k2 h1 h2 HF Hk H1 H2.
    - inversion HF; subst. inversion H1; inversion H2; subst. reflexivity.
    - inversion HF as [|? a2 ? l2' Hpe HF']; subst.
      cbn [seg_auth_blocks] in H1, H2.
      bind_inv H1 as s1 Es1. bind_inv H1 as t1 Et1. inversion H1; subst h1. clear H1.
      bind_inv H2 as s2 Es2. bind_inv H2 as t2 Et2. inversion H2; subst h2. clear H2.
      rewrite !shape_app, (IH _ _ _ _ _ HF' Hk Et1 Et2). f_equal.
      unfold seg_ab in Es1, Es2.
      bind_inv Es1 as raw1 Er1. bind_inv Es2 as raw2 Er2.
      destruct (ab_pack_shape _ _ _ _ _ _ Hpe Hk Er1 Er2) as [Hl [Ht [Hw Hraw]]].
      bind_inv Es1 as tg1 Etg1. bind_inv Es1 as ln1 Eln1. inversion Es1; subst s1. clear Es1.
      rewrite <- Ht, Etg1 in Es2. cbn [bind] in Es2. rewrite <- Hl, Eln1 in Es2. cbn [bind] in Es2.
      inversion Es2; subst s2. clear Es2.
      cbn [shape map]. rewrite <- Hw. destruct (ab_wrapped a1); cbn [shape_of].
      + rewrite Hl. reflexivity.
      + rewrite (Hraw eq_refl). reflexivity.
  Qed.

  Theorem seg_bec2_shape l1 l2 cs1 cs2 k1 k2 s1 s2 :
    Forall2 ab_pub_eq l1 l2 -> blen k1 = blen k2 ->
    Forall2 pub_eq cs1 cs2 -> Forall nonempty_blob cs1 -> Forall nonempty_blob cs2 ->
    seg_bec2_to_binary enc1 mac1 sha1 l1 cs1 k1 = Ok s1 ->
    seg_bec2_to_binary enc2 mac2 sha2 l2 cs2 k2 = Ok s2 ->
    shape s1 = shape s2.
  Proof.
    intros HL Hk HF Hn1 Hn2 H1 H2. unfold seg_bec2_to_binary in H1, H2.
    bind_inv H1 as h1 Eh1. bind_inv H1 as b1 Eb1. inversion H1; subst s1. clear H1.
    bind_inv H2 as h2 Eh2. bind_inv H2 as b2 Eb2. inversion H2; subst s2. clear H2.
    pose proof (seg_auth_blocks_shape _ _ _ _ _ _ HL Hk Eh1 Eh2) as Hh.
    assert (Hs : shape (Public BEC2_FILE_SIG :: h1) = shape (Public BEC2_FILE_SIG :: h2)).
    { cbn [shape map]. fold (shape h1) (shape h2). rewrite Hh. reflexivity. }
    rewrite (shape_blen _ _ Hs) in Eb1.
    change (Public BEC2_FILE_SIG :: h1 ++ b1) with ((Public BEC2_FILE_SIG :: h1) ++ b1).
    change (Public BEC2_FILE_SIG :: h2 ++ b2) with ((Public BEC2_FILE_SIG :: h2) ++ b2).
    rewrite !shape_app, Hs.
    rewrite (seg_to_binary_shape enc1 mac1 enc2 mac2 mac_len1 mac_len2 enc_len1 enc_len2
               _ _ _ _ _ _ _ HF Hn1 Hn2 Eb1 Eb2). reflexivity.
  Qed.
End Bec2NonInterference.

(* ---- fail closed ------------------------------------------------------------------ *)
Section FailClosed.
  Variable enc mac : bytes -> option bytes -> bytes -> result bytes.

  (* the calls the writer makes for one component under one key *)
  Definition calls_ok (k : bytes) (c : comp) : Prop :=
    exists raw pm, raw_data enc c k = Ok raw /\ mac k None raw = Ok pm.

  Lemma ser_dir_calls cs : forall ndx adr k d,
    ser_dir enc mac cs ndx adr k = Ok d -> Forall (calls_ok k) cs.
  Proof.
    induction cs as [|c cs IH]; intros ndx adr k d H; [constructor|].
    cbn [ser_dir] in H.
    destruct (ser_entry enc mac c ndx adr k) as [[entry raw]|] eqn:Ee; cbn [bind] in H; [|discriminate].
    bind_inv H as el Eel. bind_inv H as rest Er.
    constructor; [|exact (IH _ _ _ _ Er)].
    unfold ser_entry in Ee. bind_inv Ee as raw' Eraw. bind_inv Ee as pmac Epmac.
    exists raw', pmac. split; [exact Eraw|exact Epmac].
  Qed.

  (* Ok only if every cipher call for every component succeeded, in the measuring pass
     (default key) and in the real pass: any failing call makes to_binary fail *)
  Theorem to_binary_ok_calls cs off k b :
    to_binary enc mac cs off k = Ok b ->
    Forall (fun c => calls_ok DEFAULT_SESSION_KEY c /\ calls_ok k c) cs.
  Proof.
    unfold to_binary, dir_to_binary. intro H.
    bind_inv H as d0 Ed0. bind_inv H as d Ed. bind_inv H as p Ep.
    bind_inv Ed0 as db0 Edb0. bind_inv Ed as db Edb.
    pose proof (ser_dir_calls _ _ _ _ _ Edb0) as H0. pose proof (ser_dir_calls _ _ _ _ _ Edb) as H1.
    rewrite Forall_forall in *. intros c Hc. split; [apply H0, Hc|apply H1, Hc].
  Qed.

  Theorem to_binary_fail_any cs off k c :
    In c cs -> ~ (calls_ok DEFAULT_SESSION_KEY c /\ calls_ok k c) ->
    exists e, to_binary enc mac cs off k = Err e.
  Proof.
    intros Hin Hn. destruct (to_binary enc mac cs off k) as [b|e] eqn:E; [|exists e; reflexivity].
    exfalso. apply Hn. pose proof (to_binary_ok_calls _ _ _ _ E) as H. rewrite Forall_forall in H. apply H, Hin.
  Qed.

  (* cipher not registered: every method raises the same error *)
  Theorem to_binary_unregistered e c cs off k :
    (forall k iv d, enc k iv d = Err e) -> (forall k iv d, mac k iv d = Err e) ->
    to_binary enc mac (c :: cs) off k = Err e.
  Proof.
    intros He Hm. unfold to_binary, dir_to_binary. cbn [ser_dir]. unfold ser_entry, raw_data.
    destruct (c_enc c); [rewrite He|cbn [bind]; rewrite Hm]; reflexivity.
  Qed.

  (* encrypt raises, first component encrypted *)
  Theorem to_binary_enc_fails e c cs off k :
    c_enc c = true -> (forall k iv d, enc k iv d = Err e) ->
    to_binary enc mac (c :: cs) off k = Err e.
  Proof.
    intros Hc He. unfold to_binary, dir_to_binary. cbn [ser_dir]. unfold ser_entry, raw_data.
    rewrite Hc, He. reflexivity.
  Qed.

  (* mac raises *)
  Theorem to_binary_mac_fails e c cs off k raw :
    raw_data enc c DEFAULT_SESSION_KEY = Ok raw -> (forall k iv d, mac k iv d = Err e) ->
    to_binary enc mac (c :: cs) off k = Err e.
  Proof.
    intros Hr Hm. unfold to_binary, dir_to_binary. cbn [ser_dir]. unfold ser_entry.
    rewrite Hr. cbn [bind]. rewrite Hm. reflexivity.
  Qed.

  (* encrypt raises only under the session key (the measuring pass succeeds):
     still no output *)
  Theorem to_binary_enc_fails_late cs off k c :
    In c cs -> c_enc c = true -> (exists e, enc k None (pad (Bf3.c_blob c)) = Err e) ->
    exists e', to_binary enc mac cs off k = Err e'.
  Proof.
    intros Hin Hc [e He]. apply (to_binary_fail_any cs off k c Hin).
    intros [_ [raw [pm [Hr _]]]]. unfold raw_data in Hr. rewrite Hc, He in Hr. discriminate.
  Qed.
End FailClosed.

(* ---- output trace ------------------------------------------------------------------- *)
Lemma written_app a b : written (a ++ b) = written a ++ written b.
Proof. apply flat_map_app. Qed.

Lemma written_hex_lines fuel : forall b, written (map EvWrite (hex_line_list fuel b)) = hex_lines fuel b.
Proof.
  induction fuel as [|f IH]; intro b; [reflexivity|].
  cbn [hex_line_list map written flat_map hex_lines]. fold (written (map EvWrite (hex_line_list f (skipn 40 b)))).
  rewrite IH, <- app_assoc. reflexivity.
Qed.

Lemma written_write_events p cm raw : written (write_events p cm raw) = write_bf3_format cm raw.
Proof.
  unfold write_events, write_bf3_format. rewrite !written_app, written_hex_lines.
  destruct p; cbn [written flat_map app]; rewrite ?app_nil_r, <- ?app_assoc; reflexivity.
Qed.

Lemma call_with_binary_err p cm e : call_with_binary p cm (Err e) = ([], Err e).
Proof. reflexivity. Qed.

Section TraceProofs.
  Variable enc mac : bytes -> option bytes -> bytes -> result bytes.
  Variable sha256 : bytes -> bytes.

  Theorem write_file_io_spec p f k :
    match write_file enc mac f k with
    | Err e => write_file_io enc mac p f k = ([], Err e)
    | Ok t => exists evs, write_file_io enc mac p f k = (evs, Ok tt) /\ written evs = t
    end.
  Proof.
    unfold write_file, write_file_io.
    destruct (to_binary enc mac (f_comps f) (blen BF3_FILE_SIG) k) as [b|e]; cbn [bind call_with_binary].
    - eexists. split; [reflexivity|apply written_write_events].
    - reflexivity.
  Qed.

  Theorem bec2_write_file_io_spec p l f k :
    match bec2_write_file enc mac sha256 l f k with
    | Err e => bec2_write_file_io enc mac sha256 p l f k = ([], Err e)
    | Ok t => exists evs, bec2_write_file_io enc mac sha256 p l f k = (evs, Ok tt) /\ written evs = t
    end.
  Proof.
    unfold bec2_write_file, bec2_write_file_io.
    destruct (bec2_to_binary enc mac sha256 l (f_comps f) k) as [b|e]; cbn [bind call_with_binary].
    - eexists. split; [reflexivity|apply written_write_events].
    - reflexivity.
  Qed.

  (* a failing auth-block cipher call also leaves nothing behind *)
  Theorem bec2_to_binary_fail_header l cs k e :
    pack_auth_blocks enc sha256 l k = Err e -> bec2_to_binary enc mac sha256 l cs k = Err e.
  Proof. unfold bec2_to_binary. intros ->. reflexivity. Qed.

  Theorem bec2_to_binary_fail_body l cs k h e :
    pack_auth_blocks enc sha256 l k = Ok h ->
    to_binary enc mac cs (blen (BEC2_FILE_SIG ++ h)) k = Err e ->
    bec2_to_binary enc mac sha256 l cs k = Err e.
  Proof. unfold bec2_to_binary. intros -> H. cbn [bind]. rewrite H. reflexivity. Qed.
End TraceProofs.
