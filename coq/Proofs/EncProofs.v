(* C06: proofs about session-key encryption of BF3 components
   (Model/Bf3.v writer and reader, Model/Cbc.v adapter, Model/ConfTlv.v set_config,
   Model/Segments.v provenance segments / BEC2 framing / output trace). *)
From Coq Require Import List Bool NArith ZArith Lia.
From Coq Require Import Init.Byte.
From Bec2 Require Import Base.Result Base.Bytes Base.Reader Gen.Consts Model.Cbc
  Model.ConfTlv Model.AesContainer Model.Bf3 Model.Segments
  Proofs.CbcProofs Proofs.Bf3Proofs Proofs.Bf3TextProofs Proofs.AesContainerProofs.
Import ListNotations.
Open Scope N_scope.

(* ---- crypto.pad (translated from the source) is zero padding to 16 ---------- *)
Lemma pad_count n : Z.to_nat (pad_length (Z.of_N n)) = N.to_nat ((16 - n mod 16) mod 16).
Proof.
  unfold pad_length.
  pose proof (N.mod_upper_bound n 16 ltac:(lia)) as Hr.
  pose proof (N.div_mod n 16 ltac:(lia)) as Hd.
  set (q := n / 16) in *. set (r := n mod 16) in *. clearbody q r.
  assert (E : ((- Z.of_N n) mod 16 = Z.of_N ((16 - r) mod 16))%Z).
  { destruct (N.eq_dec r 0) as [H0|H0].
    - rewrite H0. change ((16 - 0) mod 16) with 0.
      replace (- Z.of_N n)%Z with ((- Z.of_N q) * 16)%Z by lia. rewrite Z.mod_mul by lia. reflexivity.
    - rewrite (N.mod_small (16 - r)) by lia.
      symmetry. apply (Z.mod_unique_pos _ _ (- Z.of_N q - 1)); lia. }
  rewrite E. generalize ((16 - r) mod 16). intro x. lia.
Qed.

Theorem pad_zero_pad d : pad d = zero_pad d.
Proof. unfold pad, zero_pad. rewrite pad_count. reflexivity. Qed.

Lemma pad_nonempty d : d <> [] -> pad d <> [].
Proof. destruct d; [contradiction|discriminate]. Qed.

Lemma takeN_app_le {A} n (a b : list A) : n <= blen a -> takeN n (a ++ b) = takeN n a.
Proof.
  intro H. rewrite !takeN_firstn, firstn_app.
  replace (N.to_nat n - length a)%nat with 0%nat by (unfold blen in H; lia).
  cbn [firstn]. apply app_nil_r.
Qed.

Lemma dropN_app_ge {A} n (a b : list A) : dropN (blen a + n) (a ++ b) = dropN n b.
Proof.
  rewrite !dropN_skipn, skipn_app.
  rewrite skipn_all2 by (unfold blen; lia). cbn [app]. f_equal. unfold blen. lia.
Qed.

(* the declared length never reaches into the padding *)
Lemma takeN_pad n d : n <= blen d -> takeN n (pad d) = takeN n d.
Proof. intro H. unfold pad. apply takeN_app_le, H. Qed.

(* ---- the adapter on a padded blob is plain CBC of the zero-padded blob -------- *)
Section Adapter.
  Variable E D : bytes -> bytes -> bytes.

  Lemma adapter_encrypt_pad k d raw : d <> [] ->
    adapter_encrypt E k None (pad d) = Ok raw ->
    raw = cbc_enc E (length (zero_pad d)) k (zeros 16) (zero_pad d).
  Proof.
    intros Hne H. rewrite pad_zero_pad in H.
    assert (Hne2 : zero_pad d <> []) by (rewrite <- pad_zero_pad; apply pad_nonempty, Hne).
    rewrite (adapter_encrypt_ne E k None _ Hne2) in H.
    destruct (key_ok k); cbn [negb] in H; [|discriminate].
    cbn [the_iv] in H. change (blen (zeros 16) =? 16) with true in H. cbn [negb] in H.
    destruct (zero_pad_len d) as [Hm _].
    rewrite (zero_pad_aligned _ Hm) in H. inversion H. reflexivity.
  Qed.
End Adapter.

(* ---- where the payloads are: directory of the written binary ---------------- *)
Section Stored.
  Variable enc dec mac : bytes -> option bytes -> bytes -> result bytes.
  Hypothesis mac_len : forall k iv d m, d <> [] -> mac k iv d = Ok m -> blen m = 16.
  Hypothesis enc_len : forall k d c, blen d mod 16 = 0 -> enc k None d = Ok c -> blen c = blen d.

  (* the reader's directory parser, run on the writer's output, returns the entries
     computed by entries_of, and leaves the reader at the first payload *)
  Lemma dir_from_binary_to_binary cs off k b check :
    Forall wf_comp cs -> to_binary enc mac cs off k = Ok b ->
    exists d p es,
      b = d ++ p /\
      dir_from_binary mac (mkR b off) check k = Ok (es, mkR p (off + blen d)) /\
      entries_of enc mac cs (off + blen d) k = Ok es /\
      payloads enc cs k = Ok p.
  Proof.
    intros Hwf H. unfold to_binary in H.
    bind_inv H as d0 Ed0. bind_inv H as d Ed. bind_inv H as pb Epb. inversion H; subst b. clear H.
    unfold dir_to_binary in Ed0, Ed.
    bind_inv Ed0 as db0 Edb0. bind_inv Ed0 as sz0 Esz0. inversion Ed0; subst d0. clear Ed0.
    bind_inv Ed as db Edb. bind_inv Ed as sz Esz. inversion Ed; subst d. clear Ed.
    apply to_bytes_be in Esz0 as [-> _]. apply to_bytes_be in Esz as [-> Hsz].
    destruct (ser_dir_blen enc mac mac_len enc_len cs _ _ _ _ _ _ _ _ Edb0 Edb Hwf) as [Hl _].
    exists (be 4 (blen (db ++ [x00])) ++ db ++ [x00]), pb.
    assert (Hok : Forall (okc enc k) cs).
    { apply Forall_forall. intros c Hc. apply (wf_okc enc enc_len). rewrite Forall_forall in Hwf. apply Hwf, Hc. }
    destruct (parse_dir_ser enc mac mac_len cs 0 (off + blen (be 4 (blen (db0 ++ [x00])) ++ db0 ++ [x00])) db
                (S (length (db ++ [x00]))) [] [] 0 check k Edb Hok) as [es [Ees Epd]].
    { destruct (ser_dir_blen enc mac mac_len enc_len cs _ _ _ _ _ _ _ _ Edb Edb Hwf) as [_ Hn].
      rewrite app_length. simpl. lia. }
    assert (Hadr : off + blen (be 4 (blen (db0 ++ [x00])) ++ db0 ++ [x00]) =
                   off + blen (be 4 (blen (db ++ [x00])) ++ db ++ [x00])).
    { rewrite !blen_app, !blen_be, Hl. reflexivity. }
    exists es. split; [reflexivity|]. rewrite <- Hadr. split; [|split; [exact Ees|reflexivity]].
    unfold dir_from_binary.
    rewrite <- app_assoc.
    rewrite (rd_read_int_be 4 (blen (db ++ [x00]))) by exact Hsz. cbn [bind].
    rewrite rd_read_app. cbn [bind].
    unfold parse_dir' in Epd. unfold new_reader. cbn [app] in Epd.
    change (1 + 0) with 1 in Epd.
    destruct (rd_read_int 1 {| rest := db ++ [x00]; pos := 0 |}) as [[len dr]|] eqn:Er;
      cbn [bind] in Epd |- *; [|discriminate].
    rewrite Epd. cbn [bind rev app]. unfold rd_ensure_eof, rd_eof. cbn [rest bind].
    f_equal. f_equal. f_equal. rewrite Hadr, !blen_app, !blen_be. lia.
  Qed.

  (* entry i of the directory points at the raw data of component i inside the
     payload area *)
  Lemma entries_locate cs : forall adr k es p i c,
    entries_of enc mac cs adr k = Ok es -> payloads enc cs k = Ok p ->
    nth_error cs i = Some c ->
    exists e raw, nth_error es i = Some e /\ raw_data enc c k = Ok raw /\
      e_total e = blen raw /\ e_alen e = c_alen c /\ e_desc e = c_desc c /\
      adr <= e_adr e /\ takeN (e_total e) (dropN (e_adr e - adr) p) = raw.
  Proof.
    induction cs as [|c0 cs IH]; intros adr k es p i c He Hp Hi.
    - destruct i; discriminate.
    - cbn [entries_of payloads] in He, Hp.
      bind_inv He as raw0 Eraw. bind_inv He as pmac Epmac. bind_inv He as es' Ees. inversion He; subst es. clear He.
      cbn [bind] in Hp. bind_inv Hp as p' Ep. inversion Hp; subst p. clear Hp.
      destruct i as [|i]; cbn [nth_error] in Hi |- *.
      + inversion Hi; subst c0. exists (entry_of c adr raw0 pmac), raw0.
        cbn [entry_of e_total e_alen e_desc e_adr].
        repeat split; try reflexivity; try assumption.
        rewrite N.sub_diag, dropN_0. apply takeN_app_exact.
      + destruct (IH _ _ _ _ _ _ Ees Ep Hi) as [e [raw [H1 [H2 [H3 [H4 [H5 [H6 H7]]]]]]]].
        exists e, raw. repeat split; try assumption; [lia|].
        replace (e_adr e - adr) with (blen raw0 + (e_adr e - (adr + blen raw0))) by lia.
        rewrite dropN_app_ge. exact H7.
  Qed.

  Theorem stored_payload cs off k b check i c :
    Forall wf_comp cs -> to_binary enc mac cs off k = Ok b ->
    nth_error cs i = Some c ->
    exists es r' e raw,
      dir_from_binary mac (mkR b off) check k = Ok (es, r') /\
      nth_error es i = Some e /\
      raw_data enc c k = Ok raw /\
      e_total e = blen raw /\ e_alen e = c_alen c /\ e_desc e = c_desc c /\
      off <= e_adr e /\
      takeN (e_total e) (dropN (e_adr e - off) b) = raw.
  Proof.
    intros Hwf Hb Hi.
    destruct (dir_from_binary_to_binary cs off k b check Hwf Hb) as [d [p [es [-> [Hd [He Hp]]]]]].
    destruct (entries_locate cs _ _ _ _ _ _ He Hp Hi) as [e [raw [H1 [H2 [H3 [H4 [H5 [H6 H7]]]]]]]].
    exists es, (mkR p (off + blen d)), e, raw.
    repeat split; try assumption; [lia|].
    replace (e_adr e - off) with (blen d + (e_adr e - (off + blen d))) by lia.
    rewrite dropN_app_ge. exact H7.
  Qed.
End Stored.

(* ---- recovery ---------------------------------------------------------------- *)
(* what reading gives back for one component, relative to what was written *)
Definition recovered (c c' : comp) : Prop :=
  c_desc c' = c_desc c /\ c_alen c' = c_alen c /\ c_enc c' = c_enc c /\
  takeN (c_alen c) (Bf3.c_blob c') = takeN (c_alen c) (Bf3.c_blob c) /\
  (c_enc c = false -> c' = c) /\
  (c_enc c = true -> Bf3.c_blob c' = zero_pad (Bf3.c_blob c)).

Lemma view_recovered c : wf_comp c -> recovered c (view c).
Proof.
  intros [_ [_ [[_ Hal] _]]]. unfold recovered, view.
  destruct (c_enc c) eqn:Ee; cbn [c_desc c_alen c_enc Bf3.c_blob].
  - repeat split; try reflexivity.
    + apply takeN_pad, Hal.
    + discriminate.
    + intros _. apply pad_zero_pad.
  - rewrite Ee. repeat split; try reflexivity. discriminate.
Qed.

Lemma map_view_recovered cs : Forall wf_comp cs -> Forall2 recovered cs (map view cs).
Proof.
  induction 1 as [|c cs Hc _ IH]; cbn [map]; constructor; [apply view_recovered, Hc|exact IH].
Qed.

(* ---- set_config creates an encrypted, well-formed component ------------------ *)
Definition cfg_desc : desc := [(0xC3, [x03]); (0xC2, [x02]); (0xC1, [x03]); (0xC5, [x01])].

Lemma set_config_shape comps d extra r :
  set_config comps d extra = Ok r ->
  exists blob, r = remove_first_config comps ++ [ConfTlv.mkComp cfg_desc blob (blen blob) true] /\
               blob <> [].
Proof.
  unfold set_config. intro H.
  destruct (conf_dict_to_tlv d) as [tlv|]; cbn [bind] in H; [|discriminate].
  destruct (config_blob (tlv ++ extra)) as [blob|] eqn:Eb; cbn [bind] in H; [|discriminate].
  change config_descr with (Ok cfg_desc) in H. cbn [bind] in H. inversion H; subst r.
  exists blob. split; [reflexivity|].
  unfold config_blob in Eb. destruct (mapM frame_block (tlv ++ extra)); cbn [bind] in Eb; [|discriminate].
  inversion Eb. intro Hn. apply (f_equal (@length byte)) in Hn. rewrite app_length in Hn. simpl in Hn. lia.
Qed.

Lemma of_to_cfg c : of_cfg (to_cfg c) = c.
Proof. destruct c; reflexivity. Qed.

Lemma remove_first_config_incl cs c : In c (remove_first_config cs) -> In c cs.
Proof.
  induction cs as [|x cs IH]; cbn [remove_first_config]; [tauto|].
  destruct (is_config x); cbn [In]; tauto.
Qed.

Lemma cfg_comp_wf blob : blob <> [] -> wf_comp (Bf3.mkComp cfg_desc blob (blen blob) true).
Proof.
  intro Hb. unfold wf_comp. cbn [c_desc Bf3.c_blob c_alen c_enc].
  split; [|split; [exact Hb|split]].
  - cbn [cfg_desc map fst].
    repeat (constructor; [cbn [In]; intuition discriminate|]). constructor.
  - destruct blob; [contradiction|]. rewrite blen_cons. lia.
  - split; reflexivity.
Qed.

Theorem bf3_set_config_spec cs d extra r :
  bf3_set_config cs d extra = Ok r ->
  exists blob front,
    r = front ++ [Bf3.mkComp cfg_desc blob (blen blob) true] /\
    blob <> [] /\ (forall c, In c front -> In c cs) /\
    (Forall wf_comp cs -> Forall wf_comp r).
Proof.
  unfold bf3_set_config. intro H.
  destruct (set_config (map to_cfg cs) d extra) as [r0|] eqn:E; cbn [rmap] in H; [|discriminate].
  inversion H; subst r. clear H.
  destruct (set_config_shape _ _ _ _ E) as [blob [-> Hb]].
  exists blob, (map of_cfg (remove_first_config (map to_cfg cs))).
  rewrite map_app. cbn [map of_cfg c_descr ConfTlv.c_blob c_actual_len c_sess].
  assert (Hin : forall c, In c (map of_cfg (remove_first_config (map to_cfg cs))) -> In c cs).
  { intros c Hc. apply in_map_iff in Hc as [x [<- Hx]].
    apply remove_first_config_incl in Hx. apply in_map_iff in Hx as [y [<- Hy]].
    rewrite of_to_cfg. exact Hy. }
  split; [reflexivity|]. split; [exact Hb|]. split; [exact Hin|].
  intro Hwf. apply Forall_app. split.
  - apply Forall_forall. intros c Hc. rewrite Forall_forall in Hwf. apply Hwf, Hin, Hc.
  - constructor; [apply cfg_comp_wf, Hb|constructor].
Qed.

(* ---- segments: concatenation equals the writer's output ---------------------- *)
Section SegEq.
  Variable enc mac : bytes -> option bytes -> bytes -> result bytes.

  Lemma flatten_app a b : flatten (a ++ b) = flatten a ++ flatten b.
  Proof. apply flat_map_app. Qed.

  Lemma raw_data_seg c k : raw_data enc c k = rmap seg_bytes (seg_raw enc c k).
  Proof.
    unfold raw_data, seg_raw. destruct (c_enc c); [|reflexivity].
    destruct (enc k None (pad (Bf3.c_blob c))); reflexivity.
  Qed.

  Lemma ser_entry_seg c ndx adr k :
    ser_entry enc mac c ndx adr k =
    rmap (fun p => (flatten (fst p), seg_bytes (snd p))) (seg_entry enc mac c ndx adr k).
  Proof.
    unfold ser_entry, seg_entry. rewrite raw_data_seg.
    destruct (seg_raw enc c k) as [rs|]; cbn [rmap bind]; [|reflexivity].
    destruct (mac k None (seg_bytes rs)) as [pmac|]; cbn [bind rmap]; [|reflexivity].
    destruct (to_bytes 4 adr) as [a|]; cbn [bind rmap]; [|reflexivity].
    destruct (to_bytes 4 (blen (seg_bytes rs))) as [tl|]; cbn [bind rmap]; [|reflexivity].
    destruct (to_bytes 4 (c_alen c)) as [al|]; cbn [bind rmap]; [|reflexivity].
    destruct (ser_tags (c_desc c)) as [tags|]; cbn [bind rmap]; [|reflexivity].
    destruct (to_bytes 1 (blen tags)) as [tgl|]; cbn [bind rmap]; [|reflexivity].
    destruct (to_bytes 16 (1 + ndx)) as [iv|]; cbn [bind rmap]; [|reflexivity].
    assert (Ef : flatten [Public (a ++ tl ++ al); MacOut pmac; Public (tgl ++ tags)] =
                 a ++ tl ++ al ++ pmac ++ tgl ++ tags).
    { cbn [flatten flat_map seg_bytes]. rewrite app_nil_r, <- !app_assoc. reflexivity. }
    rewrite Ef.
    destruct (mac k (Some iv) (a ++ tl ++ al ++ pmac ++ tgl ++ tags)) as [emac|]; cbn [bind rmap]; [|reflexivity].
    cbn [fst snd]. rewrite flatten_app, Ef. cbn [flatten flat_map seg_bytes]. rewrite app_nil_r. reflexivity.
  Qed.

  Lemma ser_dir_seg cs : forall ndx adr k,
    ser_dir enc mac cs ndx adr k = rmap flatten (seg_dir enc mac cs ndx adr k).
  Proof.
    induction cs as [|c cs IH]; intros ndx adr k; [reflexivity|].
    cbn [ser_dir seg_dir]. rewrite ser_entry_seg.
    destruct (seg_entry enc mac c ndx adr k) as [[entry rs]|]; cbn [rmap bind fst snd]; [|reflexivity].
    destruct (to_bytes 1 (blen (flatten entry))) as [el|]; cbn [bind rmap]; [|reflexivity].
    rewrite IH.
    destruct (seg_dir enc mac cs (ndx + 1) (adr + blen (seg_bytes rs)) k) as [rest|]; cbn [bind rmap]; [|reflexivity].
    cbn [flatten flat_map seg_bytes]. fold (flatten (entry ++ rest)). rewrite flatten_app. reflexivity.
  Qed.

  Lemma dir_to_binary_seg cs adr k :
    dir_to_binary enc mac cs adr k = rmap flatten (seg_dir_to_binary enc mac cs adr k).
  Proof.
    unfold dir_to_binary, seg_dir_to_binary. rewrite ser_dir_seg.
    destruct (seg_dir enc mac cs 0 adr k) as [d|]; cbn [rmap bind]; [|reflexivity].
    destruct (to_bytes 4 (blen (flatten d ++ [x00]))) as [sz|]; cbn [bind rmap]; [|reflexivity].
    cbn [flatten flat_map seg_bytes]. fold (flatten (d ++ [Public [x00]])). rewrite flatten_app. reflexivity.
  Qed.

  Lemma payloads_seg cs k : payloads enc cs k = rmap flatten (seg_payloads enc cs k).
  Proof.
    induction cs as [|c cs IH]; [reflexivity|].
    cbn [payloads seg_payloads]. rewrite raw_data_seg.
    destruct (seg_raw enc c k) as [r|]; cbn [rmap bind]; [|reflexivity].
    rewrite IH. destruct (seg_payloads enc cs k); reflexivity.
  Qed.

  Theorem to_binary_seg cs off k :
    to_binary enc mac cs off k = rmap flatten (seg_to_binary enc mac cs off k).
  Proof.
    unfold to_binary, seg_to_binary. rewrite dir_to_binary_seg.
    destruct (seg_dir_to_binary enc mac cs 0 DEFAULT_SESSION_KEY) as [d0|]; cbn [rmap bind]; [|reflexivity].
    rewrite dir_to_binary_seg.
    destruct (seg_dir_to_binary enc mac cs (off + blen (flatten d0)) k) as [d|]; cbn [rmap bind]; [|reflexivity].
    rewrite payloads_seg.
    destruct (seg_payloads enc cs k) as [p|]; cbn [rmap bind]; [|reflexivity].
    rewrite flatten_app. reflexivity.
  Qed.

  (* ---- every non-public segment is an output of enc / mac under the key ------ *)
  Definition seg_ok0 (cs : list comp) (k : bytes) (s : seg) : Prop :=
    match s with
    | Public _ => True
    | CipherOut b => exists c, In c cs /\ c_enc c = true /\ enc k None (pad (Bf3.c_blob c)) = Ok b
    | MacOut b => exists iv d, mac k iv d = Ok b
    | WrapOut _ => False
    end.
  (* ... and what is MACed consists itself only of public bytes and such outputs *)
  Definition seg_ok (cs : list comp) (k : bytes) (s : seg) : Prop :=
    match s with
    | MacOut b => exists iv src, Forall (seg_ok0 cs k) src /\ mac k iv (flatten src) = Ok b
    | _ => seg_ok0 cs k s
    end.

  Lemma seg_raw_ok cs c k r : In c cs -> seg_raw enc c k = Ok r -> seg_ok0 cs k r /\ seg_ok cs k r.
  Proof.
    intros Hin H. unfold seg_raw in H. destruct (c_enc c) eqn:Ee.
    - bind_inv H as x Ex. inversion H; subst r. cbn [seg_ok seg_ok0].
      split; exists c; auto.
    - inversion H; subst r. cbn. auto.
  Qed.

  Lemma seg_entry_ok cs c ndx adr k entry rs : In c cs ->
    seg_entry enc mac c ndx adr k = Ok (entry, rs) -> Forall (seg_ok cs k) entry.
  Proof.
    intros Hin H. unfold seg_entry in H.
    bind_inv H as rs' Ers. bind_inv H as pmac Epmac. bind_inv H as a Ea. bind_inv H as tl Etl.
    bind_inv H as al Eal. bind_inv H as tags Etags. bind_inv H as tgl Etgl.
    bind_inv H as iv Eiv. bind_inv H as emac Eemac. inversion H; subst entry rs'. clear H.
    destruct (seg_raw_ok cs c k rs Hin Ers) as [Hr0 _].
    cbn [app]. repeat constructor.
    - cbn [seg_ok]. exists None, [rs]. split; [constructor; [exact Hr0|constructor]|].
      cbn [flatten flat_map]. rewrite app_nil_r. exact Epmac.
    - cbn [seg_ok]. exists (Some iv), [Public (a ++ tl ++ al); MacOut pmac; Public (tgl ++ tags)].
      split; [|exact Eemac].
      repeat constructor. cbn [seg_ok0]. exists None, (seg_bytes rs). exact Epmac.
  Qed.

  Lemma seg_dir_ok all cs : forall ndx adr k d, incl cs all ->
    seg_dir enc mac cs ndx adr k = Ok d -> Forall (seg_ok all k) d.
  Proof.
    induction cs as [|c cs IH]; intros ndx adr k d Hinc H.
    - inversion H. constructor.
    - cbn [seg_dir] in H.
      destruct (seg_entry enc mac c ndx adr k) as [[entry rs]|] eqn:Ee; cbn [bind] in H; [|discriminate].
      bind_inv H as el Eel. bind_inv H as rest Er. inversion H; subst d. clear H.
      constructor; [exact I|]. apply Forall_app. split.
      + apply (seg_entry_ok all c ndx adr k entry rs); [apply Hinc; left; reflexivity|exact Ee].
      + apply (IH _ _ _ _ (fun x Hx => Hinc x (or_intror Hx)) Er).
  Qed.

  Lemma seg_payloads_ok all cs : forall k p, incl cs all ->
    seg_payloads enc cs k = Ok p -> Forall (seg_ok all k) p.
  Proof.
    induction cs as [|c cs IH]; intros k p Hinc H.
    - inversion H. constructor.
    - cbn [seg_payloads] in H. bind_inv H as r Er. bind_inv H as rest Erest. inversion H; subst p.
      constructor.
      + apply (seg_raw_ok all c k r); [apply Hinc; left; reflexivity|exact Er].
      + apply IH; [intros x Hx; apply Hinc; right; exact Hx|exact Erest].
  Qed.

  Theorem seg_to_binary_ok cs off k segs :
    seg_to_binary enc mac cs off k = Ok segs -> Forall (seg_ok cs k) segs.
  Proof.
    unfold seg_to_binary. intro H.
    bind_inv H as d0 Ed0. bind_inv H as d Ed. bind_inv H as p Ep. inversion H; subst segs. clear H.
    apply Forall_app. split; [|apply (seg_payloads_ok cs cs k p (incl_refl _) Ep)].
    unfold seg_dir_to_binary in Ed. bind_inv Ed as dd Edd. bind_inv Ed as sz Esz. inversion Ed; subst d.
    constructor; [exact I|]. apply Forall_app. split.
    - apply (seg_dir_ok cs cs 0 _ k dd (incl_refl _) Edd).
    - repeat constructor.
  Qed.
End SegEq.

(* ---- non-interference: the public part of the output --------------------------- *)
Lemma shape_app a b : shape (a ++ b) = shape a ++ shape b.
Proof. apply map_app. Qed.

Lemma shape_of_blen s1 s2 : shape_of s1 = shape_of s2 -> blen (seg_bytes s1) = blen (seg_bytes s2).
Proof. destruct s1, s2; cbn; intro H; inversion H; congruence. Qed.

Lemma shape_blen s1 : forall s2, shape s1 = shape s2 -> blen (flatten s1) = blen (flatten s2).
Proof.
  induction s1 as [|x s1 IH]; intros [|y s2] H; try discriminate; [reflexivity|].
  cbn [shape map] in H. inversion H.
  cbn [flatten flat_map]. rewrite !blen_app. fold (flatten s1) (flatten s2).
  rewrite (shape_of_blen _ _ H1), (IH s2 H2). reflexivity.
Qed.

Section NonInterference.
  Variable enc1 mac1 enc2 mac2 : bytes -> option bytes -> bytes -> result bytes.
  Hypothesis mac_len1 : forall k iv d m, d <> [] -> mac1 k iv d = Ok m -> blen m = 16.
  Hypothesis mac_len2 : forall k iv d m, d <> [] -> mac2 k iv d = Ok m -> blen m = 16.
  Hypothesis enc_len1 : forall k d c, blen d mod 16 = 0 -> enc1 k None d = Ok c -> blen c = blen d.
  Hypothesis enc_len2 : forall k d c, blen d mod 16 = 0 -> enc2 k None d = Ok c -> blen c = blen d.

  Definition nonempty_blob (c : comp) : Prop := Bf3.c_blob c <> [].

  Lemma blen_nonempty {A} (l : list A) : 1 <= blen l -> l <> [].
  Proof. destruct l; [rewrite blen_nil; lia|discriminate]. Qed.

  Lemma seg_raw_nonempty enc (Hel : forall k d c, blen d mod 16 = 0 -> enc k None d = Ok c -> blen c = blen d)
    c k r : nonempty_blob c -> seg_raw enc c k = Ok r -> seg_bytes r <> [].
  Proof.
    intros Hb H. unfold seg_raw in H. destruct (c_enc c).
    - bind_inv H as x Ex. inversion H; subst r. cbn [seg_bytes].
      destruct (pad_aligned (Bf3.c_blob c)) as [Hm Hle].
      apply (Hel _ _ _ Hm) in Ex. apply blen_nonempty. rewrite Ex.
      unfold nonempty_blob in Hb. destruct (Bf3.c_blob c); [contradiction|]. rewrite blen_cons in Hle. lia.
    - inversion H; subst r. exact Hb.
  Qed.

  Lemma seg_raw_shape c1 c2 k1 k2 r1 r2 : pub_eq c1 c2 ->
    seg_raw enc1 c1 k1 = Ok r1 -> seg_raw enc2 c2 k2 = Ok r2 -> shape_of r1 = shape_of r2.
  Proof.
    intros [_ [_ [He Hb]]] H1 H2. unfold seg_raw in H1, H2. rewrite <- He in H2.
    destruct (c_enc c1).
    - bind_inv H1 as x1 E1. bind_inv H2 as x2 E2. inversion H1; inversion H2; subst. cbn [shape_of].
      destruct (pad_aligned (Bf3.c_blob c1)) as [M1 _]. destruct (pad_aligned (Bf3.c_blob c2)) as [M2 _].
      rewrite (enc_len1 _ _ _ M1 E1), (enc_len2 _ _ _ M2 E2), Hb. reflexivity.
    - inversion H1; inversion H2; subst. cbn [shape_of]. rewrite Hb. reflexivity.
  Qed.

  Lemma seg_entry_shape c1 c2 ndx adr ndx' adr' k1 k2 e1 r1 e2 r2 :
    pub_eq c1 c2 -> nonempty_blob c1 -> nonempty_blob c2 -> ndx = ndx' -> adr = adr' ->
    seg_entry enc1 mac1 c1 ndx adr k1 = Ok (e1, r1) ->
    seg_entry enc2 mac2 c2 ndx' adr' k2 = Ok (e2, r2) ->
    shape e1 = shape e2 /\ shape_of r1 = shape_of r2.
  Proof.
    intros Hpe Hb1 Hb2 Hndx Hadr H1 H2. unfold seg_entry in H1, H2.
    bind_inv H1 as rs1 Ers1. bind_inv H1 as pmac1 Epmac1. bind_inv H1 as a1 Ea1. bind_inv H1 as tl1 Etl1.
    bind_inv H1 as al1 Eal1. bind_inv H1 as tags1 Etags1. bind_inv H1 as tgl1 Etgl1.
    bind_inv H1 as iv1 Eiv1. bind_inv H1 as emac1 Eemac1. inversion H1; subst e1 rs1. clear H1.
    bind_inv H2 as rs2 Ers2. bind_inv H2 as pmac2 Epmac2. bind_inv H2 as a2 Ea2. bind_inv H2 as tl2 Etl2.
    bind_inv H2 as al2 Eal2. bind_inv H2 as tags2 Etags2. bind_inv H2 as tgl2 Etgl2.
    bind_inv H2 as iv2 Eiv2. bind_inv H2 as emac2 Eemac2. inversion H2; subst e2 rs2. clear H2.
    pose proof (seg_raw_shape _ _ _ _ _ _ Hpe Ers1 Ers2) as Hsr.
    pose proof (shape_of_blen _ _ Hsr) as Hrl.
    destruct Hpe as [Hd [Ha _]]. subst ndx' adr'.
    rewrite Ea1 in Ea2. inversion Ea2; subst a2.
    rewrite <- Hrl, Etl1 in Etl2. inversion Etl2; subst tl2.
    rewrite <- Ha, Eal1 in Eal2. inversion Eal2; subst al2.
    rewrite <- Hd, Etags1 in Etags2. inversion Etags2; subst tags2.
    rewrite Etgl1 in Etgl2. inversion Etgl2; subst tgl2.
    pose proof (mac_len1 _ _ _ _ (seg_raw_nonempty enc1 enc_len1 _ _ _ Hb1 Ers1) Epmac1) as L1.
    pose proof (mac_len2 _ _ _ _ (seg_raw_nonempty enc2 enc_len2 _ _ _ Hb2 Ers2) Epmac2) as L2.
    assert (Hne : forall pm, flatten [Public (a1 ++ tl1 ++ al1); MacOut pm; Public (tgl1 ++ tags1)] <> []).
    { intros pm Hn. apply (f_equal (@length byte)) in Hn. cbn [flatten flat_map seg_bytes] in Hn.
      apply to_bytes_be in Ea1 as [-> _]. rewrite !app_length, be_length in Hn. simpl in Hn. lia. }
    pose proof (mac_len1 _ _ _ _ (Hne pmac1) Eemac1) as L3.
    pose proof (mac_len2 _ _ _ _ (Hne pmac2) Eemac2) as L4.
    split; [|exact Hsr].
    cbn [shape map app shape_of]. rewrite L1, L2, L3, L4. reflexivity.
  Qed.

  Lemma seg_dir_shape cs1 : forall cs2 ndx adr k1 k2 d1 d2,
    Forall2 pub_eq cs1 cs2 -> Forall nonempty_blob cs1 -> Forall nonempty_blob cs2 ->
    seg_dir enc1 mac1 cs1 ndx adr k1 = Ok d1 -> seg_dir enc2 mac2 cs2 ndx adr k2 = Ok d2 ->
    shape d1 = shape d2.
  Proof.
    induction cs1 as [|c1 cs1 IH]; intros cs2 ndx adr k1 k2 d1 d2 HF Hn1 Hn2 H1 H2.
    - inversion HF; subst. inversion H1; inversion H2; subst. reflexivity.
    - inversion HF as [|? c2 ? cs2' Hpe HF']; subst.
      inversion Hn1 as [|? ? Hb1 Hn1']; subst. inversion Hn2 as [|? ? Hb2 Hn2']; subst.
      cbn [seg_dir] in H1, H2.
      destruct (seg_entry enc1 mac1 c1 ndx adr k1) as [[e1 r1]|] eqn:E1; cbn [bind] in H1; [|discriminate].
      destruct (seg_entry enc2 mac2 c2 ndx adr k2) as [[e2 r2]|] eqn:E2; cbn [bind] in H2; [|discriminate].
      bind_inv H1 as el1 Eel1. bind_inv H1 as t1 Et1. inversion H1; subst d1. clear H1.
      bind_inv H2 as el2 Eel2. bind_inv H2 as t2 Et2. inversion H2; subst d2. clear H2.
      destruct (seg_entry_shape _ _ _ _ _ _ _ _ _ _ _ _ Hpe Hb1 Hb2 eq_refl eq_refl E1 E2) as [Hse Hsr].
      rewrite <- (shape_blen _ _ Hse), Eel1 in Eel2. inversion Eel2; subst el2.
      rewrite (shape_of_blen _ _ Hsr) in Et1.
      pose proof (IH _ _ _ _ _ _ _ HF' Hn1' Hn2' Et1 Et2) as Hst.
      cbn [shape map shape_of]. fold (shape (e1 ++ t1)) (shape (e2 ++ t2)).
      rewrite !shape_app, Hse, Hst. reflexivity.
  Qed.

  Lemma seg_dir_to_binary_shape cs1 cs2 adr k1 k2 d1 d2 :
    Forall2 pub_eq cs1 cs2 -> Forall nonempty_blob cs1 -> Forall nonempty_blob cs2 ->
    seg_dir_to_binary enc1 mac1 cs1 adr k1 = Ok d1 -> seg_dir_to_binary enc2 mac2 cs2 adr k2 = Ok d2 ->
    shape d1 = shape d2.
  Proof.
    intros HF Hn1 Hn2 H1 H2. unfold seg_dir_to_binary in H1, H2.
    bind_inv H1 as dd1 E1. bind_inv H1 as sz1 Es1. inversion H1; subst d1. clear H1.
    bind_inv H2 as dd2 E2. bind_inv H2 as sz2 Es2. inversion H2; subst d2. clear H2.
    pose proof (seg_dir_shape _ _ _ _ _ _ _ _ HF Hn1 Hn2 E1 E2) as Hs.
    assert (Hl : blen (flatten dd2 ++ [x00]) = blen (flatten dd1 ++ [x00])).
    { rewrite !blen_app, (shape_blen _ _ Hs). reflexivity. }
    rewrite Hl, Es1 in Es2. inversion Es2; subst sz2.
    cbn [shape map shape_of]. fold (shape (dd1 ++ [Public [x00]])) (shape (dd2 ++ [Public [x00]])).
    rewrite !shape_app, Hs. reflexivity.
  Qed.

  Lemma seg_payloads_shape cs1 : forall cs2 k1 k2 p1 p2,
    Forall2 pub_eq cs1 cs2 ->
    seg_payloads enc1 cs1 k1 = Ok p1 -> seg_payloads enc2 cs2 k2 = Ok p2 -> shape p1 = shape p2.
  Proof.
    induction cs1 as [|c1 cs1 IH]; intros cs2 k1 k2 p1 p2 HF H1 H2.
    - inversion HF; subst. inversion H1; inversion H2; subst. reflexivity.
    - inversion HF as [|? c2 ? cs2' Hpe HF']; subst.
      cbn [seg_payloads] in H1, H2.
      bind_inv H1 as r1 E1. bind_inv H1 as t1 Et1. inversion H1; subst p1.
      bind_inv H2 as r2 E2. bind_inv H2 as t2 Et2. inversion H2; subst p2.
      cbn [shape map]. rewrite (seg_raw_shape _ _ _ _ _ _ Hpe E1 E2).
      fold (shape t1) (shape t2). rewrite (IH _ _ _ _ _ HF' Et1 Et2). reflexivity.
  Qed.

  Theorem seg_to_binary_shape cs1 cs2 off k1 k2 s1 s2 :
    Forall2 pub_eq cs1 cs2 -> Forall nonempty_blob cs1 -> Forall nonempty_blob cs2 ->
    seg_to_binary enc1 mac1 cs1 off k1 = Ok s1 -> seg_to_binary enc2 mac2 cs2 off k2 = Ok s2 ->
    shape s1 = shape s2.
  Proof.
    intros HF Hn1 Hn2 H1 H2. unfold seg_to_binary in H1, H2.
    bind_inv H1 as d01 E01. bind_inv H1 as d1 E1. bind_inv H1 as p1 Ep1. inversion H1; subst s1. clear H1.
    bind_inv H2 as d02 E02. bind_inv H2 as d2 E2. bind_inv H2 as p2 Ep2. inversion H2; subst s2. clear H2.
    pose proof (seg_dir_to_binary_shape _ _ _ _ _ _ _ HF Hn1 Hn2 E01 E02) as Hs0.
    rewrite (shape_blen _ _ Hs0) in E1.
    rewrite !shape_app, (seg_dir_to_binary_shape _ _ _ _ _ _ _ HF Hn1 Hn2 E1 E2),
      (seg_payloads_shape _ _ _ _ _ _ HF Ep1 Ep2). reflexivity.
  Qed.
End NonInterference.
