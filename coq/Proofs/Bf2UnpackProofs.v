(* C13: what bf2_unpack_payload / bf2_convert_payload compute, against a
   specification written from the BF2 line format:
     a data line of tag type t whose tag is  L o1 o2 payload...  places
     payload[0 .. L-2) at address (t - first type) * 0x10000 + (o1 o2). *)
From Coq Require Import List Bool NArith ZArith Lia Permutation.
From Coq Require Import Init.Byte.
From Bec2 Require Import Base.Result Base.Bytes Base.Reader Gen.Consts Model.Bf2Str Model.Bf2Import.
Import ListNotations.
Open Scope N_scope.

(* ---------------------------------------------------------------------------- *)
(* specification                                                                *)

Definition line_data (l : line) : bytes :=
  match l_tag l with
  | L :: _ :: _ :: rs => takeN (b2n L - 2) rs
  | _ => []
  end.
Definition line_off16 (l : line) : N :=
  match l_tag l with
  | _ :: o1 :: o2 :: _ => b2n o1 * 256 + b2n o2
  | _ => 0
  end.
Definition line_addr (first : N) (l : line) : Z :=
  ((Z.of_N (l_type l) - Z.of_N first) * 65536 + Z.of_N (line_off16 l))%Z.

(* the tag really holds the length byte, the offset and as many payload bytes as
   the length byte announces *)
Definition wf_lineb (l : line) : bool :=
  match l_tag l with
  | L :: _ :: _ :: rs => (2 <=? b2n L) && (b2n L - 2 <=? blen rs)
  | _ => false
  end.
Definition wf_line (l : line) : Prop := wf_lineb l = true.

Definition zlen (b : bytes) : Z := Z.of_N (blen b).

(* the byte a line places at address a *)
Definition in_extent (e : Z * bytes) (a : Z) : option byte :=
  let off := (a - fst e)%Z in
  if ((0 <=? off) && (off <? zlen (snd e)))%Z then nth_error (snd e) (Z.to_nat off) else None.

Definition line_extent (first : N) (l : line) : Z * bytes := (line_addr first l, line_data l).

(* the memory image the lines describe (the first line that covers an address wins) *)
Fixpoint image_of_extents (es : list (Z * bytes)) (a : Z) : option byte :=
  match es with
  | [] => None
  | e :: t => match in_extent e a with Some b => Some b | None => image_of_extents t a end
  end.
Definition image_of (first : N) (ls : list line) (a : Z) : option byte :=
  image_of_extents (map (line_extent first) ls) a.

(* every line starts where the previous one ended; the first at [a] *)
Fixpoint contig (first : N) (a : Z) (ls : list line) : Prop :=
  match ls with
  | [] => True
  | l :: t => line_addr first l = a /\ contig first (a + zlen (line_data l))%Z t
  end.

(* no line starts before the end of the previous one (addresses ascend, no overlap) *)
Fixpoint ascending_from (first : N) (lo : Z) (ls : list line) : Prop :=
  match ls with
  | [] => True
  | l :: t => (lo <= line_addr first l)%Z /\
              ascending_from first (line_addr first l + zlen (line_data l))%Z t
  end.
Definition ascending (first : N) (ls : list line) : Prop :=
  match ls with
  | [] => True
  | l :: t => ascending_from first (line_addr first l + zlen (line_data l))%Z t
  end.

(* extents sorted by address with a real gap between neighbours: maximal extents *)
Fixpoint gapped (lo : Z) (es : list (Z * bytes)) : Prop :=
  match es with
  | [] => True
  | e :: t => (lo < fst e)%Z /\ gapped (fst e + zlen (snd e))%Z t
  end.
Definition maximal_extents (es : list (Z * bytes)) : Prop :=
  match es with
  | [] => True
  | e :: t => gapped (fst e + zlen (snd e))%Z t
  end.

(* the runs of consecutive contiguous lines, in file order *)
Fixpoint runs_aux (first : N) (s : Z) (d : bytes) (ls : list line) : list (Z * bytes) :=
  match ls with
  | [] => [(s, d)]
  | l :: t =>
    if (line_addr first l =? s + zlen d)%Z
    then runs_aux first s (d ++ line_data l) t
    else (s, d) :: runs_aux first (line_addr first l) (line_data l) t
  end.
Definition runs (first : N) (ls : list line) : list (Z * bytes) :=
  match ls with
  | [] => []
  | l :: t => runs_aux first (line_addr first l) (line_data l) t
  end.

Definition first_type (ls : list line) : N :=
  match ls with l :: _ => l_type l | [] => 0 end.

(* ---------------------------------------------------------------------------- *)
(* small facts                                                                   *)

Lemma zlen_app a b : zlen (a ++ b) = (zlen a + zlen b)%Z.
Proof. unfold zlen. rewrite blen_app. lia. Qed.

Lemma zlen_nonneg b : (0 <= zlen b)%Z.
Proof. unfold zlen. lia. Qed.

Lemma Zeqb_dec_refl a : (a =? a)%Z = true.
Proof. apply Z.eqb_refl. Qed.

Lemma line_fields_wf l : wf_line l ->
  line_fields l = Ok (zlen (line_data l), line_off16 l, line_data l).
Proof.
  unfold wf_line, wf_lineb, line_fields, line_data, line_off16, zlen.
  destruct (l_tag l) as [|L [|o1 [|o2 rs]]] eqn:E; try discriminate.
  intro H. apply andb_true_iff in H as [H1 H2].
  apply N.leb_le in H1. apply N.leb_le in H2.
  unfold new_reader, rd_read_int, rd_read. cbn [rest pos].
  assert (E1 : blen (L :: o1 :: o2 :: rs) = 3 + blen rs).
  { rewrite !blen_cons. lia. }
  destruct (1 <=? blen (L :: o1 :: o2 :: rs)) eqn:C1; [|apply N.leb_gt in C1; lia].
  cbn [bind].
  replace (takeN 1 (L :: o1 :: o2 :: rs)) with [L] by (rewrite takeN_firstn; reflexivity).
  replace (dropN 1 (L :: o1 :: o2 :: rs)) with (o1 :: o2 :: rs) by (rewrite dropN_skipn; reflexivity).
  cbn [rest pos bind].
  assert (E2 : blen (o1 :: o2 :: rs) = 2 + blen rs) by (rewrite !blen_cons; lia).
  destruct (2 <=? blen (o1 :: o2 :: rs)) eqn:C2; [|apply N.leb_gt in C2; lia].
  cbn [bind].
  replace (takeN 2 (o1 :: o2 :: rs)) with [o1; o2] by (rewrite takeN_firstn; reflexivity).
  replace (dropN 2 (o1 :: o2 :: rs)) with rs by (rewrite dropN_skipn; reflexivity).
  cbn [rest pos bind].
  assert (F : from_be [L] = b2n L) by (unfold from_be; cbn [fold_left]; lia).
  assert (G : from_be [o1; o2] = b2n o1 * 256 + b2n o2) by (unfold from_be; cbn [fold_left]; lia).
  rewrite F, G.
  destruct (Z.of_N (b2n L) - 2 <? 0)%Z eqn:C3; [apply Z.ltb_lt in C3; lia|].
  replace (Z.to_N (Z.of_N (b2n L) - 2)) with (b2n L - 2) by lia.
  destruct (b2n L - 2 <=? blen rs) eqn:C4; [|apply N.leb_gt in C4; lia].
  cbn [bind]. rewrite takeN_blen. rewrite N.min_l by lia.
  replace (Z.of_N (b2n L - 2)) with (Z.of_N (b2n L) - 2)%Z by lia.
  reflexivity.
Qed.

(* ---------------------------------------------------------------------------- *)
(* dict facts                                                                    *)

Definition keys {V} (d : list (Z * V)) : list Z := map fst d.

Lemma dset_fresh {V} k (v : V) d : ~ In k (keys d) -> dset Z.eqb k v d = d ++ [(k, v)].
Proof.
  induction d as [|[k' v'] t IH]; intro H; [reflexivity|].
  cbn [dset]. destruct (k =? k')%Z eqn:E.
  - apply Z.eqb_eq in E. subst. exfalso. apply H. left. reflexivity.
  - cbn [app]. f_equal. apply IH. intro Hin. apply H. right. exact Hin.
Qed.

Lemma dupdate_fresh {V} (rs : list (Z * V)) : forall d,
  NoDup (keys rs) -> (forall k, In k (keys rs) -> ~ In k (keys d)) ->
  dupdate Z.eqb d rs = d ++ rs.
Proof.
  induction rs as [|[k v] t IH]; intros d ND Hd.
  - unfold dupdate. cbn. rewrite app_nil_r. reflexivity.
  - unfold dupdate in *. cbn [fold_left fst snd].
    rewrite dset_fresh by (apply Hd; left; reflexivity).
    inversion ND as [|? ? Hk ND']; subst.
    rewrite IH; [rewrite <- app_assoc; reflexivity|exact ND'|].
    intros k' Hk' Hin. unfold keys in Hin. rewrite map_app in Hin. apply in_app_or in Hin as [Hin|Hin].
    + apply (Hd k'); [right; exact Hk'|exact Hin].
    + cbn in Hin. destruct Hin as [<-|[]]. apply Hk. exact Hk'.
Qed.

(* ---------------------------------------------------------------------------- *)
(* unpack = dict of the runs                                                     *)

Lemma unpack_loop first : forall ls blocks a chunks,
  Forall wf_line ls ->
  exists s', foldM (unpack_step first) ls
               (mkU blocks (Some (a, chunks)) (a + zlen (concat (rev chunks)))%Z) = Ok s' /\
             flush (u_blocks s') (u_cur s') =
             dupdate Z.eqb blocks (runs_aux first a (concat (rev chunks)) ls).
Proof.
  induction ls as [|l t IH]; intros blocks a chunks Hwf.
  - eexists. split; [reflexivity|]. reflexivity.
  - inversion Hwf as [|? ? Hl Ht]; subst.
    cbn [foldM]. unfold unpack_step at 1. rewrite (line_fields_wf l Hl). cbn [bind].
    cbn [u_cur u_end u_blocks].
    change (line_offs first l (line_off16 l)) with (line_addr first l).
    cbn [runs_aux].
    destruct (line_addr first l =? a + zlen (concat (rev chunks)))%Z eqn:E.
    + cbn [negb]. apply Z.eqb_eq in E.
      assert (C : concat (rev (line_data l :: chunks)) = concat (rev chunks) ++ line_data l).
      { cbn [rev]. rewrite concat_app. cbn [concat]. rewrite app_nil_r. reflexivity. }
      replace (line_addr first l + zlen (line_data l))%Z
        with (a + zlen (concat (rev (line_data l :: chunks))))%Z
        by (rewrite C, zlen_app; lia).
      destruct (IH blocks a (line_data l :: chunks) Ht) as [s' [H1 H2]].
      exists s'. split; [exact H1|]. rewrite H2, C. reflexivity.
    + cbn [negb flush].
      assert (C : concat (rev [line_data l]) = line_data l).
      { cbn. apply app_nil_r. }
      replace (line_addr first l + zlen (line_data l))%Z
        with (line_addr first l + zlen (concat (rev [line_data l])))%Z by (rewrite C; reflexivity).
      destruct (IH (dset Z.eqb a (concat (rev chunks)) blocks) (line_addr first l) [line_data l] Ht)
        as [s' [H1 H2]].
      exists s'. split; [exact H1|]. rewrite H2, C. reflexivity.
Qed.

Theorem unpack_runs ls : ls <> [] -> Forall wf_line ls ->
  unpack ls = Ok (dupdate Z.eqb [] (runs (first_type ls) ls)).
Proof.
  destruct ls as [|l t]; [congruence|]. intros _ Hwf.
  inversion Hwf as [|? ? Hl Ht]; subst.
  unfold unpack. cbn [foldM first_type]. unfold unpack_step at 1.
  rewrite (line_fields_wf l Hl). cbn [bind u_cur u_blocks u_end].
  change (line_offs (l_type l) l (line_off16 l)) with (line_addr (l_type l) l).
  assert (C : concat (rev [line_data l]) = line_data l) by (cbn; apply app_nil_r).
  replace (line_addr (l_type l) l + zlen (line_data l))%Z
    with (line_addr (l_type l) l + zlen (concat (rev [line_data l])))%Z by (rewrite C; reflexivity).
  destruct (unpack_loop (l_type l) t [] (line_addr (l_type l) l) [line_data l] Ht) as [s' [H1 H2]].
  rewrite H1. cbn [bind]. rewrite H2, C. reflexivity.
Qed.

(* ---------------------------------------------------------------------------- *)
(* properties of the runs                                                        *)

Lemma runs_aux_concat first : forall ls s d,
  concat (map snd (runs_aux first s d ls)) = d ++ concat (map line_data ls).
Proof.
  induction ls as [|l t IH]; intros s d; cbn [runs_aux].
  - cbn. rewrite app_nil_r. reflexivity.
  - destruct (line_addr first l =? s + zlen d)%Z.
    + rewrite IH. cbn [map concat]. rewrite app_assoc. reflexivity.
    + cbn [map concat snd]. rewrite IH. reflexivity.
Qed.

Lemma runs_concat first ls :
  concat (map snd (runs first ls)) = concat (map line_data ls).
Proof. destruct ls as [|l t]; [reflexivity|]. unfold runs. rewrite runs_aux_concat. reflexivity. Qed.

Lemma runs_aux_contig first : forall ls s d,
  contig first (s + zlen d)%Z ls ->
  runs_aux first s d ls = [(s, d ++ concat (map line_data ls))].
Proof.
  induction ls as [|l t IH]; intros s d H; cbn [runs_aux].
  - cbn. rewrite app_nil_r. reflexivity.
  - destruct H as [H1 H2]. rewrite H1, Z.eqb_refl.
    rewrite IH by (rewrite zlen_app, Z.add_assoc; exact H2).
    cbn [map concat]. rewrite app_assoc. reflexivity.
Qed.

(* the first run starts at s and keeps its start; the others are gapped behind it *)
Lemma runs_aux_shape first : forall ls s d,
  ascending_from first (s + zlen d)%Z ls ->
  exists d' rest, runs_aux first s d ls = (s, d') :: rest /\ gapped (s + zlen d')%Z rest.
Proof.
  induction ls as [|l t IH]; intros s d H; cbn [runs_aux].
  - exists d, []. split; [reflexivity|exact I].
  - destruct H as [H1 H2].
    destruct (line_addr first l =? s + zlen d)%Z eqn:E.
    + apply Z.eqb_eq in E. apply IH. rewrite zlen_app, Z.add_assoc, <- E. exact H2.
    + apply Z.eqb_neq in E.
      destruct (IH (line_addr first l) (line_data l) H2) as [d' [rest [Hr Hg]]].
      exists d, ((line_addr first l, d') :: rest). split; [rewrite Hr; reflexivity|].
      cbn [gapped fst snd]. split; [lia|exact Hg].
Qed.

Lemma runs_aux_single_contig first : forall ls s d b,
  ascending_from first (s + zlen d)%Z ls ->
  runs_aux first s d ls = [b] -> contig first (s + zlen d)%Z ls.
Proof.
  induction ls as [|l t IH]; intros s d b Ha H; cbn [runs_aux contig] in *; [exact I|].
  destruct Ha as [H1 H2].
  destruct (line_addr first l =? s + zlen d)%Z eqn:E.
  - apply Z.eqb_eq in E. split; [exact E|].
    rewrite <- E in *.
    specialize (IH s (d ++ line_data l) b).
    rewrite zlen_app, Z.add_assoc, <- E in IH. apply IH; assumption.
  - exfalso.
    destruct (runs_aux_shape first t (line_addr first l) (line_data l) H2) as [d' [rest [Hr _]]].
    rewrite Hr in H. discriminate.
Qed.

Lemma gapped_lower lo es : gapped lo es -> forall k, In k (keys es) -> (lo < k)%Z.
Proof.
  revert lo; induction es as [|e t IH]; intros lo H k Hk; [destruct Hk|].
  destruct H as [H1 H2]. destruct Hk as [<-|Hk]; [exact H1|].
  specialize (IH _ H2 k Hk). pose proof (zlen_nonneg (snd e)). lia.
Qed.

Lemma gapped_NoDup lo es : gapped lo es -> NoDup (keys es).
Proof.
  revert lo; induction es as [|e t IH]; intros lo H; [constructor|].
  destruct H as [H1 H2]. cbn. constructor; [|exact (IH _ H2)].
  intro Hin. pose proof (gapped_lower _ _ H2 _ Hin). pose proof (zlen_nonneg (snd e)). lia.
Qed.

Lemma maximal_NoDup es : maximal_extents es -> NoDup (keys es).
Proof.
  destruct es as [|e t]; [constructor|]. intro H. cbn. constructor; [|exact (gapped_NoDup _ _ H)].
  intro Hin. pose proof (gapped_lower _ _ H _ Hin). pose proof (zlen_nonneg (snd e)). lia.
Qed.

Lemma runs_maximal first ls : ascending first ls -> maximal_extents (runs first ls).
Proof.
  destruct ls as [|l t]; [intros; exact I|]. intro H. unfold runs.
  destruct (runs_aux_shape first t _ _ H) as [d' [rest [Hr Hg]]]. rewrite Hr. exact Hg.
Qed.

Lemma dict_of_runs first ls : ascending first ls ->
  dupdate Z.eqb [] (runs first ls) = runs first ls.
Proof.
  intro H. rewrite dupdate_fresh; [reflexivity|apply maximal_NoDup, runs_maximal, H|].
  intros k _ [].
Qed.

(* image: the runs describe the same memory image as the lines *)
Lemma in_extent_app s (d e : bytes) a :
  in_extent (@pair Z bytes s (d ++ e)) a =
  match in_extent (@pair Z bytes s d) a with
  | Some b => Some b
  | None => in_extent (@pair Z bytes (s + zlen d)%Z e) a
  end.
Proof.
  unfold in_extent. cbn [fst snd]. rewrite zlen_app.
  pose proof (zlen_nonneg d) as Hd. pose proof (zlen_nonneg e) as He.
  destruct (0 <=? a - s)%Z eqn:A; cbn [andb].
  - apply Z.leb_le in A.
    destruct (a - s <? zlen d)%Z eqn:B.
    + apply Z.ltb_lt in B.
      replace (a - s <? zlen d + zlen e)%Z with true by (symmetry; apply Z.ltb_lt; lia).
      assert (L : (Z.to_nat (a - s) < length d)%nat).
      { unfold zlen, blen in B. lia. }
      rewrite nth_error_app1 by exact L.
      destruct (nth_error d (Z.to_nat (a - s))) eqn:N; [reflexivity|].
      apply nth_error_None in N. lia.
    + apply Z.ltb_ge in B.
      replace (0 <=? a - (s + zlen d))%Z with true by (symmetry; apply Z.leb_le; lia).
      cbn [andb].
      replace (a - (s + zlen d) <? zlen e)%Z with (a - s <? zlen d + zlen e)%Z
        by (destruct (a - s <? zlen d + zlen e)%Z eqn:C;
            [apply Z.ltb_lt in C; symmetry; apply Z.ltb_lt; lia
            |apply Z.ltb_ge in C; symmetry; apply Z.ltb_ge; lia]).
      destruct (a - s <? zlen d + zlen e)%Z; [|reflexivity].
      rewrite nth_error_app2 by (unfold zlen, blen in B; lia).
      f_equal. unfold zlen, blen in *. lia.
  - apply Z.leb_gt in A.
    replace (0 <=? a - (s + zlen d))%Z with false by (symmetry; apply Z.leb_gt; lia).
    reflexivity.
Qed.

Lemma runs_aux_image first : forall ls s d a,
  image_of_extents (runs_aux first s d ls) a =
  match in_extent (s, d) a with Some b => Some b | None => image_of first ls a end.
Proof.
  induction ls as [|l t IH]; intros s d a; cbn [runs_aux].
  - cbn. destruct (in_extent (s, d) a); reflexivity.
  - unfold image_of. cbn [map image_of_extents]. fold (image_of first t a).
    destruct (line_addr first l =? s + zlen d)%Z eqn:E.
    + apply Z.eqb_eq in E. rewrite IH, in_extent_app.
      destruct (in_extent (s, d) a); [reflexivity|].
      unfold line_extent. rewrite E. reflexivity.
    + cbn [image_of_extents]. rewrite IH. reflexivity.
Qed.

Lemma runs_image first ls a : image_of_extents (runs first ls) a = image_of first ls a.
Proof.
  destruct ls as [|l t]; [reflexivity|]. unfold runs. rewrite runs_aux_image.
  unfold image_of. cbn [map image_of_extents]. reflexivity.
Qed.

(* ---------------------------------------------------------------------------- *)
(* BLOB                                                                          *)

Lemma blob_of_blocks (blocks : list (Z * bytes)) b :
  (if negb (blen blocks =? 1) || negb (dmem Z.eqb 0%Z blocks) then Err EBf3
   else match dget Z.eqb 0%Z blocks with Some x => Ok x | None => Err EKey end) = Ok b
  <-> blocks = [(0%Z, b)].
Proof.
  split.
  - destruct blocks as [|[k v] [|e t]].
    + cbn. discriminate.
    + change (blen [(k, v)] =? 1) with true. unfold dmem. cbn [dget negb orb].
      destruct (0 =? k)%Z eqn:E.
      * apply Z.eqb_eq in E. subst k. cbn [negb]. intro H. injection H as <-. reflexivity.
      * cbn [negb]. discriminate.
    + replace (blen ((k, v) :: e :: t) =? 1) with false; [discriminate|].
      symmetry. apply N.eqb_neq. rewrite !blen_cons. lia.
  - intros ->. reflexivity.
Qed.

Lemma blob_err_kind (blocks : list (Z * bytes)) e :
  (if negb (blen blocks =? 1) || negb (dmem Z.eqb 0%Z blocks) then Err EBf3
   else match dget Z.eqb 0%Z blocks with Some x => Ok x | None => Err EKey end) = Err e -> e = EBf3.
Proof.
  destruct (negb (blen blocks =? 1) || negb (dmem Z.eqb 0%Z blocks)) eqn:C.
  - intro H; inversion H; reflexivity.
  - apply orb_false_iff in C as [_ C]. apply negb_false_iff in C. unfold dmem in C.
    destruct (dget Z.eqb 0%Z blocks); [discriminate|discriminate].
Qed.

Lemma convert_blob ls : ls <> [] -> Forall wf_line ls -> forall b,
  convert ls BF3FMT_BLOB = Ok b <-> dupdate Z.eqb [] (runs (first_type ls) ls) = [(0%Z, b)].
Proof.
  intros Hne Hwf b. unfold convert.
  change (BF3FMT_BLOB =? BF3FMT_BF2COMPATIBLE) with false.
  change (BF3FMT_BLOB =? BF3FMT_BLOB) with true. cbv iota.
  rewrite (unpack_runs ls Hne Hwf). cbn [bind]. apply blob_of_blocks.
Qed.

(* contiguous from 0  =>  accepted, and the blob is all payloads in order *)
Theorem blob_accepts ls : ls <> [] -> Forall wf_line ls ->
  contig (first_type ls) 0 ls -> convert ls BF3FMT_BLOB = Ok (concat (map line_data ls)).
Proof.
  intros Hne Hwf Hc. apply (convert_blob ls Hne Hwf).
  destruct ls as [|l t]; [congruence|]. cbn [first_type] in *. unfold runs.
  destruct Hc as [H1 H2].
  rewrite runs_aux_contig by (rewrite H1; exact H2).
  rewrite H1. reflexivity.
Qed.

(* under ascending addresses: accepted exactly when contiguous from 0 *)
Theorem blob_iff ls : ls <> [] -> Forall wf_line ls -> ascending (first_type ls) ls -> forall b,
  convert ls BF3FMT_BLOB = Ok b <->
  contig (first_type ls) 0 ls /\ b = concat (map line_data ls).
Proof.
  intros Hne Hwf Ha b. split.
  - intro H. apply (convert_blob ls Hne Hwf) in H.
    rewrite dict_of_runs in H by exact Ha.
    pose proof (runs_concat (first_type ls) ls) as Hc. rewrite H in Hc. cbn in Hc.
    rewrite app_nil_r in Hc. split; [|exact Hc].
    destruct ls as [|l t]; [congruence|]. cbn [first_type ascending] in *. unfold runs in H.
    destruct (runs_aux_shape _ t _ _ Ha) as [d' [rest [Hr _]]].
    rewrite Hr in H. injection H as H0 Hd Hrest.
    split; [exact H0|].
    replace (0 + zlen (line_data l))%Z with (line_addr (l_type l) l + zlen (line_data l))%Z
      by (rewrite H0; reflexivity).
    eapply runs_aux_single_contig; [exact Ha|]. rewrite Hr, Hrest. reflexivity.
  - intros [Hc ->]. apply blob_accepts; assumption.
Qed.

(* a rejected blob section is a Bf3FileFormatError, nothing else *)
Theorem blob_reject_kind ls e : ls <> [] -> Forall wf_line ls ->
  convert ls BF3FMT_BLOB = Err e -> e = EBf3.
Proof.
  intros Hne Hwf. unfold convert.
  change (BF3FMT_BLOB =? BF3FMT_BF2COMPATIBLE) with false.
  change (BF3FMT_BLOB =? BF3FMT_BLOB) with true. cbv iota.
  rewrite (unpack_runs ls Hne Hwf). cbn [bind]. apply blob_err_kind.
Qed.

(* the accepted blob is the image: byte a of the blob is what the lines place at a *)
Theorem blob_image ls b : contig (first_type ls) 0 ls -> b = concat (map line_data ls) ->
  forall a, image_of (first_type ls) ls a = in_extent (0%Z, b) a.
Proof.
  intros Hc -> a. rewrite <- runs_image.
  destruct ls as [|l t].
  - cbn. unfold in_extent. cbn [fst snd]. destruct ((0 <=? a - 0)%Z && (a - 0 <? zlen [])%Z); [|reflexivity].
    destruct (Z.to_nat (a - 0)); reflexivity.
  - cbn [first_type] in *. destruct Hc as [H1 H2]. unfold runs.
    rewrite runs_aux_contig by (rewrite H1; exact H2). rewrite H1.
    cbn [image_of_extents map concat]. destruct (in_extent _ a); reflexivity.
Qed.

(* ---------------------------------------------------------------------------- *)
(* MEMORYIMAGE                                                                   *)

Definition enc_extent (e : Z * bytes) : bytes :=
  be 4 (Z.to_N (fst e)) ++ be 4 (blen (snd e)) ++ snd e.
Definition fits32 (e : Z * bytes) : Prop :=
  (0 <= fst e < 4294967296)%Z /\ blen (snd e) < 4294967296.

Lemma insert_sorted_head (x : Z * bytes) l :
  (forall y, In y l -> (fst x <= fst y)%Z) ->
  insert_by (fun a b => (fst a <=? fst b)%Z) x l = x :: l.
Proof.
  destruct l as [|y t]; intro H; [reflexivity|]. cbn [insert_by].
  replace (fst x <=? fst y)%Z with true; [reflexivity|].
  symmetry. apply Z.leb_le. apply H. left. reflexivity.
Qed.

Lemma sort_gapped lo es : gapped lo es ->
  sort_by (fun a b => (fst a <=? fst b)%Z) es = es.
Proof.
  revert lo; induction es as [|e t IH]; intros lo H; [reflexivity|].
  destruct H as [H1 H2]. unfold sort_by in *. cbn [fold_right]. rewrite (IH _ H2).
  apply insert_sorted_head. intros y Hy.
  assert (In (fst y) (keys t)) by (apply in_map; exact Hy).
  pose proof (gapped_lower _ _ H2 _ H). pose proof (zlen_nonneg (snd e)). lia.
Qed.

Lemma sort_maximal es : maximal_extents es ->
  sort_by (fun a b => (fst a <=? fst b)%Z) es = es.
Proof.
  destruct es as [|e t]; [reflexivity|]. intro H. unfold sort_by. cbn [fold_right].
  fold (sort_by (fun a b : Z * bytes => (fst a <=? fst b)%Z) t).
  rewrite (sort_gapped _ _ H).
  apply insert_sorted_head. intros y Hy.
  assert (In (fst y) (keys t)) by (apply in_map; exact Hy).
  pose proof (gapped_lower _ _ H _ H0). pose proof (zlen_nonneg (snd e)). lia.
Qed.

Lemma enc_block_fits e : fits32 e -> enc_block e = Ok (enc_extent e).
Proof.
  intros [[H1 H2] H3]. unfold enc_block, enc_extent, to_bytes_Z.
  destruct (fst e <? 0)%Z eqn:C; [apply Z.ltb_lt in C; lia|].
  unfold to_bytes. change (256 ^ N.of_nat 4) with 4294967296.
  destruct (Z.to_N (fst e) <? 4294967296) eqn:C1; [|apply N.ltb_ge in C1; lia].
  cbn [bind].
  destruct (blen (snd e) <? 4294967296) eqn:C2; [|apply N.ltb_ge in C2; lia].
  reflexivity.
Qed.

Lemma mapM_enc es : Forall fits32 es -> mapM enc_block es = Ok (map enc_extent es).
Proof.
  induction 1 as [|e t He Ht IH]; [reflexivity|].
  cbn [mapM map]. rewrite (enc_block_fits e He). cbn [bind]. rewrite IH. reflexivity.
Qed.

Lemma enc_block_overflow e x : enc_block e = Err x -> x = EOverflow.
Proof.
  unfold enc_block, to_bytes_Z, to_bytes.
  destruct (fst e <? 0)%Z; [intro H; inversion H; reflexivity|].
  destruct (Z.to_N (fst e) <? 256 ^ N.of_nat 4); [|intro H; inversion H; reflexivity].
  cbn [bind]. destruct (blen (snd e) <? 256 ^ N.of_nat 4); [discriminate|].
  intro H; inversion H; reflexivity.
Qed.

Lemma mapM_enc_err es x : mapM enc_block es = Err x -> x = EOverflow.
Proof.
  induction es as [|e t IH]; [discriminate|]. cbn [mapM].
  destruct (enc_block e) eqn:E; cbn [bind].
  - destruct (mapM enc_block t) eqn:M; cbn [bind]; [discriminate|].
    intro H; inversion H; subst. apply IH. reflexivity.
  - intro H; inversion H; subst. eapply enc_block_overflow. exact E.
Qed.

Theorem memimage_extents ls : ls <> [] -> Forall wf_line ls -> ascending (first_type ls) ls ->
  let ex := runs (first_type ls) ls in
  maximal_extents ex /\
  (forall a, image_of_extents ex a = image_of (first_type ls) ls a) /\
  concat (map snd ex) = concat (map line_data ls) /\
  (Forall fits32 ex -> convert ls BF3FMT_MEMORYIMAGE = Ok (concat (map enc_extent ex))) /\
  (forall e, convert ls BF3FMT_MEMORYIMAGE = Err e -> e = EOverflow).
Proof.
  intros Hne Hwf Ha ex.
  assert (Hm : maximal_extents ex) by (apply runs_maximal, Ha).
  split; [exact Hm|]. split; [intro a; apply runs_image|]. split; [apply runs_concat|].
  assert (Hc : convert ls BF3FMT_MEMORYIMAGE =
               (let* parts := mapM enc_block ex in Ok (concat parts))).
  { unfold convert.
    change (BF3FMT_MEMORYIMAGE =? BF3FMT_BF2COMPATIBLE) with false.
    change (BF3FMT_MEMORYIMAGE =? BF3FMT_BLOB) with false.
    change (BF3FMT_MEMORYIMAGE =? BF3FMT_MEMORYIMAGE) with true. cbv iota.
    rewrite (unpack_runs ls Hne Hwf). cbn [bind].
    rewrite dict_of_runs by exact Ha. fold ex. rewrite (sort_maximal ex Hm). reflexivity. }
  split.
  - intro Hf. rewrite Hc, (mapM_enc ex Hf). reflexivity.
  - intros e. rewrite Hc. destruct (mapM enc_block ex) eqn:M; cbn [bind]; [discriminate|].
    intro H; inversion H; subst. eapply mapM_enc_err. exact M.
Qed.

(* every extent of the runs is non-empty when every line has a payload *)
Lemma runs_aux_nonempty first : forall ls s d,
  d <> [] -> Forall (fun l => line_data l <> []) ls ->
  Forall (fun e => snd e <> []) (runs_aux first s d ls).
Proof.
  induction ls as [|l t IH]; intros s d Hd H; cbn [runs_aux].
  - constructor; [exact Hd|constructor].
  - inversion H as [|? ? Hl Ht]; subst.
    destruct (line_addr first l =? s + zlen d)%Z.
    + apply IH; [|exact Ht]. intro E. apply app_eq_nil in E as [E _]. contradiction.
    + constructor; [exact Hd|]. apply IH; assumption.
Qed.

Lemma runs_nonempty first ls :
  Forall (fun l => line_data l <> []) ls -> Forall (fun e => snd e <> []) (runs first ls).
Proof.
  destruct ls as [|l t]; [constructor|]. intro H. inversion H; subst.
  unfold runs. apply runs_aux_nonempty; assumption.
Qed.

(* ---------------------------------------------------------------------------- *)
(* BF2COMPATIBLE                                                                 *)

Theorem compat_concat ls : convert ls BF3FMT_BF2COMPATIBLE = Ok (concat (map l_raw ls)).
Proof. reflexivity. Qed.

(* unsupported formats *)
Theorem convert_other ls fmt : fmt <> BF3FMT_BF2COMPATIBLE -> fmt <> BF3FMT_BLOB ->
  fmt <> BF3FMT_MEMORYIMAGE -> convert ls fmt = Err ENotImpl.
Proof.
  intros H1 H2 H3. unfold convert.
  destruct (fmt =? BF3FMT_BF2COMPATIBLE) eqn:E1; [apply N.eqb_eq in E1; contradiction|].
  destruct (fmt =? BF3FMT_BLOB) eqn:E2; [apply N.eqb_eq in E2; contradiction|].
  destruct (fmt =? BF3FMT_MEMORYIMAGE) eqn:E3; [apply N.eqb_eq in E3; contradiction|].
  reflexivity.
Qed.

(* ---------------------------------------------------------------------------- *)
(* what happens without the ascending hypothesis: two runs that start at the
   same address collide in the dict and the earlier one is lost                  *)

Definition dup_line (payload : bytes) : line :=
  mkLine 53 0 (n2b (blen payload + 2) :: x00 :: x00 :: payload) [].

Example blob_collision :
  let ls := [dup_line [x41; x42; x43; x44]; dup_line [x45; x46]] in
  Forall wf_line ls /\
  convert ls BF3FMT_BLOB = Ok [x45; x46] /\
  ~ contig (first_type ls) 0 ls /\
  concat (map line_data ls) = [x41; x42; x43; x44; x45; x46].
Proof.
  cbv zeta. split; [repeat constructor|]. split; [vm_compute; reflexivity|].
  split; [|vm_compute; reflexivity].
  intros [_ [H _]]. vm_compute in H. discriminate.
Qed.

(* position of every payload byte inside the concatenation *)
Lemma concat_positions (ls : list line) : forall i l j x,
  nth_error ls i = Some l -> nth_error (line_data l) j = Some x ->
  nth_error (concat (map line_data ls))
            (length (concat (map line_data (firstn i ls))) + j) = Some x.
Proof.
  induction ls as [|l0 t IH]; intros i l j x Hi Hj.
  - destruct i; discriminate.
  - destruct i as [|i'].
    + cbn in Hi. inversion Hi; subst. cbn [firstn map concat length Nat.add].
      rewrite nth_error_app1; [exact Hj|]. apply nth_error_Some. congruence.
    + cbn [nth_error] in Hi. cbn [firstn map concat]. rewrite app_length.
      rewrite nth_error_app2 by lia.
      replace (length (line_data l0) + length (concat (map line_data (firstn i' t))) + j - length (line_data l0))%nat
        with (length (concat (map line_data (firstn i' t))) + j)%nat by lia.
      exact (IH i' l j x Hi Hj).
Qed.

(* ---------------------------------------------------------------------------- *)
(* maximal extents are determined by the image                                   *)

Lemma in_extent_out s (d : bytes) a : (a < s \/ s + zlen d <= a)%Z -> in_extent (s, d) a = None.
Proof.
  intro H. unfold in_extent. cbn [fst snd].
  destruct ((0 <=? a - s)%Z && (a - s <? zlen d)%Z) eqn:E; [|reflexivity].
  apply andb_true_iff in E as [E1 E2]. apply Z.leb_le in E1. apply Z.ltb_lt in E2. lia.
Qed.

Lemma in_extent_in s (d : bytes) a : (s <= a < s + zlen d)%Z ->
  in_extent (s, d) a = nth_error d (Z.to_nat (a - s)) /\ in_extent (s, d) a <> None.
Proof.
  intro H. unfold in_extent. cbn [fst snd].
  replace (0 <=? a - s)%Z with true by (symmetry; apply Z.leb_le; lia).
  replace (a - s <? zlen d)%Z with true by (symmetry; apply Z.ltb_lt; lia).
  cbn [andb]. split; [reflexivity|]. apply nth_error_Some. unfold zlen, blen in H. lia.
Qed.

Lemma gapped_image_below lo es a : gapped lo es -> (a <= lo)%Z -> image_of_extents es a = None.
Proof.
  revert lo; induction es as [|[s d] t IH]; intros lo G Ha; [reflexivity|].
  destruct G as [G1 G2]. cbn [fst snd] in *. cbn [image_of_extents].
  rewrite in_extent_out by (left; lia).
  apply (IH _ G2). pose proof (zlen_nonneg d). lia.
Qed.

Lemma nth_error_ext' {A} : forall (l l' : list A),
  (forall n, nth_error l n = nth_error l' n) -> l = l'.
Proof.
  induction l as [|x t IH]; intros [|y t'] H.
  - reflexivity.
  - specialize (H O). discriminate.
  - specialize (H O). discriminate.
  - pose proof (H O) as H0. cbn in H0. inversion H0; subst. f_equal.
    apply IH. intro n. exact (H (S n)).
Qed.

Lemma zlen_pos (d : bytes) : d <> [] -> (0 < zlen d)%Z.
Proof. destruct d; [congruence|]. intros _. unfold zlen. rewrite blen_cons. lia. Qed.

Lemma gapped_unique : forall e1 e2 lo,
  gapped lo e1 -> gapped lo e2 ->
  Forall (fun e => snd e <> []) e1 -> Forall (fun e => snd e <> []) e2 ->
  (forall a, image_of_extents e1 a = image_of_extents e2 a) -> e1 = e2.
Proof.
  induction e1 as [|[s1 d1] t1 IH]; intros e2 lo G1 G2 N1 N2 Him.
  - destruct e2 as [|[s2 d2] t2]; [reflexivity|]. exfalso.
    inversion N2 as [|? ? Hd _]; subst. cbn [snd] in Hd. pose proof (zlen_pos d2 Hd).
    specialize (Him s2). cbn [image_of_extents] in Him.
    destruct (in_extent_in s2 d2 s2) as [_ Hs]; [lia|].
    destruct (in_extent (s2, d2) s2); first [discriminate|congruence].
  - destruct e2 as [|[s2 d2] t2].
    + exfalso. inversion N1 as [|? ? Hd _]; subst. cbn [snd] in Hd. pose proof (zlen_pos d1 Hd).
      specialize (Him s1). cbn [image_of_extents] in Him.
      destruct (in_extent_in s1 d1 s1) as [_ Hs]; [lia|].
      destruct (in_extent (s1, d1) s1); first [discriminate|congruence].
    + destruct G1 as [G1a G1b]. destruct G2 as [G2a G2b]. cbn [fst snd] in *.
      inversion N1 as [|? ? Hd1 N1']; subst. inversion N2 as [|? ? Hd2 N2']; subst. cbn [snd] in *.
      pose proof (zlen_pos d1 Hd1) as P1. pose proof (zlen_pos d2 Hd2) as P2.
      (* same start *)
      assert (Es : s1 = s2).
      { destruct (Z.lt_trichotomy s1 s2) as [L|[E|L]]; [exfalso|exact E|exfalso].
        - specialize (Him s1). cbn [image_of_extents] in Him.
          destruct (in_extent_in s1 d1 s1) as [_ Hs]; [lia|].
          rewrite (in_extent_out s2 d2 s1) in Him by (left; lia).
          rewrite (gapped_image_below _ _ s1 G2b) in Him by lia.
          destruct (in_extent (s1, d1) s1); first [discriminate|congruence].
        - specialize (Him s2). cbn [image_of_extents] in Him.
          destruct (in_extent_in s2 d2 s2) as [_ Hs]; [lia|].
          rewrite (in_extent_out s1 d1 s2) in Him by (left; lia).
          rewrite (gapped_image_below _ _ s2 G1b) in Him by lia.
          destruct (in_extent (s2, d2) s2); first [discriminate|congruence]. }
      subst s2.
      (* same length *)
      assert (El : zlen d1 = zlen d2).
      { destruct (Z.lt_trichotomy (zlen d1) (zlen d2)) as [L|[E|L]]; [exfalso|exact E|exfalso].
        - specialize (Him (s1 + zlen d1)%Z). cbn [image_of_extents] in Him.
          rewrite (in_extent_out s1 d1) in Him by (right; lia).
          rewrite (gapped_image_below _ _ _ G1b) in Him by lia.
          destruct (in_extent_in s1 d2 (s1 + zlen d1)%Z) as [_ Hs]; [lia|].
          destruct (in_extent (s1, d2) (s1 + zlen d1)%Z); first [discriminate|congruence].
        - specialize (Him (s1 + zlen d2)%Z). cbn [image_of_extents] in Him.
          rewrite (in_extent_out s1 d2) in Him by (right; lia).
          rewrite (gapped_image_below _ _ _ G2b) in Him by lia.
          destruct (in_extent_in s1 d1 (s1 + zlen d2)%Z) as [_ Hs]; [lia|].
          destruct (in_extent (s1, d1) (s1 + zlen d2)%Z); first [discriminate|congruence]. }
      (* same bytes *)
      assert (Ed : d1 = d2).
      { apply nth_error_ext'. intro n.
        destruct (Nat.lt_ge_cases n (length d1)) as [L|L].
        - specialize (Him (s1 + Z.of_nat n)%Z). cbn [image_of_extents] in Him.
          assert (R : (s1 <= s1 + Z.of_nat n < s1 + zlen d1)%Z) by (unfold zlen, blen; lia).
          destruct (in_extent_in s1 d1 _ R) as [H1 H1'].
          rewrite El in R. destruct (in_extent_in s1 d2 _ R) as [H2 H2'].
          replace (Z.to_nat (s1 + Z.of_nat n - s1)) with n in * by lia.
          destruct (in_extent (s1, d1) (s1 + Z.of_nat n)%Z) as [x|]; [|congruence].
          destruct (in_extent (s1, d2) (s1 + Z.of_nat n)%Z) as [y|]; [|congruence].
          rewrite <- H1, <- H2. exact Him.
        - assert (L2 : (length d2 <= n)%nat) by (unfold zlen, blen in El; lia).
          apply nth_error_None in L. apply nth_error_None in L2. rewrite L, L2. reflexivity. }
      subst d2. f_equal.
      apply (IH t2 (s1 + zlen d1)%Z G1b G2b N1' N2').
      intro a. specialize (Him a). cbn [image_of_extents] in Him.
      destruct (Z.le_gt_cases a (s1 + zlen d1)%Z) as [L|L].
      * rewrite (gapped_image_below _ _ a G1b L), (gapped_image_below _ _ a G2b L). reflexivity.
      * rewrite (in_extent_out s1 d1 a) in Him by (right; lia). exact Him.
Qed.

Lemma maximal_gapped es : maximal_extents es -> forall lo,
  (match es with [] => True | e :: _ => (lo < fst e)%Z end) -> gapped lo es.
Proof. destruct es as [|e t]; intros H lo Hlo; [exact I|]. split; assumption. Qed.

Theorem extents_unique e1 e2 :
  maximal_extents e1 -> maximal_extents e2 ->
  Forall (fun e => snd e <> []) e1 -> Forall (fun e => snd e <> []) e2 ->
  (forall a, image_of_extents e1 a = image_of_extents e2 a) -> e1 = e2.
Proof.
  intros M1 M2 N1 N2 Him.
  set (lo := (Z.min (match e1 with [] => 0 | e :: _ => fst e end)
                    (match e2 with [] => 0 | e :: _ => fst e end) - 1)%Z).
  apply (gapped_unique e1 e2 lo); try assumption.
  - apply maximal_gapped; [exact M1|]. destruct e1; [exact I|]. unfold lo. lia.
  - apply maximal_gapped; [exact M2|]. destruct e2; [exact I|]. unfold lo. lia.
Qed.
