(* C19 - primality certificates (Pocklington's N-1 criterion), checked inside Coq.

   A certificate of N is either CTrial (N < about 10^6: trial division) or
   CPock a [(q1, e1, c1); ...]: a witness a and prime powers q^e dividing N - 1, each q with its
   own certificate.  With F = prod q^e and Q = prod q the checker tests
       1 < N,  F | N - 1,  N < F * F,  the q^e pairwise coprime,
       y = a^((N-1)/Q) mod N,   y^Q = 1 (mod N)              (so a^(N-1) = 1)
       gcd (y^(Q/q) - 1, N) = 1  for every q                  (y^(Q/q) = a^((N-1)/q))
   (one exponentiation with a long exponent, the others with exponents below Q).

   Soundness (pock_check_sound) without the notion of the order of an element: let p be a prime
   divisor of N and g = gcd (N-1, p-1).  a^(N-1) = 1 and Fermat's a^(p-1) = 1 give a^g = 1 (mod p)
   (Bezout on the exponents).  If g divided (N-1)/q then a^((N-1)/q) = 1 (mod p), and p would
   divide gcd (a^((N-1)/q) - 1, N) = 1; hence q does not divide (N-1)/g, so q^e | g.  The q^e are
   coprime, so F | g | p - 1 and p > F, p * p > N.  A number all of whose prime divisors exceed
   its square root is prime. *)
From Coq Require Import List Bool ZArith Lia Znumtheory Zpow_facts Setoid Morphisms.
From Bec2 Require Import Base.Modp Model.NumTheory Proofs.EcFieldZp Proofs.NumTheoryProofs.
Import ListNotations.
Open Scope Z_scope.

(* ---- certificates and the checker ------------------------------------------------------------- *)

Inductive cert : Set :=
| CTrial
| CPock (a : Z) (fs : factors)
with factors : Set :=
| FNil
| FCons (q e : Z) (c : cert) (t : factors).

Fixpoint flist (fs : factors) : list (Z * Z) :=
  match fs with FNil => [] | FCons q e _ t => (q, e) :: flist t end.

(* trial division by 2, 3, 4, ... while d * d <= N; at most 1100 divisors *)
Fixpoint trial_loop (fuel : nat) (d N : Z) : bool :=
  match fuel with
  | O => false
  | S f => if N <? d * d then true else if N mod d =? 0 then false else trial_loop f (d + 1) N
  end.
Definition trial_prime (N : Z) : bool := (1 <? N) && trial_loop 1100 2 N.

Definition prod_q (l : list (Z * Z)) : Z := fold_right (fun qe acc => fst qe * acc) 1 l.
Definition prod_qe (l : list (Z * Z)) : Z := fold_right (fun qe acc => fst qe ^ snd qe * acc) 1 l.

(* every q^e is coprime to the product of the later ones; 1 < q, 0 < e *)
Fixpoint coprime_chain (l : list (Z * Z)) : bool :=
  match l with
  | [] => true
  | qe :: t => (1 <? fst qe) && (0 <? snd qe) && (Z.gcd (fst qe ^ snd qe) (prod_qe t) =? 1) && coprime_chain t
  end.

Definition pock_main (N a : Z) (l : list (Z * Z)) : bool :=
  let Q := prod_q l in
  let F := prod_qe l in
  let y := powmod a ((N - 1) / Q) N in
  (1 <? N) && coprime_chain l && ((N - 1) mod F =? 0) && (N <? F * F) && (powmod y Q N =? 1) &&
  forallb (fun qe => Z.gcd (powmod y (Q / fst qe) N - 1) N =? 1) l.

Fixpoint pock_check (N : Z) (c : cert) {struct c} : bool :=
  match c with
  | CTrial => trial_prime N
  | CPock a fs => pock_main N a (flist fs) && factors_check fs
  end
with factors_check (fs : factors) {struct fs} : bool :=
  match fs with
  | FNil => true
  | FCons q _ c t => pock_check q c && factors_check t
  end.

(* ---- trial division ---------------------------------------------------------------------------- *)

Lemma trial_loop_sound : forall fuel d N, 2 <= d -> 1 < N ->
  (forall k, 2 <= k < d -> ~ (k | N)) -> trial_loop fuel d N = true -> prime N.
Proof.
  induction fuel as [|f IH]; intros d N Hd HN Hinv H; [discriminate|].
  cbn [trial_loop] in H. destruct (N <? d * d) eqn:E.
  - apply Z.ltb_lt in E. apply prime_alt. split; [exact HN|].
    intros n Hn [m Hm].
    (* N = m * n, 1 < n < N *)
    assert (Hm1 : 1 < m) by nia.
    destruct (Z_lt_le_dec n d) as [Hlt|Hge].
    + apply (Hinv n); [lia | exists m; exact Hm].
    + assert (m < d) by nia. apply (Hinv m); [lia | exists n; lia].
  - destruct (N mod d =? 0) eqn:Em; [discriminate|]. apply Z.eqb_neq in Em.
    apply (IH (d + 1) N); [lia | exact HN | | exact H].
    intros k Hk. destruct (Z.eq_dec k d) as [->|Hne]; [|apply Hinv; lia].
    intro Hdiv. apply Em. apply Zdivide_mod, Hdiv.
Qed.

Lemma trial_prime_sound N : trial_prime N = true -> prime N.
Proof.
  unfold trial_prime. intro H. apply andb_true_iff in H as [H1 H2]. apply Z.ltb_lt in H1.
  apply (trial_loop_sound 1100 2 N); [lia | exact H1 | intros k Hk; lia | exact H2].
Qed.

(* ---- elementary number theory ------------------------------------------------------------------ *)

Lemma prime_divisor_exists : forall n, 1 < n -> exists p, prime p /\ (p | n).
Proof.
  intros n Hn. assert (H0 : 0 <= n) by lia. revert Hn. revert n H0.
  apply (Z_lt_induction (fun n => 1 < n -> exists p, prime p /\ (p | n))).
  intros n IH Hn.
  destruct (prime_dec n) as [Hp|Hnp]; [exists n; split; [exact Hp | apply Z.divide_refl]|].
  destruct (not_prime_divide n Hn Hnp) as [d [Hd Hdiv]].
  destruct (IH d ltac:(lia) ltac:(lia)) as [p [Hp Hpd]].
  exists p. split; [exact Hp | eapply Z.divide_trans; eassumption].
Qed.

(* a number whose prime divisors all exceed its square root is prime *)
Lemma prime_of_large_divisors N : 1 < N ->
  (forall p, prime p -> (p | N) -> N < p * p) -> prime N.
Proof.
  intros HN H. destruct (prime_dec N) as [Hp|Hnp]; [exact Hp|]. exfalso.
  destruct (not_prime_divide N HN Hnp) as [d [Hd [m Hm]]].
  (* N = m * d *)
  assert (Hm1 : 1 < m) by nia.
  assert (Hsmall : exists s, 1 < s /\ (s | N) /\ s * s <= N).
  { destruct (Z_le_gt_dec d m).
    - exists d. split; [lia|]. split; [exists m; exact Hm | nia].
    - exists m. split; [lia|]. split; [exists d; lia | nia]. }
  destruct Hsmall as [s [Hs1 [Hs2 Hs3]]].
  destruct (prime_divisor_exists s Hs1) as [p [Hp Hps]].
  pose proof (prime_ge_2 p Hp).
  assert (p <= s) by (apply Z.divide_pos_le; [lia | exact Hps]).
  pose proof (H p Hp (Z.divide_trans _ _ _ Hps Hs2)). nia.
Qed.

(* exponents with a^e = 1 are closed under gcd *)
Lemma pow_one_gcd p a m n : 0 < m -> 0 < n -> eqm p (a ^ m) 1 -> eqm p (a ^ n) 1 ->
  eqm p (a ^ Z.gcd m n) 1.
Proof.
  intros Hm Hn Em En.
  destruct (Z.gcd_bezout m n (Z.gcd m n) eq_refl) as [u [v Huv]].
  set (g := Z.gcd m n) in *.
  assert (Hg : 0 <= g) by apply Z.gcd_nonneg.
  set (k := Z.abs u + Z.abs v + 1).
  set (u' := u + k * n). set (v' := k * m - v).
  assert (Hu' : 0 <= u') by (unfold u', k; nia).
  assert (Hv' : 0 <= v') by (unfold v', k; nia).
  assert (E : u' * m = g + v' * n) by (unfold u', v'; lia).
  assert (E1 : eqm p (a ^ (u' * m)) 1).
  { rewrite Z.mul_comm, Z.pow_mul_r, Em, Z.pow_1_l by lia. reflexivity. }
  rewrite E, Z.pow_add_r in E1 by nia.
  rewrite (Z.mul_comm v' n), Z.pow_mul_r, En, Z.pow_1_l, Z.mul_1_r in E1 by lia.
  exact E1.
Qed.

Lemma pow_one_multiple p a g m : 0 <= g -> 0 <= m -> (g | m) -> eqm p (a ^ g) 1 -> eqm p (a ^ m) 1.
Proof.
  intros Hg Hm [c Hc] E. subst m.
  destruct (Z.eq_dec g 0) as [->|Hnz]; [rewrite Z.mul_0_r; reflexivity|].
  assert (0 <= c) by nia.
  rewrite Z.mul_comm, Z.pow_mul_r, E, Z.pow_1_l by lia. reflexivity.
Qed.

(* if g | q * M but not M, every power of the prime q that divides q * M divides g *)
Lemma prime_power_in_gcd q g M e : prime q -> 0 <= e -> (g | q * M) -> ~ (g | M) ->
  (q ^ e | q * M) -> (q ^ e | g).
Proof.
  intros Hq He [c Hc] Hn Hqe.
  assert (Hqc : ~ (q | c)).
  { intros [c' Hc']. apply Hn. exists c'. subst c.
    pose proof (prime_ge_2 q Hq). apply (Z.mul_cancel_l _ _ q); [lia|]. lia. }
  assert (Hrp : rel_prime (q ^ e) c).
  { apply rel_prime_sym, rel_prime_Zpower_r; [exact He|]. apply rel_prime_sym, prime_rel_prime; assumption. }
  rewrite Hc in Hqe. apply Gauss with (b := c); [exact Hqe | exact Hrp].
Qed.

Lemma coprime_product_divides x y g : (x | g) -> (y | g) -> rel_prime x y -> (x * y | g).
Proof.
  intros [u Hu] Hy Hrp. subst g.
  assert (Hyu : (y | u)).
  { apply Gauss with (b := x); [rewrite Z.mul_comm; exact Hy | apply rel_prime_sym, Hrp]. }
  destruct Hyu as [w Hw]. exists w. subst u. ring.
Qed.

Lemma mul_divide_both a b c d : (a | b) -> (c | d) -> (a * c | b * d).
Proof. intros [u ->] [v ->]. exists (u * v). ring. Qed.

(* ---- the list of prime powers -------------------------------------------------------------------- *)

Lemma prod_qe_cons qe t : prod_qe (qe :: t) = fst qe ^ snd qe * prod_qe t.
Proof. reflexivity. Qed.
Lemma prod_q_cons qe t : prod_q (qe :: t) = fst qe * prod_q t.
Proof. reflexivity. Qed.

Lemma coprime_chain_In l : coprime_chain l = true -> forall qe, In qe l -> 1 < fst qe /\ 0 < snd qe.
Proof.
  induction l as [|x t IH]; intros H qe Hin; [destruct Hin|].
  cbn [coprime_chain] in H. apply andb_true_iff in H as [H Ht]. apply andb_true_iff in H as [H _].
  apply andb_true_iff in H as [H1 H2]. apply Z.ltb_lt in H1, H2.
  destruct Hin as [<-|Hin]; [split; assumption | apply IH; assumption].
Qed.

Lemma prod_pos l : coprime_chain l = true -> 0 < prod_q l /\ 0 < prod_qe l.
Proof.
  induction l as [|x t IH]; intro H; [cbn; lia|].
  pose proof (coprime_chain_In _ H x (or_introl eq_refl)) as [Hq He].
  cbn [coprime_chain] in H. apply andb_true_iff in H as [_ Ht]. destruct (IH Ht) as [I1 I2].
  rewrite prod_q_cons, prod_qe_cons.
  assert (0 < fst x ^ snd x) by (apply Z.pow_pos_nonneg; lia). split; nia.
Qed.

(* each q divides Q, Q divides F, each q^e divides F *)
Lemma prod_q_divides_qe l : coprime_chain l = true -> (prod_q l | prod_qe l).
Proof.
  induction l as [|x t IH]; intro H; [apply Z.divide_refl|].
  pose proof (coprime_chain_In _ H x (or_introl eq_refl)) as [Hq He].
  cbn [coprime_chain] in H. apply andb_true_iff in H as [_ Ht].
  rewrite prod_q_cons, prod_qe_cons. apply mul_divide_both; [|apply IH, Ht].
  exists (fst x ^ (snd x - 1)). replace (snd x) with (Z.succ (snd x - 1)) at 1 by lia.
  rewrite Z.pow_succ_r by lia. ring.
Qed.

Lemma In_divides_prod_q l qe : In qe l -> (fst qe | prod_q l).
Proof.
  induction l as [|x t IH]; intro Hin; [destruct Hin|]. rewrite prod_q_cons.
  destruct Hin as [<-|Hin]; [apply Z.divide_factor_l | apply Z.divide_mul_r, IH, Hin].
Qed.

Lemma In_divides_prod_qe l qe : In qe l -> (fst qe ^ snd qe | prod_qe l).
Proof.
  induction l as [|x t IH]; intro Hin; [destruct Hin|]. rewrite prod_qe_cons.
  destruct Hin as [<-|Hin]; [apply Z.divide_factor_l | apply Z.divide_mul_r, IH, Hin].
Qed.

Lemma prod_qe_divides l g : coprime_chain l = true ->
  (forall qe, In qe l -> (fst qe ^ snd qe | g)) -> (prod_qe l | g).
Proof.
  induction l as [|x t IH]; intros H Hall; [apply Z.divide_1_l|].
  cbn [coprime_chain] in H. apply andb_true_iff in H as [H Ht]. apply andb_true_iff in H as [_ Hg].
  apply Z.eqb_eq in Hg. rewrite prod_qe_cons. apply coprime_product_divides.
  - apply Hall. left; reflexivity.
  - apply IH; [exact Ht | intros qe Hin; apply Hall; right; exact Hin].
  - apply Zgcd_1_rel_prime, Hg.
Qed.

(* ---- Pocklington ---------------------------------------------------------------------------------- *)

Theorem pock_main_sound N a l : (forall qe, In qe l -> prime (fst qe)) ->
  pock_main N a l = true -> prime N.
Proof.
  intros Hprimes H. unfold pock_main in H.
  apply andb_true_iff in H as [H Hgcd]. apply andb_true_iff in H as [H Hone].
  apply andb_true_iff in H as [H Hsq]. apply andb_true_iff in H as [H HF].
  apply andb_true_iff in H as [HN Hchain].
  apply Z.ltb_lt in HN, Hsq. apply Z.eqb_eq in HF, Hone.
  set (Q := prod_q l) in *. set (F := prod_qe l) in *.
  destruct (prod_pos l Hchain) as [HQ0 HF0]. fold Q in HQ0. fold F in HF0.
  set (M := N - 1) in *. assert (HM : 0 < M) by (unfold M; lia).
  assert (HFM : (F | M)) by (apply Zmod_divide; [lia | exact HF]).
  assert (HQM : (Q | M)) by (eapply Z.divide_trans; [apply prod_q_divides_qe, Hchain | exact HFM]).
  destruct HQM as [m0 Hm0].
  assert (Hm0pos : 0 < m0) by nia.
  assert (EMQ : M / Q = m0) by (rewrite Hm0; apply Z.div_mul; lia).
  rewrite EMQ in *. set (y := powmod a m0 N) in *.
  assert (Hy : eqm N y (a ^ m0)) by (apply powmod_eqm; lia).
  (* a^M = 1 (mod N) *)
  assert (HaM : eqm N (a ^ M) 1).
  { rewrite Hm0, Z.pow_mul_r, <- Hy by lia. rewrite <- (powmod_eqm y Q N) by lia. rewrite Hone. reflexivity. }
  apply prime_of_large_divisors; [exact HN|].
  intros p Hp HpN. pose proof (prime_ge_2 p Hp) as Hp2.
  (* congruences mod N hold mod p *)
  assert (down : forall u v, eqm N u v -> eqm p u v).
  { intros u v E. apply eqm_sub_0 in E. apply eqm_0_iff in E. apply Zmod_divide in E; [|lia].
    apply eqm_sub_0, eqm_0_iff, Zdivide_mod. eapply Z.divide_trans; eassumption. }
  assert (HaMp : eqm p (a ^ M) 1) by (apply down, HaM).
  assert (Hanz : ~ eqm p a 0).
  { intro E. rewrite E, Z.pow_0_l in HaMp by lia. symmetry in HaMp. revert HaMp. apply eqm_small_nz. lia. }
  pose proof (fermat_little p a Hp Hanz) as Hfer.
  set (g := Z.gcd M (p - 1)).
  assert (Hg1 : eqm p (a ^ g) 1) by (apply pow_one_gcd; [lia | lia | exact HaMp | exact Hfer]).
  assert (Hg0 : 0 <= g) by apply Z.gcd_nonneg.
  assert (HgM : (g | M)) by apply Z.gcd_divide_l.
  assert (Hgp : (g | p - 1)) by apply Z.gcd_divide_r.
  (* F | g *)
  assert (HFg : (F | g)).
  { apply prod_qe_divides; [exact Hchain|]. intros [q e] Hin. cbn [fst snd].
    pose proof (coprime_chain_In _ Hchain _ Hin) as [Hq1 He0]. cbn [fst snd] in Hq1, He0.
    pose proof (Hprimes _ Hin) as Hqp. cbn [fst] in Hqp.
    destruct (In_divides_prod_q l _ Hin) as [Q' HQ']. cbn [fst] in HQ'. fold Q in HQ'.
    assert (HQ'pos : 0 < Q') by nia.
    (* M = q * (Q' * m0) *)
    set (M' := Q' * m0).
    assert (EM : M = q * M') by (unfold M'; rewrite Hm0, HQ'; ring).
    assert (EQq : Q / q = Q') by (rewrite HQ'; apply Z.div_mul; lia).
    rewrite forallb_forall in Hgcd. pose proof (Hgcd _ Hin) as Hg. cbn [fst] in Hg.
    apply Z.eqb_eq in Hg. rewrite EQq in Hg.
    apply (prime_power_in_gcd q g M' e Hqp); [lia | rewrite <- EM; exact HgM | | rewrite <- EM].
    - intro HgM'.
      assert (E1 : eqm p (a ^ M') 1) by (apply (pow_one_multiple p a g M'); [exact Hg0 | unfold M'; nia | exact HgM' | exact Hg1]).
      assert (E2 : eqm p (powmod y Q' N) 1).
      { rewrite <- E1. apply down. rewrite powmod_eqm, Hy, <- Z.pow_mul_r by lia.
        replace (m0 * Q') with M' by (unfold M'; ring). reflexivity. }
      (* so p divides powmod y Q' N - 1 and N *)
      apply eqm_sub_0, eqm_0_iff in E2. apply Zmod_divide in E2; [|lia].
      assert (Hd : (p | Z.gcd (powmod y Q' N - 1) N)) by (apply Z.gcd_greatest; assumption).
      rewrite Hg in Hd. apply Z.divide_1_r_nonneg in Hd; lia.
    - eapply Z.divide_trans; [apply (In_divides_prod_qe l _ Hin) | exact HFM]. }
  (* p > F *)
  assert (HFp : (F | p - 1)) by (eapply Z.divide_trans; eassumption).
  assert (F <= p - 1) by (apply Z.divide_pos_le; [lia | exact HFp]).
  nia.
Qed.

Scheme cert_mut := Induction for cert Sort Prop
with factors_mut := Induction for factors Sort Prop.

Theorem pock_check_sound : forall c N, pock_check N c = true -> prime N.
Proof.
  apply (cert_mut (fun c => forall N, pock_check N c = true -> prime N)
                  (fun fs => factors_check fs = true -> forall qe, In qe (flist fs) -> prime (fst qe))).
  - intros N H. apply trial_prime_sound, H.
  - intros a fs IH N H. cbn [pock_check] in H. apply andb_true_iff in H as [H1 H2].
    apply (pock_main_sound N a (flist fs)); [apply IH, H2 | exact H1].
  - intros _ qe [].
  - intros q e c IHc t IHt H qe Hin. cbn [factors_check] in H. apply andb_true_iff in H as [H1 H2].
    cbn [flist] in Hin. destruct Hin as [<-|Hin]; [apply IHc, H1 | apply IHt; assumption].
Qed.

(* a table of certificates keyed by the number *)
Definition certs_ok (tbl : list (Z * cert)) : bool := forallb (fun nc => pock_check (fst nc) (snd nc)) tbl.

Lemma certs_ok_sound tbl : certs_ok tbl = true -> forall N c, In (N, c) tbl -> prime N.
Proof.
  intros H N c Hin. unfold certs_ok in H. rewrite forallb_forall in H.
  apply (pock_check_sound c N). exact (H _ Hin).
Qed.

Definition has_cert (tbl : list (Z * cert)) (N : Z) : bool := existsb (fun nc => fst nc =? N) tbl.

Lemma has_cert_sound tbl N : (forall N c, In (N, c) tbl -> prime N) -> has_cert tbl N = true -> prime N.
Proof.
  intros Htbl H. unfold has_cert in H. apply existsb_exists in H as [[N' c] [Hin E]].
  cbn [fst] in E. apply Z.eqb_eq in E. subst N'. eapply Htbl, Hin.
Qed.
