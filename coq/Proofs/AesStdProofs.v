(* The stream modes of the model against SP 800-38A (Model/AesSpec.v): an OFB or CTR mode
   object, called with the input cut into arbitrary pieces, and the Encrypter/Decrypter over it
   fed with arbitrary chunks, return the OFB / CTR encryption of the whole input. *)
From Coq Require Import List Bool Arith NArith ZArith Lia.
From Coq Require Import Init.Byte.
From Bec2 Require Import Base.Result Base.Bytes Gen.Consts Model.Cbc Model.AesSpec Model.AesModes
  Proofs.CbcProofs Proofs.AesModesProofs.
Import ListNotations.
Open Scope N_scope.

(* ---- pieces ------------------------------------------------------------------------------------ *)

Lemma pieces_fuel n : (0 < n)%nat -> forall f f' d, (length d <= f)%nat -> (length d <= f')%nat ->
  pieces f n d = pieces f' n d.
Proof.
  intro Hn. induction f as [|f IH]; intros f' d H1 H2.
  - destruct d; [|cbn in H1; lia]. destruct f'; reflexivity.
  - destruct d as [|x d']; [destruct f'; reflexivity|].
    destruct f' as [|f']; [cbn in H2; lia|].
    cbn [pieces]. f_equal. apply IH; rewrite skipn_length; cbn [length] in *; lia.
Qed.
Lemma blocks_cons d : d <> [] -> blocks d = firstn 16 d :: blocks (skipn 16 d).
Proof.
  intro H. unfold blocks. destruct d as [|x d']; [contradiction|].
  cbn [length pieces]. f_equal. apply pieces_fuel; [lia| |lia].
  rewrite skipn_length. cbn [length]. lia.
Qed.
Lemma blocks_nil : blocks [] = [].
Proof. reflexivity. Qed.

Section Stream.
  Variable E D : bytes -> bytes -> bytes.
  Hypothesis E_len : forall k b, length b = 16%nat -> length (E k b) = 16%nat.

  (* ---- OFB ------------------------------------------------------------------------------------ *)

  (* taking bytes from a key-stream block that has enough of them left *)
  Lemma ofb_take k : forall P reg rem, (length P <= length rem)%nat ->
    ofb_loop E k reg rem P [] = Ok (xor_bytes P rem, reg ++ firstn (length P) rem, skipn (length P) rem).
  Proof.
    induction P as [|p P IH]; intros reg rem H.
    - cbn. rewrite app_nil_r. reflexivity.
    - destruct rem as [|x rem']; [cbn in H; lia|].
      cbn [ofb_loop bind]. rewrite (ofb_acc E k P), IH by (cbn in H; lia).
      cbn [bind length firstn skipn xor_bytes app]. rewrite <- app_assoc. reflexivity.
  Qed.

  (* one piece of at most a block, starting at a block boundary *)
  Lemma ofb_block k P I : length I = 16%nat -> P <> [] -> (length P <= 16)%nat ->
    ofb_loop E k I [] P [] =
    Ok (xor_bytes P (E k I), firstn (length P) (E k I), skipn (length P) (E k I)).
  Proof.
    intros HI Hne Hl. destruct P as [|p P]; [contradiction|].
    cbn [ofb_loop]. unfold blkE. replace (blen I =? 16) with true by (symmetry; apply N.eqb_eq; unfold blen; lia).
    cbn [bind]. pose proof (E_len k I HI) as HO.
    destruct (E k I) as [|x O'] eqn:EO; [cbn in HO; lia|].
    rewrite (ofb_acc E k P), ofb_take by (cbn in *; lia).
    cbn [bind length firstn skipn xor_bytes app]. reflexivity.
  Qed.

  Lemma ofb_whole k : forall n data I, (length data <= n)%nat -> length I = 16%nat ->
    exists reg rem, ofb_loop E k I [] data [] = Ok (sp_ofb (E k) (blocks data) I, reg, rem).
  Proof.
    induction n as [|n IH]; intros data I Hn HI.
    - destruct data; [|cbn in Hn; lia]. exists I, []. reflexivity.
    - destruct data as [|x d'] eqn:Ed; [exists I, []; reflexivity|]. rewrite <- Ed in *.
      assert (Hne : data <> []) by (rewrite Ed; discriminate).
      rewrite (blocks_cons data Hne). cbn [sp_ofb].
      destruct (Nat.le_gt_cases (length data) 16) as [Hs|Hb].
      + (* the last, possibly partial block *)
        rewrite (firstn_all2 (n:=16) data Hs), (skipn_all2 (n:=16) data Hs), blocks_nil.
        cbn [sp_ofb]. rewrite app_nil_r.
        rewrite (ofb_block k data I HI Hne Hs). eauto.
      + replace (ofb_loop E k I [] data []) with (ofb_loop E k I [] (firstn 16 data ++ skipn 16 data) [])
          by (rewrite firstn_skipn; reflexivity).
        rewrite ofb_app.
        assert (Hf : length (firstn 16 data) = 16%nat) by (rewrite firstn_length; lia).
        rewrite (ofb_block k (firstn 16 data) I HI) by (try lia; intro Hc; rewrite Hc in Hf; discriminate).
        cbn [bind]. rewrite Hf.
        pose proof (E_len k I HI) as HO.
        rewrite (firstn_all2 (n:=16) (E k I)) by lia. rewrite (skipn_all2 (n:=16) (E k I)) by lia.
        destruct (IH (skipn 16 data) (E k I)) as (reg & rem & Hr).
        { rewrite skipn_length. rewrite Ed in *. cbn [length] in *. lia. }
        { exact HO. }
        rewrite Hr. cbn [bind]. eauto.
  Qed.

  Theorem ofb_mode_std d k iv data : length iv = 16%nat ->
    exists st', mode_crypt E D d OFB k (MS iv []) data = Ok (sp_ofb_crypt (E k) iv data, st').
  Proof.
    intro HI. destruct (ofb_whole k (length data) data iv (le_n _) HI) as (reg & rem & H).
    exists (MS reg rem).
    assert (H' : mode_encrypt E OFB k (MS iv []) data = Ok (sp_ofb_crypt (E k) iv data, MS reg rem)).
    { cbn [mode_encrypt m_reg m_rem]. rewrite H. reflexivity. }
    destruct d; exact H'.
  Qed.

  (* ---- CTR ------------------------------------------------------------------------------------ *)

  (* j key-stream blocks from the counter value t on *)
  Fixpoint ks (k : bytes) (j : nat) (t : N) : bytes :=
    match j with O => [] | S j' => E k (ctr_block t) ++ ks k j' (t + 1) end.

  Lemma ctr_block_length t : length (ctr_block t) = 16%nat.
  Proof. apply be_length. Qed.
  Lemma ks_length k : forall j t, length (ks k j t) = (16 * j)%nat.
  Proof.
    induction j as [|j IH]; intro t; [reflexivity|].
    cbn [ks]. rewrite app_length, IH, (E_len k _ (ctr_block_length t)). lia.
  Qed.

  Lemma fill_ks k : forall f t rem need c r,
    ctr_fill E f k (ctr_block t) rem need = Ok (c, r) ->
    exists j, r = rem ++ ks k j t /\ c = ctr_block (t + N.of_nat j).
  Proof.
    induction f as [|f IH]; intros t rem need c r H; [discriminate|].
    cbn [ctr_fill] in H. destruct (blen rem <? need).
    - unfold blkE in H.
      replace (blen (ctr_block t) =? 16) with true in H
        by (symmetry; apply N.eqb_eq; unfold blen; rewrite ctr_block_length; reflexivity).
      cbn [bind] in H. rewrite (proj2 (counter_block_spec t)) in H.
      destruct (IH _ _ _ _ _ H) as (j & Hr & Hc). exists (S j). split.
      + rewrite Hr, <- app_assoc. reflexivity.
      + rewrite Hc. f_equal. lia.
    - inversion H; subst. exists 0%nat. split; [rewrite app_nil_r; reflexivity|].
      f_equal. lia.
  Qed.

  Lemma xor_bytes_short : forall a p q, (length a <= length p)%nat -> xor_bytes a (p ++ q) = xor_bytes a p.
  Proof.
    induction a as [|x a IH]; intros [|y p] q H; cbn in *; try lia; try reflexivity.
    f_equal. apply IH. lia.
  Qed.

  Lemma sp_ctr_ks k : forall n data j t, (length data <= n)%nat -> (length data <= 16 * j)%nat ->
    sp_ctr (E k) (blocks data) t = xor_bytes data (ks k j t).
  Proof.
    induction n as [|n IH]; intros data j t Hn Hj.
    - destruct data; [|cbn in Hn; lia]. reflexivity.
    - destruct data as [|x d'] eqn:Ed; [reflexivity|]. rewrite <- Ed in *.
      assert (Hne : data <> []) by (rewrite Ed; discriminate).
      destruct j as [|j]; [rewrite Ed in Hj; cbn in Hj; lia|].
      rewrite (blocks_cons data Hne). cbn [sp_ctr ks].
      pose proof (E_len k _ (ctr_block_length t)) as HO.
      destruct (Nat.le_gt_cases (length data) 16) as [Hs|Hb].
      + rewrite (firstn_all2 (n:=16) data Hs), (skipn_all2 (n:=16) data Hs), blocks_nil.
        cbn [sp_ctr]. rewrite app_nil_r. symmetry. apply xor_bytes_short. lia.
      + rewrite (IH (skipn 16 data) j (t + 1)).
        2:{ rewrite skipn_length. rewrite Ed in *. cbn [length] in *. lia. }
        2:{ rewrite skipn_length. lia. }
        rewrite <- (xor_bytes_app (firstn 16 data) (E k (ctr_block t)) (skipn 16 data) (ks k j (t + 1)))
          by (rewrite firstn_length; lia).
        rewrite firstn_skipn. reflexivity.
  Qed.

  Theorem ctr_mode_std d k v data :
    exists st', mode_crypt E D d CTR k (MS (counter_init v) []) data = Ok (sp_ctr_crypt (E k) v data, st').
  Proof.
    rewrite (proj1 (counter_block_spec v)).
    assert (H' : exists st', mode_encrypt E CTR k (MS (ctr_block v) []) data = Ok (sp_ctr_crypt (E k) v data, st')).
    { cbn [mode_encrypt m_reg m_rem].
      destruct (ctr_fill_ok E E_len k (length data) (ctr_block v) [] (blen data) (ctr_block_length v)
                  ltac:(unfold blen; cbn [length]; lia)) as (c & r & Hf).
      rewrite Hf. cbn [bind].
      destruct (fill_ks k _ _ _ _ _ _ Hf) as (j & Hr & Hc). cbn [app] in Hr.
      pose proof (ctr_fill_ge E k _ _ _ _ _ _ Hf) as Hg.
      eexists. f_equal. f_equal.
      unfold sp_ctr_crypt. rewrite Hr. symmetry.
      apply (sp_ctr_ks k (length data)); [lia|].
      rewrite Hr in Hg. unfold blen in Hg. rewrite ks_length in Hg. lia. }
    destruct H' as [st' H']. exists st'. destruct d; exact H'.
  Qed.

  (* ---- Encrypter / Decrypter over OFB and CTR ---------------------------------------------------- *)

  Lemma stream_feed_oneshot m d pad k st data :
    (m = OFB \/ m = CTR) -> pad <> PadOther -> ctr_ready m st ->
    feed_all E D m d pad k (feeder_new st) [data] =
    let* (o, _) := mode_crypt E D d m k st data in Ok o.
  Proof.
    intros Hm Hpad HI.
    assert (Hu : is_unit m) by (destruct Hm as [-> | ->]; exact I).
    assert (Hu1 : unit_of m = 1) by (destruct Hm as [-> | ->]; reflexivity).
    assert (Hfin : forall st1 rest, final_crypt E D d m pad k st1 rest = mode_crypt E D d m k st1 rest).
    { intros st1 rest. destruct Hm as [-> | ->]; destruct d, pad; try contradiction; reflexivity. }
    unfold feeder_new. cbn [feed_all]. rewrite feed_some. cbn [app].
    rewrite (drainF_unit E D m d k st data Hu), Hu1.
    destruct (16 <? blen data) eqn:E16.
    - apply N.ltb_lt in E16. cbv zeta. rewrite N.mul_1_l, N.div_1_r.
      replace (blen data - 16 =? 0) with false by (symmetry; apply N.eqb_neq; lia).
      set (c := blen data - 16).
      replace (mode_crypt E D d m k st data) with (mode_crypt E D d m k st (takeN c data ++ dropN c data))
        by (rewrite takeN_dropN; reflexivity).
      rewrite (unit_hom E D E_len m d k st (takeN c data) (dropN c data) Hu HI)
        by (rewrite Hu1; apply N.mod_1_r).
      destruct (mode_crypt E D d m k st (takeN c data)) as [[o1 st1]|e]; [|reflexivity].
      cbn [bind feed f_buf f_st]. rewrite Hfin.
      destruct (mode_crypt E D d m k st1 (dropN c data)) as [[o2 st2]|e]; reflexivity.
    - cbn [bind feed f_buf f_st]. rewrite Hfin.
      destruct (mode_crypt E D d m k st data) as [[o st']|e]; reflexivity.
  Qed.

  (* the padded stream feeders over OFB / CTR give the standard result however the input is cut *)
  Theorem ofb_feeder_std d pad k iv chunks : pad <> PadOther -> key_ok k = true -> length (the_iv iv) = 16%nat ->
    stream_crypt E D OFB d pad k iv 0 chunks = Ok (sp_ofb_crypt (E k) (the_iv iv) (concat chunks)).
  Proof.
    intros Hpad Hk Hiv. rewrite (stream_crypt_split E D E_len). unfold stream_crypt, mode_init.
    replace (blen (the_iv iv) =? 16) with true by (symmetry; apply N.eqb_eq; unfold blen; lia).
    rewrite Hk. cbn [negb bind].
    rewrite (stream_feed_oneshot OFB d pad k _ _ (or_introl eq_refl) Hpad) by (intro H; discriminate H).
    destruct (ofb_mode_std d k (the_iv iv) (concat chunks) Hiv) as [st' H]. rewrite H. reflexivity.
  Qed.

  Theorem ctr_feeder_std d pad k iv v chunks : pad <> PadOther -> key_ok k = true ->
    stream_crypt E D CTR d pad k iv v chunks = Ok (sp_ctr_crypt (E k) v (concat chunks)).
  Proof.
    intros Hpad Hk. rewrite (stream_crypt_split E D E_len). unfold stream_crypt, mode_init.
    rewrite Hk. cbn [bind].
    rewrite (stream_feed_oneshot CTR d pad k _ _ (or_intror eq_refl) Hpad)
      by (intros _; cbn [m_reg]; apply be_length).
    destruct (ctr_mode_std d k v (concat chunks)) as [st' H]. rewrite H. reflexivity.
  Qed.
End Stream.

(* ---- ECB and CBC ----------------------------------------------------------------------------------- *)

Section Block.
  Variable E D : bytes -> bytes -> bytes.
  Hypothesis E_len : forall k b, length b = 16%nat -> length (E k b) = 16%nat.

  (* the mode object called on one 16-byte block after the other *)
  Fixpoint run_blocks (fuel : nat) (d : direction) (m : mode) (k : bytes) (st : mstate) (data : bytes)
    : result (bytes * mstate) :=
    match fuel with
    | O => Err EFuel
    | S f =>
      match data with
      | [] => Ok ([], st)
      | _ => let* (o, st1) := mode_crypt E D d m k st (firstn 16 data) in
             let* (o2, st2) := run_blocks f d m k st1 (skipn 16 data) in
             Ok (o ++ o2, st2)
      end
    end.

  Lemma run_fuel d m k : forall f f' st data, (length data < f)%nat -> (length data < f')%nat ->
    run_blocks f d m k st data = run_blocks f' d m k st data.
  Proof.
    induction f as [|f IH]; intros f' st data H1 H2; [lia|].
    destruct f' as [|f']; [lia|]. cbn [run_blocks].
    destruct data as [|x data']; [reflexivity|].
    destruct (mode_crypt E D d m k st (firstn 16 (x :: data'))) as [[o st1]|e]; [|reflexivity].
    cbn [bind]. rewrite (IH f' st1 (skipn 16 (x :: data'))); [reflexivity| |];
      rewrite skipn_length; cbn [length] in *; lia.
  Qed.

  Lemma run_nil f d m k st : run_blocks (S f) d m k st [] = Ok ([], st).
  Proof. reflexivity. Qed.

  Lemma run_app d m k : forall n a b st f f1 f2, length a = (16 * n)%nat ->
    (length (a ++ b) < f)%nat -> (length a < f1)%nat -> (length b < f2)%nat ->
    run_blocks f d m k st (a ++ b) =
    let* (o1, st1) := run_blocks f1 d m k st a in
    let* (o2, st2) := run_blocks f2 d m k st1 b in
    Ok (o1 ++ o2, st2).
  Proof.
    induction n as [|n IH]; intros a b st f f1 f2 Ha H H1 H2.
    - destruct a; [|cbn in Ha; lia]. destruct f1; [lia|]. cbn [app run_blocks bind].
      rewrite (run_fuel d m k f f2) by (cbn [app] in H; lia).
      destruct (run_blocks f2 d m k st b) as [[o2 st2]|e]; reflexivity.
    - destruct a as [|x a']; [cbn in Ha; lia|].
      destruct f as [|f]; [lia|]. destruct f1 as [|f1]; [lia|].
      cbn [run_blocks]. change ((x :: a') ++ b) with (x :: (a' ++ b)). cbv iota.
      change (x :: (a' ++ b)) with ((x :: a') ++ b).
      rewrite firstn_app, skipn_app.
      replace (16 - length (x :: a'))%nat with 0%nat by lia. rewrite firstn_O, skipn_O, app_nil_r.
      destruct (mode_crypt E D d m k st (firstn 16 (x :: a'))) as [[o st1]|e]; [|reflexivity].
      cbn [bind].
      rewrite (IH (skipn 16 (x :: a')) b st1 f f1 f2).
      2:{ rewrite skipn_length. lia. }
      2:{ rewrite app_length, skipn_length. rewrite app_length in H. lia. }
      2:{ rewrite skipn_length. lia. }
      2:{ exact H2. }
      destruct (run_blocks f1 d m k st1 (skipn 16 (x :: a'))) as [[o1 st2]|e]; [|reflexivity].
      cbn [bind].
      destruct (run_blocks f2 d m k st2 b) as [[o2 st3]|e]; [|reflexivity].
      cbn [bind]. rewrite app_assoc. reflexivity.
  Qed.

  Lemma run_one d m k st blk f : length blk = 16%nat ->
    run_blocks (S (S f)) d m k st blk = let* (o, st1) := mode_crypt E D d m k st blk in Ok (o, st1).
  Proof.
    intro H. cbn [run_blocks]. destruct blk as [|x b']; [discriminate H|].
    rewrite (firstn_all2 (n:=16)) by lia. rewrite (skipn_all2 (n:=16)) by lia.
    destruct (mode_crypt E D d m k st (x :: b')) as [[o st1]|e]; [|reflexivity].
    cbn [bind]. rewrite app_nil_r. reflexivity.
  Qed.

  Lemma firstn_plus {A} n m : forall l : list A, firstn (n + m) l = firstn n l ++ firstn m (skipn n l).
  Proof.
    induction n as [|n IH]; intro l; [reflexivity|].
    destruct l as [|x l]; [cbn; rewrite firstn_nil; reflexivity|].
    cbn [Nat.add firstn skipn app]. f_equal. apply IH.
  Qed.
  Lemma skipn_plus {A} n m : forall l : list A, skipn (n + m) l = skipn m (skipn n l).
  Proof.
    induction n as [|n IH]; intro l; [reflexivity|].
    destruct l as [|x l]; [cbn; rewrite skipn_nil; reflexivity|].
    cbn [Nat.add skipn]. apply IH.
  Qed.

  (* the number of bytes drain hands to the mode object: all whole blocks except the last one *)
  Definition consumed (L : nat) : nat := (16 * ((L - 16) / 16))%nat.

  Lemma consumed_small L : (L < 32)%nat -> consumed L = 0%nat.
  Proof. intro H. unfold consumed. rewrite Nat.div_small by lia. reflexivity. Qed.
  Lemma consumed_step L : (32 <= L)%nat -> consumed L = (16 + consumed (L - 16))%nat.
  Proof.
    intro H. unfold consumed.
    replace (L - 16)%nat with ((L - 16 - 16) + 1 * 16)%nat at 1 by lia.
    rewrite Nat.div_add by lia. lia.
  Qed.
  Lemma consumed_rest L : (32 <= L)%nat -> (consumed L <= L /\ 16 <= L - consumed L < 32)%nat.
  Proof.
    intro H. unfold consumed.
    pose proof (Nat.div_mod (L - 16) 16 ltac:(lia)) as Hd.
    pose proof (Nat.mod_upper_bound (L - 16) 16 ltac:(lia)) as Hm. lia.
  Qed.

  Lemma drain_run m d k : is_block m -> forall fuel st buf out, (length buf < fuel)%nat ->
    drain E D fuel m d k st buf out =
    let c := consumed (length buf) in
    let* (o, st') := run_blocks (S c) d m k st (firstn c buf) in Ok (out ++ o, st', skipn c buf).
  Proof.
    intro Hm. induction fuel as [|fuel IH]; intros st buf out Hf; [lia|]. cbv zeta.
    destruct (Nat.lt_ge_cases (length buf) 32) as [Hs|Hb].
    - rewrite (consumed_small _ Hs). cbn [firstn skipn run_blocks bind drain]. rewrite app_nil_r.
      destruct (16 <? blen buf) eqn:E16; [|reflexivity].
      rewrite (block_can m _ Hm).
      replace (16 <=? blen buf - 16) with false by (symmetry; apply N.leb_gt; unfold blen; lia).
      reflexivity.
    - cbn [drain].
      replace (16 <? blen buf) with true by (symmetry; apply N.ltb_lt; unfold blen; lia).
      rewrite (block_can m _ Hm).
      replace (16 <=? blen buf - 16) with true by (symmetry; apply N.leb_le; unfold blen; lia).
      change (16 =? 0) with false. cbv iota.
      rewrite takeN_firstn, dropN_skipn. change (N.to_nat 16) with 16%nat.
      assert (Hd : length (skipn 16 buf) = (length buf - 16)%nat) by apply skipn_length.
      assert (Ht : length (firstn 16 buf) = 16%nat) by (rewrite firstn_length; lia).
      rewrite (consumed_step _ Hb). set (c' := consumed (length buf - 16)).
      assert (Hc' : (c' <= length buf - 16)%nat).
      { unfold c', consumed. pose proof (Nat.div_mod (length buf - 16 - 16) 16 ltac:(lia)). lia. }
      rewrite firstn_plus, skipn_plus.
      rewrite (run_app d m k 1 (firstn 16 buf) (firstn c' (skipn 16 buf)) st (S (16 + c')) (S (S 16)) (S c')).
      2:{ lia. }
      2:{ rewrite app_length, Ht, firstn_length. lia. }
      2:{ lia. }
      2:{ rewrite firstn_length. lia. }
      rewrite (run_one d m k st (firstn 16 buf) 16 Ht).
      destruct (mode_crypt E D d m k st (firstn 16 buf)) as [[o st1]|e]; [|reflexivity].
      cbn [bind].
      rewrite (IH st1 (skipn 16 buf) (out ++ o)) by lia. cbv zeta. rewrite Hd. fold c'.
      destruct (run_blocks (S c') d m k st1 (firstn c' (skipn 16 buf))) as [[o2 st2]|e]; [|reflexivity].
      cbn [bind]. rewrite app_assoc. reflexivity.
  Qed.

  (* ---- the blocks in terms of SP 800-38A ------------------------------------------------------- *)

  Definition std_crypt (d : direction) (m : mode) (k reg data : bytes) : bytes :=
    match d, m with
    | Enc, ECB => sp_ecb_encrypt (E k) data
    | Dec, ECB => sp_ecb_decrypt (D k) data
    | Enc, _ => sp_cbc_encrypt (E k) reg data
    | Dec, _ => sp_cbc_decrypt (D k) reg data
    end.

  Definition reg_ok (m : mode) (st : mstate) : Prop := m = CBC -> length (m_reg st) = 16%nat.

  Lemma blen_16' (b : bytes) : length b = 16%nat -> (blen b =? 16) = true.
  Proof. intro H. apply N.eqb_eq. unfold blen. lia. Qed.

  (* one block through the mode object *)
  Lemma block_step d m k st blk : is_block m -> reg_ok m st -> length blk = 16%nat ->
    exists o st', mode_crypt E D d m k st blk = Ok (o, st') /\ reg_ok m st' /\
      forall rest n, length rest = (16 * n)%nat ->
        std_crypt d m k (m_reg st) (blk ++ rest) = o ++ std_crypt d m k (m_reg st') rest.
  Proof.
    intros Hm Hreg Hb.
    assert (Hbl : forall rest, blocks (blk ++ rest) = blk :: blocks rest).
    { intro rest. rewrite blocks_cons by (destruct blk; [discriminate Hb|discriminate]).
      rewrite firstn_app, skipn_app, Hb. replace (16 - 16)%nat with 0%nat by lia.
      rewrite firstn_O, skipn_O, app_nil_r. rewrite (firstn_all2 (n:=16) blk) by lia.
      rewrite (skipn_all2 (n:=16) blk) by lia. reflexivity. }
    destruct Hm as [-> | ->]; destruct d; cbn [mode_crypt mode_encrypt mode_decrypt];
      rewrite (blen_16' blk Hb); cbn [negb]; unfold blkE, blkD.
    - rewrite (blen_16' blk Hb). cbn [bind]. eexists _, _. split; [reflexivity|].
      split; [intro H; discriminate H|]. intros rest n Hn. cbn [std_crypt]. unfold sp_ecb_encrypt.
      rewrite Hbl. reflexivity.
    - rewrite (blen_16' blk Hb). cbn [bind]. eexists _, _. split; [reflexivity|].
      split; [intro H; discriminate H|]. intros rest n Hn. cbn [std_crypt]. unfold sp_ecb_decrypt.
      rewrite Hbl. reflexivity.
    - assert (Hx : length (xor_bytes blk (m_reg st)) = 16%nat)
        by (rewrite xor_bytes_length; [exact Hb | rewrite Hb; symmetry; apply Hreg; reflexivity]).
      rewrite (blen_16' _ Hx). cbn [bind]. eexists _, _. split; [reflexivity|].
      split; [intros _; cbn [m_reg]; apply E_len, Hx|].
      intros rest n Hn. cbn [std_crypt m_reg]. unfold sp_cbc_encrypt. rewrite Hbl. reflexivity.
    - rewrite (blen_16' blk Hb). cbn [bind]. eexists _, _. split; [reflexivity|].
      split; [intros _; cbn [m_reg]; exact Hb|].
      intros rest n Hn. cbn [std_crypt m_reg]. unfold sp_cbc_decrypt. rewrite Hbl. reflexivity.
  Qed.

  Lemma std_nil d m k reg : std_crypt d m k reg [] = [].
  Proof. destruct d, m; reflexivity. Qed.

  Lemma run_std d m k : is_block m -> forall n data st f, length data = (16 * n)%nat ->
    (length data < f)%nat -> reg_ok m st ->
    exists st', run_blocks f d m k st data = Ok (std_crypt d m k (m_reg st) data, st') /\ reg_ok m st'.
  Proof.
    intro Hm. induction n as [|n IH]; intros data st f Hl Hf Hreg.
    - destruct data; [|cbn in Hl; lia]. destruct f; [lia|]. exists st. rewrite std_nil. split; [reflexivity|exact Hreg].
    - destruct f as [|f]; [lia|].
      destruct data as [|x data']; [cbn in Hl; lia|].
      cbn [run_blocks]. set (data := x :: data') in *.
      assert (Hb : length (firstn 16 data) = 16%nat) by (rewrite firstn_length; lia).
      destruct (block_step d m k st (firstn 16 data) Hm Hreg Hb) as (o & st1 & Hc & Hreg1 & Hstd).
      rewrite Hc. cbn [bind].
      destruct (IH (skipn 16 data) st1 f) as (st2 & Hr & Hreg2);
        [rewrite skipn_length; lia | rewrite skipn_length; lia | exact Hreg1 |].
      rewrite Hr. cbn [bind]. exists st2. split; [|exact Hreg2].
      rewrite <- (Hstd (skipn 16 data) n) by (rewrite skipn_length; lia).
      rewrite firstn_skipn. reflexivity.
  Qed.

  (* ---- the feeder over ECB / CBC, one chunk -------------------------------------------------------- *)

  Lemma block_oneshot m d pad k st (data : list byte) : is_block m ->
    feed_all E D m d pad k (feeder_new st) (@cons (list byte) data (@nil (list byte))) =
    let c := consumed (length data) in
    let* (o, st') := run_blocks (S c) d m k st (firstn c data) in
    let* (r, _) := final_crypt E D d m pad k st' (skipn c data) in
    Ok (o ++ r).
  Proof.
    intro Hm. unfold feeder_new. cbn [feed_all]. rewrite feed_some. cbn [app]. unfold drainF.
    rewrite (drain_run m d k Hm) by lia. cbv zeta.
    destruct (run_blocks (S (consumed (length data))) d m k st (firstn (consumed (length data)) data))
      as [[o st']|e]; [|reflexivity].
    cbn [bind app feed f_buf f_st].
    destruct (final_crypt E D d m pad k st' (skipn (consumed (length data)) data)) as [[r st2]|e]; reflexivity.
  Qed.

  Lemma consumed_split (data : bytes) : let c := consumed (length data) in
    (exists n, length (firstn c data) = (16 * n)%nat) /\ (c <= length data)%nat /\
    ((length data < 32)%nat -> c = 0%nat) /\
    ((32 <= length data)%nat -> (16 <= length (skipn c data) < 32)%nat) /\
    (length (skipn c data) mod 16 = length data mod 16)%nat.
  Proof.
    cbv zeta. set (L := length data).
    destruct (Nat.lt_ge_cases L 32) as [Hs|Hb].
    - rewrite (consumed_small L Hs). cbn [firstn skipn]. fold L.
      split; [exists 0%nat; reflexivity|]. split; [lia|]. split; [reflexivity|]. split; [lia|reflexivity].
    - destruct (consumed_rest L Hb) as [Hc Hr].
      assert (Hf : length (firstn (consumed L) data) = consumed L) by (rewrite firstn_length; fold L; lia).
      split; [exists ((L - 16) / 16)%nat; rewrite Hf; reflexivity|]. split; [exact Hc|].
      split; [lia|]. rewrite skipn_length. fold L. split; [intros _; exact Hr|].
      symmetry.
      replace (L mod 16)%nat with (((L - consumed L) + ((L - 16) / 16) * 16) mod 16)%nat
        by (f_equal; unfold consumed in *; lia).
      apply Nat.mod_add. lia.
  Qed.

  (* PKCS7 padding only looks at the length modulo 16 *)
  Lemma pkcs7_app a r n : length a = (16 * n)%nat ->
    append_PKCS7_padding (a ++ r) = a ++ append_PKCS7_padding r.
  Proof.
    intro Ha. unfold append_PKCS7_padding. rewrite blen_app.
    replace ((blen a + blen r) mod 16) with (blen r mod 16).
    - rewrite <- app_assoc. reflexivity.
    - unfold blen at 2. rewrite Ha, Nat2N.inj_mul. change (N.of_nat 16) with 16.
      rewrite N.add_comm, N.mul_comm, N.mod_add by lia. reflexivity.
  Qed.
  Lemma pkcs7_length r : length (append_PKCS7_padding r) = (16 * S (length r / 16))%nat.
  Proof.
    unfold append_PKCS7_padding. rewrite app_length, repeat_length.
    pose proof (N.mod_lt (blen r) 16 ltac:(lia)) as Hm.
    pose proof (Nat.div_mod (length r) 16 ltac:(lia)) as Hd.
    assert (Hmod : N.to_nat (blen r mod 16) = (length r mod 16)%nat).
    { unfold blen. rewrite <- (Nat2N.id (length r mod 16)), Nat2N.inj_mod. reflexivity. }
    lia.
  Qed.

  Lemma final_enc_default m k st r : is_block m -> (length r < 32)%nat ->
    final_encrypt E m PadDefault k st r =
    run_blocks (S (length (append_PKCS7_padding r))) Enc m k st (append_PKCS7_padding r).
  Proof.
    intros Hm Hr. pose proof (pkcs7_length r) as Hp.
    remember (append_PKCS7_padding r) as p eqn:Edef.
    assert (Hfe : final_encrypt E m PadDefault k st r =
                  if blen p =? 32 then
                    let* (c1, st1) := mode_encrypt E m k st (takeN 16 p) in
                    let* (c2, st2) := mode_encrypt E m k st1 (dropN 16 p) in Ok (c1 ++ c2, st2)
                  else mode_encrypt E m k st p) by (rewrite Edef; destruct Hm as [-> | ->]; reflexivity).
    rewrite Hfe.
    destruct (Nat.lt_ge_cases (length r) 16) as [Hs|Hb].
    - rewrite Nat.div_small in Hp by exact Hs. change (16 * 1)%nat with 16%nat in Hp.
      replace (blen p =? 32) with false by (symmetry; apply N.eqb_neq; unfold blen; lia).
      rewrite Hp. rewrite (run_one Enc m k st p 15) by lia. cbn [mode_crypt].
      destruct (mode_encrypt E m k st p) as [[o st1]|e]; reflexivity.
    - replace (length r / 16)%nat with 1%nat in Hp
        by (apply (Nat.div_unique _ _ _ (length r - 16)); lia).
      change (16 * 2)%nat with 32%nat in Hp.
      replace (blen p =? 32) with true by (symmetry; apply N.eqb_eq; unfold blen; lia).
      rewrite Hp.
      clear Edef Hfe. destruct p as [|x p']; [cbn in Hp; lia|].
      rewrite takeN_firstn, dropN_skipn. change (N.to_nat 16) with 16%nat.
      change (run_blocks (S 32) Enc m k st (x :: p')) with
        (let* (o, st1) := mode_crypt E D Enc m k st (firstn 16 (x :: p')) in
         let* (o2, st2) := run_blocks 32 Enc m k st1 (skipn 16 (x :: p')) in Ok (o ++ o2, st2)).
      cbn [mode_crypt].
      destruct (mode_encrypt E m k st (firstn 16 (x :: p'))) as [[o st1]|e]; [|reflexivity].
      cbn [bind].
      rewrite (run_one Enc m k st1 (skipn 16 (x :: p')) 30) by (rewrite skipn_length; lia).
      cbn [mode_crypt].
      destruct (mode_encrypt E m k st1 (skipn 16 (x :: p'))) as [[o2 st2]|e]; reflexivity.
  Qed.

  (* blocks handed over by drain, then the blocks of the final call = all blocks in one run *)
  Lemma run_join d m k st a x n : length a = (16 * n)%nat ->
    (let* (o, st') := run_blocks (S (length a)) d m k st a in
     let* (r, _) := run_blocks (S (length x)) d m k st' x in Ok (o ++ r)) =
    (let* (o, _) := run_blocks (S (length (a ++ x))) d m k st (a ++ x) in Ok o).
  Proof.
    intro Ha.
    rewrite (run_app d m k n a x st (S (length (a ++ x))) (S (length a)) (S (length x)) Ha) by lia.
    destruct (run_blocks (S (length a)) d m k st a) as [[o st']|e]; [|reflexivity]. cbn [bind].
    destruct (run_blocks (S (length x)) d m k st' x) as [[r st2]|e]; reflexivity.
  Qed.

  Lemma init_block m k iv ctr : is_block m -> key_ok k = true -> length (the_iv iv) = 16%nat ->
    exists st, mode_init m k iv ctr = Ok st /\ reg_ok m st /\ (m = CBC -> m_reg st = the_iv iv).
  Proof.
    intros Hm Hk Hiv. destruct Hm as [-> | ->]; cbn [mode_init]; rewrite Hk.
    - eexists. split; [reflexivity|]. split; intro H; discriminate H.
    - replace (blen (the_iv iv) =? 16) with true by (symmetry; apply N.eqb_eq; unfold blen; lia).
      cbn [negb]. eexists. split; [reflexivity|]. split; intros _; [exact Hiv|reflexivity].
  Qed.

  Lemma std_reg d m k st iv data : is_block m -> (m = CBC -> m_reg st = the_iv iv) ->
    std_crypt d m k (m_reg st) data = std_crypt d m k (the_iv iv) data.
  Proof. intros [-> | ->] H; [destruct d; reflexivity|]. rewrite (H eq_refl). reflexivity. Qed.

  (* Encrypter(ECB/CBC, padding default): the ECB/CBC encryption of the PKCS7-padded input *)
  Theorem block_enc_default_std m k iv ctr chunks :
    is_block m -> key_ok k = true -> length (the_iv iv) = 16%nat ->
    stream_crypt E D m Enc PadDefault k iv ctr chunks =
    Ok (std_crypt Enc m k (the_iv iv) (append_PKCS7_padding (concat chunks))).
  Proof.
    intros Hm Hk Hiv. rewrite (stream_crypt_split E D E_len). unfold stream_crypt.
    destruct (init_block m k iv ctr Hm Hk Hiv) as (st & -> & Hreg & Hst). cbn [bind].
    set (data := concat chunks).
    rewrite (block_oneshot m Enc PadDefault k st data Hm). cbv zeta. set (c := consumed (length data)).
    destruct (consumed_split data) as ([n Hn] & Hc & Hsmall & Hbig & Hmod). fold c in Hn, Hc, Hsmall, Hbig, Hmod.
    assert (Hca : length (firstn c data) = c) by (rewrite firstn_length; lia).
    assert (Hr32 : (length (skipn c data) < 32)%nat).
    { destruct (Nat.lt_ge_cases (length data) 32) as [Hs|Hb]; [|apply Hbig, Hb].
      rewrite (Hsmall Hs). cbn [skipn]. exact Hs. }
    cbn [final_crypt].
    transitivity (let* (o, st') := run_blocks (S (length (firstn c data))) Enc m k st (firstn c data) in
                  let* (r, _) := run_blocks (S (length (append_PKCS7_padding (skipn c data)))) Enc m k st'
                                            (append_PKCS7_padding (skipn c data)) in Ok (o ++ r)).
    { rewrite Hca. destruct (run_blocks (S c) Enc m k st (firstn c data)) as [[o st']|e]; [|reflexivity].
      cbn [bind]. rewrite (final_enc_default m k st' _ Hm Hr32). reflexivity. }
    rewrite (run_join Enc m k st _ _ n Hn).
    rewrite <- (pkcs7_app _ _ n Hn), firstn_skipn.
    destruct (run_std Enc m k Hm (S (length data / 16)) (append_PKCS7_padding data) st
                (S (length (append_PKCS7_padding data))) (pkcs7_length data) ltac:(lia) Hreg) as (st' & Hrun & _).
    rewrite Hrun. cbn [bind]. rewrite (std_reg Enc m k st iv _ Hm Hst). reflexivity.
  Qed.

  Lemma final_none d m k st r : is_block m ->
    final_crypt E D d m PadNone k st r =
    if negb (blen r =? 16) then Err EBare else mode_crypt E D d m k st r.
  Proof.
    intros [-> | ->]; destruct d; cbn [final_crypt final_encrypt final_decrypt mode_crypt];
      destruct (blen r =? 16) eqn:Er; cbn [negb bind]; try reflexivity;
      apply N.eqb_eq in Er; rewrite Er; reflexivity.
  Qed.

  Lemma rest_is_block (data : bytes) : data <> [] -> (length data mod 16 = 0)%nat ->
    length (skipn (consumed (length data)) data) = 16%nat.
  Proof.
    intros Hne Hm. destruct (consumed_split data) as (_ & Hc & Hsmall & Hbig & Hmod).
    destruct (Nat.lt_ge_cases (length data) 32) as [Hs|Hb].
    - rewrite (Hsmall Hs). cbn [skipn].
      pose proof (Nat.div_mod (length data) 16 ltac:(lia)) as Hd. rewrite Hm in Hd.
      assert (length data <> 0)%nat by (destruct data; [contradiction|cbn; lia]). lia.
    - specialize (Hbig Hb). rewrite Hm in Hmod.
      pose proof (Nat.div_mod (length (skipn (consumed (length data)) data)) 16 ltac:(lia)) as Hd.
      rewrite Hmod in Hd. lia.
  Qed.

  (* padding none: whole blocks only; then plain ECB / CBC in the given direction *)
  Theorem block_none_std d m k iv ctr chunks :
    is_block m -> key_ok k = true -> length (the_iv iv) = 16%nat ->
    stream_crypt E D m d PadNone k iv ctr chunks =
    if (negb (length (concat chunks) =? 0)%nat && (length (concat chunks) mod 16 =? 0)%nat)%bool
    then Ok (std_crypt d m k (the_iv iv) (concat chunks)) else Err EBare.
  Proof.
    intros Hm Hk Hiv. rewrite (stream_crypt_split E D E_len). unfold stream_crypt.
    destruct (init_block m k iv ctr Hm Hk Hiv) as (st & -> & Hreg & Hst). cbn [bind].
    set (data := concat chunks).
    rewrite (block_oneshot m d PadNone k st data Hm). cbv zeta. set (c := consumed (length data)).
    destruct (consumed_split data) as ([n Hn] & Hc & Hsmall & Hbig & Hmod). fold c in Hn, Hc, Hsmall, Hbig, Hmod.
    assert (Hca : length (firstn c data) = c) by (rewrite firstn_length; lia).
    destruct (run_std d m k Hm n (firstn c data) st (S c) Hn ltac:(lia) Hreg) as (st1 & Hrun1 & Hreg1).
    destruct ((length data =? 0)%nat) eqn:E0; cbn [negb andb].
    - (* empty input *)
      apply Nat.eqb_eq in E0. assert (Hd : data = []) by (destruct data; [reflexivity|discriminate E0]).
      unfold c. rewrite Hd. change (consumed (length (@nil byte))) with 0%nat.
      cbn [firstn skipn run_blocks bind]. rewrite (final_none d m k st [] Hm). reflexivity.
    - apply Nat.eqb_neq in E0. assert (Hne : data <> []) by (intro Hd; rewrite Hd in E0; apply E0; reflexivity).
      rewrite Hrun1. cbn [bind]. rewrite (final_none d m k st1 _ Hm).
      destruct ((length data mod 16 =? 0)%nat) eqn:Em.
      + apply Nat.eqb_eq in Em. pose proof (rest_is_block data Hne Em) as Hr16. fold c in Hr16.
        rewrite (blen_16' _ Hr16). cbn [negb].
        pose proof (run_join d m k st (firstn c data) (skipn c data) n Hn) as Hj.
        rewrite Hca, Hrun1 in Hj. cbn [bind] in Hj.
        rewrite Hr16, (run_one d m k st1 (skipn c data) 15 Hr16) in Hj.
        rewrite firstn_skipn in Hj.
        destruct (run_std d m k Hm (length data / 16) data st (S (length data))) as (st' & Hrun & _);
          [pose proof (Nat.div_mod (length data) 16 ltac:(lia)); lia | lia | exact Hreg |].
        rewrite Hrun in Hj. cbn [bind] in Hj.
        destruct (mode_crypt E D d m k st1 (skipn c data)) as [[o2 st2]|e]; cbn [bind] in Hj |- *; [|discriminate Hj].
        inversion Hj as [Ho]. rewrite <- (std_reg d m k st iv _ Hm Hst), <- Ho. reflexivity.
      + apply Nat.eqb_neq in Em.
        replace (blen (skipn c data) =? 16) with false; [reflexivity|].
        symmetry. apply N.eqb_neq. intro Hx.
        assert (Hx' : length (skipn c data) = 16%nat) by (unfold blen in Hx; lia).
        rewrite Hx' in Hmod. apply Em. rewrite <- Hmod. reflexivity.
  Qed.

  (* Decrypter(ECB/CBC, padding default): ECB / CBC decryption, then the PKCS7 strip of pyaes on
     the last block (pad byte 1..16: that many bytes removed; 0: the whole block; > 16: ValueError) *)
  Section DecDefault.
    Hypothesis D_len : forall k b, length b = 16%nat -> length (D k b) = 16%nat.

    Lemma dec_block_len m k st blk o st' : is_block m -> reg_ok m st -> length blk = 16%nat ->
      mode_decrypt E D m k st blk = Ok (o, st') -> length o = 16%nat.
    Proof.
      intros Hm Hreg Hb H. destruct Hm as [-> | ->]; cbn [mode_decrypt] in H;
        rewrite (blen_16' blk Hb) in H; cbn [negb] in H; unfold blkD in H;
        rewrite (blen_16' blk Hb) in H; cbn [bind] in H; inversion H; subst.
      - apply D_len, Hb.
      - rewrite xor_bytes_length; [apply D_len, Hb|]. rewrite (D_len k blk Hb). symmetry. apply Hreg. reflexivity.
    Qed.

    Theorem block_dec_default_std m k iv ctr chunks :
      is_block m -> key_ok k = true -> length (the_iv iv) = 16%nat ->
      stream_crypt E D m Dec PadDefault k iv ctr chunks =
      if (negb (length (concat chunks) =? 0)%nat && (length (concat chunks) mod 16 =? 0)%nat)%bool
      then let P := std_crypt Dec m k (the_iv iv) (concat chunks) in
           let* x := strip_PKCS7_padding (lastN 16 P) in Ok (takeN (blen P - 16) P ++ x)
      else Err EValue.
    Proof.
      intros Hm Hk Hiv. rewrite (stream_crypt_split E D E_len). unfold stream_crypt.
      destruct (init_block m k iv ctr Hm Hk Hiv) as (st & -> & Hreg & Hst). cbn [bind].
      set (data := concat chunks).
      rewrite (block_oneshot m Dec PadDefault k st data Hm). cbv zeta. set (c := consumed (length data)).
      destruct (consumed_split data) as ([n Hn] & Hc & Hsmall & Hbig & Hmod). fold c in Hn, Hc, Hsmall, Hbig, Hmod.
      assert (Hca : length (firstn c data) = c) by (rewrite firstn_length; lia).
      destruct (run_std Dec m k Hm n (firstn c data) st (S c) Hn ltac:(lia) Hreg) as (st1 & Hrun1 & Hreg1).
      assert (Hfin : forall r, final_crypt E D Dec m PadDefault k st1 r =
                     let* (p, st') := mode_decrypt E D m k st1 r in
                     let* x := strip_PKCS7_padding p in Ok (x, st'))
        by (intro r; destruct Hm as [-> | ->]; reflexivity).
      assert (Hbadlen : forall r, length r <> 16%nat -> mode_decrypt E D m k st1 r = Err EValue).
      { intros r Hr. assert (Hx : (blen r =? 16) = false) by (apply N.eqb_neq; unfold blen; lia).
        destruct Hm as [-> | ->]; cbn [mode_decrypt]; rewrite Hx; reflexivity. }
      destruct ((length data =? 0)%nat) eqn:E0; cbn [negb andb].
      - apply Nat.eqb_eq in E0. assert (Hd : data = []) by (destruct data; [reflexivity|discriminate E0]).
        unfold c in *. rewrite Hd in *. change (consumed (length (@nil byte))) with 0%nat in *.
        cbn [firstn skipn run_blocks bind] in *. inversion Hrun1; subst st1.
        rewrite Hfin, Hbadlen by (cbn; lia). reflexivity.
      - apply Nat.eqb_neq in E0. assert (Hne : data <> []) by (intro Hd; rewrite Hd in E0; apply E0; reflexivity).
        rewrite Hrun1. cbn [bind]. rewrite Hfin.
        destruct ((length data mod 16 =? 0)%nat) eqn:Em.
        + apply Nat.eqb_eq in Em. pose proof (rest_is_block data Hne Em) as Hr16. fold c in Hr16.
          pose proof (run_join Dec m k st (firstn c data) (skipn c data) n Hn) as Hj.
          rewrite Hca, Hrun1 in Hj. cbn [bind] in Hj.
          rewrite Hr16, (run_one Dec m k st1 (skipn c data) 15 Hr16) in Hj.
          rewrite firstn_skipn in Hj.
          destruct (run_std Dec m k Hm (length data / 16) data st (S (length data))) as (st' & Hrun & _);
            [pose proof (Nat.div_mod (length data) 16 ltac:(lia)); lia | lia | exact Hreg |].
          rewrite Hrun in Hj. cbn [bind mode_crypt] in Hj.
          destruct (mode_decrypt E D m k st1 (skipn c data)) as [[o2 st2]|e] eqn:Ed; cbn [bind] in Hj |- *;
            [|discriminate Hj].
          assert (Ho : std_crypt Dec m k (m_reg st) (firstn c data) ++ o2 = std_crypt Dec m k (m_reg st) data)
            by congruence.
          pose proof (dec_block_len m k st1 _ o2 st2 Hm Hreg1 Hr16 Ed) as Ho2.
          cbv zeta. rewrite <- (std_reg Dec m k st iv _ Hm Hst), <- Ho.
          assert (Hb2 : blen o2 = 16) by (unfold blen; rewrite Ho2; reflexivity).
          rewrite <- Hb2 at 1. rewrite lastN_app_exact.
          rewrite blen_app, Hb2.
          replace (blen (std_crypt Dec m k (m_reg st) (firstn c data)) + 16 - 16)
            with (blen (std_crypt Dec m k (m_reg st) (firstn c data))) by lia.
          rewrite takeN_app_exact.
          destruct (strip_PKCS7_padding o2) as [x|e]; reflexivity.
        + apply Nat.eqb_neq in Em.
          rewrite Hbadlen; [reflexivity|]. intro Hx. rewrite Hx in Hmod. apply Em. rewrite <- Hmod. reflexivity.
    Qed.
  End DecDefault.
End Block.

(* ---- CFB ---------------------------------------------------------------------------------------------- *)

Section Cfb.
  Variable E D : bytes -> bytes -> bytes.
  Hypothesis E_len : forall k b, length b = 16%nat -> length (E k b) = 16%nat.

  Definition sp_cfb (fb : bool) (k : bytes) (sb : nat) (segs : list bytes) (I : bytes) : bytes :=
    if fb then sp_cfb_enc (E k) sb segs I else sp_cfb_dec (E k) sb segs I.

  Lemma pieces_cons n d f : (0 < n)%nat -> d <> [] -> (length d <= f)%nat ->
    pieces (S f) n d = firstn n d :: pieces f n (skipn n d).
  Proof. intros Hn Hne Hf. destruct d; [contradiction|reflexivity]. Qed.

  (* whole segments through the model's loop = the CFB of SP 800-38A 6.3 *)
  Lemma cfb_whole fb seg k : 1 <= seg <= 16 -> forall n data reg f,
    length data = (N.to_nat seg * n)%nat -> length reg = 16%nat -> (length data < f)%nat ->
    exists reg', cfb_loop E f fb seg k reg data [] =
                 Ok (sp_cfb fb k (N.to_nat seg) (pieces (length data) (N.to_nat seg) data) reg, reg') /\
      length reg' = 16%nat /\
      length (sp_cfb fb k (N.to_nat seg) (pieces (length data) (N.to_nat seg) data) reg) = length data.
  Proof.
    intro Hseg. set (sb := N.to_nat seg). assert (Hsb : (1 <= sb <= 16)%nat) by (unfold sb; lia).
    induction n as [|n IH]; intros data reg f Hl Hreg Hf.
    - destruct data; [|cbn in Hl; lia]. destruct f; [lia|]. exists reg.
      split; [destruct fb; reflexivity|]. split; [exact Hreg|destruct fb; reflexivity].
    - destruct f as [|f]; [lia|].
      destruct data as [|x data']; [cbn in Hl; lia|].
      cbn [cfb_loop]. set (data := x :: data') in *.
      assert (Hne : data <> []) by discriminate.
      assert (Hge : (sb <= length data)%nat) by lia.
      unfold blkE. replace (blen reg =? 16) with true by (symmetry; apply N.eqb_eq; unfold blen; lia).
      cbn [bind]. pose proof (E_len k reg Hreg) as HO.
      rewrite (takeN_firstn seg data), (dropN_skipn seg data). fold sb.
      assert (Hin : length (firstn sb data) = sb) by (rewrite firstn_length; lia).
      assert (Hbin : blen (firstn sb data) = seg) by (unfold blen; rewrite Hin; unfold sb; lia).
      rewrite Hbin, (takeN_firstn seg (E k reg)). fold sb.
      assert (Hko : length (firstn sb (E k reg)) = sb) by (rewrite firstn_length; lia).
      set (outseg := xor_bytes (firstn sb data) (firstn sb (E k reg))).
      assert (Hout : length outseg = sb) by (unfold outseg; rewrite xor_bytes_length; lia).
      set (fed := if fb then outseg else firstn sb data).
      assert (Hfed : length fed = sb) by (unfold fed; destruct fb; assumption).
      assert (Hbfed : blen fed = seg) by (unfold blen; rewrite Hfed; unfold sb; lia).
      rewrite Hbfed, (dropN_skipn seg reg). fold sb.
      assert (Hreg' : length (skipn sb reg ++ fed) = 16%nat) by (rewrite app_length, skipn_length, Hfed; lia).
      rewrite (cfb_acc E fb seg k f _ _ ([] ++ outseg)).
      destruct (IH (skipn sb data) (skipn sb reg ++ fed) f) as (reg' & Hr & Hlr & Hlo);
        [rewrite skipn_length; nia | exact Hreg' | rewrite skipn_length; lia |].
      rewrite Hr. cbn [bind app]. exists reg'.
      assert (Hpc : pieces (length data) sb data =
                    firstn sb data :: pieces (length (skipn sb data)) sb (skipn sb data)).
      { unfold data at 1 2. cbn [length pieces]. fold data. f_equal.
        apply pieces_fuel; [lia| |lia]. rewrite skipn_length. unfold data. cbn [length]. lia. }
      rewrite Hpc.
      split; [|split; [exact Hlr|]].
      + f_equal. f_equal. unfold sp_cfb, fed, outseg. destruct fb; reflexivity.
      +
        assert (Hstep : length (sp_cfb fb k sb (firstn sb data :: pieces (length (skipn sb data)) sb (skipn sb data)) reg)
                        = (sb + length (skipn sb data))%nat).
        { unfold sp_cfb. destruct fb; cbn [sp_cfb_enc sp_cfb_dec]; rewrite app_length;
            fold outseg; rewrite Hout; f_equal; unfold sp_cfb, fed in Hlo; exact Hlo. }
        rewrite Hstep, skipn_length. lia.
  Qed.

  Definition cfb_fb (d : direction) : bool := match d with Enc => true | Dec => false end.

  Lemma cfb_mode_whole d s k st data n : 1 <= seg_of s <= 16 ->
    length data = (N.to_nat (seg_of s) * n)%nat -> length (m_reg st) = 16%nat ->
    exists st', mode_crypt E D d (CFB s) k st data =
      Ok (sp_cfb (cfb_fb d) k (N.to_nat (seg_of s)) (pieces (length data) (N.to_nat (seg_of s)) data) (m_reg st), st') /\
      length (m_reg st') = 16%nat /\
      length (sp_cfb (cfb_fb d) k (N.to_nat (seg_of s)) (pieces (length data) (N.to_nat (seg_of s)) data) (m_reg st))
        = length data.
  Proof.
    intros Hs Hl Hreg.
    assert (Hmod : blen data mod seg_of s = 0).
    { unfold blen. rewrite Hl, Nat2N.inj_mul, N2Nat.id, N.mul_comm. apply N.mod_mul. lia. }
    destruct (cfb_whole (cfb_fb d) (seg_of s) k Hs n data (m_reg st) (S (length data)) Hl Hreg ltac:(lia))
      as (reg' & Hr & Hlr & Hlo).
    exists (MS reg' (m_rem st)).
    destruct d; cbn [mode_crypt mode_encrypt mode_decrypt cfb_fb] in *; rewrite Hmod; cbn [N.eqb negb];
      rewrite Hr; cbn [bind m_reg]; (split; [reflexivity|split; assumption]).
  Qed.

  (* Encrypter / Decrypter over CFB (padding default): CFB of the input padded with zero bytes to a
     whole number of segments (one whole segment when it already is), cut back to the input length *)
  Theorem cfb_feeder_std d s k iv ctr chunks :
    1 <= seg_of s <= 16 -> key_ok k = true -> length iv = 16%nat ->
    let sb := N.to_nat (seg_of s) in
    let data := concat chunks in
    let padded := data ++ zeros (sb - length data mod sb) in
    stream_crypt E D (CFB s) d PadDefault k (Some iv) ctr chunks =
    Ok (firstn (length data) (sp_cfb (cfb_fb d) k sb (pieces (length padded) sb padded) iv)).
  Proof.
    intros Hs Hk Hiv sb data padded.
    rewrite (stream_crypt_split E D E_len). unfold stream_crypt. cbn [mode_init].
    replace (blen iv =? 16) with true by (symmetry; apply N.eqb_eq; unfold blen; lia).
    rewrite Hk. cbn [negb bind]. fold data.
    set (st := MS iv []). set (seg := seg_of s) in *.
    assert (Hsb : (1 <= sb <= 16)%nat) by (unfold sb; lia).
    (* the zero padding, in N as the model computes it *)
    assert (Hz : forall x : bytes, N.to_nat (seg - blen x mod seg) = (sb - length x mod sb)%nat).
    { intro x. unfold blen, sb. pose proof (N.mod_lt (N.of_nat (length x)) seg ltac:(lia)).
      rewrite N2Nat.inj_sub, N2Nat.inj_mod, Nat2N.id. reflexivity. }
    assert (Hfinal : forall st1 r, final_crypt E D d (CFB s) PadDefault k st1 r =
              let* (c, st') := mode_crypt E D d (CFB s) k st1 (r ++ zeros (sb - length r mod sb)) in
              Ok (takeN (blen r) c, st')).
    { intros st1 r. destruct d; cbn [final_crypt final_encrypt final_decrypt mode_crypt]; fold seg; rewrite Hz; reflexivity. }
    assert (Hpadlen : forall x : bytes, exists n, length (x ++ zeros (sb - length x mod sb)) = (sb * n)%nat).
    { intro x. exists (S (length x / sb)). rewrite app_length, zeros_length.
      pose proof (Nat.div_mod (length x) sb ltac:(lia)). pose proof (Nat.mod_upper_bound (length x) sb ltac:(lia)). nia. }
    unfold feeder_new. cbn [feed_all]. rewrite feed_some. cbn [app].
    rewrite (drainF_unit E D (CFB s) d k st data I). cbn [unit_of]. fold seg.
    destruct (Hpadlen data) as [np Hnp]. fold padded in Hnp.
    destruct (cfb_mode_whole d s k st padded np Hs Hnp Hiv) as (stp & Hp & _ & Hlp). fold sb seg in Hp, Hlp.
    assert (Direct : final_crypt E D d (CFB s) PadDefault k st data =
                     Ok (firstn (length data) (sp_cfb (cfb_fb d) k sb (pieces (length padded) sb padded) iv), stp)).
    { rewrite Hfinal. fold padded. rewrite Hp. cbn [bind app]. rewrite takeN_firstn. unfold blen. rewrite Nat2N.id. reflexivity. }
    destruct (16 <? blen data) eqn:E16; [|cbn [bind feed f_buf f_st]; rewrite Direct; reflexivity].
    cbv zeta. set (c := seg * ((blen data - 16) / seg)).
    destruct (c =? 0) eqn:E0; [cbn [bind feed f_buf f_st]; rewrite Direct; reflexivity|].
    apply N.eqb_neq in E0. apply N.ltb_lt in E16.
    assert (Hc : c <= blen data - 16) by (apply N.mul_div_le; lia).
    set (a := takeN c data). set (r := dropN c data).
    assert (Hda : data = a ++ r) by (symmetry; apply takeN_dropN).
    pose proof (f_equal (@length byte) Hda) as Hlen. rewrite app_length in Hlen.
    assert (Hla : length a = (sb * N.to_nat ((blen data - 16) / seg))%nat).
    { unfold a. rewrite takeN_length by lia. unfold c, sb. lia. }
    assert (Hlr : (length r mod sb = length data mod sb)%nat).
    { rewrite Hlen, Hla, Nat.add_comm, Nat.mul_comm, Nat.mod_add by lia. reflexivity. }
    destruct (cfb_mode_whole d s k st a _ Hs Hla Hiv) as (st1 & Ha & Hreg1 & Hloa). fold sb seg in Ha, Hloa.
    rewrite Ha. cbn [bind feed f_buf f_st]. rewrite Hfinal.
    destruct (Hpadlen r) as [nr Hnr].
    destruct (cfb_mode_whole d s k st1 _ nr Hs Hnr Hreg1) as (st2 & Hr & _ & Hlor). fold sb seg in Hr, Hlor.
    rewrite Hr. cbn [bind].
    (* the same two calls, as one call on the padded input *)
    assert (Hpad : padded = a ++ (r ++ zeros (sb - length r mod sb))).
    { unfold padded. rewrite <- Hlr, app_assoc, <- Hda. reflexivity. }
    pose proof (cfb_hom E D d s k st a (r ++ zeros (sb - length r mod sb))) as Hh. fold seg in Hh.
    rewrite <- Hpad, Hp, Ha in Hh. cbn [bind] in Hh. rewrite Hr in Hh. cbn [bind] in Hh.
    assert (Hma : blen a mod seg = 0).
    { unfold blen. rewrite Hla, Nat2N.inj_mul. unfold sb. rewrite N2Nat.id, N.mul_comm. apply N.mod_mul. lia. }
    assert (Hmr : blen (r ++ zeros (sb - length r mod sb)) mod seg = 0).
    { unfold blen. rewrite Hnr, Nat2N.inj_mul. unfold sb. rewrite N2Nat.id, N.mul_comm. apply N.mod_mul. lia. }
    specialize (Hh Hma Hmr). fold sb in Hh, Hloa, Hlor |- *. change (m_reg st) with iv in Hh, Hloa, Hlor |- *.
    injection Hh as Ho Hst2. rewrite Ho. f_equal.
    rewrite firstn_app, Hloa. rewrite (firstn_all2 (n:=length data)) by (rewrite Hloa; lia).
    f_equal. rewrite takeN_firstn. unfold blen. rewrite Nat2N.id. f_equal. lia.
  Qed.
End Cfb.
