(* C04: ANY single byte of an authentic binary replaced is rejected (MAC checking on), for
   every MAC in which one replaced byte changes the tag - no cryptographic assumption.
   Regions: the 4-byte directory size; per entry the length byte, the MAC-protected body, the
   stored entry MAC; the sentinel; the payloads. *)
From Coq Require Import List Bool NArith ZArith Lia.
From Coq Require Import Init.Byte.
From Bec2 Require Import Base.Result Base.Bytes Base.Reader Gen.Consts Model.Bf3 Model.Damage
  Proofs.Bf3Proofs Proofs.DamageProofs Proofs.DamageStructProofs Proofs.DamageReductionProofs.
Import ListNotations.
Open Scope N_scope.

Section Replace.
  Variable enc dec mac : bytes -> option bytes -> bytes -> result bytes.
  Hypothesis mac_len : forall k iv d m, d <> [] -> mac k iv d = Ok m -> blen m = 16.
  Hypothesis enc_len : forall k d c, blen d mod 16 = 0 -> enc k None d = Ok c -> blen c = blen d.
  Hypothesis dec_enc : forall k d c, blen d mod 16 = 0 -> enc k None d = Ok c -> dec k None c = Ok d.
  Hypothesis mac_byte : forall k iv u x y v t,
    mac k iv (u ++ x :: v) = Ok t -> mac k iv (u ++ y :: v) = Ok t -> x = y.

  (* ---- frame lemmas for the entry reader (without the MAC comparison) and the directory loop -- *)
  Lemma parse_entry_frame entry ndx k d er s :
    parse_entry mac entry ndx false k = Ok (d, er) ->
    parse_entry mac (entry ++ s) ndx false k = Ok (d, ext er s).
  Proof.
    unfold parse_entry, new_reader. intro H.
    change (mkR (entry ++ s) 0) with (ext (mkR entry 0) s).
    destruct (rd_read_int 4 (mkR entry 0)) as [[a r1]|] eqn:E1; cbn [bind] in H; [|discriminate].
    rewrite (rd_read_int_frame _ _ _ _ s E1). cbn [bind].
    destruct (rd_read_int 4 r1) as [[tl r2]|] eqn:E2; cbn [bind] in H; [|discriminate].
    rewrite (rd_read_int_frame _ _ _ _ s E2). cbn [bind].
    destruct (rd_read_int 4 r2) as [[al r3]|] eqn:E3; cbn [bind] in H; [|discriminate].
    rewrite (rd_read_int_frame _ _ _ _ s E3). cbn [bind].
    destruct (tl <? al); [discriminate|].
    destruct (rd_read CMAC_SIZE r3) as [[pm r4]|] eqn:E4; cbn [bind] in H; [|discriminate].
    rewrite (rd_read_frame _ _ _ _ s E4). cbn [bind].
    destruct (to_bytes 16 ndx) as [iv|]; cbn [bind] in H |- *; [|discriminate].
    destruct (rd_read_int 1 r4) as [[dl r5]|] eqn:E5; cbn [bind] in H; [|discriminate].
    rewrite (rd_read_int_frame _ _ _ _ s E5). cbn [bind].
    destruct (rd_read dl r5) as [[db r6]|] eqn:E6; cbn [bind] in H; [|discriminate].
    rewrite (rd_read_frame _ _ _ _ s E6). cbn [bind].
    destruct (parse_tags (S (length db)) (mkR db 0) []) as [dd|]; cbn [bind] in H |- *; [|discriminate].
    destruct (rd_read CMAC_SIZE r6) as [[st r7]|] eqn:E7; cbn [bind] in H; [|discriminate].
    rewrite (rd_read_frame _ _ _ _ s E7). cbn [bind].
    inversion H; subst. reflexivity.
  Qed.

  (* an entry of the wrong length: if the reader gets through it at all, bytes are left over *)
  Lemma parse_entry_wrong_len entry ndx k d er e' x :
    parse_entry mac entry ndx false k = Ok (d, er) -> rest er = [] ->
    (exists s, s <> [] /\ (entry = e' ++ s \/ e' = entry ++ s)) ->
    parse_entry mac e' ndx true k = Ok x -> rest (snd x) <> [].
  Proof.
    intros Hok Her [s [Hs [Hpre|Hext]]] Hx; apply parse_entry_check_off in Hx; destruct x as [d' er'].
    - pose proof (parse_entry_frame _ _ _ _ _ s Hx) as Hf. rewrite <- Hpre, Hok in Hf.
      inversion Hf; subst. cbn [ext rest] in Her. apply app_eq_nil in Her as [_ Hs0]. contradiction.
    - pose proof (parse_entry_frame _ _ _ _ _ s Hok) as Hf. rewrite <- Hext, Hx in Hf.
      inversion Hf; subst. cbn [snd ext rest]. rewrite Her. exact Hs.
  Qed.

  Lemma parse_dir_frame fuel : forall dr len ndx check k acc es dr' s fuel',
    parse_dir mac fuel dr len ndx check k acc = Ok (es, dr') -> (fuel <= fuel')%nat ->
    parse_dir mac fuel' (ext dr s) len ndx check k acc = Ok (es, ext dr' s).
  Proof.
    induction fuel as [|f IH]; intros dr len ndx check k acc es dr' s fuel' H Hf; [discriminate|].
    destruct fuel' as [|f']; [lia|].
    cbn [parse_dir] in H |- *. destruct (len =? 0).
    { inversion H; subst. reflexivity. }
    destruct (rd_read len dr) as [[entry dr1]|] eqn:E1; cbn [bind] in H; [|discriminate].
    rewrite (rd_read_frame _ _ _ _ s E1). cbn [bind].
    destruct (parse_entry mac entry ndx check k) as [[e er]|]; cbn [bind] in H |- *; [|discriminate].
    destruct (rd_read_int 1 dr1) as [[len' dr2]|] eqn:E2; cbn [bind] in H; [|discriminate].
    rewrite (rd_read_int_frame _ _ _ _ s E2). cbn [bind].
    destruct (rd_ensure_eof er); cbn [bind] in H |- *; [|discriminate].
    apply IH; [exact H|lia].
  Qed.

  Lemma parse_dir'_frame fuel x p ndx check k acc es dr' s fuel' :
    parse_dir' mac fuel (mkR x p) ndx check k acc = Ok (es, dr') -> (fuel <= fuel')%nat ->
    parse_dir' mac fuel' (mkR (x ++ s) p) ndx check k acc = Ok (es, ext dr' s).
  Proof.
    unfold parse_dir'. intros H Hf.
    destruct (rd_read_int 1 (mkR x p)) as [[len dr]|] eqn:E; cbn [bind] in H; [|discriminate].
    change (mkR (x ++ s) p) with (ext (mkR x p) s).
    rewrite (rd_read_int_frame _ _ _ _ s E). cbn [bind]. exact (parse_dir_frame _ _ _ _ _ _ _ _ _ s _ H Hf).
  Qed.

  (* the authentic directory, read completely *)
  Lemma dir_reads cs off k db check :
    Forall wf_comp cs -> ser_dir enc mac cs 0 (off + 4 + (blen db + 1)) k = Ok db ->
    exists es q, entries_of enc mac cs (off + 4 + (blen db + 1)) k = Ok es /\
      parse_dir' mac (S (length (db ++ [x00]))) (mkR (db ++ [x00]) 0) 1 check k [] = Ok (es, mkR [] q).
  Proof.
    intros Hwf Hd.
    assert (Hok : Forall (okc enc k) cs).
    { apply Forall_forall. intros c Hc. apply (wf_okc enc enc_len). rewrite Forall_forall in Hwf. apply Hwf, Hc. }
    destruct (parse_dir_ser enc mac mac_len cs 0 _ db (S (length (db ++ [x00]))) [] [] 0 check k Hd Hok) as [es [Ees Epd]].
    { destruct (ser_dir_blen enc mac mac_len enc_len cs _ _ _ _ _ _ _ _ Hd Hd Hwf) as [_ Hn]. rewrite app_length. simpl. lia. }
    exists es. eexists. split; [exact Ees|]. change (1 + 0) with 1 in Epd. cbn [app rev] in Epd. exact Epd.
  Qed.

  Lemma dir_from_binary_eq r check k :
    dir_from_binary mac r check k =
    (let* (total, r1) := rd_read_int 4 r in
     let* (db, r2) := rd_read total r1 in
     let* (es, dr) := parse_dir' mac (S (length db)) (mkR db 0) 1 check k [] in
     let* _ := rd_ensure_eof dr in Ok (es, r2)).
  Proof.
    unfold dir_from_binary, parse_dir', new_reader.
    destruct (rd_read_int 4 r) as [[total r1]|]; cbn [bind]; [|reflexivity].
    destruct (rd_read total r1) as [[db r2]|]; cbn [bind]; [|reflexivity].
    destruct (rd_read_int 1 (mkR db 0)) as [[len dr]|]; cbn [bind]; reflexivity.
  Qed.

  (* ---- the directory size field: any other value is rejected -------------------------------- *)
  Theorem size_field_rejected cs off k db pb S' check :
    Forall wf_comp cs -> ser_dir enc mac cs 0 (off + 4 + (blen db + 1)) k = Ok db ->
    S' < 256 ^ N.of_nat 4 -> S' <> blen db + 1 ->
    exists e, from_binary dec mac (mkR (be 4 S' ++ (db ++ [x00]) ++ pb) off) check k = Err e.
  Proof.
    intros Hwf Hd HS Hne.
    destruct (dir_reads cs off k db check Hwf Hd) as [es [q [_ Hfull]]].
    set (dd := db ++ [x00]) in *.
    assert (Hdd : blen dd = blen db + 1) by (unfold dd; rewrite blen_app; reflexivity).
    unfold from_binary. rewrite dir_from_binary_eq.
    rewrite (rd_read_int_be 4 S') by exact HS. cbn [bind].
    destruct (rd_read S' (mkR (dd ++ pb) (off + N.of_nat 4))) as [[b1 [x2 p2]]|e] eqn:E; cbn [bind]; [|exists e; reflexivity].
    destruct (rd_read_ok _ _ _ _ E) as [Hsplit [Lb1 _]]. cbn [rest] in Hsplit.
    apply app_eq_app in Hsplit as [l [[Hd1 _]|[Hb1 _]]].
    - (* too small: a proper prefix of the directory *)
      assert (Hl : l <> []).
      { intros ->. rewrite app_nil_r in Hd1. apply Hne. rewrite <- Hdd, Hd1. symmetry. exact Lb1. }
      destruct (parse_dir' mac (S (length b1)) (mkR b1 0) 1 check k []) as [[es' dr']|e] eqn:Ep; cbn [bind]; [|exists e; reflexivity].
      assert (Hle : (S (length b1) <= S (length dd))%nat) by (rewrite Hd1, app_length; lia).
      pose proof (parse_dir'_frame _ _ _ _ _ _ _ _ _ l _ Ep Hle) as Hf.
      rewrite <- Hd1, Hfull in Hf. injection Hf as _ Hr _.
      symmetry in Hr. apply app_eq_nil in Hr as [_ Hl0]. contradiction.
    - (* too large: payload bytes after the sentinel *)
      assert (Hl : l <> []).
      { intros ->. rewrite app_nil_r in Hb1. apply Hne. rewrite <- Hdd, <- Hb1. symmetry. exact Lb1. }
      assert (Hle : (S (length dd) <= S (length b1))%nat) by (rewrite Hb1, app_length; lia).
      pose proof (parse_dir'_frame _ _ _ _ _ _ _ _ _ l _ Hfull Hle) as Hf.
      rewrite <- Hb1 in Hf. rewrite Hf. cbn [bind]. unfold ext, rd_ensure_eof, rd_eof. cbn [rest app].
      destruct l; [contradiction|]. cbn [bind]. exists EValue. reflexivity.
  Qed.

  (* ---- one byte replaced inside a payload ---------------------------------------------------- *)
  Lemma read_comps_byte cs : forall adr es q x w y k,
    entries_of enc mac cs adr k = Ok es -> payloads enc cs k = Ok (q ++ x :: w) -> Forall wf_comp cs -> y <> x ->
    exists e, read_comps dec mac es (mkR (q ++ y :: w) adr) true k = Err e.
  Proof.
    induction cs as [|c cs IH]; intros adr es q x w y k He Hp Hwf Hy.
    - cbn in Hp. inversion Hp as [Hq]. destruct q; discriminate.
    - cbn [entries_of payloads] in He, Hp.
      bind_inv He as raw Eraw. bind_inv He as pmac Epmac. bind_inv He as es' Ees. inversion He; subst es. clear He.
      cbn [bind] in Hp. bind_inv Hp as pb' Epb. inversion Hp as [Hsplit]. clear Hp.
      inversion Hwf as [|? ? Hc Hwf']; subst.
      cbn [read_comps entry_of e_adr e_total e_pmac e_desc e_alen pos].
      rewrite N.eqb_refl. cbn [negb].
      assert (Behind : forall l, q = raw ++ l -> pb' = l ++ x :: w ->
                exists e, (let* (payload, r) := rd_read (blen raw) (mkR (q ++ y :: w) adr) in
                           let* _ := (let* m := mac k None payload in if bytes_eqb m pmac then Ok tt else Err EBf3) in
                           let* c0 := match dict_get N.eqb (c_desc c) BF3TAG_ENC with
                                      | Some v => if bytes_eqb v enc_tag_value
                                                  then let* b := dec k None payload in Ok (mk_comp (c_desc c) b (Some (c_alen c)) true)
                                                  else Ok (mk_comp (c_desc c) payload (Some (c_alen c)) false)
                                      | None => Ok (mk_comp (c_desc c) payload (Some (c_alen c)) false)
                                      end in
                           let* (cs0, r0) := read_comps dec mac es' r true k in Ok (c0 :: cs0, r0)) = Err e).
      { intros l Hq Hpb'. subst q. rewrite <- app_assoc, rd_read_app. cbn [bind].
        rewrite Epmac. cbn [bind]. rewrite bytes_eqb_refl. cbn [bind].
        match goal with |- exists e, bind ?m _ = _ => destruct m as [cc|e0]; cbn [bind]; [|exists e0; reflexivity] end.
        rewrite Hpb' in Epb.
        destruct (IH (adr + blen raw) es' l x w y k Ees Epb Hwf' Hy) as [e He].
        rewrite He. cbn [bind]. exists e. reflexivity. }
      apply app_eq_app in Hsplit as [l [[Hraw Hrest]|[Hq Hpb']]].
      + destruct l as [|c0 l].
        * rewrite app_nil_r in Hraw. cbn [app] in Hrest. apply (Behind []); [rewrite app_nil_r; symmetry; exact Hraw|symmetry; exact Hrest].
        * cbn [app] in Hrest. injection Hrest as <- Hw. subst w.
          assert (Hlen : blen (q ++ y :: l) = blen raw) by (rewrite Hraw, !blen_app, !blen_cons; reflexivity).
          replace (q ++ y :: l ++ pb') with ((q ++ y :: l) ++ pb') by (rewrite <- app_assoc; reflexivity).
          rewrite <- Hlen, rd_read_app. cbn [bind].
          destruct (mac k None (q ++ y :: l)) as [m|e0] eqn:Em; cbn [bind]; [|exists e0; reflexivity].
          destruct (bytes_eqb m pmac) eqn:Eq; cbn [bind]; [|exists EBf3; reflexivity].
          exfalso. apply bytes_eqb_eq in Eq. subst m. rewrite Hraw in Epmac.
          apply Hy. symmetry. exact (mac_byte _ _ _ _ _ _ _ Epmac Em).
      + exact (Behind l Hq Hpb').
  Qed.

  (* ---- one byte replaced inside the directory (entry length bytes, entry bodies, entry MACs,
     sentinel): the directory loop or its final end-of-data check fails ---------------------- *)
  Lemma parse_dir_step_ok fuel entry x p ndx check k acc e er :
    entry <> [] -> blen entry < 256 ^ N.of_nat 1 ->
    parse_entry mac entry ndx check k = Ok (e, er) -> rest er = [] ->
    parse_dir' mac (S fuel) (mkR (be 1 (blen entry) ++ entry ++ x) p) ndx check k acc =
    parse_dir' mac fuel (mkR x (p + 1 + blen entry)) (ndx + 1) check k (e :: acc).
  Proof.
    intros Hne Hl Hpe Her. rewrite (parse_dir_step mac fuel entry x p ndx check k acc Hne Hl), Hpe. cbn [bind].
    unfold parse_dir'. destruct (rd_read_int 1 (mkR x (p + 1 + blen entry))) as [[len' dr]|]; cbn [bind]; [|reflexivity].
    unfold rd_ensure_eof, rd_eof. rewrite Her. reflexivity.
  Qed.

  Definition dir_fails (fuel : nat) (x : bytes) (p ndx : N) (k : bytes) (acc : list dentry) : Prop :=
    exists e, (let* (es, dr) := parse_dir' mac fuel (mkR x p) ndx true k acc in
               let* _ := rd_ensure_eof dr in Ok es) = Err e.

  Lemma dir_fails_err fuel x p ndx k acc e :
    parse_dir' mac fuel (mkR x p) ndx true k acc = Err e -> dir_fails fuel x p ndx k acc.
  Proof. intro H. exists e. rewrite H. reflexivity. Qed.

  Lemma parse_dir_byte cs : forall ndx adr k db q x w y fuel p acc,
    ser_dir enc mac cs ndx adr k = Ok db -> Forall wf_comp cs ->
    db ++ [x00] = q ++ x :: w -> y <> x -> (length (q ++ y :: w) < fuel)%nat ->
    dir_fails fuel (q ++ y :: w) p (1 + ndx) k acc.
  Proof.
    induction cs as [|c cs IH]; intros ndx adr k db q x w y fuel p acc Hd Hwf Hsplit Hy Hf.
    - (* only the sentinel *)
      cbn in Hd. inversion Hd; subst db. cbn [app] in Hsplit.
      destruct q as [|q0 q]; [|destruct q; discriminate]. cbn [app] in Hsplit. injection Hsplit as <- <-.
      destruct fuel as [|fuel]; [simpl in Hf; lia|]. apply (dir_fails_err _ _ _ _ _ _ EValue).
      cbn [app]. apply parse_dir_bad_sentinel. exact Hy.
    - cbn [ser_dir] in Hd.
      destruct (ser_entry enc mac c ndx adr k) as [[entry raw]|] eqn:Ee; cbn [bind] in Hd; [|discriminate].
      bind_inv Hd as el Eel. bind_inv Hd as rdb Erest. inversion Hd; subst db. clear Hd.
      apply to_bytes_be in Eel as [-> Hel].
      inversion Hwf as [|? ? Hwfc Hwf']; subst.
      destruct (wf_okc enc enc_len k c Hwfc) as [ND Hc].
      pose proof (ser_entry_raw enc mac _ _ _ _ _ _ Ee) as Hraw0.
      destruct (Hc raw Hraw0) as [Hrne Hal].
      destruct (ser_entry_shape enc mac mac_len _ _ _ _ _ _ Ee Hrne)
        as [pmac [tags [emac [_ [Epm [Etg [Hentry [Eem [Lp [Le _]]]]]]]]]].
      assert (Hne : entry <> []).
      { rewrite Hentry. intro Hn. apply (f_equal (@length byte)) in Hn. rewrite app_length in Hn.
        unfold blen in Le. destruct emac; [simpl in Le; lia|]. rewrite Nat.add_comm in Hn. discriminate. }
      rewrite <- !app_assoc in Hsplit. rewrite be_1 in Hsplit. cbn [app] in Hsplit.
      destruct fuel as [|fuel]; [lia|].
      destruct q as [|q0 q'].
      + (* the entry length byte *)
        cbn [app] in Hsplit. injection Hsplit as <- <-. cbn [app].
        destruct (parse_entry_ser enc mac mac_len c ndx adr k entry raw false Ee ND Hal Hrne) as [pm0 [er0 [_ [Epe0 Her0]]]].
        unfold dir_fails, parse_dir', rd_read_int.
        change (y :: entry ++ rdb ++ [x00]) with ([y] ++ entry ++ rdb ++ [x00]).
        rewrite (rd_read_exact 1 [y]) by reflexivity. cbn [bind parse_dir].
        destruct (from_be [y] =? 0) eqn:Ez.
        { cbn [bind]. unfold rd_ensure_eof, rd_eof. cbn [rest]. destruct (entry ++ rdb ++ [x00]) eqn:Ew.
          - apply app_eq_nil in Ew as [Ew _]. contradiction.
          - exists EValue. reflexivity. }
        destruct (rd_read (from_be [y]) (mkR (entry ++ rdb ++ [x00]) (p + 1))) as [[entry' dr1]|e0] eqn:E1; cbn [bind];
          [|exists e0; reflexivity].
        destruct (rd_read_ok _ _ _ _ E1) as [Hw [Lw _]]. cbn [rest] in Hw.
        destruct (parse_entry mac entry' (1 + ndx) true k) as [[e' er']|e0] eqn:Epe; cbn [bind]; [|exists e0; reflexivity].
        assert (Hleft : rest er' <> []).
        { apply (parse_entry_wrong_len entry (1 + ndx) k _ _ entry' (e', er') Epe0 Her0); [|exact Epe].
          assert (Hlen : blen entry' <> blen entry).
          { rewrite Lw. intro Hb. apply Hy. apply b2n_inj. rewrite b2n_n2b_small by exact Hel.
            rewrite <- Hb. unfold from_be. cbn. lia. }
          apply app_eq_app in Hw as [l [[H1 _]|[H1 _]]].
          - exists l. split; [|left; exact H1]. intros ->. rewrite app_nil_r in H1. apply Hlen. rewrite H1. reflexivity.
          - exists l. split; [|right; exact H1]. intros ->. rewrite app_nil_r in H1. apply Hlen. rewrite H1. reflexivity. }
        destruct (rd_read_int 1 dr1) as [[len' dr2]|e0]; cbn [bind]; [|exists e0; reflexivity].
        unfold rd_ensure_eof at 1, rd_eof. destruct (rest er'); [contradiction|]. cbn [bind]. exists EValue. reflexivity.
      + cbn [app] in Hsplit. injection Hsplit as <- Hsplit.
        change ((n2b (blen entry) :: q') ++ y :: w) with (be 1 (blen entry) ++ (q' ++ y :: w)).
        apply app_eq_app in Hsplit as [l [[Hent Hrest]|[Hq' Hrest]]].
        * destruct l as [|c0 l].
          { (* the first byte after this entry *)
            rewrite app_nil_r in Hent. cbn [app] in Hrest. subst q'.
            destruct (parse_entry_ser enc mac mac_len c ndx adr k entry raw true Ee ND Hal Hrne) as [pm0 [er0 [_ [Epe0 Her0]]]].
            unfold dir_fails. rewrite (parse_dir_step_ok fuel entry (y :: w) p (1 + ndx) true k acc _ _ Hne Hel Epe0 Her0).
            replace (1 + ndx + 1) with (1 + (ndx + 1)) by lia.
            apply (IH (ndx + 1) (adr + blen raw) k rdb [] x w y fuel _ _ Erest Hwf' (eq_sym Hrest) Hy).
            revert Hf. rewrite !app_length. cbn [length app]. lia. }
          (* inside this entry *)
          cbn [app] in Hrest. injection Hrest as <- Hw. subst w.
          replace (q' ++ y :: l ++ rdb ++ [x00]) with ((q' ++ y :: l) ++ rdb ++ [x00]) by (rewrite <- app_assoc; reflexivity).
          assert (Hlen : blen (q' ++ y :: l) = blen entry) by (rewrite Hent, !blen_app, !blen_cons; reflexivity).
          rewrite <- Hlen.
          assert (Hne' : q' ++ y :: l <> []) by (destruct q'; discriminate).
          unfold dir_fails.
          rewrite (parse_dir_step mac fuel (q' ++ y :: l) (rdb ++ [x00]) p (1 + ndx) true k acc Hne' ltac:(rewrite Hlen; exact Hel)).
          destruct (parse_entry mac (q' ++ y :: l) (1 + ndx) true k) as [[e' er']|e0] eqn:Epe; cbn [bind]; [|exists e0; reflexivity].
          destruct (rd_read_int 1 (mkR (rdb ++ [x00]) (p + 1 + blen (q' ++ y :: l)))) as [[len' dr2]|e0]; cbn [bind];
            [|exists e0; reflexivity].
          unfold rd_ensure_eof at 1, rd_eof. destruct (rest er') eqn:Her; [|cbn [bind]; exists EValue; reflexivity].
          exfalso.
          destruct (parse_entry_inv mac _ _ _ _ _ Epe Her) as [_ [H16 Hv]].
          unfold verified, entry_check in Hv. change CMAC_SIZE with 16 in Hv.
          (* where the byte lies: MAC-protected part or stored MAC *)
          set (body := entry_body adr (blen raw) (c_alen c) pmac tags) in *.
          rewrite Hentry in Hent.
          apply app_eq_app in Hent as [l2 [[Hbody Hem]|[Hq' Hem]]].
          -- destruct l2 as [|c1 l2].
             ++ rewrite app_nil_r in Hbody. cbn [app] in Hem. subst q'.
                assert (Hl16 : blen (y :: l) = 16) by (rewrite <- Hem, blen_cons in Le; rewrite blen_cons; exact Le).
                rewrite (takeN_app_exact' _ body (y :: l)) in Hv by (rewrite (blen_app body (y :: l)), Hl16; lia).
                rewrite <- Hl16, lastN_app_exact in Hv. rewrite Eem in Hv. inversion Hv as [Hemac].
                rewrite <- Hem in Hemac. inversion Hemac. apply Hy. congruence.
             ++ cbn [app] in Hem. injection Hem as <- Hl. subst l.
                replace (q' ++ y :: l2 ++ emac) with ((q' ++ y :: l2) ++ emac) in Hv by (rewrite <- app_assoc; reflexivity).
                rewrite (takeN_app_exact' _ (q' ++ y :: l2) emac) in Hv by (rewrite (blen_app (q' ++ y :: l2) emac), Le; lia).
                rewrite <- Le, lastN_app_exact in Hv. rewrite Hbody in Eem.
                apply Hy. symmetry. exact (mac_byte _ _ _ _ _ _ _ Eem Hv).
          -- subst q'. rewrite <- app_assoc in Hv.
             assert (Hl16 : blen (l2 ++ y :: l) = 16) by (rewrite Hem, blen_app, blen_cons in Le; rewrite blen_app, blen_cons; exact Le).
             rewrite (takeN_app_exact' _ body (l2 ++ y :: l)) in Hv by (rewrite (blen_app body (l2 ++ y :: l)), Hl16; lia).
             rewrite <- Hl16, lastN_app_exact in Hv. rewrite Eem in Hv. inversion Hv as [Hemac].
             rewrite Hem in Hemac. apply app_inv_head in Hemac. inversion Hemac. apply Hy. congruence.
        * (* behind this entry *)
          subst q'.
          destruct (parse_entry_ser enc mac mac_len c ndx adr k entry raw true Ee ND Hal Hrne) as [pm0 [er0 [_ [Epe0 Her0]]]].
          unfold dir_fails. rewrite <- app_assoc.
          rewrite (parse_dir_step_ok fuel entry (l ++ y :: w) p (1 + ndx) true k acc _ _ Hne Hel Epe0 Her0).
          replace (1 + ndx + 1) with (1 + (ndx + 1)) by lia.
          apply (IH (ndx + 1) (adr + blen raw) k rdb l x w y fuel _ _ Erest Hwf' Hrest Hy).
          revert Hf. rewrite !app_length. cbn [length]. rewrite !app_length. cbn [length]. lia.
  Qed.

  (* ---- every single-byte replacement of an authentic binary is rejected ---------------------- *)
  Theorem byte_replacement cs off k b u x v y :
    Forall wf_comp cs -> to_binary enc mac cs off k = Ok b ->
    b = u ++ x :: v -> y <> x ->
    exists e, from_binary dec mac (mkR (u ++ y :: v) off) true k = Err e.
  Proof.
    intros Hwf Hw Hb Hy.
    destruct (to_binary_layout enc mac mac_len enc_len cs off k b Hwf Hw) as [db [pb [Hd [Hp [Hsz Hlay]]]]].
    rewrite Hlay in Hb. clear Hlay.
    remember (db ++ [x00]) as dd eqn:Edd.
    assert (Hdd : blen dd = blen db + 1) by (rewrite Edd, blen_app; reflexivity).
    (* behind the size field *)
    assert (Main : forall l, dd ++ pb = l ++ x :: v ->
              exists e, from_binary dec mac (mkR (be 4 (blen db + 1) ++ l ++ y :: v) off) true k = Err e).
    { intros l Hrest.
      apply app_eq_app in Hrest as [l2 [[Hdir Hrest]|[Hl Hpay]]].
      - destruct l2 as [|c1 l2].
        + (* first payload byte *)
          rewrite app_nil_r in Hdir. cbn [app] in Hrest. subst l.
          rewrite <- Hdd, from_binary_unfold by (rewrite Hdd; exact Hsz).
          destruct (dir_reads cs off k db true Hwf Hd) as [es [q [Ees Hfull]]]. rewrite <- Edd in Hfull. rewrite Hfull. cbn [bind].
          unfold rd_ensure_eof at 1, rd_eof. cbn [rest bind]. rewrite Hdd.
          rewrite <- Hrest in Hp.
          destruct (read_comps_byte cs _ es [] x v y k Ees Hp Hwf Hy) as [e He].
          cbn [app] in He. rewrite He. exists e. reflexivity.
        + (* inside the directory *)
          cbn [app] in Hrest. injection Hrest as <- Hv. subst v.
          assert (Hl : blen (l ++ y :: l2) = blen dd) by (rewrite Hdir, !blen_app, !blen_cons; reflexivity).
          replace (l ++ y :: l2 ++ pb) with ((l ++ y :: l2) ++ pb) by (rewrite <- app_assoc; reflexivity).
          rewrite <- Hdd, <- Hl. rewrite from_binary_unfold by (rewrite Hl, Hdd; exact Hsz).
          rewrite Edd in Hdir.
          destruct (parse_dir_byte cs 0 _ k db l x l2 y (S (length (l ++ y :: l2))) 0 [] Hd Hwf Hdir Hy ltac:(lia)) as [e He].
          change (1 + 0) with 1 in He. unfold dir_fails in He.
          destruct (parse_dir' mac (S (length (l ++ y :: l2))) (mkR (l ++ y :: l2) 0) 1 true k []) as [[es dr]|e0];
            cbn [bind] in He |- *; [|exists e0; reflexivity].
          destruct (rd_ensure_eof dr); cbn [bind] in He |- *; [discriminate|]. eexists. reflexivity.
      - (* inside the payloads *)
        subst l. rewrite <- app_assoc.
        rewrite <- Hdd, from_binary_unfold by (rewrite Hdd; exact Hsz).
        destruct (dir_reads cs off k db true Hwf Hd) as [es [q [Ees Hfull]]]. rewrite <- Edd in Hfull. rewrite Hfull. cbn [bind].
        unfold rd_ensure_eof at 1, rd_eof. cbn [rest bind]. rewrite Hdd.
        rewrite Hpay in Hp.
        destruct (read_comps_byte cs _ es l2 x v y k Ees Hp Hwf Hy) as [e He].
        rewrite He. exists e. reflexivity. }
    apply app_eq_app in Hb as [l [[Hc0 Hrest]|[Hu Hrest]]].
    - destruct l as [|c0 l].
      + rewrite app_nil_r in Hc0. cbn [app] in Hrest. subst u. apply (Main []). symmetry. exact Hrest.
      + (* inside the size field *)
        cbn [app] in Hrest. injection Hrest as <- Hv. subst v.
        assert (Hlen : length (u ++ y :: l) = 4%nat).
        { apply (f_equal (@length byte)) in Hc0. rewrite be_length in Hc0. rewrite app_length in *. cbn [length] in *. lia. }
        set (S' := from_be (u ++ y :: l)).
        assert (Hc0' : u ++ y :: l = be 4 S').
        { unfold S'. rewrite <- (be_from_be (u ++ y :: l)) at 1. rewrite Hlen. reflexivity. }
        assert (HS' : S' < 256 ^ N.of_nat 4).
        { unfold S'. pose proof (from_be_lt (u ++ y :: l)) as Hlt. unfold blen in Hlt. rewrite Hlen in Hlt. exact Hlt. }
        assert (Hne : S' <> blen db + 1).
        { intro He. rewrite He, Hc0 in Hc0'. apply app_inv_head in Hc0'. inversion Hc0'. apply Hy. congruence. }
        replace (u ++ y :: l ++ dd ++ pb) with ((u ++ y :: l) ++ dd ++ pb) by (rewrite <- app_assoc; reflexivity).
        rewrite Hc0', Edd. exact (size_field_rejected cs off k db pb S' true Hwf Hd HS' Hne).
    - subst u. rewrite <- app_assoc. exact (Main l Hrest).
  Qed.
End Replace.
