(* C17 - small prime-order curves, continued (separate file so that the enumerations
   compile in parallel): key derivation and ECDH for all pairs of private keys *)
From Coq Require Import List Bool ZArith Lia.
From Bec2 Require Import Base.Result Base.Modp Gen.EcFormulas Model.Ec Proofs.EcSmall.
Import ListNotations.
Open Scope Z_scope.

(* ECDH: all pairs of private keys 1..n-1, generator = each of the first two finite points *)
Definition enum_ecdh (c : small_curve) : bool :=
  let p := s_p c in let a := s_a c in let n := s_n c in let pts := s_pts c in
  forallb (fun G => match G with None => true | Some (gx, gy) =>
    forallb (fun d1 => forallb (fun d2 =>
      match pubkey_of p a n (gx, gy, 1) d1, pubkey_of p a n (gx, gy, 1) d2 with
      | Ok (Some (x1, y1)), Ok (Some (x2, y2)) =>
          match ecdh_shared p a (x2, y2, 1) d1, ecdh_shared p a (x1, y1, 1) d2 with
          | Ok (Some s1), Ok (Some s2) =>
              (s1 =? s2) &&
              match nmul (aff_add p a) (Z.to_nat (d1 * d2)) G with Some (sx, _) => s1 =? sx | None => false end
          | Ok None, Ok None =>
              pt_eqb (nmul (aff_add p a) (Z.to_nat (d1 * d2)) G) None
          | _, _ => false
          end
      | _, _ => false
      end) (Zrange 1 n)) (Zrange 1 n) end) (firstn 3 pts).

Lemma small_enum_ecdh : forallb enum_ecdh enum_curves = true.
Proof. vm_cast_no_check (eq_refl true). Qed.
