(* C17 - scalar multiplication, precomputed-table multiplication, scaling, ECDH:
   the hand models of Model/Ec.v (built on the generated formula functions) against
   k*P in an abstract group satisfying the chord-and-tangent law (ec_group). *)
From Coq Require Import List Bool ZArith Lia Ring Setoid Morphisms Znumtheory.
From Bec2 Require Import Base.Result Base.Modp Gen.EcFormulas Model.Ec
  Proofs.EcFormulaProofs Proofs.EcNafProofs.
Import ListNotations.
Open Scope Z_scope.

(* ---------------------------------------------------------------------- *)
(* inverse_mod: partial correctness (whenever it returns, it returns an inverse) *)

Section Inverse.
Variable m : Z.
Notation "x == y" := (eqm m x y) (at level 70, no associativity).
Add Ring eqm_ring_m : (eqm_rt m)
  (setoid (eqm_equiv m) (eqm_ext m), morphism (eqm_morph m), constants [Zcst]).

Lemma egcd_inv z : forall fuel lm low hm high r,
  egcd_loop fuel lm low hm high = Ok r ->
  lm * z == low -> hm * z == high -> fst r * z == snd r.
Proof.
  induction fuel as [|f IH]; intros lm low hm high r E H1 H2; [discriminate E|].
  cbn [egcd_loop] in E. destruct (1 <? low).
  - apply IH in E; [exact E| |exact H1].
    transitivity (hm * z - (lm * z) * (high / low)); [ring|]. rewrite H1, H2. ring.
  - injection E as <-. exact H1.
Qed.

Lemma inverse_mod_spec z i : inverse_mod z m = Ok i -> z <> 0 -> i * z == 1.
Proof.
  unfold inverse_mod. intros E Hz. apply Z.eqb_neq in Hz. rewrite Hz in E.
  destruct (egcd_loop (egcd_fuel m) 1 (z mod m) 0 m) as [[lm low]|e] eqn:EL; [|discriminate E].
  cbn [bind] in E. destruct (Z.eqb_spec low 1) as [->|]; [|discriminate E].
  injection E as <-. apply egcd_inv with (z := z) in EL.
  - cbn [fst snd] in EL. rewrite mod_eqm. exact EL.
  - rewrite mod_eqm. ring.
  - transitivity 0; [ring|]. symmetry. apply eqm_0_iff. apply Z_mod_same_full.
Qed.

Lemma inverse_mod_0 : inverse_mod 0 m = Ok 0.
Proof. reflexivity. Qed.

End Inverse.

(* ---------------------------------------------------------------------- *)

Definition jrepr_opt (p : Z) (r : option jac) (Q : pt) : Prop :=
  match r with None => Q = None | Some J => jrepr p J Q end.

Definition xred (p : Z) (J : jac) : Prop := jX J mod p = jX J.

Section Mul.
Variables p a : Z.
Variable inG : pt -> Prop.
Variable gadd : pt -> pt -> pt.
Variable gneg : pt -> pt.
Hypothesis GH : ec_group p a inG gadd gneg.
Notation "x == y" := (eqm p x y) (at level 70, no associativity).
Notation zmul := (zmul gadd gneg).
Notation nmul := (nmul gadd).

Add Ring eqm_ring3 : (eqm_rt p)
  (setoid (eqm_equiv p) (eqm_ext p), morphism (eqm_morph p), constants [Zcst]).

Let Hp : prime p := g_prime _ _ _ _ _ GH.
Let Hinf : inG None := g_inf _ _ _ _ _ GH.
Let Hcl := g_closed _ _ _ _ _ GH.
Let Hncl := g_neg_closed _ _ _ _ _ GH.
Let Hidl := g_id_l _ _ _ _ _ GH.
Let Hidr := g_id_r _ _ _ _ _ GH.
Let Hassoc := g_assoc _ _ _ _ _ GH.
Let Hcomm := g_comm _ _ _ _ _ GH.
Let Hinv := g_inv _ _ _ _ _ GH.

Local Hint Resolve Hinf Hcl Hncl : grp.

(* --- a little abelian-group algebra on inG --- *)

Lemma inv_l P : inG P -> gadd (gneg P) P = None.
Proof. intro H. rewrite Hcomm; auto with grp. Qed.

Lemma cancel_l P Q R : inG P -> inG Q -> inG R -> gadd P Q = gadd P R -> Q = R.
Proof.
  intros HP HQ HR E.
  rewrite <- (Hidl Q), <- (Hidl R), <- (inv_l P HP).
  rewrite !Hassoc by auto with grp. rewrite E. reflexivity.
Qed.

Lemma inv_unique P Q : inG P -> inG Q -> gadd P Q = None -> Q = gneg P.
Proof.
  intros HP HQ E. apply (cancel_l P); auto with grp. rewrite E, Hinv; auto.
Qed.

Lemma gneg_add P Q : inG P -> inG Q -> gneg (gadd P Q) = gadd (gneg P) (gneg Q).
Proof.
  intros HP HQ. symmetry. apply inv_unique; auto with grp.
  rewrite Hassoc by auto with grp.
  rewrite (Hcomm (gneg P)) by auto with grp.
  rewrite <- (Hassoc Q) by auto with grp.
  rewrite Hinv, Hidl, Hinv by auto with grp. reflexivity.
Qed.

Lemma gneg_inf : gneg None = None.
Proof. apply (g_neg_inf _ _ _ _ _ GH). Qed.

Lemma nmul_closed n P : inG P -> inG (nmul n P).
Proof. intro H. induction n; cbn [Ec.nmul]; auto with grp. Qed.
Local Hint Resolve nmul_closed : grp.

Lemma nmul_inf n : nmul n None = None.
Proof. induction n; cbn [Ec.nmul]; [reflexivity|]. rewrite IHn. apply Hidl. Qed.

Lemma zmul_nonneg k P : 0 <= k -> zmul k P = nmul (Z.to_nat k) P.
Proof. intro H. destruct k; [reflexivity|reflexivity|lia]. Qed.

Lemma zmul_nonpos k P : k <= 0 -> zmul k P = gneg (nmul (Z.to_nat (- k)) P).
Proof.
  intro H. destruct k; [|lia|reflexivity].
  cbn. symmetry. apply gneg_inf.
Qed.

Lemma zmul_closed k P : inG P -> inG (zmul k P).
Proof.
  intro H. destruct (Z.le_gt_cases 0 k).
  - rewrite zmul_nonneg by assumption. auto with grp.
  - rewrite zmul_nonpos by lia. auto with grp.
Qed.
Local Hint Resolve zmul_closed : grp.

Lemma zmul_inf k : zmul k None = None.
Proof.
  destruct (Z.le_gt_cases 0 k).
  - rewrite zmul_nonneg by assumption. apply nmul_inf.
  - rewrite zmul_nonpos by lia. rewrite nmul_inf. apply gneg_inf.
Qed.

Lemma zmul_0 P : zmul 0 P = None.
Proof. reflexivity. Qed.

Lemma zmul_1 P : zmul 1 P = P.
Proof. cbn. apply Hidl. Qed.

Lemma zmul_succ k P : inG P -> zmul (k + 1) P = gadd (zmul k P) P.
Proof.
  intro H. destruct (Z.le_gt_cases 0 k).
  - rewrite !zmul_nonneg by lia. rewrite Z2Nat.inj_add by lia. rewrite Nat.add_comm. reflexivity.
  - rewrite !zmul_nonpos by lia.
    replace (Z.to_nat (- k)) with (S (Z.to_nat (- (k + 1)))) by lia.
    cbn [Ec.nmul]. set (N := nmul (Z.to_nat (- (k + 1))) P).
    assert (HN : inG N) by (unfold N; auto with grp).
    rewrite gneg_add by assumption.
    rewrite Hassoc by auto with grp. rewrite inv_l by assumption. rewrite Hidr. reflexivity.
Qed.

Lemma zmul_pred k P : inG P -> zmul (k - 1) P = gadd (zmul k P) (gneg P).
Proof.
  intro H. replace (zmul k P) with (zmul ((k - 1) + 1) P) by (f_equal; lia).
  rewrite zmul_succ by assumption.
  rewrite Hassoc by auto with grp. rewrite Hinv by assumption. rewrite Hidr. reflexivity.
Qed.

Lemma zmul_m1 P : inG P -> zmul (-1) P = gneg P.
Proof. intro H. change (-1) with (0 - 1). rewrite zmul_pred by assumption. apply Hidl. Qed.

Lemma zmul_add k l P : inG P -> zmul (k + l) P = gadd (zmul k P) (zmul l P).
Proof.
  intro H. revert l. apply Z.peano_ind.
  - rewrite Z.add_0_r, zmul_0, Hidr. reflexivity.
  - intros l IH. unfold Z.succ. rewrite Z.add_assoc, !zmul_succ, IH by assumption.
    rewrite Hassoc by auto with grp. reflexivity.
  - intros l IH. unfold Z.pred. rewrite Z.add_assoc.
    change (k + l + -1) with (k + l - 1). change (l + -1) with (l - 1).
    rewrite !zmul_pred, IH by assumption.
    rewrite Hassoc by auto with grp. reflexivity.
Qed.

Lemma zmul_double k P : inG P -> gadd (zmul k P) (zmul k P) = zmul (2 * k) P.
Proof. intro H. rewrite <- zmul_add by assumption. f_equal. lia. Qed.

Lemma zmul_neg k P : inG P -> zmul (- k) P = gneg (zmul k P).
Proof.
  intro H. apply inv_unique; auto with grp.
  rewrite <- zmul_add by assumption. replace (k + - k) with 0 by lia. reflexivity.
Qed.

Lemma zmul_mul k l P : inG P -> zmul k (zmul l P) = zmul (k * l) P.
Proof.
  intro H. revert k. apply Z.peano_ind.
  - reflexivity.
  - intros k IH. unfold Z.succ. rewrite zmul_succ by auto with grp. rewrite IH.
    rewrite <- zmul_add by assumption. f_equal. lia.
  - intros k IH. unfold Z.pred. change (k + -1) with (k - 1).
    rewrite zmul_pred by auto with grp. rewrite IH.
    rewrite <- zmul_neg, <- zmul_add by assumption. f_equal. lia.
Qed.

(* k mod (c*n) when n*P = 0 *)
Lemma zmul_mod k n P : inG P -> zmul n P = None -> n <> 0 -> zmul (k mod n) P = zmul k P.
Proof.
  intros H Hn Hn0. rewrite (Z.div_mod k n Hn0) at 2.
  rewrite zmul_add by assumption. rewrite Z.mul_comm, <- zmul_mul by assumption.
  rewrite Hn, zmul_inf, Hidl. reflexivity.
Qed.

(* --- infinity tests --- *)

Lemma is_inf_true J : is_inf J = true <-> (jY J = 0 \/ jZ J = 0).
Proof.
  destruct J as [[X Y] Zc]. unfold is_inf, jY, jZ; cbn [fst snd].
  rewrite orb_true_iff, !Z.eqb_eq. reflexivity.
Qed.

Lemma jrepr_is_inf J Q : inG Q -> jrepr p J Q -> (is_inf J = true <-> Q = None).
Proof.
  intros HG HJ. destruct J as [[X Y] Zc]. rewrite is_inf_true. unfold jY, jZ; cbn [fst snd].
  destruct Q as [[x y]|].
  - destruct (fin_facts p a inG gadd gneg GH _ _ _ _ _ HG HJ) as [_ [_ [_ [HY0 [HZ0 _]]]]].
    split; [intros [K|K]; contradiction | discriminate].
  - cbn in HJ. tauto.
Qed.

Lemma wrap_correct J Q : inG Q -> jrepr p J Q -> jrepr_opt p (wrap J) Q.
Proof.
  intros HG HJ. unfold wrap. destruct (is_inf J) eqn:E.
  - cbn. apply (jrepr_is_inf J Q HG HJ), E.
  - exact HJ.
Qed.

Lemma jrepr_inf_001 : jrepr p (0, 0, 1) None.
Proof. left. reflexivity. Qed.

Lemma one_nz : ~ 1 == 0.
Proof. apply eqm_small_nz. pose proof (g_odd _ _ _ _ _ GH). lia. Qed.

(* --- scale, x(), y() --- *)

Lemma scale_correct J Q J' :
  jrepr p J Q -> pj_scale p J = Ok J' ->
  jrepr p J' Q /\ (Q <> None -> jZ J' = 1) /\ (xred p J -> xred p J').
Proof.
  destruct J as [[X Y] Zc]. intros HJ E. unfold pj_scale in E.
  destruct (Z.eqb_spec Zc 1) as [->|Hz1].
  { injection E as <-. repeat split; auto. }
  destruct (inverse_mod Zc p) as [zi|e] eqn:EI; [|discriminate E]. cbn [bind] in E.
  injection E as <-. split; [|split; [reflexivity | intros _; unfold xred, jX; cbn [fst]; apply Zmod_mod]].
  destruct Q as [[x y]|].
  - destruct HJ as [HZ [HX HY]].
    assert (Hz0 : Zc <> 0) by (intros ->; apply HZ; reflexivity).
    pose proof (inverse_mod_spec p Zc zi EI Hz0) as Hi.
    split; [apply one_nz|]. split.
    + rewrite !mod_eqm, HX. transitivity (x * ((zi * Zc) * (zi * Zc))); [ring|]. rewrite Hi. ring.
    + rewrite !mod_eqm, HY. transitivity (y * ((zi * Zc) * (zi * Zc) * (zi * Zc))); [ring|]. rewrite Hi. ring.
  - cbn in HJ. left. destruct HJ as [->| ->].
    + rewrite !Z.mul_0_l. apply Zmod_0_l.
    + rewrite inverse_mod_0 in EI. injection EI as <-. rewrite !Z.mul_0_r. apply Zmod_0_l.
Qed.

Lemma scale_z1 J J' : pj_scale p J = Ok J' -> jZ J' = 1.
Proof.
  destruct J as [[X Y] Zc]. unfold pj_scale. destruct (Z.eqb_spec Zc 1) as [->|H].
  - intro E. injection E as <-. reflexivity.
  - destruct (inverse_mod Zc p); [|discriminate]. cbn [bind]. intro E. injection E as <-. reflexivity.
Qed.

Lemma xy_correct J x y vx vy :
  jrepr p J (Some (x, y)) -> pj_x p J = Ok vx -> pj_y p J = Ok vy ->
  jrepr p (vx, vy, 1) (Some (x, y)).
Proof.
  destruct J as [[X Y] Zc]. intros [HZ [HX HY]] EX EY. unfold pj_x, pj_y in *.
  destruct (Z.eqb_spec Zc 1) as [->|Hz1].
  { injection EX as <-. injection EY as <-. split; [exact HZ|]. split; assumption. }
  destruct (inverse_mod Zc p) as [zi|e] eqn:EI; [|discriminate EX]. cbn [bind] in *.
  injection EX as <-. injection EY as <-.
  assert (Hz0 : Zc <> 0) by (intros ->; apply HZ; reflexivity).
  pose proof (inverse_mod_spec p Zc zi EI Hz0) as Hi.
  split; [apply one_nz|]. split.
  - rewrite mod_eqm, HX. change (Z.pow_pos zi 2) with (zi * (zi * 1)).
    transitivity (x * ((zi * Zc) * (zi * Zc))); [ring|]. rewrite Hi. ring.
  - rewrite mod_eqm, HY. change (Z.pow_pos zi 3) with (zi * (zi * (zi * 1))).
    transitivity (y * ((zi * Zc) * (zi * Zc) * (zi * Zc))); [ring|]. rewrite Hi. ring.
Qed.

(* x() of a finite point: congruent to the affine x, and reduced when J is X-reduced *)
Lemma x_correct J x y vx :
  jrepr p J (Some (x, y)) -> xred p J -> pj_x p J = Ok vx -> vx == x /\ vx mod p = vx.
Proof.
  destruct J as [[X Y] Zc]. intros [HZ [HX HY]] HR EX. unfold pj_x in EX.
  destruct (Z.eqb_spec Zc 1) as [->|Hz1].
  { injection EX as <-. split; [rewrite HX; ring | exact HR]. }
  destruct (inverse_mod Zc p) as [zi|e] eqn:EI; [|discriminate EX]. cbn [bind] in *.
  injection EX as <-.
  assert (Hz0 : Zc <> 0) by (intros ->; apply HZ; reflexivity).
  pose proof (inverse_mod_spec p Zc zi EI Hz0) as Hi.
  split; [|apply Zmod_mod].
  rewrite mod_eqm, HX. change (Z.pow_pos zi 2) with (zi * (zi * 1)).
  transitivity (x * ((zi * Zc) * (zi * Zc))); [ring|]. rewrite Hi. ring.
Qed.


(* --- X-reducedness of the formula results (needed for x() when Z = 1) --- *)

Lemma xred_double X Y Zc : xred p (pj_double X Y Zc p a).
Proof.
  unfold xred, jX, pj_double, pj_double_with_z_1. cbv beta iota zeta.
  repeat match goal with |- context [if ?c then _ else _] => destruct c end;
    cbn [fst]; try apply Zmod_0_l; apply Zmod_mod.
Qed.

Lemma xred_dz1 X Y : xred p (pj_double_with_z_1 X Y p a).
Proof. rewrite <- d_z1. apply xred_double. Qed.

Lemma xred_add X1 Y1 Z1 X2 Y2 Z2 :
  xred p (X1, Y1, Z1) -> xred p (X2, Y2, Z2) -> xred p (pj_add X1 Y1 Z1 X2 Y2 Z2 p a).
Proof.
  intros H1 H2. unfold pj_add.
  repeat match goal with |- context [if ?c then _ else _] => destruct c end; try assumption.
  - unfold pj_add_with_z_1. cbv beta iota zeta.
    destruct (_ && _); [apply xred_dz1 | unfold xred, jX; cbn [fst]; apply Zmod_mod].
  - unfold pj_add_with_z_eq. cbv beta iota zeta.
    destruct (_ && _); [apply xred_double | unfold xred, jX; cbn [fst]; apply Zmod_mod].
  - unfold pj_add_with_z2_1. cbv beta iota zeta.
    destruct (_ && _); [apply xred_dz1 | unfold xred, jX; cbn [fst]; apply Zmod_mod].
  - unfold pj_add_with_z2_1. cbv beta iota zeta.
    destruct (_ && _); [apply xred_dz1 | unfold xred, jX; cbn [fst]; apply Zmod_mod].
  - unfold pj_add_with_z_ne. cbv beta iota zeta.
    destruct (_ && _); [apply xred_double | unfold xred, jX; cbn [fst]; apply Zmod_mod].
Qed.

(* --- the NAF loop of __mul__ --- *)

Section Base.
(* the (scaled) base point *)
Variables X2 Y2 : Z.
Variable P : pt.
Hypothesis PG : inG P.
Hypothesis PJ : jrepr p (X2, Y2, 1) P.

Lemma base_neg : jrepr p (X2, - Y2, 1) (zmul (-1) P).
Proof. rewrite zmul_m1 by assumption. apply (neg_correct p a inG gadd gneg GH); assumption. Qed.

Lemma naf_step_correct acc m d :
  digit_ok d -> jrepr p acc (zmul m P) ->
  jrepr p (mul_naf_step p a X2 Y2 acc d) (zmul (2 * m + d) P).
Proof.
  intros Hd HJ. destruct acc as [[X3 Y3] Z3]. unfold mul_naf_step.
  pose proof (double_correct p a inG gadd gneg GH X3 Y3 Z3 _ (zmul_closed m P PG) HJ) as HD.
  rewrite zmul_double in HD by assumption.
  destruct (pj_double X3 Y3 Z3 p a) as [[X Y] Zc].
  destruct Hd as [->|[->| ->]]; cbn [Z.ltb Z.compare].
  - rewrite zmul_add by assumption.
    apply (add_correct p a inG gadd gneg GH); auto with grp. apply base_neg.
  - rewrite Z.add_0_r. exact HD.
  - rewrite zmul_add, zmul_1 by assumption.
    apply (add_correct p a inG gadd gneg GH); auto with grp.
Qed.

Lemma naf_fold_correct ds : Forall digit_ok ds -> forall acc m,
  jrepr p acc (zmul m P) ->
  jrepr p (fold_left (mul_naf_step p a X2 Y2) ds acc)
          (zmul (fold_left (fun s d => 2 * s + d) ds m) P).
Proof.
  induction 1 as [|d ds Hd _ IH]; intros acc m HJ; [exact HJ|].
  cbn [fold_left]. apply IH. apply naf_step_correct; assumption.
Qed.

Lemma horner_rev l : fold_left (fun s d => 2 * s + d) (rev l) 0 = digits_value l.
Proof.
  induction l as [|d t IH]; [reflexivity|].
  cbn [rev digits_value]. rewrite fold_left_app. cbn [fold_left]. rewrite IH. lia.
Qed.

Lemma naf_loop_correct l : Forall digit_ok l ->
  jrepr p (mul_naf_loop p a X2 Y2 l) (zmul (digits_value l) P).
Proof.
  intro H. unfold mul_naf_loop. rewrite <- horner_rev.
  apply naf_fold_correct; [apply Forall_rev, H | apply jrepr_inf_001].
Qed.

Lemma naf_step_xred acc d : xred p (X2, Y2, 1) -> xred p acc -> xred p (mul_naf_step p a X2 Y2 acc d).
Proof.
  intros HB HA. destruct acc as [[X3 Y3] Z3]. unfold mul_naf_step.
  pose proof (xred_double X3 Y3 Z3) as HD.
  destruct (pj_double X3 Y3 Z3 p a) as [[X Y] Zc].
  destruct (d <? 0); [apply xred_add; assumption|].
  destruct (0 <? d); [apply xred_add; assumption|exact HD].
Qed.

Lemma naf_loop_xred l : xred p (X2, Y2, 1) -> xred p (mul_naf_loop p a X2 Y2 l).
Proof.
  intro HB. unfold mul_naf_loop.
  assert (H0 : xred p (0, 0, 1)) by apply Zmod_0_l.
  revert H0. generalize (0, 0, 1). induction (rev l) as [|d ds IH]; intros acc HA; [exact HA|].
  cbn [fold_left]. apply IH. apply naf_step_xred; assumption.
Qed.

End Base.

(* --- the precomputed table --- *)

Definition table_ok (G : pt) (i0 : nat) (table : list (Z * Z)) : Prop :=
  forall j e, nth_error table j = Some e ->
    jrepr p (fst e, snd e, 1) (zmul (2 ^ Z.of_nat (i0 + j)) G).

Lemma table_ok_tail G i0 e t : table_ok G i0 (e :: t) ->
  jrepr p (fst e, snd e, 1) (zmul (2 ^ Z.of_nat i0) G) /\ table_ok G (S i0) t.
Proof.
  intro H. split.
  - specialize (H O e eq_refl). rewrite Nat.add_0_r in H. exact H.
  - intros j e' Hj. specialize (H (S j) e' Hj). rewrite Nat.add_succ_r in H. exact H.
Qed.

Lemma table_fold_zero t acc : fold_left (mul_table_step p a) t (0, acc) = (0, acc).
Proof.
  induction t as [|e t IH]; [reflexivity|]. cbn [fold_left].
  destruct acc as [[X3 Y3] Z3], e as [x y]. cbn. exact IH.
Qed.

Definition table_digit (other : Z) : Z :=
  if other mod 2 =? 0 then 0 else if 2 <=? other mod 4 then -1 else 1.

Lemma table_step_fst other acc e :
  fst (mul_table_step p a (other, acc) e) = (other - table_digit other) / 2.
Proof.
  destruct acc as [[X3 Y3] Z3], e as [x y]. unfold mul_table_step, table_digit.
  destruct (other mod 2 =? 0); cbn [negb].
  - rewrite Z.sub_0_r. reflexivity.
  - destruct (2 <=? other mod 4); cbn [fst]; f_equal; lia.
Qed.

Lemma table_digit_div other :
  other = table_digit other + 2 * ((other - table_digit other) / 2).
Proof.
  unfold table_digit.
  pose proof (Z.mod_pos_bound other 2 ltac:(lia)).
  pose proof (Z.div_mod other 2 ltac:(lia)) as D2.
  destruct (Z.eqb_spec (other mod 2) 0) as [E0|E0].
  - rewrite Z.sub_0_r. lia.
  - assert (E1 : other mod 2 = 1) by lia.
    destruct (2 <=? other mod 4).
    + replace (other - -1) with ((other / 2 + 1) * 2) by lia. rewrite Z.div_mul by lia. lia.
    + replace (other - 1) with ((other / 2) * 2) by lia. rewrite Z.div_mul by lia. lia.
Qed.

Lemma table_step_correct G s other acc e i :
  inG G -> jrepr p acc (zmul s G) -> jrepr p (fst e, snd e, 1) (zmul (2 ^ i) G) ->
  jrepr p (snd (mul_table_step p a (other, acc) e)) (zmul (s + table_digit other * 2 ^ i) G).
Proof.
  intros HG HA HE. destruct acc as [[X3 Y3] Z3], e as [x y]. cbn [fst snd] in HE.
  assert (GT : inG (zmul (2 ^ i) G)) by auto with grp.
  unfold mul_table_step, table_digit.
  destruct (other mod 2 =? 0); cbn [negb snd].
  - rewrite Z.mul_0_l, Z.add_0_r. exact HA.
  - destruct (2 <=? other mod 4); cbn [snd].
    + rewrite zmul_add by assumption. replace (-1 * 2 ^ i) with (-1 * (2 ^ i)) by lia.
      rewrite <- zmul_mul by assumption.
      apply (add_correct p a inG gadd gneg GH); auto with grp.
      apply base_neg; assumption.
    + rewrite zmul_add by assumption. rewrite Z.mul_1_l.
      apply (add_correct p a inG gadd gneg GH); auto with grp.
Qed.

Lemma table_next_bound other f :
  0 <= other <= 2 ^ Z.of_nat (S f) -> 0 <= (other - table_digit other) / 2 <= 2 ^ Z.of_nat f.
Proof.
  intros [H0 H1]. pose proof (table_digit_div other) as E.
  rewrite Nat2Z.inj_succ, Z.pow_succ_r in H1 by lia.
  assert (D : table_digit other = -1 \/ table_digit other = 0 \/ table_digit other = 1).
  { unfold table_digit. destruct (_ =? _); [lia|]. destruct (_ <=? _); lia. }
  assert (other = 0 -> table_digit other = 0).
  { intros ->. reflexivity. }
  lia.
Qed.

Lemma table_fold_correct G : inG G -> forall table i0 other acc s f,
  table_ok G i0 table -> jrepr p acc (zmul s G) ->
  0 <= other <= 2 ^ Z.of_nat f -> (f < length table)%nat ->
  jrepr p (snd (fold_left (mul_table_step p a) table (other, acc)))
          (zmul (s + other * 2 ^ Z.of_nat i0) G).
Proof.
  intros HG. induction table as [|e t IH]; intros i0 other acc s f HT HA HB HL; [cbn in HL; lia|].
  cbn [fold_left]. destruct (table_ok_tail _ _ _ _ HT) as [HE HT'].
  pose proof (table_step_correct G s other acc e (Z.of_nat i0) HG HA HE) as HS.
  pose proof (table_step_fst other acc e) as HF.
  destruct (mul_table_step p a (other, acc) e) as [other' acc']. cbn [fst snd] in *. subst other'.
  pose proof (table_digit_div other) as ED.
  assert (EQ : s + other * 2 ^ Z.of_nat i0 =
               s + table_digit other * 2 ^ Z.of_nat i0 +
               (other - table_digit other) / 2 * 2 ^ Z.of_nat (S i0)).
  { rewrite Nat2Z.inj_succ, Z.pow_succ_r by lia.
    set (q := (other - table_digit other) / 2) in *. set (d := table_digit other) in *.
    rewrite ED at 1. lia. }
  rewrite EQ.
  destruct f as [|f'].
  - (* other <= 1: the next scalar is 0 and the rest of the table changes nothing *)
    assert (E0 : (other - table_digit other) / 2 = 0).
    { cbn in HB. assert (other = 0 \/ other = 1) as [-> | ->] by lia; reflexivity. }
    rewrite E0, table_fold_zero. cbn [snd]. rewrite Z.mul_0_l, Z.add_0_r. exact HS.
  - apply IH with (f := f'); try assumption.
    + apply table_next_bound. exact HB.
    + cbn in HL. lia.
Qed.

(* _maybe_precompute *)
Lemma precompute_loop_correct G : inG G -> forall fuel i order doubler acc table,
  precompute_loop fuel p a i order doubler acc = Ok table ->
  acc <> [] -> table_ok G 0 acc ->
  i = 2 ^ Z.of_nat (length acc - 1) ->
  jrepr p doubler (zmul i G) ->
  table_ok G 0 table /\ table <> [] /\ order <= 2 ^ Z.of_nat (length table - 1).
Proof.
  intros HG. induction fuel as [|f IH]; intros i order doubler acc table E Hne HT Hi HD; [discriminate E|].
  cbn [precompute_loop] in E.
  destruct (Z.ltb_spec i order) as [Hlt|Hge].
  2:{ injection E as <-. repeat split; try assumption. lia. }
  destruct doubler as [[X1 Y1] Z1]. unfold pj_double_pt in E.
  destruct (Y1 =? 0); [discriminate E|].
  unfold wrap in E. destruct (is_inf (pj_double X1 Y1 Z1 p a)) eqn:EI; [discriminate E|].
  pose proof (double_correct p a inG gadd gneg GH X1 Y1 Z1 _ (zmul_closed i G HG) HD) as HDD.
  rewrite zmul_double in HDD by assumption.
  destruct (pj_scale p (pj_double X1 Y1 Z1 p a)) as [[[x y] z]|e] eqn:ES; [|discriminate E].
  cbn [bind] in E.
  destruct (scale_correct _ _ _ HDD ES) as [HS [HZ1 _]].
  assert (Hfin : zmul (2 * i) G <> None).
  { intro K. apply (jrepr_is_inf _ _ (zmul_closed _ G HG) HDD) in K. congruence. }
  specialize (HZ1 Hfin). unfold jZ in HZ1; cbn [snd] in HZ1. subst z.
  apply IH in E; try assumption.
  - destruct acc; [contradiction|discriminate].
  - intros j e Hj. destruct (Nat.lt_ge_cases j (length acc)) as [Hjl|Hjl].
    + rewrite nth_error_app1 in Hj by assumption. apply HT, Hj.
    + rewrite nth_error_app2 in Hj by assumption.
      destruct (j - length acc)%nat as [|k] eqn:Ek; [|destruct k; discriminate Hj].
      cbn in Hj. injection Hj as <-. cbn [fst snd].
      assert (j = length acc) by lia. subst j. cbn [Nat.add].
      replace (2 ^ Z.of_nat (length acc)) with (2 * i); [exact HS|].
      rewrite Hi. destruct acc; [contradiction|]. cbn [length].
      rewrite Nat.sub_succ, Nat.sub_0_r, Nat2Z.inj_succ, Z.pow_succ_r by lia. reflexivity.
  - rewrite app_length. cbn [length]. rewrite Hi.
    destruct acc; [contradiction|]. cbn [length].
    replace (S (length acc) + 1 - 1)%nat with (S (length acc)) by lia.
    rewrite Nat.sub_succ, Nat.sub_0_r, Nat2Z.inj_succ, Z.pow_succ_r by lia. lia.
  - replace (i * 2) with (2 * i) by lia. exact HS.
Qed.

Lemma precompute_correct G J ord table : inG G -> G <> None -> jrepr p J G ->
  pj_precompute p a ord J = Ok table ->
  table_ok G 0 table /\ table <> [] /\ ord * 4 <= 2 ^ Z.of_nat (length table - 1).
Proof.
  intros HG Hfin HJ E. unfold pj_precompute in E.
  destruct (ord =? 0); [discriminate E|].
  destruct (pj_x p J) as [x|e] eqn:EX; [|discriminate E].
  destruct (pj_y p J) as [y|e] eqn:EY; [|discriminate E]. cbn [bind] in E.
  destruct G as [[gx gy]|]; [|contradiction].
  pose proof (xy_correct J gx gy x y HJ EX EY) as H0.
  apply (precompute_loop_correct (Some (gx, gy)) HG) in E; try assumption.
  - discriminate.
  - intros j e Hj. destruct j as [|j]; [|destruct j; discriminate Hj].
    cbn in Hj. injection Hj as <-. cbn [fst snd]. change (2 ^ Z.of_nat (0 + 0)) with 1. rewrite zmul_1. exact H0.
  - reflexivity.
  - rewrite zmul_1. exact HJ.
Qed.

(* --- __mul__ --- *)

Theorem mul_correct J Q ord gen k r :
  inG Q -> jrepr p J Q ->
  (ord = 0 \/ (0 < ord /\ zmul ord Q = None)) ->
  (gen = true -> Q <> None) ->
  0 <= k ->
  pj_mul p a ord gen J k = Ok r ->
  jrepr_opt p r (zmul k Q).
Proof.
  intros HG HJ Hord Hgen Hk E. destruct J as [[X Y] Zc]. unfold pj_mul in E.
  destruct (Z.eqb_spec Y 0) as [->|HY].
  { cbn [orb] in E. injection E as <-. cbn.
    assert (Q = None) as ->; [|apply zmul_inf].
    apply (jrepr_is_inf _ _ HG HJ). reflexivity. }
  cbn [orb] in E. destruct (Z.eqb_spec k 0) as [->|Hk0].
  { injection E as <-. reflexivity. }
  destruct (Z.eqb_spec k 1) as [->|Hk1].
  { injection E as <-. unfold jrepr_opt. rewrite zmul_1. exact HJ. }
  set (k' := if ord =? 0 then k else k mod (ord * 2)) in E.
  assert (Hk' : 0 <= k' /\ zmul k' Q = zmul k Q /\ (ord <> 0 -> k' < ord * 2)).
  { unfold k'. destruct (Z.eqb_spec ord 0) as [->|Ho]; [repeat split; [assumption|contradiction]|].
    destruct Hord as [?|[Hpos Hz]]; [contradiction|].
    split; [apply Z.mod_pos_bound; lia|]. split; [|intros _; apply Z.mod_pos_bound; lia].
    apply zmul_mod; [assumption| |lia].
    rewrite <- zmul_mul by assumption. rewrite zmul_mul by assumption.
    replace (ord * 2) with (2 * ord) by lia. rewrite <- zmul_mul, Hz by assumption. apply zmul_inf. }
  destruct Hk' as [Hk'0 [Hk'e Hk'b]]. rewrite <- Hk'e. clearbody k'.
  destruct gen.
  - (* precomputed table *)
    destruct (pj_precompute p a ord (X, Y, Zc)) as [table|e] eqn:EP; [|discriminate E].
    cbn [bind] in E. injection E as <-.
    pose proof (Hgen eq_refl) as Hfin.
    assert (Ho : ord <> 0).
    { intros ->. unfold pj_precompute in EP. discriminate EP. }
    destruct (precompute_correct Q _ ord table HG Hfin HJ EP) as [HT [Hne HL]].
    apply wrap_correct; [auto with grp|].
    unfold mul_table_loop.
    replace (zmul k' Q) with (zmul (0 + k' * 2 ^ Z.of_nat 0) Q) by (f_equal; cbn; lia).
    apply table_fold_correct with (f := (length table - 1)%nat); try assumption.
    + apply jrepr_inf_001.
    + specialize (Hk'b Ho). lia.
    + destruct table; [contradiction|cbn; lia].
  - (* NAF *)
    destruct (pj_scale p (X, Y, Zc)) as [[[X2 Y2] Z2]|e] eqn:ES; [|discriminate E].
    cbn [bind] in E.
    destruct (naf k') as [digits|e] eqn:EN; [|discriminate E]. cbn [bind] in E.
    injection E as <-.
    destruct (naf_correct k' Hk'0) as [l [EN' [V [F _]]]]. rewrite EN in EN'. injection EN' as <-.
    destruct (scale_correct _ _ _ HJ ES) as [HS _].
    pose proof (scale_z1 _ _ ES) as HZ1. unfold jZ in HZ1; cbn [snd] in HZ1. subst Z2.
    apply wrap_correct; [auto with grp|].
    rewrite <- V. apply naf_loop_correct; assumption.
Qed.

Lemma mul_xred J ord k r :
  xred p J -> pj_mul p a ord false J k = Ok (Some r) -> xred p r.
Proof.
  intros HR E. destruct J as [[X Y] Zc]. unfold pj_mul in E.
  destruct ((Y =? 0) || (k =? 0)); [discriminate E|].
  destruct (k =? 1); [injection E as <-; exact HR|].
  destruct (pj_scale p (X, Y, Zc)) as [[[X2 Y2] Z2]|e] eqn:ES; [|discriminate E]. cbn [bind] in E.
  destruct (naf _) as [digits|e]; [|discriminate E]. cbn [bind] in E.
  unfold wrap in E. destruct (is_inf _); [discriminate E|]. injection E as <-.
  assert (HB : xred p (X2, Y2, Z2)).
  { unfold pj_scale in ES. destruct (Zc =? 1); [injection ES as <- <- <-; exact HR|].
    destruct (inverse_mod Zc p); [|discriminate ES]. cbn [bind] in ES. injection ES as <- <- <-.
    unfold xred, jX; cbn [fst]. apply Zmod_mod. }
  unfold mul_naf_loop.
  assert (H0 : xred p (0, 0, 1)) by apply Zmod_0_l.
  revert H0. generalize (0, 0, 1). induction (rev digits) as [|d ds IH]; intros acc HA; [exact HA|].
  cbn [fold_left]. apply IH.
  destruct acc as [[X3 Y3] Z3]. unfold mul_naf_step.
  pose proof (xred_double X3 Y3 Z3) as HD.
  destruct (pj_double X3 Y3 Z3 p a) as [[X' Y'] Zc'].
  assert (HB' : xred p (X2, - Y2, 1) /\ xred p (X2, Y2, 1)) by (split; exact HB).
  destruct (d <? 0); [apply xred_add; tauto|].
  destruct (0 <? d); [apply xred_add; tauto|exact HD].
Qed.


(* --- public key derivation and ECDH --- *)

Lemma pubkey_of_correct G JG n d Q :
  inG G -> G <> None -> jrepr p JG G -> 0 < n -> zmul n G = None -> 0 <= d ->
  pubkey_of p a n JG d = Ok (Some Q) ->
  jrepr p (fst Q, snd Q, 1) (zmul d G).
Proof.
  intros HG Hfin HJ Hn Hord Hd E. unfold pubkey_of in E.
  destruct (pj_mul p a n true JG d) as [r|e] eqn:EM; [|discriminate E]. cbn [bind] in E.
  destruct r as [J|]; [|discriminate E].
  destruct (pj_scale p J) as [[[x y] z]|e] eqn:ES; [|discriminate E]. cbn [bind] in E.
  injection E as <-. cbn [fst snd].
  pose proof (mul_correct JG G n true d (Some J) HG HJ (or_intror (conj Hn Hord)) (fun _ => Hfin) Hd EM) as HM.
  cbn in HM. destruct (scale_correct _ _ _ HM ES) as [HS _].
  pose proof (scale_z1 _ _ ES) as HZ. unfold jZ in HZ; cbn [snd] in HZ. subst z. exact HS.
Qed.

Lemma ecdh_shared_correct Q JQ d r :
  inG Q -> jrepr p JQ Q -> xred p JQ -> 0 <= d ->
  ecdh_shared p a JQ d = Ok r ->
  match zmul d Q with
  | None => r = None
  | Some (sx, _) => exists v, r = Some v /\ v == sx /\ v mod p = v
  end.
Proof.
  intros HG HJ HR Hd E. unfold ecdh_shared in E.
  destruct (pj_mul p a 0 false JQ d) as [r0|e] eqn:EM; [|discriminate E]. cbn [bind] in E.
  pose proof (mul_correct JQ Q 0 false d r0 HG HJ (or_introl eq_refl) ltac:(discriminate) Hd EM) as HM.
  assert (HGS : inG (zmul d Q)) by auto with grp.
  destruct r0 as [J|].
  - cbn in HM. pose proof (jrepr_is_inf _ _ HGS HM) as HI.
    pose proof (mul_xred _ _ _ _ HR EM) as HXR.
    destruct (zmul d Q) as [[sx sy]|].
    + destruct (is_inf J) eqn:EI; [destruct HI as [HI _]; specialize (HI eq_refl); discriminate HI|].
      destruct (pj_x p J) as [v|e] eqn:EX; [|discriminate E]. cbn [bind] in E. injection E as <-.
      exists v. split; [reflexivity|]. apply (x_correct J sx sy v HM HXR EX).
    + destruct HI as [_ HI]. rewrite (HI eq_refl) in E. injection E as <-. reflexivity.
  - cbn in HM. rewrite HM. injection E as <-. reflexivity.
Qed.

(* Both parties compute the same secret.  Q1, Q2 are the public keys as the peers
   receive them; their x is in range because the receiving side validates it
   (pubkey_valid, see pubkey_valid_sound). *)
Theorem ecdh_agree G JG n d1 d2 Q1 Q2 r1 r2 :
  inG G -> G <> None -> jrepr p JG G -> 0 < n -> zmul n G = None -> 0 <= d1 -> 0 <= d2 ->
  pubkey_of p a n JG d1 = Ok (Some Q1) -> pubkey_of p a n JG d2 = Ok (Some Q2) ->
  0 <= fst Q1 < p -> 0 <= fst Q2 < p ->
  ecdh_shared p a (fst Q2, snd Q2, 1) d1 = Ok r1 ->
  ecdh_shared p a (fst Q1, snd Q1, 1) d2 = Ok r2 ->
  r1 = r2.
Proof.
  intros HG Hfin HJ Hn Hord Hd1 Hd2 E1 E2 R1 R2 S1 S2.
  pose proof (pubkey_of_correct G JG n d1 Q1 HG Hfin HJ Hn Hord Hd1 E1) as P1.
  pose proof (pubkey_of_correct G JG n d2 Q2 HG Hfin HJ Hn Hord Hd2 E2) as P2.
  assert (X1 : xred p (fst Q1, snd Q1, 1)) by (unfold xred, jX; cbn [fst]; apply Z.mod_small; exact R1).
  assert (X2 : xred p (fst Q2, snd Q2, 1)) by (unfold xred, jX; cbn [fst]; apply Z.mod_small; exact R2).
  pose proof (ecdh_shared_correct _ _ d1 r1 (zmul_closed d2 G HG) P2 X2 Hd1 S1) as A.
  pose proof (ecdh_shared_correct _ _ d2 r2 (zmul_closed d1 G HG) P1 X1 Hd2 S2) as B.
  rewrite zmul_mul in A, B by assumption. rewrite (Z.mul_comm d2 d1) in B.
  destruct (zmul (d1 * d2) G) as [[sx sy]|].
  - destruct A as [v1 [-> [A1 A2]]]. destruct B as [v2 [-> [B1 B2]]]. f_equal.
    rewrite <- A2, <- B2. apply eqm_def. rewrite A1, B1. reflexivity.
  - congruence.
Qed.

End Mul.

(* ---------------------------------------------------------------------- *)
(* curve membership and public-key validation (integer logic, no group needed) *)

Section Validation.
Variable p : Z.
Notation "x == y" := (eqm p x y) (at level 70, no associativity).
Add Ring eqm_ring4 : (eqm_rt p)
  (setoid (eqm_equiv p) (eqm_ext p), morphism (eqm_morph p), constants [Zcst]).

Theorem contains_point_spec a b x y :
  contains_point x y p a b = true <-> on_curve p a b (x, y).
Proof.
  unfold contains_point, on_curve. rewrite Z.eqb_eq, <- eqm_0_iff.
  split; intro H.
  - apply eqm_sub_0. rewrite <- H. ring.
  - apply eqm_sub_0 in H. rewrite <- H. ring.
Qed.

Lemma range_spec x : (0 <=? x) && (x <? p) = true <-> 0 <= x < p.
Proof. rewrite andb_true_iff, Z.leb_le, Z.ltb_lt. reflexivity. Qed.

(* accepted => coordinates in range, on the curve, generator order non-zero *)
Theorem pubkey_valid_sound a b n h x y :
  pubkey_valid p a b n h true x y = Ok true ->
  0 <= x < p /\ 0 <= y < p /\ on_curve p a b (x, y) /\ n <> 0.
Proof.
  unfold pubkey_valid. intro E.
  destruct ((0 <=? x) && (x <? p)) eqn:Rx; [|discriminate E].
  destruct ((0 <=? y) && (y <? p)) eqn:Ry; [|discriminate E].
  cbn [negb orb andb] in E.
  destruct (contains_point x y p a b) eqn:C; [|discriminate E]. cbn [negb] in E.
  destruct (Z.eqb_spec n 0); [discriminate E|].
  apply range_spec in Rx, Ry. apply contains_point_spec in C. tauto.
Qed.

(* cofactor 1 (16 of the 17 curves): accepted exactly when in range and on the curve *)
Theorem pubkey_valid_h1 a b n x y : n <> 0 ->
  pubkey_valid p a b n 1 true x y =
    Ok (((0 <=? x) && (x <? p)) && ((0 <=? y) && (y <? p)) && contains_point x y p a b).
Proof.
  intro Hn. unfold pubkey_valid. apply Z.eqb_neq in Hn. rewrite Hn.
  destruct ((0 <=? x) && (x <? p)); [|reflexivity].
  destruct ((0 <=? y) && (y <? p)); [|reflexivity].
  cbn [negb orb andb Z.eqb Pos.eqb].
  destruct (contains_point x y p a b); reflexivity.
Qed.

Theorem pubkey_valid_h1_iff a b n x y : n <> 0 ->
  (pubkey_valid p a b n 1 true x y = Ok true <->
   0 <= x < p /\ 0 <= y < p /\ on_curve p a b (x, y)).
Proof.
  intro Hn. rewrite pubkey_valid_h1 by assumption.
  rewrite <- contains_point_spec, <- !range_spec.
  split.
  - intro E. injection E as E. apply andb_true_iff in E as [E E3]. apply andb_true_iff in E as [E1 E2]. tauto.
  - intros [E1 [E2 E3]]. rewrite E1, E2, E3. reflexivity.
Qed.

(* every rejection class of the property: out of range, off the curve (which covers
   points of another curve and the all-zero "infinity" encoding when b <> 0 mod p) *)
Theorem pubkey_valid_rejects a b n h x y :
  (~ (0 <= x < p) \/ ~ (0 <= y < p) \/ ~ on_curve p a b (x, y)) ->
  pubkey_valid p a b n h true x y = Ok false.
Proof.
  intro H. unfold pubkey_valid.
  destruct ((0 <=? x) && (x <? p)) eqn:Rx; [|reflexivity].
  destruct ((0 <=? y) && (y <? p)) eqn:Ry; [|reflexivity].
  cbn [negb orb andb].
  destruct (contains_point x y p a b) eqn:C; [|reflexivity].
  apply range_spec in Rx, Ry. apply contains_point_spec in C. tauto.
Qed.

Theorem origin_off_curve a b : ~ b == 0 -> ~ on_curve p a b (0, 0).
Proof.
  intros Hb H. unfold on_curve in H. apply Hb.
  transitivity (0 * 0 * 0 + a * 0 + b); [ring|]. rewrite <- H. ring.
Qed.

End Validation.
